(* C08 (extension): peers stay disjoint over histories (partial in its alphabet).

   Tracked instances: the roots returned by constructor calls of the history.  Invariant PD:
   two tracked instances at different cells reach no common cell, each is a live cell and holds
   every defaulted init-enabled attribute in its own dictionary (hd, from SepMore.v).
   It is preserved by every operation of the alphabet `peer_op_ok`:
     - constructor calls (keywords not UNCHANGED; positional key a scalar),
     - every helper called copy-on-write (_inplace=False) with scalar arguments, deepcopy,
       the caller building an argument object of scalars,
     - in place, on a tracked instance and for ANY attribute: obj.a = <scalar>, del obj.a,
       with_<a>(<scalar>), reset_<a>(), reset(), update_<a>(<scalar>), transform_<a>(<scalar callback>)
       with _inplace=True,
   provided every heap a step starts from is free of dangling references (`run_wf`, decidable:
   `run_wfb`); SepMore4.v discharges that proviso for histories with scalar arguments.

   Shape of the proof.  Copy-on-write steps: with watermark b = length of the heap before the
   operation and NO allowed old object, the separation judgement of SepProofs.v says that the cells
   allocated by the operation refer only to cells allocated by it, and nothing old is written.
   In-place steps have the footprint `ishape` (reflexive, transitive): allocation phases (the same
   judgement, allowed old objects = what the receiver reached) alternate with single writes to the
   receiver's cell; invalidation is a loop of such deletions (induction on fuel). *)
From Coq Require Import List ZArith Bool Arith Lia.
From SC Require Import Base.Res Base.PyList Inst.Heap Inst.ClassTable Inst.Model Inst.Framed
  Inst.FrameProofs Inst.Reach Inst.FrozenProofs Inst.AtomicProofs Inst.SepProofs Inst.SepMore Inst.SepMore2.
Import ListNotations.
Open Scope nat_scope.

#[local] Opaque FUEL.

(* ------------------------------------------------------------------ *)
(** * Graph reasoning: one old cell lx rewritten, fresh cells closed *)
Section Graph.
  Variables (h h' : list obj) (lx : loc).
  Let b := length h.
  Hypothesis WF : wf_heap h.
  Hypothesis Same : forall l, l < b -> l <> lx -> nth_error h' l = nth_error h l.
  Hypothesis Closed : forall l o y, b <= l -> nth_error h' l = Some o -> In y (refs_of o) -> b <= y.

  Lemma reach_other ly :
    ly < b -> (forall z, reach h ly z -> z <> lx) -> forall z, reach h' ly z -> reach h ly z /\ z < b.
  Proof.
    intros Hly Hno z R. induction R as [|z o y R [IH1 IH2] Hn Hin]; [split; [constructor|exact Hly]|].
    rewrite (Same z IH2 (Hno z IH1)) in Hn. split; [eapply reach_step; eauto|]. eapply WF; eauto.
  Qed.

  Lemma reach_fresh r : b <= r -> forall z, reach h' r z -> b <= z.
  Proof. intros Hr z R. induction R as [|z o y R IH Hn Hin]; auto. eapply Closed; eauto. Qed.
End Graph.

(* the rewritten cell and the fresh cells may also refer to what lx reached before *)
Section GraphA.
  Variables (h h' : list obj) (lx : loc) (b : nat).
  Hypothesis Same : forall l, l < b -> l <> lx -> nth_error h' l = nth_error h l.
  Hypothesis ClosedA : forall l o y, b <= l -> nth_error h' l = Some o -> In y (refs_of o) -> b <= y \/ reach h lx y.
  Hypothesis UpdA : forall o' y, nth_error h' lx = Some o' -> In y (refs_of o') -> b <= y \/ reach h lx y.

  Lemma reach_updA : forall z, reach h' lx z -> b <= z \/ reach h lx z.
  Proof.
    intros z R. induction R as [|z o y R IH Hn Hin]; [right; constructor|].
    destruct (Nat.lt_ge_cases z b) as [Hlt|Hge]; [|eapply ClosedA; eauto].
    destruct IH as [IH|IH]; [lia|].
    destruct (Nat.eq_dec z lx) as [->|Hne]; [eapply UpdA; eauto|].
    rewrite (Same z Hlt Hne) in Hn. right. eapply reach_step; eauto.
  Qed.
End GraphA.

Lemma vrefs_assoc_set a v d y :
  In y (vrefs (map snd (assoc_set a v d))) -> v = VRef y \/ In y (vrefs (map snd d)).
Proof.
  unfold vrefs. intro H. apply in_flat_map in H. destruct H as [x [Hx Hy]].
  apply in_map_iff in Hx. destruct Hx as [[a0 v0] [E Hin]]. simpl in E. subst v0.
  destruct x; simpl in Hy; try contradiction. destruct Hy as [<-|[]].
  unfold assoc_set in Hin. destruct (existsb (fun p : nat * val => fst p =? a) d).
  - apply in_map_iff in Hin. destruct Hin as [[a1 v1] [E Hin]]. simpl in E.
    destruct (a1 =? a); inversion E; subst; auto.
    right. apply in_flat_map. exists (VRef l). split; [|simpl; auto].
    apply in_map_iff. exists (a0, VRef l). auto.
  - apply in_app_or in Hin. destruct Hin as [Hin|[E|[]]].
    + right. apply in_flat_map. exists (VRef l). split; [|simpl; auto].
      apply in_map_iff. exists (a0, VRef l). auto.
    + inversion E; auto.
Qed.

(* decidable dangling-freedom *)
Definition wf_heapb (h : list obj) : bool :=
  forallb (fun o => forallb (fun y => y <? length h) (refs_of o)) h.
Lemma wf_heapb_ok h : wf_heapb h = true -> wf_heap h.
Proof.
  intros H l o y Hn Hin. unfold wf_heapb in H. rewrite forallb_forall in H.
  specialize (H o (nth_error_In _ _ Hn)). rewrite forallb_forall in H. apply Nat.ltb_lt. auto.
Qed.

(* ------------------------------------------------------------------ *)
(** * The footprint of an in-place operation on the instance at cell l, relative to the heap h0
      (of size b) it started from: no other old cell is written, the cells allocated since refer
      only to cells allocated since, cell l is still an instance of its class and refers only to
      what it referred to in h0 or to cells allocated since.  Reflexive and transitive. *)
Definition ishape (b : nat) (h0 : list obj) (l : loc) (s' : state) : Prop :=
  b <= length (heap s') /\
  (forall x, x < b -> x <> l -> nth_error (heap s') x = nth_error h0 x) /\
  (forall x o y, b <= x -> nth_error (heap s') x = Some o -> In y (refs_of o) -> b <= y \/ reach h0 l y) /\
  (forall o' y, nth_error (heap s') l = Some o' -> In y (refs_of o') -> b <= y \/ reach h0 l y) /\
  (forall c d, nth_error h0 l = Some (OInst c d) -> exists d', nth_error (heap s') l = Some (OInst c d')).

Lemma ishape_refl l s : ishape (length (heap s)) (heap s) l s.
Proof.
  split; [lia|]. split; [auto|]. split.
  - intros x o y Hx Hn. apply nth_error_None in Hx. congruence.
  - split; [intros o' y Hn Hin; right; eapply reach_step; [constructor|exact Hn|exact Hin]|]. intros c d H. eauto.
Qed.

(* what the receiver reaches afterwards: cells allocated since, or what it reached before *)
Lemma ishape_reach b h0 l s1 : ishape b h0 l s1 -> forall z, reach (heap s1) l z -> b <= z \/ reach h0 l z.
Proof. intros (_ & S1 & C1 & U1 & _). apply (reach_updA h0 (heap s1) l b S1 C1 U1). Qed.

Lemma ishape_trans b h0 l s1 s2 :
  l < b -> ishape b h0 l s1 -> ishape (length (heap s1)) (heap s1) l s2 -> ishape b h0 l s2.
Proof.
  intros Hl I1 (L2 & S2 & C2 & U2 & K2). pose proof (ishape_reach b h0 l s1 I1) as R1.
  destruct I1 as (L1 & S1 & C1 & U1 & K1).
  split; [lia|]. split; [|split; [|split]].
  - intros x Hx Hne. rewrite S2 by (auto; lia). apply S1; auto.
  - intros x o y Hx Hn Hin. destruct (Nat.lt_ge_cases x (length (heap s1))) as [Hlt|Hge].
    + rewrite S2 in Hn by (auto; lia). eapply C1; eauto.
    + destruct (C2 x o y Hge Hn Hin) as [H|H]; [left; lia|apply R1; exact H].
  - intros o' y Hn Hin. destruct (U2 o' y Hn Hin) as [H|H]; [left; lia|apply R1; exact H].
  - intros c d H. destruct (K1 c d H) as [d1 H1]. eapply K2; eauto.
Qed.

(* ------------------------------------------------------------------ *)
(** * The operations *)
Section Peers.
  Variable ct : ctable.
  Hypothesis no_dnc : forall c k, lookup_cls ct c = Some k -> c_dnc k = false.
  Hypothesis Hscalar : scalar_table ct.
  Hypothesis Hg : tgb ct = true.
  Hypothesis no_dnc_attr : forall k sp, In k ct -> In sp (c_attrs k) -> a_dnc sp = false.
  (* every attribute is init-enabled; no class-dict overrides (no plain subclasses) *)
  Hypothesis all_init : forall k sp, In k ct -> In sp (c_attrs k) -> a_init sp = true.
  Hypothesis no_overrides : forall k, In k ct -> c_overrides k = [].

  Let wf_owner := fun c0 k0 => tgb_owner ct c0 k0 Hg.
  Local Opaque exec.

  Lemma dncname_false a : dncname ct a = false.
  Proof.
    unfold dncname. apply not_true_is_false. intro H. apply existsb_exists in H. destruct H as [k [Hk H]].
    apply existsb_exists in H. destruct H as [sp [Hsp H]]. apply andb_true_iff in H. destruct H as [_ H].
    rewrite (no_dnc_attr k sp Hk Hsp) in H. discriminate.
  Qed.
  Lemma NoA_dnc' b h0 : dnc_allowed ct b NoA h0.
  Proof.
    intros l c d k a sp x _ _ Hk _ Ha Hd. destruct (lookup_cls_In _ _ _ Hk) as [Hkin _].
    destruct (lookup_attr_In _ _ _ Ha) as [Hspin _]. rewrite (no_dnc_attr k sp Hkin Hspin) in Hd. discriminate.
  Qed.
  Lemma NoA_closed' b h0 : A_closed b NoA NoW h0.
  Proof. split; [intros l o []|intros l []]. Qed.
  Lemma NoA_table b : table_ok ct b NoA.
  Proof. apply scalar_table_ok. exact Hscalar. Qed.

  (* what the receiver reached in the heap the operation started from *)
  Definition RL (h0 : list obj) (l : loc) : loc -> Prop := fun y => reach h0 l y.
  Lemma RL_closed b h0 l : A_closed b (RL h0 l) NoW h0.
  Proof.
    split; [|intros x []]. intros x o Hx _ Hn. apply obj_ok_of_refs. intros y Hy. right. eapply reach_step; eauto.
  Qed.
  Lemma RL_dnc b h0 l : dnc_allowed ct b (RL h0 l) h0.
  Proof.
    intros x c d k a sp v _ _ Hk _ Ha Hd. destruct (lookup_cls_In _ _ _ Hk) as [Hkin _].
    destruct (lookup_attr_In _ _ _ Ha) as [Hspin _]. rewrite (no_dnc_attr k sp Hkin Hspin) in Hd. discriminate.
  Qed.
  Lemma RL_table b h0 l : table_ok ct b (RL h0 l).
  Proof. apply scalar_table_ok. exact Hscalar. Qed.

  (* ---------- in-place writes: allocation phases and writes to the receiver ---------- *)
  Lemma vrefs_assoc_del a d y : In y (vrefs (map snd (assoc_del a d))) -> In y (vrefs (map snd d)).
  Proof.
    unfold vrefs, assoc_del. intro H. apply in_flat_map in H. destruct H as [x [Hx Hy]].
    apply in_map_iff in Hx. destruct Hx as [p [E Hin]]. apply filter_In in Hin. destruct Hin as [Hin _].
    apply in_flat_map. exists x. split; auto. apply in_map_iff. exists p. auto.
  Qed.

  Lemma old_cell b h0 s l o : sinv b (RL h0 l) NoW h0 s -> l < b -> nth_error h0 l = Some o -> nth_error (heap s) l = Some o.
  Proof. intros (_ & Old & _) Hl Hn. destruct (Old l Hl) as [[]|E]. congruence. Qed.

  (* a state reached by allocation only *)
  Lemma sinv_ishape b h0 l s1 : sinv b (RL h0 l) NoW h0 s1 -> l < b -> ishape b h0 l s1.
  Proof.
    intros (L & Old & Cl) Hl. split; [exact L|]. split; [|split; [|split]].
    - intros x Hx _. destruct (Old x Hx) as [[]|E]. exact E.
    - intros x o y Hx Hn Hin. exact (obj_ok_refs b (RL h0 l) o y (Cl x o Hx Hn) Hin).
    - intros o' y Hn Hin. right. destruct (Old l Hl) as [[]|E]. rewrite E in Hn.
      eapply reach_step; [constructor|exact Hn|exact Hin].
    - intros c d H. exists d. destruct (Old l Hl) as [[]|E]. congruence.
  Qed.
  (* ... followed by one write of a dictionary with old or new references *)
  Lemma upd_ishape b h0 l s1 c d d' :
    sinv b (RL h0 l) NoW h0 s1 -> l < b -> nth_error h0 l = Some (OInst c d) ->
    (forall y, In y (vrefs (map snd d')) -> b <= y \/ reach h0 l y) ->
    ishape b h0 l (upd s1 l (OInst c d')).
  Proof.
    intros I1 Hl Hn Hrefs. assert (Hl1 := old_cell b h0 s1 l _ I1 Hl Hn). destruct I1 as (L & Old & Cl).
    assert (Hlt : l < length (heap s1)) by (apply nth_error_Some; congruence).
    unfold upd. split; [simpl; rewrite set_nth_length; exact L|]. split; [|split; [|split]]; simpl.
    - intros x Hx Hne. rewrite set_nth_other by auto. destruct (Old x Hx) as [[]|E]. exact E.
    - intros x o y Hx Hnx Hin. rewrite set_nth_other in Hnx by lia.
      exact (obj_ok_refs b (RL h0 l) o y (Cl x o Hx Hnx) Hin).
    - intros o' y Hn' Hin. rewrite nth_error_set_nth_same in Hn' by exact Hlt. inversion Hn'; subst o'.
      simpl in Hin. exact (Hrefs y Hin).
    - intros c0 d0 H0. rewrite nth_error_set_nth_same by exact Hlt. rewrite Hn in H0. inversion H0; subst. eauto.
  Qed.

  (* mutate_attr(inplace) up to the invalidation: nothing happened, or the single write *)
  Lemma mutate_attr_inplace_total rec l a v tc force s c d k r s' :
    nth_error (heap s) l = Some (OInst c d) -> lookup_cls ct c = Some k ->
    is_sentinel v = false ->
    mutate_attr ct rec l a v true tc force true s = (r, s') ->
    s' = s \/ s' = upd s l (OInst c (assoc_set a v d)).
  Proof.
    intros Hl Hc Hv. unfold mutate_attr. rewrite Hv.
    rewrite (bind_ok _ _ _ _ _ (read_inst_at l s c d Hl)). cbn [fst snd].
    rewrite (bind_ok _ _ _ _ _ (cls_of_at ct s c k Hc)).
    destruct (negb (force || initializing d) && true && c_frozen k).
    { rewrite bind_err with (e := FrozenErr) (s1 := s) by reflexivity. intro H; inversion H; auto. }
    rewrite bind_ret_l'.
    destruct (type_check_cases ct k a v tc s) as [E|E]; cbv zeta in E.
    2:{ rewrite (bind_err _ _ _ _ _ E). intro H; inversion H; auto. }
    rewrite (bind_ok _ _ _ _ _ E). cbv zeta. rewrite (no_dnc c k Hc). cbn [orb negb andb]. rewrite !bind_ret_l'.
    unfold bind at 1. rewrite (thawed_nothaw_eq ct l _ s c d k Hl Hc).
    rewrite (bind_ok _ _ _ _ _ (raw_setattr_run l a v s c d Hl)). cbn [ret]. intro H; inversion H; auto.
  Qed.

  Section Shapes.
    Variable rec : call -> M val.
    Variable l : loc.
    (* what invalidation does to the receiver, from any state *)
    Hypothesis Hinv : forall a s r s', l < length (heap s) ->
      invalidate_attrs ct rec l a s = (r, s') -> ishape (length (heap s)) (heap s) l s'.
    Variables (b : nat) (h0 : list obj).
    Hypothesis Hlb : l < b.

    Lemma after_write_ishape a (skip : bool) s2 r s' :
      ishape b h0 l s2 ->
      (if skip then ret tt else invalidate_attrs ct rec l a) s2 = (r, s') -> ishape b h0 l s'.
    Proof.
      intros I2 Hrun. destruct skip; [inversion Hrun; subst; exact I2|].
      eapply ishape_trans; [exact Hlb|exact I2|]. eapply Hinv; eauto. destruct I2 as (L & _). lia.
    Qed.

    (* mutate_attr(l, a, value, inplace) from a state reached by allocation only *)
    Lemma mutate_attr_ishape a c d k value tc force skip s1 r s' :
      sinv b (RL h0 l) NoW h0 s1 -> nth_error h0 l = Some (OInst c d) -> lookup_cls ct c = Some k ->
      okv b (RL h0 l) value ->
      mutate_attr ct rec l a value true tc force skip s1 = (r, s') -> ishape b h0 l s'.
    Proof.
      intros I1 Hl Hc Hval Hrun. assert (Hl1 := old_cell b h0 s1 l _ I1 Hlb Hl).
      unfold mutate_attr in Hrun. destruct (is_sentinel value) eqn:Es.
      { inversion Hrun; subst. now apply sinv_ishape. }
      rewrite (bind_ok _ _ _ _ _ (read_inst_at l s1 c d Hl1)) in Hrun. cbn [fst snd] in Hrun.
      rewrite (bind_ok _ _ _ _ _ (cls_of_at ct s1 c k Hc)) in Hrun.
      destruct (negb (force || initializing d) && true && c_frozen k).
      { rewrite bind_err with (e := FrozenErr) (s1 := s1) in Hrun by reflexivity. inversion Hrun; subst. now apply sinv_ishape. }
      rewrite bind_ret_l' in Hrun.
      destruct (type_check_cases ct k a value tc s1) as [E|E]; cbv zeta in E.
      2:{ rewrite (bind_err _ _ _ _ _ E) in Hrun. inversion Hrun; subst. now apply sinv_ishape. }
      rewrite (bind_ok _ _ _ _ _ E) in Hrun. cbv zeta in Hrun. rewrite (no_dnc c k Hc) in Hrun.
      cbn [orb negb andb] in Hrun. rewrite !bind_ret_l' in Hrun.
      unfold bind at 1 in Hrun. rewrite (thawed_nothaw_eq ct l _ s1 c d k Hl1 Hc) in Hrun.
      rewrite (bind_ok _ _ _ _ _ (raw_setattr_run l a value s1 c d Hl1)) in Hrun.
      assert (I2 : ishape b h0 l (upd s1 l (OInst c (assoc_set a value d)))).
      { apply (upd_ishape b h0 l s1 c d); auto. intros y Hy. destruct (vrefs_assoc_set a value d y Hy) as [->|Hd]; [exact Hval|].
        right. eapply reach_step; [constructor|exact Hl|exact Hd]. }
      destruct ((if skip then ret tt else invalidate_attrs ct rec l a) (upd s1 l (OInst c (assoc_set a value d))))
        as [r3 s3] eqn:E3.
      assert (I3 := after_write_ishape a skip _ r3 s3 I2 E3).
      destruct r3; inversion Hrun; subst; exact I3.
    Qed.

    (* value <- M1 (allocation only) ;; mutate_attr(l, a, value, inplace) *)
    Lemma prep_write_ishape a c d k (M1 : M val) tc force skip s r s' :
      sinv b (RL h0 l) NoW h0 s -> nth_error h0 l = Some (OInst c d) -> lookup_cls ct c = Some k ->
      sep b (RL h0 l) NoW h0 M1 (okv b (RL h0 l)) ->
      (v <- M1 ;; mutate_attr ct rec l a v true tc force skip) s = (r, s') -> ishape b h0 l s'.
    Proof.
      intros I0 Hl Hc Hsep Hrun. destruct (Hsep s I0) as [I1 F1]. unfold bind in Hrun.
      destruct (M1 s) as [[value|e] s1] eqn:E; simpl in I1, F1.
      2:{ inversion Hrun; subst. now apply sinv_ishape. }
      eapply mutate_attr_ishape; eauto.
    Qed.

    (* object.__delattr__, then the invalidation *)
    Lemma del_tail_ishape a c d (skip : bool) s r s' :
      sinv b (RL h0 l) NoW h0 s -> nth_error h0 l = Some (OInst c d) ->
      (raw_delattr l a ;;; (if skip then ret tt else invalidate_attrs ct rec l a) ;;; ret VNone) s = (r, s') ->
      ishape b h0 l s'.
    Proof.
      intros I0 Hl Hrun. assert (Hl1 := old_cell b h0 s l _ I0 Hlb Hl).
      unfold raw_delattr in Hrun. unfold bind at 1 2 in Hrun. rewrite (read_inst_at l s c d Hl1) in Hrun. cbn [fst snd] in Hrun.
      destruct (assoc a d); [|inversion Hrun; subst; now apply sinv_ishape].
      unfold write in Hrun. assert (l <? length (heap s) = true) as Hlt by (apply Nat.ltb_lt; apply nth_error_Some; congruence).
      rewrite Hlt in Hrun.
      change (mkst (set_nth l (OInst c (assoc_del a d)) (heap s)) (ncalls s) (fail_at s))
        with (upd s l (OInst c (assoc_del a d))) in Hrun.
      assert (I2 : ishape b h0 l (upd s l (OInst c (assoc_del a d)))).
      { apply (upd_ishape b h0 l s c d); auto. intros y Hy. right.
        eapply reach_step; [constructor|exact Hl|]. simpl. eapply vrefs_assoc_del; eauto. }
      unfold bind in Hrun.
      destruct ((if skip then ret tt else invalidate_attrs ct rec l a) (upd s l (OInst c (assoc_del a d))))
        as [r3 s3] eqn:E3.
      assert (I3 := after_write_ishape a skip _ r3 s3 I2 E3).
      destruct r3; inversion Hrun; subst; exact I3.
    Qed.
  End Shapes.

  Lemma exec_sepf f b h0 l :
    forall k, call_ok ct b (RL h0 l) NoW k -> sep b (RL h0 l) NoW h0 (exec ct f k) (post b (RL h0 l) k).
  Proof. exact (proj1 (exec_sep ct no_dnc wf_owner b (RL h0 l) NoW h0 (RL_closed b h0 l) (RL_table b h0 l) (RL_dnc b h0 l) f)). Qed.

  (* __delattr__ with the recursion at fuel f, given what invalidation at that fuel does *)
  Lemma delattr_ishape f l
    (Hinv : forall a s r s', l < length (heap s) ->
       invalidate_attrs ct (exec ct f) l a s = (r, s') -> ishape (length (heap s)) (heap s) l s')
    a skip s r s' :
    delattr_ ct (exec ct f) l a false skip s = (r, s') -> ishape (length (heap s)) (heap s) l s'.
  Proof.
    intros Hrun. set (rec := exec ct f) in *. set (h0 := heap s). set (b := length h0).
    assert (I0 : sinv b (RL h0 l) NoW h0 s) by (apply sinv_start; reflexivity).
    unfold delattr_ in Hrun.
    destruct (nth_error (heap s) l) as [o|] eqn:Hl.
    2:{ unfold read_inst, bind, read in Hrun. rewrite Hl in Hrun. inversion Hrun; subst. apply ishape_refl. }
    destruct o as [| | |c d];
      try (unfold read_inst, bind, read in Hrun; rewrite Hl in Hrun; inversion Hrun; subst; apply ishape_refl).
    rewrite (bind_ok _ _ _ _ _ (read_inst_at l s c d Hl)) in Hrun. cbn [fst snd] in Hrun.
    destruct (lookup_cls ct c) as [k|] eqn:Hc.
    2:{ unfold cls_of, bind in Hrun. rewrite Hc in Hrun. inversion Hrun; subst. apply ishape_refl. }
    rewrite (bind_ok _ _ _ _ _ (cls_of_at ct s c k Hc)) in Hrun.
    assert (Hlb : l < b) by (apply nth_error_Some; unfold h0; congruence).
    destruct (negb (false || initializing d) && c_frozen k).
    { rewrite bind_err with (e := FrozenErr) (s1 := s) in Hrun by reflexivity. inversion Hrun; subst. apply ishape_refl. }
    rewrite bind_ret_l' in Hrun. change (if false then None else lookup_attr k a) with (lookup_attr k a) in Hrun.
    destruct (lookup_attr k a) as [sp|] eqn:Ea.
    2:{ eapply (del_tail_ishape rec l Hinv b h0 Hlb a c d skip); eauto. }
    assert (Hspok : spec_ok b (RL h0 l) sp) by (eapply lookup_attr_ok; eauto using RL_table).
    destruct (lookup_default_value_sep ct no_dnc b (RL h0 l) NoW h0 (RL_closed b h0 l) (RL_table b h0 l) (RL_dnc b h0 l)
                rec (exec_sepf f b h0 l) sp k Hspok s I0) as [I1 F1].
    unfold bind at 1 in Hrun.
    destruct (lookup_default_value ct rec sp k s) as [[dv|e] s0] eqn:Ed; simpl in I1, F1.
    2:{ inversion Hrun; subst. now apply sinv_ishape. }
    destruct (is_missing dv).
    - eapply (del_tail_ishape rec l Hinv b h0 Hlb a c d skip); eauto.
    - eapply (prep_write_ishape rec l Hinv b h0 Hlb a c d k); eauto.
      apply (prepare_attr_value_sep ct b (RL h0 l) NoW h0 (RL_closed b h0 l) rec (exec_sepf f b h0 l) sp l dv None);
        [exact Hspok|now apply freshv_okv|exact I].
  Qed.

  (* a loop of steps each of which has the footprint *)
  Lemma iter_ishape {T} (F : T -> M unit) l xs :
    (forall x s r s', l < length (heap s) -> F x s = (r, s') -> ishape (length (heap s)) (heap s) l s') ->
    forall s r s', l < length (heap s) -> iterM F xs s = (r, s') -> ishape (length (heap s)) (heap s) l s'.
  Proof.
    intros HF. induction xs as [|x xs IH]; intros s r s' Hl Hrun; simpl in Hrun.
    - inversion Hrun; subst. apply ishape_refl.
    - unfold bind in Hrun. destruct (F x s) as [[u|e] s1] eqn:E.
      + pose proof (HF x s _ _ Hl E) as I1. eapply ishape_trans; [exact Hl|exact I1|].
        apply IH with (r := r); auto. destruct I1 as (L & _). lia.
      + inversion Hrun; subst. eapply HF; eauto.
  Qed.
  Lemma catch_ishape (m : M unit) l s r s' h :
    (forall r1 s1, m s = (r1, s1) -> ishape (length (heap s)) (heap s) l s1) ->
    catch m h (ret tt) s = (r, s') -> ishape (length (heap s)) (heap s) l s'.
  Proof.
    intros Hm Hrun. unfold catch in Hrun. destruct (m s) as [[u|e] s1] eqn:E.
    - inversion Hrun; subst. eapply Hm; eauto.
    - destruct (h e); inversion Hrun; subst; eapply Hm; eauto.
  Qed.
  Lemma seq_unit_ishape (m : M val) l s r s' :
    (forall r1 s1, m s = (r1, s1) -> ishape (length (heap s)) (heap s) l s1) ->
    (m ;;; ret tt) s = (r, s') -> ishape (length (heap s)) (heap s) l s'.
  Proof.
    intros Hm Hrun. unfold bind in Hrun. destruct (m s) as [[u|e] s1] eqn:E; inversion Hrun; subst; eapply Hm; eauto.
  Qed.

  (* by induction on fuel: deletion with skip_invalidation, hence invalidation, at every fuel *)
  Lemma del_inv_ishape f :
    (forall l a s r s', exec ct f (KDelAttr l a false true) s = (r, s') -> ishape (length (heap s)) (heap s) l s') /\
    (forall l a s r s', l < length (heap s) ->
       invalidate_attrs ct (exec ct f) l a s = (r, s') -> ishape (length (heap s)) (heap s) l s').
  Proof.
    induction f as [|f [IH1 IH2]].
    - assert (H1 : forall l a s r s', exec ct 0 (KDelAttr l a false true) s = (r, s') ->
                     ishape (length (heap s)) (heap s) l s').
      { intros l a s r s' H. change (exec ct 0 (KDelAttr l a false true)) with (@fail val Fuel) in H.
        inversion H; subst. apply ishape_refl. }
      split; [exact H1|]. intros l a s r s' Hl Hrun. unfold invalidate_attrs in Hrun.
      unfold bind at 1 in Hrun. destruct (read_inst l s) as [[p|e] s1] eqn:Er.
      2:{ pose proof (rdr_read_inst l s) as R. rewrite Er in R. simpl in R. inversion Hrun; subst. apply ishape_refl. }
      pose proof (rdr_read_inst l s) as R. rewrite Er in R. simpl in R. subst s1.
      unfold bind at 1 in Hrun. destruct (cls_of ct (fst p) s) as [[k|e] s1] eqn:Ek.
      2:{ pose proof (rdr_cls_of ct (fst p) s) as R. rewrite Ek in R. simpl in R. inversion Hrun; subst. apply ishape_refl. }
      pose proof (rdr_cls_of ct (fst p) s) as R. rewrite Ek in R. simpl in R. subst s1. cbv zeta in Hrun.
      eapply iter_ishape; [|exact Hl|exact Hrun]. intros sp s2 r2 s2' Hl2 H2.
      cbv beta in H2. match type of H2 with (if ?cnd then _ else _) _ = _ => destruct cnd end; [|inversion H2; subst; apply ishape_refl].
      eapply catch_ishape; [|exact H2]. intros r1 s3 H3. eapply seq_unit_ishape; [|exact H3].
      intros r4 s4 H4. eapply H1; eauto.
    - assert (H1 : forall l a s r s', exec ct (S f) (KDelAttr l a false true) s = (r, s') ->
                     ishape (length (heap s)) (heap s) l s').
      { intros l a s r s' H. change (exec ct (S f) (KDelAttr l a false true)) with (delattr_ ct (exec ct f) l a false true) in H.
        eapply (delattr_ishape f l (IH2 l)); eauto. }
      split; [exact H1|]. intros l a s r s' Hl Hrun. unfold invalidate_attrs in Hrun.
      unfold bind at 1 in Hrun. destruct (read_inst l s) as [[p|e] s1] eqn:Er.
      2:{ pose proof (rdr_read_inst l s) as R. rewrite Er in R. simpl in R. inversion Hrun; subst. apply ishape_refl. }
      pose proof (rdr_read_inst l s) as R. rewrite Er in R. simpl in R. subst s1.
      unfold bind at 1 in Hrun. destruct (cls_of ct (fst p) s) as [[k|e] s1] eqn:Ek.
      2:{ pose proof (rdr_cls_of ct (fst p) s) as R. rewrite Ek in R. simpl in R. inversion Hrun; subst. apply ishape_refl. }
      pose proof (rdr_cls_of ct (fst p) s) as R. rewrite Ek in R. simpl in R. subst s1. cbv zeta in Hrun.
      eapply iter_ishape; [|exact Hl|exact Hrun]. intros sp s2 r2 s2' Hl2 H2.
      cbv beta in H2. match type of H2 with (if ?cnd then _ else _) _ = _ => destruct cnd end; [|inversion H2; subst; apply ishape_refl].
      eapply catch_ishape; [|exact H2]. intros r1 s3 H3. eapply seq_unit_ishape; [|exact H3].
      intros r4 s4 H4. eapply H1; eauto.
  Qed.

  Lemma inv_ishape f l a s r s' : l < length (heap s) ->
    invalidate_attrs ct (exec ct f) l a s = (r, s') -> ishape (length (heap s)) (heap s) l s'.
  Proof. apply (proj2 (del_inv_ishape f)). Qed.

  Definition inplace_shape (l : loc) (s s' : state) : Prop := ishape (length (heap s)) (heap s) l s'.

  (* del obj.a (any attribute, dependants included) *)
  Lemma delattr_inplace_shape l a s r s' :
    exec ct XFUEL (KDelAttr l a false false) s = (r, s') -> inplace_shape l s s'.
  Proof.
    intros Hrun. rewrite exec_del_unfold in Hrun. eapply (delattr_ishape 39 l (inv_ishape 39 l)); eauto.
  Qed.

  (* obj.a = <scalar> *)
  Lemma setattr_inplace_shape l a v s r s' :
    val_nonref v -> exec ct XFUEL (KSetAttr l a v false false) s = (r, s') -> inplace_shape l s s'.
  Proof.
    intros Hv Hrun. rewrite exec_set_unfold in Hrun. set (rec := exec ct 39) in *.
    set (h0 := heap s). set (b := length h0). unfold inplace_shape. fold h0. fold b.
    assert (I0 : sinv b (RL h0 l) NoW h0 s) by (apply sinv_start; reflexivity).
    unfold setattr_ in Hrun.
    destruct (nth_error (heap s) l) as [o|] eqn:Hl.
    2:{ unfold read_inst, bind, read in Hrun. rewrite Hl in Hrun. inversion Hrun; subst. apply ishape_refl. }
    destruct o as [| | |c d];
      try (unfold read_inst, bind, read in Hrun; rewrite Hl in Hrun; inversion Hrun; subst; apply ishape_refl).
    rewrite (bind_ok _ _ _ _ _ (read_inst_at l s c d Hl)) in Hrun. cbn [fst snd] in Hrun.
    destruct (lookup_cls ct c) as [k|] eqn:Hc.
    2:{ unfold cls_of, bind in Hrun. rewrite Hc in Hrun. inversion Hrun; subst. apply ishape_refl. }
    rewrite (bind_ok _ _ _ _ _ (cls_of_at ct s c k Hc)) in Hrun.
    assert (Hlb : l < b) by (apply nth_error_Some; unfold h0; congruence).
    eapply (prep_write_ishape rec l (inv_ishape 39 l) b h0 Hlb a c d k); eauto.
    destruct (lookup_attr k a) as [sp|] eqn:Ea.
    - apply (prepare_attr_value_sep ct b (RL h0 l) NoW h0 (RL_closed b h0 l) rec (exec_sepf 39 b h0 l) sp l v None);
        [eapply lookup_attr_ok; eauto using RL_table|now apply nonref_okv|exact I].
    - apply sep_ret. now apply nonref_okv.
  Qed.

  (* obj.with_<a>(<scalar>, _inplace=True), obj.reset_<a>(_inplace=True), obj.reset(_inplace=True) *)
  Definition inplace_helper_ok0 (hp : helper) : Prop :=
    match hp with HWith _ | HReset _ | HResetTop => True | _ => False end.

  Lemma helper_inplace_shape l hp h s r s' :
    h_inplace h = true -> inplace_helper_ok0 hp ->
    Forall val_nonref (h_pos h) -> h_kw h = None ->
    run_helper ct l hp h s = (r, s') -> inplace_shape l s s'.
  Proof.
    intros Hi Hhp Hpos Hkw Hrun. unfold run_helper in Hrun.
    destruct (negb (h_if h)); [inversion Hrun; subst; apply ishape_refl|].
    destruct hp; simpl in Hhp; try contradiction.
    - (* with_<a> *)
      set (h0 := heap s). set (b := length h0). unfold inplace_shape. fold h0. fold b.
      assert (I0 : sinv b (RL h0 l) NoW h0 s) by (apply sinv_start; reflexivity).
      unfold spec_for in Hrun.
      destruct (nth_error (heap s) l) as [o|] eqn:Hl.
      2:{ unfold read_inst, bind, read in Hrun. rewrite Hl in Hrun. inversion Hrun; subst. apply ishape_refl. }
      destruct o as [| | |c d];
        try (unfold read_inst, bind, read in Hrun; rewrite Hl in Hrun; inversion Hrun; subst; apply ishape_refl).
      unfold bind at 1 2 in Hrun. rewrite (read_inst_at l s c d Hl) in Hrun. cbn [fst snd] in Hrun.
      destruct (lookup_cls ct c) as [k|] eqn:Hc.
      2:{ unfold cls_of, bind in Hrun. rewrite Hc in Hrun. inversion Hrun; subst. apply ishape_refl. }
      unfold bind at 1 in Hrun. rewrite (cls_of_at ct s c k Hc) in Hrun.
      destruct (lookup_attr k a) as [sp|] eqn:Ea; [|inversion Hrun; subst; apply ishape_refl].
      cbn [ret snd] in Hrun. rewrite Hi, Hkw in Hrun. unfold with_attr in Hrun.
      destruct (lookup_attr_In _ _ _ Ea) as [_ Hname]. rewrite Hname in Hrun.
      assert (Hlb : l < b) by (apply nth_error_Some; unfold h0; congruence).
      eapply (prep_write_ishape (exec ct XFUEL) l (inv_ishape XFUEL l) b h0 Hlb a c d k); eauto.
      apply (prepare_attr_value_sep ct b (RL h0 l) NoW h0 (RL_closed b h0 l) (exec ct XFUEL) (exec_sepf XFUEL b h0 l) sp l (pos0 h) None);
        [eapply lookup_attr_ok; eauto using RL_table| |exact I].
      apply nonref_okv. unfold pos0. destruct (nth_in_or_default 0 (h_pos h) VMissing) as [Hin|E0]; [|rewrite E0; exact I].
      rewrite Forall_forall in Hpos. auto.
    - (* reset_<a> *)
      rewrite Hi in Hrun. cbn [negb] in Hrun. rewrite bind_ret_l' in Hrun.
      unfold bind at 1 in Hrun.
      destruct (thawed ct l false (exec ct XFUEL (KDelAttr l a false false)) s) as [r1 s1] eqn:E.
      assert (Hs : s' = s1) by (destruct r1; inversion Hrun; auto). subst s1.
      unfold thawed in E. unfold bind at 1 in E. unfold read in E.
      destruct (nth_error (heap s) l) as [o|] eqn:Hl; [|inversion E; subst; apply ishape_refl].
      destruct o as [| | |c0 d0]; try (eapply delattr_inplace_shape; eauto; fail).
      unfold bind at 1 in E. unfold cls_of in E. destruct (lookup_cls ct c0); [|inversion E; subst; apply ishape_refl].
      cbn [ret negb orb] in E. eapply delattr_inplace_shape; eauto.
    - (* reset() *)
      rewrite Hi in Hrun. cbn [negb] in Hrun. rewrite bind_ret_l' in Hrun.
      unfold bind at 1 in Hrun. destruct (read_inst l s) as [[p|e] s1] eqn:Er.
      2:{ pose proof (rdr_read_inst l s) as R. rewrite Er in R. simpl in R. inversion Hrun; subst. apply ishape_refl. }
      pose proof (rdr_read_inst l s) as R. rewrite Er in R. simpl in R. subst s1.
      assert (Hlen : l < length (heap s)).
      { unfold read_inst, bind, read in Er. destruct (nth_error (heap s) l) eqn:Hn; [|discriminate].
        apply nth_error_Some. congruence. }
      unfold bind at 1 in Hrun. destruct (cls_of ct (fst p) s) as [[k|e] s1] eqn:Ek.
      2:{ pose proof (rdr_cls_of ct (fst p) s) as R. rewrite Ek in R. simpl in R. inversion Hrun; subst. apply ishape_refl. }
      pose proof (rdr_cls_of ct (fst p) s) as R. rewrite Ek in R. simpl in R. subst s1.
      unfold bind at 1 in Hrun.
      destruct (thawed ct l false
                  (iterM (fun sp => catch (exec ct XFUEL (KDelAttr l (a_name sp) false false) ;;; ret tt)
                                          (fun e => err_eqb e AttrErr) (ret tt)) (c_attrs k)) s) as [r1 s1] eqn:E.
      assert (Hs : s' = s1) by (destruct r1; inversion Hrun; auto). subst s1.
      assert (Hloop : forall r2 s2,
                iterM (fun sp => catch (exec ct XFUEL (KDelAttr l (a_name sp) false false) ;;; ret tt)
                                       (fun e => err_eqb e AttrErr) (ret tt)) (c_attrs k) s = (r2, s2) ->
                inplace_shape l s s2).
      { intros r2 s2 H2. eapply iter_ishape; [|exact Hlen|exact H2]. intros sp s3 r3 s3' _ H3.
        eapply catch_ishape; [|exact H3]. intros r4 s4 H4. eapply seq_unit_ishape; [|exact H4].
        intros r5 s5 H5. eapply delattr_inplace_shape; eauto. }
      unfold thawed in E. unfold bind at 1 in E. unfold read in E.
      destruct (nth_error (heap s) l) as [o|] eqn:Hl; [|inversion E; subst; apply ishape_refl].
      destruct o as [| | |c0 d0]; try (eapply Hloop; eauto; fail).
      unfold bind at 1 in E. unfold cls_of in E. destruct (lookup_cls ct c0); [|inversion E; subst; apply ishape_refl].
      cbn [ret negb orb] in E. eapply Hloop; eauto.
  Qed.

  (* ---------- update_<a> / transform_<a> in place: the current value is read from the receiver's own
     dictionary (it holds every defaulted attribute: hd), never from a class-level object ---------- *)
  Lemma getattr_hd l c a s v :
    hd ct l c s -> a <> A_INITIALIZING -> fst (getattr_default ct l a s) = Ok v ->
    okv (length (heap s)) (RL (heap s) l) v.
  Proof.
    intros [[d Hl] Hh] Ha. unfold getattr_default. rewrite (bind_ok _ _ _ _ _ (read_inst_at l s c d Hl)). cbn [fst snd].
    destruct (assoc a d) as [v0|] eqn:E.
    - cbn [ret fst]. intro H; inversion H; subst v0. destruct v; simpl; auto. right.
      eapply reach_step; [constructor|exact Hl|]. simpl. apply in_vrefs. apply in_map_iff. exists (a, VRef l0).
      split; [reflexivity|]. unfold assoc in E.
      destruct (find (fun p : nat * val => fst p =? a) d) as [[x y]|] eqn:F; simpl in E; [|discriminate].
      inversion E; subst. apply find_some in F. destruct F as [F1 F2]. simpl in F2. apply Nat.eqb_eq in F2. subst. exact F1.
    - unfold bind, cls_of. destruct (lookup_cls ct c) as [k|] eqn:Hc; [|discriminate].
      cbn [ret fst]. intro H; inversion H; subst v. clear H.
      destruct (lookup_cls_In _ _ _ Hc) as [Hkin _]. unfold class_default. rewrite (no_overrides k Hkin). cbn [assoc find option_map].
      destruct (lookup_attr k a) as [sp|] eqn:Esp; [|exact I].
      destruct (a_default sp) eqn:Ed; simpl; auto. exfalso.
      destruct (lookup_attr_In _ _ _ Esp) as [Hspin _].
      assert (K : keep_init ct c a).
      { split; [exact Ha|]. exists k, sp. split; [exact Hc|]. split; [exact Esp|]. split; [|apply all_init with k; auto].
        unfold has_default. rewrite (no_overrides k Hkin). cbn [assoc find option_map]. rewrite Ed. destruct (a_factory sp); reflexivity. }
      destruct (Hh a K) as [d' [Hl' Hd']]. rewrite Hl in Hl'. inversion Hl'; subst d'. congruence.
  Qed.

  (* v <- mutate_value(old, ...) ;; with_<a>(v) in place *)
  Lemma mv_then_with_shape l c d k sp m s r s' :
    nth_error (heap s) l = Some (OInst c d) -> lookup_cls ct c = Some k ->
    spec_ok (length (heap s)) (RL (heap s) l) sp ->
    mv_ok ct (length (heap s)) (RL (heap s) l) NoW m ->
    (forall v, post (length (heap s)) (RL (heap s) l) (KMutateValue m) v -> okv (length (heap s)) (RL (heap s) l) v) ->
    (v <- exec ct XFUEL (KMutateValue m) ;; with_attr ct l sp v None true) s = (r, s') ->
    inplace_shape l s s'.
  Proof.
    intros Hl Hc Hsp Hm Hpost Hrun. set (h0 := heap s) in *. set (b := length h0) in *.
    unfold inplace_shape. fold h0. fold b.
    assert (I0 : sinv b (RL h0 l) NoW h0 s) by (apply sinv_start; reflexivity).
    assert (Hlb : l < b) by (apply nth_error_Some; congruence).
    destruct (exec_sepf XFUEL b h0 l (KMutateValue m) Hm s I0) as [I1 F1]. unfold bind at 1 in Hrun.
    destruct (exec ct XFUEL (KMutateValue m) s) as [[v|e] s1] eqn:E; simpl in I1, F1.
    2:{ inversion Hrun; subst. now apply sinv_ishape. }
    unfold with_attr in Hrun.
    eapply (prep_write_ishape (exec ct XFUEL) l (inv_ishape XFUEL l) b h0 Hlb (a_name sp) c d k); eauto.
    apply (prepare_attr_value_sep ct b (RL h0 l) NoW h0 (RL_closed b h0 l) (exec ct XFUEL) (exec_sepf XFUEL b h0 l) sp l v None);
      [exact Hsp|apply Hpost; exact F1|exact I].
  Qed.

  Lemma pos0_okv b A h : Forall val_nonref (h_pos h) -> okv b A (pos0 h).
  Proof.
    intro H. apply nonref_okv. unfold pos0. destruct (nth_in_or_default 0 (h_pos h) VMissing) as [Hin|E0]; [|rewrite E0; exact I].
    rewrite Forall_forall in H. auto.
  Qed.

  Lemma update_transform_inplace_shape l c hp a h s r s' :
    (hp = HUpdate a \/ hp = HTransform a) -> hd ct l c s -> a <> A_INITIALIZING ->
    h_inplace h = true -> Forall val_nonref (h_pos h) -> h_kw h = None -> h_kwfn h = [] -> ofn_scalar (h_fn h) ->
    run_helper ct l hp h s = (r, s') -> inplace_shape l s s'.
  Proof.
    intros Hhp Hhd Ha Hi Hpos Hkw Hkwfn Hfn Hrun. unfold run_helper in Hrun.
    destruct (negb (h_if h)); [inversion Hrun; subst; apply ishape_refl|].
    pose proof Hhd as [[d Hl] _].
    assert (Hstart : forall (K : cls * attr_spec -> val -> M val) r0 s0,
              (forall k sp old, lookup_cls ct c = Some k -> lookup_attr k a = Some sp ->
                 okv (length (heap s)) (RL (heap s) l) old ->
                 forall r1 s1, K (k, sp) old s = (r1, s1) -> inplace_shape l s s1) ->
              (rr <- spec_for ct l a ;; old <- current_value ct l (snd rr) true (is_sentinel (pos0 h)) ;; K rr old) s = (r0, s0) ->
              inplace_shape l s s0).
    { intros K r0 s0 HK H. unfold spec_for in H.
      unfold bind at 1 2 in H. rewrite (read_inst_at l s c d Hl) in H. cbn [fst snd] in H.
      destruct (lookup_cls ct c) as [k|] eqn:Hc.
      2:{ unfold cls_of, bind in H. rewrite Hc in H. inversion H; subst. apply ishape_refl. }
      unfold bind at 1 in H. rewrite (cls_of_at ct s c k Hc) in H.
      destruct (lookup_attr k a) as [sp|] eqn:Ea; [|inversion H; subst; apply ishape_refl].
      cbn [ret snd] in H. unfold current_value in H. unfold bind at 1 2 in H.
      destruct (lookup_attr_In _ _ _ Ea) as [_ Hname]. rewrite Hname in H.
      pose proof (getattr_default_pure ct l a s) as P. pose proof (getattr_hd l c a s) as G.
      destruct (getattr_default ct l a s) as [[old|e] s2]; simpl in P; subst s2; [|inversion H; subst; apply ishape_refl].
      change (true || a_dnc sp || negb (is_sentinel (pos0 h))) with true in H. cbn [ret] in H.
      eapply (HK k sp old); eauto. }
    destruct Hhp as [->| ->].
    - (* update_<a> *)
      destruct (pos0 h) eqn:Ep; try (inversion Hrun; subst; apply ishape_refl; fail);
        (rewrite Hi in Hrun; rewrite <- Ep in Hrun; eapply Hstart; [|exact Hrun]; intros k sp old Hc Ea Hold r1 s1 H1; cbv beta in H1;
         eapply (mv_then_with_shape l c d k sp); [exact Hl|exact Hc|eapply lookup_attr_ok; eauto using RL_table| | |exact H1];
         [unfold mv_ok; simpl; split; [apply pos0_okv; exact Hpos|]; split; [intros _; left; exact Hold|];
          split; [exact I|]; split; [rewrite Hkw; exact I|]; split; [exact I|]; split; [apply ats_ok_nil|discriminate]
         |simpl; intros v [Hv|[-> _]]; [exact Hv|exact Hold]]).
    - (* transform_<a> *)
      rewrite Hi in Hrun. eapply Hstart with (K := fun rr old =>
          v <- exec ct XFUEL (KMutateValue (mkmv old VMissing false PNone None
                                     (Some (ctor_of_ty (a_ty (snd rr)))) (Some (a_ty (snd rr)))
                                     (match h_fn h with Some f => Some (XFn f, None) | None => None end)
                                     (h_kwfn h) false)) ;;
          with_attr ct l (snd rr) v None true); [|exact Hrun].
      intros k sp old Hc Ea Hold r1 s1 H1. cbv beta in H1. cbn [snd] in H1.
      eapply (mv_then_with_shape l c d k sp); [exact Hl|exact Hc|eapply lookup_attr_ok; eauto using RL_table| | |exact H1].
      + unfold mv_ok; simpl. split; [exact I|]. split; [intros _; left; exact Hold|]. split; [exact I|]. split; [exact I|].
        split; [destruct (h_fn h); simpl in *; auto using fn_scalar_ok|]. split; [rewrite Hkwfn; apply ats_ok_nil|discriminate].
      + simpl. intros v [Hv|[-> _]]; [exact Hv|exact Hold].
  Qed.

  Definition inplace_helper_ok (hp : helper) : Prop :=
    match hp with
    | HWith _ | HReset _ | HResetTop => True
    | HUpdate a | HTransform a => a <> A_INITIALIZING
    | _ => False
    end.

  Lemma helper_inplace_shape_all l c hp h s r s' :
    hd ct l c s -> h_inplace h = true -> inplace_helper_ok hp ->
    Forall val_nonref (h_pos h) -> h_kw h = None -> h_kwfn h = [] -> ofn_scalar (h_fn h) ->
    run_helper ct l hp h s = (r, s') -> inplace_shape l s s'.
  Proof.
    intros Hhd Hi Hhp Hpos Hkw Hkwfn Hfn Hrun.
    destruct hp; simpl in Hhp; try contradiction.
    - eapply helper_inplace_shape; eauto. exact I.
    - eapply (update_transform_inplace_shape l c (HUpdate a) a); eauto.
    - eapply (update_transform_inplace_shape l c (HTransform a) a); eauto.
    - eapply helper_inplace_shape; eauto. exact I.
    - eapply helper_inplace_shape; eauto. exact I.
  Qed.

  (* ---------- the alphabet ---------- *)
  Definition peer_op_ok (T : list nat) (o : op) : Prop :=
    match o with
    | OpConstruct _ pos kw => kw_nu kw /\ match pos with Some v => val_nonref v /\ nu v | None => True end
    | OpSetAttr x _ v => In x T /\ val_nonref v
    | OpDelAttr x _ => In x T
    | OpHelper x hp h =>
        if h_inplace h
        then In x T /\ inplace_helper_ok hp /\ Forall val_nonref (h_pos h) /\ h_kw h = None /\
             h_kwfn h = [] /\ ofn_scalar (h_fn h)
        else Forall val_nonref (h_pos h) /\ val_nonref (h_index h) /\
             match h_kw h with Some kw => Forall (fun p => val_nonref (snd p)) kw | None => True end /\
             h_kwfn h = [] /\ ofn_scalar (h_fn h) /\ plain_top_transform hp h
    | OpDeepCopy _ => True
    | OpAlloc ob => refs_of ob = []
    end.

  (* operations writing their receiver in place *)
  Definition is_set (o : op) : bool :=
    match o with
    | OpSetAttr _ _ _ | OpDelAttr _ _ => true
    | OpHelper _ _ h => h_inplace h
    | _ => false
    end.

  Lemma peer_op_sound T roots o b :
    peer_op_ok T o -> is_set o = false -> op_ok ct b NoA NoW roots o.
  Proof.
    destruct o; simpl; intros H Hs; try discriminate; try contradiction; auto.
    - destruct H as [_ Hp]. split.
      + intros a v _. right. apply dncname_false.
      + destruct pos as [v|]; auto. destruct Hp. now apply nonref_okv.
    - rewrite Hs in H. destruct H as (Hpos & Hidx & Hkw & Hkwfn & Hfn & Hplain). split.
      + split; [now apply nonref_Forall|]. split; [now apply nonref_okv|]. split.
        * destruct (h_kw h) as [kw|]; simpl; auto. unfold kw_okv. eapply Forall_impl; [|exact Hkw].
          intros p Hp. unfold fok. now apply nonref_okv.
        * split; [rewrite Hkwfn; apply ats_ok_nil|now apply ofn_scalar_ok].
      + intros l _. split; [rewrite Hs; discriminate|].
        destruct hp; auto; first [left; apply dncname_false | right; exact Hplain].
    - apply obj_ok_of_refs. rewrite H. intros l [].
  Qed.

  (* an in-place operation of the alphabet: nothing happened, or the receiver is a tracked root and
     the step has the shape above *)
  Lemma inplace_step_shape T roots o s r s' :
    (forall x lx, In x T -> nth x roots VNone = VRef lx -> exists c, hd ct lx c s) ->
    peer_op_ok T o -> is_set o = true -> step ct roots o s = (r, s') ->
    exists x, In x T /\
      (s' = s \/ exists lx, nth x roots VNone = VRef lx /\ inplace_shape lx s s').
  Proof.
    intros Hhd. destruct o; simpl; intros Hok Hs Hrun; try discriminate.
    - destruct Hok as (Hx & Hv). exists x. split; [exact Hx|]. unfold bind in Hrun.
      destruct (nth x roots VNone) as [| | | |b0|z0|z0|z0|lx] eqn:Ex; try (simpl in Hrun; inversion Hrun; auto; fail).
      simpl loc_of in Hrun. cbn [ret] in Hrun.
      destruct (exec ct XFUEL (KSetAttr lx a v false false) s) as [r0 s2] eqn:E.
      assert (Hs2 : s' = s2) by (destruct r0; inversion Hrun; auto). subst s2.
      right. exists lx. split; [reflexivity|]. eapply setattr_inplace_shape; eauto.
    - exists x. split; [exact Hok|]. unfold bind in Hrun.
      destruct (nth x roots VNone) as [| | | |b0|z0|z0|z0|lx] eqn:Ex; try (simpl in Hrun; inversion Hrun; auto; fail).
      simpl loc_of in Hrun. cbn [ret] in Hrun.
      destruct (exec ct XFUEL (KDelAttr lx a false false) s) as [r0 s2] eqn:E.
      assert (Hs2 : s' = s2) by (destruct r0; inversion Hrun; auto). subst s2.
      right. exists lx. split; [reflexivity|]. eapply delattr_inplace_shape; eauto.
    - rewrite Hs in Hok. destruct Hok as (Hx & Hhp & Hpos & Hkw & Hkwfn & Hfn). exists x. split; [exact Hx|]. unfold bind in Hrun.
      destruct (nth x roots VNone) as [| | | |b0|z0|z0|z0|lx] eqn:Ex; try (simpl in Hrun; inversion Hrun; auto; fail).
      simpl loc_of in Hrun. cbn [ret] in Hrun.
      destruct (Hhd x lx Hx Ex) as [c Hc].
      right. exists lx. split; [reflexivity|]. eapply helper_inplace_shape_all; eauto.
  Qed.

  (* ---------- the invariant ---------- *)
  Definition PD (s : state) (roots : list val) (T : list nat) : Prop :=
    (forall x, In x T -> x < length roots) /\
    (forall x l, In x T -> nth x roots VNone = VRef l -> l < length (heap s)) /\
    (forall x y lx ly, In x T -> In y T -> x <> y ->
                       nth x roots VNone = VRef lx -> nth y roots VNone = VRef ly -> lx <> ly) /\
    (forall x y lx ly z, In x T -> In y T ->
                         nth x roots VNone = VRef lx -> nth y roots VNone = VRef ly -> lx <> ly ->
                         reach (heap s) lx z -> reach (heap s) ly z -> False) /\
    (forall x l, In x T -> nth x roots VNone = VRef l -> exists c, hd ct l c s).

  Definition resv (r : res val) : val := match r with Ok v => v | Err _ => VNone end.
  Definition track (n : nat) (T : list nat) (o : op) : list nat :=
    match o with OpConstruct _ _ _ => n :: T | _ => T end.

  Lemma nth_old (roots : list val) v x : x < length roots -> nth x (roots ++ [v]) VNone = nth x roots VNone.
  Proof. intro H. now apply app_nth1. Qed.
  Lemma nth_new (roots : list val) v : nth (length roots) (roots ++ [v]) VNone = v.
  Proof. rewrite app_nth2 by lia. rewrite Nat.sub_diag. reflexivity. Qed.

  Lemma track_set n T o : is_set o = true -> track n T o = T.
  Proof. destruct o; simpl; auto; discriminate. Qed.

  Theorem peer_step s roots T o fa r s' :
    PD s roots T -> wf_heap (heap s) -> peer_op_ok T o ->
    step ct roots o (mkst (heap s) 0 fa) = (r, s') ->
    PD s' (roots ++ [resv r]) (track (length roots) T o).
  Proof.
    intros (P1 & P2 & P3 & P4 & P5) WF Hok Hrun.
    set (s0 := mkst (heap s) 0 fa) in *. set (h0 := heap s). set (b := length h0).
    assert (I0 : sinv b NoA NoW h0 s0) by (apply sinv_start; reflexivity).
    assert (P50 : forall x l, In x T -> nth x roots VNone = VRef l -> exists c, hd ct l c s0).
    { intros x l Hx El. destruct (P5 x l Hx El) as [c Hc]. exists c. exact Hc. }
    assert (P5' : forall x l, In x T -> nth x roots VNone = VRef l -> exists c, hd ct l c s').
    { intros x l Hx El. destruct (P50 x l Hx El) as [c Hc]. exists c. eapply hd_stable; [|exact Hc].
      pose proof (step_kext ct roots o s0) as K. rewrite Hrun in K. exact K. }
    assert (P5'' : forall x l, In x T -> nth x (roots ++ [resv r]) VNone = VRef l -> exists c, hd ct l c s').
    { intros x l Hx. rewrite nth_old by auto. apply P5'; auto. }
    destruct (is_set o) eqn:Eset.
    - (* in-place writes on a tracked instance *)
      rewrite (track_set _ _ _ Eset).
      destruct (inplace_step_shape T roots o s0 r s' P50 Hok Eset Hrun) as (x & Hx & Hcase).
      assert (Hsame : heap s' = h0 ->
                PD s' (roots ++ [resv r]) T).
      { intro Hh. split; [intros y Hy; rewrite app_length; specialize (P1 y Hy); lia|].
        split; [intros y l Hy; rewrite nth_old by auto; rewrite Hh; apply P2; auto|].
        split; [intros y1 y2 l1 l2 H1 H2; rewrite !nth_old by auto; apply P3; auto|].
        split; [|exact P5''].
        intros y1 y2 l1 l2 z H1 H2; rewrite !nth_old by auto; rewrite Hh; apply P4; auto. }
      destruct Hcase as [->|(lx & Ex & Hshape)]; [apply Hsame; reflexivity|].
      unfold inplace_shape in Hshape. change (heap s0) with h0 in Hshape. fold b in Hshape.
      assert (Hlx : lx < b) by (apply (P2 x lx Hx Ex)).
      pose proof (ishape_reach b h0 lx s' Hshape) as Hreach.
      destruct Hshape as (Hlen & Same & _).
      split; [intros y Hy; rewrite app_length; specialize (P1 y Hy); lia|].
      split; [intros y l Hy; rewrite nth_old by auto; intro Hl; specialize (P2 y l Hy Hl); fold h0 in P2; fold b in P2; lia|].
      split; [intros y1 y2 l1 l2 H1 H2; rewrite !nth_old by auto; apply P3; auto|].
      split; [|exact P5''].
      intros y1 y2 l1 l2 z H1 H2. rewrite !nth_old by auto. intros E1 E2 Hne R1 R2.
      assert (Hb1 : l1 < b) by (apply (P2 y1 l1 H1 E1)). assert (Hb2 : l2 < b) by (apply (P2 y2 l2 H2 E2)).
      assert (Hother : forall y0 l0, In y0 T -> nth y0 roots VNone = VRef l0 -> l0 <> lx ->
                         forall z0, reach h0 l0 z0 -> z0 <> lx).
      { intros y0 l0 Hy0 El0 Hne0 z0 R0 ->. eapply (P4 y0 x l0 lx lx); eauto. constructor. }
      destruct (Nat.eq_dec l1 lx) as [->|N1]; destruct (Nat.eq_dec l2 lx) as [->|N2]; try congruence.
      + destruct (reach_other h0 (heap s') lx WF Same l2 Hb2 (Hother y2 l2 H2 E2 N2) z R2) as [R2' Hz].
        destruct (Hreach z R1) as [Hge|R1']; [fold b in Hz; lia|].
        eapply (P4 y1 y2 lx l2 z); eauto.
      + destruct (reach_other h0 (heap s') lx WF Same l1 Hb1 (Hother y1 l1 H1 E1 N1) z R1) as [R1' Hz].
        destruct (Hreach z R2) as [Hge|R2']; [fold b in Hz; lia|].
        eapply (P4 y1 y2 l1 lx z); eauto.
      + destruct (reach_other h0 (heap s') lx WF Same l1 Hb1 (Hother y1 l1 H1 E1 N1) z R1) as [R1' _].
        destruct (reach_other h0 (heap s') lx WF Same l2 Hb2 (Hother y2 l2 H2 E2 N2) z R2) as [R2' _].
        eapply (P4 y1 y2 l1 l2 z); eauto.
    - (* copy-on-write operations, constructor calls, deepcopy, argument objects *)
      destruct (step_sep ct no_dnc wf_owner b NoA NoW h0 (NoA_closed' b h0) (NoA_table b) (NoA_dnc' b h0)
                  roots o (peer_op_sound T roots o b Hok Eset) s0 I0) as [I1 Q].
      rewrite Hrun in I1, Q. simpl in I1, Q. destruct I1 as (L1 & Old1 & Cl1).
      assert (Same : forall l, l < b -> l <> b -> nth_error (heap s') l = nth_error h0 l).
      { intros l Hl _. destruct (Old1 l Hl) as [[]|E1]. exact E1. }
      assert (Closed : forall l o0 y, b <= l -> nth_error (heap s') l = Some o0 -> In y (refs_of o0) -> b <= y).
      { intros l o0 y Hl Hn Hin. destruct (obj_ok_refs b NoA o0 y (Cl1 l o0 Hl Hn) Hin) as [H|[]]. exact H. }
      assert (Hold : forall y l z, In y T -> nth y roots VNone = VRef l -> reach (heap s') l z -> reach h0 l z /\ z < b).
      { intros y l z Hy El R. apply (reach_other h0 (heap s') b WF Same l (P2 y l Hy El)); auto.
        intros z0 R0. pose proof (reach_in_bounds h0 l z0 WF (P2 y l Hy El) R0). fold b in H. lia. }
      (* the part about old tracked roots *)
      assert (OldPD : PD s' (roots ++ [resv r]) T).
      { split; [intros y Hy; rewrite app_length; specialize (P1 y Hy); lia|].
        split; [intros y l Hy; rewrite nth_old by auto; intro Hl; specialize (P2 y l Hy Hl); fold h0 in P2; fold b in P2; lia|].
        split; [intros y1 y2 l1 l2 H1 H2; rewrite !nth_old by auto; apply P3; auto|].
        split; [|exact P5''].
        intros y1 y2 l1 l2 z H1 H2. rewrite !nth_old by auto. intros E1 E2 Hne R1 R2.
        destruct (Hold y1 l1 z H1 E1 R1) as [R1' _]. destruct (Hold y2 l2 z H2 E2 R2) as [R2' _].
        eapply (P4 y1 y2 l1 l2 z); eauto. }
      destruct o; simpl track; try exact OldPD.
      (* a constructor call: the new root is tracked *)
      destruct OldPD as (O1 & O2 & O3 & O4 & O5).
      simpl in Hrun. simpl in Hok. destruct Hok as [Hkw Hpos].
      assert (Hnew : forall l, resv r = VRef l -> b <= l /\ l < length (heap s') /\ hd ct l c s').
      { intros l El. destruct r as [v|e]; [|discriminate]. simpl in El. subst v.
        simpl in Q. split; [destruct Q as [H|[]]; exact H|].
        assert (Hpos' : match pos with Some v => nu v | None => True end) by (destruct pos; tauto).
        destruct (construct_holds ct c pos kw s0 _ _ Hg Hkw Hpos' Hrun) as [l' [El' Hhd']].
        inversion El'; subst l'. split; [|exact Hhd']. destruct Hhd' as [[d Hd] _]. apply nth_error_Some. congruence. }
      split.
      { intros y [<-|Hy]; [rewrite app_length; simpl; lia|auto]. }
      split.
      { intros y l [<-|Hy]; [rewrite nth_new; intro El; exact (proj1 (proj2 (Hnew l El)))|apply O2; exact Hy]. }
      split.
      { intros y1 y2 l1 l2 [<-|H1] [<-|H2] Hne; try congruence.
        - rewrite nth_new. rewrite nth_old by auto. intros E1 E2 ->.
          destruct (Hnew _ E1) as [Hge _]. specialize (P2 y2 l2 H2 E2). fold h0 in P2. fold b in P2. lia.
        - rewrite nth_new. rewrite nth_old by auto. intros E1 E2 ->.
          destruct (Hnew _ E2) as [Hge _]. specialize (P2 y1 l2 H1 E1). fold h0 in P2. fold b in P2. lia.
        - apply O3; auto. }
      split.
      2:{ intros y l [<-|Hy]; [rewrite nth_new; intro El; exists c; exact (proj2 (proj2 (Hnew l El)))|apply O5; exact Hy]. }
      intros y1 y2 l1 l2 z [<-|H1] [<-|H2].
      + intros E1 E2. congruence.
      + rewrite nth_new. rewrite nth_old by auto. intros E1 E2 Hne R1 R2.
        destruct (Hnew _ E1) as [Hge _]. destruct (Hold y2 l2 z H2 E2 R2) as [_ Hz].
        pose proof (reach_fresh h0 (heap s') Closed l1 Hge z R1). fold b in H. lia.
      + rewrite nth_new. rewrite nth_old by auto. intros E1 E2 Hne R1 R2.
        destruct (Hnew _ E2) as [Hge _]. destruct (Hold y1 l1 z H1 E1 R1) as [_ Hz].
        pose proof (reach_fresh h0 (heap s') Closed l2 Hge z R2). fold b in H. lia.
      + apply O4; auto.
  Qed.

  (* ---------- histories ---------- *)
  Fixpoint ops_ok (n : nat) (T : list nat) (ops : list (op * option nat)) : Prop :=
    match ops with
    | [] => True
    | (o, _) :: t => peer_op_ok T o /\ ops_ok (S n) (track n T o) t
    end.
  Fixpoint tracked (n : nat) (T : list nat) (ops : list (op * option nat)) : list nat :=
    match ops with
    | [] => T
    | (o, _) :: t => tracked (S n) (track n T o) t
    end.
  (* every heap an operation of the history starts from is free of dangling references *)
  Fixpoint run_wf (s : state) (roots : list val) (ops : list (op * option nat)) : Prop :=
    match ops with
    | [] => True
    | (o, fa) :: t =>
        wf_heap (heap s) /\
        let '(r, s') := step ct roots o (mkst (heap s) 0 fa) in
        run_wf s' (roots ++ [match r with Ok v => v | Err _ => VNone end]) t
    end.

  Theorem peers_disjoint_history ops : forall s roots T,
    ops_ok (length roots) T ops -> run_wf s roots ops -> PD s roots T ->
    PD (fst (run_ops ct s roots ops)) (snd (run_ops ct s roots ops)) (tracked (length roots) T ops).
  Proof.
    induction ops as [|[o fa] t IH]; intros s roots T Hok Hwf Hpd; simpl; [exact Hpd|].
    simpl in Hok, Hwf. destruct Hok as [Ho Ht]. destruct Hwf as [Hw Hrest].
    destruct (step ct roots o (mkst (heap s) 0 fa)) as [r s'] eqn:E.
    pose proof (peer_step s roots T o fa r s' Hpd Hw Ho E) as Hpd'. unfold resv in Hpd'.
    specialize (IH s' (roots ++ [match r with Ok v => v | Err _ => VNone end]) (track (length roots) T o)).
    rewrite app_length in IH. simpl in IH. rewrite Nat.add_1_r in IH. apply IH; auto.
  Qed.
End Peers.

(* ------------------------------------------------------------------ *)
(** * Reading the invariant; decidable proviso; an example *)
Lemma tracked_mono ops : forall n T x, In x T -> In x (tracked n T ops).
Proof.
  induction ops as [|[o fa] t IH]; intros n T x H; simpl; auto.
  apply IH. destruct o; simpl; auto.
Qed.
Lemma tracked_ctor ops : forall n T i c pos kw fa,
  nth_error ops i = Some (OpConstruct c pos kw, fa) -> In (n + i) (tracked n T ops).
Proof.
  induction ops as [|[o fa0] t IH]; intros n T i c pos kw fa H; [destruct i; discriminate|].
  destruct i as [|i]; simpl in H |- *.
  - inversion H; subst. apply tracked_mono. simpl. rewrite Nat.add_0_r. auto.
  - replace (n + S i) with (S n + i) by lia. eapply IH; eauto.
Qed.

Fixpoint run_wfb (ct : ctable) (s : state) (roots : list val) (ops : list (op * option nat)) : bool :=
  match ops with
  | [] => true
  | (o, fa) :: t =>
      wf_heapb (heap s) &&
      let '(r, s') := step ct roots o (mkst (heap s) 0 fa) in
      run_wfb ct s' (roots ++ [match r with Ok v => v | Err _ => VNone end]) t
  end.
Lemma run_wfb_ok ct ops : forall s roots, run_wfb ct s roots ops = true -> run_wf ct s roots ops.
Proof.
  induction ops as [|[o fa] t IH]; intros s roots H; simpl in *; auto.
  apply andb_true_iff in H. destruct H as [H1 H2]. split; [now apply wf_heapb_ok|].
  destruct (step ct roots o (mkst (heap s) 0 fa)) as [r s']. auto.
Qed.

(* two instances created by constructor calls of a covered history share no cell at its end *)
Theorem ctor_peers_disjoint ct :
  (forall c k, lookup_cls ct c = Some k -> c_dnc k = false) -> scalar_table ct -> tgb ct = true ->
  (forall k sp, In k ct -> In sp (c_attrs k) -> a_dnc sp = false) ->
  (forall k sp, In k ct -> In sp (c_attrs k) -> a_init sp = true) ->
  (forall k, In k ct -> c_overrides k = []) ->
  forall ops s roots,
    ops_ok (length roots) [] ops -> run_wf ct s roots ops ->
    forall i j ci pi kwi fi cj pj kwj fj li lj,
      nth_error ops i = Some (OpConstruct ci pi kwi, fi) ->
      nth_error ops j = Some (OpConstruct cj pj kwj, fj) -> i <> j ->
      nth (length roots + i) (snd (run_ops ct s roots ops)) VNone = VRef li ->
      nth (length roots + j) (snd (run_ops ct s roots ops)) VNone = VRef lj ->
      li <> lj /\
      forall z, reach (heap (fst (run_ops ct s roots ops))) li z ->
                reach (heap (fst (run_ops ct s roots ops))) lj z -> False.
Proof.
  intros H1 H2 H3 H4 H5 H6 ops s roots Hok Hwf i j ci pi kwi fi cj pj kwj fj li lj Hi Hj Hne Ei Ej.
  assert (Hpd0 : PD ct s roots []).
  { split; [intros x []|]. split; [intros x l []|]. split; [intros x y lx ly []|]. split; [intros x y lx ly z []|intros x l []]. }
  destruct (peers_disjoint_history ct H1 H2 H3 H4 H5 H6 ops s roots [] Hok Hwf Hpd0) as (_ & _ & P3 & P4 & _).
  pose proof (tracked_ctor ops (length roots) [] i ci pi kwi fi Hi) as Ti.
  pose proof (tracked_ctor ops (length roots) [] j cj pj kwj fj Hj) as Tj.
  assert (Hll : li <> lj) by (eapply (P3 (length roots + i) (length roots + j)); eauto; lia).
  split; [exact Hll|]. intros z R1 R2. eapply (P4 (length roots + i) (length roots + j) li lj z); eauto.
Qed.

(* class 2: xs : List[int] = [1] (class-level default object: cell 0), n : int = 3 *)
Definition exp_ct : ctable :=
  [mkcls 2 [mkattr 50 (TList TInt) (VRef 0) None 2 true false None None [];
            mkattr 51 TInt (VInt 3) None 2 true false None None []]
         false false None [2] 2 [] None None].
(* p = C(); q = C(); p.n = 7; p.with_n(9); q.with_x(5) (a copy) *)
Definition exp_ops : list (op * option nat) :=
  [(OpConstruct 2 None [], None);
   (OpConstruct 2 None [], None);
   (OpSetAttr 1 51 (VInt 7), None);
   (OpHelper 1 (HWith 51) (mkh [VInt 9] false true VMissing false None None [] None), None);
   (OpHelper 2 (HWithItem 50) (mkh [VInt 5] false true VMissing false None None [] None), None)].

Example peers_disjoint_nonvacuous :
  tgb exp_ct = true /\
  ops_ok 1 [] exp_ops /\
  run_wfb exp_ct (mkst [OList [VInt 1]] 0 None) [VRef 0] exp_ops = true /\
  (let '(s', roots') := run_ops exp_ct (mkst [OList [VInt 1]] 0 None) [VRef 0] exp_ops in
   roots' = [VRef 0; VRef 1; VRef 3; VNone; VRef 5; VRef 8] /\
   heap s' = [OList [VInt 1];
              OInst 2 [(50, VRef 2); (51, VInt 7)]; OList [VInt 1];
              OInst 2 [(50, VRef 4); (51, VInt 3)]; OList [VInt 1];
              OInst 2 [(50, VRef 6); (51, VInt 9)]; OList [VInt 1];
              OList [VInt 1; VInt 5]; OInst 2 [(50, VRef 7); (51, VInt 3)]; OList [VInt 1]]).
Proof.
  split; [reflexivity|]. split.
  - simpl. repeat split; auto; repeat constructor.
  - split; [vm_compute; reflexivity|]. vm_compute. split; reflexivity.
Qed.

(* ... then, in place: del p.xs; p.with_n(4, _inplace=True); q.reset_x(_inplace=True);
   q.transform_xs(lambda x: x + [6], _inplace=True); p.update_n(8, _inplace=True) *)
Definition exp_ops2 : list (op * option nat) :=
  exp_ops ++
  [(OpDelAttr 1 50, None);
   (OpHelper 1 (HWith 51) (mkh [VInt 4] true true VMissing false None None [] None), None);
   (OpHelper 2 (HReset 50) (mkh [] true true VMissing false None None [] None), None);
   (OpHelper 2 (HTransform 50) (mkh [] true true VMissing false None None [] (Some (FAppended (VInt 6)))), None);
   (OpHelper 1 (HUpdate 51) (mkh [VInt 8] true true VMissing false None None [] None), None)].

Example peers_disjoint_inplace_nonvacuous :
  ops_ok 1 [] exp_ops2 /\
  run_wfb exp_ct (mkst [OList [VInt 1]] 0 None) [VRef 0] exp_ops2 = true /\
  (let '(s', roots') := run_ops exp_ct (mkst [OList [VInt 1]] 0 None) [VRef 0] exp_ops2 in
   roots' = [VRef 0; VRef 1; VRef 3; VNone; VRef 5; VRef 8; VNone; VRef 1; VRef 3; VRef 3; VRef 1] /\
   nth_error (heap s') 1 = Some (OInst 2 [(50, VRef 10); (51, VInt 8)]) /\
   nth_error (heap s') 3 = Some (OInst 2 [(50, VRef 12); (51, VInt 3)]) /\
   nth_error (heap s') 12 = Some (OList [VInt 1; VInt 6]) /\
   nth_error (heap s') 0 = Some (OList [VInt 1])).
Proof.
  split.
  - simpl. repeat split; auto; repeat constructor.
  - split; [vm_compute; reflexivity|]. vm_compute. repeat split; reflexivity.
Qed.

(* an attribute WITH a dependant: ys is invalidated by n (and has a mutable default, cell 0);
   p = C(); q = C(); p.n = 7 (resets p.ys to a fresh copy); p.reset(_inplace=True) *)
Definition exq_cls : cls :=
  mkcls 2 [mkattr 51 TInt (VInt 3) None 2 true false None None [];
           mkattr 52 (TList TInt) (VRef 0) None 2 true false None None [51]]
        false false None [2] 2 [] None None.
Definition exq_ct : ctable := [exq_cls].
Definition exq_ops : list (op * option nat) :=
  [(OpConstruct 2 None [], None);
   (OpConstruct 2 None [], None);
   (OpSetAttr 1 51 (VInt 7), None);
   (OpHelper 1 HResetTop (mkh [] true true VMissing false None None [] None), None)].

Example peers_disjoint_dependants_nonvacuous :
  tgb exq_ct = true /\ dependants exq_cls 51 = [52] /\
  ops_ok 1 [] exq_ops /\
  run_wfb exq_ct (mkst [OList [VInt 1]] 0 None) [VRef 0] exq_ops = true /\
  (let '(s', roots') := run_ops exq_ct (mkst [OList [VInt 1]] 0 None) [VRef 0] exq_ops in
   roots' = [VRef 0; VRef 1; VRef 3; VNone; VRef 1] /\
   nth_error (heap s') 0 = Some (OList [VInt 1]) /\
   nth_error (heap s') 1 = Some (OInst 2 [(51, VInt 3); (52, VRef 7)]) /\
   nth_error (heap s') 3 = Some (OInst 2 [(51, VInt 3); (52, VRef 4)])).
Proof.
  split; [reflexivity|]. split; [reflexivity|]. split.
  - simpl. repeat split; auto; repeat constructor.
  - split; [vm_compute; reflexivity|]. vm_compute. repeat split; reflexivity.
Qed.
