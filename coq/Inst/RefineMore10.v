(* C05 refinement, container values: with_<a>(x, _inplace=True) / obj.a = x where x is an
   existing list / dict / set of scalars that conforms to the annotation of `a`
   (a List/Dict/Set annotation without item preparer, or Optional/Union/Any
   around one): the reference is stored as it is -- no copy, no normalisation
   needed -- and the receiver's abstraction gets the container's content. *)
From Coq Require Import List ZArith Bool Arith Lia.
From SC Require Import Base.Res Base.PyList Inst.Heap Inst.ClassTable Inst.Model Inst.Canon
  Inst.Abs Inst.SpecHelpers Inst.ElemProofs Inst.Framed Inst.RefineProofs Inst.CopyProofs Inst.RefineMore.
Import ListNotations.
Open Scope nat_scope.

#[local] Opaque FUEL.

(* the abstraction of a container of scalars *)
Definition aobj (o : obj) : aval :=
  match o with
  | OList xs => AList (map abs0 xs)
  | ODict kvs => ADict (map (fun p => (abs0 (fst p), abs0 (snd p))) kvs)
  | OSet xs => ASet (map abs0 (sort_by atom_key xs))
  | OInst _ _ => ABad
  end.

Lemma abs_scalar_cell h lv o n : nth_error h lv = Some o -> scalar_obj o = true ->
  abs (S n) h (VRef lv) = aobj o.
Proof.
  intros Ho Hs. cbn [abs]. rewrite Ho. destruct o as [xs|kvs|xs|c d]; simpl in Hs; try discriminate; cbn [aobj].
  - f_equal. apply map_ext_in. intros x Hx. rewrite forallb_forall in Hs. now rewrite abs_nonref_eq by auto.
  - f_equal. apply map_ext_in. intros p Hp. rewrite forallb_forall in Hs. specialize (Hs p Hp).
    apply andb_true_iff in Hs. destruct Hs. now rewrite !abs_nonref_eq by auto.
  - f_equal. apply map_ext_in. intros x Hx. apply In_sort_by in Hx. rewrite forallb_forall in Hs.
    now rewrite abs_nonref_eq by auto.
Qed.

Lemma forallb_map {A B} (g : A -> B) (p : B -> bool) l : forallb p (map g l) = forallb (fun x => p (g x)) l.
Proof. induction l; simpl; auto. now rewrite IHl. Qed.

Lemma forallb_ext_in {A} (p q : A -> bool) l : (forall x, In x l -> p x = q x) -> forallb p l = forallb q l.
Proof.
  induction l as [|x l IH]; intro H; simpl; auto. rewrite (H x) by (simpl; auto). f_equal. apply IH.
  intros; apply H; simpl; auto.
Qed.

Lemma forallb_sort_by {A} (key : A -> Z) (p : A -> bool) l : forallb p (sort_by key l) = forallb p l.
Proof.
  destruct (forallb p l) eqn:E.
  - apply forallb_forall. intros x Hx. apply In_sort_by in Hx. rewrite forallb_forall in E. auto.
  - destruct (forallb p (sort_by key l)) eqn:F; auto.
    rewrite forallb_forall in F. assert (forallb p l = true); [|congruence].
    apply forallb_forall. intros x Hx. apply F. now apply In_sort_by.
Qed.

Lemma check_type_scalar_obj ct h lv o :
  nth_error h lv = Some o -> scalar_obj o = true ->
  forall t f, ty_depth t < f -> check_type f ct h (VRef lv) t = conforms ct t (aobj o).
Proof.
  intros Ho Hs t. induction t; intros [|f] Hd; try lia; simpl in Hd; cbn [check_type conforms].
  - reflexivity.
  - destruct o; reflexivity.
  - destruct o; reflexivity.
  - destruct o; reflexivity.
  - destruct o; reflexivity.
  - rewrite IHt by lia. destruct o; simpl in Hs; try discriminate; reflexivity.
  - rewrite IHt1, IHt2 by lia. reflexivity.
  - rewrite Ho. destruct o as [xs|kvs|xs|c d]; simpl in Hs; try discriminate; cbn [aobj]; try reflexivity.
    rewrite forallb_map. apply forallb_ext_in. intros x Hx. rewrite forallb_forall in Hs.
    apply check_type_nonref; [auto|lia].
  - rewrite Ho. destruct o as [xs|kvs|xs|c d]; simpl in Hs; try discriminate; cbn [aobj]; try reflexivity.
    rewrite forallb_map. apply forallb_ext_in. intros p Hp. rewrite forallb_forall in Hs. specialize (Hs p Hp).
    apply andb_true_iff in Hs. destruct Hs as [H1 H2]. cbn [fst snd].
    rewrite !check_type_nonref by (auto; lia). reflexivity.
  - rewrite Ho. destruct o as [xs|kvs|xs|c d]; simpl in Hs; try discriminate; cbn [aobj]; try reflexivity.
    rewrite forallb_map, forallb_sort_by. apply forallb_ext_in. intros x Hx. rewrite forallb_forall in Hs.
    apply check_type_nonref; [auto|lia].
  - rewrite Ho. destruct o; simpl in Hs; try discriminate; reflexivity.
Qed.

Lemma accepts_empty_dict_conforms ct t : accepts_empty_dict t = conforms ct t (ADict []).
Proof. induction t; simpl; auto. now rewrite IHt1, IHt2. Qed.

Lemma conforms_dict_accepts ct t kvs : conforms ct t (ADict kvs) = true -> accepts_empty_dict t = true.
Proof.
  induction t; simpl; intro H; try discriminate; auto.
  apply orb_true_iff in H. apply orb_true_iff. destruct H; auto.
Qed.

Section ValueContainer.
  Variable ct : ctable.
  Variable rec : call -> M val.

  Lemma mutate_value_container old lv o replace ctor ety inp s :
    nth_error (heap s) lv = Some o -> scalar_obj o = true -> conforms ct ety (aobj o) = true ->
    mutate_value ct rec (mkmv old (VRef lv) replace PNone None (Some ctor) (Some ety) None [] inp) s
    = (Ok (VRef lv), s).
  Proof.
    intros Hv Hs Hconf. unfold mutate_value. cbn [mv_new]. unfold mutate_value_body.
    cbn [mv_new mv_old mv_replace mv_prepare mv_attrs mv_ctor mv_expected mv_transform mv_attr_transforms
         mv_inplace is_missing negb andb orb].
    cbn [bind ret get_heap]. rewrite Hv.
    destruct o as [xs|kvs|xs|c d]; simpl in Hs; try discriminate; try reflexivity.
    cbn [aobj] in Hconf. rewrite (conforms_dict_accepts ct ety _ Hconf). reflexivity.
  Qed.

  Lemma mutate_value_container_id old lv o replace ctor ety inp s :
    nth_error (heap s) lv = Some o -> scalar_obj o = true -> conforms ct ety (aobj o) = true ->
    fail_at s = None ->
    mutate_value ct rec (mkmv old (VRef lv) replace (PAttr FId) None (Some ctor) (Some ety) None [] inp) s
    = (Ok (VRef lv), ticked s).
  Proof.
    intros Hv Hs Hconf Hfa. unfold mutate_value. cbn [mv_new]. unfold mutate_value_body.
    cbn [mv_new mv_old mv_replace mv_prepare mv_attrs mv_ctor mv_expected mv_transform mv_attr_transforms
         mv_inplace is_missing negb andb orb].
    unfold apply_fn. rewrite bind_assoc. rewrite (bind_ok _ _ _ _ _ (tick_run s Hfa)).
    cbn [bind ret get_heap]. change (heap (ticked s)) with (heap s). rewrite Hv.
    destruct o as [xs|kvs|xs|c d]; simpl in Hs; try discriminate; try reflexivity.
    cbn [aobj] in Hconf. rewrite (conforms_dict_accepts ct ety _ Hconf). reflexivity.
  Qed.

  (* CollectionAttrMutator.prepare on a conforming container, no item preparer: the caller's object *)
  Lemma coll_prepare_conforming sp inst lv o s :
    nth_error (heap s) lv = Some o -> scalar_obj o = true -> ty_depth (a_ty sp) < FUEL ->
    conforms ct (a_ty sp) (aobj o) = true -> a_prepare_item sp = None ->
    coll_prepare ct rec sp inst (VRef lv) s = (Ok (VRef lv), s).
  Proof.
    intros Hv Hs Hty Hconf Hpi. unfold coll_prepare. destruct (family_of (a_ty sp)) as [fam|]; [|reflexivity].
    rewrite bind_ret. unfold check_typeM. rewrite bind_assoc. unfold bind at 1. cbn [get_heap].
    rewrite bind_ret. rewrite (check_type_scalar_obj ct (heap s) lv o Hv Hs (a_ty sp) FUEL Hty), Hconf. cbn [negb].
    rewrite Hpi. unfold truthy_collection, bind, read. rewrite Hv. destruct o; reflexivity.
  Qed.
End ValueContainer.

Section WithContainer.
  Variable ct : ctable.
  Variable h0 : list obj.
  Variables (l : loc) (a : aid) (c : cid) (d : list (aid * val)) (k : cls) (sp : attr_spec).
  Variable s : state.
  Variables (lv : loc) (o : obj).
  Hypothesis Hl : nth_error (heap s) l = Some (OInst c d).
  Hypothesis Hc : lookup_cls ct c = Some k.
  Hypothesis Ha : lookup_attr k a = Some sp.
  Hypothesis Hd : NoDup (map fst d).
  Hypothesis Hok : aok (absv (heap s) (VRef l)) = true.
  Hypothesis Hfz : c_frozen k = false.
  Hypothesis Hni : no_inval k.
  Hypothesis Hfa : fail_at s = None.
  Hypothesis Hty : ty_depth (a_ty sp) < FUEL.
  Hypothesis Hprep : a_prepare sp = None \/ a_prepare sp = Some FId.
  Hypothesis Hpi : a_prepare_item sp = None.
  (* the value: a list / dict / set of scalars that conforms to the annotation *)
  Hypothesis Hv : nth_error (heap s) lv = Some o.
  Hypothesis Hso : scalar_obj o = true.
  Hypothesis Hconf : conforms ct (a_ty sp) (aobj o) = true.

  Let flds := map (fun p => (fst p, abs 23 (heap s) (snd p))) (sorted_fields d).

  Lemma lv_not_l : lv <> l.
  Proof. intro E. subst lv. rewrite Hl in Hv. inversion Hv; subst o. discriminate Hso. Qed.

  Lemma absv_container : absv (heap s) (VRef lv) = aobj o.
  Proof. rewrite absv_unfold. exact (abs_scalar_cell (heap s) lv o 23 Hv Hso). Qed.

  Lemma container_indep o' : abs 23 (set_nth l o' (heap s)) (VRef lv) = abs 23 (heap s) (VRef lv).
  Proof.
    apply (abs_scalar_obj (heap s) (set_nth l o' (heap s)) lv lv o 22 Hv); [|exact Hso].
    rewrite set_nth_other; [exact Hv|]. intro E. apply lv_not_l. now symmetry.
  Qed.

  Lemma aobj_not_sentinel : a_is_sentinel (aobj o) = false.
  Proof. destruct o; reflexivity. Qed.

  Lemma spec_with_container rec' :
    (pv <~ prepared ct h0 rec' sp (aobj o) None ;; store ct rec' (AInst c flds) sp pv true) =
    SOk (AInst c (fset a (aobj o) flds)).
  Proof.
    assert (Hprepd : prepared ct h0 rec' sp (aobj o) None = SOk (aobj o)).
    { assert (Hrun : forall x, run_prep ct rec' (match a_prepare sp with Some f => SPAttr f | None => SPNone end) x = SOk x)
        by (intro x; destruct Hprep as [-> | ->]; reflexivity).
      assert (Hnorm : forall x, conforms ct (a_ty sp) x = true ->
                match x with ANone | AMissing => False | _ => True end ->
                (if ty_is_collection (a_ty sp) then normalise ct h0 rec' sp x else SOk x) = SOk x).
      { intros x Hx Hnn. destruct (ty_is_collection (a_ty sp)); [|reflexivity].
        unfold normalise. destruct x; try contradiction; cbn [sbind]; rewrite Hx, Hpi; reflexivity. }
      unfold prepared.
      destruct o as [xs|kvs|xs|c0 d0]; simpl in Hso; try discriminate; cbn [aobj] in *;
        unfold spec_value; cbn [a_not_given negb]; rewrite Hrun; cbn [sbind a_is_dict andb a_is_missing].
      - now apply Hnorm.
      - rewrite <- (accepts_empty_dict_conforms ct (a_ty sp)), (conforms_dict_accepts ct _ _ Hconf).
        cbn [negb sbind]. now apply Hnorm.
      - now apply Hnorm. }
    rewrite Hprepd. cbn [sbind]. unfold store. rewrite aobj_not_sentinel, Hconf. cbn [negb].
    rewrite (a_name_sp a k sp Ha). unfold invalidate, cls_for. rewrite Hc. cbn [sbind].
    rewrite invalidatees_none by auto. reflexivity.
  Qed.

  Theorem with_gen_container_refines f0 :
    let ah := mkah [absv (heap s) (VRef lv)] true true AMissing false None None [] None in
    match with_inplace_gen ct (exec ct (S f0)) l a (VRef lv) s with
    | (Ok r, s') => r = VRef l /\
                    spec_helper ct h0 (absv (heap s) (VRef l)) (SWith a) ah = SOk (absv (heap s') (VRef l)) /\
                    (forall i, i <> l -> nth_error (heap s') i = nth_error (heap s) i)
    | (Err e, s') => False
    end.
  Proof.
    intro ah.
    assert (Hspec : spec_helper ct h0 (absv (heap s) (VRef l)) (SWith a) ah = SOk (AInst c (fset a (aobj o) flds))).
    { rewrite (spec_helper_inplace_unfrozen ct h0 l c d k s Hl Hc Hfz (SWith a) ah eq_refl). fold flds.
      unfold spec_unfrozen, spec_with, cls_for, apos0, ah. cbn [ah_pos nth ah_kw]. rewrite Hc. cbn [sbind]. rewrite Ha.
      rewrite absv_container. apply spec_with_container. }
    rewrite Hspec. clear Hspec.
    unfold with_inplace_gen.
    rewrite (bind_ok _ _ _ _ _ (spec_for_run ct l a c d k sp s Hl Hc Ha s eq_refl)). cbn [snd].
    rewrite (a_name_sp a k sp Ha).
    assert (Hpr : exists s1, prepare_attr_value ct (exec ct (S f0)) sp l (VRef lv) None s = (Ok (VRef lv), s1) /\
                             heap s1 = heap s).
    { unfold prepare_attr_value. rewrite exec_S. cbn [body].
      destruct Hprep as [-> | ->].
      - exists s. split; [|reflexivity].
        rewrite (bind_ok _ _ _ _ _ (mutate_value_container ct _ VMissing lv o false _ _ false s Hv Hso Hconf)).
        destruct (ty_is_collection (a_ty sp)); [|reflexivity].
        exact (coll_prepare_conforming ct _ sp l lv o s Hv Hso Hty Hconf Hpi).
      - exists (ticked s). split; [|reflexivity].
        rewrite (bind_ok _ _ _ _ _ (mutate_value_container_id ct _ VMissing lv o false _ _ false s Hv Hso Hconf Hfa)).
        destruct (ty_is_collection (a_ty sp)); [|reflexivity].
        exact (coll_prepare_conforming ct _ sp l lv o (ticked s) Hv Hso Hty Hconf Hpi). }
    destruct Hpr as [s1 [Hrun Hh1]]. rewrite (bind_ok _ _ _ _ _ Hrun).
    assert (Hl1 : nth_error (heap s1) l = Some (OInst c d)) by (now rewrite Hh1).
    assert (Hpass : negb (false || initializing d) && c_frozen k = false) by (rewrite Hfz; apply andb_false_r).
    rewrite (mutate_attr_inplace_pass ct _ l a (VRef lv) true false s1 c d k Hl1 Hc Hpass eq_refl Hni).
    rewrite Ha, Hh1. rewrite (check_type_scalar_obj ct (heap s) lv o Hv Hso (a_ty sp) FUEL Hty), Hconf.
    split; [reflexivity|]. split.
    - rewrite heap_upd, Hh1, absv_unfold.
      rewrite (abs_inst_update (heap s) l c d 23 a (VRef lv) Hl Hd); [|rewrite <- absv_unfold; exact Hok|exact container_indep].
      now rewrite (abs_scalar_cell (heap s) lv o 22 Hv Hso).
    - intros i Hi. rewrite heap_upd, Hh1. apply set_nth_other. intro E. apply Hi. now symmetry.
  Qed.

  Corollary with_container_inplace_refines :
    let h := mkh [VRef lv] true true VMissing false None None [] None in
    let ah := mkah [absv (heap s) (VRef lv)] true true AMissing false None None [] None in
    match run_helper ct l (HWith a) h s with
    | (Ok r, s') => r = VRef l /\
                    spec_helper ct h0 (absv (heap s) (VRef l)) (SWith a) ah = SOk (absv (heap s') (VRef l)) /\
                    (forall i, i <> l -> nth_error (heap s') i = nth_error (heap s) i)
    | (Err e, s') => False
    end.
  Proof.
    intros h ah. unfold h. rewrite run_helper_with_inplace, XFUEL_S. exact (with_gen_container_refines 39).
  Qed.

  Corollary setattr_container_refines roots x :
    nth x roots VNone = VRef l ->
    let ah := mkah [absv (heap s) (VRef lv)] true true AMissing false None None [] None in
    match step ct roots (OpSetAttr x a (VRef lv)) s with
    | (Ok r, s') => spec_helper ct h0 (absv (heap s) (VRef l)) (SSetAttrOp a) ah = SOk (absv (heap s') (VRef l)) /\
                    (forall i, i <> l -> nth_error (heap s') i = nth_error (heap s) i)
    | (Err e, s') => False
    end.
  Proof.
    intros Hx ah. rewrite (step_setattr ct roots x a (VRef lv) l s Hx).
    assert (Hman : forall c0 d0 k0, nth_error (heap s) l = Some (OInst c0 d0) -> lookup_cls ct c0 = Some k0 ->
                                    lookup_attr k0 a <> None).
    { intros c0 d0 k0 E1 E2. rewrite Hl in E1. inversion E1; subst. rewrite Hc in E2. inversion E2; subst.
      rewrite Ha. discriminate. }
    unfold bind. rewrite (setattr_is_with_inplace ct (exec ct 39) l a (VRef lv) s Hman).
    pose proof (with_gen_container_refines 38) as H. cbv zeta in H.
    assert (Hsame : spec_helper ct h0 (absv (heap s) (VRef l)) (SSetAttrOp a) ah =
                    spec_helper ct h0 (absv (heap s) (VRef l)) (SWith a) ah).
    { rewrite !(spec_helper_inplace_unfrozen ct h0 l c d k s Hl Hc Hfz _ ah eq_refl). reflexivity. }
    rewrite Hsame.
    destruct (with_inplace_gen ct (exec ct 39) l a (VRef lv) s) as [[r|e] s']; [destruct H as [_ H]|]; exact H.
  Qed.
End WithContainer.
