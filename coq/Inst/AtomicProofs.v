(* In-place assignment family on a NON-frozen instance: when the attribute has
   no dependants (nothing is invalidated by it), mutate_attr(inplace) either
   fails before its single write or succeeds: an exception leaves the state
   exactly as it was.  (With dependants, the resets performed by invalidation
   come after the write; that case is validated by the correspondence only.) *)
From Coq Require Import List ZArith Bool Arith Lia.
From SC Require Import Base.Res Base.PyList Inst.Heap Inst.ClassTable Inst.Model Inst.Framed
  Inst.FrameProofs Inst.FrozenProofs.
Import ListNotations.
Open Scope nat_scope.

(* a computation that raises leaves the state untouched *)
Definition atomic {A} (m : M A) : Prop :=
  forall s e, fst (m s) = Err e -> snd (m s) = s.
(* a computation that never changes the state *)
Definition reader {A} (m : M A) : Prop := forall s, snd (m s) = s.

Lemma reader_atomic {A} (m : M A) : reader m -> atomic m.
Proof. intros H s e _. apply H. Qed.

Lemma reader_ret {A} (a : A) : reader (ret a).
Proof. intro s. reflexivity. Qed.
Lemma reader_fail {A} e : reader (@fail A e).
Proof. intro s. reflexivity. Qed.
Lemma reader_bind {A B} (m : M A) (k : A -> M B) :
  reader m -> (forall a, reader (k a)) -> reader (bind m k).
Proof.
  intros Hm Hk s. unfold bind. specialize (Hm s). destruct (m s) as [[a|e] s1]; simpl in *; subst; auto.
  apply Hk.
Qed.
Lemma atomic_bind_reader {A B} (m : M A) (k : A -> M B) :
  reader m -> (forall a, atomic (k a)) -> atomic (bind m k).
Proof.
  intros Hm Hk s e. unfold bind. specialize (Hm s). destruct (m s) as [[a|e'] s1]; simpl in *; subst; auto.
  apply Hk.
Qed.

Lemma reader_read l : reader (read l).
Proof. intro s. unfold read. destruct (nth_error (heap s) l); reflexivity. Qed.
Lemma reader_get_heap : reader get_heap.
Proof. intro s. reflexivity. Qed.
Lemma reader_read_inst l : reader (read_inst l).
Proof.
  unfold read_inst. apply reader_bind; [apply reader_read|]. intros [] ; auto using reader_ret, reader_fail.
Qed.
Lemma reader_cls_of ct c : reader (cls_of ct c).
Proof. unfold cls_of. destruct (lookup_cls ct c); auto using reader_ret, reader_fail. Qed.
Lemma reader_check_typeM ct v t : reader (check_typeM ct v t).
Proof. unfold check_typeM. apply reader_bind; [apply reader_get_heap|]. intros; apply reader_ret. Qed.

Lemma write_result l o s :
  write l o s = (Err RuntimeErr, s) \/
  (l < length (heap s) /\ write l o s = (Ok tt, mkst (set_nth l o (heap s)) (ncalls s) (fail_at s))).
Proof.
  unfold write. destruct (l <? length (heap s)) eqn:E; auto.
  right. split; auto. now apply Nat.ltb_lt.
Qed.

Lemma nth_error_set_nth_same {A} n (x : A) l : n < length l -> nth_error (set_nth n x l) n = Some x.
Proof. revert n; induction l; intros [|n] H; simpl in *; auto; try lia. apply IHl. lia. Qed.

Section Atomic.
  Variable ct : ctable.
  Variable rec : call -> M val.

  (* nothing is invalidated by attribute a in class k *)
  Definition no_dependants (k : cls) (a : aid) : Prop := dependants k a = [].

  Lemma closure_no_dependants k a fuel : no_dependants k a -> inv_closure fuel k [a] [a] = [a].
  Proof.
    intro H. destruct fuel; simpl; auto. rewrite H. simpl. destruct fuel; reflexivity.
  Qed.

  Lemma iterM_all_ret {A} (f : A -> M unit) (xs : list A) s :
    (forall x, In x xs -> f x = ret tt) -> iterM f xs s = (Ok tt, s).
  Proof.
    induction xs as [|x t IH]; intro H; simpl; [reflexivity|].
    rewrite (H x) by (simpl; auto). unfold bind. simpl. apply IH. intros; apply H; simpl; auto.
  Qed.

  Lemma invalidate_noop l a s c d k :
    nth_error (heap s) l = Some (OInst c d) -> lookup_cls ct c = Some k -> no_dependants k a ->
    invalidate_attrs ct rec l a s = (Ok tt, s).
  Proof.
    intros H1 H2 H3. unfold invalidate_attrs.
    erewrite bind_ok; [|apply read_inst_at; eauto]. cbn [fst].
    erewrite bind_ok; [|apply cls_of_at; eauto]. cbv zeta.
    rewrite closure_no_dependants by exact H3.
    apply iterM_all_ret. intros sp _.
    replace (existsb (fun z : nat => z =? a_name sp) [a] && negb (a_name sp =? a)) with false; [reflexivity|].
    simpl. rewrite Nat.eqb_sym. destruct (a_name sp =? a); reflexivity.
  Qed.

  (* the tail of mutate_attr(inplace): the single write and the (empty) invalidation *)
  Lemma write_tail_cases l a v (skip : bool) c k s d :
    lookup_cls ct c = Some k -> no_dependants k a ->
    nth_error (heap s) l = Some (OInst c d) ->
    (raw_setattr l a v ;;; (if skip then ret tt else invalidate_attrs ct rec l a)) s = (Err RuntimeErr, s)
    \/ exists s1, (raw_setattr l a v ;;; (if skip then ret tt else invalidate_attrs ct rec l a)) s = (Ok tt, s1).
  Proof.
    intros Hk Hd Hn. unfold raw_setattr, bind.
    rewrite (read_inst_at l s c d Hn). cbn [fst snd].
    destruct (write_result l (OInst c (assoc_set a v d)) s) as [W|[Hlt W]]; rewrite W; [left; reflexivity|].
    right. destruct skip; [eexists; reflexivity|].
    erewrite invalidate_noop; [eexists; reflexivity| |exact Hk|exact Hd].
    simpl. now apply nth_error_set_nth_same.
  Qed.

  Lemma write_tail_atomic l a v (skip : bool) c k :
    lookup_cls ct c = Some k -> no_dependants k a ->
    forall s d, nth_error (heap s) l = Some (OInst c d) ->
    forall e, fst ((raw_setattr l a v ;;; (if skip then ret tt else invalidate_attrs ct rec l a)) s) = Err e ->
              snd ((raw_setattr l a v ;;; (if skip then ret tt else invalidate_attrs ct rec l a)) s) = s.
  Proof.
    intros Hk Hd s d Hn e.
    destruct (write_tail_cases l a v skip c k s d Hk Hd Hn) as [E|[s1 E]]; rewrite E; simpl; auto.
    discriminate.
  Qed.

  Lemma thawed_nothaw_eq {A} l (m : M A) s c d k :
    nth_error (heap s) l = Some (OInst c d) -> lookup_cls ct c = Some k -> thawed ct l false m s = m s.
  Proof.
    intros H1 H2. unfold thawed. erewrite bind_ok; [|unfold read; rewrite H1; reflexivity].
    cbv iota beta. erewrite bind_ok; [|apply cls_of_at; eauto]. reflexivity.
  Qed.

  Local Opaque check_type FUEL.

  Lemma type_check_cases k a v (tc : bool) s :
    let m := (match lookup_attr k a with
              | Some sp => if tc then ok <- check_typeM ct v (a_ty sp) ;; (if ok then ret tt else fail TypeErr)
                           else ret tt
              | None => ret tt end) in
    m s = (Ok tt, s) \/ m s = (Err TypeErr, s).
  Proof.
    cbv zeta. destruct (lookup_attr k a); [destruct tc|]; auto.
    unfold check_typeM, get_heap, bind, ret. simpl.
    destruct (check_type FUEL ct (heap s) v (a_ty a0)); auto.
  Qed.

  Lemma mutate_attr_inplace_cases l a v tc force skip s c d k :
    nth_error (heap s) l = Some (OInst c d) -> lookup_cls ct c = Some k ->
    c_dnc k = false -> no_dependants k a ->
    (exists e, mutate_attr ct rec l a v true tc force skip s = (Err e, s))
    \/ exists r s1, mutate_attr ct rec l a v true tc force skip s = (Ok r, s1).
  Proof.
    intros Hn Hk Hdnc Hd. unfold mutate_attr.
    destruct (is_sentinel v); [right; eexists; eexists; reflexivity|].
    erewrite bind_ok; [|apply read_inst_at; eauto]. cbn [fst snd].
    erewrite bind_ok; [|apply cls_of_at; eauto].
    destruct (negb (force || initializing d) && true && c_frozen k).
    { left. eexists. erewrite bind_err; reflexivity. }
    erewrite bind_ok; [|reflexivity].
    destruct (type_check_cases k a v tc s) as [E|E]; cbv zeta in E.
    2:{ left. eexists. erewrite bind_err; [reflexivity|exact E]. }
    erewrite bind_ok; [|exact E].
    cbv zeta. rewrite Hdnc. cbn [orb negb andb].
    erewrite bind_ok; [|reflexivity].
    erewrite bind_ok; [|reflexivity].
    destruct (write_tail_cases l a v skip c k s d Hk Hd Hn) as [E2|[s1 E2]].
    - left. eexists. erewrite bind_err; [reflexivity|].
      rewrite (thawed_nothaw_eq l _ s c d k Hn Hk). exact E2.
    - right. eexists. eexists. erewrite bind_ok; [reflexivity|].
      rewrite (thawed_nothaw_eq l _ s c d k Hn Hk). exact E2.
  Qed.

  Theorem mutate_attr_inplace_atomic l a v tc force skip s c d k :
    nth_error (heap s) l = Some (OInst c d) -> lookup_cls ct c = Some k ->
    c_dnc k = false -> no_dependants k a ->
    forall e, fst (mutate_attr ct rec l a v true tc force skip s) = Err e ->
              snd (mutate_attr ct rec l a v true tc force skip s) = s.
  Proof.
    intros Hn Hk Hdnc Hd e.
    destruct (mutate_attr_inplace_cases l a v tc force skip s c d k Hn Hk Hdnc Hd) as [[e' E]|[r [s1 E]]];
      rewrite E; simpl; auto. discriminate.
  Qed.
End Atomic.

(* ------------------------------------------------------------------ *)
(* From the atomicity of the final write to whole operations: everything
   before it is framed (only allocates), so an exception leaves every
   pre-existing cell as it was. *)
Section AtomicOps.
  Variable ct : ctable.
  Hypothesis no_dnc : forall c k, lookup_cls ct c = Some k -> c_dnc k = false.

  Definition err_frame {A} (b : nat) (m : M A) (s : state) : Prop :=
    forall e, fst (m s) = Err e -> frame b s (snd (m s)).

  (* a framed prefix followed by a step that is atomic in every state where
     cell l still holds the instance *)
  Lemma prefix_then_atomic {A B} b l c d (m : M A) (k : A -> M B) Q s :
    l < b -> b <= length (heap s) -> nth_error (heap s) l = Some (OInst c d) ->
    framed b m Q ->
    (forall a s1, nth_error (heap s1) l = Some (OInst c d) ->
                  forall e, fst (k a s1) = Err e -> snd (k a s1) = s1) ->
    err_frame b (bind m k) s.
  Proof.
    intros Hl Hb Hn Hm Hk e. unfold bind. destruct (Hm s Hb) as [F _].
    destruct (m s) as [[a|e1] s1] eqn:Em; simpl in *; [|intros _; exact F].
    intro E. rewrite (Hk a s1) with (e := e); auto.
    destruct F as [_ F]. rewrite (F l Hl). exact Hn.
  Qed.

  Variable rec : call -> M val.

  Lemma with_attr_inplace_err_frame b l sp new attrs s c d k :
    l < b -> b <= length (heap s) ->
    nth_error (heap s) l = Some (OInst c d) -> lookup_cls ct c = Some k ->
    no_dependants k (a_name sp) ->
    err_frame b (with_attr ct l sp new attrs true) s.
  Proof.
    intros Hl Hb Hn Hk Hd. unfold with_attr.
    eapply prefix_then_atomic with (Q := fun _ => True); eauto.
    - apply prepare_attr_value_framed; auto. apply exec_framed; auto.
    - intros v s1 Hn1 e. eapply mutate_attr_inplace_atomic; eauto.
  Qed.

  Lemma setattr_err_frame b l a v force skip s c d k :
    (forall q, call_ok b q -> framed b (rec q) (post b q)) ->
    l < b -> b <= length (heap s) ->
    nth_error (heap s) l = Some (OInst c d) -> lookup_cls ct c = Some k ->
    no_dependants k a ->
    err_frame b (setattr_ ct rec l a v force skip) s.
  Proof.
    intros Hrec Hl Hb Hn Hk Hd e. unfold setattr_.
    erewrite bind_ok; [|apply read_inst_at; eauto]. cbn [fst snd].
    erewrite bind_ok; [|apply cls_of_at; eauto].
    revert e. eapply prefix_then_atomic with (Q := fun _ => True); eauto.
    - destruct (lookup_attr k a); [apply prepare_attr_value_framed; auto|now apply framed_ret].
    - intros value s1 Hn1 e. eapply mutate_attr_inplace_atomic; eauto.
  Qed.
End AtomicOps.

Section AtomicStep.
  Variable ct : ctable.
  Hypothesis no_dnc : forall c k, lookup_cls ct c = Some k -> c_dnc k = false.

  (* obj.a = v on a non-frozen or frozen instance whose attribute a has no
     dependants: an exception leaves every pre-existing cell unchanged *)
  Theorem setattr_op_err_frame roots x a v s l c d k e :
    nth x roots VNone = VRef l -> l < length (heap s) ->
    nth_error (heap s) l = Some (OInst c d) -> lookup_cls ct c = Some k ->
    no_dependants k a ->
    fst (step ct roots (OpSetAttr x a v) s) = Err e ->
    frame (length (heap s)) s (snd (step ct roots (OpSetAttr x a v) s)).
  Proof.
    intros Hx Hl Hn Hk Hd. unfold step. rewrite Hx. cbn [loc_of].
    rewrite bind_ok with (a := l) (s1 := s) by reflexivity.
    pose proof (setattr_err_frame ct no_dnc (exec ct 39) (length (heap s)) l a v false false s c d k
                  (exec_framed ct no_dnc (length (heap s)) 39) Hl (le_n _) Hn Hk Hd) as H.
    change (exec ct XFUEL (KSetAttr l a v false false)) with (setattr_ ct (exec ct 39) l a v false false).
    unfold bind.
    destruct (setattr_ ct (exec ct 39) l a v false false s) as [[r|e1] s1] eqn:E; simpl.
    - discriminate.
    - intros _. specialize (H e1). rewrite E in H. simpl in H. auto.
  Qed.

  Theorem inplace_with_op_err_frame roots x a h s l c d k sp e :
    nth x roots VNone = VRef l -> l < length (heap s) ->
    nth_error (heap s) l = Some (OInst c d) -> lookup_cls ct c = Some k ->
    lookup_attr k a = Some sp -> a_name sp = a -> no_dependants k a ->
    h_inplace h = true -> h_if h = true ->
    fst (step ct roots (OpHelper x (HWith a) h) s) = Err e ->
    frame (length (heap s)) s (snd (step ct roots (OpHelper x (HWith a) h) s)).
  Proof.
    intros Hx Hl Hn Hk Hsp Hname Hd Hin Hif. unfold step. rewrite Hx. cbn [loc_of].
    rewrite bind_ok with (a := l) (s1 := s) by reflexivity.
    unfold run_helper. rewrite Hif, Hin. cbn [negb].
    unfold spec_for.
    erewrite bind_ok; [|erewrite bind_ok; [|apply read_inst_at; eauto]; cbn [fst];
                        erewrite bind_ok; [|apply cls_of_at; eauto]; rewrite Hsp; reflexivity].
    cbn [snd].
    pose proof (with_attr_inplace_err_frame ct no_dnc (length (heap s)) l sp (pos0 h) (h_kw h) s c d k
                  Hl (le_n _) Hn Hk) as H.
    rewrite Hname in H. intro E. apply (H Hd e E).
  Qed.
End AtomicStep.
