(* In-place assignment family on a NON-frozen instance: when the attribute has
   no dependants (nothing is invalidated by it), mutate_attr(inplace) either
   fails before its single write or succeeds: an exception leaves the state
   exactly as it was.  (With dependants, the resets performed by invalidation
   come after the write; that case is validated by the correspondence only.) *)
From Coq Require Import List ZArith Bool Arith Lia.
From SC Require Import Base.Res Base.PyList Inst.Heap Inst.ClassTable Inst.Model Inst.Framed
  Inst.FrameProofs Inst.FrozenProofs.
Import ListNotations.
Open Scope nat_scope.

(* a computation that raises leaves the state untouched *)
Definition atomic {A} (m : M A) : Prop :=
  forall s e, fst (m s) = Err e -> snd (m s) = s.
(* a computation that never changes the state *)
Definition reader {A} (m : M A) : Prop := forall s, snd (m s) = s.

Lemma reader_atomic {A} (m : M A) : reader m -> atomic m.
Proof. intros H s e _. apply H. Qed.

Lemma reader_ret {A} (a : A) : reader (ret a).
Proof. intro s. reflexivity. Qed.
Lemma reader_fail {A} e : reader (@fail A e).
Proof. intro s. reflexivity. Qed.
Lemma reader_bind {A B} (m : M A) (k : A -> M B) :
  reader m -> (forall a, reader (k a)) -> reader (bind m k).
Proof.
  intros Hm Hk s. unfold bind. specialize (Hm s). destruct (m s) as [[a|e] s1]; simpl in *; subst; auto.
  apply Hk.
Qed.
Lemma atomic_bind_reader {A B} (m : M A) (k : A -> M B) :
  reader m -> (forall a, atomic (k a)) -> atomic (bind m k).
Proof.
  intros Hm Hk s e. unfold bind. specialize (Hm s). destruct (m s) as [[a|e'] s1]; simpl in *; subst; auto.
  apply Hk.
Qed.

Lemma reader_read l : reader (read l).
Proof. intro s. unfold read. destruct (nth_error (heap s) l); reflexivity. Qed.
Lemma reader_get_heap : reader get_heap.
Proof. intro s. reflexivity. Qed.
Lemma reader_read_inst l : reader (read_inst l).
Proof.
  unfold read_inst. apply reader_bind; [apply reader_read|]. intros [] ; auto using reader_ret, reader_fail.
Qed.
Lemma reader_cls_of ct c : reader (cls_of ct c).
Proof. unfold cls_of. destruct (lookup_cls ct c); auto using reader_ret, reader_fail. Qed.
Lemma reader_check_typeM ct v t : reader (check_typeM ct v t).
Proof. unfold check_typeM. apply reader_bind; [apply reader_get_heap|]. intros; apply reader_ret. Qed.

Lemma write_result l o s :
  write l o s = (Err RuntimeErr, s) \/
  (l < length (heap s) /\ write l o s = (Ok tt, mkst (set_nth l o (heap s)) (ncalls s) (fail_at s))).
Proof.
  unfold write. destruct (l <? length (heap s)) eqn:E; auto.
  right. split; auto. now apply Nat.ltb_lt.
Qed.

Lemma nth_error_set_nth_same {A} n (x : A) l : n < length l -> nth_error (set_nth n x l) n = Some x.
Proof. revert n; induction l; intros [|n] H; simpl in *; auto; try lia. apply IHl. lia. Qed.

Section Atomic.
  Variable ct : ctable.
  Variable rec : call -> M val.

  (* nothing is invalidated by attribute a in class k *)
  Definition no_dependants (k : cls) (a : aid) : Prop := dependants k a = [].

  Lemma closure_no_dependants k a fuel : no_dependants k a -> inv_closure fuel k [a] [a] = [a].
  Proof.
    intro H. destruct fuel; simpl; auto. rewrite H. simpl. destruct fuel; reflexivity.
  Qed.

  Lemma invalidate_noop l a s c d k :
    nth_error (heap s) l = Some (OInst c d) -> lookup_cls ct c = Some k -> no_dependants k a ->
    invalidate_attrs ct rec l a s = (Ok tt, s).
  Proof.
    intros H1 H2 H3. unfold invalidate_attrs.
    erewrite bind_ok; [|apply read_inst_at; eauto]. cbn [fst].
    erewrite bind_ok; [|apply cls_of_at; eauto]. cbv zeta.
    rewrite closure_no_dependants by exact H3.
    induction (c_attrs k) as [|sp t IH]; simpl; auto.
    replace (existsb (fun z => z =? a_name sp) [a] && negb (a_name sp =? a)) with false.
    - unfold bind. simpl. exact IH.
    - simpl. rewrite Nat.eqb_sym. destruct (a_name sp =? a); reflexivity.
  Qed.

  (* the tail of mutate_attr(inplace): the single write and the (empty) invalidation *)
  Lemma write_tail_atomic l a v skip c k :
    lookup_cls ct c = Some k -> no_dependants k a ->
    forall s d, nth_error (heap s) l = Some (OInst c d) ->
    forall e, fst ((raw_setattr l a v ;;; (if skip then ret tt else invalidate_attrs ct rec l a)) s) = Err e ->
              snd ((raw_setattr l a v ;;; (if skip then ret tt else invalidate_attrs ct rec l a)) s) = s.
  Proof.
    intros Hk Hd s d Hn e. unfold raw_setattr.
    unfold bind at 1. unfold bind at 1.
    rewrite (read_inst_at l s c d Hn). cbn [fst snd].
    destruct (write_result l (OInst c (assoc_set a v d)) s) as [W|[Hlt W]]; rewrite W; [auto|].
    set (s1 := mkst (set_nth l (OInst c (assoc_set a v d)) (heap s)) (ncalls s) (fail_at s)).
    destruct skip; [simpl; discriminate|].
    rewrite (invalidate_noop l a s1 c (assoc_set a v d) k); [simpl; discriminate| |exact Hk|exact Hd].
    unfold s1. simpl. now apply nth_error_set_nth_same.
  Qed.

  Lemma thawed_nothaw_eq {A} l (m : M A) s c d k :
    nth_error (heap s) l = Some (OInst c d) -> lookup_cls ct c = Some k -> thawed ct l false m s = m s.
  Proof.
    intros H1 H2. unfold thawed. erewrite bind_ok; [|unfold read; rewrite H1; reflexivity].
    erewrite bind_ok; [|apply cls_of_at; eauto]. reflexivity.
  Qed.

  Theorem mutate_attr_inplace_atomic l a v tc force skip s c d k :
    nth_error (heap s) l = Some (OInst c d) -> lookup_cls ct c = Some k ->
    c_dnc k = false -> no_dependants k a ->
    forall e, fst (mutate_attr ct rec l a v true tc force skip s) = Err e ->
              snd (mutate_attr ct rec l a v true tc force skip s) = s.
  Proof.
    intros Hn Hk Hdnc Hd e. unfold mutate_attr.
    destruct (is_sentinel v); [simpl; discriminate|].
    erewrite bind_ok; [|apply read_inst_at; eauto]. cbn [fst snd].
    erewrite bind_ok; [|apply cls_of_at; eauto].
    (* the frozen guard *)
    unfold bind at 1.
    destruct (negb (force || initializing d) && true && c_frozen k); [simpl; auto|]. cbn [ret].
    (* the type check: a reader *)
    unfold bind at 1.
    assert (R : reader (match lookup_attr k a with
                        | Some sp => if tc then ok <- check_typeM ct v (a_ty sp) ;; (if ok then ret tt else fail TypeErr)
                                     else ret tt
                        | None => ret tt end)).
    { destruct (lookup_attr k a); [destruct tc|]; auto using reader_ret.
      apply reader_bind; [apply reader_check_typeM|]. intros []; auto using reader_ret, reader_fail. }
    specialize (R s).
    destruct ((match lookup_attr k a with
               | Some sp => if tc then ok <- check_typeM ct v (a_ty sp) ;; (if ok then ret tt else fail TypeErr)
                            else ret tt
               | None => ret tt end) s) as [[u|e'] s1] eqn:E; simpl in R; subst s1; [|simpl; auto].
    cbv zeta. rewrite Hdnc. cbn [orb negb andb].
    unfold bind at 1. cbn [ret]. unfold bind at 1. cbn [ret].
    unfold bind at 1.
    rewrite (thawed_nothaw_eq l _ s c d k Hn Hk).
    pose proof (write_tail_atomic l a v skip c k Hk Hd s d Hn) as T.
    destruct ((raw_setattr ct l a v;;; (if skip then ret tt else invalidate_attrs ct rec l a)) s) as [[u'|e''] s2] eqn:E2.
    - simpl. discriminate.
    - simpl. intros _. eapply T. reflexivity.
  Qed.
End Atomic.
