(* C05 refinement, continued (extends RefineProofs.v without touching it):
   the in-place store of a proper scalar in closed form (model outcome and
   specification outcome side by side, for every recursion budget, with the
   frozen guard passed either because the class is not frozen, or because the
   write is forced, or because the instance is being initialised), and from it
   transform_<a>(f, _inplace=True), reset_<a>(_inplace=True) (literal scalar
   default / no default) and the top-level update(_inplace=True, a=v, ...) as
   a whole. *)
From Coq Require Import List ZArith Bool Arith Lia.
From SC Require Import Base.Res Base.PyList Inst.Heap Inst.ClassTable Inst.Model Inst.Canon
  Inst.Abs Inst.SpecHelpers Inst.ElemProofs Inst.Framed Inst.RefineProofs Inst.CopyProofs.
Import ListNotations.
Open Scope nat_scope.

#[local] Opaque FUEL.

Lemma sexec_S ct h0 f q : sexec ct h0 (S f) q = sbody ct h0 (sexec ct h0 f) q.
Proof. reflexivity. Qed.
Lemma SFUEL_S : SFUEL = S 29.
Proof. reflexivity. Qed.
Lemma exec_XFUEL_mv ct m : exec ct XFUEL (KMutateValue m) = mutate_value ct (exec ct 39) m.
Proof. reflexivity. Qed.
Lemma exec_XFUEL_del ct l a force skip : exec ct XFUEL (KDelAttr l a force skip) = delattr_ ct (exec ct 39) l a force skip.
Proof. reflexivity. Qed.
Lemma exec_S_set ct f l a v force skip : exec ct (S f) (KSetAttr l a v force skip) = setattr_ ct (exec ct f) l a v force skip.
Proof. reflexivity. Qed.

(* ------------------------------------------------------------------ *)
(** * mutate_attr in place, whenever the frozen guard lets the write through *)

Section RunStorePass.
  Variable ct : ctable.
  Variable rec : call -> M val.

  Lemma mutate_attr_inplace_pass l a v tc force s c d k :
    nth_error (heap s) l = Some (OInst c d) -> lookup_cls ct c = Some k ->
    negb (force || initializing d) && c_frozen k = false ->
    is_sentinel v = false -> no_inval k ->
    mutate_attr ct rec l a v true tc force false s =
    match (if tc then match lookup_attr k a with
                      | Some sp => check_type FUEL ct (heap s) v (a_ty sp)
                      | None => true end
           else true) with
    | true => (Ok (VRef l), upd s l (OInst c (assoc_set a v d)))
    | false => (Err TypeErr, s)
    end.
  Proof.
    intros Hl Hc Hf Hs Hn. unfold mutate_attr. rewrite Hs.
    rewrite (bind_ok _ _ _ _ _ (read_inst_at l s c d Hl)). cbn [fst snd].
    rewrite (bind_ok _ _ _ _ _ (cls_of_at ct c s k Hc)).
    rewrite andb_true_r, Hf. rewrite bind_ret.
    assert (Hlen : l < length (heap s)) by (apply nth_error_Some; congruence).
    assert (Hstore : forall s0, s0 = s ->
      (l' <- (if negb (true || c_dnc k) then v0 <- deepcopy ct (VRef l);; loc_of v0 else ret l);;
       value <- (if negb (true || c_dnc k) && same_object (assoc a d) v
                 then p' <- read_inst l';; ret match assoc a (snd p') with Some v' => v' | None => v end
                 else ret v);;
       thawed ct l' (negb (true || c_dnc k))
         (raw_setattr l' a value;;; (if false then ret tt else invalidate_attrs ct rec l' a));;;
       ret (VRef l')) s0 = (Ok (VRef l), upd s l (OInst c (assoc_set a v d)))).
    { intros s0 ->. cbn [orb negb andb]. rewrite !bind_ret.
      unfold bind at 1. rewrite (thawed_false ct l _ s c d k Hl Hc).
      rewrite (bind_ok _ _ _ _ _ (raw_setattr_at l a v s c d Hl)).
      rewrite (invalidate_attrs_none ct rec l a _ c (assoc_set a v d) k); auto.
      now apply upd_at. }
    destruct tc.
    - destruct (lookup_attr k a) as [sp|].
      + rewrite bind_assoc.
        rewrite (bind_ok (check_typeM ct v (a_ty sp)) _ s (check_type FUEL ct (heap s) v (a_ty sp)) s eq_refl).
        destruct (check_type FUEL ct (heap s) v (a_ty sp)).
        * rewrite bind_ret. now apply Hstore.
        * reflexivity.
      + rewrite bind_ret. now apply Hstore.
    - destruct (lookup_attr k a); rewrite bind_ret; now apply Hstore.
  Qed.
End RunStorePass.

(* ------------------------------------------------------------------ *)
(** * Small facts about abstract records *)

Lemma aok_fset a v l : aok v = true -> forallb (fun p : aid * aval => aok (snd p)) l = true ->
  forallb (fun p : aid * aval => aok (snd p)) (fset a v l) = true.
Proof.
  intros Hv Hl. apply forallb_forall. intros q Hq. apply in_fset in Hq.
  destruct Hq as [->|Hq]; [exact Hv|]. rewrite forallb_forall in Hl. now apply Hl.
Qed.

Lemma aok_abs0_scalar v : vscalar v = true -> aok (abs0 v) = true.
Proof. destruct v; simpl; auto; discriminate. Qed.

Lemma not_sentinel_scalar v : vscalar v = true -> is_sentinel v = false.
Proof. destruct v; simpl; auto; discriminate. Qed.
Lemma not_asentinel_scalar v : vscalar v = true -> a_is_sentinel (abs0 v) = false.
Proof. destruct v; simpl; auto; discriminate. Qed.
Lemma not_amissing_scalar v : vscalar v = true -> a_is_missing (abs0 v) = false.
Proof. destruct v; simpl; auto; discriminate. Qed.

(* ------------------------------------------------------------------ *)
(** * The in-place store of a proper scalar, closed form *)

Section AssignCore.
  Variable ct : ctable.
  Variable h0 : list obj.
  Variables (l : loc) (a : aid) (c : cid) (d : list (aid * val)) (k : cls) (sp : attr_spec).
  Variable s : state.
  Hypothesis Hl : nth_error (heap s) l = Some (OInst c d).
  Hypothesis Hc : lookup_cls ct c = Some k.
  Hypothesis Ha : lookup_attr k a = Some sp.
  Hypothesis Hd : NoDup (map fst d).
  Hypothesis Hok : aok (absv (heap s) (VRef l)) = true.
  Hypothesis Hni : no_inval k.
  Hypothesis Hty : ty_depth (a_ty sp) < FUEL.
  Hypothesis Hnc : ty_is_collection (a_ty sp) = false.
  Hypothesis Hp : match a_prepare sp with Some f => scalar_fn f = true | None => True end.

  Let flds := map (fun p => (fst p, abs 23 (heap s) (snd p))) (sorted_fields d).

  (* the prepared value, on the specification side *)
  Definition pv_of (v : val) : sres aval :=
    match a_prepare sp with Some f => afn f (abs0 v) | None => SOk (abs0 v) end.

  (* the documented outcome of storing the proper scalar v into attribute a *)
  Definition spec_core (v : val) : sres aval :=
    pv <~ pv_of v ;;
    if conforms ct (a_ty sp) pv then SOk (AInst c (fset a pv flds)) else SErr TypeErr.

  Lemma pv_of_scalar v : vscalar v = true ->
    match pv_of v with
    | SOk pv => exists v', pv = abs0 v' /\ vscalar v' = true
    | SErr _ => True
    | _ => False end.
  Proof.
    intro Hv. unfold pv_of. destruct (a_prepare sp) as [f|]; [|eauto].
    destruct f as [|z|c0| | | |]; cbn [scalar_fn] in Hp; try discriminate.
    - simpl. eauto.
    - destruct v as [| | | |b|x| | |]; cbn [vscalar] in Hv; try discriminate; simpl; auto.
      + exists (VInt ((if b then 1 else 0) + z)%Z). split; reflexivity.
      + exists (VInt (x + z)%Z). split; reflexivity.
    - simpl. eauto.
  Qed.

  Lemma prepared_scalar rec' v : vscalar v = true ->
    prepared ct h0 rec' sp (abs0 v) None = pv_of v.
  Proof.
    intro Hv. unfold prepared, pv_of. rewrite Hnc.
    destruct (a_prepare sp) as [f|].
    - destruct f as [|z|c0| | | |]; cbn [scalar_fn] in Hp; try discriminate;
        [| |destruct c0; cbn [vscalar] in Hp; try discriminate];
        destruct v as [| | | |[|]| | | |]; cbn [vscalar] in Hv; try discriminate; reflexivity.
    - destruct v; cbn [vscalar] in Hv; try discriminate; reflexivity.
  Qed.

  (* prepared, then stored with invalidation (there is nothing to invalidate) *)
  Lemma prepared_store_core rec' v : vscalar v = true ->
    (pv <~ prepared ct h0 rec' sp (abs0 v) None ;; store ct rec' (AInst c flds) sp pv true) = spec_core v.
  Proof.
    intro Hv. rewrite (prepared_scalar rec' v Hv). unfold spec_core.
    pose proof (pv_of_scalar v Hv) as H. destruct (pv_of v) as [pv|e| |]; try contradiction; auto.
    destruct H as [v' [-> Hv']]. cbn [sbind].
    unfold flds. now rewrite (spec_store_scalar ct a c d k sp s Hc Ha Hni rec' v' Hv').
  Qed.

  (* ... the same without invalidation *)
  Lemma prepared_store_core_noinv rec' v : vscalar v = true ->
    (pv <~ prepared ct h0 rec' sp (abs0 v) None ;; store ct rec' (AInst c flds) sp pv false) = spec_core v.
  Proof.
    intro Hv. rewrite (prepared_scalar rec' v Hv). unfold spec_core.
    pose proof (pv_of_scalar v Hv) as H. destruct (pv_of v) as [pv|e| |]; try contradiction; auto.
    destruct H as [v' [-> Hv']]. cbn [sbind]. unfold store.
    rewrite (not_asentinel_scalar v' Hv').
    rewrite (a_name_sp a k sp Ha).
    destruct (conforms ct (a_ty sp) (abs0 v')); reflexivity.
  Qed.

  (* the model's preparation of a proper scalar *)
  Lemma prepare_scalar_run f0 v s1 :
    fail_at s1 = None -> vscalar v = true ->
    match pv_of v with
    | SOk pv => exists v' s2, prepare_attr_value ct (exec ct (S f0)) sp l v None s1 = (Ok v', s2) /\
                              heap s2 = heap s1 /\ fail_at s2 = None /\ vscalar v' = true /\ pv = abs0 v'
    | SErr e => exists s2, prepare_attr_value ct (exec ct (S f0)) sp l v None s1 = (Err e, s2) /\
                           heap s2 = heap s1 /\ fail_at s2 = None
    | _ => False
    end.
  Proof.
    intros Hf1 Hv. unfold pv_of, prepare_attr_value. rewrite Hnc.
    destruct (a_prepare sp) as [f|].
    - pose proof (mutate_value_scalar_prep ct (exec ct f0) VMissing v false f (ctor_of_ty (a_ty sp)) (a_ty sp) false s1 Hf1 Hp Hv) as Hm.
      destruct (afn f (abs0 v)) as [pv|e| |]; try contradiction.
      + destruct Hm as [w [Hm [-> Hw]]]. exists w, (ticked s1).
        split; [|repeat split; auto].
        destruct v; cbn [vscalar] in Hv; try discriminate; rewrite exec_S; cbn [body]; rewrite (bind_ok _ _ _ _ _ Hm); reflexivity.
      + exists (ticked s1). split; [|split; auto].
        destruct v; cbn [vscalar] in Hv; try discriminate; rewrite exec_S; cbn [body]; rewrite (bind_err _ _ _ _ _ Hm); reflexivity.
    - exists v, s1. split; [|repeat split; auto].
      destruct v; cbn [vscalar] in Hv; try discriminate; rewrite exec_S; cbn [body];
        (erewrite bind_ok; [reflexivity|apply mutate_value_scalar; reflexivity]).
  Qed.

  (* prepare, then mutate_attr in place *)
  Definition assign_gen (rec : call -> M val) (force : bool) (v : val) : M val :=
    v' <- prepare_attr_value ct rec sp l v None ;;
    mutate_attr ct rec l a v' true true force false.

  Lemma flds_aok : forallb (fun p : aid * aval => aok (snd p)) flds = true.
  Proof.
    pose proof Hok as H. rewrite (absv_recv l c d s Hl) in H. exact H.
  Qed.

  Theorem assign_scalar_closed f0 force v s1 :
    negb (force || initializing d) && c_frozen k = false ->
    heap s1 = heap s -> fail_at s1 = None -> vscalar v = true ->
    match assign_gen (exec ct (S f0)) force v s1 with
    | (Ok r, s') =>
        r = VRef l /\
        exists v' s2, heap s2 = heap s /\ fail_at s2 = None /\ vscalar v' = true /\
                      s' = upd s2 l (OInst c (assoc_set a v' d)) /\
                      spec_core v = SOk (AInst c (fset a (abs0 v') flds)) /\
                      absv (heap s') (VRef l) = AInst c (fset a (abs0 v') flds)
    | (Err e, s') => spec_core v = SErr e /\ heap s' = heap s /\ fail_at s' = None
    end.
  Proof.
    intros Hpass Hh1 Hf1 Hv. unfold assign_gen, spec_core.
    pose proof (prepare_scalar_run f0 v s1 Hf1 Hv) as Hpr.
    destruct (pv_of v) as [pv|e| |]; try contradiction.
    - destruct Hpr as [v' [s2 [Hrun [Hh2 [Hf2 [Hv' ->]]]]]].
      rewrite (bind_ok _ _ _ _ _ Hrun). cbn [sbind].
      assert (Hl2 : nth_error (heap s2) l = Some (OInst c d)) by (now rewrite Hh2, Hh1).
      rewrite (mutate_attr_inplace_pass ct (exec ct (S f0)) l a v' true force s2 c d k Hl2 Hc Hpass
                 (not_sentinel_scalar v' Hv') Hni).
      rewrite Ha. rewrite check_type_nonref by (auto using vscalar_nonref).
      destruct (conforms ct (a_ty sp) (abs0 v')).
      + split; [reflexivity|]. exists v', s2.
        split; [now rewrite Hh2|]. split; [exact Hf2|]. split; [exact Hv'|]. split; [reflexivity|].
        split; [reflexivity|].
        apply (abs_after_store l a c d s Hl Hd Hok s2 v'); [now rewrite Hh2|exact Hv'].
      + split; [reflexivity|]. split; [now rewrite Hh2|exact Hf2].
    - destruct Hpr as [s2 [Hrun [Hh2 Hf2]]].
      rewrite (bind_err _ _ _ _ _ Hrun). cbn [sbind]. split; [reflexivity|]. split; [now rewrite Hh2|exact Hf2].
  Qed.

  (* the guard is re-established by the store *)
  Lemma guard_after_store s2 v' :
    heap s2 = heap s -> vscalar v' = true ->
    let s' := upd s2 l (OInst c (assoc_set a v' d)) in
    nth_error (heap s') l = Some (OInst c (assoc_set a v' d)) /\
    NoDup (map fst (assoc_set a v' d)) /\
    aok (absv (heap s') (VRef l)) = true /\
    (forall i, i <> l -> nth_error (heap s') i = nth_error (heap s) i) /\
    length (heap s') = length (heap s).
  Proof.
    intros Hh2 Hv' s'.
    assert (Hlen : l < length (heap s2)) by (rewrite Hh2; apply nth_error_Some; congruence).
    split; [now apply upd_at|]. split; [now apply nodup_assoc_set|]. split.
    - unfold s'. rewrite (abs_after_store l a c d s Hl Hd Hok s2 v' Hh2 Hv').
      cbn [aok]. apply aok_fset; [now apply aok_abs0_scalar|exact flds_aok].
    - split.
      + intros i Hi. unfold s'. rewrite heap_upd, Hh2. apply set_nth_other. intro E. apply Hi. now symmetry.
      + unfold s'. rewrite heap_upd, Hh2. apply set_nth_length.
  Qed.
End AssignCore.

(* ------------------------------------------------------------------ *)
(** * More facts about records: deletion *)

Lemma ssorted_filter {V} (f : nat * V -> bool) (l : list (nat * V)) : ssorted l -> ssorted (filter f l).
Proof.
  induction l as [|p l IH]; simpl; auto. intros [Sp S]. destruct (f p); simpl; auto.
  split; auto. intros q Hq. apply filter_In in Hq. apply Sp. tauto.
Qed.

Lemma assoc_fdel k a (l : list (aid * aval)) : assoc k (fdel a l) = if a =? k then None else assoc k l.
Proof. exact (assoc_assoc_del k a l). Qed.

(* the instance after `raw_delattr l a` *)
Lemma abs_inst_delete h l c d n a :
  nth_error h l = Some (OInst c d) -> NoDup (map fst d) ->
  aok (abs (S n) h (VRef l)) = true ->
  abs (S n) (set_nth l (OInst c (assoc_del a d)) h) (VRef l) =
  AInst c (fdel a (map (fun p => (fst p, abs n h (snd p))) (sorted_fields d))).
Proof.
  intros Hl Hd Hok.
  assert (Hlen : l < length h) by (apply nth_error_Some; congruence).
  rewrite (abs_inst _ l c (assoc_del a d)) by (now apply nth_error_set_nth_same).
  f_equal.
  transitivity (map (fun p => (fst p, abs n h (snd p))) (sorted_fields (assoc_del a d))).
  - apply map_ext_in. intros [b w] Hb. simpl. f_equal.
    unfold sorted_fields in Hb. apply In_sort_by in Hb. apply in_assoc_del in Hb. destruct Hb as [Hb _].
    eapply abs_indep_field; eauto.
  - pose proof (nodup_assoc_del a d Hd) as Hd'.
    destruct (sorted_fields_props d Hd) as [S A]. destruct (sorted_fields_props _ Hd') as [S' A'].
    apply ssorted_ext.
    + now apply ssorted_map_fields.
    + unfold fdel. apply ssorted_filter. now apply ssorted_map_fields.
    + intro k. rewrite assoc_fdel, !assoc_map_fields, A', A, assoc_assoc_del.
      destruct (a =? k); reflexivity.
Qed.

Lemma protect_nonref ct v s : nonref v = true -> protect ct v s = (Ok v, s).
Proof.
  intro H. unfold protect. destruct (val_is_scalar v); [reflexivity|].
  rewrite deepcopy_unfold. now rewrite (bind_ok _ _ _ _ _ (dc_nonref ct _ v [] s H)).
Qed.

Lemma absv_nonref h v : nonref v = true -> absv h v = abs0 v.
Proof. intro H. rewrite absv_unfold. now apply abs_nonref_eq. Qed.

(* ------------------------------------------------------------------ *)
(** * transform_<a>(f, _inplace=True), reset_<a>(_inplace=True) on an unfrozen class *)

Section ValueProcMore.
  Variable ct : ctable.
  Variable rec : call -> M val.

  (* transform_<a>(f): the value procedure applied to a proper scalar is f(old) *)
  Lemma mutate_value_transform_scalar old f ctor ety inp s :
    vscalar old = true ->
    mutate_value ct rec (mkmv old VMissing false PNone None (Some ctor) (Some ety) (Some (XFn f, None)) [] inp) s
    = apply_fn f old s.
  Proof.
    intro H.
    assert (E : mutate_value ct rec (mkmv old VMissing false PNone None (Some ctor) (Some ety) (Some (XFn f, None)) [] inp) s
                = bind (apply_fn f old) (fun v4 => ret v4) s).
    { destruct old; simpl in H; try discriminate; reflexivity. }
    rewrite E. unfold bind. destruct (apply_fn f old s) as [[v|e] s1]; reflexivity.
  Qed.
End ValueProcMore.

Section SpecValueMore.
  Variable ct : ctable.
  Variable h0 : list obj.
  Variable rec' : scall -> sres aval.

  Lemma spec_value_transform_scalar old f ctor ety :
    vscalar old = true ->
    spec_value ct h0 rec' (abs0 old) AMissing false SPNone None (Some ctor) (Some ety) (Some f) [] =
    (v6 <~ afn f (abs0 old) ;; SOk v6).
  Proof. intro H. destruct old; simpl in H; try discriminate; reflexivity. Qed.
End SpecValueMore.

Section InplaceMore.
  Variable ct : ctable.
  Variable h0 : list obj.
  Variables (l : loc) (a : aid) (c : cid) (d : list (aid * val)) (k : cls) (sp : attr_spec).
  Variable s : state.
  Hypothesis Hl : nth_error (heap s) l = Some (OInst c d).
  Hypothesis Hc : lookup_cls ct c = Some k.
  Hypothesis Ha : lookup_attr k a = Some sp.
  Hypothesis Hd : NoDup (map fst d).
  Hypothesis Hok : aok (absv (heap s) (VRef l)) = true.
  Hypothesis Hfz : c_frozen k = false.
  Hypothesis Hni : no_inval k.
  Hypothesis Hfa : fail_at s = None.
  Hypothesis Hty : ty_depth (a_ty sp) < FUEL.
  Hypothesis Hnc : ty_is_collection (a_ty sp) = false.
  Hypothesis Hp : match a_prepare sp with Some f => scalar_fn f = true | None => True end.

  Let flds := map (fun p => (fst p, abs 23 (heap s) (snd p))) (sorted_fields d).

  (* getattr(self, a, MISSING) *)
  Definition cur_val : val := match assoc a d with Some v => v | None => class_default k a end.

  Lemma assoc_flds b : assoc b flds = option_map (abs 23 (heap s)) (assoc b d).
  Proof.
    unfold flds. rewrite assoc_map_fields. destruct (sorted_fields_props d Hd) as [_ A]. now rewrite A.
  Qed.

  Lemma spec_for_run s1 : heap s1 = heap s -> spec_for ct l a s1 = (Ok (k, sp), s1).
  Proof.
    intro Hh. unfold spec_for.
    assert (Hl1 : nth_error (heap s1) l = Some (OInst c d)) by (now rewrite Hh).
    rewrite (bind_ok _ _ _ _ _ (read_inst_at l s1 c d Hl1)). cbn [fst].
    rewrite (bind_ok _ _ _ _ _ (cls_of_at ct c s1 k Hc)). now rewrite Ha.
  Qed.

  Lemma current_value_run inp used s1 : heap s1 = heap s -> nonref cur_val = true ->
    current_value ct l sp inp used s1 = (Ok cur_val, s1).
  Proof.
    intros Hh Hcur. unfold current_value, getattr_default. rewrite (a_name_sp a k sp Ha).
    assert (Hl1 : nth_error (heap s1) l = Some (OInst c d)) by (now rewrite Hh).
    rewrite bind_assoc. rewrite (bind_ok _ _ _ _ _ (read_inst_at l s1 c d Hl1)). cbn [fst snd].
    unfold cur_val in *. destruct (assoc a d) as [w|].
    - rewrite bind_ret. destruct (inp || a_dnc sp || negb used); [reflexivity|now apply protect_nonref].
    - rewrite bind_assoc. rewrite (bind_ok _ _ _ _ _ (cls_of_at ct c s1 k Hc)). rewrite !bind_ret.
      destruct (inp || a_dnc sp || negb used); [reflexivity|now apply protect_nonref].
  Qed.

  Lemma read_attr_cur : nonref cur_val = true ->
    read_attr ct h0 (AInst c flds) a = SOk (abs0 cur_val).
  Proof.
    intro Hcur. unfold read_attr, cur_val in *. rewrite assoc_flds.
    destruct (assoc a d) as [w|]; cbn [option_map].
    - now rewrite abs_nonref_eq.
    - unfold cls_for. rewrite Hc. cbn [sbind]. unfold class_default in Hcur |- *.
      destruct (assoc a (c_overrides k)) as [w|]; [now rewrite absv_nonref|].
      rewrite Ha in Hcur |- *. now rewrite absv_nonref.
  Qed.

  Lemma Hpass_unfrozen force : negb (force || initializing d) && c_frozen k = false.
  Proof. rewrite Hfz. apply andb_false_r. Qed.

  Lemma spec_with_core v : vscalar v = true ->
    spec_with ct h0 (AInst c flds) a (abs0 v) None = spec_core ct a c d sp s v.
  Proof.
    intro Hv. unfold spec_with, cls_for. rewrite Hc. cbn [sbind]. rewrite Ha.
    exact (prepared_store_core ct h0 a c d k sp s Hc Ha Hni Hnc Hp (sexec ct h0 SFUEL) v Hv).
  Qed.

  (* the shape of spec_helper for an in-place call on the unfrozen receiver *)
  Lemma spec_helper_inplace_unfrozen hp ah :
    ah_if ah = true ->
    spec_helper ct h0 (absv (heap s) (VRef l)) hp ah = spec_unfrozen ct h0 (AInst c flds) hp ah.
  Proof.
    intro Hif. rewrite (absv_recv l c d s Hl). fold flds. unfold spec_helper. rewrite Hif. cbn [negb].
    unfold frozen_class. rewrite Hc, Hfz. now rewrite andb_false_r.
  Qed.

  (* ---- transform_<a>(f, _inplace=True) ---- *)
  Theorem transform_scalar_inplace_refines f :
    scalar_fn f = true -> vscalar cur_val = true ->
    let h := mkh [] true true VMissing false None None [] (Some f) in
    let ah := mkah [] true true AMissing false None None [] (Some f) in
    match run_helper ct l (HTransform a) h s with
    | (Ok r, s') => r = VRef l /\
                    spec_helper ct h0 (absv (heap s) (VRef l)) (STransform a) ah = SOk (absv (heap s') (VRef l)) /\
                    (forall i, i <> l -> nth_error (heap s') i = nth_error (heap s) i)
    | (Err e, s') => spec_helper ct h0 (absv (heap s) (VRef l)) (STransform a) ah = SErr e /\ heap s' = heap s
    end.
  Proof.
    intros Hf Hcur h ah.
    (* the specification *)
    assert (Hspec : spec_helper ct h0 (absv (heap s) (VRef l)) (STransform a) ah =
                    (nv <~ afn f (abs0 cur_val) ;; spec_with ct h0 (AInst c flds) a nv None)).
    { rewrite (spec_helper_inplace_unfrozen (STransform a) ah eq_refl).
      unfold spec_unfrozen, spec_transform, attr_of, cls_for, ah. cbn [ah_fn ah_kwfn].
      rewrite Hc. cbn [sbind]. rewrite Ha.
      rewrite (read_attr_cur (vscalar_nonref _ Hcur)). cbn [sbind].
      rewrite (spec_value_transform_scalar ct h0 _ cur_val f _ _ Hcur).
      destruct (afn f (abs0 cur_val)); reflexivity. }
    rewrite Hspec. clear Hspec.
    (* the model *)
    unfold run_helper, h. cbn [h_if negb h_inplace h_fn h_kwfn].
    rewrite (bind_ok _ _ _ _ _ (spec_for_run s eq_refl)). cbn [snd].
    rewrite (bind_ok _ _ _ _ _ (current_value_run true true s eq_refl (vscalar_nonref _ Hcur))).
    rewrite exec_XFUEL_mv.
    pose proof (apply_fn_scalar f cur_val s Hfa Hf Hcur) as Hap.
    destruct (afn f (abs0 cur_val)) as [nv|e| |]; try contradiction.
    - destruct Hap as [v' [Hrun [-> Hv']]].
      rewrite (bind_ok _ _ _ _ _ (eq_trans (mutate_value_transform_scalar ct _ cur_val f _ _ false s Hcur) Hrun)).
      cbn [sbind]. rewrite (spec_with_core v' Hv').
      unfold with_attr. rewrite (a_name_sp a k sp Ha).
      pose proof (assign_scalar_closed ct l a c d k sp s Hl Hc Ha Hd Hok Hni Hty Hnc Hp 39 false v' (ticked s)
                    (Hpass_unfrozen false) (heap_ticked s) Hfa Hv') as H.
      unfold assign_gen in H. rewrite <- XFUEL_S in H.
      destruct (bind (prepare_attr_value ct (exec ct XFUEL) sp l v' None)
                     (fun v0 => mutate_attr ct (exec ct XFUEL) l a v0 true true false false) (ticked s)) as [[r|e] s'].
      + destruct H as [-> [w [s2 [Hh2 [_ [_ [Hs' [Hs Habs]]]]]]]]. split; [reflexivity|]. split; [now rewrite Hs, Habs|].
        intros i Hi. rewrite Hs', heap_upd, Hh2. apply set_nth_other. intro E. apply Hi. now symmetry.
      + destruct H as [Hs [Hh _]]. split; [exact Hs|exact Hh].
    - rewrite (bind_err _ _ _ _ _ (eq_trans (mutate_value_transform_scalar ct _ cur_val f _ _ false s Hcur) Hap)).
      cbn [sbind]. split; reflexivity.
  Qed.

  (* ---- reset_<a>(_inplace=True) / del obj.a ---- *)
  (* the class-level default is a literal: an override in a plain subclass, else
     the declared default with no default_factory *)
  Definition literal_default : Prop := assoc a (c_overrides k) = None -> a_factory sp = None.

  Lemma lookup_default_run rec s1 : literal_default -> nonref (class_default k a) = true ->
    lookup_default_value ct rec sp k s1 = (Ok (class_default k a), s1).
  Proof.
    intros Hfac Hdv. unfold lookup_default_value, class_default in *. rewrite (a_name_sp a k sp Ha).
    destruct (assoc a (c_overrides k)) as [w|] eqn:Eo; [now apply protect_nonref|].
    unfold default_value. rewrite (Hfac Eo). rewrite Ha in Hdv |- *. now apply protect_nonref.
  Qed.

  Lemma default_of_literal rec' : literal_default -> nonref (class_default k a) = true ->
    default_of h0 rec' k sp = SOk (abs0 (class_default k a)).
  Proof.
    intros Hfac Hdv. unfold default_of, class_default in *. rewrite (a_name_sp a k sp Ha).
    destruct (assoc a (c_overrides k)) as [w|] eqn:Eo; [now rewrite absv_nonref|].
    rewrite (Hfac Eo). rewrite Ha in Hdv |- *. now rewrite absv_nonref.
  Qed.

  Lemma delattr_unfold rec s1 :
    heap s1 = heap s -> negb (false || initializing d) && c_frozen k = false ->
    delattr_ ct rec l a false false s1 =
    (dv <- lookup_default_value ct rec sp k ;;
     if is_missing dv
     then raw_delattr l a ;;; invalidate_attrs ct rec l a ;;; ret VNone
     else (v <- prepare_attr_value ct rec sp l dv None ;; mutate_attr ct rec l a v true true true false)) s1.
  Proof.
    intros Hh Hpass. unfold delattr_.
    assert (Hl1 : nth_error (heap s1) l = Some (OInst c d)) by (now rewrite Hh).
    rewrite (bind_ok _ _ _ _ _ (read_inst_at l s1 c d Hl1)). cbn [fst snd].
    rewrite (bind_ok _ _ _ _ _ (cls_of_at ct c s1 k Hc)).
    rewrite Hpass. rewrite bind_ret. rewrite Ha. reflexivity.
  Qed.

  Lemma delattr_default_run f0 s1 :
    heap s1 = heap s -> negb (false || initializing d) && c_frozen k = false ->
    literal_default -> vscalar (class_default k a) = true ->
    delattr_ ct (exec ct (S f0)) l a false false s1 =
    assign_gen ct l a sp (exec ct (S f0)) true (class_default k a) s1.
  Proof.
    intros Hh Hpass Hfac Hdv. rewrite (delattr_unfold _ s1 Hh Hpass).
    rewrite (bind_ok _ _ _ _ _ (lookup_default_run _ s1 Hfac (vscalar_nonref _ Hdv))).
    assert (is_missing (class_default k a) = false) as ->
      by (destruct (class_default k a); cbn [vscalar] in Hdv; try discriminate; reflexivity).
    reflexivity.
  Qed.

  Lemma delattr_nodefault_run rec s1 :
    heap s1 = heap s -> negb (false || initializing d) && c_frozen k = false ->
    literal_default -> class_default k a = VMissing ->
    delattr_ ct rec l a false false s1 =
    match assoc a d with
    | Some _ => (Ok VNone, upd s1 l (OInst c (assoc_del a d)))
    | None => (Err AttrErr, s1)
    end.
  Proof.
    intros Hh Hpass Hfac Hdv. rewrite (delattr_unfold _ s1 Hh Hpass).
    assert (Hnr : nonref (class_default k a) = true) by (now rewrite Hdv).
    rewrite (bind_ok _ _ _ _ _ (lookup_default_run _ s1 Hfac Hnr)). rewrite Hdv. cbn [is_missing].
    assert (Hl1 : nth_error (heap s1) l = Some (OInst c d)) by (now rewrite Hh).
    destruct (assoc a d) as [w|] eqn:Ea.
    - rewrite (bind_ok _ _ _ _ _ (raw_delattr_at l a s1 c d w Hl1 Ea)).
      assert (Hlen : l < length (heap s1)) by (apply nth_error_Some; congruence).
      rewrite (bind_ok _ _ _ _ _ (invalidate_attrs_none ct rec l a _ c (assoc_del a d) k (upd_at s1 l _ Hlen) Hc Hni)).
      reflexivity.
    - assert (E : raw_delattr l a s1 = (Err AttrErr, s1)).
      { unfold raw_delattr. rewrite (bind_ok _ _ _ _ _ (read_inst_at l s1 c d Hl1)). cbn [fst snd]. rewrite Ea.
        reflexivity. }
      rewrite (bind_err _ _ _ _ _ E). reflexivity.
  Qed.

  Lemma abs_after_delete s1 :
    heap s1 = heap s ->
    absv (heap (upd s1 l (OInst c (assoc_del a d)))) (VRef l) = AInst c (fdel a flds).
  Proof.
    intro Hh. rewrite heap_upd, Hh, absv_unfold.
    apply (abs_inst_delete (heap s) l c d 23 a Hl Hd). rewrite <- absv_unfold. exact Hok.
  Qed.

  (* the specification of reset_<a> / del, closed forms *)
  Lemma spec_reset_default rec' : literal_default -> vscalar (class_default k a) = true ->
    reset_attr ct h0 rec' (AInst c flds) a true = spec_core ct a c d sp s (class_default k a).
  Proof.
    intros Hfac Hdv. unfold reset_attr, cls_for. rewrite Hc. cbn [sbind]. rewrite Ha.
    rewrite (default_of_literal rec' Hfac (vscalar_nonref _ Hdv)). cbn [sbind].
    rewrite (not_amissing_scalar _ Hdv).
    exact (prepared_store_core ct h0 a c d k sp s Hc Ha Hni Hnc Hp rec' _ Hdv).
  Qed.

  Lemma spec_reset_nodefault rec' : literal_default -> class_default k a = VMissing ->
    reset_attr ct h0 rec' (AInst c flds) a true =
    match assoc a d with Some _ => SOk (AInst c (fdel a flds)) | None => SErr AttrErr end.
  Proof.
    intros Hfac Hdv. unfold reset_attr, cls_for. rewrite Hc. cbn [sbind]. rewrite Ha.
    assert (Hnr : nonref (class_default k a) = true) by (now rewrite Hdv).
    rewrite (default_of_literal rec' Hfac Hnr). rewrite Hdv. cbn [sbind abs0 a_is_missing].
    unfold fhas. rewrite assoc_flds. destruct (assoc a d) as [w|]; cbn [option_map]; [|reflexivity].
    unfold invalidate, cls_for. rewrite Hc. cbn [sbind]. rewrite invalidatees_none by auto. reflexivity.
  Qed.

  Theorem reset_scalar_inplace_refines :
    literal_default -> vscalar (class_default k a) = true \/ class_default k a = VMissing ->
    let h := mkh [] true true VMissing false None None [] None in
    let ah := mkah [] true true AMissing false None None [] None in
    match run_helper ct l (HReset a) h s with
    | (Ok r, s') => r = VRef l /\
                    spec_helper ct h0 (absv (heap s) (VRef l)) (SReset a) ah = SOk (absv (heap s') (VRef l)) /\
                    (forall i, i <> l -> nth_error (heap s') i = nth_error (heap s) i)
    | (Err e, s') => spec_helper ct h0 (absv (heap s) (VRef l)) (SReset a) ah = SErr e /\ heap s' = heap s
    end.
  Proof.
    intros Hfac Hdv h ah.
    rewrite (spec_helper_inplace_unfrozen (SReset a) ah eq_refl).
    unfold spec_unfrozen, spec_reset_attr.
    unfold run_helper, h. cbn [h_if negb h_inplace]. rewrite bind_ret.
    unfold bind at 1. rewrite (thawed_false ct l _ s c d k Hl Hc).
    rewrite exec_XFUEL_del.
    destruct Hdv as [Hdv|Hdv].
    - rewrite (delattr_default_run 38 s eq_refl (Hpass_unfrozen false) Hfac Hdv).
      rewrite (spec_reset_default _ Hfac Hdv).
      pose proof (assign_scalar_closed ct l a c d k sp s Hl Hc Ha Hd Hok Hni Hty Hnc Hp 38 true (class_default k a) s
                    (Hpass_unfrozen true) eq_refl Hfa Hdv) as H.
      destruct (assign_gen ct l a sp (exec ct 39) true (class_default k a) s) as [[r|e] s'].
      + destruct H as [_ [w [s2 [Hh2 [_ [_ [Hs' [Hs Habs]]]]]]]]. split; [reflexivity|]. split; [now rewrite Hs, Habs|].
        intros i Hi. rewrite Hs', heap_upd, Hh2. apply set_nth_other. intro E. apply Hi. now symmetry.
      + destruct H as [Hs [Hh _]]. split; [exact Hs|exact Hh].
    - rewrite (delattr_nodefault_run _ s eq_refl (Hpass_unfrozen false) Hfac Hdv).
      rewrite (spec_reset_nodefault _ Hfac Hdv).
      destruct (assoc a d) as [w|].
      + split; [reflexivity|]. split; [now rewrite (abs_after_delete s eq_refl)|].
        intros i Hi. rewrite heap_upd. apply set_nth_other. intro E. apply Hi. now symmetry.
      + split; reflexivity.
  Qed.
End InplaceMore.

(* ------------------------------------------------------------------ *)
(** * update(_inplace=True, a=v, b=w, ...) as a whole *)

(* a keyword the theorem covers: a managed scalar attribute with a pool preparer,
   given a proper scalar (or MISSING: skipped) *)
Definition kw_ok (k : cls) (p : aid * val) : bool :=
  match lookup_attr k (fst p) with
  | Some sp => (ty_depth (a_ty sp) <? FUEL) && negb (ty_is_collection (a_ty sp)) &&
               (vscalar (snd p) || is_missing (snd p)) &&
               match a_prepare sp with Some f => scalar_fn f | None => true end
  | None => false
  end.

Definition akw (kws : list (aid * val)) : list (aid * aval) := map (fun p => (fst p, abs0 (snd p))) kws.

(* the specification's step for one keyword (step 5 of the documented value procedure) *)
Definition spec_kw_step (ct : ctable) (h0 : list obj) (x : aval) (p : aid * aval) : sres aval :=
  if in_names (fst p) [] || a_is_missing (snd p) then SOk x
  else sexec ct h0 SFUEL (SSetAttr x (fst p) (snd p)).

Lemma assign_all_cons rec l a0 v0 t s :
  assign_all rec l ((a0, v0) :: t) s =
  if is_missing v0 then assign_all rec l t s else
  match rec (KSetAttr l a0 v0 false false) s with
  | (Ok _, s1) => assign_all rec l t s1
  | (Err e, s1) => (Err e, s1)
  end.
Proof.
  unfold assign_all. cbn [iterM snd fst]. destruct (is_missing v0); [reflexivity|].
  unfold bind. destruct (rec (KSetAttr l a0 v0 false false) s) as [[u|e] s1]; reflexivity.
Qed.

Lemma setattr_unfold ct rec l a c d k sp v force s1 :
  nth_error (heap s1) l = Some (OInst c d) -> lookup_cls ct c = Some k -> lookup_attr k a = Some sp ->
  setattr_ ct rec l a v force false s1 = assign_gen ct l a sp rec force v s1.
Proof.
  intros Hl Hc Ha. unfold setattr_, assign_gen.
  rewrite (bind_ok _ _ _ _ _ (read_inst_at l s1 c d Hl)). cbn [fst snd].
  rewrite (bind_ok _ _ _ _ _ (cls_of_at ct c s1 k Hc)). rewrite Ha. reflexivity.
Qed.

Lemma fail_at_upd s l o : fail_at (upd s l o) = fail_at s.
Proof. reflexivity. Qed.

Section UpdateTop.
  Variable ct : ctable.
  Variable h0 : list obj.
  Variables (l : loc) (c : cid) (k : cls).
  Hypothesis Hc : lookup_cls ct c = Some k.
  Hypothesis Hfz : c_frozen k = false.
  Hypothesis Hni : no_inval k.

  Lemma spec_kw_step_scalar a sp d s v :
    nth_error (heap s) l = Some (OInst c d) -> lookup_attr k a = Some sp ->
    ty_is_collection (a_ty sp) = false ->
    match a_prepare sp with Some f => scalar_fn f = true | None => True end ->
    vscalar v = true ->
    spec_kw_step ct h0 (absv (heap s) (VRef l)) (a, abs0 v) = spec_core ct a c d sp s v.
  Proof.
    intros Hl Ha Hnc Hp Hv. unfold spec_kw_step. cbn [fst snd in_names existsb orb].
    rewrite (not_amissing_scalar v Hv). rewrite SFUEL_S, sexec_S. cbn [sbody].
    rewrite (absv_recv l c d s Hl). unfold set_attr, cls_for. rewrite Hc. cbn [sbind]. rewrite Ha.
    exact (prepared_store_core ct h0 a c d k sp s Hc Ha Hni Hnc Hp _ v Hv).
  Qed.

  Lemma assign_all_refines f0 : forall kws d s,
    nth_error (heap s) l = Some (OInst c d) -> NoDup (map fst d) ->
    aok (absv (heap s) (VRef l)) = true -> fail_at s = None ->
    forallb (kw_ok k) kws = true ->
    match assign_all (exec ct (S (S f0))) l kws s with
    | (Ok _, s') =>
        sfold (spec_kw_step ct h0) (akw kws) (absv (heap s) (VRef l)) = SOk (absv (heap s') (VRef l)) /\
        (forall i, i <> l -> nth_error (heap s') i = nth_error (heap s) i) /\
        length (heap s') = length (heap s)
    | (Err e, s') =>
        sfold (spec_kw_step ct h0) (akw kws) (absv (heap s) (VRef l)) = SErr e /\
        (forall i, i <> l -> nth_error (heap s') i = nth_error (heap s) i) /\
        length (heap s') = length (heap s)
    end.
  Proof.
    induction kws as [|[a0 v0] kws IH]; intros d s Hl Hd Hok Hfa Hkws.
    - unfold assign_all. cbn [iterM]. unfold ret. cbn [akw map sfold]. auto.
    - cbn [forallb] in Hkws. apply andb_true_iff in Hkws. destruct Hkws as [Hk0 Hkws].
      unfold kw_ok in Hk0. cbn [fst snd] in Hk0.
      destruct (lookup_attr k a0) as [sp|] eqn:Ha0; [|discriminate].
      apply andb_true_iff in Hk0. destruct Hk0 as [Hk0 Hp0].
      apply andb_true_iff in Hk0. destruct Hk0 as [Hk0 Hv0].
      apply andb_true_iff in Hk0. destruct Hk0 as [Hty Hnc].
      apply Nat.ltb_lt in Hty. apply negb_true_iff in Hnc.
      assert (Hp : match a_prepare sp with Some f => scalar_fn f = true | None => True end)
        by (destruct (a_prepare sp); auto).
      rewrite assign_all_cons. cbn [akw map fst snd sfold].
      destruct (is_missing v0) eqn:Em.
      + (* MISSING: skipped on both sides *)
        destruct v0; try discriminate. cbn [abs0]. unfold spec_kw_step at 1. cbn [fst snd a_is_missing].
        rewrite orb_true_r. cbn [sbind]. exact (IH d s Hl Hd Hok Hfa Hkws).
      + rewrite ?Em in Hv0. rewrite orb_false_r in Hv0.
        rewrite exec_S_set. rewrite (setattr_unfold ct _ l a0 c d k sp v0 false s Hl Hc Ha0).
        rewrite (spec_kw_step_scalar a0 sp d s v0 Hl Ha0 Hnc Hp Hv0).
        assert (Hpass : negb (false || initializing d) && c_frozen k = false) by (rewrite Hfz; apply andb_false_r).
        pose proof (assign_scalar_closed ct l a0 c d k sp s Hl Hc Ha0 Hd Hok Hni Hty Hnc Hp f0 false v0 s
                      Hpass eq_refl Hfa Hv0) as H.
        destruct (assign_gen ct l a0 sp (exec ct (S f0)) false v0 s) as [[r|e] s1].
        * destruct H as [_ [v' [s2 [Hh2 [Hf2 [Hv' [-> [Hs Habs]]]]]]]].
          rewrite Hs. cbn [sbind]. rewrite <- Habs.
          destruct (guard_after_store l a0 c d s Hl Hd Hok s2 v' Hh2 Hv') as [Hl' [Hd' [Hok' [Hoth Hlen]]]].
          pose proof (IH _ _ Hl' Hd' Hok' (eq_trans (fail_at_upd s2 l _) Hf2) Hkws) as IH'.
          destruct (assign_all (exec ct (S (S f0))) l kws (upd s2 l (OInst c (assoc_set a0 v' d)))) as [[u|e] s'].
          -- destruct IH' as [E1 [E2 E3]]. split; [exact E1|]. split; [|congruence].
             intros i Hi. rewrite E2 by exact Hi. now apply Hoth.
          -- destruct IH' as [E1 [E2 E3]]. split; [exact E1|]. split; [|congruence].
             intros i Hi. rewrite E2 by exact Hi. now apply Hoth.
        * destruct H as [Hs [Hh _]]. rewrite Hs. cbn [sbind]. split; [reflexivity|]. split; [|now rewrite Hh].
          intros i _. now rewrite Hh.
  Qed.

  Lemma spec_update_top_kws flds p ps :
    spec_update_top ct h0 (AInst c flds) AMissing (Some (p :: ps)) =
    (v5 <~ sfold (spec_kw_step ct h0) (p :: ps) (AInst c flds) ;; SOk v5).
  Proof.
    unfold spec_update_top, spec_value. cbn [a_not_given negb sbind].
    change (fun (x : aval) (p1 : aid * aval) =>
              if in_names (fst p1) [] || a_is_missing (snd p1) then SOk x
              else sexec ct h0 SFUEL (SSetAttr x (fst p1) (snd p1))) with (spec_kw_step ct h0).
    destruct (sfold (spec_kw_step ct h0) (p :: ps) (AInst c flds)); reflexivity.
  Qed.

  (* update(_inplace=True, **kws): final state and the first error class agree with the
     specification's fold over the keywords; only the receiver's cell is written *)
  Theorem update_top_inplace_refines d s p0 ps :
    nth_error (heap s) l = Some (OInst c d) -> NoDup (map fst d) ->
    aok (absv (heap s) (VRef l)) = true -> fail_at s = None ->
    forallb (kw_ok k) (p0 :: ps) = true ->
    let h := mkh [] true true VMissing false None (Some (p0 :: ps)) [] None in
    let ah := mkah [] true true AMissing false None (Some (akw (p0 :: ps))) [] None in
    match run_helper ct l HUpdateTop h s with
    | (Ok r, s') => r = VRef l /\
                    spec_helper ct h0 (absv (heap s) (VRef l)) SUpdateTop ah = SOk (absv (heap s') (VRef l)) /\
                    (forall i, i <> l -> nth_error (heap s') i = nth_error (heap s) i) /\
                    length (heap s') = length (heap s)
    | (Err e, s') => spec_helper ct h0 (absv (heap s) (VRef l)) SUpdateTop ah = SErr e /\
                     (forall i, i <> l -> nth_error (heap s') i = nth_error (heap s) i) /\
                     length (heap s') = length (heap s)
    end.
  Proof.
    intros Hl Hd Hok Hfa Hkws h ah.
    assert (Hspec : spec_helper ct h0 (absv (heap s) (VRef l)) SUpdateTop ah =
                    (v5 <~ sfold (spec_kw_step ct h0) (akw (p0 :: ps)) (absv (heap s) (VRef l)) ;; SOk v5)).
    { rewrite (absv_recv l c d s Hl). unfold spec_helper, ah. cbn [ah_if negb mutates_in_place ah_inplace andb].
      unfold frozen_class. rewrite Hc, Hfz. unfold spec_unfrozen, apos0. cbn [ah_pos nth ah_kw akw map].
      apply spec_update_top_kws. }
    rewrite Hspec. clear Hspec.
    unfold h. rewrite (update_inplace_is_iterated_setattr ct l p0 ps s c d k Hl Hc).
    pose proof (assign_all_refines 37 (p0 :: ps) d s Hl Hd Hok Hfa Hkws) as H.
    unfold bind. destruct (assign_all (exec ct 39) l (p0 :: ps) s) as [[u|e] s'].
    - destruct H as [E1 [E2 E3]]. rewrite E1. cbn [sbind]. unfold ret. auto.
    - destruct H as [E1 [E2 E3]]. rewrite E1. cbn [sbind]. auto.
  Qed.
End UpdateTop.
