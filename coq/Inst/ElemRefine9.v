(* C06: ninth layer: a generic in-place frame (counterpart of the copy frame of
   ElemRefine6.v) and update_<item> / transform_<item> on Dict and Set
   attributes of proper scalars, in place and copy-on-write. *)
From Coq Require Import List ZArith Bool Arith Lia.
From SC Require Import Base.Res Base.PyList Inst.Heap Inst.ClassTable Inst.Model Inst.Canon
  Inst.Abs Inst.SpecHelpers Inst.ElemProofs Inst.Framed Inst.RefineProofs Inst.CopyProofs Inst.ElemRefineDep Inst.CopyStore
  Inst.ElemRefine Inst.ElemRefine2 Inst.ElemRefine3 Inst.ElemRefine4 Inst.ElemRefine5 Inst.ElemRefine6
  Inst.ElemRefine7 Inst.ElemRefine8.
Import ListNotations.
Open Scope nat_scope.

#[local] Opaque FUEL.
Local Opaque py_eq.

(* ------------------------------------------------------------------ *)
(** * The in-place frame *)

Section InplaceFrame.
  Variable ct : ctable.
  Variable h0 : list obj.
  Variables (l : loc) (a : aid) (c : cid) (d : list (aid * val)) (k : cls) (sp : attr_spec).
  Variable s : state.
  Variables (lc : loc) (o : obj).
  Hypothesis Hl : nth_error (heap s) l = Some (OInst c d).
  Hypothesis Hc : lookup_cls ct c = Some k.
  Hypothesis Ha : lookup_attr k a = Some sp.
  Hypothesis Hd : NoDup (map fst d).
  Hypothesis Hfz : c_frozen k = false.
  Hypothesis Hni : no_dep k a.
  Hypothesis Hcoll : ty_is_collection (a_ty sp) = true.
  Hypothesis Hfld : assoc a d = Some (VRef lc).
  Hypothesis Hlc : nth_error (heap s) lc = Some o.
  Hypothesis Ho : scalar_obj o = true.
  Hypothesis Hflat : flat_fields (heap s) d.
  Hypothesis Hshare : forall b w, In (b, w) d -> b <> a -> w <> VRef lc.

  Variable tail : val -> M val.
  Variable pe : obj + err.
  Hypothesis Htail : forall s1 lc1, nth_error (heap s1) lc1 = Some o -> fail_at s1 = fail_at s ->
    exists st, heap st = heap s1 /\
    tail (VRef lc1) s1 =
    match pe with
    | inl o' => mutate_attr ct (exec ct XFUEL) l a (VRef lc1) true false false false (upd st lc1 o')
    | inr e => (Err e, st)
    end.
  Hypothesis Hsc : forall o', pe = inl o' -> scalar_obj o' = true.

  Theorem ip_whole (hp : shelper) (edit : attr_spec -> aval -> ahargs -> sres aval) ah res :
    ah_if ah = true ->
    spec_unfrozen ct h0 (AInst c (map (fun p => (fst p, abs 23 (heap s) (snd p))) (sorted_fields d))) hp ah =
      spec_elem_helper ct h0 (AInst c (map (fun p => (fst p, abs 23 (heap s) (snd p))) (sorted_fields d))) a ah edit ->
    edit sp (aobj o) ah = match pe with inl o' => SOk (aobj o') | inr e => SErr e end ->
    res = bind (mk_mutator ct sp l true) tail s ->
    match res with
    | (Ok r, s') => r = VRef l /\
                    spec_helper ct h0 (absv (heap s) (VRef l)) hp ah = SOk (absv (heap s') (VRef l))
    | (Err e, s') => spec_helper ct h0 (absv (heap s) (VRef l)) hp ah = SErr e /\ heap s' = heap s
    end.
  Proof.
    intros Hif Hun Hspec ->.
    assert (Hacur : abs 23 (heap s) (VRef lc) = aobj o) by (exact (abs_scalar_cell (heap s) lc o 22 Hlc Ho)).
    rewrite <- Hacur in Hspec.
    rewrite (fr_spec_closed ct h0 l a c d k sp s lc o Hl Hc Ha Hd Hfz Hni Hcoll Hfld Hlc hp edit ah _ Hif Hun Hspec).
    rewrite (bind_ok _ _ _ _ _ (fr_mk_mutator ct l a c d k sp s lc Hl Hc Ha Hfz Hfld)).
    destruct (Htail s lc Hlc eq_refl) as [st [Hst Et]]. rewrite Et. clear Et.
    destruct pe as [o'|e]; [|split; auto].
    rewrite (fr_store_back ct l a c d k lc Hc Hd Hfz Hni Hfld _
               (fr_recv_after l a c d s lc o Hl Hfld Hlc Ho Hshare st o' Hst)).
    split; auto. cbn [sbind]. f_equal.
    rewrite (fr_after_edit l a c d s lc o Hl Hd Hfld Hlc Ho Hflat Hshare st o' Hst).
    rewrite (abs_scalar_cell (set_nth lc o' (heap s)) lc o' 22
               (nth_error_set_nth_same lc _ (heap s) (fr_lc_len s lc _ Hlc)) (Hsc o' eq_refl)).
    reflexivity.
  Qed.
End InplaceFrame.

(* ------------------------------------------------------------------ *)
(** * update_<item> / transform_<item> on a dict of proper scalars: the edit *)

Definition vals_proper (kvs : list (val * val)) : bool := forallb (fun p => vscalar (snd p)) kvs.

Definition dict_change_pure (ct : ctable) (tk tv : ty) (kvs : list (val * val)) (voi : val)
           (pr : val -> res val) : obj + err :=
  match find (fun p => val_eqb FUEL ct [] (fst p) voi) kvs with
  | None => inr KeyErr
  | Some p =>
      match pr (snd p) with
      | Ok v' => if conforms ct tk (abs0 voi) && conforms ct tv (abs0 v')
                 then inl (ODict (dassign ct [] kvs voi v')) else inr ValueErr
      | Err e => inr e
      end
  end.

Section DictChange.
  Variable ct : ctable.
  Variable h0 : list obj.
  Variables (l : loc) (a : aid) (sp : attr_spec).
  Variables (tk tv : ty) (kvs : list (val * val)).
  Hypothesis Hty : a_ty sp = TDict tk tv.
  Hypothesis Hdk : ty_depth tk < FUEL.
  Hypothesis Hdv : ty_depth tv < FUEL.
  Hypothesis Hkvs : forallb pair_nonref kvs = true.
  Hypothesis Hvp : vals_proper kvs = true.

  Variable s : state.     (* the state the call starts in (for the fault-injection counter) *)
  Variable new : val.
  Variable x : option (xform * option (attr_spec * loc)).
  Variable pr : val -> res val.
  Variable stf : state -> state.
  Hypothesis Hstf : forall s1, heap (stf s1) = heap s1.
  Hypothesis Hmv : forall s1, fail_at s1 = fail_at s -> forall old, vscalar old = true ->
    mutate_value ct (exec ct 39) (mkmv old new false (PItem sp l) None (Some (ctor_of_ty (item_type (a_ty sp))))
                                       (Some (item_type (a_ty sp))) x [] false) s1
    = (pr old, stf s1).
  Hypothesis Hpr : forall old v', pr old = Ok v' -> nonref v' = true.

  Lemma find_proper voi p : find (fun p => val_eqb FUEL ct [] (fst p) voi) kvs = Some p -> vscalar (snd p) = true.
  Proof.
    intro H. apply find_some in H. destruct H as [Hin _]. unfold vals_proper in Hvp.
    rewrite forallb_forall in Hvp. now apply Hvp.
  Qed.

  Lemma change_tail_dict (tb : tri) ip voi s1 lc1 :
    nonref voi = true -> nth_error (heap s1) lc1 = Some (ODict kvs) -> fail_at s1 = fail_at s ->
    exists st, heap st = heap s1 /\
      (c' <- mutate_collection ct (exec ct XFUEL) FMap sp l (VRef lc1) (mkio voi new None x [] false true tb false) ;;
       mutate_attr ct (exec ct XFUEL) l a c' ip false false false) s1 =
      match dict_change_pure ct tk tv kvs voi pr with
      | inl o' => mutate_attr ct (exec ct XFUEL) l a (VRef lc1) ip false false false (upd st lc1 o')
      | inr e => (Err e, st) end.
  Proof.
    intros Hv Hlc1 Hfa1.
    assert (Efind : find (fun p => val_eqb FUEL ct (heap s1) (fst p) voi) kvs =
                    find (fun p => val_eqb FUEL ct [] (fst p) voi) kvs).
    { apply find_ext_in. intros p Hp. pose proof Hkvs as Hk2. rewrite forallb_forall in Hk2. specialize (Hk2 p Hp).
      unfold pair_nonref in Hk2. apply andb_true_iff in Hk2. apply val_eqb_heap_indep; tauto. }
    unfold dict_change_pure.
    pose proof (map_extractor_run ct lc1 kvs voi true s1 Hlc1 Hv) as E. rewrite Efind in E.
    destruct (find (fun p => val_eqb FUEL ct [] (fst p) voi) kvs) as [p|] eqn:Ef.
    - pose proof (find_proper voi p Ef) as Hp.
      assert (Hrun : exec ct XFUEL (KMutateValue (mkmv (snd p) new false (PItem sp l) None
                       (Some (ctor_of_ty (item_type (a_ty sp)))) (Some (item_type (a_ty sp))) x [] false)) s1
                     = (pr (snd p), stf s1)).
      { rewrite XFUEL_S, exec_S. cbn [body]. now apply Hmv. }
      exists (stf s1). split; [apply Hstf|].
      unfold mutate_collection.
      cbn [is_missing io_voi io_require io_by_index io_new io_replace io_attrs io_transform io_attr_transforms io_insert].
      rewrite bind_ret. rewrite !bind_assoc. rewrite (bind_ok _ _ _ _ _ E). cbn [fst snd].
      rewrite !bind_assoc.
      destruct (pr (snd p)) as [v'|e] eqn:Ep; [|now rewrite (bind_err _ _ _ _ _ Hrun)].
      rewrite (bind_ok _ _ _ _ _ Hrun).
      assert (Hlc' : nth_error (heap (stf s1)) lc1 = Some (ODict kvs)) by (now rewrite Hstf).
      pose proof (map_inserter_run ct sp tk tv lc1 kvs voi v' (stf s1) Hty Hdk Hdv Hlc' Hv (Hpr _ _ Ep)) as Hins.
      rewrite (dassign_heap_indep ct (heap (stf s1)) kvs voi v' Hkvs Hv) in Hins.
      rewrite !bind_assoc.
      destruct (conforms ct tk (abs0 voi) && conforms ct tv (abs0 v')).
      + rewrite (bind_ok _ _ _ _ _ Hins). now rewrite !bind_ret.
      + now rewrite (bind_err _ _ _ _ _ Hins).
    - exists s1. split; auto. unfold mutate_collection.
      cbn [is_missing io_voi io_require io_by_index io_new io_replace io_attrs io_transform io_attr_transforms io_insert].
      rewrite bind_ret. rewrite !bind_assoc. now rewrite (bind_err _ _ _ _ _ E).
  Qed.

  Lemma dict_change_pure_scalar voi o' :
    nonref voi = true -> dict_change_pure ct tk tv kvs voi pr = inl o' -> scalar_obj o' = true.
  Proof.
    intros Hv. unfold dict_change_pure.
    destruct (find _ kvs) as [p|]; [|discriminate].
    destruct (pr (snd p)) as [v'|e] eqn:Ep; [|discriminate].
    destruct (conforms ct tk (abs0 voi) && conforms ct tv (abs0 v')); intro E; inversion E; subst.
    cbn [scalar_obj]. apply dassign_scalar; auto. exact (Hpr _ _ Ep).
  Qed.

  Lemma dict_change_pure_spec (ah : ahargs) (transform : bool) voi :
    nonref voi = true -> is_missing voi = false -> apos0 ah = abs0 voi ->
    (forall old, vscalar old = true ->
       elem_pipeline ct h0 sp (abs0 old) (if transform then AMissing else apos1 ah) false
                     (if transform then None else ah_kw ah) (if transform then ah_fn ah else None)
                     (if transform then ah_kwfn ah else []) =
       match pr old with
       | Ok v' => if conforms ct tv (abs0 v') then SOk (abs0 v') else SErr ValueErr
       | Err e => SErr e end) ->
    spec_change_item ct h0 sp (aobj (ODict kvs)) ah transform =
    match dict_change_pure ct tk tv kvs voi pr with inl o' => SOk (aobj o') | inr e => SErr e end.
  Proof.
    intros Hv Hm Hp0 Hpipe. cbn [aobj]. unfold spec_change_item, dict_change_pure. rewrite Hp0.
    assert (Em : a_is_missing (abs0 voi) = false) by (destruct voi; try reflexivity; discriminate).
    rewrite Em, Hty. rewrite (a_hashable_abs0 voi Hv). cbn [negb].
    rewrite (dict_get_abs ct [] kvs voi Hkvs Hv).
    destruct (find (fun p => val_eqb FUEL ct [] (fst p) voi) kvs) as [p|] eqn:Ef; cbn [option_map]; [|reflexivity].
    rewrite (Hpipe (snd p) (find_proper voi p Ef)).
    destruct (pr (snd p)) as [v'|e]; [|reflexivity].
    destruct (conforms ct tv (abs0 v')); cbn [sbind]; [|now rewrite andb_false_r].
    rewrite andb_true_r. destruct (conforms ct tk (abs0 voi)); [|reflexivity].
    cbn [apply_elem spec_elem_op aobj]. now rewrite dassign_abs.
  Qed.
End DictChange.

(* ------------------------------------------------------------------ *)
(** * update_<item> / transform_<item> on a set of scalars: the edit *)

Definition set_change_pure (ct : ctable) (ity : ty) (xs : list val) (voi : val) (pr : val -> res val) : obj + err :=
  if existsb (fun x => val_eqb FUEL ct [] x voi) xs then
    match pr voi with
    | Ok v' =>
        if conforms ct ity (abs0 v') then
          let xs1 := filter (fun x => negb (val_eqb FUEL ct [] x voi)) xs in
          inl (OSet (if existsb (fun x => val_eqb FUEL ct [] x v') xs1 then xs1 else xs1 ++ [v']))
        else inr ValueErr
    | Err e => inr e
    end
  else inr ValueErr.

Lemma set_key_free_filter ct (f : val -> bool) xs v : set_key_free ct xs v = true -> set_key_free ct (filter f xs) v = true.
Proof. unfold set_key_free. apply forallb_filter_true. Qed.

Section SetChange.
  Variable ct : ctable.
  Variable h0 : list obj.
  Variables (l : loc) (a : aid) (sp : attr_spec).
  Variables (ity : ty) (xs : list val).
  Hypothesis Hty : a_ty sp = TSet ity.
  Hypothesis Hdepth : ty_depth ity < FUEL.
  Hypothesis Hxs : forallb nonref xs = true.

  Variable s : state.
  Variable new : val.
  Variable x : option (xform * option (attr_spec * loc)).
  Variable pr : val -> res val.
  Variable stf : state -> state.
  Hypothesis Hstf : forall s1, heap (stf s1) = heap s1.
  Hypothesis Hmv : forall s1, fail_at s1 = fail_at s -> forall old, vscalar old = true ->
    mutate_value ct (exec ct 39) (mkmv old new false (PItem sp l) None (Some (ctor_of_ty (item_type (a_ty sp))))
                                       (Some (item_type (a_ty sp))) x [] false) s1
    = (pr old, stf s1).
  Hypothesis Hpr : forall old v', pr old = Ok v' -> nonref v' = true.

  Lemma sc_item : item_type (a_ty sp) = ity.
  Proof. now rewrite Hty. Qed.

  Lemma change_tail_set (tb : tri) ip voi s1 lc1 :
    vscalar voi = true -> nth_error (heap s1) lc1 = Some (OSet xs) -> fail_at s1 = fail_at s ->
    exists st, heap st = heap s1 /\
      (c' <- mutate_collection ct (exec ct XFUEL) FSet sp l (VRef lc1) (mkio voi new None x [] false true tb false) ;;
       mutate_attr ct (exec ct XFUEL) l a c' ip false false false) s1 =
      match set_change_pure ct ity xs voi pr with
      | inl o' => mutate_attr ct (exec ct XFUEL) l a (VRef lc1) ip false false false (upd st lc1 o')
      | inr e => (Err e, st) end.
  Proof.
    intros Hvs Hlc1 Hfa1.
    assert (Hv : nonref voi = true) by (now apply vscalar_nonref).
    assert (Hm : is_missing voi = false) by (destruct voi; cbn [vscalar] in Hvs; try discriminate; reflexivity).
    unfold set_change_pure.
    pose proof (set_extractor_run ct lc1 xs voi true s1 Hlc1 Hv) as E.
    rewrite (mem_heap_indep ct (heap s1) xs voi Hxs Hv) in E.
    unfold mutate_collection.
    cbn [is_missing io_voi io_require io_by_index io_new io_replace io_attrs io_transform io_attr_transforms io_insert].
    rewrite bind_ret.
    destruct (existsb (fun x => val_eqb FUEL ct [] x voi) xs).
    - assert (Hrun : exec ct XFUEL (KMutateValue (mkmv voi new false (PItem sp l) None
                       (Some (ctor_of_ty (item_type (a_ty sp)))) (Some (item_type (a_ty sp))) x [] false)) s1
                     = (pr voi, stf s1)).
      { rewrite XFUEL_S, exec_S. cbn [body]. now apply Hmv. }
      exists (stf s1). split; [apply Hstf|].
      rewrite !bind_assoc. rewrite (bind_ok _ _ _ _ _ E). cbn [fst snd]. rewrite !bind_assoc.
      destruct (pr voi) as [v'|e] eqn:Ep; [|now rewrite (bind_err _ _ _ _ _ Hrun)].
      rewrite (bind_ok _ _ _ _ _ Hrun).
      pose proof (Hpr _ _ Ep) as Hnv'.
      assert (Hlc' : nth_error (heap (stf s1)) lc1 = Some (OSet xs)) by (now rewrite Hstf).
      set (xs1 := filter (fun x => negb (val_eqb FUEL ct [] x voi)) xs).
      assert (Hx1 : forallb nonref xs1 = true) by (now apply forallb_filter_true).
      assert (Hins : set_inserter ct sp (VRef lc1) voi v' (stf s1) =
                     if conforms ct ity (abs0 v')
                     then (Ok tt, upd (stf s1) lc1 (OSet (if existsb (fun x => val_eqb FUEL ct [] x v') xs1 then xs1 else xs1 ++ [v'])))
                     else (Err ValueErr, stf s1)).
      { unfold set_inserter.
        rewrite (bind_ok (check_typeM ct v' (item_type (a_ty sp))) _ (stf s1)
                         (check_type FUEL ct (heap (stf s1)) v' (item_type (a_ty sp))) (stf s1) eq_refl).
        rewrite sc_item, check_type_nonref by auto.
        destruct (conforms ct ity (abs0 v')); [|reflexivity]. cbn [negb].
        rewrite (bind_ok _ _ _ _ _ (read_set_at lc1 xs (stf s1) Hlc')). cbn [fst snd]. rewrite Hm. cbn [negb].
        assert (Ed : set_discard ct xs voi (stf s1) = (Ok xs1, stf s1)).
        { unfold set_discard. rewrite hashable_nonref, Hv. unfold xs1.
          assert (Ef : filter (fun x => negb (val_eqb FUEL ct (heap (stf s1)) x voi)) xs =
                       filter (fun x => negb (val_eqb FUEL ct [] x voi)) xs).
          { apply filter_ext_in'. intros y Hy. pose proof Hxs as Hx2. rewrite forallb_forall in Hx2.
            rewrite (val_eqb_heap_indep ct FUEL (heap (stf s1)) y voi (Hx2 y Hy) Hv). reflexivity. }
          now rewrite <- Ef. }
        rewrite (bind_ok _ _ _ _ _ Ed).
        rewrite (bind_ok _ _ _ _ _ (set_mem_run ct xs1 v' (stf s1) Hnv')).
        rewrite (mem_heap_indep ct (heap (stf s1)) xs1 v' Hx1 Hnv').
        apply write_run. apply nth_error_Some. congruence. }
      rewrite !bind_assoc.
      destruct (conforms ct ity (abs0 v')).
      + rewrite (bind_ok _ _ _ _ _ Hins). now rewrite !bind_ret.
      + now rewrite (bind_err _ _ _ _ _ Hins).
    - exists s1. split; auto. rewrite !bind_assoc. now rewrite (bind_err _ _ _ _ _ E).
  Qed.

  Lemma set_change_pure_scalar voi o' :
    set_change_pure ct ity xs voi pr = inl o' -> scalar_obj o' = true.
  Proof.
    unfold set_change_pure. destruct (existsb _ xs); [|discriminate].
    destruct (pr voi) as [v'|e] eqn:Ep; [|discriminate].
    destruct (conforms ct ity (abs0 v')); intro E; inversion E; subst. cbn [scalar_obj].
    assert (Hx1 : forallb nonref (filter (fun x => negb (val_eqb FUEL ct [] x voi)) xs) = true)
      by (now apply forallb_filter_true).
    destruct (existsb _ (filter _ xs)); auto. apply forallb_app_true; auto. cbn [forallb]. now rewrite (Hpr _ _ Ep).
  Qed.

  (* the element the specification finds is the target itself *)
  Lemma find_cset_ident voi :
    nonref voi = true -> ident_on_eq ct xs voi = true ->
    find (fun y => py_eq ct y (abs0 voi)) (cset xs) =
    if existsb (fun x => val_eqb FUEL ct [] x voi) xs then Some (abs0 voi) else None.
  Proof.
    intros Hv Hid. rewrite (mem_abs ct [] xs voi Hxs Hv). unfold set_has.
    destruct (find (fun y => py_eq ct y (abs0 voi)) (cset xs)) as [y|] eqn:Ef.
    - pose proof (find_some _ _ Ef) as [Hin Hy].
      assert (Hex : existsb (fun y0 => py_eq ct y0 (abs0 voi)) (cset xs) = true)
        by (apply existsb_exists; exists y; auto).
      rewrite Hex. f_equal. unfold cset in Hin. apply in_map_iff in Hin. destruct Hin as [z [<- Hz]].
      apply In_sort_by in Hz. unfold ident_on_eq in Hid. rewrite forallb_forall in Hid. specialize (Hid z Hz).
      rewrite Hy in Hid. cbn [negb orb] in Hid. now apply aval_eqb_eq in Hid.
    - destruct (existsb (fun y0 => py_eq ct y0 (abs0 voi)) (cset xs)) eqn:Hex; [|reflexivity].
      apply existsb_exists in Hex. destruct Hex as [y [Hin Hy]].
      pose proof (find_none _ _ Ef y Hin) as Hn. cbv beta in Hn. congruence.
  Qed.

  Lemma set_change_pure_spec (ah : ahargs) (transform : bool) voi :
    vscalar voi = true -> apos0 ah = abs0 voi -> ident_on_eq ct xs voi = true ->
    (forall v', pr voi = Ok v' -> set_key_free ct xs v' = true) ->
    elem_pipeline ct h0 sp (abs0 voi) (if transform then AMissing else apos1 ah) false
                  (if transform then None else ah_kw ah) (if transform then ah_fn ah else None)
                  (if transform then ah_kwfn ah else []) =
      match pr voi with
      | Ok v' => if conforms ct ity (abs0 v') then SOk (abs0 v') else SErr ValueErr
      | Err e => SErr e end ->
    spec_change_item ct h0 sp (aobj (OSet xs)) ah transform =
    match set_change_pure ct ity xs voi pr with inl o' => SOk (aobj o') | inr e => SErr e end.
  Proof.
    intros Hvs Hp0 Hid Hkf Hpipe.
    assert (Hv : nonref voi = true) by (now apply vscalar_nonref).
    cbn [aobj]. unfold spec_change_item, set_change_pure. rewrite Hp0.
    assert (Em : a_is_missing (abs0 voi) = false) by (destruct voi; cbn [vscalar] in Hvs; try discriminate; reflexivity).
    rewrite Em, Hty. rewrite (a_hashable_abs0 voi Hv). cbn [negb].
    rewrite (find_cset_ident voi Hv Hid).
    destruct (existsb (fun x => val_eqb FUEL ct [] x voi) xs); [|reflexivity].
    rewrite Hpipe.
    destruct (pr voi) as [v'|e] eqn:Ep; [|reflexivity].
    destruct (conforms ct ity (abs0 v')); cbn [sbind]; [|reflexivity].
    pose proof (Hpr _ _ Ep) as Hnv'.
    rewrite (a_hashable_abs0 v' Hnv'). cbn [apply_elem spec_elem_op aobj].
    set (xs1 := filter (fun x => negb (val_eqb FUEL ct [] x voi)) xs).
    assert (Hx1 : forallb nonref xs1 = true) by (now apply forallb_filter_true).
    rewrite <- (cset_filter ct [] xs voi Hxs Hv). fold xs1.
    unfold set_add. rewrite <- (mem_abs ct [] xs1 v' Hx1 Hnv').
    destruct (existsb (fun x => val_eqb FUEL ct [] x v') xs1) eqn:Em1; [reflexivity|].
    rewrite (cset_snoc ct xs1 v' Hx1 Hnv'); [reflexivity|now apply set_key_free_filter; apply Hkf|].
    now rewrite <- (mem_abs ct [] xs1 v' Hx1 Hnv').
  Qed.
End SetChange.

(* ------------------------------------------------------------------ *)
(** * The value procedure of update_<item> / transform_<item> on a proper scalar (any family) *)

Definition xf (fo : option fn) : option (xform * option (attr_spec * loc)) :=
  match fo with Some f => Some (XFn f, @None (attr_spec * loc)) | None => None end.
Definition stft (fo : option fn) (s1 : state) : state := match fo with Some _ => ticked s1 | None => s1 end.
Definition fo_ok (fo : option fn) : Prop := match fo with Some f => pool_fn f = true | None => True end.

Section ChangePieces.
  Variable ct : ctable.
  Variable h0 : list obj.
  Variables (l : loc) (sp : attr_spec).
  Variable s : state.

  Lemma stft_heap fo s1 : heap (stft fo s1) = heap s1.
  Proof. destruct fo; reflexivity. Qed.

  Lemma tr_mv fo : fail_at s = None -> fo_ok fo ->
    forall s1, fail_at s1 = fail_at s -> forall old, vscalar old = true ->
    mutate_value ct (exec ct 39) (mkmv old VMissing false (PItem sp l) None (Some (ctor_of_ty (item_type (a_ty sp))))
                                       (Some (item_type (a_ty sp))) (xf fo) [] false) s1
    = (trp fo old, stft fo s1).
  Proof.
    intros Hfa Hfo s1 Hf1 old Ho. unfold xf.
    rewrite (mutate_value_transform_scalar ct (exec ct 39) sp (item_type (a_ty sp)) l old fo s1 Ho).
    unfold trp, stft. rewrite Ho. destruct fo as [f|]; [|reflexivity].
    apply pool_apply_run; auto. congruence.
  Qed.

  Lemma tr_prn fo : fo_ok fo -> forall old v', trp fo old = Ok v' -> nonref v' = true.
  Proof.
    intros Hfo old v'. unfold trp. destruct (vscalar old) eqn:Ho; [|discriminate].
    destruct fo as [f|]; [|intro E; inversion E; subst; now apply vscalar_nonref].
    intro E. apply vscalar_nonref. exact (pool_apply_scalar f old v' Hfo Ho E).
  Qed.

  Lemma tr_pipe fo : fo_ok fo -> forall old, vscalar old = true ->
    elem_pipeline ct h0 sp (abs0 old) AMissing false None fo [] =
    match trp fo old with
    | Ok v' => if conforms ct (item_type (a_ty sp)) (abs0 v') then SOk (abs0 v') else SErr ValueErr
    | Err e => SErr e end.
  Proof.
    intros Hfo old Hso. unfold elem_pipeline.
    rewrite (spec_value_keep ct h0 sp (item_type (a_ty sp)) old AMissing fo _ Hso eq_refl). unfold trp. rewrite Hso.
    destruct fo as [f|]; [|reflexivity].
    rewrite (pool_apply_afn f old Hfo Hso). destruct (pool_apply f old); reflexivity.
  Qed.

  Hypothesis Hprep : a_prepare_item sp = None.
  Hypothesis Hstrict : spec_of_ty_strict (item_type (a_ty sp)) = None.

  Lemma up_mv v : nonref v = true ->
    forall s1, fail_at s1 = fail_at s -> forall old, vscalar old = true ->
    mutate_value ct (exec ct 39) (mkmv old v false (PItem sp l) None (Some (ctor_of_ty (item_type (a_ty sp))))
                                       (Some (item_type (a_ty sp))) None [] false) s1
    = (up_pr v old, s1).
  Proof.
    intros Hnv s1 _ old Ho. unfold up_pr. destruct (vscalar v) eqn:Esv.
    - now apply mutate_value_new_scalar.
    - rewrite Ho. now apply mutate_value_update_sentinel.
  Qed.

  Lemma up_prn v : nonref v = true -> forall old v', up_pr v old = Ok v' -> nonref v' = true.
  Proof.
    intros Hnv old v'. unfold up_pr. destruct (vscalar v) eqn:Esv.
    - intro E; inversion E; subst; auto.
    - destruct (vscalar old) eqn:Eso; [|discriminate]. intro E; inversion E; subst. now apply vscalar_nonref.
  Qed.

  Lemma up_pipe v : nonref v = true -> forall old, vscalar old = true ->
    elem_pipeline ct h0 sp (abs0 old) (abs0 v) false None None [] =
    match up_pr v old with
    | Ok v' => if conforms ct (item_type (a_ty sp)) (abs0 v') then SOk (abs0 v') else SErr ValueErr
    | Err e => SErr e end.
  Proof.
    intros Hnv old Hso. unfold up_pr. destruct (vscalar v) eqn:Esv.
    - now apply elem_pipeline_new_scalar_gen.
    - rewrite Hso. unfold elem_pipeline.
      destruct v; cbn [vscalar nonref] in Esv, Hnv; try discriminate; cbn [abs0].
      + now rewrite (spec_value_keep ct h0 sp _ old AMissing None _ Hso eq_refl).
      + now rewrite (spec_value_keep ct h0 sp _ old AEmpty None _ Hso eq_refl).
      + reflexivity.
  Qed.
End ChangePieces.

(* ------------------------------------------------------------------ *)
(** * The theorems: dicts and sets, in place and copy-on-write *)

Definition inplace_refines_spec (ct : ctable) (h0 : list obj) (s : state) (l : loc)
           (hp : helper) (h : hargs) (shp : shelper) (ah : ahargs) : Prop :=
  match run_helper ct l hp h s with
  | (Ok r, s') => r = VRef l /\
                  spec_helper ct h0 (absv (heap s) (VRef l)) shp ah = SOk (absv (heap s') (VRef l))
  | (Err e, s') => spec_helper ct h0 (absv (heap s) (VRef l)) shp ah = SErr e /\ heap s' = heap s
  end.

Section ChangeThms.
  Variable ct : ctable.
  Variable h0 : list obj.
  Variables (l : loc) (a : aid) (c : cid) (d : list (aid * val)) (k : cls) (sp : attr_spec).
  Variable s : state.
  Variable lc : loc.
  Hypothesis Hl : nth_error (heap s) l = Some (OInst c d).
  Hypothesis Hc : lookup_cls ct c = Some k.
  Hypothesis Ha : lookup_attr k a = Some sp.
  Hypothesis Hd : NoDup (map fst d).
  Hypothesis Hni : no_dep k a.
  Hypothesis Hfld : assoc a d = Some (VRef lc).
  Hypothesis Hflat : flat_fields (heap s) d.

  Lemma run_transform_ip h : h_if h = true -> h_inplace h = true ->
    run_helper ct l (HTransformItem a) h s = bind (mk_mutator ct sp l true) (transform_tail ct l a sp h) s.
  Proof.
    intros Hif Hin. rewrite (run_transform_tail ct l a h s Hif).
    rewrite (bind_ok _ _ _ _ _ (fr_spec_for ct l a c d k sp s Hl Hc Ha)). cbn [snd]. now rewrite Hin.
  Qed.
  Lemma run_update_ip h : h_if h = true -> h_inplace h = true ->
    run_helper ct l (HUpdateItem a) h s = bind (mk_mutator ct sp l true) (update_tail ct l a sp h) s.
  Proof.
    intros Hif Hin. rewrite (run_update_tail ct l a h s Hif).
    rewrite (bind_ok _ _ _ _ _ (fr_spec_for ct l a c d k sp s Hl Hc Ha)). cbn [snd]. now rewrite Hin.
  Qed.
  Lemma run_transform_cp h : h_if h = true -> h_inplace h = false ->
    run_helper ct l (HTransformItem a) h s = bind (mk_mutator ct sp l false) (transform_tail ct l a sp h) s.
  Proof.
    intros Hif Hin. rewrite (run_transform_tail ct l a h s Hif).
    rewrite (bind_ok _ _ _ _ _ (fr_spec_for ct l a c d k sp s Hl Hc Ha)). cbn [snd]. now rewrite Hin.
  Qed.
  Lemma run_update_cp h : h_if h = true -> h_inplace h = false ->
    run_helper ct l (HUpdateItem a) h s = bind (mk_mutator ct sp l false) (update_tail ct l a sp h) s.
  Proof.
    intros Hif Hin. rewrite (run_update_tail ct l a h s Hif).
    rewrite (bind_ok _ _ _ _ _ (fr_spec_for ct l a c d k sp s Hl Hc Ha)). cbn [snd]. now rewrite Hin.
  Qed.

  (* ======================= dicts ======================= *)
  Section Dict.
    Variables (kvs : list (val * val)) (tk tv : ty).
    Hypothesis Hty : a_ty sp = TDict tk tv.
    Hypothesis Hdk : ty_depth tk < FUEL.
    Hypothesis Hdv : ty_depth tv < FUEL.
    Hypothesis Hlc : nth_error (heap s) lc = Some (ODict kvs).
    Hypothesis Hkvs : forallb pair_nonref kvs = true.
    Hypothesis Hvp : vals_proper kvs = true.

    Lemma dc_coll : ty_is_collection (a_ty sp) = true.
    Proof. now rewrite Hty. Qed.
    Lemma dc_item : item_type (a_ty sp) = tv.
    Proof. now rewrite Hty. Qed.

    Lemma transform_tail_dict ip key fo bi :
      nonref key = true -> fail_at s = None -> fo_ok fo ->
      forall s1 lc1, nth_error (heap s1) lc1 = Some (ODict kvs) -> fail_at s1 = fail_at s ->
      exists st, heap st = heap s1 /\
        transform_tail ct l a sp (mkh [key] ip true VMissing false bi None [] fo) (VRef lc1) s1 =
        match dict_change_pure ct tk tv kvs key (trp fo) with
        | inl o' => mutate_attr ct (exec ct XFUEL) l a (VRef lc1) ip false false false (upd st lc1 o')
        | inr e => (Err e, st) end.
    Proof.
      intros Hk Hfa Hfo s1 lc1 H1 Hf1. unfold transform_tail. rewrite Hty.
      cbn [family_of pos0 h_pos nth h_fn h_kwfn h_by_index h_inplace].
      exact (change_tail_dict ct l a sp tk tv kvs Hty Hdk Hdv Hkvs Hvp s VMissing (xf fo) (trp fo) (stft fo)
               (stft_heap fo) (tr_mv ct l sp s fo Hfa Hfo) (tr_prn fo Hfo) (tri_of bi) ip key s1 lc1 Hk H1 Hf1).
    Qed.

    Lemma transform_spec_dict ip key fo bi :
      nonref key = true -> is_missing key = false -> fo_ok fo ->
      spec_change_item ct h0 sp (aobj (ODict kvs)) (mkah [abs0 key] ip true AMissing false bi None [] fo) true =
      match dict_change_pure ct tk tv kvs key (trp fo) with inl o' => SOk (aobj o') | inr e => SErr e end.
    Proof.
      intros Hk Hm Hfo.
      apply (dict_change_pure_spec ct h0 sp tk tv kvs Hty Hkvs Hvp (trp fo)
               (mkah [abs0 key] ip true AMissing false bi None [] fo) true key Hk Hm eq_refl).
      intros old Ho. cbn [ah_fn ah_kwfn]. rewrite (tr_pipe ct h0 sp fo Hfo old Ho). now rewrite dc_item.
    Qed.

    Lemma update_tail_dict ip key v :
      a_prepare_item sp = None -> spec_of_ty_strict tv = None ->
      nonref key = true -> nonref v = true ->
      forall s1 lc1, nth_error (heap s1) lc1 = Some (ODict kvs) -> fail_at s1 = fail_at s ->
      exists st, heap st = heap s1 /\
        update_tail ct l a sp (mkh [key; v] ip true VMissing false None None [] None) (VRef lc1) s1 =
        match dict_change_pure ct tk tv kvs key (up_pr v) with
        | inl o' => mutate_attr ct (exec ct XFUEL) l a (VRef lc1) ip false false false (upd st lc1 o')
        | inr e => (Err e, st) end.
    Proof.
      intros Hprep Hstrict Hk Hnv s1 lc1 H1 Hf1. unfold update_tail. rewrite Hty.
      cbn [family_of pos0 pos1 h_pos nth h_kw h_inplace].
      assert (Hstrict' : spec_of_ty_strict (item_type (a_ty sp)) = None) by (now rewrite dc_item).
      exact (change_tail_dict ct l a sp tk tv kvs Hty Hdk Hdv Hkvs Hvp s v None (up_pr v) (fun s1 => s1)
               (fun s1 => eq_refl) (up_mv ct l sp s Hprep Hstrict' v Hnv) (up_prn v Hnv) TriTrue ip key s1 lc1 Hk H1 Hf1).
    Qed.

    Lemma update_spec_dict ip key v :
      a_prepare_item sp = None -> spec_of_ty_strict tv = None ->
      nonref key = true -> is_missing key = false -> nonref v = true ->
      spec_change_item ct h0 sp (aobj (ODict kvs)) (mkah [abs0 key; abs0 v] ip true AMissing false None None [] None) false =
      match dict_change_pure ct tk tv kvs key (up_pr v) with inl o' => SOk (aobj o') | inr e => SErr e end.
    Proof.
      intros Hprep Hstrict Hk Hm Hnv.
      assert (Hstrict' : spec_of_ty_strict (item_type (a_ty sp)) = None) by (now rewrite dc_item).
      apply (dict_change_pure_spec ct h0 sp tk tv kvs Hty Hkvs Hvp (up_pr v)
               (mkah [abs0 key; abs0 v] ip true AMissing false None None [] None) false key Hk Hm eq_refl).
      intros old Ho. cbn [apos1 ah_pos nth ah_kw].
      rewrite (up_pipe ct h0 sp Hprep Hstrict' v Hnv old Ho). now rewrite dc_item.
    Qed.

    Section InPlace.
      Hypothesis Hfz : c_frozen k = false.
      Hypothesis Hshare : forall b w, In (b, w) d -> b <> a -> w <> VRef lc.

      Theorem transform_item_dict_inplace_refines key fo bi :
        nonref key = true -> is_missing key = false -> fail_at s = None -> fo_ok fo ->
        inplace_refines_spec ct h0 s l (HTransformItem a) (mkh [key] true true VMissing false bi None [] fo)
                             (STransformItem a) (mkah [abs0 key] true true AMissing false bi None [] fo).
      Proof.
        intros Hk Hm Hfa Hfo. unfold inplace_refines_spec.
        apply (ip_whole ct h0 l a c d k sp s lc (ODict kvs) Hl Hc Ha Hd Hfz Hni dc_coll Hfld Hlc Hkvs Hflat Hshare
                 (transform_tail ct l a sp (mkh [key] true true VMissing false bi None [] fo))
                 (dict_change_pure ct tk tv kvs key (trp fo)))
          with (edit := fun sp c h => spec_change_item ct h0 sp c h true); try reflexivity.
        - now apply transform_tail_dict.
        - intros o'. apply (dict_change_pure_scalar ct tk tv kvs Hkvs (trp fo) (tr_prn fo Hfo) key o' Hk).
        - now apply transform_spec_dict.
        - now apply run_transform_ip.
      Qed.

      Theorem update_item_dict_inplace_refines key v :
        a_prepare_item sp = None -> spec_of_ty_strict tv = None ->
        nonref key = true -> is_missing key = false -> nonref v = true ->
        inplace_refines_spec ct h0 s l (HUpdateItem a) (mkh [key; v] true true VMissing false None None [] None)
                             (SUpdateItem a) (mkah [abs0 key; abs0 v] true true AMissing false None None [] None).
      Proof.
        intros Hprep Hstrict Hk Hm Hnv. unfold inplace_refines_spec.
        apply (ip_whole ct h0 l a c d k sp s lc (ODict kvs) Hl Hc Ha Hd Hfz Hni dc_coll Hfld Hlc Hkvs Hflat Hshare
                 (update_tail ct l a sp (mkh [key; v] true true VMissing false None None [] None))
                 (dict_change_pure ct tk tv kvs key (up_pr v)))
          with (edit := fun sp c h => spec_change_item ct h0 sp c h false); try reflexivity.
        - now apply update_tail_dict.
        - intros o'. apply (dict_change_pure_scalar ct tk tv kvs Hkvs (up_pr v) (up_prn v Hnv) key o' Hk).
        - now apply update_spec_dict.
        - now apply run_update_ip.
      Qed.
    End InPlace.

    Section Copy.
      Hypothesis Hdnc : c_dnc k = false.
      Hypothesis Hpc : c_post_copy k = None.
      Hypothesis Hinit : assoc A_INITIALIZING d = None.
      Hypothesis Ha0 : a <> A_INITIALIZING.

      Theorem transform_item_dict_copy_refines key fo bi :
        nonref key = true -> is_missing key = false -> fail_at s = None -> fo_ok fo ->
        copy_refines_spec ct h0 s l (HTransformItem a) (mkh [key] false true VMissing false bi None [] fo)
                          (STransformItem a) (mkah [abs0 key] false true AMissing false bi None [] fo).
      Proof.
        intros Hk Hm Hfa Hfo. unfold copy_refines_spec.
        apply (fc_whole_gen ct h0 l a c d k sp s lc (ODict kvs) Hl Hc Ha Hd Hdnc Hpc Hni dc_coll Hfld Hlc Hkvs Hflat Hinit Ha0
                 (transform_tail ct l a sp (mkh [key] false true VMissing false bi None [] fo))
                 (dict_change_pure ct tk tv kvs key (trp fo)))
          with (edit := fun sp c h => spec_change_item ct h0 sp c h true); try reflexivity.
        - now apply transform_tail_dict.
        - intros o'. apply (dict_change_pure_scalar ct tk tv kvs Hkvs (trp fo) (tr_prn fo Hfo) key o' Hk).
        - now apply transform_spec_dict.
        - now apply run_transform_cp.
      Qed.

      Theorem update_item_dict_copy_refines key v :
        a_prepare_item sp = None -> spec_of_ty_strict tv = None ->
        nonref key = true -> is_missing key = false -> nonref v = true ->
        copy_refines_spec ct h0 s l (HUpdateItem a) (mkh [key; v] false true VMissing false None None [] None)
                          (SUpdateItem a) (mkah [abs0 key; abs0 v] false true AMissing false None None [] None).
      Proof.
        intros Hprep Hstrict Hk Hm Hnv. unfold copy_refines_spec.
        apply (fc_whole_gen ct h0 l a c d k sp s lc (ODict kvs) Hl Hc Ha Hd Hdnc Hpc Hni dc_coll Hfld Hlc Hkvs Hflat Hinit Ha0
                 (update_tail ct l a sp (mkh [key; v] false true VMissing false None None [] None))
                 (dict_change_pure ct tk tv kvs key (up_pr v)))
          with (edit := fun sp c h => spec_change_item ct h0 sp c h false); try reflexivity.
        - now apply update_tail_dict.
        - intros o'. apply (dict_change_pure_scalar ct tk tv kvs Hkvs (up_pr v) (up_prn v Hnv) key o' Hk).
        - now apply update_spec_dict.
        - now apply run_update_cp.
      Qed.
    End Copy.
  End Dict.

  (* ======================= sets ======================= *)
  Section SetT.
    Variables (xs : list val) (ity : ty).
    Hypothesis Hty : a_ty sp = TSet ity.
    Hypothesis Hdepth : ty_depth ity < FUEL.
    Hypothesis Hlc : nth_error (heap s) lc = Some (OSet xs).
    Hypothesis Hxs : forallb nonref xs = true.

    Lemma stc_coll : ty_is_collection (a_ty sp) = true.
    Proof. now rewrite Hty. Qed.
    Lemma stc_item : item_type (a_ty sp) = ity.
    Proof. now rewrite Hty. Qed.

    Lemma transform_tail_set ip voi fo bi :
      vscalar voi = true -> fail_at s = None -> fo_ok fo ->
      forall s1 lc1, nth_error (heap s1) lc1 = Some (OSet xs) -> fail_at s1 = fail_at s ->
      exists st, heap st = heap s1 /\
        transform_tail ct l a sp (mkh [voi] ip true VMissing false bi None [] fo) (VRef lc1) s1 =
        match set_change_pure ct ity xs voi (trp fo) with
        | inl o' => mutate_attr ct (exec ct XFUEL) l a (VRef lc1) ip false false false (upd st lc1 o')
        | inr e => (Err e, st) end.
    Proof.
      intros Hv Hfa Hfo s1 lc1 H1 Hf1. unfold transform_tail. rewrite Hty.
      cbn [family_of pos0 h_pos nth h_fn h_kwfn h_by_index h_inplace].
      exact (change_tail_set ct l a sp ity xs Hty Hdepth Hxs s VMissing (xf fo) (trp fo) (stft fo)
               (stft_heap fo) (tr_mv ct l sp s fo Hfa Hfo) (tr_prn fo Hfo) (tri_of bi) ip voi s1 lc1 Hv H1 Hf1).
    Qed.

    Lemma transform_spec_set ip voi fo bi :
      vscalar voi = true -> fo_ok fo -> ident_on_eq ct xs voi = true ->
      (forall v', trp fo voi = Ok v' -> set_key_free ct xs v' = true) ->
      spec_change_item ct h0 sp (aobj (OSet xs)) (mkah [abs0 voi] ip true AMissing false bi None [] fo) true =
      match set_change_pure ct ity xs voi (trp fo) with inl o' => SOk (aobj o') | inr e => SErr e end.
    Proof.
      intros Hv Hfo Hid Hkf.
      apply (set_change_pure_spec ct h0 sp ity xs Hty Hxs (trp fo) (tr_prn fo Hfo)
               (mkah [abs0 voi] ip true AMissing false bi None [] fo) true voi Hv eq_refl Hid Hkf).
      cbn [ah_fn ah_kwfn]. rewrite (tr_pipe ct h0 sp fo Hfo voi Hv). now rewrite stc_item.
    Qed.

    Lemma update_tail_set ip voi v :
      a_prepare_item sp = None -> spec_of_ty_strict ity = None ->
      vscalar voi = true -> nonref v = true ->
      forall s1 lc1, nth_error (heap s1) lc1 = Some (OSet xs) -> fail_at s1 = fail_at s ->
      exists st, heap st = heap s1 /\
        update_tail ct l a sp (mkh [voi; v] ip true VMissing false None None [] None) (VRef lc1) s1 =
        match set_change_pure ct ity xs voi (up_pr v) with
        | inl o' => mutate_attr ct (exec ct XFUEL) l a (VRef lc1) ip false false false (upd st lc1 o')
        | inr e => (Err e, st) end.
    Proof.
      intros Hprep Hstrict Hv Hnv s1 lc1 H1 Hf1. unfold update_tail. rewrite Hty.
      cbn [family_of pos0 pos1 h_pos nth h_kw h_inplace].
      assert (Hm : is_missing voi = false) by (destruct voi; cbn [vscalar] in Hv; try discriminate; reflexivity).
      rewrite Hm. cbn [negb].
      assert (Hstrict' : spec_of_ty_strict (item_type (a_ty sp)) = None) by (now rewrite stc_item).
      exact (change_tail_set ct l a sp ity xs Hty Hdepth Hxs s v None (up_pr v) (fun s1 => s1)
               (fun s1 => eq_refl) (up_mv ct l sp s Hprep Hstrict' v Hnv) (up_prn v Hnv) TriTrue ip voi s1 lc1 Hv H1 Hf1).
    Qed.

    Lemma update_spec_set ip voi v :
      a_prepare_item sp = None -> spec_of_ty_strict ity = None ->
      vscalar voi = true -> nonref v = true -> ident_on_eq ct xs voi = true ->
      (forall v', up_pr v voi = Ok v' -> set_key_free ct xs v' = true) ->
      spec_change_item ct h0 sp (aobj (OSet xs)) (mkah [abs0 voi; abs0 v] ip true AMissing false None None [] None) false =
      match set_change_pure ct ity xs voi (up_pr v) with inl o' => SOk (aobj o') | inr e => SErr e end.
    Proof.
      intros Hprep Hstrict Hv Hnv Hid Hkf.
      assert (Hstrict' : spec_of_ty_strict (item_type (a_ty sp)) = None) by (now rewrite stc_item).
      apply (set_change_pure_spec ct h0 sp ity xs Hty Hxs (up_pr v) (up_prn v Hnv)
               (mkah [abs0 voi; abs0 v] ip true AMissing false None None [] None) false voi Hv eq_refl Hid Hkf).
      cbn [apos1 ah_pos nth ah_kw].
      rewrite (up_pipe ct h0 sp Hprep Hstrict' v Hnv voi Hv). now rewrite stc_item.
    Qed.

    Section InPlace.
      Hypothesis Hfz : c_frozen k = false.
      Hypothesis Hshare : forall b w, In (b, w) d -> b <> a -> w <> VRef lc.

      Theorem transform_item_set_inplace_refines voi fo bi :
        vscalar voi = true -> fail_at s = None -> fo_ok fo -> ident_on_eq ct xs voi = true ->
        (forall v', trp fo voi = Ok v' -> set_key_free ct xs v' = true) ->
        inplace_refines_spec ct h0 s l (HTransformItem a) (mkh [voi] true true VMissing false bi None [] fo)
                             (STransformItem a) (mkah [abs0 voi] true true AMissing false bi None [] fo).
      Proof.
        intros Hv Hfa Hfo Hid Hkf. unfold inplace_refines_spec.
        apply (ip_whole ct h0 l a c d k sp s lc (OSet xs) Hl Hc Ha Hd Hfz Hni stc_coll Hfld Hlc Hxs Hflat Hshare
                 (transform_tail ct l a sp (mkh [voi] true true VMissing false bi None [] fo))
                 (set_change_pure ct ity xs voi (trp fo)))
          with (edit := fun sp c h => spec_change_item ct h0 sp c h true); try reflexivity.
        - now apply transform_tail_set.
        - intros o'. apply (set_change_pure_scalar ct ity xs Hxs (trp fo) (tr_prn fo Hfo) voi o').
        - now apply transform_spec_set.
        - now apply run_transform_ip.
      Qed.

      Theorem update_item_set_inplace_refines voi v :
        a_prepare_item sp = None -> spec_of_ty_strict ity = None ->
        vscalar voi = true -> nonref v = true -> ident_on_eq ct xs voi = true ->
        (forall v', up_pr v voi = Ok v' -> set_key_free ct xs v' = true) ->
        inplace_refines_spec ct h0 s l (HUpdateItem a) (mkh [voi; v] true true VMissing false None None [] None)
                             (SUpdateItem a) (mkah [abs0 voi; abs0 v] true true AMissing false None None [] None).
      Proof.
        intros Hprep Hstrict Hv Hnv Hid Hkf. unfold inplace_refines_spec.
        apply (ip_whole ct h0 l a c d k sp s lc (OSet xs) Hl Hc Ha Hd Hfz Hni stc_coll Hfld Hlc Hxs Hflat Hshare
                 (update_tail ct l a sp (mkh [voi; v] true true VMissing false None None [] None))
                 (set_change_pure ct ity xs voi (up_pr v)))
          with (edit := fun sp c h => spec_change_item ct h0 sp c h false); try reflexivity.
        - now apply update_tail_set.
        - intros o'. apply (set_change_pure_scalar ct ity xs Hxs (up_pr v) (up_prn v Hnv) voi o').
        - now apply update_spec_set.
        - now apply run_update_ip.
      Qed.
    End InPlace.

    Section Copy.
      Hypothesis Hdnc : c_dnc k = false.
      Hypothesis Hpc : c_post_copy k = None.
      Hypothesis Hinit : assoc A_INITIALIZING d = None.
      Hypothesis Ha0 : a <> A_INITIALIZING.

      Theorem transform_item_set_copy_refines voi fo bi :
        vscalar voi = true -> fail_at s = None -> fo_ok fo -> ident_on_eq ct xs voi = true ->
        (forall v', trp fo voi = Ok v' -> set_key_free ct xs v' = true) ->
        copy_refines_spec ct h0 s l (HTransformItem a) (mkh [voi] false true VMissing false bi None [] fo)
                          (STransformItem a) (mkah [abs0 voi] false true AMissing false bi None [] fo).
      Proof.
        intros Hv Hfa Hfo Hid Hkf. unfold copy_refines_spec.
        apply (fc_whole_gen ct h0 l a c d k sp s lc (OSet xs) Hl Hc Ha Hd Hdnc Hpc Hni stc_coll Hfld Hlc Hxs Hflat Hinit Ha0
                 (transform_tail ct l a sp (mkh [voi] false true VMissing false bi None [] fo))
                 (set_change_pure ct ity xs voi (trp fo)))
          with (edit := fun sp c h => spec_change_item ct h0 sp c h true); try reflexivity.
        - now apply transform_tail_set.
        - intros o'. apply (set_change_pure_scalar ct ity xs Hxs (trp fo) (tr_prn fo Hfo) voi o').
        - now apply transform_spec_set.
        - now apply run_transform_cp.
      Qed.

      Theorem update_item_set_copy_refines voi v :
        a_prepare_item sp = None -> spec_of_ty_strict ity = None ->
        vscalar voi = true -> nonref v = true -> ident_on_eq ct xs voi = true ->
        (forall v', up_pr v voi = Ok v' -> set_key_free ct xs v' = true) ->
        copy_refines_spec ct h0 s l (HUpdateItem a) (mkh [voi; v] false true VMissing false None None [] None)
                          (SUpdateItem a) (mkah [abs0 voi; abs0 v] false true AMissing false None None [] None).
      Proof.
        intros Hprep Hstrict Hv Hnv Hid Hkf. unfold copy_refines_spec.
        apply (fc_whole_gen ct h0 l a c d k sp s lc (OSet xs) Hl Hc Ha Hd Hdnc Hpc Hni stc_coll Hfld Hlc Hxs Hflat Hinit Ha0
                 (update_tail ct l a sp (mkh [voi; v] false true VMissing false None None [] None))
                 (set_change_pure ct ity xs voi (up_pr v)))
          with (edit := fun sp c h => spec_change_item ct h0 sp c h false); try reflexivity.
        - now apply update_tail_set.
        - intros o'. apply (set_change_pure_scalar ct ity xs Hxs (up_pr v) (up_prn v Hnv) voi o').
        - now apply update_spec_set.
        - now apply run_update_cp.
      Qed.
    End Copy.
  End SetT.
End ChangeThms.

(* ------------------------------------------------------------------ *)
(** * with_<item> in place on a list attribute of scalars, through the frame *)

Theorem with_item_list_inplace_refines2 ct h0 l a c d k sp s lc xs ity :
  nth_error (heap s) l = Some (OInst c d) -> lookup_cls ct c = Some k -> lookup_attr k a = Some sp ->
  NoDup (map fst d) -> c_frozen k = false -> no_dep k a ->
  a_ty sp = TList ity -> a_prepare_item sp = None -> spec_of_ty_strict ity = None -> ty_depth ity < FUEL ->
  assoc a d = Some (VRef lc) -> nth_error (heap s) lc = Some (OList xs) -> forallb nonref xs = true ->
  flat_fields (heap s) d -> (forall b w, In (b, w) d -> b <> a -> w <> VRef lc) ->
  forall idx v ins, vscalar v = true -> (idx = VMissing \/ exists i, idx = VInt i) ->
  inplace_refines_spec ct h0 s l (HWithItem a) (mkh [v] true true idx ins None None [] None)
                       (SWithItem a) (mkah [abs0 v] true true (abs0 idx) ins None None [] None).
Proof.
  intros Hl Hc Ha Hd Hfz Hni Hty Hprep Hstrict Hdepth Hfld Hlc Hxs Hflat Hshare idx v ins Hv Hidx.
  unfold inplace_refines_spec.
  assert (Hcoll : ty_is_collection (a_ty sp) = true) by (now rewrite Hty).
  apply (ip_whole ct h0 l a c d k sp s lc (OList xs) Hl Hc Ha Hd Hfz Hni Hcoll Hfld Hlc Hxs Hflat Hshare
           (with_tail ct l a sp (mkh [v] true true idx ins None None [] None))
           (list_with_pure ct ity xs idx v ins))
    with (edit := spec_with_item ct h0); try reflexivity.
  - intros s1 lc1 H1 _. exists s1. split; auto. now apply with_tail_list.
  - intros o' E. apply (list_with_pure_scalar ct ity xs idx v ins o'); auto. now apply vscalar_nonref.
  - now apply list_with_pure_spec.
  - rewrite (run_with_tail ct l a (mkh [v] true true idx ins None None [] None) s eq_refl).
    rewrite (bind_ok _ _ _ _ _ (fr_spec_for ct l a c d k sp s Hl Hc Ha)). reflexivity.
Qed.
