(* The documentation of the generated helper methods as pure functions over
   abstract values (Inst/Abs.v).  Sources: docsite/docs/usage/methods/
   {index,scalars,toplevel,collections}.md, usage/{basic,advanced,
   special_types}.md, examples/*.md, the docstring of utils/mutation.py:
   mutate_value (the documented eight-step value procedure), and the text of
   properties C05/C06.  There is no heap, no identity, no copying and no
   frozen-guard lifting here: a state is a tree, an operation returns the
   tree the documentation promises (or the class of the error it promises).

   Outcomes: SOk a (the documented result), SErr e (documented error class),
   SAnyErr (must fail, class not documented), SAny (documentation silent:
   nothing is demanded).

   This file does not import the executable model (Inst/Model.v). *)
From Coq Require Import List ZArith Bool Arith Lia.
From SC Require Import Base.Res Base.PyList Inst.Heap Inst.ClassTable Inst.Canon Inst.Abs.
Import ListNotations.
Open Scope nat_scope.

Inductive sres (A : Type) : Type :=
| SOk (a : A) | SErr (e : err) | SAnyErr | SAny.
Arguments SOk {A} a.
Arguments SErr {A} e.
Arguments SAnyErr {A}.
Arguments SAny {A}.

Definition sbind {A B} (m : sres A) (k : A -> sres B) : sres B :=
  match m with SOk a => k a | SErr e => SErr e | SAnyErr => SAnyErr | SAny => SAny end.
Notation "x <~ m ;; k" := (sbind m (fun x => k)) (at level 61, m at next level, right associativity).

Fixpoint sfold {A B} (f : B -> A -> sres B) (l : list A) (b : B) : sres B :=
  match l with
  | [] => SOk b
  | x :: t => b' <~ f b x ;; sfold f t b'
  end.

Fixpoint smap {A B} (f : A -> sres B) (l : list A) : sres (list B) :=
  match l with
  | [] => SOk []
  | x :: t => y <~ f x ;; ys <~ smap f t ;; SOk (y :: ys)
  end.

(* ------------------------------------------------------------------ *)
(** * Values *)

Definition a_is_missing (v : aval) : bool := match v with AMissing => true | _ => false end.
Definition a_is_sentinel (v : aval) : bool :=
  match v with AMissing | AEmpty | AUnchanged => true | _ => false end.
(* "not given": the parameter was left at its default *)
Definition a_not_given (v : aval) : bool := match v with AMissing | AEmpty => true | _ => false end.
Definition a_is_dict (v : aval) : bool := match v with ADict _ => true | _ => false end.

(* Python == on abstract values (True == 1; containers by content; instances
   by the generated __eq__: same class (or subclass) and equal attributes) *)
Section PyEq.
  Variable ct : ctable.

  Definition scalar_eq (a b : aval) : option bool :=
    match a, b with
    | AMissing, AMissing | AEmpty, AEmpty | AUnchanged, AUnchanged | ANone, ANone => Some true
    | ABool x, ABool y => Some (Bool.eqb x y)
    | AInt x, AInt y => Some (Z.eqb x y)
    | ABool x, AInt y => Some (Z.eqb (if x then 1 else 0) y)
    | AInt x, ABool y => Some (Z.eqb x (if y then 1 else 0))
    | AStr x, AStr y => Some (Z.eqb x y)
    | AAtom x, AAtom y => Some (Z.eqb x y)
    | AList _, AList _ | ADict _, ADict _ | ASet _, ASet _ | AInst _ _, AInst _ _ => None
    | _, _ => Some false
    end.

  Fixpoint aeq (fuel : nat) (a b : aval) : bool :=
    match scalar_eq a b with
    | Some r => r
    | None =>
        match fuel with
        | O => false
        | S f =>
            match a, b with
            | AList xs, AList ys => list_eqb (aeq f) xs ys
            | ASet xs, ASet ys =>
                (length xs =? length ys) && forallb (fun x => existsb (aeq f x) ys) xs
            | ADict xs, ADict ys =>
                (length xs =? length ys) &&
                forallb (fun p => existsb (fun q => aeq f (fst p) (fst q) && aeq f (snd p) (snd q)) ys) xs
            | AInst ca da, AInst cb db =>
                is_subclass ct cb ca &&
                match lookup_cls ct ca with
                | Some k => forallb (fun sp => match assoc (a_name sp) da, assoc (a_name sp) db with
                                               | Some x, Some y => aeq f x y
                                               | None, None => true
                                               | _, _ => false end) (c_attrs k)
                | None => false
                end
            | _, _ => false
            end
        end
    end.
End PyEq.
Definition EQFUEL : nat := 24.
Definition py_eq (ct : ctable) (a b : aval) : bool := aeq ct EQFUEL a b.

Definition a_hashable (v : aval) : bool :=
  match v with AList _ | ADict _ | ASet _ | AInst _ _ | ABad => false | _ => true end.

(* canonical order of set elements (mirrors Canon.atom_key) *)
Definition akey (v : aval) : Z :=
  match v with
  | AMissing => 0 | AEmpty => 1 | AUnchanged => 2 | ANone => 3
  | ABool b => 10 + (if b then 1 else 0)
  | AInt z => 100000 + z
  | AStr z => 300000 + z
  | AAtom z => 500000 + z
  | _ => 900000
  end%Z.

(* the declared annotation accepts the value (declarative twin of check_type) *)
Fixpoint conforms (ct : ctable) (t : ty) (v : aval) {struct t} : bool :=
  match t with
  | TAny => true
  | TInt => match v with AInt _ | ABool _ => true | _ => false end
  | TBool => match v with ABool _ => true | _ => false end
  | TStr => match v with AStr _ => true | _ => false end
  | TNoneT => match v with ANone => true | _ => false end
  | TOpt t' => match v with ANone => true | _ => conforms ct t' v end
  | TUnion a b => conforms ct a v || conforms ct b v
  | TList t' => match v with AList xs => forallb (conforms ct t') xs | _ => false end
  | TSet t' => match v with ASet xs => forallb (conforms ct t') xs | _ => false end
  | TDict tk tv => match v with
                   | ADict kvs => forallb (fun p => conforms ct tk (fst p) && conforms ct tv (snd p)) kvs
                   | _ => false end
  | TSpec c => match v with AInst c' _ => is_subclass ct c' c | _ => false end
  end.

(* ------------------------------------------------------------------ *)
(** * User functions: the pool of pure functions, on abstract values *)

Definition afn (f : fn) (v : aval) : sres aval :=
  match f with
  | FId => SOk v
  | FAddInt z => match v with
                 | AInt x => SOk (AInt (x + z)%Z)
                 | ABool b => SOk (AInt ((if b then 1 else 0) + z)%Z)
                 | _ => SErr TypeErr end
  | FConst c => SOk (abs0 c)
  | FNewList xs => SOk (AList (map abs0 xs))
  | FAppended x => match v with
                   | AList ys => SOk (AList (ys ++ [abs0 x]))
                   | _ => SErr TypeErr end
  | FDictOf k x => SOk (ADict [(AStr k, abs0 x)])
  | FRaise => SErr UserErr
  end.

(* ------------------------------------------------------------------ *)
(** * Records: fields sorted by attribute id *)

Fixpoint fset (a : aid) (v : aval) (d : list (aid * aval)) : list (aid * aval) :=
  match d with
  | [] => [(a, v)]
  | (b, w) :: t => if a =? b then (a, v) :: t
                   else if a <? b then (a, v) :: d
                   else (b, w) :: fset a v t
  end.
Definition fdel (a : aid) (d : list (aid * aval)) : list (aid * aval) :=
  filter (fun p => negb (fst p =? a)) d.
Definition fget (a : aid) (d : list (aid * aval)) : aval :=
  match assoc a d with Some v => v | None => AMissing end.
Definition fhas (a : aid) (d : list (aid * aval)) : bool :=
  match assoc a d with Some _ => true | None => false end.

(* ------------------------------------------------------------------ *)
(** * Plain containers with Python semantics (C06) *)

Definition int_of (v : aval) : option Z :=
  match v with AInt z => Some z | ABool true => Some 1%Z | ABool false => Some 0%Z | _ => None end.

(* list[i]: the position addressed by a (possibly negative) index *)
Definition seq_index (xs : list aval) (i : aval) : sres nat :=
  match int_of i with
  | None => SErr TypeErr                        (* list indices must be integers *)
  | Some z => match norm_index (zlen xs) z with
              | Some n => SOk n
              | None => SErr IndexErr end
  end.
(* list.index(v): the first element equal to v *)
Definition seq_find (ct : ctable) (xs : list aval) (v : aval) : sres nat :=
  match find_index (fun x => py_eq ct x v) xs with
  | Some n => SOk n
  | None => SErr ValueErr
  end.
(* the by-index defaulting rule: index unless the argument has the element type *)
Definition by_index_rule (ct : ctable) (ity : ty) (voi : aval) (bi : option bool) : bool :=
  match bi with Some b => b | None => negb (conforms ct ity voi) end.
Definition seq_locate (ct : ctable) (ity : ty) (xs : list aval) (voi : aval) (bi : option bool) : sres nat :=
  if by_index_rule ct ity voi bi then seq_index xs voi else seq_find ct xs voi.

(* dict: association list in insertion order, keys compared with == *)
Definition dict_get (ct : ctable) (kvs : list (aval * aval)) (k : aval) : option aval :=
  option_map snd (find (fun p => py_eq ct (fst p) k) kvs).
Definition dict_set (ct : ctable) (kvs : list (aval * aval)) (k v : aval) : list (aval * aval) :=
  if existsb (fun p => py_eq ct (fst p) k) kvs
  then map (fun p => if py_eq ct (fst p) k then (fst p, v) else p) kvs
  else kvs ++ [(k, v)].
Definition dict_del (ct : ctable) (kvs : list (aval * aval)) (k : aval) : list (aval * aval) :=
  filter (fun p => negb (py_eq ct (fst p) k)) kvs.

(* set: duplicate-free list kept in canonical order *)
Definition set_has (ct : ctable) (xs : list aval) (v : aval) : bool :=
  existsb (fun x => py_eq ct x v) xs.
Definition set_add (ct : ctable) (xs : list aval) (v : aval) : list aval :=
  if set_has ct xs v then xs else insert_by akey v xs.
Definition set_remove (ct : ctable) (xs : list aval) (v : aval) : list aval :=
  filter (fun x => negb (py_eq ct x v)) xs.

(* The element operations on plain containers.  `e` is the element already
   run through the element pipeline (preparer, keywords, transform). *)
Inductive elem_op :=
| EAppend (e : aval)                 (* list.append(e) *)
| ESetAt (n : nat) (e : aval)        (* list[n] = e, n a valid position *)
| EInsert (i : Z) (e : aval)         (* list.insert(i, e) *)
| EDelAt (n : nat)                   (* del list[n] *)
| EAssign (k e : aval)               (* dict[k] = e *)
| EDelKey (k : aval)                 (* del dict[k] *)
| EAdd (e : aval)                    (* set.add(e) *)
| EReplace (old e : aval)            (* set.discard(old); set.add(e) *)
| EDiscard (old : aval).             (* set.remove(old) *)

Definition spec_elem_op (ct : ctable) (o : elem_op) (c : aval) : sres aval :=
  match o, c with
  | EAppend e, AList xs => SOk (AList (xs ++ [e]))
  | ESetAt n e, AList xs => SOk (AList (set_at n e xs))
  | EInsert i e, AList xs => SOk (AList (insert_at (clamp_index (zlen xs) i) e xs))
  | EDelAt n, AList xs => SOk (AList (remove_at n xs))
  | EAssign k e, ADict kvs => SOk (ADict (dict_set ct kvs k e))
  | EDelKey k, ADict kvs => SOk (ADict (dict_del ct kvs k))
  | EAdd e, ASet xs => SOk (ASet (set_add ct xs e))
  | EReplace old e, ASet xs => SOk (ASet (set_add ct (set_remove ct xs old) e))
  | EDiscard old, ASet xs => SOk (ASet (set_remove ct xs old))
  | _, _ => SAny
  end.

(* ------------------------------------------------------------------ *)
(** * The class-level notions the documentation refers to *)

Definition STAR : aid := 99.   (* '*' in invalidated_by *)

Inductive sctor := SCSpec (c : cid) | SCTy (t : ty).
Definition ctor_for (t : ty) : sctor :=
  match spec_of_ty t with Some c => SCSpec c | None => SCTy t end.

Definition ctor_params (k : cls) : list aid := map a_name (filter a_init (c_attrs k)).
Definition in_names (a : aid) (l : list aid) : bool := existsb (fun n => n =? a) l.
Definition kw_get (a : aid) (kw : list (aid * aval)) : option aval := assoc a kw.
Definition kw_set (a : aid) (v : aval) (kw : list (aid * aval)) : list (aid * aval) := assoc_set a v kw.

Definition str_key (v : aval) : sres aid :=
  match v with AStr z => SOk (Z.to_nat z) | _ => SErr TypeErr end.   (* keywords must be strings *)

(* what a preparation step is made of *)
Inductive sprep :=
| SPNone
| SPAttr (f : fn)             (* the attribute preparer _prepare_<attr> *)
| SPItem (sp : attr_spec).    (* the item preparer _prepare_<item> + key promotion *)

(* requests to the mutually recursive part *)
Inductive scall :=
| SConstruct (c : cid) (pos : option aval) (kw : list (aid * aval))   (* C(pos, **kw) *)
| SSetAttr (x : aval) (a : aid) (v : aval)                            (* x.a = v, returns x *)
| SResetAttr (x : aval) (a : aid) (top : bool).                       (* del x.a, returns x *)

Section Core.
  Variable ct : ctable.
  Variable h0 : list obj.             (* the class-level default objects *)
  Variable rec : scall -> sres aval.

  Definition cls_for (c : cid) : sres cls :=
    match lookup_cls ct c with Some k => SOk k | None => SAny end.

  (* --- defaults: plain default, default factory, subclass override --- *)
  Definition fac_value (f : fac) : sres aval :=
    match f with
    | FacList xs => SOk (AList (map abs0 xs))
    | FacDict kvs => SOk (ADict (map (fun p => (abs0 (fst p), abs0 (snd p))) kvs))
    | FacSet xs => SOk (ASet (sort_by akey (map abs0 xs)))
    | FacInst c => rec (SConstruct c None [])
    end.
  (* AMissing: the class provides no default *)
  Definition default_of (k : cls) (sp : attr_spec) : sres aval :=
    match assoc (a_name sp) (c_overrides k) with
    | Some v => SOk (absv h0 v)
    | None => match a_factory sp with
              | Some f => fac_value f
              | None => SOk (absv h0 (a_default sp))
              end
    end.

  (* type() : an empty value of the declared type *)
  Definition empty_of (t : ty) : sres aval :=
    match t with
    | TInt => SOk (AInt 0%Z) | TStr => SOk (AStr 0%Z) | TBool => SOk (ABool false)
    | TNoneT => SOk ANone
    | TList _ => SOk (AList []) | TDict _ _ => SOk (ADict []) | TSet _ => SOk (ASet [])
    | TSpec c => rec (SConstruct c None [])
    | TAny | TOpt _ | TUnion _ _ => SErr TypeErr     (* cannot be instantiated *)
    end.

  Definition build (c : sctor) (kw : list (aid * aval)) : sres aval :=
    match c with
    | SCSpec cc => rec (SConstruct cc None kw)
    | SCTy t => match kw with [] => empty_of t | _ => SAnyErr end
    end.

  (* the item preparer, then promotion of a bare key to a keyed element *)
  Definition prepare_elem (sp : attr_spec) (item : aval) : sres aval :=
    item1 <~ (match a_prepare_item sp with Some f => afn f item | None => SOk item end) ;;
    let ity := item_type (a_ty sp) in
    match spec_of_ty_strict ity with
    | Some c =>
        k <~ cls_for c ;;
        match c_key k with
        | Some ka =>
            match lookup_attr k ka with
            | Some ksp =>
                if negb (a_is_missing item1) && negb (conforms ct ity item1) && conforms ct (a_ty ksp) item1
                then rec (SConstruct c (Some item1) [])
                else SOk item1
            | None => SOk item1 end
        | None => SOk item1 end
    | None => SOk item1
    end.

  Definition run_prep (p : sprep) (v : aval) : sres aval :=
    match p with
    | SPNone => SOk v
    | SPAttr f => afn f v
    | SPItem sp => prepare_elem sp v
    end.

  (* getattr(x, a, MISSING): the instance's own value, else the class-level one *)
  Definition read_attr (x : aval) (a : aid) : sres aval :=
    match x with
    | AInst c d =>
        match assoc a d with
        | Some v => SOk v
        | None => k <~ cls_for c ;;
                  match assoc a (c_overrides k) with
                  | Some v => SOk (absv h0 v)
                  | None => match lookup_attr k a with
                            | Some sp => SOk (absv h0 (a_default sp))
                            | None => SOk AMissing end
                  end
        end
    | _ => SOk AMissing
    end.

  (* The documented value procedure (docstring of mutate_value):
     1 take the new value if one is given, else the old one (nothing when
       `replace`); 2 run a given new value through the preparer; 3 a dict
       given where the type does not accept one is a dict of constructor
       arguments; 4 nothing there: build one from as many keywords as the
       constructor takes; 5 set the remaining keywords; 6 transform;
       7 transform attributes. *)
  Definition spec_value (old new : aval) (replace : bool) (prep : sprep)
             (kws : option (list (aid * aval))) (ctor : option sctor) (ety : option ty)
             (f : option fn) (kwfn : list (aid * fn)) : sres aval :=
    match new with
    | AUnchanged => SOk old
    | _ =>
      let given := negb (a_not_given new) in
      (* the preparer sees a given new value; when starting from scratch (`replace`)
         it is also asked to populate the value and is handed MISSING *)
      base <~ (if given then run_prep prep new
               else if replace then run_prep prep AMissing else SOk old) ;;
      let attrs := match kws with Some l => l | None => [] end in
      let as_kwargs := match ctor, ety with
                       | Some _, Some t => a_is_dict base && negb (conforms ct t (ADict []))
                       | _, _ => false end in
      r <~ (if as_kwargs then
              match ctor, base with
              | Some c, ADict kvs =>
                  kw <~ smap (fun p => a <~ str_key (fst p) ;; SOk (a, snd p)) kvs ;;
                  v <~ build c (fold_left (fun acc p => kw_set (fst p) (snd p) acc) kw attrs) ;;
                  SOk (v, [])
              | _, _ => SAny end
            else
              match ctor with
              | Some c =>
                  if a_is_missing base then
                    match c with
                    | SCSpec cc =>
                        k <~ cls_for cc ;;
                        let ps := ctor_params k in
                        v <~ build c (filter (fun p => in_names (fst p) ps && negb (a_is_missing (snd p))) attrs) ;;
                        SOk (v, match kws with Some _ => ps | None => [] end)
                    | SCTy _ => v <~ build c [] ;; SOk (v, [])
                    end
                  else SOk (base, [])
              | None => SOk (base, []) end) ;;
      let '(v, used) := r in
      (* 5: the keywords not consumed by a constructor are assigned (so they win over dict entries) *)
      v5 <~ (match attrs with
             | [] => SOk v
             | _ => match v with
                    | ANone | AMissing => SErr ValueErr     (* keywords on nothing *)
                    | _ => sfold (fun x p => if in_names (fst p) used || a_is_missing (snd p) then SOk x
                                             else rec (SSetAttr x (fst p) (snd p)))
                                 attrs v
                    end
             end) ;;
      v6 <~ (match f with Some g => afn g v5 | None => SOk v5 end) ;;
      sfold (fun x p => cur <~ read_attr x (fst p) ;;
                        t <~ afn (snd p) cur ;;
                        if a_is_missing t then SOk x else rec (SSetAttr x (fst p) t))
            kwfn v6
    end.

  (* --- collection normalisation of a value assigned to a collection attribute --- *)
  Definition elem_value (sp : attr_spec) (old item : aval) : sres aval :=
    let ity := item_type (a_ty sp) in
    e <~ spec_value old item true (SPItem sp) None (Some (ctor_for ity)) (Some ity) None [] ;;
    if conforms ct ity e then SOk e else SErr ValueErr.

  Definition key_ty (t : ty) : ty := match t with TDict k _ => k | _ => TAny end.

  Definition normalise (sp : attr_spec) (v : aval) : sres aval :=
    let t := a_ty sp in
    base <~ (match v with ANone | AMissing => empty_of t | _ => SOk v end) ;;
    if conforms ct t base then
      match a_prepare_item sp, base with
      | None, _ => SOk base
      | Some _, AList xs => ys <~ smap (fun x => e <~ prepare_elem sp x ;;
                                                if conforms ct (item_type t) e then SOk e else SErr ValueErr) xs ;;
                            SOk (AList ys)
      | Some _, ADict kvs => ys <~ smap (fun p => e <~ elem_value sp (snd p) (snd p) ;; SOk (fst p, e)) kvs ;;
                             SOk (ADict ys)
      | Some _, ASet xs => ys <~ sfold (fun acc x => e <~ prepare_elem sp x ;;
                                                     if conforms ct (item_type t) e
                                                     then SOk (set_add ct (set_remove ct acc x) e)
                                                     else SErr ValueErr) xs xs ;;
                           SOk (ASet ys)
      | Some _, _ => SOk base
      end
    else
      (* not of the declared type: its items are added one by one to a new collection *)
      match t, base with
      | TList _, AList xs | TList _, ASet xs =>
          ys <~ sfold (fun acc x => e <~ elem_value sp AMissing x ;; SOk (acc ++ [e])) xs [] ;; SOk (AList ys)
      | TList _, ADict kvs =>
          ys <~ sfold (fun acc p => e <~ elem_value sp AMissing (fst p) ;; SOk (acc ++ [e])) kvs [] ;; SOk (AList ys)
      | TSet _, AList xs | TSet _, ASet xs =>
          ys <~ sfold (fun acc x => e <~ elem_value sp AMissing x ;;
                                    if a_hashable e then SOk (set_add ct acc e) else SErr TypeErr) xs [] ;;
          SOk (ASet ys)
      | TSet _, ADict kvs =>
          ys <~ sfold (fun acc p => e <~ elem_value sp AMissing (fst p) ;;
                                    if a_hashable e then SOk (set_add ct acc e) else SErr TypeErr) kvs [] ;;
          SOk (ASet ys)
      | TDict tk _, ADict kvs =>
          ys <~ sfold (fun acc p =>
                         e <~ elem_value sp (match dict_get ct acc (fst p) with Some o => o | None => AMissing end) (snd p) ;;
                         if conforms ct tk (fst p) then SOk (dict_set ct acc (fst p) e) else SErr ValueErr)
                      kvs [] ;;
          SOk (ADict ys)
      | _, _ => SErr TypeErr     (* not iterable / not a mapping *)
      end.

  (* the prepared value of `x.a = v` / with_<a>(v, **kws) *)
  Definition prepared (sp : attr_spec) (v : aval) (kws : option (list (aid * aval))) : sres aval :=
    match v with
    | AUnchanged => SOk AUnchanged          (* "whatever value is currently set should remain unchanged" *)
    | _ =>
        v1 <~ spec_value AMissing v false
                 (match a_prepare sp with Some f => SPAttr f | None => SPNone end)
                 kws (Some (ctor_for (a_ty sp))) (Some (a_ty sp)) None [] ;;
        if ty_is_collection (a_ty sp) then normalise sp v1 else SOk v1
    end.

  (* --- invalidation: every attribute that depends on `a` -- directly
     (invalidated_by names `a` or '*') or through a chain of such
     dependencies -- goes back to its default, once --- *)
  Definition depends_on (sp : attr_spec) (a : aid) : bool :=
    existsb (fun x => (x =? a) || (x =? STAR)) (a_inv_by sp).

  Fixpoint inval_close (fuel : nat) (k : cls) (pending seen acc : list aid) : list aid :=
    match fuel with
    | O => acc
    | S f =>
        match pending with
        | [] => acc
        | p :: rest =>
            let new := fold_left (fun l sp => if depends_on sp p && negb (in_names (a_name sp) (seen ++ l))
                                              then l ++ [a_name sp] else l) (c_attrs k) [] in
            inval_close f k (rest ++ new) (seen ++ new) (acc ++ new)
        end
    end.
  Definition invalidatees (k : cls) (a : aid) : list aid :=
    inval_close (S (length (c_attrs k))) k [a] [a] [].

  Definition invalidate (x : aval) (a : aid) : sres aval :=
    match x with
    | AInst c _ =>
        k <~ cls_for c ;;
        sfold (fun y b => rec (SResetAttr y b false)) (invalidatees k a) x
    | _ => SOk x
    end.

  (* store a prepared value: sentinels change nothing; the type is checked;
     dependants are invalidated *)
  Definition store (x : aval) (sp : attr_spec) (v : aval) (inval : bool) : sres aval :=
    match x with
    | AInst c d =>
        if a_is_sentinel v then SOk x
        else if negb (conforms ct (a_ty sp) v) then SErr TypeErr
        else let x' := AInst c (fset (a_name sp) v d) in
             if inval then invalidate x' (a_name sp) else SOk x'
    | _ => SAny
    end.

  (* x.a = v *)
  Definition set_attr (x : aval) (a : aid) (v : aval) : sres aval :=
    match x with
    | AInst c d =>
        k <~ cls_for c ;;
        match lookup_attr k a with
        | Some sp => pv <~ prepared sp v None ;; store x sp pv true
        | None => SAny                       (* not a managed attribute *)
        end
    | _ => SAnyErr                           (* attribute assignment on a non-instance *)
    end.

  (* the attribute goes back to the (prepared) default when the class has one, otherwise
     it disappears.  `top`: a deletion requested by the user (del x.a,
     reset_<a>, reset): its dependants are invalidated; deleting what is not
     there is an AttributeError.  Not `top`: a reset performed as part of an
     invalidation: no further invalidation, nothing-to-delete is fine. *)
  Definition reset_attr (x : aval) (a : aid) (top : bool) : sres aval :=
    match x with
    | AInst c d =>
        k <~ cls_for c ;;
        match lookup_attr k a with
        | Some sp =>
            dv <~ default_of k sp ;;
            if a_is_missing dv then
              if fhas a d then (if top then invalidate (AInst c (fdel a d)) a else SOk (AInst c (fdel a d)))
              else if top then SErr AttrErr else SOk x
            else
              (* what a new instance would hold: the default run through the preparers *)
              pv <~ prepared sp dv None ;; store x sp pv top
        | None => SAny
        end
    | _ => SAny
    end.

  (* C(pos, **kw): every keyword must be a constructor parameter; the key may
     be given positionally and is required unless it has a default; each
     attribute gets the prepared keyword value or the prepared default *)
  Definition construct (c : cid) (pos : option aval) (kw0 : list (aid * aval)) : sres aval :=
    k <~ cls_for c ;;
    kw <~ (match pos, c_key k with
           | None, _ => SOk kw0
           | Some v, Some ka => if fhas ka kw0 then SErr TypeErr else SOk ((ka, v) :: kw0)
           | Some _, None => SErr TypeErr end) ;;
    if negb (forallb (fun p => in_names (fst p) (ctor_params k)
                               || match c_key k with Some ka => ka =? fst p | None => false end) kw)
    then SErr TypeErr else
    if negb (forallb a_init (c_attrs k)) then SAny else
    key_ok <~ (match c_key k with
               | Some ka => match lookup_attr k ka with
                            | Some ksp => if a_is_missing (absv h0 (a_default ksp))
                                             && match a_factory ksp with None => true | Some _ => false end
                                             && negb (fhas ka kw)
                                          then SErr TypeErr else SOk tt
                            | None => SOk tt end
               | None => SOk tt end) ;;
    x <~ sfold (fun x sp =>
                  v <~ (match kw_get (a_name sp) kw with
                        | Some v => if a_is_missing v then default_of k sp else SOk v
                        | None => default_of k sp end) ;;
                  if a_is_missing v then SOk x else
                  pv <~ prepared sp v None ;; store x sp pv false)
               (c_attrs k) (AInst c []) ;;
    match c_post_init k with
    | Some FRaise => SErr UserErr
    | _ => SOk x
    end.

  Definition sbody (q : scall) : sres aval :=
    match q with
    | SConstruct c pos kw => construct c pos kw
    | SSetAttr x a v => set_attr x a v
    | SResetAttr x a top => reset_attr x a top
    end.
End Core.

Fixpoint sexec (ct : ctable) (h0 : list obj) (fuel : nat) (q : scall) : sres aval :=
  match fuel with
  | O => SAny
  | S f => sbody ct h0 (sexec ct h0 f) q
  end.

(* ------------------------------------------------------------------ *)
(** * The helper methods *)

Inductive shelper :=
| SWith (a : aid) | SUpdate (a : aid) | STransform (a : aid) | SReset (a : aid)
| SWithItem (a : aid) | SUpdateItem (a : aid) | STransformItem (a : aid) | SWithoutItem (a : aid)
| SUpdateTop | STransformTop | SResetTop
| SSetAttrOp (a : aid)      (* x.a = v *)
| SDelAttrOp (a : aid).     (* del x.a *)

Record ahargs := mkah {
  ah_pos : list aval;
  ah_inplace : bool; ah_if : bool;
  ah_index : aval;                       (* _index (AMissing: not given) *)
  ah_insert : bool;
  ah_by_index : option bool;
  ah_kw : option (list (aid * aval));
  ah_kwfn : list (aid * fn);
  ah_fn : option fn }.

Definition apos0 (h : ahargs) : aval := nth 0 (ah_pos h) AMissing.
Definition apos1 (h : ahargs) : aval := nth 1 (ah_pos h) AMissing.

Section Helpers.
  Variable ct : ctable.
  Variable h0 : list obj.
  Definition SFUEL : nat := 30.
  Notation rec := (sexec ct h0 SFUEL).

  Definition frozen_class (c : cid) : bool :=
    match lookup_cls ct c with Some k => c_frozen k | None => false end.

  (* with_<a>(v, **kws): a replaced by the prepared value *)
  Definition spec_with (x : aval) (a : aid) (v : aval) (kws : option (list (aid * aval))) : sres aval :=
    match x with
    | AInst c d =>
        k <~ cls_for ct c ;;
        match lookup_attr k a with
        | Some sp => pv <~ prepared ct h0 rec sp v kws ;; store ct rec x sp pv true
        | None => SErr AttrErr end
    | _ => SAny
    end.

  Definition attr_of (x : aval) (a : aid) : sres (attr_spec * aval) :=
    match x with
    | AInst c d =>
        k <~ cls_for ct c ;;
        match lookup_attr k a with
        | Some sp => cur <~ read_attr ct h0 x a ;; SOk (sp, cur)
        | None => SErr AttrErr end
    | _ => SAny
    end.

  (* update_<a>(v, **kws): keywords are merged into the existing value, then stored as with_<a> *)
  Definition spec_update (x : aval) (a : aid) (v : aval) (kws : option (list (aid * aval))) : sres aval :=
    match v with
    | AUnchanged => SOk x
    | _ =>
      r <~ attr_of x a ;; let '(sp, cur) := r in
      nv <~ spec_value ct h0 rec cur v false SPNone kws (Some (ctor_for (a_ty sp))) (Some (a_ty sp)) None [] ;;
      spec_with x a nv None
    end.

  (* transform_<a>(f, **fs): f(old) (and per-attribute transforms), stored as with_<a> *)
  Definition spec_transform (x : aval) (a : aid) (f : option fn) (kwfn : list (aid * fn)) : sres aval :=
    r <~ attr_of x a ;; let '(sp, cur) := r in
    nv <~ spec_value ct h0 rec cur AMissing false SPNone None (Some (ctor_for (a_ty sp))) (Some (a_ty sp)) f kwfn ;;
    spec_with x a nv None.

  (* reset_<a>() *)
  Definition spec_reset_attr (x : aval) (a : aid) : sres aval := reset_attr ct h0 rec x a true.

  (* reset(): every managed attribute, in declaration order; nothing-to-delete is not an error *)
  Definition spec_reset (x : aval) : sres aval :=
    match x with
    | AInst c _ =>
        k <~ cls_for ct c ;;
        sfold (fun y sp => match reset_attr ct h0 rec y (a_name sp) true with
                           | SErr AttrErr => SOk y
                           | r => r end) (c_attrs k) x
    | _ => SAny
    end.

  (* update(v, **kws): v (or the receiver) with the keywords assigned *)
  Definition spec_update_top (x : aval) (v : aval) (kws : option (list (aid * aval))) : sres aval :=
    spec_value ct h0 rec x v false SPNone kws None None None [].

  (* transform(f, **fs): f(self), then the attribute transforms *)
  Definition spec_transform_top (x : aval) (f : option fn) (kwfn : list (aid * fn)) : sres aval :=
    spec_value ct h0 rec x AMissing false SPNone None None None f kwfn.

  (* ---------------- element helpers ---------------- *)
  Definition coll_of (sp : attr_spec) (cur : aval) : sres aval :=
    if a_is_missing cur then empty_of rec (a_ty sp) else SOk cur.   (* created when missing *)

  (* the element pipeline: preparer / promotion for a given new element,
     keywords build (replace) or update (not replace) it, transform; the
     result must have the element type *)
  Definition elem_pipeline (sp : attr_spec) (old new : aval) (replace : bool)
             (kws : option (list (aid * aval))) (f : option fn) (kwfn : list (aid * fn)) : sres aval :=
    let ity := item_type (a_ty sp) in
    e <~ spec_value ct h0 rec old new replace (SPItem sp) kws (Some (ctor_for ity)) (Some ity) f kwfn ;;
    if conforms ct ity e then SOk e else SErr ValueErr.

  Definition apply_elem (o : elem_op) (c : aval) : sres aval := spec_elem_op ct o c.

  Definition spec_with_item (sp : attr_spec) (c : aval) (h : ahargs) : sres aval :=
    match a_ty sp, c with
    | TList _, AList xs =>
        if a_is_missing (ah_index h) then
          e <~ elem_pipeline sp AMissing (apos0 h) true (ah_kw h) None [] ;; apply_elem (EAppend e) c
        else if ah_insert h then
          match int_of (ah_index h) with
          | None => SErr TypeErr
          | Some i =>
              let old := match norm_index (zlen xs) i with
                         | Some n => nth n xs AMissing | None => AMissing end in
              e <~ elem_pipeline sp old (apos0 h) true (ah_kw h) None [] ;; apply_elem (EInsert i e) c
          end
        else
          n <~ seq_index xs (ah_index h) ;;
          e <~ elem_pipeline sp (nth n xs AMissing) (apos0 h) true (ah_kw h) None [] ;; apply_elem (ESetAt n e) c
    | TDict tk _, ADict kvs =>
        let key := match ah_pos h with [] => ANone | k :: _ => k end in
        if negb (a_hashable key) then SErr TypeErr else
        let old := match dict_get ct kvs key with Some o => o | None => AMissing end in
        e <~ elem_pipeline sp old (apos1 h) true (ah_kw h) None [] ;;
        if conforms ct tk key then apply_elem (EAssign key e) c else SErr ValueErr
    | TSet _, ASet xs =>
        e <~ elem_pipeline sp AMissing (apos0 h) true (ah_kw h) None [] ;;
        if a_hashable e then apply_elem (EAdd e) c else SErr TypeErr
    | _, _ => SAny
    end.

  (* update_<item>(target, new, **kws) / transform_<item>(target, f, **fs) *)
  Definition spec_change_item (sp : attr_spec) (c : aval) (h : ahargs) (transform : bool) : sres aval :=
    let voi := apos0 h in
    let new := if transform then AMissing else apos1 h in
    let kws := if transform then None else ah_kw h in
    let f := if transform then ah_fn h else None in
    let kwfn := if transform then ah_kwfn h else [] in
    if a_is_missing voi then SAny else
    match a_ty sp, c with
    | TList ity, AList xs =>
        n <~ seq_locate ct ity xs voi (ah_by_index h) ;;
        e <~ elem_pipeline sp (nth n xs AMissing) new false kws f kwfn ;; apply_elem (ESetAt n e) c
    | TDict tk _, ADict kvs =>
        if negb (a_hashable voi) then SErr TypeErr else
        match dict_get ct kvs voi with
        | None => SErr KeyErr
        | Some old => e <~ elem_pipeline sp old new false kws f kwfn ;;
                      if conforms ct tk voi then apply_elem (EAssign voi e) c else SErr ValueErr
        end
    | TSet _, ASet xs =>
        if negb (a_hashable voi) then SErr TypeErr else
        match find (fun x => py_eq ct x voi) xs with
        | None => SErr ValueErr
        | Some old => e <~ elem_pipeline sp old new false kws f kwfn ;;
                      if a_hashable e then apply_elem (EReplace voi e) c else SErr TypeErr
        end
    | _, _ => SAny
    end.

  Definition spec_without_item (sp : attr_spec) (c : aval) (h : ahargs) : sres aval :=
    let voi := apos0 h in
    match a_ty sp, c with
    | TList ity, AList xs =>
        if a_is_missing voi then SOk c else
        n <~ seq_locate ct ity xs voi (ah_by_index h) ;; apply_elem (EDelAt n) c
    | TDict _ _, ADict kvs =>
        if negb (a_hashable voi) then SErr TypeErr else
        match dict_get ct kvs voi with
        | None => SErr KeyErr
        | Some _ => apply_elem (EDelKey voi) c end
    | TSet _, ASet xs =>
        if negb (a_hashable voi) then SErr TypeErr else
        if set_has ct xs voi then apply_elem (EDiscard voi) c else SErr ValueErr
    | _, _ => SAny
    end.

  (* an element helper: the attribute's container (created when missing)
     edited as above and stored back; nothing else changes, nothing is
     invalidated except the attribute's dependants *)
  Definition spec_elem_helper (x : aval) (a : aid) (h : ahargs)
             (edit : attr_spec -> aval -> ahargs -> sres aval) : sres aval :=
    r <~ attr_of x a ;; let '(sp, cur) := r in
    match ty_is_collection (a_ty sp) with
    | false => SErr AttrErr
    | true =>
        c <~ coll_of sp cur ;;
        c' <~ edit sp c h ;;
        match x with
        | AInst cc d => invalidate ct rec (AInst cc (fset a c' d)) a
        | _ => SAny end
    end.

  (* which calls must hand back the receiver itself *)
  Definition returns_receiver (hp : shelper) (h : ahargs) : bool :=
    negb (ah_if h) || ah_inplace h ||
    match hp with
    | SWith _ => match apos0 h with AUnchanged => true | _ => false end
    | SUpdateTop => match apos0 h with
                    | AUnchanged => true
                    | AMissing | AEmpty => match ah_kw h with None | Some [] => true | _ => false end
                    | _ => false end
    | _ => false
    end.

  Definition mutates_in_place (hp : shelper) (h : ahargs) : bool :=
    match hp with
    | SSetAttrOp _ | SDelAttrOp _ => true
    | _ => ah_inplace h && ah_if h
    end.

  (* the documented result, frozen-ness aside *)
  Definition spec_unfrozen (x : aval) (hp : shelper) (h : ahargs) : sres aval :=
    match hp with
    | SWith a => spec_with x a (apos0 h) (ah_kw h)
    | SSetAttrOp a => spec_with x a (apos0 h) None
    | SUpdate a => spec_update x a (apos0 h) (ah_kw h)
    | STransform a => spec_transform x a (ah_fn h) (ah_kwfn h)
    | SReset a => spec_reset_attr x a
    | SDelAttrOp a => spec_reset_attr x a
    | SResetTop => spec_reset x
    | SUpdateTop => spec_update_top x (apos0 h) (ah_kw h)
    | STransformTop => spec_transform_top x (ah_fn h) (ah_kwfn h)
    | SWithItem a => spec_elem_helper x a h spec_with_item
    | SUpdateItem a => spec_elem_helper x a h (fun sp c h => spec_change_item sp c h false)
    | STransformItem a => spec_elem_helper x a h (fun sp c h => spec_change_item sp c h true)
    | SWithoutItem a => spec_elem_helper x a h spec_without_item
    end.

  Definition spec_helper (x : aval) (hp : shelper) (h : ahargs) : sres aval :=
    match x with
    | AInst c _ =>
        if negb (ah_if h) then SOk x else
        let r := spec_unfrozen x hp h in
        if mutates_in_place hp h && frozen_class c then
          (* a frozen instance cannot be mutated in place: the call must fail, with
             FrozenInstanceError unless it fails for another documented reason as well;
             calls that change nothing by definition (UNCHANGED) are let through *)
          match hp, apos0 h with
          | SWith _, AUnchanged | SSetAttrOp _, AUnchanged | SUpdate _, AUnchanged => SOk x
          | SUpdateTop, _ | STransformTop, _ => SAny      (* may or may not assign: left to C07 *)
          | _, _ => match r with SOk _ => SErr FrozenErr | SAny => SAny | _ => SAnyErr end
          end
        else r
    | _ => SAny
    end.
End Helpers.
