(* C03, ownership, part 2: whole operations.

   A small Hoare logic `T P m Q E` over the state-and-exception monad
   (precondition P, postcondition Q on Ok, E on Err; all on heaps), and the
   preservation of `Inv = TI /\ Owned` by whole operations on *leaf collection
   attributes*: attributes annotated List/Set/Dict of scalar element types
   (int/str/bool/None, Optional/Union of those) without `_prepare_<attr>` /
   `_prepare_<item>` callbacks, in tables without `invalidated_by`.  On such
   attributes the mutually recursive core only recurses through
   `mutate_value` calls that are "quiet" (they allocate at most one empty
   collection), which is proved once (`mv_quiet`) and used for every fuel. *)
From Coq Require Import List ZArith Bool Arith Lia.
From SC Require Import Base.Res Base.PyList Inst.Heap Inst.ClassTable Inst.Model Inst.Framed
  Inst.TypeProofs Inst.OwnProofs.
Import ListNotations.
Open Scope nat_scope.
Set Warnings "-unused-intro-pattern".
#[local] Opaque FUEL.

(* ------------------------------------------------------------------ *)
(** * Triples *)
Definition T {A} (P : heap_t -> Prop) (m : M A) (Q : A -> heap_t -> Prop) (E : heap_t -> Prop) : Prop :=
  forall s, P (heap s) -> match m s with (Ok a, s') => Q a (heap s') | (Err _, s') => E (heap s') end.

Lemma T_ret {A} (P : heap_t -> Prop) (a : A) (Q : A -> heap_t -> Prop) (E : heap_t -> Prop) : (forall h, P h -> Q a h) -> T P (ret a) Q E.
Proof. intros H s Ps. simpl. auto. Qed.

Lemma T_fail {A} (P : heap_t -> Prop) e (Q : A -> heap_t -> Prop) (E : heap_t -> Prop) :
  (forall h, P h -> E h) -> T P (fail e) Q E.
Proof. intros H s Ps. simpl. auto. Qed.

Lemma T_bind {A B} (P : heap_t -> Prop) (m : M A) (k : A -> M B) (Q : A -> heap_t -> Prop) (R : B -> heap_t -> Prop) (E : heap_t -> Prop) :
  T P m Q E -> (forall a, T (Q a) (k a) R E) -> T P (bind m k) R E.
Proof.
  intros Hm Hk s Ps. unfold bind. specialize (Hm s Ps).
  destruct (m s) as [[a|e] s1]; auto. apply Hk; auto.
Qed.

Lemma T_conseq {A} (P P' : heap_t -> Prop) (m : M A) (Q Q' : A -> heap_t -> Prop) (E E' : heap_t -> Prop) :
  T P m Q E -> (forall h, P' h -> P h) -> (forall a h, Q a h -> Q' a h) -> (forall h, E h -> E' h) ->
  T P' m Q' E'.
Proof.
  intros H HP HQ HE s Ps. specialize (H s (HP _ Ps)). destruct (m s) as [[a|e] s1]; auto.
Qed.

Lemma T_pre {A} (P P' : heap_t -> Prop) (m : M A) (Q : A -> heap_t -> Prop) (E : heap_t -> Prop) : (forall h, P' h -> P h) -> T P m Q E -> T P' m Q E.
Proof. intros HP H. eapply T_conseq; eauto. Qed.

Lemma T_post {A} (P : heap_t -> Prop) (m : M A) (Q Q' : A -> heap_t -> Prop) (E : heap_t -> Prop) :
  (forall a h, Q a h -> Q' a h) -> T P m Q E -> T P m Q' E.
Proof. intros HQ H. eapply T_conseq; eauto. Qed.

(* computations that leave the heap alone *)
Definition hpure {A} (m : M A) : Prop := forall s, heap (snd (m s)) = heap s.

Lemma T_hpure {A} (P : heap_t -> Prop) (m : M A) (E : heap_t -> Prop) :
  hpure m -> (forall h, P h -> E h) -> T P m (fun _ h => P h) E.
Proof.
  intros Hp HE s Ps. specialize (Hp s). destruct (m s) as [[a|e] s1]; simpl in Hp; rewrite Hp; auto.
Qed.

Lemma hpure_ret {A} (a : A) : hpure (ret a).
Proof. intro s. reflexivity. Qed.
Lemma hpure_fail {A} e : hpure (@fail A e).
Proof. intro s. reflexivity. Qed.
Lemma hpure_bind {A B} (m : M A) (k : A -> M B) : hpure m -> (forall a, hpure (k a)) -> hpure (bind m k).
Proof.
  intros Hm Hk s. unfold bind. specialize (Hm s). destruct (m s) as [[a|e] s1]; simpl in *; auto.
  rewrite Hk. exact Hm.
Qed.
Lemma hpure_read l : hpure (read l).
Proof. intro s. unfold read. destruct (nth_error (heap s) l); reflexivity. Qed.
Lemma hpure_tick : hpure tick.
Proof. intro s. unfold tick. destruct (fail_at s) as [k|]; [destruct (k =? S (ncalls s))|]; reflexivity. Qed.
Lemma hpure_get_heap : hpure get_heap.
Proof. intro s. reflexivity. Qed.
Lemma hpure_mapM {A B} (f : A -> M B) l : (forall x, hpure (f x)) -> hpure (mapM f l).
Proof.
  intro H. induction l as [|x t IH]; simpl; [apply hpure_ret|].
  apply hpure_bind; auto. intros y. apply hpure_bind; auto. intros ys. apply hpure_ret.
Qed.

Create HintDb hp.
#[export] Hint Resolve hpure_ret hpure_fail hpure_read hpure_tick hpure_get_heap : hp.

Ltac hpstep :=
  lazymatch goal with
  | |- hpure (ret _) => apply hpure_ret
  | |- hpure (fail _) => apply hpure_fail
  | |- hpure (bind _ _) => apply hpure_bind; [|intros]
  | |- hpure (let _ := _ in _) => cbv zeta
  | |- hpure (if ?c then _ else _) => destruct c
  | |- hpure (match ?x with _ => _ end) => destruct x
  | |- hpure _ => solve [eauto with hp]
  end.
Ltac hpgo := repeat hpstep.

Lemma T_read (P : heap_t -> Prop) l (E : heap_t -> Prop) :
  (forall h, P h -> E h) -> T P (read l) (fun o h => P h /\ nth_error h l = Some o) E.
Proof. intros HE s Ps. unfold read. destruct (nth_error (heap s) l) eqn:N; simpl; auto. Qed.

Lemma T_alloc o (Q : loc -> heap_t -> Prop) (E : heap_t -> Prop) : T (fun h => Q (length h) (h ++ [o])) (alloc o) Q E.
Proof. intros s Ps. simpl. exact Ps. Qed.

Lemma T_write (P : heap_t -> Prop) l o (Q : unit -> heap_t -> Prop) (E : heap_t -> Prop) :
  (forall h, P h -> l < length h /\ Q tt (set_nth l o h)) -> T P (write l o) Q E.
Proof.
  intros H s Ps. destruct (H _ Ps) as [L Qh]. unfold write. apply Nat.ltb_lt in L. rewrite L. simpl. exact Qh.
Qed.

Lemma T_get_heap (P : heap_t -> Prop) (E : heap_t -> Prop) : T P get_heap (fun h0 h => h0 = h /\ P h) E.
Proof. intros s Ps. simpl. auto. Qed.

Lemma T_check ct (P : heap_t -> Prop) v t (E : heap_t -> Prop) :
  T P (check_typeM ct v t) (fun ok h => P h /\ ok = check_type FUEL ct h v t) E.
Proof. intros s Ps. simpl. auto. Qed.

Lemma T_foldM {A B} (f : B -> A -> M B) (I : B -> heap_t -> Prop) (E : heap_t -> Prop) l :
  (forall acc x, In x l -> T (I acc) (f acc x) I E) -> forall acc, T (I acc) (foldM f l acc) I E.
Proof.
  induction l as [|x t IH]; intros H acc; simpl.
  - apply T_ret; auto.
  - eapply T_bind; [apply H; simpl; auto|]. intros acc'. apply IH. intros; apply H; simpl; auto.
Qed.

Lemma T_iterM {A} (f : A -> M unit) (P : heap_t -> Prop) (E : heap_t -> Prop) l :
  (forall x, In x l -> T P (f x) (fun _ h => P h) E) -> T P (iterM f l) (fun _ h => P h) E.
Proof.
  induction l as [|x t IH]; intros H; simpl.
  - apply T_ret; auto.
  - eapply T_bind; [apply H; simpl; auto|]. intros ?. apply IH. intros; apply H; simpl; auto.
Qed.

Lemma T_read_inst (P : heap_t -> Prop) l (E : heap_t -> Prop) :
  (forall h, P h -> E h) ->
  T P (read_inst l) (fun p h => P h /\ nth_error h l = Some (OInst (fst p) (snd p))) E.
Proof.
  intros HE. unfold read_inst. eapply T_bind; [apply T_read; exact HE|]. intros o.
  destruct o; try (apply T_fail; intros h [Ph _]; auto). apply T_ret. simpl. auto.
Qed.

Lemma T_cls_of ct (P : heap_t -> Prop) c (E : heap_t -> Prop) :
  (forall h, P h -> E h) -> T P (cls_of ct c) (fun k h => P h /\ lookup_cls ct c = Some k) E.
Proof.
  intro HE. unfold cls_of. destruct (lookup_cls ct c); [apply T_ret; auto|apply T_fail; auto].
Qed.

Lemma T_guard (P : heap_t -> Prop) (b : bool) e (E : heap_t -> Prop) :
  (forall h, P h -> E h) -> T P (if b then fail e else ret tt) (fun _ h => P h) E.
Proof. intro HE. destruct b; [apply T_fail; auto|apply T_ret; auto]. Qed.

(* ------------------------------------------------------------------ *)
(** * Scalar annotations *)
Fixpoint scalar_ty (t : ty) : bool :=
  match t with
  | TInt | TStr | TBool | TNoneT => true
  | TOpt t' => scalar_ty t'
  | TUnion a b => scalar_ty a && scalar_ty b
  | _ => false
  end.

Lemma scalar_simple t : scalar_ty t = true -> simple t = true.
Proof.
  induction t; simpl; auto; try discriminate. intro H. apply andb_true_iff in H. destruct H.
  rewrite IHt1, IHt2; auto.
Qed.

Lemma scalar_nospec t : scalar_ty t = true -> spec_of_ty t = None /\ spec_of_ty_strict t = None.
Proof.
  destruct t; simpl; auto; try discriminate.
  - destruct t; simpl; auto; discriminate.
  - intro H. apply andb_true_iff in H. destruct H as [H1 H2].
    destruct t1; simpl in H1; try discriminate; destruct t2; simpl in H2; try discriminate; auto.
Qed.

Lemma scalar_check_noref ct h f : forall t v, scalar_ty t = true ->
  check_type f ct h v t = true -> forall c, v <> VRef c.
Proof.
  induction f as [|f IH]; intros t v St C c E; simpl in C; [discriminate|]. subst v.
  destruct t; simpl in St; try discriminate.
  - exact (IH _ _ St C c eq_refl).
  - apply andb_true_iff in St. destruct St as [S1 S2]. apply orb_true_iff in C.
    destruct C as [C|C]; [exact (IH _ _ S1 C c eq_refl)|exact (IH _ _ S2 C c eq_refl)].
Qed.

Definition scalar_coll (t : ty) : bool :=
  match t with
  | TList e | TSet e => scalar_ty e
  | TDict k e => scalar_ty k && scalar_ty e
  | _ => false
  end.

Lemma scalar_coll_flat t : scalar_coll t = true -> flat_coll t = true.
Proof.
  destruct t; simpl; try discriminate; auto using scalar_simple.
  intro H. apply andb_true_iff in H. destruct H. rewrite !scalar_simple; auto.
Qed.

(* ------------------------------------------------------------------ *)
(** * Facts that survive the quiet steps *)
Definition astable (F : heap_t -> Prop) : Prop :=
  forall h o, shape o < 3 -> norefs o -> F h -> F (h ++ [o]).
Definition cstable (F : heap_t -> Prop) : Prop :=
  astable F /\
  (forall h c o0 o, nth_error h c = Some o0 -> shape o = shape o0 -> shape o0 < 3 ->
     (forall c', orefs c' o <= orefs c' o0) -> F h -> F (set_nth c o h)).

Lemma astable_and F G : astable F -> astable G -> astable (fun h => F h /\ G h).
Proof. intros A1 A2 h o S Nr [H1 H2]. split; auto. Qed.

Lemma cstable_true : cstable (fun _ => True).
Proof. split; [intros h o _ _ _; exact I|auto]. Qed.

Lemma cstable_and F G : cstable F -> cstable G -> cstable (fun h => F h /\ G h).
Proof.
  intros [A1 B1] [A2 B2]. split; [now apply astable_and|].
  intros h c o0 o N S Sc Le [H1 H2]. split; eauto.
Qed.

Lemma cstable_loose v : cstable (fun h => loose h v).
Proof.
  split.
  - intros h o S Nr L. destruct v; simpl in *; auto. destruct L as [L Z]. split.
    + rewrite app_length. simpl. lia.
    + rewrite refcount_app. simpl. rewrite (norefs_orefs o l Nr). lia.
  - intros h c o0 o N S Sc Le L. destruct v; simpl in *; auto. destruct L as [L Z]. split.
    + now rewrite set_nth_length.
    + pose proof (refcount_set_nth h c o o0 l N). specialize (Le l). lia.
Qed.

Definition inst_at (l : loc) (cl : cid) (d : list (nat * val)) (h : heap_t) : Prop :=
  nth_error h l = Some (OInst cl d).

Lemma cstable_inst_at l cl d : cstable (inst_at l cl d).
Proof.
  unfold inst_at. split.
  - intros h o _ _ N. rewrite nth_error_app1; auto. apply nth_error_Some. congruence.
  - intros h c o0 o N S Sc _ N1. destruct (Nat.eq_dec c l) as [->|Ne].
    + rewrite N in N1. inversion N1; subst. simpl in Sc. lia.
    + now rewrite set_nth_other.
Qed.

(* facts that survive a write to the dict of an instance cell *)
Definition istable (F : heap_t -> Prop) : Prop :=
  forall h l cl d d', nth_error h l = Some (OInst cl d) -> F h -> F (set_nth l (OInst cl d') h).

Definition xstable (F : heap_t -> Prop) : Prop := cstable F /\ istable F.

Lemma xstable_true : xstable (fun _ => True).
Proof. split; [apply cstable_true|intros h l cl d d' _ _; exact I]. Qed.

Lemma xstable_and F G : xstable F -> xstable G -> xstable (fun h => F h /\ G h).
Proof.
  intros [C1 I1] [C2 I2]. split; [now apply cstable_and|].
  intros h l cl d d' N [H1 H2]. split; eauto.
Qed.

(* what the stores need from invalidate_attrs: it preserves the invariant and every frame
   that survives allocations, container writes that add no reference and instance-dict
   writes; also when it fails *)
Definition inval_spec (ct : ctable) : Prop :=
  forall fuel l a (F : heap_t -> Prop), xstable F ->
    T (fun h => Inv ct h /\ F h) (invalidate_attrs ct (exec ct fuel) l a)
      (fun _ h => Inv ct h /\ F h) (fun h => Inv ct h /\ F h).

Section Quiet.
  Variable ct : ctable.
  Hypothesis Hflat : flat_table ct.

  Definition IF (F : heap_t -> Prop) (h : heap_t) : Prop := Inv ct h /\ F h.

  Lemma IF_alloc F h o : astable F -> shape o < 3 -> norefs o -> IF F h -> IF F (h ++ [o]) /\ loose (h ++ [o]) (VRef (length h)).
  Proof.
    intros SA S Nr [I Fh]. split; [split; [apply Inv_alloc; auto|auto]|].
    simpl. split; [rewrite app_length; simpl; lia|].
    rewrite refcount_app. simpl. rewrite (norefs_orefs o _ Nr).
    destruct I as [_ (Hc & _)]. rewrite (refcount_fresh h (length h) Hc); lia.
  Qed.

  Definition ty_plain (t : ty) : Prop := match t with TSpec _ => False | _ => True end.

  (* type_instantiate of a non-spec type: a scalar, or a fresh empty collection *)
  Lemma instantiate_quiet rec t F :
    astable F -> ty_plain t ->
    T (IF F) (instantiate_ty rec t) (fun v h => IF F h /\ loose h v) (IF F).
  Proof.
    intros SF Pt.
    assert (Al : forall o, shape o < 3 -> norefs o ->
              T (IF F) (l <- alloc o ;; ret (VRef l)) (fun v h => IF F h /\ loose h v) (IF F)).
    { intros o S Nr. eapply T_bind; [|intros l; apply T_ret; intros h H; exact H].
      eapply T_pre; [|apply T_alloc]. intros h H. cbv beta. apply IF_alloc; auto. }
    destruct t; simpl in *; try contradiction;
      try (apply T_ret; intros h H; split; [exact H|exact I]);
      try (apply T_fail; auto);
      apply Al; simpl; try lia; intros c [].
  Qed.

  (* callbacks that read nothing from the heap and allocate at most one container of
     non-references (FAppended copies the elements of its argument: excluded) *)
  Definition qfn (f : fn) : Prop :=
    match f with
    | FId | FAddInt _ | FRaise | FConst _ => True
    | FNewList xs => forall x, In x xs -> forall c, x <> VRef c
    | FDictOf _ x => forall c, x <> VRef c
    | FAppended _ => False
    end.
  Definition oqfn (o : option fn) : Prop := match o with Some f => qfn f | None => True end.

  Lemma apply_fn_quiet f v F :
    qfn f -> astable F ->
    T (IF F) (apply_fn f v) (fun r h => IF F h /\ (r = v \/ loose h r)) (IF F).
  Proof.
    intros Hq SF. unfold apply_fn.
    eapply T_bind; [apply T_hpure; [apply hpure_tick|auto]|]. intros ?.
    assert (Al : forall o, shape o < 3 -> norefs o ->
              T (IF F) (l <- alloc o ;; ret (VRef l)) (fun r h => IF F h /\ (r = v \/ loose h r)) (IF F)).
    { intros o S Nr. eapply T_bind; [|intros l; apply T_ret; intros h H; exact H].
      eapply T_pre; [|apply T_alloc]. intros h H. cbv beta.
      destruct (IF_alloc F h o SF S Nr H) as [H1 H2]. split; auto. }
    destruct f; simpl in Hq.
    - apply T_ret. auto.
    - destruct v; try (apply T_fail; auto); apply T_ret; intros h H; split; auto; right; exact I.
    - destruct v0; try (apply T_fail; auto); apply T_ret; intros h H; split; auto; right; exact I.
    - apply Al; [simpl; lia|]. intros c Hi. exact (Hq _ Hi c eq_refl).
    - contradiction.
    - apply Al; [simpl; lia|]. intros c Hi. simpl in Hi. destruct Hi as [E|[E|[]]]; [discriminate|].
      exact (Hq c E).
    - apply T_fail. auto.
  Qed.

  (* the mutate_value calls made for leaf collection attributes and their items *)
  Definition prep_plain (p : prep) : Prop :=
    match p with
    | PNone => True
    | PAttr f => qfn f
    | PItem sp _ => oqfn (a_prepare_item sp) /\ scalar_ty (item_type (a_ty sp)) = true
    end.

  Definition xf_plain (x : option (xform * option (attr_spec * loc))) : Prop :=
    match x with
    | None => True
    | Some (XFn f, _) => qfn f
    | Some (XPrepItem, Some (sp, _)) => oqfn (a_prepare_item sp) /\ scalar_ty (item_type (a_ty sp)) = true
    | Some (XPrepItem, None) => True
    end.

  Definition mv_plain (m : mv_args) : Prop :=
    prep_plain (mv_prepare m) /\ mv_attrs m = None /\ xf_plain (mv_transform m) /\
    mv_attr_transforms m = [] /\
    exists t ety, mv_ctor m = Some (CtorTy t) /\ ty_plain t /\ mv_expected m = Some ety.

  Lemma hpure_str_key v : hpure (str_key_to_aid v).
  Proof. destruct v; simpl; hpgo. Qed.

  Lemma prepare_item_quiet rec sp inst item F :
    oqfn (a_prepare_item sp) -> scalar_ty (item_type (a_ty sp)) = true -> astable F ->
    T (IF F) (prepare_item ct rec sp inst item) (fun r h => IF F h /\ (r = item \/ loose h r)) (IF F).
  Proof.
    intros Hp Hs SF. unfold prepare_item. destruct (scalar_nospec _ Hs) as [_ ->].
    eapply T_bind with (Q := fun r h => IF F h /\ (r = item \/ loose h r)).
    - destruct (a_prepare_item sp) as [f|]; [apply apply_fn_quiet; auto|apply T_ret; auto].
    - intros item1. apply T_ret. auto.
  Qed.

  (* old_value is used only when no new value is given and replace is off *)
  Definition mv_use_new (m : mv_args) : bool :=
    negb (is_missing (mv_new m)) && negb match mv_new m with VEmpty => true | _ => false end.
  Definition mv_res (m : mv_args) (r : val) (h : heap_t) : Prop :=
    (r = mv_old m /\ (mv_new m = VUnchanged \/ (mv_use_new m = false /\ mv_replace m = false))) \/
    r = mv_new m \/ loose h r.

  Lemma mv_body_quiet rec m F :
    astable F -> mv_plain m ->
    T (IF F) (mutate_value_body ct rec m) (fun r h => IF F h /\ mv_res m r h) (IF F).
  Proof.
    intros SF (Hprep & Hattrs & Hxf & Hats & t & ety & Hctor & Pt & Hexp).
    destruct m as [old new repl prepare attrs ctor expd xf ats inpl].
    cbn [mv_prepare mv_attrs mv_transform mv_attr_transforms mv_ctor mv_expected] in *. subst.
    unfold mutate_value_body, mv_res, mv_use_new.
    cbn [mv_old mv_new mv_replace mv_prepare mv_attrs mv_ctor mv_expected mv_transform mv_attr_transforms mv_inplace].
    set (use_new := negb (is_missing new) && negb match new with VEmpty => true | _ => false end).
    set (value0 := if use_new then new else if repl then VMissing else old).
    assert (V0 : forall h, (value0 = old /\ (new = VUnchanged \/ (use_new = false /\ repl = false))) \/
                           value0 = new \/ loose h value0).
    { intro h. unfold value0. destruct use_new; auto. destruct repl; auto. right; right; exact I. }
    (* step 1: prepare *)
    eapply T_bind with (Q := fun value1 h => IF F h /\ (value1 = value0 \/ loose h value1)).
    { destruct (if use_new || repl then prepare else PNone) eqn:Ep.
      - apply T_ret; auto.
      - assert (Hq : qfn f) by (destruct (use_new || repl); [subst prepare; exact Hprep|discriminate]).
        apply apply_fn_quiet; auto.
      - assert (Hp : oqfn (a_prepare_item sp) /\ scalar_ty (item_type (a_ty sp)) = true).
        { destruct (use_new || repl); [subst prepare; exact Hprep|discriminate]. }
        destruct Hp as [Hp1 Hp2]. apply prepare_item_quiet; auto. }
    intros value1.
    eapply T_bind; [apply T_get_heap|]. intros h0. cbv zeta.
    (* steps 3/4 *)
    eapply T_bind with
      (Q := fun (r : val * bool * list aid) h => IF F h /\ (fst (fst r) = value0 \/ loose h (fst (fst r)))).
    { cbv beta iota.
      match goal with |- T _ (if ?b then _ else _) _ _ => destruct b end.
      - eapply T_pre with (P := IF F); [tauto|].
        eapply T_bind; [apply T_hpure; [destruct value1; simpl; hpgo|auto]|]. intros l.
        eapply T_bind; [apply T_hpure; [apply hpure_read|auto]|]. intros o.
        destruct o; try (apply T_fail; auto).
        eapply T_bind; [apply T_hpure; [|auto]|].
        { apply hpure_mapM. intros p. apply hpure_bind; [apply hpure_str_key|intros; apply hpure_ret]. }
        intros kw. cbv zeta.
        match goal with |- T _ (match ?x with [] => _ | _ :: _ => _ end) _ _ => destruct x end;
          [|apply T_fail; auto].
        eapply T_bind; [apply instantiate_quiet; auto|]. intros v.
        apply T_ret. intros h [H L]. simpl. auto.
      - destruct (is_missing value1).
        + eapply T_pre with (P := IF F); [tauto|].
          eapply T_bind; [apply instantiate_quiet; auto|]. intros v.
          apply T_ret. intros h [H L]. simpl. auto.
        + apply T_ret. intros h [_ H]. simpl. exact H. }
    intros [[value2 safe2] used]. cbv beta iota. cbn [fst].
    eapply T_bind with (Q := fun (r5 : val * bool) h => IF F h /\ (fst r5 = value0 \/ loose h (fst r5))).
    { apply T_ret. auto. }
    intros [value3 safe3]. cbv beta iota. cbn [fst].
    (* step 6: transform *)
    eapply T_bind with (Q := fun value4 h => IF F h /\ (value4 = value0 \/ loose h value4)).
    { set (G := fun h => F h /\ (value3 = value0 \/ loose h value3)).
      assert (SG : astable G).
      { intros h o S Nr [Fh D]. split; [apply SF; auto|].
        destruct D as [E|L]; [left; exact E|right; now apply (proj1 (cstable_loose value3))]. }
      assert (Fin : forall r h, IF G h /\ (r = value3 \/ loose h r) ->
                                IF F h /\ (r = value0 \/ loose h r)).
      { intros r h [[I0 [Fh D]] [->|L]]; (split; [split; auto|]); auto. }
      assert (Ini : forall h, IF F h /\ (value3 = value0 \/ loose h value3) -> IF G h).
      { intros h [[I0 Fh] D]. split; auto. split; auto. }
      assert (Er : forall h, IF G h -> IF F h) by (intros h [I0 [Fh _]]; split; auto).
      destruct xf as [[[f|] oi]|]; [| |apply T_ret; auto].
      - unfold apply_xform. eapply T_conseq; [apply (apply_fn_quiet f value3 G Hxf SG)|exact Ini|exact Fin|exact Er].
      - destruct oi as [[sp inst]|]; [|apply T_fail; tauto].
        destruct Hxf as [Hp1 Hp2]. unfold apply_xform.
        eapply T_conseq; [apply (prepare_item_quiet rec sp inst value3 G Hp1 Hp2 SG)|exact Ini|exact Fin|exact Er]. }
    intros value4. apply T_ret. intros h [H [E|L]]; (split; [exact H|]); [rewrite E; apply V0|right; right; exact L].
  Qed.

  Lemma mv_quiet rec m F :
    astable F -> mv_plain m ->
    T (IF F) (mutate_value ct rec m) (fun r h => IF F h /\ mv_res m r h) (IF F).
  Proof.
    intros SF Hm. pose proof (mv_body_quiet rec m F SF Hm) as B.
    unfold mutate_value. destruct (mv_new m) eqn:En; try exact B.
    apply T_ret. intros h H. split; auto. left. split; auto.
  Qed.

  Lemma exec_mv_quiet fuel m F :
    astable F -> mv_plain m ->
    T (IF F) (exec ct fuel (KMutateValue m)) (fun r h => IF F h /\ mv_res m r h) (IF F).
  Proof.
    intros SF Hm. destruct fuel as [|f]; [apply T_fail; auto|]. apply mv_quiet; auto.
  Qed.
End Quiet.

(* ------------------------------------------------------------------ *)
(** * Leaf list attributes *)
Lemma T_pull {A} (phi : Prop) (P : heap_t -> Prop) (m : M A) (Q : A -> heap_t -> Prop) (E : heap_t -> Prop) :
  (phi -> T P m Q E) -> T (fun h => P h /\ phi) m Q E.
Proof. intros H s [Ps Hp]. apply H; auto. Qed.

Definition leaf_list (sp : attr_spec) (e : ty) : Prop :=
  a_ty sp = TList e /\ scalar_ty e = true /\ shallow (a_ty sp) /\
  a_prepare sp = None /\ a_prepare_item sp = None.

Definition no_inval_table (ct : ctable) : Prop :=
  forall k sp, In k ct -> In sp (c_attrs k) -> a_inv_by sp = [].

Lemma astable_check ct v t : flat t = true -> astable (fun h => check_type FUEL ct h v t = true).
Proof. intros Ft h o _ _ C. now apply check_flat_app. Qed.

Lemma astable_loose v : astable (fun h => loose h v).
Proof. apply cstable_loose. Qed.
Lemma astable_inst_at l cl d : astable (inst_at l cl d).
Proof. apply cstable_inst_at. Qed.

Lemma astable_only_view ct c t : astable (fun h => only_view ct h c t).
Proof.
  intros h o S _ V t' (l & cl & d & k & a & sp & N & R) Ft. apply V; auto.
  apply nth_error_snoc in N. destruct N as [[_ N]|[_ E]].
  - exists l, cl, d, k, a, sp. tauto.
  - subst o. simpl in S. lia.
Qed.

Lemma hpure_check ct v t : hpure (check_typeM ct v t).
Proof. intro s. reflexivity. Qed.
Lemma hpure_loc_of_t v : hpure (loc_of_t v).
Proof. destruct v; simpl; hpgo. Qed.
Lemma hpure_loc_of v : hpure (loc_of v).
Proof. destruct v; simpl; hpgo. Qed.
Lemma hpure_read_list v : hpure (read_list v).
Proof. unfold read_list. apply hpure_bind; [apply hpure_loc_of_t|]. intros. hpgo. Qed.
Lemma hpure_find_eq_index ct xs v : hpure (find_eq_index ct xs v).
Proof. intro s. reflexivity. Qed.
#[export] Hint Resolve hpure_check hpure_loc_of_t hpure_loc_of hpure_read_list hpure_find_eq_index : hp.

Lemma hpure_seq_extractor ct sp coll voi r bi : hpure (seq_extractor ct sp coll voi r bi).
Proof.
  unfold seq_extractor. destruct (is_missing coll || is_missing voi); [apply hpure_ret|].
  apply hpure_bind; [destruct bi; hpgo|]. intros b.
  apply hpure_bind; [apply hpure_read_list|]. intros p. hpgo.
Qed.

Lemma hpure_truthy v : hpure (truthy_collection v).
Proof. unfold truthy_collection. destruct v; hpgo. Qed.
#[export] Hint Resolve hpure_seq_extractor hpure_truthy : hp.

Section Lists.
  Variable ct : ctable.
  Hypothesis Hflat : flat_table ct.
  Hypothesis Hninv : inval_spec ct.
  Variable rec : call -> M val.
  Hypothesis Hrec_mv : forall m F, astable F -> mv_plain m ->
    T (IF ct F) (rec (KMutateValue m)) (fun r h => IF ct F h /\ mv_res m r h) (IF ct F).
  Notation IF := (IF ct).

  Lemma conf_scalar_norefs h fc e o :
    scalar_ty e = true -> check_type FUEL ct h (VRef fc) (TList e) = true ->
    nth_error h fc = Some o -> norefs o.
  Proof.
    intros Se C N. destruct FUEL_SS as [f Ef]. rewrite Ef in C.
    change (match nth_error h fc with
            | Some (OList xs) => forallb (fun x => check_type (S f) ct h x e) xs
            | _ => false end = true) in C.
    rewrite N in C. destruct o; try discriminate. intros c I. simpl in I.
    rewrite forallb_forall in C. specialize (C _ I). cbv beta in C.
    exact (scalar_check_noref ct h (S f) e (VRef c) Se C c eq_refl).
  Qed.

  Lemma empty_list_conforms h fc e :
    nth_error h fc = Some (OList []) -> check_type FUEL ct h (VRef fc) (TList e) = true.
  Proof.
    intro N. destruct FUEL_SS as [f Ef]. rewrite Ef.
    change (match nth_error h fc with
            | Some (OList xs) => forallb (fun x => check_type (S f) ct h x e) xs
            | _ => false end = true).
    rewrite N. reflexivity.
  Qed.

  (* the sequence inserter on a cell that nobody references, or that is viewed only as List[e] *)
  Lemma seq_inserter_inv sp e fc idx item ins F :
    leaf_list sp e -> cstable F ->
    T (fun h => IF F h /\ check_type FUEL ct h (VRef fc) (TList e) = true /\
                (refcount h fc = 0 \/ only_view ct h fc (TList e)))
      (seq_inserter ct sp (VRef fc) idx item ins)
      (fun _ h => IF F h /\ check_type FUEL ct h (VRef fc) (TList e) = true)
      (IF F).
  Proof.
    intros (Ht & Se & Sh & _ & _) [_ SW] s [[I Fh] [C V]].
    destruct (seq_inserter ct sp (VRef fc) idx item ins s) as [r s'] eqn:H.
    destruct (seq_inserter_run ct s sp fc idx item ins r s' H) as [[-> Hr]|(xs & xs' & -> & N & ->)].
    - destruct r as [u|err]; [exfalso; eapply Hr; eauto|]. split; auto.
    - simpl heap.
      assert (K : check_type FUEL ct (set_nth fc (OList xs') (heap s)) (VRef fc) (TList e) = true).
      { apply (seq_inserter_keeps ct s sp fc idx item ins tt _ e Ht (scalar_simple _ Se) Sh C H). }
      assert (Nr : norefs (OList xs')).
      { eapply conf_scalar_norefs; eauto. apply nth_error_set_nth_same. apply nth_error_Some. congruence. }
      assert (Le : forall c', orefs c' (OList xs') <= orefs c' (OList xs)).
      { intro c'. rewrite (norefs_orefs _ c' Nr). lia. }
      split; [split|exact K].
      + eapply Inv_write_container; eauto; try (simpl; lia).
        intros t Vt Ft. destruct V as [Z|V].
        * exfalso. eapply refcount_zero_not_viewed; eauto.
        * rewrite (V t Vt Ft). exact K.
      + eapply SW; eauto; try (simpl; lia).
  Qed.

  Definition io_plain (io : item_op) : Prop :=
    io_attrs io = None /\ io_transform io = None /\ io_attr_transforms io = [].

  Lemma item_mv_plain sp e inst old io :
    leaf_list sp e -> io_plain io ->
    mv_plain (mkmv old (io_new io) (io_replace io) (PItem sp inst) (io_attrs io)
                   (Some (ctor_of_ty (item_type (a_ty sp)))) (Some (item_type (a_ty sp)))
                   (io_transform io) (io_attr_transforms io) false).
  Proof.
    intros (Ht & Se & _ & _ & Hpi) (H1 & H2 & H3). unfold mv_plain.
    cbn [mv_prepare mv_attrs mv_transform mv_attr_transforms mv_ctor mv_expected prep_plain].
    rewrite Hpi, H2, Ht. cbn [item_type oqfn xf_plain].
    split; [split; [exact I|exact Se]|]. split; auto. split; [exact I|]. split; auto.
    exists e, e. unfold ctor_of_ty. destruct (scalar_nospec _ Se) as [-> _].
    split; auto. split; auto. destruct e; simpl in *; auto; discriminate.
  Qed.

  (* one element operation on the list cell fc *)
  Lemma mutate_collection_seq sp e inst fc io F :
    leaf_list sp e -> io_plain io -> cstable F ->
    (forall h, Inv ct h -> F h -> refcount h fc = 0 \/ only_view ct h fc (TList e)) ->
    T (fun h => IF F h /\ check_type FUEL ct h (VRef fc) (TList e) = true)
      (mutate_collection ct rec FSeq sp inst (VRef fc) io)
      (fun r h => (IF F h /\ check_type FUEL ct h (VRef fc) (TList e) = true) /\ r = VRef fc)
      (IF F).
  Proof.
    intros Hl Hio SF HV. pose proof Hl as (Ht & Se & _).
    unfold mutate_collection. cbn [is_missing].
    eapply T_bind with
      (Q := fun c1 h => (IF F h /\ check_type FUEL ct h (VRef fc) (TList e) = true) /\ c1 = VRef fc).
    { apply T_ret. intros h H. split; auto. }
    intros coll1. apply T_pull. intros ->.
    eapply T_bind with (Q := fun _ h => IF F h /\ check_type FUEL ct h (VRef fc) (TList e) = true).
    { apply T_hpure; [apply hpure_seq_extractor|tauto]. }
    intros ex. cbv zeta.
    eapply T_bind with (Q := fun _ h => IF F h /\ check_type FUEL ct h (VRef fc) (TList e) = true).
    { eapply T_conseq.
      - apply (Hrec_mv _ (fun h => F h /\ check_type FUEL ct h (VRef fc) (TList e) = true)).
        + apply astable_and; [apply SF|]. apply astable_check. unfold flat. simpl.
          now rewrite (scalar_simple _ Se).
        + eapply item_mv_plain; eauto.
      - intros h [[I Fh] C]. split; auto.
      - intros r h [[I [Fh C]] _]. split; [split|]; auto.
      - intros h [I [Fh _]]. split; auto. }
    intros new_item.
    eapply T_bind.
    { eapply T_pre; [|apply (seq_inserter_inv sp e fc (fst ex) new_item (io_insert io) F Hl SF)].
      intros h [[I Fh] C]. split; [split; auto|]. split; auto. }
    intros u. apply T_ret. intros h H. split; auto.
  Qed.

  (* create_collection for a list attribute: a fresh empty list *)
  Lemma create_list sp e F :
    a_ty sp = TList e -> astable F ->
    T (IF F) (create_collection rec sp)
      (fun v h => IF F h /\ exists fc, v = VRef fc /\ loose h v /\
                                      check_type FUEL ct h v (TList e) = true)
      (IF F).
  Proof.
    intros Ht SF. unfold create_collection. rewrite Ht. simpl.
    eapply T_bind; [|intros l; apply T_ret; intros h H; exact H].
    eapply T_pre; [|apply T_alloc]. intros h H. cbv beta.
    destruct (IF_alloc ct Hflat F h (OList []) SF) as [H1 H2]; auto; [intros c []|].
    split; auto. exists (length h). split; auto. split; auto.
    apply empty_list_conforms. rewrite nth_error_app2 by lia. now rewrite Nat.sub_diag.
  Qed.

  (* add_items into a list cell nobody references yet *)
  Lemma add_items_seq sp e inst fc items F :
    leaf_list sp e -> cstable F ->
    T (fun h => IF F h /\ loose h (VRef fc) /\ check_type FUEL ct h (VRef fc) (TList e) = true)
      (add_items ct rec FSeq sp inst (VRef fc) items)
      (fun r h => IF F h /\ loose h r)
      (IF F).
  Proof.
    intros Hl SF.
    set (G := fun h => F h /\ loose h (VRef fc)).
    assert (SG : cstable G) by (apply cstable_and; [exact SF|apply cstable_loose]).
    set (J := fun (c : val) h => (IF G h /\ check_type FUEL ct h (VRef fc) (TList e) = true) /\ c = VRef fc).
    assert (Step : forall io c, io_plain io -> T (J c) (mutate_collection ct rec FSeq sp inst c io) J (IF F)).
    { intros io c Hio. unfold J. apply T_pull. intros ->.
      eapply T_conseq; [apply (mutate_collection_seq sp e inst fc io G Hl Hio SG)| | |].
      - intros h _ [_ [_ Z]]. left. exact Z.
      - auto.
      - auto.
      - intros h [I [Fh _]]. split; auto. }
    assert (Fin : forall c h, J c h -> IF F h /\ loose h c).
    { intros c h [[[I [Fh L]] _] ->]. split; [split|]; auto. }
    assert (Ini : forall h, IF F h /\ loose h (VRef fc) /\ check_type FUEL ct h (VRef fc) (TList e) = true ->
                            J (VRef fc) h).
    { intros h [[I Fh] [L C]]. split; auto. split; auto. split; auto. split; auto. }
    assert (Plain : forall x, io_plain (io_add x)) by (intro x; repeat split).
    unfold add_items. destruct items; try (apply T_fail; tauto).
    eapply T_bind; [apply T_hpure; [apply hpure_read|tauto]|]. intros o.
    destruct o.
    - eapply T_conseq; [apply T_foldM with (I := J); intros; apply Step; apply Plain|exact Ini|exact Fin|auto].
    - eapply T_conseq; [apply T_foldM with (I := J); intros; apply Step; apply Plain|exact Ini|exact Fin|auto].
    - eapply T_conseq; [apply T_foldM with (I := J); intros; apply Step; apply Plain|exact Ini|exact Fin|auto].
    - apply T_fail. tauto.
  Qed.

  (* CollectionAttrMutator.prepare on a leaf list attribute *)
  Lemma coll_prepare_seq sp e inst coll F :
    leaf_list sp e -> cstable F ->
    T (fun h => IF F h /\ loose h coll) (coll_prepare ct rec sp inst coll)
      (fun r h => IF F h /\ loose h r) (IF F).
  Proof.
    intros Hl SF. pose proof Hl as (Ht & Se & _ & _ & Hpi).
    unfold coll_prepare. rewrite Ht. cbn [family_of].
    eapply T_bind with (Q := fun c1 h => IF F h /\ loose h c1).
    { assert (Cr : T (fun h => IF F h /\ loose h coll) (create_collection rec sp)
                     (fun c1 h => IF F h /\ loose h c1) (IF F)).
      { eapply T_conseq; [apply (create_list sp e F Ht (proj1 SF))| | |auto]; [tauto|].
        intros v h [H [fc [-> [L _]]]]. auto. }
      destruct coll; try exact Cr; apply T_ret; auto. }
    intros coll1.
    eapply T_bind; [apply T_check|]. intros ok.
    eapply T_pre with (P := fun h => IF F h /\ loose h coll1); [intros h [H _]; exact H|].
    destruct (negb ok).
    - set (G := fun h => F h /\ loose h coll1).
      eapply T_bind.
      { eapply T_conseq with (P := IF G) (E := IF G).
        - apply (create_list sp e G Ht). apply astable_and; [apply SF|apply astable_loose].
        - intros h [[I Fh] L]. split; [exact I|split; auto].
        - intros a h H; exact H.
        - intros h [I [Fh _]]. split; auto. }
      intros fresh.
      eapply T_pre with (P := fun h => exists fc, fresh = VRef fc /\ (IF F h /\ loose h (VRef fc) /\
                                          check_type FUEL ct h (VRef fc) (TList e) = true)).
      { intros h [[I [Fh _]] [fc [-> [L C]]]]. exists fc. split; auto. split; [split; auto|auto]. }
      intros s [fc [-> H]]. apply (add_items_seq sp e inst fc coll1 F Hl SF s H).
    - eapply T_bind; [apply T_hpure; [apply hpure_truthy|]|].
      { intros h [H _]. exact H. }
      intros t. rewrite Hpi. apply T_ret. auto.
  Qed.

  Lemma attr_mv_plain sp e v :
    leaf_list sp e ->
    mv_plain (mkmv VMissing v false
                (match a_prepare sp with Some f => PAttr f | None => PNone end)
                None (Some (ctor_of_ty (a_ty sp))) (Some (a_ty sp)) None [] false).
  Proof.
    intros (Ht & _ & _ & Hp & _). unfold mv_plain. simpl. rewrite Hp, Ht.
    split; [exact I|]. split; auto. split; auto. split; auto.
    exists (TList e), (TList e). split; auto. split; auto. exact I.
  Qed.

  (* prepare_attr_value on a leaf list attribute: the result is the argument or a fresh cell *)
  Lemma prepare_attr_value_seq sp e inst v F :
    leaf_list sp e -> cstable F ->
    T (fun h => IF F h /\ loose h v) (prepare_attr_value ct rec sp inst v None)
      (fun r h => IF F h /\ loose h r) (IF F).
  Proof.
    intros Hl SF. pose proof Hl as (Ht & _).
    assert (B : T (fun h => IF F h /\ loose h v)
                  (v' <- rec (KMutateValue (mkmv VMissing v false
                                (match a_prepare sp with Some f => PAttr f | None => PNone end)
                                None (Some (ctor_of_ty (a_ty sp))) (Some (a_ty sp)) None [] false)) ;;
                   if ty_is_collection (a_ty sp) then coll_prepare ct rec sp inst v' else ret v')
                  (fun r h => IF F h /\ loose h r) (IF F)).
    { eapply T_bind with (Q := fun v' h => IF F h /\ loose h v').
      - eapply T_conseq.
        + apply (Hrec_mv _ (fun h => F h /\ loose h v)).
          * apply astable_and; [apply SF|apply astable_loose].
          * eapply attr_mv_plain; eauto.
        + intros h [[I Fh] L]. split; auto.
        + intros r h [[Iv [Fh L]] R]. split; [split; auto|].
          destruct R as [[-> _]|[->|R]]; [exact I|exact L|exact R].
        + intros h [I [Fh _]]. split; auto.
      - intros v'. rewrite Ht. cbn [ty_is_collection ty_is_list orb].
        eapply coll_prepare_seq; eauto. }
    unfold prepare_attr_value. destruct v; try exact B. apply T_ret. auto.
  Qed.
End Lists.

(* ------------------------------------------------------------------ *)
(** * mutate_attr in place, assignment *)
Section StoreNoInval.
  Variable ct : ctable.
  Hypothesis Hninv : no_inval_table ct.
  Variable rec : call -> M val.

  Lemma filter_inv_nil (l : list attr_spec) x :
    (forall sp, In sp l -> a_inv_by sp = []) ->
    filter (fun sp => existsb (fun y => (y =? x) || (y =? WILDCARD)) (a_inv_by sp)) l = [].
  Proof.
    induction l as [|sp t IH]; intro H; simpl; auto.
    rewrite (H sp) by (simpl; auto). simpl. apply IH. intros; apply H; simpl; auto.
  Qed.

  Lemma lookup_cls_In c k : lookup_cls ct c = Some k -> In k ct.
  Proof. unfold lookup_cls. intro H. apply find_some in H. tauto. Qed.

  (* no attribute is invalidated by another: invalidate_attrs does nothing *)
  Lemma invalidate_noop (P E : heap_t -> Prop) l a :
    (forall h, P h -> E h) -> T P (invalidate_attrs ct rec l a) (fun _ h => P h) E.
  Proof.
    intro HE. unfold invalidate_attrs.
    eapply T_bind; [apply T_hpure; [unfold read_inst; hpgo|exact HE]|]. intros p.
    eapply T_bind; [apply T_cls_of; exact HE|]. intros k. apply T_pull. intro Hk. cbv zeta.
    assert (D : forall x, dependants k x = []).
    { intro x. unfold dependants. rewrite filter_inv_nil; auto.
      intros sp Hsp. eapply Hninv; eauto. now apply lookup_cls_In with (c := fst p). }
    assert (C : inv_closure (S (S (length (c_attrs k)))) k [a] [a] = [a]).
    { simpl. rewrite D. simpl. destruct (length (c_attrs k)); reflexivity. }
    rewrite C. apply T_iterM. intros sp _.
    assert (B : existsb (fun z => z =? a_name sp) [a] && negb (a_name sp =? a) = false).
    { simpl. rewrite orb_false_r. destruct (Nat.eqb_spec a (a_name sp)) as [->|Ne]; simpl; auto.
      now rewrite Nat.eqb_refl. }
    rewrite B. apply T_ret. auto.
  Qed.


End StoreNoInval.

(* tables without invalidated_by satisfy the specification of invalidate_attrs *)
Lemma no_inval_spec ct : no_inval_table ct -> inval_spec ct.
Proof.
  intros H fuel l a F _. apply (invalidate_noop ct H (exec ct fuel) (fun h => Inv ct h /\ F h)). auto.
Qed.

Section Store.
  Variable ct : ctable.
  Hypothesis Hflat : flat_table ct.
  Hypothesis Hninv : inval_spec ct.
  Variable fuel0 : nat.
  Notation rec := (exec ct fuel0).
  Notation Inv := (Inv ct).

  Lemma T_thawed_false {A} (P : heap_t -> Prop) l (m : M A) (Q : A -> heap_t -> Prop) (E : heap_t -> Prop) :
    (forall h, P h -> E h) -> T P m Q E -> T P (thawed ct l false m) Q E.
  Proof.
    intros HE Hm. unfold thawed.
    eapply T_bind; [apply T_hpure; [apply hpure_read|exact HE]|]. intros o.
    destruct o; auto.
    eapply T_bind; [apply T_hpure; [unfold cls_of; hpgo|exact HE]|]. intros k.
    cbn [negb orb]. exact Hm.
  Qed.

  (* the value may be stored in attribute a of l: nobody references it, or a holds it already *)
  Definition storable (l : loc) (a : aid) (v : val) (h : heap_t) : Prop :=
    loose h v \/ exists cl d, nth_error h l = Some (OInst cl d) /\ assoc a d = Some v.

  Definition conforms_at (l : loc) (a : aid) (v : val) (h : heap_t) : Prop :=
    forall cl d k sp, nth_error h l = Some (OInst cl d) -> lookup_cls ct cl = Some k ->
      lookup_attr k a = Some sp -> check_type FUEL ct h v (a_ty sp) = true.

  Lemma raw_setattr_Inv l a v :
    T (fun h => Inv h /\ storable l a v h /\ conforms_at l a v h) (raw_setattr l a v)
      (fun _ h => Inv h) Inv.
  Proof.
    unfold raw_setattr.
    eapply T_bind; [apply T_read_inst; tauto|]. intros [cl d]. cbn [fst snd].
    apply T_write. intros h [[I [St Cf]] N].
    split; [apply nth_error_Some; congruence|].
    destruct St as [L|(cl' & d' & N' & As)].
    - apply Inv_store; auto. intros k sp Hk Ha. eapply Cf; eauto.
    - rewrite N in N'. inversion N'; subst cl' d'.
      rewrite (Inv_restore ct h l cl d a v I N As). exact I.
  Qed.

  (* mutate_attr(..., inplace=True) *)
  Theorem mutate_attr_inplace l a v tc :
    T (fun h => Inv h /\ storable l a v h /\ (tc = false -> conforms_at l a v h))
      (mutate_attr ct rec l a v true tc false false) (fun _ h => Inv h) Inv.
  Proof.
    unfold mutate_attr. destruct (is_sentinel v); [apply T_ret; tauto|].
    set (P := fun h => Inv h /\ storable l a v h /\ (tc = false -> conforms_at l a v h)).
    assert (PE : forall h, P h -> Inv h) by (unfold P; tauto).
    eapply T_bind; [apply T_read_inst; exact PE|]. intros [cl d]. cbn [fst snd].
    eapply T_bind; [apply T_cls_of|]. { intros h [H _]. auto. }
    intros k.
    eapply T_bind; [apply T_guard|]. { intros h [[H _] _]. auto. }
    intros ?.
    eapply T_bind with (Q := fun _ h => Inv h /\ storable l a v h /\ conforms_at l a v h).
    { eapply T_pre with (P := fun h => (P h /\ nth_error h l = Some (OInst cl d)) /\ lookup_cls ct cl = Some k);
        [auto|].
      apply T_pull. intro Hk.
      destruct (lookup_attr k a) as [sp|] eqn:Ha.
      - destruct tc.
        + eapply T_bind; [apply T_check|]. intros ok. destruct ok; [|apply T_fail; intros h [[H _] _]; auto].
          apply T_ret. intros h [[[I [St _]] N] C]. split; auto. split; auto.
          intros cl' d' k' sp' N' Hk' Ha'. rewrite N in N'. inversion N'; subst cl' d'.
          rewrite Hk in Hk'. inversion Hk'; subst k'. rewrite Ha in Ha'. inversion Ha'; subst sp'. auto.
        + apply T_ret. intros h [[I [St Cf]] N]. auto.
      - apply T_ret. intros h [[I [St _]] N]. split; auto. split; auto.
        intros cl' d' k' sp' N' Hk' Ha'. rewrite N in N'. inversion N'; subst cl' d'.
        rewrite Hk in Hk'. inversion Hk'; subst k'. rewrite Ha in Ha'. discriminate. }
    intros ?. cbv zeta. cbn [orb negb andb].
    eapply T_bind with (Q := fun l' h => (Inv h /\ storable l a v h /\ conforms_at l a v h) /\ l' = l).
    { apply T_ret. auto. }
    intros l'. apply T_pull. intros ->.
    eapply T_bind with (Q := fun v' h => (Inv h /\ storable l a v h /\ conforms_at l a v h) /\ v' = v).
    { apply T_ret. auto. }
    intros v'. apply T_pull. intros ->.
    eapply T_bind with (Q := fun _ h => Inv h); [|intros ?; apply T_ret; auto].
    apply T_thawed_false; [tauto|].
    eapply T_bind; [apply raw_setattr_Inv|]. intros ?.
    eapply T_conseq; [apply (Hninv fuel0 l a (fun _ => True) xstable_true)| | |]; cbv beta; intros; tauto.
  Qed.
End Store.

(* ------------------------------------------------------------------ *)
(** * Whole operations *)
Lemma exec_S ct f k : exec ct (S f) k = body ct (exec ct f) k.
Proof. reflexivity. Qed.

Lemma bind_ret_l {A B} (a : A) (k : A -> M B) s : bind (ret a) k s = k a s.
Proof. reflexivity. Qed.

Lemma T_run_then {A B} (P : heap_t -> Prop) (m : M A) (Q : A -> heap_t -> Prop) (E R : heap_t -> Prop) (x : B) s :
  T P m Q E -> P (heap s) -> (forall a h, Q a h -> R h) -> (forall h, E h -> R h) ->
  R (heap (snd ((m ;;; ret x) s))).
Proof.
  intros H Ps HQ HE. unfold bind. specialize (H s Ps). destruct (m s) as [[a|e] s1]; simpl; eauto.
Qed.

Lemma T_run {A} (P : heap_t -> Prop) (m : M A) (Q : A -> heap_t -> Prop) (E R : heap_t -> Prop) s :
  T P m Q E -> P (heap s) -> (forall a h, Q a h -> R h) -> (forall h, E h -> R h) ->
  R (heap (snd (m s))).
Proof.
  intros H Ps HQ HE. specialize (H s Ps). destruct (m s) as [[a|e] s1]; simpl; eauto.
Qed.

Section Ops.
  Variable ct : ctable.
  Hypothesis Hflat : flat_table ct.
  Hypothesis Hninv : inval_spec ct.
  Notation Inv := (Inv ct).

  (* attribute a of the instance at l, if it is managed, is a leaf list attribute *)
  Definition recv_leaf (l : loc) (a : aid) (h : heap_t) : Prop :=
    forall cl d k sp, nth_error h l = Some (OInst cl d) -> lookup_cls ct cl = Some k ->
      lookup_attr k a = Some sp -> exists e, leaf_list sp e.

  Lemma Hmv fuel : forall m F, astable F -> mv_plain m ->
    T (IF ct F) (exec ct fuel (KMutateValue m)) (fun r h => IF ct F h /\ mv_res m r h) (IF ct F).
  Proof. intros. apply exec_mv_quiet; auto. Qed.

  Lemma IF_true h : Inv h -> IF ct (fun _ => True) h.
  Proof. intro H. split; auto. Qed.

  (* obj.a = v, after the value has been prepared: shared by assignment and with_<a> *)
  Lemma prepare_then_store fuel' fuel l a sp e v :
    leaf_list sp e ->
    T (fun h => Inv h /\ loose h v)
      (value <- prepare_attr_value ct (exec ct fuel) sp l v None ;;
       mutate_attr ct (exec ct fuel') l a value true true false false)
      (fun _ h => Inv h) Inv.
  Proof.
    intro Hl. eapply T_bind.
    - eapply T_conseq; [apply (prepare_attr_value_seq ct Hflat (exec ct fuel) (Hmv fuel) sp e l v (fun _ => True) Hl cstable_true)| | |].
      + intros h [I L]. split; [apply IF_true; exact I|exact L].
      + intros r h H. exact H.
      + intros h [I _]. exact I.
    - intros value. eapply T_pre; [|apply (mutate_attr_inplace ct Hflat Hninv fuel' l a value true)].
      intros h [[I _] L]. split; auto. split; [left; exact L|discriminate].
  Qed.

  Lemma setattr_Inv fuel l a v :
    T (fun h => Inv h /\ loose h v /\ recv_leaf l a h)
      (setattr_ ct (exec ct fuel) l a v false false) (fun _ h => Inv h) Inv.
  Proof.
    unfold setattr_.
    eapply T_bind; [apply T_read_inst; tauto|]. intros [cl d]. cbn [fst snd].
    eapply T_bind; [apply T_cls_of; tauto|]. intros k.
    intros s [[[I [L R]] N] Hk].
    destruct (lookup_attr k a) as [sp|] eqn:Ha.
    - destruct (R _ _ _ _ N Hk Ha) as [e Hl].
      apply (prepare_then_store fuel fuel l a sp e v Hl s). auto.
    - rewrite bind_ret_l.
      apply (mutate_attr_inplace ct Hflat Hninv fuel l a v true s).
      split; auto. split; [left; exact L|discriminate].
  Qed.

  Lemma exec_setattr_Inv fuel l a v :
    T (fun h => Inv h /\ loose h v /\ recv_leaf l a h)
      (exec ct fuel (KSetAttr l a v false false)) (fun _ h => Inv h) Inv.
  Proof.
    destruct fuel as [|f]; [apply T_fail; tauto|]. rewrite exec_S. apply setattr_Inv.
  Qed.

  (* STEP 2a: obj.a = v on a leaf list attribute, v not referenced by anybody *)
  Theorem step_setattr_Inv roots x a v s :
    Inv (heap s) -> loose (heap s) v ->
    (forall l, nth x roots VNone = VRef l -> recv_leaf l a (heap s)) ->
    Inv (heap (snd (step ct roots (OpSetAttr x a v) s))).
  Proof.
    intros I L R. unfold step.
    destruct (nth x roots VNone) as [| | | | | | | |l] eqn:Er; try exact I.
    cbn [loc_of]. rewrite bind_ret_l.
    eapply T_run_then; [apply (exec_setattr_Inv XFUEL l a v)| | |]; auto.
    cbv beta. split; auto.
  Qed.

  Lemma lookup_attr_name k a sp : lookup_attr k a = Some sp -> a_name sp = a.
  Proof. unfold lookup_attr. intro H. apply find_some in H. destruct H as [_ H]. now apply Nat.eqb_eq. Qed.

  (* STEP 2b: obj.with_<a>(v, _inplace=True) *)
  Theorem step_with_inplace_Inv roots x a hh s :
    Inv (heap s) -> loose (heap s) (pos0 hh) -> h_inplace hh = true -> h_kw hh = None ->
    (forall l, nth x roots VNone = VRef l -> recv_leaf l a (heap s)) ->
    Inv (heap (snd (step ct roots (OpHelper x (HWith a) hh) s))).
  Proof.
    intros I L Hin Hkw R. unfold step.
    destruct (nth x roots VNone) as [| | | | | | | |l] eqn:Er; try exact I.
    cbn [loc_of]. rewrite bind_ret_l. specialize (R l eq_refl).
    unfold run_helper. destruct (negb (h_if hh)); [exact I|]. rewrite Hin, Hkw.
    eapply T_run with (P := fun h => Inv h /\ loose h (pos0 hh) /\ recv_leaf l a h) (Q := fun _ h => Inv h) (E := Inv);
      auto.
    unfold spec_for.
    eapply T_bind.
    { eapply T_bind; [apply T_read_inst; tauto|]. intros [cl d]. cbn [fst snd].
      eapply T_bind; [apply T_cls_of; tauto|]. intros k.
      instantiate (1 := fun r h => (Inv h /\ loose h (pos0 hh)) /\ a_name (snd r) = a /\ exists e, leaf_list (snd r) e).
      intros s0 [[[I0 [L0 R0]] N] Hk].
      destruct (lookup_attr k a) as [sp|] eqn:Ha; simpl; auto.
      split; auto. split; [eapply lookup_attr_name; eauto|eauto]. }
    intros r. apply T_pull. intros [Hn [e Hl]]. unfold with_attr. rewrite Hn.
    apply (prepare_then_store XFUEL XFUEL l a (snd r) e (pos0 hh) Hl).
  Qed.
End Ops.

(* ------------------------------------------------------------------ *)
(** * Computable guards and the combined statement *)
Definition is_none {A} (o : option A) : bool := match o with None => true | Some _ => false end.

Definition leaf_list_b (sp : attr_spec) : bool :=
  match a_ty sp with
  | TList e => scalar_ty e && (ty_depth (a_ty sp) <? FUEL) && is_none (a_prepare sp) && is_none (a_prepare_item sp)
  | _ => false
  end.

Lemma leaf_list_b_sound sp : leaf_list_b sp = true -> exists e, leaf_list sp e.
Proof.
  unfold leaf_list_b, leaf_list. destruct (a_ty sp) eqn:Et; try discriminate.
  rewrite !andb_true_iff. intros [[[H1 H2] H3] H4]. exists t. split; auto. split; auto.
  split; [unfold shallow; now apply Nat.ltb_lt|].
  destruct (a_prepare sp), (a_prepare_item sp); simpl in *; try discriminate; auto.
Qed.

Definition no_inval_b (ct : ctable) : bool :=
  forallb (fun k => forallb (fun sp => match a_inv_by sp with [] => true | _ => false end) (c_attrs k)) ct.

Lemma no_inval_b_sound ct : no_inval_b ct = true -> no_inval_table ct.
Proof.
  unfold no_inval_b, no_inval_table. rewrite forallb_forall. intros H k sp Hk Hsp.
  specialize (H _ Hk). rewrite forallb_forall in H. specialize (H _ Hsp).
  destruct (a_inv_by sp); auto; discriminate.
Qed.

(* the receiver (a root value) is an instance whose attribute a, if managed, is a leaf list attribute *)
Definition recv_leaf_b (ct : ctable) (h : heap_t) (recv : val) (a : aid) : bool :=
  match recv with
  | VRef l =>
      match nth_error h l with
      | Some (OInst cl d) =>
          match lookup_cls ct cl with
          | Some k => match lookup_attr k a with Some sp => leaf_list_b sp | None => true end
          | None => true end
      | _ => true end
  | _ => true
  end.

Lemma recv_leaf_b_sound ct h recv a :
  recv_leaf_b ct h recv a = true -> forall l, recv = VRef l -> recv_leaf ct l a h.
Proof.
  intros H l -> cl d k sp N Hk Ha. simpl in H. rewrite N, Hk, Ha in H. now apply leaf_list_b_sound.
Qed.

Definition norefs_b (o : obj) : bool :=
  forallb (fun v => match v with VRef _ => false | _ => true end) (obj_vals o).

Lemma norefs_b_sound o : norefs_b o = true -> norefs o.
Proof.
  unfold norefs_b, norefs. rewrite forallb_forall. intros H c I. specialize (H _ I). discriminate.
Qed.

(* the operations covered so far: assignment and with_<a>(v, _inplace=True) on leaf
   list attributes with an argument nobody references (args_fresh), and the
   caller building a container of scalars *)
Definition owned_op_b (ct : ctable) (h : heap_t) (roots : list val) (o : op) : bool :=
  match o with
  | OpSetAttr x a v => loose_b h v && recv_leaf_b ct h (nth x roots VNone) a
  | OpHelper x (HWith a) hh =>
      h_inplace hh && is_none (h_kw hh) && loose_b h (pos0 hh) && recv_leaf_b ct h (nth x roots VNone) a
  | OpAlloc ob => (shape ob <? 3) && norefs_b ob
  | _ => false
  end.

Theorem step_preserves_owned_partial ct roots o s :
  flat_table ct -> no_inval_b ct = true -> owned_op_b ct (heap s) roots o = true ->
  TypeInv ct s -> Owned ct (heap s) ->
  TypeInv ct (snd (step ct roots o s)) /\ Owned ct (heap (snd (step ct roots o s))).
Proof.
  intros Hf Hn Hop T O. apply no_inval_b_sound in Hn. apply no_inval_spec in Hn.
  assert (I : Inv ct (heap s)) by (split; auto).
  change (Inv ct (heap (snd (step ct roots o s)))).
  destruct o as [| x a v | | x hp hh | | ob]; simpl in Hop; try discriminate.
  - apply andb_true_iff in Hop. destruct Hop as [H1 H2].
    apply step_setattr_Inv; auto; [now apply loose_b_iff|now apply recv_leaf_b_sound].
  - destruct hp; try discriminate. rewrite !andb_true_iff in Hop. destruct Hop as [[[H1 H2] H3] H4].
    apply step_with_inplace_Inv; auto; [now apply loose_b_iff| |now apply recv_leaf_b_sound].
    destruct (h_kw hh); auto; discriminate.
  - apply andb_true_iff in Hop. destruct Hop as [H1 H2]. simpl.
    apply Inv_alloc; auto; [now apply Nat.ltb_lt|now apply norefs_b_sound].
Qed.
