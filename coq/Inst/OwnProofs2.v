(* C03, ownership, part 2: whole operations.

   A small Hoare logic `T P m Q E` over the state-and-exception monad
   (precondition P, postcondition Q on Ok, E on Err; all on heaps), and the
   preservation of `Inv = TI /\ Owned` by whole operations on *leaf collection
   attributes*: attributes annotated List/Set/Dict of scalar element types
   (int/str/bool/None, Optional/Union of those) without `_prepare_<attr>` /
   `_prepare_<item>` callbacks, in tables without `invalidated_by`.  On such
   attributes the mutually recursive core only recurses through
   `mutate_value` calls that are "quiet" (they allocate at most one empty
   collection), which is proved once (`mv_quiet`) and used for every fuel. *)
From Coq Require Import List ZArith Bool Arith Lia.
From SC Require Import Base.Res Base.PyList Inst.Heap Inst.ClassTable Inst.Model Inst.Framed
  Inst.TypeProofs Inst.OwnProofs.
Import ListNotations.
Open Scope nat_scope.
Set Warnings "-unused-intro-pattern".
#[local] Opaque FUEL.

(* ------------------------------------------------------------------ *)
(** * Triples *)
Definition T {A} (P : heap_t -> Prop) (m : M A) (Q : A -> heap_t -> Prop) (E : heap_t -> Prop) : Prop :=
  forall s, P (heap s) -> match m s with (Ok a, s') => Q a (heap s') | (Err _, s') => E (heap s') end.

Lemma T_ret {A} (P : heap_t -> Prop) (a : A) (Q : A -> heap_t -> Prop) (E : heap_t -> Prop) : (forall h, P h -> Q a h) -> T P (ret a) Q E.
Proof. intros H s Ps. simpl. auto. Qed.

Lemma T_fail {A} (P : heap_t -> Prop) e (Q : A -> heap_t -> Prop) (E : heap_t -> Prop) :
  (forall h, P h -> E h) -> T P (fail e) Q E.
Proof. intros H s Ps. simpl. auto. Qed.

Lemma T_bind {A B} (P : heap_t -> Prop) (m : M A) (k : A -> M B) (Q : A -> heap_t -> Prop) (R : B -> heap_t -> Prop) (E : heap_t -> Prop) :
  T P m Q E -> (forall a, T (Q a) (k a) R E) -> T P (bind m k) R E.
Proof.
  intros Hm Hk s Ps. unfold bind. specialize (Hm s Ps).
  destruct (m s) as [[a|e] s1]; auto. apply Hk; auto.
Qed.

Lemma T_conseq {A} (P P' : heap_t -> Prop) (m : M A) (Q Q' : A -> heap_t -> Prop) (E E' : heap_t -> Prop) :
  T P m Q E -> (forall h, P' h -> P h) -> (forall a h, Q a h -> Q' a h) -> (forall h, E h -> E' h) ->
  T P' m Q' E'.
Proof.
  intros H HP HQ HE s Ps. specialize (H s (HP _ Ps)). destruct (m s) as [[a|e] s1]; auto.
Qed.

Lemma T_pre {A} (P P' : heap_t -> Prop) (m : M A) (Q : A -> heap_t -> Prop) (E : heap_t -> Prop) : (forall h, P' h -> P h) -> T P m Q E -> T P' m Q E.
Proof. intros HP H. eapply T_conseq; eauto. Qed.

Lemma T_post {A} (P : heap_t -> Prop) (m : M A) (Q Q' : A -> heap_t -> Prop) (E : heap_t -> Prop) :
  (forall a h, Q a h -> Q' a h) -> T P m Q E -> T P m Q' E.
Proof. intros HQ H. eapply T_conseq; eauto. Qed.

(* computations that leave the heap alone *)
Definition hpure {A} (m : M A) : Prop := forall s, heap (snd (m s)) = heap s.

Lemma T_hpure {A} (P : heap_t -> Prop) (m : M A) (E : heap_t -> Prop) :
  hpure m -> (forall h, P h -> E h) -> T P m (fun _ h => P h) E.
Proof.
  intros Hp HE s Ps. specialize (Hp s). destruct (m s) as [[a|e] s1]; simpl in Hp; rewrite Hp; auto.
Qed.

Lemma hpure_ret {A} (a : A) : hpure (ret a).
Proof. intro s. reflexivity. Qed.
Lemma hpure_fail {A} e : hpure (@fail A e).
Proof. intro s. reflexivity. Qed.
Lemma hpure_bind {A B} (m : M A) (k : A -> M B) : hpure m -> (forall a, hpure (k a)) -> hpure (bind m k).
Proof.
  intros Hm Hk s. unfold bind. specialize (Hm s). destruct (m s) as [[a|e] s1]; simpl in *; auto.
  rewrite Hk. exact Hm.
Qed.
Lemma hpure_read l : hpure (read l).
Proof. intro s. unfold read. destruct (nth_error (heap s) l); reflexivity. Qed.
Lemma hpure_tick : hpure tick.
Proof. intro s. unfold tick. destruct (fail_at s) as [k|]; [destruct (k =? S (ncalls s))|]; reflexivity. Qed.
Lemma hpure_get_heap : hpure get_heap.
Proof. intro s. reflexivity. Qed.
Lemma hpure_mapM {A B} (f : A -> M B) l : (forall x, hpure (f x)) -> hpure (mapM f l).
Proof.
  intro H. induction l as [|x t IH]; simpl; [apply hpure_ret|].
  apply hpure_bind; auto. intros y. apply hpure_bind; auto. intros ys. apply hpure_ret.
Qed.

Create HintDb hp.
#[export] Hint Resolve hpure_ret hpure_fail hpure_read hpure_tick hpure_get_heap : hp.

Ltac hpstep :=
  lazymatch goal with
  | |- hpure (ret _) => apply hpure_ret
  | |- hpure (fail _) => apply hpure_fail
  | |- hpure (bind _ _) => apply hpure_bind; [|intros]
  | |- hpure (let _ := _ in _) => cbv zeta
  | |- hpure (if ?c then _ else _) => destruct c
  | |- hpure (match ?x with _ => _ end) => destruct x
  | |- hpure _ => solve [eauto with hp]
  end.
Ltac hpgo := repeat hpstep.

Lemma T_read (P : heap_t -> Prop) l (E : heap_t -> Prop) :
  (forall h, P h -> E h) -> T P (read l) (fun o h => P h /\ nth_error h l = Some o) E.
Proof. intros HE s Ps. unfold read. destruct (nth_error (heap s) l) eqn:N; simpl; auto. Qed.

Lemma T_alloc o (Q : loc -> heap_t -> Prop) (E : heap_t -> Prop) : T (fun h => Q (length h) (h ++ [o])) (alloc o) Q E.
Proof. intros s Ps. simpl. exact Ps. Qed.

Lemma T_write (P : heap_t -> Prop) l o (Q : unit -> heap_t -> Prop) (E : heap_t -> Prop) :
  (forall h, P h -> l < length h /\ Q tt (set_nth l o h)) -> T P (write l o) Q E.
Proof.
  intros H s Ps. destruct (H _ Ps) as [L Qh]. unfold write. apply Nat.ltb_lt in L. rewrite L. simpl. exact Qh.
Qed.

Lemma T_get_heap (P : heap_t -> Prop) (E : heap_t -> Prop) : T P get_heap (fun h0 h => h0 = h /\ P h) E.
Proof. intros s Ps. simpl. auto. Qed.

Lemma T_check ct (P : heap_t -> Prop) v t (E : heap_t -> Prop) :
  T P (check_typeM ct v t) (fun ok h => P h /\ ok = check_type FUEL ct h v t) E.
Proof. intros s Ps. simpl. auto. Qed.

Lemma T_foldM {A B} (f : B -> A -> M B) (I : B -> heap_t -> Prop) (E : heap_t -> Prop) l :
  (forall acc x, In x l -> T (I acc) (f acc x) I E) -> forall acc, T (I acc) (foldM f l acc) I E.
Proof.
  induction l as [|x t IH]; intros H acc; simpl.
  - apply T_ret; auto.
  - eapply T_bind; [apply H; simpl; auto|]. intros acc'. apply IH. intros; apply H; simpl; auto.
Qed.

Lemma T_iterM {A} (f : A -> M unit) (P : heap_t -> Prop) (E : heap_t -> Prop) l :
  (forall x, In x l -> T P (f x) (fun _ h => P h) E) -> T P (iterM f l) (fun _ h => P h) E.
Proof.
  induction l as [|x t IH]; intros H; simpl.
  - apply T_ret; auto.
  - eapply T_bind; [apply H; simpl; auto|]. intros ?. apply IH. intros; apply H; simpl; auto.
Qed.

Lemma T_read_inst (P : heap_t -> Prop) l (E : heap_t -> Prop) :
  (forall h, P h -> E h) ->
  T P (read_inst l) (fun p h => P h /\ nth_error h l = Some (OInst (fst p) (snd p))) E.
Proof.
  intros HE. unfold read_inst. eapply T_bind; [apply T_read; exact HE|]. intros o.
  destruct o; try (apply T_fail; intros h [Ph _]; auto). apply T_ret. simpl. auto.
Qed.

Lemma T_cls_of ct (P : heap_t -> Prop) c (E : heap_t -> Prop) :
  (forall h, P h -> E h) -> T P (cls_of ct c) (fun k h => P h /\ lookup_cls ct c = Some k) E.
Proof.
  intro HE. unfold cls_of. destruct (lookup_cls ct c); [apply T_ret; auto|apply T_fail; auto].
Qed.

Lemma T_guard (P : heap_t -> Prop) (b : bool) e (E : heap_t -> Prop) :
  (forall h, P h -> E h) -> T P (if b then fail e else ret tt) (fun _ h => P h) E.
Proof. intro HE. destruct b; [apply T_fail; auto|apply T_ret; auto]. Qed.

(* ------------------------------------------------------------------ *)
(** * Scalar annotations *)
Fixpoint scalar_ty (t : ty) : bool :=
  match t with
  | TInt | TStr | TBool | TNoneT => true
  | TOpt t' => scalar_ty t'
  | TUnion a b => scalar_ty a && scalar_ty b
  | _ => false
  end.

Lemma scalar_simple t : scalar_ty t = true -> simple t = true.
Proof.
  induction t; simpl; auto; try discriminate. intro H. apply andb_true_iff in H. destruct H.
  rewrite IHt1, IHt2; auto.
Qed.

Lemma scalar_nospec t : scalar_ty t = true -> spec_of_ty t = None /\ spec_of_ty_strict t = None.
Proof.
  destruct t; simpl; auto; try discriminate.
  - destruct t; simpl; auto; discriminate.
  - intro H. apply andb_true_iff in H. destruct H as [H1 H2].
    destruct t1; simpl in H1; try discriminate; destruct t2; simpl in H2; try discriminate; auto.
Qed.

Lemma scalar_check_noref ct h f : forall t v, scalar_ty t = true ->
  check_type f ct h v t = true -> forall c, v <> VRef c.
Proof.
  induction f as [|f IH]; intros t v St C c E; simpl in C; [discriminate|]. subst v.
  destruct t; simpl in St; try discriminate.
  - exact (IH _ _ St C c eq_refl).
  - apply andb_true_iff in St. destruct St as [S1 S2]. apply orb_true_iff in C.
    destruct C as [C|C]; [exact (IH _ _ S1 C c eq_refl)|exact (IH _ _ S2 C c eq_refl)].
Qed.

Definition scalar_coll (t : ty) : bool :=
  match t with
  | TList e | TSet e => scalar_ty e
  | TDict k e => scalar_ty k && scalar_ty e
  | _ => false
  end.

Lemma scalar_coll_flat t : scalar_coll t = true -> flat_coll t = true.
Proof.
  destruct t; simpl; try discriminate; auto using scalar_simple.
  intro H. apply andb_true_iff in H. destruct H. rewrite !scalar_simple; auto.
Qed.

(* ------------------------------------------------------------------ *)
(** * Facts that survive the quiet steps *)
Definition cstable (F : heap_t -> Prop) : Prop :=
  (forall h o, shape o < 3 -> norefs o -> F h -> F (h ++ [o])) /\
  (forall h c o0 o, nth_error h c = Some o0 -> shape o = shape o0 -> shape o0 < 3 ->
     (forall c', orefs c' o <= orefs c' o0) -> F h -> F (set_nth c o h)).

Lemma cstable_true : cstable (fun _ => True).
Proof. split; auto. Qed.

Lemma cstable_and F G : cstable F -> cstable G -> cstable (fun h => F h /\ G h).
Proof. intros [A1 B1] [A2 B2]. split; intros; split; destruct H3 || destruct H1; eauto. Qed.

Lemma cstable_loose v : cstable (fun h => loose h v).
Proof.
  split.
  - intros h o S Nr L. destruct v; simpl in *; auto. destruct L as [L Z]. split.
    + rewrite app_length. simpl. lia.
    + rewrite refcount_app. simpl. rewrite (norefs_orefs o l Nr). lia.
  - intros h c o0 o N S Sc Le L. destruct v; simpl in *; auto. destruct L as [L Z]. split.
    + now rewrite set_nth_length.
    + pose proof (refcount_set_nth h c o o0 l N). specialize (Le l). lia.
Qed.

Definition inst_at (l : loc) (cl : cid) (d : list (nat * val)) (h : heap_t) : Prop :=
  nth_error h l = Some (OInst cl d).

Lemma cstable_inst_at l cl d : cstable (inst_at l cl d).
Proof.
  unfold inst_at. split.
  - intros h o _ _ N. rewrite nth_error_app1; auto. apply nth_error_Some. congruence.
  - intros h c o0 o N S Sc _ N1. destruct (Nat.eq_dec c l) as [->|Ne].
    + rewrite N in N1. inversion N1; subst. simpl in Sc. lia.
    + now rewrite set_nth_other.
Qed.

Section Quiet.
  Variable ct : ctable.
  Hypothesis Hflat : flat_table ct.

  Definition IF (F : heap_t -> Prop) (h : heap_t) : Prop := Inv ct h /\ F h.

  Lemma IF_alloc F h o : cstable F -> shape o < 3 -> norefs o -> IF F h -> IF F (h ++ [o]) /\ loose (h ++ [o]) (VRef (length h)).
  Proof.
    intros [SA _] S Nr [I Fh]. split; [split; [apply Inv_alloc; auto|auto]|].
    simpl. split; [rewrite app_length; simpl; lia|].
    rewrite refcount_app. simpl. rewrite (norefs_orefs o _ Nr).
    destruct I as [_ (Hc & _)]. rewrite (refcount_fresh h (length h) Hc); lia.
  Qed.

  Definition ty_plain (t : ty) : Prop := match t with TSpec _ => False | _ => True end.

  (* type_instantiate of a non-spec type: a scalar, or a fresh empty collection *)
  Lemma instantiate_quiet rec t F :
    cstable F -> ty_plain t ->
    T (IF F) (instantiate_ty rec t) (fun v h => IF F h /\ loose h v) (IF F).
  Proof.
    intros SF Pt.
    assert (Al : forall o, shape o < 3 -> norefs o ->
              T (IF F) (l <- alloc o ;; ret (VRef l)) (fun v h => IF F h /\ loose h v) (IF F)).
    { intros o S Nr. eapply T_bind; [|intros l; apply T_ret; intros h H; exact H].
      eapply T_pre; [|apply T_alloc]. intros h H. cbv beta. apply IF_alloc; auto. }
    destruct t; simpl in *; try contradiction;
      try (apply T_ret; intros h H; split; [exact H|exact I]);
      try (apply T_fail; auto);
      apply Al; simpl; try lia; intros c [].
  Qed.

  (* the mutate_value calls made for leaf collection attributes and their items *)
  Definition prep_plain (p : prep) : Prop :=
    match p with
    | PNone => True
    | PAttr _ => False
    | PItem sp _ => a_prepare_item sp = None /\ scalar_ty (item_type (a_ty sp)) = true
    end.

  Definition mv_plain (m : mv_args) : Prop :=
    prep_plain (mv_prepare m) /\ mv_attrs m = None /\ mv_transform m = None /\
    mv_attr_transforms m = [] /\
    exists t ety, mv_ctor m = Some (CtorTy t) /\ ty_plain t /\ mv_expected m = Some ety.

  Lemma hpure_str_key v : hpure (str_key_to_aid v).
  Proof. destruct v; simpl; hpgo. Qed.

  Lemma prepare_item_plain rec sp inst item :
    a_prepare_item sp = None -> scalar_ty (item_type (a_ty sp)) = true ->
    prepare_item ct rec sp inst item = ret item.
  Proof.
    intros Hp Hs. unfold prepare_item. rewrite Hp. destruct (scalar_nospec _ Hs) as [_ ->]. reflexivity.
  Qed.

  Definition mv_res (m : mv_args) (r : val) (h : heap_t) : Prop :=
    r = mv_old m \/ r = mv_new m \/ loose h r.

  Lemma mv_body_quiet rec m F :
    cstable F -> mv_plain m ->
    T (IF F) (mutate_value_body ct rec m) (fun r h => IF F h /\ mv_res m r h) (IF F).
  Proof.
    intros SF (Hprep & Hattrs & Hxf & Hats & t & ety & Hctor & Pt & Hexp).
    destruct m as [old new repl prepare attrs ctor expd xf ats inpl].
    cbn [mv_prepare mv_attrs mv_transform mv_attr_transforms mv_ctor mv_expected] in *. subst.
    unfold mutate_value_body, mv_res.
    cbn [mv_old mv_new mv_replace mv_prepare mv_attrs mv_ctor mv_expected mv_transform mv_attr_transforms mv_inplace].
    set (use_new := negb (is_missing new) && negb match new with VEmpty => true | _ => false end).
    set (value0 := if use_new then new else if repl then VMissing else old).
    assert (V0 : forall h, value0 = old \/ value0 = new \/ loose h value0).
    { intro h. unfold value0. destruct use_new; auto. destruct repl; auto. right; right; exact I. }
    (* step 1: prepare *)
    eapply T_bind with (Q := fun value1 h => IF F h /\ value1 = value0).
    { destruct (if use_new || repl then prepare else PNone) eqn:Ep.
      - apply T_ret; auto.
      - exfalso. destruct (use_new || repl); [subst prepare; exact Hprep|discriminate].
      - assert (Hp : a_prepare_item sp = None /\ scalar_ty (item_type (a_ty sp)) = true).
        { destruct (use_new || repl); [subst prepare; exact Hprep|discriminate]. }
        destruct Hp as [Hp1 Hp2]. rewrite prepare_item_plain by auto. apply T_ret; auto. }
    intros value1.
    eapply T_bind; [apply T_get_heap|]. intros h0. cbv zeta.
    (* steps 3/4 *)
    eapply T_bind with
      (Q := fun (r : val * bool * list aid) h => IF F h /\ (fst (fst r) = value0 \/ loose h (fst (fst r)))).
    { cbv beta iota.
      match goal with |- T _ (if ?b then _ else _) _ _ => destruct b end.
      - eapply T_pre with (P := IF F); [tauto|].
        eapply T_bind; [apply T_hpure; [destruct value1; simpl; hpgo|auto]|]. intros l.
        eapply T_bind; [apply T_hpure; [apply hpure_read|auto]|]. intros o.
        destruct o; try (apply T_fail; auto).
        eapply T_bind; [apply T_hpure; [|auto]|].
        { apply hpure_mapM. intros p. apply hpure_bind; [apply hpure_str_key|intros; apply hpure_ret]. }
        intros kw. cbv zeta.
        match goal with |- T _ (match ?x with [] => _ | _ :: _ => _ end) _ _ => destruct x end;
          [|apply T_fail; auto].
        eapply T_bind; [apply instantiate_quiet; auto|]. intros v.
        apply T_ret. intros h [H L]. simpl. auto.
      - destruct (is_missing value1).
        + eapply T_pre with (P := IF F); [tauto|].
          eapply T_bind; [apply instantiate_quiet; auto|]. intros v.
          apply T_ret. intros h [H L]. simpl. auto.
        + apply T_ret. intros h [_ [H ->]]. simpl. auto. }
    intros [[value2 safe2] used]. cbv beta iota. cbn [fst].
    eapply T_bind with (Q := fun (r5 : val * bool) h => IF F h /\ (fst r5 = value0 \/ loose h (fst r5))).
    { apply T_ret. auto. }
    intros [value3 safe3]. cbv beta iota. cbn [fst].
    eapply T_bind with (Q := fun value4 h => IF F h /\ (value4 = value0 \/ loose h value4)).
    { apply T_ret. auto. }
    intros value4. apply T_ret. intros h [H [E|L]]; (split; [exact H|]); [rewrite E; apply V0|right; right; exact L].
  Qed.

  Lemma mv_quiet rec m F :
    cstable F -> mv_plain m ->
    T (IF F) (mutate_value ct rec m) (fun r h => IF F h /\ mv_res m r h) (IF F).
  Proof.
    intros SF Hm. pose proof (mv_body_quiet rec m F SF Hm) as B.
    unfold mutate_value. destruct (mv_new m); try exact B.
    apply T_ret. intros h H. split; auto. left. reflexivity.
  Qed.

  Lemma exec_mv_quiet fuel m F :
    cstable F -> mv_plain m ->
    T (IF F) (exec ct fuel (KMutateValue m)) (fun r h => IF F h /\ mv_res m r h) (IF F).
  Proof.
    intros SF Hm. destruct fuel as [|f]; [apply T_fail; auto|]. apply mv_quiet; auto.
  Qed.
End Quiet.
