(* do_not_copy attributes are carried into a deep copy by identity (C02). *)
From Coq Require Import List ZArith Bool Arith Lia.
From SC Require Import Base.Res Base.PyList Inst.Heap Inst.ClassTable Inst.Model Inst.Framed Inst.FrameProofs Inst.SepProofs.
Import ListNotations.
Open Scope nat_scope.

Lemma dc_top_carries_dnc ct :
  (forall c k, lookup_cls ct c = Some k -> c_dnc k = false) ->
  forall f s l c d k r s',
    nth_error (heap s) l = Some (OInst c d) -> lookup_cls ct c = Some k ->
    dc ct (S f) (VRef l) [] s = (Ok r, s') ->
    exists r' d', fst r = VRef r' /\ nth_error (heap s') r' = Some (OInst c d') /\ Forall2 (carried k) d d'.
Proof.
  intros no_dnc f s l c d k r s' Hn Hk Hdc.
  cbn [dc assoc find option_map] in Hdc.
  apply bind_inv in Hdc. destruct Hdc as (o & s0 & Hrd & Hdc).
  unfold read in Hrd. rewrite Hn in Hrd. inversion Hrd; subst o s0. clear Hrd.
  rewrite Hk, (no_dnc c k Hk) in Hdc.
  apply bind_inv in Hdc. destruct Hdc as (new & s1 & Hal & Hdc).
  unfold alloc in Hal. inversion Hal; subst new s1. clear Hal.
  apply bind_inv in Hdc. destruct Hdc as (memo' & s2 & Hfold & Hdc).
  apply bind_inv in Hdc. destruct Hdc as (u & s3 & Hpc & Hdc). inversion Hdc; subst r s3. clear Hdc.
  assert (Hn1 : nth_error (heap {| heap := heap s ++ [OInst c []]; ncalls := ncalls s; fail_at := fail_at s |})
                          (length (heap s)) = Some (OInst c [])).
  { simpl. rewrite nth_error_app2 by lia. rewrite Nat.sub_diag. reflexivity. }
  destruct (dc_fold_carried ct no_dnc k c f (length (heap s)) d [] []
              {| heap := heap s ++ [OInst c []]; ncalls := ncalls s; fail_at := fail_at s |} memo' s2 Hn1 Hfold)
    as (d' & Hd' & Hc).
  exists (length (heap s)), d'. split; [reflexivity|]. split; [|exact Hc]. simpl in Hd'.
  assert (Hlt : length (heap s) < length (heap s2)) by (apply nth_error_Some; congruence).
  assert (Hfr : frame (S (length (heap s))) s2 s').
  { destruct (c_post_copy k) as [g|].
    - apply bind_inv in Hpc. destruct Hpc as (v & s4 & Hap & Hr). inversion Hr; subst.
      destruct (framed_apply_fn (S (length (heap s))) g VNone s2 Hlt) as [Fr _]. rewrite Hap in Fr. exact Fr.
    - inversion Hpc; subst. apply frame_refl. }
  destruct Hfr as [_ Fr]. rewrite Fr by lia. exact Hd'.
Qed.

Lemma deepcopy_unfold ct v : deepcopy ct v = (r <- dc ct FUEL v [] ;; ret (fst r)).
Proof. reflexivity. Qed.

Theorem deepcopy_carries_dnc ct :
  (forall c k, lookup_cls ct c = Some k -> c_dnc k = false) ->
  forall s l c d k r' s',
    nth_error (heap s) l = Some (OInst c d) -> lookup_cls ct c = Some k ->
    deepcopy ct (VRef l) s = (Ok (VRef r'), s') ->
    exists d', nth_error (heap s') r' = Some (OInst c d') /\ Forall2 (carried k) d d'.
Proof.
  intros no_dnc s l c d k r' s' Hn Hk Hrun.
  assert (HF : exists f, FUEL = S f) by (exists 63; reflexivity). destruct HF as [f HF].
  rewrite deepcopy_unfold in Hrun. rewrite HF in Hrun.
  apply bind_inv in Hrun. destruct Hrun as (r & s1 & Hdc & Hret).
  inversion Hret; subst s1. clear Hret.
  destruct (dc_top_carries_dnc ct no_dnc f s l c d k r s' Hn Hk Hdc) as (r0 & d' & E & H1 & H2).
  rewrite E in H0. inversion H0; subst r0. exists d'. auto.
Qed.
