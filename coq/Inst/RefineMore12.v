(* C05 refinement, nested values: transform_<a>(x=f, ..., _inplace=True) applies
   per-attribute transforms to the existing nested spec value -- on a deep copy
   of it, which then replaces the old one in the receiver. *)
From Coq Require Import List ZArith Bool Arith Lia.
From SC Require Import Base.Res Base.PyList Inst.Heap Inst.ClassTable Inst.Model Inst.Canon
  Inst.Abs Inst.SpecHelpers Inst.ElemProofs Inst.Framed Inst.RefineProofs Inst.CopyProofs Inst.CopyStore
  Inst.RefineMore Inst.RefineMore2 Inst.RefineMore4 Inst.RefineMore8 Inst.RefineMore11.
Import ListNotations.
Open Scope nat_scope.

#[local] Opaque FUEL.

Section TransformAllFlat.
  Variable ct : ctable.
  Variables (l : loc) (c : cid) (k : cls).
  Hypothesis Hc : lookup_cls ct c = Some k.
  Hypothesis Hfz : c_frozen k = false.
  Hypothesis Hni : no_inval k.

  Lemma transform_all_flat f0 : forall kwfn d s,
    nth_error (heap s) l = Some (OInst c d) -> NoDup (map fst d) -> flat_fields (heap s) d ->
    fail_at s = None -> forallb (kwfn_ok k d) kwfn = true ->
    forall u s', transform_all ct (exec ct (S (S f0))) l kwfn s = (Ok u, s') ->
    flat_recv l c s' /\ fail_at s' = None.
  Proof.
    induction kwfn as [|[a0 g0] kwfn IH]; intros d s Hl Hd Hflat Hfa Hkws u s' H.
    - unfold transform_all in H. cbn [iterM] in H. inversion H; subst. split; [exists d; auto|exact Hfa].
    - cbn [forallb] in Hkws. apply andb_true_iff in Hkws. destruct Hkws as [Hk0 Hkws].
      unfold kwfn_ok in Hk0. cbn [fst snd] in Hk0.
      destruct (lookup_attr k a0) as [sp|] eqn:Ha0; [|discriminate].
      apply andb_true_iff in Hk0. destruct Hk0 as [Hk0 Hcur].
      apply andb_true_iff in Hk0. destruct Hk0 as [Hk0 Hg0].
      apply andb_true_iff in Hk0. destruct Hk0 as [Hk0 Hp0].
      apply andb_true_iff in Hk0. destruct Hk0 as [Hty Hnc].
      apply Nat.ltb_lt in Hty. apply negb_true_iff in Hnc.
      assert (Hp : match a_prepare sp with Some f => scalar_fn f = true | None => True end)
        by (destruct (a_prepare sp); auto).
      rewrite transform_all_cons in H.
      rewrite (bind_ok _ _ _ _ _ (getattr_default_run ct l c k Hc a0 sp d s Hl Ha0)) in H.
      pose proof (apply_fn_scalar g0 (cur_val a0 d k) s Hfa Hg0 Hcur) as Hap.
      destruct (afn g0 (abs0 (cur_val a0 d k))) as [nv|e| |]; try contradiction.
      + destruct Hap as [v' [Hrun [_ Hv']]]. rewrite (bind_ok _ _ _ _ _ Hrun) in H.
        assert (is_missing v' = false) as Em by (destruct v'; cbn [vscalar] in Hv'; try discriminate; reflexivity).
        rewrite Em in H. cbv beta iota in H. rewrite bind_assoc in H. unfold bind at 1 in H.
        rewrite exec_S_set in H.
        rewrite (setattr_unfold ct _ l a0 c d k sp v' false (ticked s) Hl Hc Ha0) in H.
        assert (Hpass : negb (false || initializing d) && c_frozen k = false) by (rewrite Hfz; apply andb_false_r).
        pose proof (assign_scalar_closed ct l a0 c d k sp s Hl Hc Ha0 Hd (aok_flat (heap s) l c d Hl Hflat)
                      Hni Hty Hnc Hp f0 false v' (ticked s) Hpass (heap_ticked s) Hfa Hv') as Hs.
        destruct (assign_gen ct l a0 sp (exec ct (S f0)) false v' (ticked s)) as [[r|e] s1]; [|discriminate H].
        destruct Hs as [_ [w [s2 [Hh2 [Hf2 [Hw [-> _]]]]]]].
        rewrite bind_ret in H.
        assert (Hlen : l < length (heap s2)) by (rewrite Hh2; apply nth_error_Some; congruence).
        assert (Hkws' : forallb (kwfn_ok k (assoc_set a0 w d)) kwfn = true).
        { apply forallb_forall. intros p Hp'. apply kwfn_ok_assoc_set; auto.
          rewrite forallb_forall in Hkws. now apply Hkws. }
        exact (IH _ _ (upd_at s2 l _ Hlen) (nodup_assoc_set a0 w d Hd)
                 (flat_after_store l c d s s2 a0 w Hl Hflat Hh2 Hw)
                 (eq_trans (fail_at_upd s2 l _) Hf2) Hkws' u s' H).
      + rewrite (bind_err _ _ _ _ _ Hap) in H. discriminate H.
  Qed.
End TransformAllFlat.

Section NestedTransformBody.
  Variable ct : ctable.
  Local Opaque iterM thawed deepcopy.

  Lemma transform_nested_body_ok rec ln cn dn ctor ety p0 ps s ln' s2 :
    nth_error (heap s) ln = Some (OInst cn dn) ->
    deepcopy ct (VRef ln) s = (Ok (VRef ln'), s2) ->
    mutate_value ct rec (mkmv (VRef ln) VMissing false PNone None (Some ctor) (Some ety) None (p0 :: ps) false) s =
    bind (thawed ct ln' true (transform_all ct rec ln' (p0 :: ps))) (fun _ => ret (VRef ln')) s2.
  Proof.
    intros Hn Hdc. unfold mutate_value. cbn [mv_new]. unfold mutate_value_body.
    cbn [mv_new mv_old mv_replace mv_prepare mv_attrs mv_ctor mv_expected mv_transform mv_attr_transforms
         mv_inplace is_missing negb andb orb].
    cbn [bind ret get_heap thawed_val loc_of existsb]. rewrite Hn. cbn [andb is_missing].
    rewrite ?bind_ret. unfold protect. cbn [val_is_scalar].
    rewrite (bind_ok _ _ _ _ _ Hdc). cbn [thawed_val]. now rewrite transform_loop_at.
  Qed.
End NestedTransformBody.

Section SpecNestedTransform.
  Variable ct : ctable.
  Variable h0 : list obj.

  Lemma spec_value_nested_kwfn cn F c0 t p ps :
    spec_value ct h0 (sexec ct h0 SFUEL) (AInst cn F) AMissing false SPNone None (Some c0) (Some t) None (p :: ps) =
    sfold (spec_kwfn_step ct h0) (p :: ps) (AInst cn F).
  Proof. reflexivity. Qed.
End SpecNestedTransform.

Section TransformNested.
  Variable ct : ctable.
  Variable h0 : list obj.
  Variables (l : loc) (a : aid) (c : cid) (d : list (aid * val)) (k : cls) (sp : attr_spec).
  Variable s : state.
  Variables (ln : loc) (cn : cid) (dn : list (aid * val)) (kn : cls).
  Hypothesis Hl : nth_error (heap s) l = Some (OInst c d).
  Hypothesis Hc : lookup_cls ct c = Some k.
  Hypothesis Ha : lookup_attr k a = Some sp.
  Hypothesis Hd : NoDup (map fst d).
  Hypothesis Hok : aok (absv (heap s) (VRef l)) = true.
  Hypothesis Hfz : c_frozen k = false.
  Hypothesis Hni : no_inval k.
  Hypothesis Hfa : fail_at s = None.
  Hypothesis Hty : ty_depth (a_ty sp) < FUEL.
  Hypothesis Hnc : ty_is_collection (a_ty sp) = false.
  Hypothesis Hprep : a_prepare sp = None \/ a_prepare sp = Some FId.
  Hypothesis Hclosed : closed (length (heap s)) (heap s).
  Hypothesis Hcur : assoc a d = Some (VRef ln).
  Hypothesis Hn : nth_error (heap s) ln = Some (OInst cn dn).
  Hypothesis Hcn : lookup_cls ct cn = Some kn.
  Hypothesis Hdn : NoDup (map fst dn).
  Hypothesis Hflatn : flat_fields (heap s) dn.
  Hypothesis Hdncn : c_dnc kn = false.
  Hypothesis Hfzn : c_frozen kn = false.
  Hypothesis Hnin : no_inval kn.
  Hypothesis Hpcn : c_post_copy kn = None.

  Let flds := map (fun p => (fst p, abs 23 (heap s) (snd p))) (sorted_fields d).
  Notation X := (absv (heap s) (VRef l)).

  Theorem transform_nested_inplace_refines p0 ps :
    forallb (kwfn_ok kn dn) (p0 :: ps) = true ->
    let h := mkh [] true true VMissing false None None (p0 :: ps) None in
    let ah := mkah [] true true AMissing false None None (p0 :: ps) None in
    match run_helper ct l (HTransform a) h s with
    | (Ok r, s') => r = VRef l /\
                    spec_helper ct h0 X (STransform a) ah = SOk (absv (heap s') (VRef l)) /\
                    (forall i, i < length (heap s) -> i <> l -> nth_error (heap s') i = nth_error (heap s) i)
    | (Err e, s') => spec_helper ct h0 X (STransform a) ah = SErr e /\
                     (forall i, i < length (heap s) -> nth_error (heap s') i = nth_error (heap s) i)
    end.
  Proof.
    intros Hkws h ah.
    assert (Hlb : l < length (heap s)) by (apply nth_error_Some; congruence).
    assert (Hnok : aok (abs 23 (heap s) (VRef ln)) = true) by (exact (aok_flat_gen (heap s) ln cn dn 21 Hn Hflatn)).
    assert (Hcur_abs : read_attr ct h0 (AInst c flds) a = SOk (abs 23 (heap s) (VRef ln))).
    { unfold read_attr, flds. rewrite (assoc_flds d s Hd a), Hcur. reflexivity. }
    assert (Habs_n : abs 23 (heap s) (VRef ln) = absv (heap s) (VRef ln)).
    { unfold absv. symmetry. exact (aok_mono 23 (heap s) (VRef ln) Hnok). }
    assert (Hspec : spec_helper ct h0 X (STransform a) ah =
                    (nv <~ sfold (spec_kwfn_step ct h0) (p0 :: ps) (absv (heap s) (VRef ln)) ;;
                     spec_with ct h0 (AInst c flds) a nv None)).
    { rewrite (spec_helper_inplace_unfrozen ct h0 l c d k s Hl Hc Hfz (STransform a) ah eq_refl). fold flds.
      unfold spec_unfrozen, spec_transform, attr_of, cls_for, ah. cbn [ah_fn ah_kwfn].
      rewrite Hc. cbn [sbind]. rewrite Ha. rewrite Hcur_abs. cbn [sbind].
      rewrite (abs_inst (heap s) ln cn dn 22 Hn).
      rewrite (spec_value_nested_kwfn ct h0 cn _ _ _ _ _).
      rewrite <- (abs_inst (heap s) ln cn dn 22 Hn), Habs_n. reflexivity. }
    rewrite Hspec. clear Hspec.
    unfold run_helper, h. cbn [h_if negb h_inplace h_fn h_kwfn].
    rewrite (bind_ok _ _ _ _ _ (spec_for_run ct l a c d k sp s Hl Hc Ha s eq_refl)). cbn [snd].
    assert (Hcv : current_value ct l sp true true s = (Ok (VRef ln), s)).
    { unfold current_value, getattr_default. rewrite (a_name_sp a k sp Ha).
      rewrite bind_assoc. rewrite (bind_ok _ _ _ _ _ (read_inst_at l s c d Hl)). cbn [fst snd]. rewrite Hcur.
      reflexivity. }
    rewrite (bind_ok _ _ _ _ _ Hcv). rewrite exec_XFUEL_mv.
    destruct (copy_twin_dict ct ln cn dn kn s Hn Hcn Hdn Hflatn Hdncn Hfa Hpcn)
      as [ln' [dn' [s2 [Hdc [Hfresh [Hcell [Hdn' [Habs [Hok' [Hfa2 [Hsame Hcurs]]]]]]]]]]].
    unfold bind at 1. rewrite (transform_nested_body_ok ct _ ln cn dn _ _ p0 ps s ln' s2 Hn Hdc).
    unfold bind at 1.
    rewrite (thawed_unfrozen ct ln' _ _ s2 cn dn' kn Hcell Hcn Hfzn).
    assert (Hkws' : forallb (kwfn_ok kn dn') (p0 :: ps) = true).
    { apply forallb_forall. intros p Hp. rewrite forallb_forall in Hkws. specialize (Hkws p Hp).
      unfold kwfn_ok in Hkws |- *. destruct (lookup_attr kn (fst p)); [|discriminate Hkws].
      apply andb_true_iff in Hkws. destruct Hkws as [H1 H2]. rewrite H1. cbn [andb].
      rewrite (Hcurs (fst p) H2). exact H2. }
    pose proof (transform_all_refines ct h0 ln' cn kn Hcn Hfzn Hnin 37 (p0 :: ps) dn' s2 Hcell Hdn' Hok' Hfa2 Hkws') as Hloop.
    rewrite Habs in Hloop.
    assert (Hflat2 : flat_fields (heap s2) dn').
    { destruct (deepcopy_flat_abs ct ln s cn dn kn (VRef ln') s2 0 Hn Hcn Hdncn Hflatn Hdc)
        as [l1 [d1 [E1 [_ [Hc1 [_ [Hf1 _]]]]]]]. inversion E1; subst l1. rewrite Hcell in Hc1. inversion Hc1; subst d1. exact Hf1. }
    pose proof (transform_all_flat ct ln' cn kn Hcn Hfzn Hnin 37 (p0 :: ps) dn' s2 Hcell Hdn' Hflat2 Hfa2 Hkws') as Hflat3.
    destruct (transform_all ct (exec ct 39) ln' (p0 :: ps) s2) as [[u|e] s3].
    - destruct Hloop as [Hfold [Hoth3 Hlen3]]. rewrite Hfold. cbn [sbind].
      destruct (Hflat3 u s3 eq_refl) as [[dn3 [Hcell3 [Hdn3 Hflat3']]] Hfa3]. clear Hflat3.
      unfold ret. cbv beta iota.
      assert (Hne : ln' <> l) by lia.
      assert (Hold3 : forall i, i < length (heap s) -> nth_error (heap s3) i = nth_error (heap s) i).
      { intros i Hi. rewrite Hoth3 by lia. now apply Hsame. }
      assert (Hl3 : nth_error (heap s3) l = Some (OInst c d)) by (rewrite Hold3; [exact Hl|exact Hlb]).
      assert (HX3 : absv (heap s3) (VRef l) = X).
      { unfold absv. apply (abs_agree (length (heap s)) (heap s) (heap s3) Hclosed); [exact Hold3|exact Hlb]. }
      assert (Hok3 : aok (absv (heap s3) (VRef l)) = true) by (now rewrite HX3).
      assert (Hindep3 : forall o, abs 23 (set_nth l o (heap s3)) (VRef ln') = abs 23 (heap s3) (VRef ln')).
      { intro o. exact (flat_indep (heap s3) ln' cn dn3 l c d o 21 Hcell3 Hflat3' Hl3 Hne). }
      pose proof (with_attr_instance_refines ct h0 l a c d k sp s3 ln' cn dn3 Hl3 Hc Ha Hd Hok3 Hfz Hni Hfa3 Hty Hnc Hprep
                    Hcell3 (aok_flat_gen (heap s3) ln' cn dn3 21 Hcell3 Hflat3') Hindep3) as H.
      rewrite HX3 in H. rewrite (absv_recv l c d s Hl) in H. fold flds in H.
      destruct (with_attr ct l sp (VRef ln') None true s3) as [[r|e] s'].
      + destruct H as [-> [Hs Hoth]]. split; [reflexivity|]. split; [exact Hs|].
        intros i Hi Hil. rewrite Hoth by exact Hil. now apply Hold3.
      + destruct H as [Hs Hh]. split; [exact Hs|]. intros i Hi. rewrite Hh. now apply Hold3.
    - destruct Hloop as [Hfold [Hoth3 Hlen3]]. rewrite Hfold. cbn [sbind]. split; [reflexivity|].
      intros i Hi. rewrite Hoth3 by lia. now apply Hsame.
  Qed.
End TransformNested.
