(* copy.deepcopy / DeepCopyMethod.deepcopy preserve the abstraction, for
   "flat" instances: every attribute value is a scalar or a list / dict / set
   of scalars (sharing between attributes allowed).  This is what lifts the
   in-place refinement theorems of RefineProofs.v to the copy-on-write calls
   (layer (i): scalar-typed attributes and containers of scalars). *)
From Coq Require Import List ZArith Bool Arith Lia.
From SC Require Import Base.Res Base.PyList Inst.Heap Inst.ClassTable Inst.Model Inst.Canon
  Inst.Abs Inst.SpecHelpers Inst.ElemProofs Inst.Framed Inst.RefineProofs.
Import ListNotations.
Open Scope nat_scope.

(* ------------------------------------------------------------------ *)
(** * States *)

Definition push (s : state) (o : obj) : state := mkst (heap s ++ [o]) (ncalls s) (fail_at s).

Lemma alloc_run o s : alloc o s = (Ok (length (heap s)), push s o).
Proof. reflexivity. Qed.

Lemma state_eta s : mkst (heap s) (ncalls s) (fail_at s) = s.
Proof. destruct s; reflexivity. Qed.

Lemma set_nth_same {A} n (x : A) l : nth_error l n = Some x -> set_nth n x l = l.
Proof. revert n; induction l as [|y l IH]; intros [|n] H; simpl in *; try discriminate; [inversion H; auto|f_equal; auto]. Qed.

Lemma set_nth_set_nth {A} n (x y : A) l : set_nth n y (set_nth n x l) = set_nth n y l.
Proof. revert n; induction l as [|z l IH]; intros [|n]; simpl; auto. f_equal; auto. Qed.

Lemma set_nth_last {A} (x y : A) l : set_nth (length l) y (l ++ [x]) = l ++ [y].
Proof. induction l; simpl; auto. f_equal; auto. Qed.

Lemma upd_same s l o : nth_error (heap s) l = Some o -> upd s l o = s.
Proof. intro H. unfold upd. rewrite set_nth_same by auto. apply state_eta. Qed.

Lemma upd_upd s l o1 o2 : upd (upd s l o1) l o2 = upd s l o2.
Proof. unfold upd. simpl. now rewrite set_nth_set_nth. Qed.

Lemma upd_push_last s o1 o2 : upd (push s o1) (length (heap s)) o2 = push s o2.
Proof. unfold upd, push. simpl. now rewrite set_nth_last. Qed.

Lemma write_run l o s : l < length (heap s) -> write l o s = (Ok tt, upd s l o).
Proof. intro H. unfold write. apply Nat.ltb_lt in H. now rewrite H. Qed.

Lemma read_run l s o : nth_error (heap s) l = Some o -> read l s = (Ok o, s).
Proof. intro H. unfold read. now rewrite H. Qed.

(* ------------------------------------------------------------------ *)
(** * Containers of scalars *)

Definition scalar_obj (o : obj) : bool :=
  match o with
  | OList xs => forallb nonref xs
  | ODict kvs => forallb (fun p => nonref (fst p) && nonref (snd p)) kvs
  | OSet xs => forallb nonref xs
  | OInst _ _ => false
  end.

(* its abstraction only depends on the cell itself *)
Lemma abs_scalar_obj h h' l l' o n :
  nth_error h l = Some o -> nth_error h' l' = Some o -> scalar_obj o = true ->
  abs (S n) h' (VRef l') = abs (S n) h (VRef l).
Proof.
  intros H H' Hs. cbn [abs]. rewrite H, H'. destruct o as [xs|kvs|xs|c d]; simpl in Hs; try discriminate.
  - f_equal. apply map_ext_in. intros x Hx. rewrite forallb_forall in Hs.
    rewrite !abs_nonref_eq by auto. reflexivity.
  - f_equal. apply map_ext_in. intros p Hp. rewrite forallb_forall in Hs. specialize (Hs p Hp).
    apply andb_true_iff in Hs. destruct Hs. rewrite !abs_nonref_eq by auto. reflexivity.
  - f_equal. apply map_ext_in. intros x Hx. rewrite forallb_forall in Hs.
    apply In_sort_by in Hx. rewrite !abs_nonref_eq by auto. reflexivity.
Qed.

Section DC.
  Variable ct : ctable.

  Lemma dc_nonref f v memo s : nonref v = true -> dc ct (S f) v memo s = (Ok (v, memo), s).
  Proof. destruct v; simpl; intro H; try discriminate; reflexivity. Qed.

  (* the loops of copy.deepcopy over the elements of a list / dict / set of scalars *)
  Lemma dc_list_loop f l' : forall xs ys m s,
    forallb nonref xs = true -> nth_error (heap s) l' = Some (OList ys) ->
    foldM (fun m x => r <- dc ct (S f) x m ;; o' <- read l' ;;
                      match o' with
                      | OList ys => write l' (OList (ys ++ [fst r])) ;;; ret (snd r)
                      | _ => fail RuntimeErr end) xs m s
    = (Ok m, upd s l' (OList (ys ++ xs))).
  Proof.
    induction xs as [|x xs IH]; intros ys m s Hx Hl; cbn [foldM].
    - rewrite app_nil_r, upd_same by auto. reflexivity.
    - simpl in Hx. apply andb_true_iff in Hx. destruct Hx as [Hx Hxs].
      rewrite bind_assoc. rewrite (bind_ok _ _ _ _ _ (dc_nonref f x m s Hx)).
      rewrite bind_assoc. rewrite (bind_ok _ _ _ _ _ (read_run l' s _ Hl)). cbn [fst snd].
      assert (Hlen : l' < length (heap s)) by (apply nth_error_Some; congruence).
      rewrite bind_assoc. rewrite (bind_ok _ _ _ _ _ (write_run l' _ s Hlen)). rewrite bind_ret.
      rewrite (IH (ys ++ [x]) m _ Hxs) by (now apply upd_at).
      rewrite upd_upd, <- app_assoc. reflexivity.
  Qed.

  Lemma dc_dict_loop f l' : forall kvs ys m s,
    forallb (fun p => nonref (fst p) && nonref (snd p)) kvs = true ->
    nth_error (heap s) l' = Some (ODict ys) ->
    foldM (fun m p => rk <- dc ct (S f) (fst p) m ;; rv <- dc ct (S f) (snd p) (snd rk) ;;
                      o' <- read l' ;;
                      match o' with
                      | ODict ys => write l' (ODict (ys ++ [(fst rk, fst rv)])) ;;; ret (snd rv)
                      | _ => fail RuntimeErr end) kvs m s
    = (Ok m, upd s l' (ODict (ys ++ kvs))).
  Proof.
    induction kvs as [|[k v] kvs IH]; intros ys m s Hx Hl; cbn [foldM].
    - rewrite app_nil_r, upd_same by auto. reflexivity.
    - simpl in Hx. apply andb_true_iff in Hx. destruct Hx as [Hx Hxs].
      apply andb_true_iff in Hx. destruct Hx as [Hk Hv]. cbn [fst snd].
      rewrite bind_assoc. rewrite (bind_ok _ _ _ _ _ (dc_nonref f k m s Hk)). cbn [fst snd].
      rewrite bind_assoc. rewrite (bind_ok _ _ _ _ _ (dc_nonref f v m s Hv)). cbn [fst snd].
      rewrite bind_assoc. rewrite (bind_ok _ _ _ _ _ (read_run l' s _ Hl)).
      assert (Hlen : l' < length (heap s)) by (apply nth_error_Some; congruence).
      rewrite bind_assoc. rewrite (bind_ok _ _ _ _ _ (write_run l' _ s Hlen)). rewrite bind_ret.
      rewrite (IH (ys ++ [(k, v)]) m _ Hxs) by (now apply upd_at).
      rewrite upd_upd, <- app_assoc. reflexivity.
  Qed.

  Lemma dc_set_loop f : forall xs acc m s,
    forallb nonref xs = true ->
    foldM (fun (acc : list val * memo_t) x => r <- dc ct (S f) x (snd acc) ;; ret (fst acc ++ [fst r], snd r))
          xs (acc, m) s
    = (Ok (acc ++ xs, m), s).
  Proof.
    induction xs as [|x xs IH]; intros acc m s Hx; cbn [foldM].
    - now rewrite app_nil_r.
    - simpl in Hx. apply andb_true_iff in Hx. destruct Hx as [Hx Hxs]. cbn [fst snd].
      rewrite bind_assoc. rewrite (bind_ok _ _ _ _ _ (dc_nonref f x m s Hx)). rewrite bind_ret. cbn [fst snd].
      rewrite IH by auto. now rewrite <- app_assoc.
  Qed.

  (* copying a container of scalars that has not been copied yet: one new cell with the same content *)
  Lemma dc_scalar_obj f lx o memo s :
    nth_error (heap s) lx = Some o -> scalar_obj o = true -> assoc lx memo = None ->
    dc ct (S (S f)) (VRef lx) memo s =
    (Ok (VRef (length (heap s)), (lx, length (heap s)) :: memo), push s o).
  Proof.
    intros Hl Hs Hm. cbn [dc]. rewrite Hm. rewrite (bind_ok _ _ _ _ _ (read_run lx s o Hl)).
    destruct o as [xs|kvs|xs|c d]; simpl in Hs; try discriminate.
    - rewrite (bind_ok _ _ _ _ _ (alloc_run (OList []) s)).
      rewrite (bind_ok _ _ _ _ _ (dc_list_loop f (length (heap s)) xs [] _ (push s (OList [])) Hs
                                    ltac:(simpl; rewrite nth_error_app2, Nat.sub_diag by lia; reflexivity))).
      rewrite upd_push_last. reflexivity.
    - rewrite (bind_ok _ _ _ _ _ (alloc_run (ODict []) s)).
      rewrite (bind_ok _ _ _ _ _ (dc_dict_loop f (length (heap s)) kvs [] _ (push s (ODict [])) Hs
                                    ltac:(simpl; rewrite nth_error_app2, Nat.sub_diag by lia; reflexivity))).
      rewrite upd_push_last. reflexivity.
    - rewrite (bind_ok _ _ _ _ _ (dc_set_loop f xs [] memo s Hs)). cbn [fst snd app].
      rewrite (bind_ok _ _ _ _ _ (alloc_run (OSet xs) s)). reflexivity.
  Qed.

  Lemma dc_memo_hit f lx lx' memo s :
    assoc lx memo = Some lx' -> dc ct (S f) (VRef lx) memo s = (Ok (VRef lx', memo), s).
  Proof. intro H. cbn [dc]. now rewrite H. Qed.
End DC.

(* ------------------------------------------------------------------ *)
(** * Flat instances *)

Definition flat_val (h : list obj) (x : val) : Prop :=
  nonref x = true \/ exists lx o, x = VRef lx /\ nth_error h lx = Some o /\ scalar_obj o = true.

Definition flat_fields (h : list obj) (d : list (aid * val)) : Prop :=
  forall p, In p d -> flat_val h (snd p).

Lemma assoc_cons_nat {V} k (p : nat * V) l : assoc k (p :: l) = if fst p =? k then Some (snd p) else assoc k l.
Proof. unfold assoc. simpl. destruct (fst p =? k); reflexivity. Qed.

Section InstCopy.
  Variable ct : ctable.
  Variable h0 : list obj.          (* the heap when the copy starts *)
  Variable new : loc.              (* the cell of the copy *)
  Variable c : cid.
  Variable k : cls.
  Variable f : nat.                (* fuel left for the attribute values: S (S f) *)
  Let b := length h0.
  Hypothesis Hnew : b <= new.

  (* the value stored in the copy for attribute a holding x, given the memo *)
  Definition is_dnc (a : aid) : bool :=
    match lookup_attr k a with Some sp => a_dnc sp | None => false end.
  Definition cp (m : memo_t) (a : aid) (x : val) : val :=
    if is_dnc a then x else
    match x with
    | VRef lx => match assoc lx m with Some lx' => VRef lx' | None => x end
    | _ => x
    end.

  (* memo entries point at fresh cells (not the copy itself) holding the same container of scalars *)
  Definition memo_ok (m : memo_t) (s : state) : Prop :=
    forall lx lx', assoc lx m = Some lx' ->
      lx' <> new /\ b <= lx' /\
      exists o, nth_error h0 lx = Some o /\ scalar_obj o = true /\ nth_error (heap s) lx' = Some o.

  Definition framed_from (s : state) : Prop :=
    b <= length (heap s) /\ forall i, i < b -> nth_error (heap s) i = nth_error h0 i.

  (* every non-dnc reference among the processed fields has a memo entry *)
  Definition covered (m : memo_t) (d : list (aid * val)) : Prop :=
    forall a lx, In (a, VRef lx) d -> is_dnc a = false -> assoc lx m <> None.

  Definition field_step (m : memo_t) (p : aid * val) : M memo_t :=
    let '(a, x) := p in
    r <- (match lookup_attr k a with
          | Some sp => if a_dnc sp then ret (x, m)
                       else if val_is_scalar x then ret (x, m) else dc ct (S (S f)) x m
          | None => if val_is_scalar x then ret (x, m) else dc ct (S (S f)) x m
          end) ;;
    o' <- read new ;;
    match o' with
    | OInst c' d' => write new (OInst c' (d' ++ [(a, fst r)])) ;;; ret (snd r)
    | _ => fail RuntimeErr end.

  Definition memo_ext (m m' : memo_t) : Prop :=
    forall lx lx', assoc lx m = Some lx' -> assoc lx m' = Some lx'.

  Lemma cp_ext m m' a x : memo_ext m m' ->
    (forall lx, x = VRef lx -> is_dnc a = false -> assoc lx m <> None) -> cp m' a x = cp m a x.
  Proof.
    intros He Hc. unfold cp. destruct (is_dnc a) eqn:Ed; auto. destruct x; auto.
    destruct (assoc l m) as [l'|] eqn:E; [now rewrite (He _ _ E)|].
    exfalso. eapply Hc; eauto.
  Qed.

  Lemma field_loop : forall d dacc m s,
    framed_from s -> nth_error (heap s) new = Some (OInst c dacc) -> memo_ok m s ->
    flat_fields h0 d ->
    exists m' s',
      foldM field_step d m s = (Ok m', s') /\
      framed_from s' /\ memo_ok m' s' /\ memo_ext m m' /\ covered m' d /\
      nth_error (heap s') new = Some (OInst c (dacc ++ map (fun p => (fst p, cp m' (fst p) (snd p))) d)) /\
      ncalls s' = ncalls s /\ fail_at s' = fail_at s /\ length (heap s) <= length (heap s').
  Proof.
    induction d as [|[a x] d IH]; intros dacc m s Hfr Hcell Hm Hflat.
    - exists m, s. cbn [foldM map]. rewrite app_nil_r.
      split; [reflexivity|]. split; [exact Hfr|]. split; [exact Hm|]. split; [intros lx lx' H; exact H|].
      split; [intros a0 lx0 []|]. split; [exact Hcell|]. split; [reflexivity|]. split; [reflexivity|lia].
    - assert (Hx : flat_val h0 x) by (apply (Hflat (a, x)); simpl; auto).
      assert (Hflat' : flat_fields h0 d) by (intros p Hp; apply Hflat; simpl; auto).
      assert (Hlen : new < length (heap s)) by (apply nth_error_Some; congruence).
      (* the copy of this field: value x', memo m1, state s1 *)
      assert (Hstep : exists x' m1 s1,
                (match lookup_attr k a with
                 | Some sp => if a_dnc sp then ret (x, m)
                              else if val_is_scalar x then ret (x, m) else dc ct (S (S f)) x m
                 | None => if val_is_scalar x then ret (x, m) else dc ct (S (S f)) x m
                 end) s = (Ok (x', m1), s1) /\
                x' = cp m1 a x /\ framed_from s1 /\ memo_ok m1 s1 /\ memo_ext m m1 /\
                (forall lx, x = VRef lx -> is_dnc a = false -> assoc lx m1 <> None) /\
                nth_error (heap s1) new = Some (OInst c dacc) /\
                ncalls s1 = ncalls s /\ fail_at s1 = fail_at s /\ length (heap s) <= length (heap s1)).
      { assert (Hkeep : is_dnc a = true \/ nonref x = true ->
                        exists x' m1 s1, ret (x, m) s = (Ok (x', m1), s1) /\ x' = cp m1 a x /\ framed_from s1 /\
                          memo_ok m1 s1 /\ memo_ext m m1 /\
                          (forall lx, x = VRef lx -> is_dnc a = false -> assoc lx m1 <> None) /\
                          nth_error (heap s1) new = Some (OInst c dacc) /\
                          ncalls s1 = ncalls s /\ fail_at s1 = fail_at s /\ length (heap s) <= length (heap s1)).
        { intro H. exists x, m, s. split; [reflexivity|]. split.
          { unfold cp. destruct H as [-> | H]; auto. destruct (is_dnc a); auto. destruct x; auto; discriminate. }
          split; [exact Hfr|]. split; [exact Hm|]. split; [intros lx lx' E; exact E|]. split.
          { intros lx -> Hd. destruct H as [H|H]; [congruence|discriminate]. }
          split; [exact Hcell|]. split; [reflexivity|]. split; [reflexivity|lia]. }
        assert (Hdc : is_dnc a = false -> val_is_scalar x = false ->
                      exists x' m1 s1, dc ct (S (S f)) x m s = (Ok (x', m1), s1) /\ x' = cp m1 a x /\ framed_from s1 /\
                          memo_ok m1 s1 /\ memo_ext m m1 /\
                          (forall lx, x = VRef lx -> is_dnc a = false -> assoc lx m1 <> None) /\
                          nth_error (heap s1) new = Some (OInst c dacc) /\
                          ncalls s1 = ncalls s /\ fail_at s1 = fail_at s /\ length (heap s) <= length (heap s1)).
        { intros Hd Hsc. destruct Hx as [Hx|[lx [o [-> [Ho Hso]]]]].
          - rewrite dc_nonref by auto. apply Hkeep. auto.
          - destruct (assoc lx m) as [lx'|] eqn:E.
            + rewrite (dc_memo_hit ct _ lx lx' m s E). exists (VRef lx'), m, s. split; [reflexivity|]. split.
              { unfold cp. now rewrite Hd, E. }
              split; [exact Hfr|]. split; [exact Hm|]. split; [intros a0 b0 H; exact H|]. split.
              { intros lx0 H _. inversion H; subst. congruence. }
              split; [exact Hcell|]. split; [reflexivity|]. split; [reflexivity|lia].
            + assert (Hlx : lx < b) by (apply nth_error_Some; congruence).
              assert (Ho' : nth_error (heap s) lx = Some o) by (destruct Hfr as [_ Hfr]; rewrite Hfr; auto).
              rewrite (dc_scalar_obj ct f lx o m s Ho' Hso E).
              exists (VRef (length (heap s))), ((lx, length (heap s)) :: m), (push s o).
              split; [reflexivity|]. split.
              { unfold cp. rewrite Hd, assoc_cons_nat. simpl. now rewrite Nat.eqb_refl. }
              split.
              { split.
                - simpl. rewrite app_length. destruct Hfr. lia.
                - intros i Hi. simpl. destruct Hfr as [Hb Hfr]. rewrite nth_error_app1 by (unfold b in *; lia). auto. }
              split.
              { intros a0 b0 H. rewrite assoc_cons_nat in H. simpl in H. destruct (lx =? a0) eqn:F.
                - inversion H; subst b0. apply Nat.eqb_eq in F. subst a0. split; [lia|]. split; [destruct Hfr; lia|].
                  exists o. split; auto. split; auto. simpl. now rewrite nth_error_app2, Nat.sub_diag by lia.
                - destruct (Hm a0 b0 H) as [H1 [H2 [o' [H3 [H4 H5]]]]]. split; auto. split; auto.
                  exists o'. split; auto. split; auto. simpl. rewrite nth_error_app1; auto. apply nth_error_Some. congruence. }
              split.
              { intros a0 b0 H. rewrite assoc_cons_nat. simpl. destruct (lx =? a0) eqn:F; auto.
                apply Nat.eqb_eq in F. subst a0. congruence. }
              split.
              { intros lx0 H _. inversion H; subst. rewrite assoc_cons_nat. simpl. rewrite Nat.eqb_refl. discriminate. }
              split; [simpl; rewrite nth_error_app1; auto|].
              split; [reflexivity|]. split; [reflexivity|]. simpl. rewrite app_length. lia. }
        destruct (lookup_attr k a) as [sp|] eqn:Ea.
        - assert (Edn : is_dnc a = a_dnc sp) by (unfold is_dnc; now rewrite Ea).
          destruct (a_dnc sp) eqn:Ed; [apply Hkeep; left; exact Edn|].
          destruct (val_is_scalar x) eqn:Es; [apply Hkeep; right; destruct x; simpl in *; auto; discriminate|].
          apply Hdc; auto.
        - assert (Edn : is_dnc a = false) by (unfold is_dnc; now rewrite Ea).
          destruct (val_is_scalar x) eqn:Es; [apply Hkeep; right; destruct x; simpl in *; auto; discriminate|].
          apply Hdc; auto. }
      destruct Hstep as [x' [m1 [s1 [E1 [Ex' [Hfr1 [Hm1 [Hext1 [Hcov1 [Hcell1 [Hn1 [Hf1 Hl1]]]]]]]]]]]].
      assert (Hlen1 : new < length (heap s1)) by lia.
      set (s2 := upd s1 new (OInst c (dacc ++ [(a, x')]))).
      assert (Hfr2 : framed_from s2).
      { unfold s2, framed_from, upd. simpl. rewrite set_nth_length. destruct Hfr1 as [H1 H2]. split; auto.
        intros i Hi. rewrite set_nth_other by (unfold b in *; lia). auto. }
      assert (Hm2 : memo_ok m1 s2).
      { intros lx lx' H. destruct (Hm1 lx lx' H) as [H1 [H2 [o [H3 [H4 H5]]]]]. split; auto. split; auto.
        exists o. repeat split; auto. unfold s2, upd. simpl. rewrite set_nth_other by auto. exact H5. }
      destruct (IH (dacc ++ [(a, x')]) m1 s2 Hfr2 (upd_at s1 new _ Hlen1) Hm2 Hflat')
        as [m' [s' [E2 [Hfr' [Hm' [Hext' [Hcov' [Hcell' [Hn' [Hf' Hl']]]]]]]]]].
      exists m', s'. split.
      { cbn [foldM]. unfold field_step at 1. rewrite bind_assoc.
        rewrite (bind_ok _ _ _ _ _ E1). cbn [fst snd].
        rewrite bind_assoc. rewrite (bind_ok _ _ _ _ _ (read_run new s1 _ Hcell1)).
        rewrite bind_assoc. rewrite (bind_ok _ _ _ _ _ (write_run new _ s1 Hlen1)). rewrite bind_ret.
        exact E2. }
      split; auto. split; auto. split.
      { intros lx lx' H. apply Hext', Hext1, H. }
      split.
      { intros a0 lx0 [H|H] Hd.
        - inversion H; subst. intro F. apply (Hcov1 lx0 eq_refl Hd).
          destruct (assoc lx0 m1) as [q|] eqn:G; auto. rewrite (Hext' _ _ G) in F. discriminate.
        - eapply Hcov'; eauto. }
      split.
      { rewrite Hcell'. f_equal. f_equal. rewrite <- app_assoc. cbn [map app fst snd]. f_equal. f_equal. f_equal.
        rewrite Ex'. symmetry. apply cp_ext; auto. }
      unfold s2 in *. simpl in *. rewrite set_nth_length in Hl'. repeat split; try congruence; lia.
  Qed.
End InstCopy.

(* ------------------------------------------------------------------ *)
(** * deepcopy of a flat instance *)

Lemma apply_fn_effect f v s r s' :
  apply_fn f v s = (r, s') ->
  fail_at s' = fail_at s /\ length (heap s) <= length (heap s') /\
  (forall i, i < length (heap s) -> nth_error (heap s') i = nth_error (heap s) i).
Proof.
  unfold apply_fn, bind, tick. intro H.
  assert (T : forall s1, heap s1 = heap s -> fail_at s1 = fail_at s ->
              forall r1 s2, (match f with
                   | FId => ret v
                   | FAddInt z => match v with
                                  | VInt x => ret (VInt (x + z)%Z)
                                  | VBool b => ret (VInt ((if b then 1 else 0) + z)%Z)
                                  | _ => fail TypeErr end
                   | FConst c => match c with VRef _ => fail RuntimeErr | _ => ret c end
                   | FNewList xs => l <- alloc (OList xs) ;; ret (VRef l)
                   | FAppended x =>
                       match v with
                       | VRef l => o <- read l ;;
                                   match o with
                                   | OList ys => l' <- alloc (OList (ys ++ [x])) ;; ret (VRef l')
                                   | _ => fail TypeErr end
                       | _ => fail TypeErr end
                   | FDictOf k x => l <- alloc (ODict [(VStr k, x)]) ;; ret (VRef l)
                   | FRaise => fail UserErr
                   end) s1 = (r1, s2) ->
              fail_at s2 = fail_at s /\ length (heap s) <= length (heap s2) /\
              (forall i, i < length (heap s) -> nth_error (heap s2) i = nth_error (heap s) i)).
  { intros s1 Hh Hf r1 s2 E.
    assert (Same : forall rr, (rr, s1) = (r1, s2) -> fail_at s2 = fail_at s /\ length (heap s) <= length (heap s2) /\
                   (forall i, i < length (heap s) -> nth_error (heap s2) i = nth_error (heap s) i)).
    { intros rr E'. inversion E'; subst. rewrite Hh, Hf. repeat split; auto. }
    assert (Pushed : forall o rr, (rr, push s1 o) = (r1, s2) -> fail_at s2 = fail_at s /\ length (heap s) <= length (heap s2) /\
                   (forall i, i < length (heap s) -> nth_error (heap s2) i = nth_error (heap s) i)).
    { intros o rr E'. inversion E'; subst. simpl. rewrite Hh, Hf, app_length. repeat split; auto; [lia|].
      intros i Hi. now apply nth_error_app1. }
    destruct f.
    - eapply Same; exact E.
    - destruct v; try (eapply Same; exact E).
    - destruct v0; try (eapply Same; exact E).
    - eapply Pushed. exact E.
    - destruct v; try (eapply Same; exact E). unfold bind, read in E.
      destruct (nth_error (heap s1) l) as [[ys| | |]|]; try (eapply Same; exact E).
      eapply Pushed. exact E.
    - eapply Pushed. exact E.
    - eapply Same; exact E. }
  destruct (fail_at s) as [n|] eqn:Ef.
  - destruct (n =? S (ncalls s)).
    + inversion H; subst. simpl. repeat split; auto.
    + refine (T _ _ _ _ _ H); reflexivity.
  - refine (T _ _ _ _ _ H); reflexivity.
Qed.

Lemma insert_by_map_keys {A B} (ka : A -> Z) (kb : B -> Z) (g : A -> B) :
  (forall x, kb (g x) = ka x) ->
  forall x l, insert_by kb (g x) (map g l) = map g (insert_by ka x l).
Proof.
  intros Hk x l. induction l as [|y l IH]; simpl; auto.
  rewrite !Hk. destruct (ka x <=? ka y)%Z; simpl; auto. now rewrite IH.
Qed.

Lemma sort_by_map_keys {A B} (ka : A -> Z) (kb : B -> Z) (g : A -> B) :
  (forall x, kb (g x) = ka x) -> forall l, sort_by kb (map g l) = map g (sort_by ka l).
Proof.
  intros Hk l. induction l as [|x l IH]; simpl; auto.
  rewrite IH. now apply insert_by_map_keys.
Qed.

Section DeepcopyFlat.
  Variable ct : ctable.

  (* one level of DeepCopyMethod.deepcopy on an instance that is not in the memo *)
  Lemma dc_inst_unfold f l memo s c d k :
    assoc l memo = None -> nth_error (heap s) l = Some (OInst c d) -> lookup_cls ct c = Some k -> c_dnc k = false ->
    dc ct (S (S (S f))) (VRef l) memo s =
    (new <- alloc (OInst c []) ;;
     memo' <- foldM (field_step ct new k f) d memo ;;
     (match c_post_copy k with Some g => apply_fn g VNone ;;; ret tt | None => ret tt end) ;;;
     ret (VRef new, (l, new) :: memo')) s.
  Proof.
    intros Hm Hl Hc Hd. remember (S (S f)) as f0 eqn:Ef.
    cbn [dc]. rewrite Hm. rewrite (bind_ok _ _ _ _ _ (read_run l s _ Hl)). rewrite Hc, Hd. subst f0. reflexivity.
  Qed.

  Theorem dc_flat f l s c d k r0 m0 s' :
    nth_error (heap s) l = Some (OInst c d) -> lookup_cls ct c = Some k -> c_dnc k = false ->
    flat_fields (heap s) d ->
    dc ct (S (S (S f))) (VRef l) [] s = (Ok (r0, m0), s') ->
    let new := length (heap s) in
    exists m',
      r0 = VRef new /\
      nth_error (heap s') new = Some (OInst c (map (fun p => (fst p, cp k m' (fst p) (snd p))) d)) /\
      memo_ok (heap s) new m' s' /\ covered k m' d /\
      fail_at s' = fail_at s /\ length (heap s) < length (heap s') /\
      (forall i, i < length (heap s) -> nth_error (heap s') i = nth_error (heap s) i).
  Proof.
    intros Hl Hc Hdnc Hflat H new.
    rewrite (dc_inst_unfold f l (@nil (loc * loc)) s c d k eq_refl Hl Hc Hdnc) in H.
    rewrite (bind_ok _ _ _ _ _ (alloc_run (OInst c []) s)) in H.
    fold new in H.
    (* the attribute loop *)
    assert (Hfr0 : framed_from (heap s) (push s (OInst c []))).
    { split; simpl; [rewrite app_length; lia|]. intros i Hi. now apply nth_error_app1. }
    assert (Hcell0 : nth_error (heap (push s (OInst c []))) new = Some (OInst c [])).
    { simpl. unfold new. now rewrite nth_error_app2, Nat.sub_diag by lia. }
    assert (Hm0 : memo_ok (heap s) new [] (push s (OInst c []))) by (intros lx lx' E; discriminate).
    destruct (field_loop ct (heap s) new c k f (le_n _) d [] [] _ Hfr0 Hcell0 Hm0 Hflat)
      as [m' [s1 [Eloop [Hfr1 [Hm1 [_ [Hcov1 [Hcell1 [Hn1 [Hf1 Hl1]]]]]]]]]].
    rewrite (bind_ok _ _ _ _ _ Eloop) in H. cbn [app] in Hcell1.
    apply bind_inv in H. destruct H as [u [s2 [Hpc Hret]]]. inversion Hret; subst r0 m0 s'. clear Hret.
    (* the __post_copy__ hook only allocates *)
    assert (Hpost : fail_at s2 = fail_at s1 /\ length (heap s1) <= length (heap s2) /\
                    (forall i, i < length (heap s1) -> nth_error (heap s2) i = nth_error (heap s1) i)).
    { destruct (c_post_copy k) as [g|].
      - apply bind_inv in Hpc. destruct Hpc as [w [s3 [Hg Hr]]]. inversion Hr; subst. eapply apply_fn_effect; eauto.
      - inversion Hpc; subst. repeat split; auto. }
    destruct Hpost as [Hf2 [Hl2 Hsame2]].
    assert (Hnewlt : new < length (heap s1)) by (apply nth_error_Some; congruence).
    exists m'. split; [reflexivity|]. split; [rewrite Hsame2 by exact Hnewlt; exact Hcell1|]. split.
    { intros lx lx' E. destruct (Hm1 lx lx' E) as [H1 [H2 [o [H3 [H4 H5]]]]]. split; auto. split; auto.
      exists o. split; auto. split; auto. rewrite Hsame2; auto. apply nth_error_Some. congruence. }
    split; [exact Hcov1|]. split; [simpl in Hf1; congruence|]. split; [unfold new in Hnewlt; lia|].
    intros i Hi. rewrite Hsame2 by (destruct Hfr1; lia). destruct Hfr1 as [_ Hfr1]. apply Hfr1. exact Hi.
  Qed.

  Lemma deepcopy_unfold v s : deepcopy ct v s = (r <- dc ct (S (S (S 61))) v [] ;; ret (fst r)) s.
  Proof. reflexivity. Qed.

  Theorem deepcopy_flat l s c d k r s' :
    nth_error (heap s) l = Some (OInst c d) -> lookup_cls ct c = Some k -> c_dnc k = false ->
    flat_fields (heap s) d ->
    deepcopy ct (VRef l) s = (Ok r, s') ->
    let new := length (heap s) in
    exists m',
      r = VRef new /\
      nth_error (heap s') new = Some (OInst c (map (fun p => (fst p, cp k m' (fst p) (snd p))) d)) /\
      memo_ok (heap s) new m' s' /\ covered k m' d /\
      fail_at s' = fail_at s /\ length (heap s) < length (heap s') /\
      (forall i, i < length (heap s) -> nth_error (heap s') i = nth_error (heap s) i).
  Proof.
    intros Hl Hc Hdnc Hflat H. rewrite deepcopy_unfold in H.
    apply bind_inv in H. destruct H as [[r0 m0] [s0 [H Hr]]]. inversion Hr; subst r s0. clear Hr.
    exact (dc_flat 61 l s c d k r0 m0 s' Hl Hc Hdnc Hflat H).
  Qed.

  (* the copy is abstractly the original, and is again a flat instance *)
  Theorem deepcopy_flat_abs l s c d k r s' n :
    nth_error (heap s) l = Some (OInst c d) -> lookup_cls ct c = Some k -> c_dnc k = false ->
    flat_fields (heap s) d ->
    deepcopy ct (VRef l) s = (Ok r, s') ->
    exists l' d',
      r = VRef l' /\ length (heap s) <= l' /\
      nth_error (heap s') l' = Some (OInst c d') /\ map fst d' = map fst d /\ flat_fields (heap s') d' /\
      abs (S (S n)) (heap s') (VRef l') = abs (S (S n)) (heap s) (VRef l) /\
      fail_at s' = fail_at s /\
      (forall i, i < length (heap s) -> nth_error (heap s') i = nth_error (heap s) i).
  Proof.
    intros Hl Hc Hdnc Hflat H.
    destruct (deepcopy_flat l s c d k r s' Hl Hc Hdnc Hflat H) as [m' [Hr [Hcell [Hm [Hcov [Hf [Hlen Hsame]]]]]]].
    set (new := length (heap s)) in *.
    set (G := fun p : aid * val => (fst p, cp k m' (fst p) (snd p))).
    (* each stored value denotes the same container of scalars (or scalar) *)
    assert (Hval : forall a x, In (a, x) d ->
              flat_val (heap s') (cp k m' a x) /\ abs (S n) (heap s') (cp k m' a x) = abs (S n) (heap s) x).
    { intros a x Hin. pose proof (Hflat (a, x) Hin) as Hfx. cbn [snd] in Hfx.
      destruct Hfx as [Hx|[lx [o [-> [Ho Hso]]]]].
      - assert (cp k m' a x = x) as -> by (unfold cp; destruct (is_dnc k a); auto; destruct x; auto; discriminate).
        split; [left; auto|]. now rewrite !abs_nonref_eq.
      - assert (Hlx : lx < length (heap s)) by (apply nth_error_Some; congruence).
        unfold cp. destruct (is_dnc k a) eqn:Ed.
        + split; [right; exists lx, o; repeat split; auto; rewrite Hsame; auto|].
          eapply abs_scalar_obj; eauto. rewrite Hsame; auto.
        + destruct (assoc lx m') as [lx'|] eqn:E; [|exfalso; eapply Hcov; eauto].
          destruct (Hm lx lx' E) as [_ [_ [o' [Ho' [Hso' Hcell']]]]].
          rewrite Ho in Ho'. inversion Ho'; subst o'.
          split; [right; exists lx', o; repeat split; auto|]. eapply abs_scalar_obj; eauto. }
    exists new, (map G d). split; auto. split; [unfold new; lia|]. split; [exact Hcell|]. split.
    { rewrite map_map. apply map_ext. reflexivity. }
    split.
    { intros p Hp. apply in_map_iff in Hp. destruct Hp as [[a x] [<- Hin]]. cbn [snd G fst]. apply (Hval a x Hin). }
    split; auto.
    rewrite (abs_inst _ new c (map G d) (S n) Hcell), (abs_inst _ l c d (S n) Hl). f_equal.
    unfold sorted_fields.
    rewrite (sort_by_map_keys (fun p : aid * val => Z.of_nat (fst p)) (fun p : aid * val => Z.of_nat (fst p)) G)
      by reflexivity.
    rewrite map_map. apply map_ext_in. intros [a x] Hin. apply In_sort_by in Hin. cbn [G fst snd]. f_equal.
    apply (Hval a x Hin).
  Qed.
End DeepcopyFlat.

(* ------------------------------------------------------------------ *)
(** * The store on the copy, inside the `_thawed` window *)

Lemma assoc_assoc_del {V} k a (l : list (nat * V)) :
  assoc k (assoc_del a l) = if a =? k then None else assoc k l.
Proof.
  unfold assoc_del. induction l as [|p l IH]; simpl.
  - destruct (a =? k); reflexivity.
  - destruct (fst p =? a) eqn:E; simpl.
    + rewrite IH, assoc_cons_nat. apply Nat.eqb_eq in E. rewrite E. destruct (a =? k); reflexivity.
    + rewrite !assoc_cons_nat, IH. destruct (fst p =? k) eqn:F; auto.
      destruct (a =? k) eqn:G; auto. apply Nat.eqb_eq in F. apply Nat.eqb_eq in G. apply Nat.eqb_neq in E. congruence.
Qed.

Lemma in_assoc_del {V} (q : nat * V) a l : In q (assoc_del a l) -> In q l /\ fst q <> a.
Proof.
  unfold assoc_del. rewrite filter_In. intros [H1 H2]. split; auto.
  apply negb_true_iff in H2. now apply Nat.eqb_neq in H2.
Qed.

Lemma nodup_assoc_del {V} a (l : list (nat * V)) : NoDup (map fst l) -> NoDup (map fst (assoc_del a l)).
Proof.
  unfold assoc_del. induction l as [|p l IH]; simpl; intro H; auto.
  inversion H as [|? ? Hp Hl]; subst. destruct (negb (fst p =? a)); simpl; auto.
  constructor; auto. intro Hin. apply Hp. apply in_map_iff in Hin. destruct Hin as [q [E Hq]].
  apply filter_In in Hq. apply in_map_iff. exists q. tauto.
Qed.

Section ThawedStore.
  Variable ct : ctable.
  Variable rec : call -> M val.

  Lemma raw_delattr_at l a s c d w :
    nth_error (heap s) l = Some (OInst c d) -> assoc a d = Some w ->
    raw_delattr l a s = (Ok tt, upd s l (OInst c (assoc_del a d))).
  Proof.
    intros Hl Ha. unfold raw_delattr. rewrite (bind_ok _ _ _ _ _ (read_inst_at l s c d Hl)). cbn [fst snd].
    rewrite Ha. apply write_run. apply nth_error_Some. congruence.
  Qed.

  (* the dictionary of the copy after `with _thawed(copy): copy.a = v` *)
  Definition stored (frozen : bool) (a : aid) (v : val) (d : list (aid * val)) : list (aid * val) :=
    if frozen then assoc_del A_INITIALIZING (assoc_set a v (assoc_set A_INITIALIZING (VBool true) d))
    else assoc_set a v d.

  Lemma stored_lookup frozen a v d k0 :
    a <> A_INITIALIZING -> assoc A_INITIALIZING d = None ->
    assoc k0 (stored frozen a v d) = if a =? k0 then Some v else assoc k0 d.
  Proof.
    intros Ha Hd. unfold stored. destruct frozen.
    - rewrite assoc_assoc_del, !assoc_assoc_set.
      destruct (A_INITIALIZING =? k0) eqn:E.
      + apply Nat.eqb_eq in E. subst k0. destruct (a =? A_INITIALIZING) eqn:F; [apply Nat.eqb_eq in F; congruence|].
        now rewrite Hd.
      + reflexivity.
    - apply assoc_assoc_set.
  Qed.

  Lemma stored_nodup frozen a v d : NoDup (map fst d) -> NoDup (map fst (stored frozen a v d)).
  Proof.
    intro H. unfold stored. destruct frozen.
    - apply nodup_assoc_del. apply nodup_assoc_set. now apply nodup_assoc_set.
    - now apply nodup_assoc_set.
  Qed.

  Lemma stored_in frozen a v d q : In q (stored frozen a v d) -> q = (a, v) \/ In q d.
  Proof.
    unfold stored. destruct frozen.
    - intro H. apply in_assoc_del in H. destruct H as [H Hne]. apply in_assoc_set in H. destruct H as [H|H]; auto.
      apply in_assoc_set in H. destruct H as [H|H]; auto.
      (* the bookkeeping entry itself was deleted again *)
      subst q. simpl in Hne. congruence.
    - apply in_assoc_set.
  Qed.
End ThawedStore.

Section ThawedRun.
  Variable ct : ctable.
  Variable rec : call -> M val.

  Lemma thawed_store_run l' a v s c d k :
    nth_error (heap s) l' = Some (OInst c d) -> lookup_cls ct c = Some k -> no_inval k ->
    assoc A_INITIALIZING d = None ->
    thawed ct l' true (raw_setattr l' a v ;;; invalidate_attrs ct rec l' a) s =
    (Ok tt, upd s l' (OInst c (stored (c_frozen k) a v d))).
  Proof.
    intros Hl Hc Hn Hi.
    assert (Hlen : l' < length (heap s)) by (apply nth_error_Some; congruence).
    assert (HM : forall d0, (raw_setattr l' a v ;;; invalidate_attrs ct rec l' a) (upd s l' (OInst c d0)) =
                            (Ok tt, upd s l' (OInst c (assoc_set a v d0)))).
    { intro d0.
      rewrite (bind_ok _ _ _ _ _ (raw_setattr_at l' a v _ c d0 (upd_at s l' _ Hlen))). rewrite upd_upd.
      apply (invalidate_attrs_none ct rec l' a _ c (assoc_set a v d0) k); auto. now apply upd_at. }
    unfold thawed. rewrite (bind_ok _ _ _ _ _ (read_run l' s _ Hl)).
    rewrite (bind_ok _ _ _ _ _ (cls_of_at ct c s k Hc)).
    unfold initializing. rewrite Hi. cbn [negb orb]. unfold stored.
    destruct (c_frozen k); cbn [negb orb].
    - rewrite (bind_ok _ _ _ _ _ (raw_setattr_at l' A_INITIALIZING (VBool true) s c d Hl)).
      unfold finally_. rewrite HM.
      assert (Hw : exists w, assoc A_INITIALIZING (assoc_set a v (assoc_set A_INITIALIZING (VBool true) d)) = Some w).
      { rewrite !assoc_assoc_set, Nat.eqb_refl. destruct (a =? A_INITIALIZING); eauto. }
      destruct Hw as [w Hw].
      rewrite (raw_delattr_at l' A_INITIALIZING _ c _ w (upd_at s l' _ Hlen) Hw). now rewrite upd_upd.
    - rewrite <- (upd_same s l' (OInst c d) Hl) at 1. apply HM.
  Qed.
End ThawedRun.

