(* C05 refinement: values built from nothing.  with_<a>() / with_<a>(MISSING)
   store an empty value of the declared type (`type()`: 0, '', False, None;
   Optional / Union / Any cannot be instantiated: TypeError), without running
   the preparer; transform_<a>(f) on an attribute that holds nothing starts
   from that empty value. *)
From Coq Require Import List ZArith Bool Arith Lia.
From SC Require Import Base.Res Base.PyList Inst.Heap Inst.ClassTable Inst.Model Inst.Canon
  Inst.Abs Inst.SpecHelpers Inst.ElemProofs Inst.Framed Inst.RefineProofs Inst.CopyProofs Inst.RefineMore.
Import ListNotations.
Open Scope nat_scope.

#[local] Opaque FUEL.

Definition empty_val (t : ty) : option val :=
  match t with
  | TInt => Some (VInt 0%Z) | TStr => Some (VStr 0%Z) | TBool => Some (VBool false) | TNoneT => Some VNone
  | _ => None
  end.

(* the declared type is neither a collection nor (optionally) a spec class *)
Definition plain_ty (t : ty) : bool :=
  negb (ty_is_collection t) && match spec_of_ty t with None => true | Some _ => false end.

Lemma empty_val_scalar t v : empty_val t = Some v -> vscalar v = true.
Proof. destruct t; simpl; intro H; inversion H; reflexivity. Qed.

Lemma empty_val_conforms ct t v : empty_val t = Some v -> conforms ct t (abs0 v) = true.
Proof. destruct t; simpl; intro H; inversion H; reflexivity. Qed.

Lemma instantiate_plain rec t s : plain_ty t = true ->
  instantiate_ty rec t s = match empty_val t with Some v => (Ok v, s) | None => (Err TypeErr, s) end.
Proof.
  unfold plain_ty. destruct t; simpl; intro H; try discriminate; try reflexivity.
Qed.

Lemma empty_of_plain rec' t : plain_ty t = true ->
  empty_of rec' t = match empty_val t with Some v => SOk (abs0 v) | None => SErr TypeErr end.
Proof. unfold plain_ty. destruct t; simpl; intro H; try discriminate; reflexivity. Qed.

Lemma ctor_plain t : plain_ty t = true -> ctor_of_ty t = CtorTy t /\ ctor_for t = SCTy t.
Proof.
  unfold plain_ty, ctor_of_ty, ctor_for. intro H. apply andb_true_iff in H. destruct H as [_ H].
  destruct (spec_of_ty t); [discriminate|auto].
Qed.

Section ValueFromNothing.
  Variable ct : ctable.
  Variable rec : call -> M val.

  (* with_<a>() : the value procedure started from nothing builds type() and skips the preparer *)
  Lemma mutate_value_nothing prep t inp s : plain_ty t = true ->
    mutate_value ct rec (mkmv VMissing VMissing false prep None (Some (CtorTy t)) (Some t) None [] inp) s =
    match empty_val t with Some v => (Ok v, s) | None => (Err TypeErr, s) end.
  Proof.
    intro Ht. destruct t; cbn in Ht; try discriminate Ht; reflexivity.
  Qed.

  (* transform_<a>(f) on an attribute that holds nothing *)
  Lemma mutate_value_transform_nothing f t inp s : plain_ty t = true ->
    mutate_value ct rec (mkmv VMissing VMissing false PNone None (Some (CtorTy t)) (Some t) (Some (XFn f, None)) [] inp) s =
    match empty_val t with Some v => apply_fn f v s | None => (Err TypeErr, s) end.
  Proof.
    intro Ht.
    assert (E : forall v, empty_val t = Some v ->
                mutate_value ct rec (mkmv VMissing VMissing false PNone None (Some (CtorTy t)) (Some t) (Some (XFn f, None)) [] inp) s =
                bind (apply_fn f v) (fun w => ret w) s).
    { intros v Hv. destruct t; cbn in Hv; try discriminate Hv; inversion Hv; subst; reflexivity. }
    destruct (empty_val t) as [v|] eqn:Ev.
    - rewrite (E v eq_refl). unfold bind. destruct (apply_fn f v s) as [[w|e] s1]; reflexivity.
    - destruct t; cbn in Ht, Ev; try discriminate Ht; try discriminate Ev; reflexivity.
  Qed.
End ValueFromNothing.

Section SpecFromNothing.
  Variable ct : ctable.
  Variable h0 : list obj.
  Variable rec' : scall -> sres aval.

  Lemma spec_value_nothing prep t : plain_ty t = true ->
    spec_value ct h0 rec' AMissing AMissing false prep None (Some (SCTy t)) (Some t) None [] =
    match empty_val t with Some v => SOk (abs0 v) | None => SErr TypeErr end.
  Proof.
    intro Ht. destruct t; cbn in Ht; try discriminate Ht; reflexivity.
  Qed.

  Lemma spec_value_transform_nothing f t : plain_ty t = true ->
    spec_value ct h0 rec' AMissing AMissing false SPNone None (Some (SCTy t)) (Some t) (Some f) [] =
    match empty_val t with Some v => (v6 <~ afn f (abs0 v) ;; SOk v6) | None => SErr TypeErr end.
  Proof.
    intro Ht. destruct t; cbn in Ht; try discriminate Ht; reflexivity.
  Qed.
End SpecFromNothing.

Section FromNothing.
  Variable ct : ctable.
  Variable h0 : list obj.
  Variables (l : loc) (a : aid) (c : cid) (d : list (aid * val)) (k : cls) (sp : attr_spec).
  Variable s : state.
  Hypothesis Hl : nth_error (heap s) l = Some (OInst c d).
  Hypothesis Hc : lookup_cls ct c = Some k.
  Hypothesis Ha : lookup_attr k a = Some sp.
  Hypothesis Hd : NoDup (map fst d).
  Hypothesis Hok : aok (absv (heap s) (VRef l)) = true.
  Hypothesis Hfz : c_frozen k = false.
  Hypothesis Hni : no_inval k.
  Hypothesis Hfa : fail_at s = None.
  Hypothesis Hty : ty_depth (a_ty sp) < FUEL.
  Hypothesis Hplain : plain_ty (a_ty sp) = true.

  Let flds := map (fun p => (fst p, abs 23 (heap s) (snd p))) (sorted_fields d).

  Lemma Hnc : ty_is_collection (a_ty sp) = false.
  Proof. unfold plain_ty in Hplain. apply andb_true_iff in Hplain. destruct Hplain as [H _]. now apply negb_true_iff in H. Qed.

  (* with_<a>(_inplace=True) / with_<a>(MISSING, _inplace=True): type() is stored, the
     preparer is not consulted *)
  Theorem with_nothing_inplace_refines :
    let h := mkh [] true true VMissing false None None [] None in
    let ah := mkah [] true true AMissing false None None [] None in
    match run_helper ct l (HWith a) h s with
    | (Ok r, s') => r = VRef l /\
                    spec_helper ct h0 (absv (heap s) (VRef l)) (SWith a) ah = SOk (absv (heap s') (VRef l)) /\
                    (forall i, i <> l -> nth_error (heap s') i = nth_error (heap s) i)
    | (Err e, s') => spec_helper ct h0 (absv (heap s) (VRef l)) (SWith a) ah = SErr e /\ heap s' = heap s
    end.
  Proof.
    intros h ah. destruct (ctor_plain (a_ty sp) Hplain) as [Ect Ecf].
    (* the specification *)
    assert (Hspec : spec_helper ct h0 (absv (heap s) (VRef l)) (SWith a) ah =
                    match empty_val (a_ty sp) with
                    | Some v => SOk (AInst c (fset a (abs0 v) flds))
                    | None => SErr TypeErr end).
    { rewrite (spec_helper_inplace_unfrozen ct h0 l c d k s Hl Hc Hfz (SWith a) ah eq_refl). fold flds.
      unfold spec_unfrozen, spec_with, cls_for, apos0, ah. cbn [ah_pos nth ah_kw]. rewrite Hc. cbn [sbind]. rewrite Ha.
      unfold prepared. rewrite Hnc, Ecf. rewrite (spec_value_nothing ct h0 _ _ (a_ty sp) Hplain).
      destruct (empty_val (a_ty sp)) as [v|] eqn:Ev; [|reflexivity]. cbn [sbind].
      unfold flds. rewrite (spec_store_scalar ct a c d k sp s Hc Ha Hni _ v (empty_val_scalar _ _ Ev)).
      now rewrite (empty_val_conforms ct _ _ Ev). }
    rewrite Hspec. clear Hspec.
    (* the model *)
    unfold run_helper, h. cbn [h_if negb pos0 h_pos nth h_kw h_inplace].
    rewrite (bind_ok _ _ _ _ _ (spec_for_run ct l a c d k sp s Hl Hc Ha s eq_refl)). cbn [snd].
    unfold with_attr, prepare_attr_value. rewrite Hnc, Ect. rewrite exec_XFUEL_mv. rewrite (a_name_sp a k sp Ha).
    rewrite !bind_assoc. unfold bind at 1.
    rewrite (mutate_value_nothing ct _ _ (a_ty sp) false s Hplain).
    destruct (empty_val (a_ty sp)) as [v|] eqn:Ev; [|split; reflexivity].
    rewrite bind_ret.
    pose proof (empty_val_scalar _ _ Ev) as Hv.
    assert (Hpass : negb (false || initializing d) && c_frozen k = false) by (rewrite Hfz; apply andb_false_r).
    rewrite (mutate_attr_inplace_pass ct _ l a v true false s c d k Hl Hc Hpass (not_sentinel_scalar v Hv) Hni).
    rewrite Ha. rewrite check_type_nonref by (auto using vscalar_nonref).
    rewrite (empty_val_conforms ct _ _ Ev).
    split; [reflexivity|]. split.
    - now rewrite (abs_after_store l a c d s Hl Hd Hok s v eq_refl Hv).
    - intros i Hi. rewrite heap_upd. apply set_nth_other. intro E. apply Hi. now symmetry.
  Qed.

  (* transform_<a>(f, _inplace=True) on an attribute that holds nothing (no own value, no
     class-level default): starts from type() *)
  Theorem transform_nothing_inplace_refines f :
    match a_prepare sp with Some g => scalar_fn g = true | None => True end ->
    scalar_fn f = true -> cur_val a d k = VMissing ->
    let h := mkh [] true true VMissing false None None [] (Some f) in
    let ah := mkah [] true true AMissing false None None [] (Some f) in
    match run_helper ct l (HTransform a) h s with
    | (Ok r, s') => r = VRef l /\
                    spec_helper ct h0 (absv (heap s) (VRef l)) (STransform a) ah = SOk (absv (heap s') (VRef l)) /\
                    (forall i, i <> l -> nth_error (heap s') i = nth_error (heap s) i)
    | (Err e, s') => spec_helper ct h0 (absv (heap s) (VRef l)) (STransform a) ah = SErr e /\ heap s' = heap s
    end.
  Proof.
    intros Hp Hf Hcur h ah. destruct (ctor_plain (a_ty sp) Hplain) as [Ect Ecf].
    assert (Hnr : nonref (cur_val a d k) = true) by (now rewrite Hcur).
    assert (Hspec : spec_helper ct h0 (absv (heap s) (VRef l)) (STransform a) ah =
                    match empty_val (a_ty sp) with
                    | Some v => (nv <~ afn f (abs0 v) ;; spec_with ct h0 (AInst c flds) a nv None)
                    | None => SErr TypeErr end).
    { rewrite (spec_helper_inplace_unfrozen ct h0 l c d k s Hl Hc Hfz (STransform a) ah eq_refl). fold flds.
      unfold spec_unfrozen, spec_transform, attr_of, cls_for, ah. cbn [ah_fn ah_kwfn].
      rewrite Hc. cbn [sbind]. rewrite Ha.
      unfold flds. rewrite (read_attr_cur ct h0 a c d k sp s Hc Ha Hd Hnr). rewrite Hcur. cbn [sbind abs0].
      rewrite Ecf. rewrite (spec_value_transform_nothing ct h0 _ f (a_ty sp) Hplain).
      destruct (empty_val (a_ty sp)) as [v|]; [|reflexivity].
      destruct (afn f (abs0 v)); reflexivity. }
    rewrite Hspec. clear Hspec.
    unfold run_helper, h. cbn [h_if negb h_inplace h_fn h_kwfn].
    rewrite (bind_ok _ _ _ _ _ (spec_for_run ct l a c d k sp s Hl Hc Ha s eq_refl)). cbn [snd].
    rewrite (bind_ok _ _ _ _ _ (current_value_run ct l a c d k sp s Hl Hc Ha true true s eq_refl Hnr)).
    rewrite Hcur, Ect. rewrite exec_XFUEL_mv.
    unfold bind at 1. rewrite (mutate_value_transform_nothing ct _ f (a_ty sp) false s Hplain).
    destruct (empty_val (a_ty sp)) as [v|] eqn:Ev; [|split; reflexivity].
    pose proof (empty_val_scalar _ _ Ev) as Hv.
    pose proof (apply_fn_scalar f v s Hfa Hf Hv) as Hap.
    destruct (afn f (abs0 v)) as [nv|e| |]; try contradiction.
    - destruct Hap as [v' [Hrun [-> Hv']]]. rewrite Hrun. cbn [sbind].
      unfold flds. rewrite (spec_with_core ct h0 a c d k sp s Hc Ha Hni Hnc Hp v' Hv').
      unfold with_attr. rewrite (a_name_sp a k sp Ha).
      assert (Hpass : negb (false || initializing d) && c_frozen k = false) by (rewrite Hfz; apply andb_false_r).
      pose proof (assign_scalar_closed ct l a c d k sp s Hl Hc Ha Hd Hok Hni Hty Hnc Hp 39 false v' (ticked s)
                    Hpass (heap_ticked s) Hfa Hv') as H.
      unfold assign_gen in H. rewrite <- XFUEL_S in H.
      destruct (bind (prepare_attr_value ct (exec ct XFUEL) sp l v' None)
                     (fun v0 => mutate_attr ct (exec ct XFUEL) l a v0 true true false false) (ticked s)) as [[r|e] s'].
      + destruct H as [-> [w [s2 [Hh2 [_ [_ [Hs' [Hs Habs]]]]]]]]. split; [reflexivity|]. split; [now rewrite Hs, Habs|].
        intros i Hi. rewrite Hs', heap_upd, Hh2. apply set_nth_other. intro E. apply Hi. now symmetry.
      + destruct H as [Hs [Hh _]]. split; [exact Hs|exact Hh].
    - rewrite Hap. cbn [sbind]. split; reflexivity.
  Qed.
End FromNothing.
