(* In-place operations on a frozen instance write nothing: the frozen guard
   of mutate_attr / __delattr__ / the collection mutator precedes every write
   to the receiver, and everything before the guard only allocates. *)
From Coq Require Import List ZArith Bool Arith Lia.
From SC Require Import Base.Res Base.PyList Inst.Heap Inst.ClassTable Inst.Model Inst.Framed Inst.FrameProofs.
Import ListNotations.
Open Scope nat_scope.

(* framed, under a state invariant about cells below the watermark *)
Definition sframed {A} (b : nat) (P : state -> Prop) (m : M A) (Q : A -> Prop) : Prop :=
  forall s, b <= length (heap s) -> P s ->
    frame b s (snd (m s)) /\ match fst (m s) with Ok a => Q a | Err _ => True end.

Definition stable (b : nat) (P : state -> Prop) : Prop :=
  forall s s', frame b s s' -> P s -> P s'.

Lemma sframed_of_framed {A} b P (m : M A) Q : framed b m Q -> sframed b P m Q.
Proof. intros H s Hs _. apply H; auto. Qed.

Lemma sframed_bind {A B} b P (m : M A) (k : A -> M B) Q R :
  stable b P -> sframed b P m Q -> (forall a, Q a -> sframed b P (k a) R) -> sframed b P (bind m k) R.
Proof.
  intros St Hm Hk s Hs Ps. unfold bind. specialize (Hm s Hs Ps).
  destruct (m s) as [[a|e] s1]; simpl in *.
  - destruct Hm as [F Qa]. assert (Hs1 : b <= length (heap s1)) by (destruct F; lia).
    destruct (Hk a Qa s1 Hs1 (St _ _ F Ps)) as [F2 R2]. split; auto. eapply frame_trans; eauto.
  - tauto.
Qed.

Lemma sframed_weaken {A} b P (m : M A) (Q Q' : A -> Prop) :
  sframed b P m Q -> (forall a, Q a -> Q' a) -> sframed b P m Q'.
Proof.
  intros H W s Hs Ps. destruct (H s Hs Ps) as [F Pq]. split; auto. destruct (fst (m s)); auto.
Qed.

Lemma sframed_catch {A} b P (m k : M A) h Q :
  stable b P -> sframed b P m Q -> sframed b P k Q -> sframed b P (catch m h k) Q.
Proof.
  intros St Hm Hk s Hs Ps. unfold catch. specialize (Hm s Hs Ps).
  destruct (m s) as [[a|e] s1]; simpl in *; auto.
  destruct (h e); simpl; auto. destruct Hm as [F _].
  assert (Hs1 : b <= length (heap s1)) by (destruct F; lia).
  destruct (Hk s1 Hs1 (St _ _ F Ps)) as [F2 R2]. split; auto. eapply frame_trans; eauto.
Qed.

Lemma sframed_iterM {A} b P (f : A -> M unit) (l : list A) :
  stable b P -> (forall x, In x l -> sframed b P (f x) (fun _ => True)) ->
  sframed b P (iterM f l) (fun _ => True).
Proof.
  intros St. induction l as [|x l IH]; intro H; simpl.
  - apply sframed_of_framed. now apply framed_ret.
  - eapply sframed_bind; [exact St|apply H; simpl; auto|]. intros _ _. apply IH. intros; apply H; simpl; auto.
Qed.

Lemma bind_ok {A B} (m : M A) (k : A -> M B) s a s1 :
  m s = (Ok a, s1) -> bind m k s = k a s1.
Proof. unfold bind. now intros ->. Qed.
Lemma bind_err {A B} (m : M A) (k : A -> M B) s e s1 :
  m s = (Err e, s1) -> bind m k s = (Err e, s1).
Proof. unfold bind. now intros ->. Qed.

Section Frozen.
  Variable ct : ctable.
  Hypothesis no_dnc : forall c k, lookup_cls ct c = Some k -> c_dnc k = false.
  Variable b : nat.
  Variable l : loc.
  Hypothesis Hl : l < b.

  (* the receiver is a frozen instance that is not being initialised *)
  Definition frozen_at (s : state) : Prop :=
    exists c d k, nth_error (heap s) l = Some (OInst c d) /\ lookup_cls ct c = Some k /\
                  c_frozen k = true /\ initializing d = false.

  Lemma frozen_stable : stable b frozen_at.
  Proof.
    intros s s' [_ F] (c & d & k & H1 & H2). exists c, d, k. rewrite (F l Hl). auto.
  Qed.

  Variable rec : call -> M val.

  Lemma read_inst_at s c d :
    nth_error (heap s) l = Some (OInst c d) -> read_inst l s = (Ok (c, d), s).
  Proof. intro H. unfold read_inst. erewrite bind_ok; [|unfold read; rewrite H; reflexivity]. reflexivity. Qed.

  Lemma cls_of_at s c k : lookup_cls ct c = Some k -> cls_of ct c s = (Ok k, s).
  Proof. intro H. unfold cls_of. now rewrite H. Qed.

  (* the three guards *)
  Lemma mutate_attr_frozen_eq a v tc skip s :
    frozen_at s -> is_sentinel v = false ->
    mutate_attr ct rec l a v true tc false skip s = (Err FrozenErr, s).
  Proof.
    intros (c & d & k & H1 & H2 & H3 & H4) Hv. unfold mutate_attr. rewrite Hv.
    erewrite bind_ok; [|apply read_inst_at; eauto]. simpl fst.
    erewrite bind_ok; [|apply cls_of_at; eauto].
    rewrite bind_err with (e := FrozenErr) (s1 := s); [reflexivity|].
    cbn [snd]. rewrite H4, H3. reflexivity.
  Qed.

  Lemma mutate_attr_frozen a v tc skip :
    sframed b frozen_at (mutate_attr ct rec l a v true tc false skip) (fun r => r = VRef l).
  Proof.
    intros s Hs F. destruct (is_sentinel v) eqn:Hv.
    - unfold mutate_attr. rewrite Hv. simpl. split; auto using frame_refl.
    - rewrite mutate_attr_frozen_eq; auto. simpl. split; auto using frame_refl.
  Qed.

  Lemma delattr_frozen_eq a skip s :
    frozen_at s -> delattr_ ct rec l a false skip s = (Err FrozenErr, s).
  Proof.
    intros (c & d & k & H1 & H2 & H3 & H4). unfold delattr_.
    erewrite bind_ok; [|apply read_inst_at; eauto]. simpl fst.
    erewrite bind_ok; [|apply cls_of_at; eauto].
    rewrite bind_err with (e := FrozenErr) (s1 := s); [reflexivity|].
    cbn [snd]. rewrite H4, H3. reflexivity.
  Qed.

  Lemma delattr_frozen a skip :
    sframed b frozen_at (delattr_ ct rec l a false skip) (fun _ => False).
  Proof. intros s Hs F. rewrite delattr_frozen_eq; auto. simpl. split; auto using frame_refl. Qed.

  Lemma mk_mutator_frozen_eq sp s :
    frozen_at s -> mk_mutator ct sp l true s = (Err FrozenErr, s).
  Proof.
    intros (c & d & k & H1 & H2 & H3 & H4). unfold mk_mutator.
    erewrite bind_ok; [|apply read_inst_at; eauto]. simpl fst.
    erewrite bind_ok; [|apply cls_of_at; eauto].
    rewrite bind_err with (e := FrozenErr) (s1 := s); [reflexivity|].
    cbn [snd]. rewrite H4, H3. reflexivity.
  Qed.

  Lemma mk_mutator_frozen sp :
    sframed b frozen_at (mk_mutator ct sp l true) (fun _ => False).
  Proof. intros s Hs F. rewrite mk_mutator_frozen_eq; auto. simpl. split; auto using frame_refl. Qed.

  Hypothesis Hrec : forall k, call_ok b k -> framed b (rec k) (post b k).

  Lemma setattr_frozen a v skip :
    sframed b frozen_at (setattr_ ct rec l a v false skip) (fun _ => True).
  Proof.
    unfold setattr_.
    eapply sframed_bind; [apply frozen_stable|apply sframed_of_framed; apply read_inst_framed|].
    intros p _.
    eapply sframed_bind; [apply frozen_stable|apply sframed_of_framed; apply (cls_of_framed ct no_dnc)|].
    intros k _.
    eapply sframed_bind with (Q := fun _ => True); [apply frozen_stable| |].
    - apply sframed_of_framed. destruct (lookup_attr k a); [|now apply framed_ret].
      apply prepare_attr_value_framed; auto.
    - intros value _. eapply sframed_weaken; [apply mutate_attr_frozen|auto].
  Qed.

  Lemma delattr_frozen_T a skip :
    sframed b frozen_at (delattr_ ct rec l a false skip) (fun _ => True).
  Proof. eapply sframed_weaken; [apply delattr_frozen|auto]. Qed.

  Lemma thawed_nothaw {A} l' (m : M A) Q :
    sframed b frozen_at m Q -> sframed b frozen_at (thawed ct l' false m) Q.
  Proof.
    intro Hm. unfold thawed.
    eapply sframed_bind; [apply frozen_stable|apply sframed_of_framed; apply framed_read|].
    intros o _. destruct o; auto.
    eapply sframed_bind; [apply frozen_stable|apply sframed_of_framed; apply (cls_of_framed ct no_dnc)|].
    intros k _. simpl. exact Hm.
  Qed.

  (* what the recursive knot does when asked to assign on the frozen receiver *)
  Hypothesis Hrec_set : forall a v skip,
    sframed b frozen_at (rec (KSetAttr l a v false skip)) (fun _ => True).

  (* a value that is either fresh or the frozen receiver itself *)
  Definition okv (v : val) : Prop := freshv b v \/ v = VRef l.

  Lemma setattr_okv v a x skip :
    okv v ->
    sframed b frozen_at (l0 <- loc_of v ;; rec (KSetAttr l0 a x false skip) ;;; ret tt) (fun _ => True).
  Proof.
    intros [Hf| ->].
    - apply sframed_of_framed. destruct v; simpl; try apply framed_fail.
      eapply framed_bind with (Q := fun l1 => l1 = l0); [now apply framed_ret|]. intros l1 ->. simpl in Hf.
      eapply framed_bind; [apply (rec_framed b rec Hrec); exact Hf|]. intros; now apply framed_ret.
    - simpl. unfold bind at 1. simpl.
      eapply sframed_bind with (Q := fun _ => True); [apply frozen_stable|apply Hrec_set|].
      intros; apply sframed_of_framed; now apply framed_ret.
  Qed.

  (* top-level update / transform with _inplace=True on the frozen receiver *)
  Lemma mutate_value_inplace_frozen kw xf kwfn :
    sframed b frozen_at
      (mutate_value ct rec (mkmv (VRef l) VMissing false PNone kw None None xf kwfn true))
      (fun _ => True).
  Proof.
    unfold mutate_value, mutate_value_body.
    cbn [mv_new mv_old mv_replace mv_prepare mv_attrs mv_ctor mv_expected mv_transform mv_attr_transforms mv_inplace is_missing negb andb].
    eapply sframed_bind with (Q := fun v => v = VRef l);
      [apply frozen_stable|apply sframed_of_framed; now apply framed_ret|].
    intros value1 ->.
    eapply sframed_bind; [apply frozen_stable|apply sframed_of_framed; apply framed_get_heap|].
    intros h _.
    eapply sframed_bind with (Q := fun r => r = (VRef l, true, @nil aid));
      [apply frozen_stable|apply sframed_of_framed; now apply framed_ret|].
    intros r ->.
    eapply sframed_bind with (Q := fun r5 : val * bool => r5 = (VRef l, true));
      [apply frozen_stable| |].
    { destruct (match kw with Some l0 => l0 | None => [] end) as [|p0 attrs'];
        [apply sframed_of_framed; now apply framed_ret|].
      eapply sframed_bind with (Q := fun v => v = VRef l);
        [apply frozen_stable|apply sframed_of_framed; now apply framed_ret|].
      intros value3 ->.
      eapply sframed_bind with (Q := fun _ => True); [apply frozen_stable| |].
      - cbn [thawed_val negb]. apply thawed_nothaw. apply sframed_iterM; [apply frozen_stable|].
        intros p _. destruct (existsb _ _); [apply sframed_of_framed; now apply framed_ret|].
        destruct (is_missing (snd p)); [apply sframed_of_framed; now apply framed_ret|].
        apply (setattr_okv (VRef l)). right; reflexivity.
      - intros _ _. apply sframed_of_framed. now apply framed_ret. }
    intros r5 ->.
    eapply sframed_bind with (Q := okv); [apply frozen_stable| |].
    { destruct xf as [x|]; [|apply sframed_of_framed; apply framed_ret; right; reflexivity].
      apply sframed_of_framed. eapply framed_weaken; [apply (apply_xform_framed ct no_dnc b rec Hrec)|].
      intros r [->|Hr]; [right; reflexivity|left; exact Hr]. }
    intros value4 H4.
    destruct kwfn as [|q0 ats]; [apply sframed_of_framed; now apply framed_ret|].
    eapply sframed_bind with (Q := okv);
      [apply frozen_stable|apply sframed_of_framed; apply framed_ret; exact H4|].
    intros value5 H5.
    eapply sframed_bind with (Q := fun _ => True); [apply frozen_stable| |intros; apply sframed_of_framed; now apply framed_ret].
    assert (Hit : sframed b frozen_at
      (iterM (fun p : aid * fn =>
                l0 <- loc_of value5 ;; cur <- getattr_default ct l0 (fst p) ;;
                t <- apply_fn (snd p) cur ;;
                if is_missing t then ret tt else rec (KSetAttr l0 (fst p) t false false) ;;; ret tt)
             (q0 :: ats)) (fun _ => True)).
    { apply sframed_iterM; [apply frozen_stable|]. intros p _.
      destruct value5; simpl; try (apply sframed_of_framed; apply framed_fail).
      unfold bind at 1. simpl.
      eapply sframed_bind; [apply frozen_stable|apply sframed_of_framed; apply (getattr_default_framed ct no_dnc)|].
      intros cur _.
      eapply sframed_bind; [apply frozen_stable|apply sframed_of_framed; apply framed_apply_fn|].
      intros t _. destruct (is_missing t); [apply sframed_of_framed; now apply framed_ret|].
      destruct H5 as [Hf|E].
      - apply sframed_of_framed.
        eapply framed_bind; [apply (rec_framed b rec Hrec); exact Hf|]. intros; now apply framed_ret.
      - inversion E; subst.
        eapply sframed_bind with (Q := fun _ => True); [apply frozen_stable|apply Hrec_set|].
        intros; apply sframed_of_framed; now apply framed_ret. }
    destruct value5; cbn [thawed_val negb]; try exact Hit. apply thawed_nothaw. exact Hit.
  Qed.
End Frozen.

Section FrozenOps.
  Variable ct : ctable.
  Hypothesis no_dnc : forall c k, lookup_cls ct c = Some k -> c_dnc k = false.
  Variable b : nat.
  Variable l : loc.
  Hypothesis Hl : l < b.

  Notation P := (frozen_at ct l).
  Notation St := (frozen_stable ct b l Hl).

  Lemma exec_set_frozen fuel a v skip :
    sframed b P (exec ct fuel (KSetAttr l a v false skip)) (fun _ => True).
  Proof.
    destruct fuel; simpl; [apply sframed_of_framed; apply framed_fail|].
    apply setattr_frozen; auto. apply exec_framed; auto.
  Qed.

  Lemma exec_del_frozen fuel a skip :
    sframed b P (exec ct fuel (KDelAttr l a false skip)) (fun _ => True).
  Proof.
    destruct fuel; simpl; [apply sframed_of_framed; apply framed_fail|].
    apply delattr_frozen_T; auto.
  Qed.

  Lemma exec_mv_frozen fuel kw xf kwfn :
    sframed b P (exec ct fuel (KMutateValue (mkmv (VRef l) VMissing false PNone kw None None xf kwfn true)))
            (fun _ => True).
  Proof.
    destruct fuel; simpl; [apply sframed_of_framed; apply framed_fail|].
    apply mutate_value_inplace_frozen; auto.
    - apply exec_framed; auto.
    - intros. apply exec_set_frozen.
  Qed.

  Local Opaque exec XFUEL.

  Lemma with_attr_inplace_frozen sp new attrs :
    sframed b P (with_attr ct l sp new attrs true) (fun _ => True).
  Proof.
    unfold with_attr.
    eapply sframed_bind with (Q := fun _ => True); [apply St| |].
    - apply sframed_of_framed. apply prepare_attr_value_framed; auto. apply exec_framed; auto.
    - intros v _. eapply sframed_weaken; [apply mutate_attr_frozen; auto|auto].
  Qed.

  (* guard on the call forms: update(_new_value, _inplace=True) replaces the
     receiver by another object and is not an operation on the frozen instance *)
  Definition frozen_form (hp : helper) (h : hargs) : Prop :=
    match hp with HUpdateTop => pos0 h = VMissing | _ => True end.

  Theorem run_helper_inplace_frozen hp h :
    h_inplace h = true -> frozen_form hp h ->
    sframed b P (run_helper ct l hp h) (fun _ => True).
  Proof.
    intros Hin Hform. unfold run_helper.
    destruct (negb (h_if h)); [apply sframed_of_framed; now apply framed_ret|]. rewrite Hin.
    assert (Hsf : forall a, sframed b P (spec_for ct l a) (fun _ => True))
      by (intro; apply sframed_of_framed; apply spec_for_framed; auto).
    assert (Hrecf := exec_framed ct no_dnc b XFUEL).
    destruct hp.
    - eapply sframed_bind; [apply St|apply Hsf|]. intros r _. apply with_attr_inplace_frozen.
    - assert (H : forall p0, sframed b P
        (r <- spec_for ct l a ;; let sp := snd r in
         old <- current_value ct l sp true (is_sentinel p0) ;;
         v <- exec ct XFUEL (KMutateValue (mkmv old p0 false PNone (h_kw h)
                                      (Some (ctor_of_ty (a_ty sp))) (Some (a_ty sp)) None [] false)) ;;
         with_attr ct l sp v None true) (fun _ => True)).
      { intro p0. eapply sframed_bind; [apply St|apply Hsf|]. intros r _. cbv zeta.
        eapply sframed_bind; [apply St|apply sframed_of_framed; apply (current_value_framed ct no_dnc)|].
        intros old _.
        eapply sframed_bind with (Q := fun _ => True); [apply St| |intros; apply with_attr_inplace_frozen].
        apply sframed_of_framed. eapply framed_weaken; [apply Hrecf; reflexivity|auto]. }
      destruct (pos0 h) eqn:Ep; try apply H. apply sframed_of_framed; now apply framed_ret.
    - eapply sframed_bind; [apply St|apply Hsf|]. intros r _. cbv zeta.
      eapply sframed_bind; [apply St|apply sframed_of_framed; apply (current_value_framed ct no_dnc)|].
      intros old _.
      eapply sframed_bind with (Q := fun _ => True); [apply St| |intros; apply with_attr_inplace_frozen].
      apply sframed_of_framed. eapply framed_weaken; [apply Hrecf; reflexivity|auto].
    - (* HReset *)
      eapply sframed_bind with (Q := fun l' => l' = l); [apply St|apply sframed_of_framed; now apply framed_ret|].
      intros l' ->. cbn [negb].
      eapply sframed_bind with (Q := fun _ => True); [apply St| |intros; apply sframed_of_framed; now apply framed_ret].
      apply thawed_nothaw; auto. apply exec_del_frozen.
    - (* HWithItem *) eapply sframed_bind; [apply St|apply Hsf|]. intros r _. cbv zeta.
      eapply sframed_bind; [apply St|apply mk_mutator_frozen; auto|]. intros c [].
    - eapply sframed_bind; [apply St|apply Hsf|]. intros r _. cbv zeta.
      eapply sframed_bind; [apply St|apply mk_mutator_frozen; auto|]. intros c [].
    - eapply sframed_bind; [apply St|apply Hsf|]. intros r _. cbv zeta.
      eapply sframed_bind; [apply St|apply mk_mutator_frozen; auto|]. intros c [].
    - eapply sframed_bind; [apply St|apply Hsf|]. intros r _. cbv zeta.
      eapply sframed_bind; [apply St|apply mk_mutator_frozen; auto|]. intros c [].
    - (* HUpdateTop *) simpl in Hform. rewrite Hform. apply exec_mv_frozen.
    - (* HTransformTop *) apply exec_mv_frozen.
    - (* HResetTop *)
      eapply sframed_bind with (Q := fun l' => l' = l); [apply St|apply sframed_of_framed; now apply framed_ret|].
      intros l' ->. cbn [negb].
      eapply sframed_bind; [apply St|apply sframed_of_framed; apply read_inst_framed|]. intros p _.
      eapply sframed_bind; [apply St|apply sframed_of_framed; apply (cls_of_framed ct no_dnc)|]. intros k _.
      eapply sframed_bind with (Q := fun _ => True); [apply St| |intros; apply sframed_of_framed; now apply framed_ret].
      apply thawed_nothaw; auto. apply sframed_iterM; [apply St|]. intros sp _.
      apply sframed_catch; [apply St| |apply sframed_of_framed; now apply framed_ret].
      eapply sframed_bind with (Q := fun _ => True); [apply St|apply exec_del_frozen|].
      intros; apply sframed_of_framed; now apply framed_ret.
  Qed.

  Theorem setattr_op_frozen a v :
    sframed b P (exec ct XFUEL (KSetAttr l a v false false)) (fun _ => True).
  Proof. apply exec_set_frozen. Qed.

  Theorem delattr_op_frozen a :
    sframed b P (exec ct XFUEL (KDelAttr l a false false)) (fun _ => False).
  Proof.
    Local Transparent XFUEL exec.
    unfold XFUEL. simpl. apply delattr_frozen; auto.
  Qed.
End FrozenOps.
