(* C06: fifth layer of the refinement of the element helpers: with_<item> /
   without_<item> in place on a Set attribute of scalars (add / remove; the
   abstraction of a set is its canonically ordered element list, so adding is
   an ordered insertion and removing a filter). *)
From Coq Require Import List ZArith Bool Arith Lia.
From SC Require Import Base.Res Base.PyList Inst.Heap Inst.ClassTable Inst.Model Inst.Canon
  Inst.Abs Inst.SpecHelpers Inst.ElemProofs Inst.Framed Inst.RefineProofs Inst.CopyProofs Inst.ElemRefineDep Inst.ElemRefine
  Inst.ElemRefine2 Inst.ElemRefine4.
Import ListNotations.
Open Scope nat_scope.

#[local] Opaque FUEL.
Local Opaque py_eq.

(* ------------------------------------------------------------------ *)
(** * Insertion sort: appending, filtering, mapping *)

Section Sorting.
  Context {A : Type}.
  Variable key : A -> Z.

  Lemma insert_by_comm x y l : key x <> key y ->
    insert_by key x (insert_by key y l) = insert_by key y (insert_by key x l).
  Proof.
    intro Hne. induction l as [|z t IH]; cbn [insert_by].
    - destruct (key x <=? key y)%Z eqn:E1, (key y <=? key x)%Z eqn:E2; try reflexivity;
        [apply Z.leb_le in E1; apply Z.leb_le in E2; lia|apply Z.leb_gt in E1; apply Z.leb_gt in E2; lia].
    - destruct (key y <=? key z)%Z eqn:Eyz, (key x <=? key z)%Z eqn:Exz; cbn [insert_by];
        rewrite ?Eyz, ?Exz;
        destruct (key x <=? key y)%Z eqn:E1, (key y <=? key x)%Z eqn:E2; try reflexivity;
        try (rewrite IH; reflexivity);
        repeat match goal with
               | H : (_ <=? _)%Z = true |- _ => apply Z.leb_le in H
               | H : (_ <=? _)%Z = false |- _ => apply Z.leb_gt in H
               end; try lia.
  Qed.

  Lemma sort_by_snoc l v : (forall y, In y l -> key y <> key v) ->
    sort_by key (l ++ [v]) = insert_by key v (sort_by key l).
  Proof.
    induction l as [|x t IH]; intro H; [reflexivity|].
    cbn [app]. unfold sort_by in *. cbn [fold_right]. rewrite IH by (intros; apply H; simpl; auto).
    apply insert_by_comm. apply H. simpl; auto.
  Qed.

  Fixpoint gsorted (l : list A) : Prop :=
    match l with
    | [] => True
    | x :: t => (forall y, In y t -> (key x <= key y)%Z) /\ gsorted t
    end.

  Lemma gsorted_insert v l : gsorted l -> gsorted (insert_by key v l).
  Proof.
    induction l as [|x t IH]; intro Hs; cbn [insert_by].
    - split; [intros y []|exact I].
    - destruct Hs as [Hx Hs]. destruct (key v <=? key x)%Z eqn:E.
      + apply Z.leb_le in E. split; [|split; auto].
        intros y [<-|Hy]; auto. specialize (Hx y Hy). lia.
      + apply Z.leb_gt in E. split; [|auto].
        intros y Hy. apply In_insert_by in Hy. destruct Hy as [->|Hy]; [lia|auto].
  Qed.

  Lemma gsorted_sort l : gsorted (sort_by key l).
  Proof. induction l as [|x t IH]; [exact I|]. unfold sort_by in *. cbn [fold_right]. now apply gsorted_insert. Qed.

  Lemma insert_by_head x l : (forall y, In y l -> (key x <= key y)%Z) -> insert_by key x l = x :: l.
  Proof.
    destruct l as [|y t]; intro H; [reflexivity|]. cbn [insert_by].
    assert ((key x <=? key y)%Z = true) as -> by (apply Z.leb_le; apply H; simpl; auto). reflexivity.
  Qed.

  Lemma filter_insert_by (f : A -> bool) x l : gsorted l ->
    filter f (insert_by key x l) = if f x then insert_by key x (filter f l) else filter f l.
  Proof.
    induction l as [|y t IH]; intro Hs.
    - cbn [insert_by filter]. destruct (f x); reflexivity.
    - destruct Hs as [Hy Hs]. cbn [insert_by]. destruct (key x <=? key y)%Z eqn:E.
      + cbn [filter]. destruct (f x) eqn:Fx; [|reflexivity].
        rewrite insert_by_head; [reflexivity|].
        apply Z.leb_le in E. intros z Hz.
        assert (Hz' : In z (y :: t)).
        { destruct (f y); [destruct Hz as [<-|Hz]; [simpl; auto|]|]; apply filter_In in Hz; simpl; tauto. }
        destruct Hz' as [<-|Hz']; [exact E|]. specialize (Hy z Hz'). lia.
      + cbn [filter]. rewrite (IH Hs). destruct (f y) eqn:Fy, (f x) eqn:Fx; try reflexivity.
        cbn [insert_by]. now rewrite E.
  Qed.

  Lemma sort_by_filter (f : A -> bool) l : sort_by key (filter f l) = filter f (sort_by key l).
  Proof.
    induction l as [|x t IH]; [reflexivity|]. cbn [filter].
    change (sort_by key (x :: t)) with (insert_by key x (sort_by key t)).
    rewrite (filter_insert_by f x (sort_by key t) (gsorted_sort t)).
    destruct (f x); [|exact IH].
    change (sort_by key (x :: filter f t)) with (insert_by key x (sort_by key (filter f t))). now rewrite IH.
  Qed.

  Lemma existsb_insert_by (f : A -> bool) x l : existsb f (insert_by key x l) = f x || existsb f l.
  Proof.
    induction l as [|y t IH]; [reflexivity|]. cbn [insert_by]. destruct (key x <=? key y)%Z; [reflexivity|].
    cbn [existsb]. rewrite IH. destruct (f x), (f y); reflexivity.
  Qed.

  Lemma existsb_sort_by (f : A -> bool) l : existsb f (sort_by key l) = existsb f l.
  Proof.
    induction l as [|x t IH]; [reflexivity|].
    change (sort_by key (x :: t)) with (insert_by key x (sort_by key t)).
    rewrite existsb_insert_by, IH. reflexivity.
  Qed.
End Sorting.

Lemma insert_by_map_in {A B} (ka : A -> Z) (kb : B -> Z) (g : A -> B) x l :
  kb (g x) = ka x -> (forall y, In y l -> kb (g y) = ka y) ->
  insert_by kb (g x) (map g l) = map g (insert_by ka x l).
Proof.
  intros Hx Hl. induction l as [|y l IH]; [reflexivity|]. cbn [map insert_by].
  rewrite Hx, (Hl y) by (simpl; auto). destruct (ka x <=? ka y)%Z; [reflexivity|].
  cbn [map]. rewrite IH; auto. intros; apply Hl; simpl; auto.
Qed.

Lemma akey_abs0 v : nonref v = true -> akey (abs0 v) = atom_key v.
Proof. destruct v; cbn [nonref]; intro; try discriminate; reflexivity. Qed.

(* ------------------------------------------------------------------ *)
(** * Sets of scalars *)

(* the abstraction of the content of a set cell *)
Definition cset (xs : list val) : list aval := map abs0 (sort_by atom_key xs).

Lemma forallb_sort_by {A} (key : A -> Z) (p : A -> bool) l : forallb p l = true -> forallb p (sort_by key l) = true.
Proof. rewrite !forallb_forall. intros H x Hx. apply In_sort_by in Hx. auto. Qed.

Lemma abs_set_scalars h lc xs n :
  nth_error h lc = Some (OSet xs) -> forallb nonref xs = true -> abs (S n) h (VRef lc) = ASet (cset xs).
Proof.
  intros H Hx. cbn [abs]. rewrite H. f_equal. unfold cset. apply map_ext_in. intros x Hi.
  apply In_sort_by in Hi. rewrite forallb_forall in Hx. now rewrite abs_nonref_eq by auto.
Qed.

(* no two distinct scalars of the set (or the new element) share a canonical key *)
Definition set_key_free (ct : ctable) (xs : list val) (v : val) : bool :=
  forallb (fun x => py_eq ct (abs0 x) (abs0 v) || negb (atom_key x =? atom_key v)%Z) xs.

Section SetOps.
  Variable ct : ctable.

  Lemma mem_abs h xs v : forallb nonref xs = true -> nonref v = true ->
    existsb (fun x => val_eqb FUEL ct h x v) xs = set_has ct (cset xs) (abs0 v).
  Proof.
    intros Hx Hv. unfold set_has, cset. rewrite existsb_map, existsb_sort_by.
    apply existsb_ext_in. intros x Hi. rewrite forallb_forall in Hx. now apply val_eqb_nonref; auto.
  Qed.

  Lemma cset_snoc xs v : forallb nonref xs = true -> nonref v = true ->
    set_key_free ct xs v = true -> set_has ct (cset xs) (abs0 v) = false ->
    cset (xs ++ [v]) = insert_by akey (abs0 v) (cset xs).
  Proof.
    intros Hx Hv Hkf Hnm. unfold cset.
    rewrite sort_by_snoc.
    - symmetry. apply insert_by_map_in; [now apply akey_abs0|].
      intros y Hy. apply In_sort_by in Hy. rewrite forallb_forall in Hx. apply akey_abs0; auto.
    - intros y Hy Hk. unfold set_key_free in Hkf. rewrite forallb_forall in Hkf. specialize (Hkf y Hy).
      rewrite Hk, Z.eqb_refl in Hkf. cbn [negb] in Hkf. rewrite orb_false_r in Hkf.
      unfold set_has, cset in Hnm. rewrite existsb_map, existsb_sort_by in Hnm.
      assert (Hex : existsb (fun x => py_eq ct (abs0 x) (abs0 v)) xs = true).
      { apply existsb_exists. exists y. auto. }
      congruence.
  Qed.

  Lemma cset_filter h xs v : forallb nonref xs = true -> nonref v = true ->
    cset (filter (fun x => negb (val_eqb FUEL ct h x v)) xs) = set_remove ct (cset xs) (abs0 v).
  Proof.
    intros Hx Hv. unfold cset, set_remove. rewrite sort_by_filter, filter_map_comm. f_equal.
    apply filter_ext_in'. intros x Hi. apply In_sort_by in Hi. rewrite forallb_forall in Hx.
    now rewrite val_eqb_nonref by auto.
  Qed.

  Lemma read_set_at lc xs s : nth_error (heap s) lc = Some (OSet xs) -> read_set (VRef lc) s = (Ok (lc, xs), s).
  Proof. intro H. unfold read_set. cbn [loc_of_t]. rewrite bind_ret. rewrite (bind_ok _ _ _ _ _ (read_run lc s _ H)). reflexivity. Qed.

  Lemma set_mem_run xs v s : nonref v = true ->
    set_mem ct xs v s = (Ok (existsb (fun x => val_eqb FUEL ct (heap s) x v) xs), s).
  Proof. intro Hv. unfold set_mem. rewrite hashable_nonref, Hv. reflexivity. Qed.

  (* SetMutator._extractor *)
  Lemma set_extractor_run lc xs voi req s :
    nth_error (heap s) lc = Some (OSet xs) -> nonref voi = true ->
    set_extractor ct (VRef lc) voi req s =
    if existsb (fun x => val_eqb FUEL ct (heap s) x voi) xs then (Ok (voi, voi), s)
    else if req then (Err ValueErr, s) else (Ok (voi, VMissing), s).
  Proof.
    intros Hl Hv. unfold set_extractor. rewrite (bind_ok _ _ _ _ _ (read_set_at lc xs s Hl)). cbn [snd].
    rewrite (bind_ok _ _ _ _ _ (set_mem_run xs voi s Hv)).
    destruct (existsb _ xs); [reflexivity|destruct req; reflexivity].
  Qed.
End SetOps.

(* ------------------------------------------------------------------ *)
(** * with_<item>(e) / without_<item>(e), in place, on a set attribute of scalars *)

Section SetAttr.
  Variable ct : ctable.
  Variable h0 : list obj.
  Variables (l : loc) (a : aid) (c : cid) (d : list (aid * val)) (k : cls) (sp : attr_spec).
  Variable s : state.
  Variables (lc : loc) (xs : list val) (ity : ty).
  Hypothesis Hl : nth_error (heap s) l = Some (OInst c d).
  Hypothesis Hc : lookup_cls ct c = Some k.
  Hypothesis Ha : lookup_attr k a = Some sp.
  Hypothesis Hd : NoDup (map fst d).
  Hypothesis Hfz : c_frozen k = false.
  Hypothesis Hni : no_dep k a.
  Hypothesis Hty : a_ty sp = TSet ity.
  Hypothesis Hdepth : ty_depth ity < FUEL.
  Hypothesis Hfld : assoc a d = Some (VRef lc).
  Hypothesis Hlc : nth_error (heap s) lc = Some (OSet xs).
  Hypothesis Hxs : forallb nonref xs = true.
  Hypothesis Hflat : flat_fields (heap s) d.
  Hypothesis Hshare : forall b w, In (b, w) d -> b <> a -> w <> VRef lc.

  Let flds := map (fun p => (fst p, abs 23 (heap s) (snd p))) (sorted_fields d).
  Let axs := cset xs.

  Lemma se_coll : ty_is_collection (a_ty sp) = true.
  Proof. now rewrite Hty. Qed.

  Lemma se_acur : abs 23 (heap s) (VRef lc) = ASet axs.
  Proof. exact (abs_set_scalars (heap s) lc xs 22 Hlc Hxs). Qed.

  Lemma se_item : item_type (a_ty sp) = ity.
  Proof. now rewrite Hty. Qed.

  Lemma se_after ys :
    forallb nonref ys = true ->
    absv (heap (upd s lc (OSet ys))) (VRef l) = AInst c (fset a (ASet (cset ys)) flds).
  Proof.
    intro Hy.
    rewrite (fr_after_edit l a c d s lc (OSet xs) Hl Hd Hfld Hlc Hxs Hflat Hshare s _ eq_refl).
    f_equal. f_equal.
    exact (abs_set_scalars (set_nth lc (OSet ys) (heap s)) lc ys 22
             (nth_error_set_nth_same lc _ (heap s) (fr_lc_len s lc _ Hlc)) Hy).
  Qed.

  Lemma se_store_back ys :
    mutate_attr ct (exec ct XFUEL) l a (VRef lc) true false false false (upd s lc (OSet ys)) =
    (Ok (VRef l), upd s lc (OSet ys)).
  Proof.
    apply (fr_store_back ct l a c d k lc Hc Hd Hfz Hni Hfld).
    apply (fr_recv_after l a c d s lc (OSet xs) Hl Hfld Hlc Hxs Hshare s _ eq_refl).
  Qed.

  (* ---------------- with_<item>(e): set.add ---------------- *)

  Theorem with_item_set_inplace_refines v :
    a_prepare_item sp = None -> spec_of_ty_strict ity = None ->
    vscalar v = true -> set_key_free ct xs v = true ->
    let h := mkh [v] true true VMissing false None None [] None in
    let ah := mkah [abs0 v] true true AMissing false None None [] None in
    match run_helper ct l (HWithItem a) h s with
    | (Ok r, s') => r = VRef l /\
                    spec_helper ct h0 (absv (heap s) (VRef l)) (SWithItem a) ah = SOk (absv (heap s') (VRef l))
    | (Err e, s') => spec_helper ct h0 (absv (heap s) (VRef l)) (SWithItem a) ah = SErr e /\ heap s' = heap s
    end.
  Proof.
    intros Hprep Hstrict Hv Hkf h ah.
    assert (Hstrict' : spec_of_ty_strict (item_type (a_ty sp)) = None) by (now rewrite se_item).
    assert (Hnv : nonref v = true) by (now apply vscalar_nonref).
    set (mem := existsb (fun x => val_eqb FUEL ct (heap s) x v) xs).
    assert (Hmem : set_has ct axs (abs0 v) = mem) by (symmetry; apply mem_abs; auto).
    (* the specification *)
    assert (Hspec : spec_with_item ct h0 sp (abs 23 (heap s) (VRef lc)) ah =
              if conforms ct ity (abs0 v)
              then SOk (ASet (if mem then axs else insert_by akey (abs0 v) axs)) else SErr ValueErr).
    { rewrite se_acur. unfold spec_with_item, ah. rewrite Hty. cbn [ah_pos apos0 nth ah_kw].
      rewrite (elem_pipeline_new_scalar_gen ct h0 sp Hprep Hstrict' _ v true Hv). rewrite se_item.
      destruct (conforms ct ity (abs0 v)); cbn [sbind]; [|reflexivity].
      rewrite (a_hashable_abs0 v Hnv). cbn [apply_elem spec_elem_op]. unfold set_add. rewrite Hmem.
      destruct mem; reflexivity. }
    rewrite (fr_spec_closed ct h0 l a c d k sp s lc (OSet xs) Hl Hc Ha Hd Hfz Hni se_coll Hfld Hlc
               (SWithItem a) (spec_with_item ct h0) ah _ eq_refl eq_refl Hspec). clear Hspec.
    (* the model *)
    assert (Hmc : mutate_collection ct (exec ct XFUEL) FSet sp l (VRef lc)
                    (mkio VMissing v None None [] true false TriTrue false) s =
                  if conforms ct ity (abs0 v)
                  then (Ok (VRef lc), upd s lc (OSet (if mem then xs else xs ++ [v])))
                  else (Err ValueErr, s)).
    { unfold mutate_collection.
      cbn [is_missing io_voi io_require io_by_index io_new io_replace io_attrs io_transform io_attr_transforms io_insert].
      rewrite bind_ret.
      assert (Hex : exists old, set_extractor ct (VRef lc) VMissing false s = (Ok (VMissing, old), s)).
      { rewrite (set_extractor_run ct lc xs VMissing false s Hlc eq_refl).
        destruct (existsb (fun x => val_eqb FUEL ct (heap s) x VMissing) xs); eexists; reflexivity. }
      destruct Hex as [old Hex]. rewrite (bind_ok _ _ _ _ _ Hex). cbn [fst snd].
      assert (Hmv : exec ct XFUEL (KMutateValue (mkmv old v true (PItem sp l) None
                       (Some (ctor_of_ty (item_type (a_ty sp)))) (Some (item_type (a_ty sp))) None [] false)) s = (Ok v, s)).
      { rewrite XFUEL_S, exec_S. cbn [body]. now apply mutate_value_new_scalar. }
      rewrite (bind_ok _ _ _ _ _ Hmv). unfold bind at 1. unfold set_inserter.
      rewrite (bind_ok (check_typeM ct v (item_type (a_ty sp))) _ s
                       (check_type FUEL ct (heap s) v (item_type (a_ty sp))) s eq_refl).
      rewrite se_item, check_type_nonref by auto.
      destruct (conforms ct ity (abs0 v)); [|reflexivity]. cbn [negb].
      rewrite (bind_ok _ _ _ _ _ (read_set_at lc xs s Hlc)). cbn [fst snd is_missing negb]. rewrite bind_ret.
      rewrite (bind_ok _ _ _ _ _ (set_mem_run ct xs v s Hnv)). fold mem.
      rewrite (write_run lc _ s (fr_lc_len s lc _ Hlc)). reflexivity. }
    unfold run_helper, h. cbn [h_if negb h_inplace].
    rewrite (bind_ok _ _ _ _ _ (fr_spec_for ct l a c d k sp s Hl Hc Ha)). cbn [snd].
    rewrite (bind_ok _ _ _ _ _ (fr_mk_mutator ct l a c d k sp s lc Hl Hc Ha Hfz Hfld)).
    rewrite Hty. cbn [family_of pos0 h_pos nth h_kw].
    destruct (conforms ct ity (abs0 v)).
    - rewrite (bind_ok _ _ _ _ _ Hmc). rewrite se_store_back. split; auto. cbn [sbind].
      destruct mem eqn:Em.
      + rewrite se_after by auto. reflexivity.
      + rewrite se_after by (apply forallb_app_true; auto; cbn [forallb]; now rewrite Hnv).
        rewrite (cset_snoc ct xs v Hxs Hnv Hkf Hmem). reflexivity.
    - rewrite (bind_err _ _ _ _ _ Hmc). now split.
  Qed.

  (* ---------------- without_<item>(e): set.remove ---------------- *)

  Theorem without_item_set_inplace_refines voi :
    nonref voi = true ->
    let h := mkh [voi] true true VMissing false None None [] None in
    let ah := mkah [abs0 voi] true true AMissing false None None [] None in
    match run_helper ct l (HWithoutItem a) h s with
    | (Ok r, s') => r = VRef l /\
                    spec_helper ct h0 (absv (heap s) (VRef l)) (SWithoutItem a) ah = SOk (absv (heap s') (VRef l))
    | (Err e, s') => spec_helper ct h0 (absv (heap s) (VRef l)) (SWithoutItem a) ah = SErr e /\ heap s' = heap s
    end.
  Proof.
    intros Hv h ah.
    set (mem := existsb (fun x => val_eqb FUEL ct (heap s) x voi) xs).
    assert (Hmem : set_has ct axs (abs0 voi) = mem) by (symmetry; apply mem_abs; auto).
    assert (Hspec : spec_without_item ct sp (abs 23 (heap s) (VRef lc)) ah =
              if mem then SOk (ASet (set_remove ct axs (abs0 voi))) else SErr ValueErr).
    { rewrite se_acur. unfold spec_without_item, ah. rewrite Hty. cbn [ah_pos apos0 nth].
      rewrite (a_hashable_abs0 voi Hv). cbn [negb]. rewrite Hmem. destruct mem; reflexivity. }
    rewrite (fr_spec_closed ct h0 l a c d k sp s lc (OSet xs) Hl Hc Ha Hd Hfz Hni se_coll Hfld Hlc
               (SWithoutItem a) (spec_without_item ct) ah _ eq_refl eq_refl Hspec). clear Hspec.
    unfold run_helper, h. cbn [h_if negb h_inplace pos0 h_pos nth].
    rewrite (bind_ok _ _ _ _ _ (fr_spec_for ct l a c d k sp s Hl Hc Ha)). cbn [snd].
    rewrite (bind_ok _ _ _ _ _ (fr_mk_mutator ct l a c d k sp s lc Hl Hc Ha Hfz Hfld)).
    cbn [is_missing]. rewrite bind_ret. rewrite Hty. cbn [family_of].
    rewrite bind_assoc.
    pose proof (set_extractor_run ct lc xs voi true s Hlc Hv) as E. fold mem in E.
    destruct mem; [|rewrite (bind_err _ _ _ _ _ E); now split].
    rewrite (bind_ok _ _ _ _ _ E). cbn [fst].
    rewrite bind_assoc. rewrite (bind_ok _ _ _ _ _ (read_set_at lc xs s Hlc)). cbn [fst snd].
    rewrite bind_assoc.
    assert (Ed : set_discard ct xs voi s = (Ok (filter (fun x => negb (val_eqb FUEL ct (heap s) x voi)) xs), s)).
    { unfold set_discard. rewrite hashable_nonref, Hv. reflexivity. }
    rewrite (bind_ok _ _ _ _ _ Ed).
    rewrite (bind_ok _ _ _ _ _ (write_run lc _ s (fr_lc_len s lc _ Hlc))).
    rewrite se_store_back. split; auto. cbn [sbind].
    rewrite se_after by (now apply forallb_filter_true). unfold axs.
    now rewrite (cset_filter ct (heap s) xs voi Hxs Hv).
  Qed.
End SetAttr.
