(* C06: twelfth layer: the default calling convention on an attribute that
   holds nothing: with_<item> / without_<item> WITHOUT _inplace create the empty
   container, edit it, and store it in a fresh copy of the receiver. *)
From Coq Require Import List ZArith Bool Arith Lia.
From SC Require Import Base.Res Base.PyList Inst.Heap Inst.ClassTable Inst.Model Inst.Canon
  Inst.Abs Inst.SpecHelpers Inst.ElemProofs Inst.Framed Inst.RefineProofs Inst.CopyProofs Inst.ElemRefineDep Inst.CopyStore
  Inst.ElemRefine Inst.ElemRefine2 Inst.ElemRefine4 Inst.ElemRefine5 Inst.ElemRefine6 Inst.ElemRefine8.
Import ListNotations.
Open Scope nat_scope.

#[local] Opaque FUEL.
Local Opaque py_eq.

Section MissingCopyFrame.
  Variable ct : ctable.
  Variable h0 : list obj.
  Variables (l : loc) (a : aid) (c : cid) (d : list (aid * val)) (k : cls) (sp : attr_spec).
  Variable s : state.
  Hypothesis Hl : nth_error (heap s) l = Some (OInst c d).
  Hypothesis Hc : lookup_cls ct c = Some k.
  Hypothesis Ha : lookup_attr k a = Some sp.
  Hypothesis Hd : NoDup (map fst d).
  Hypothesis Hdnc : c_dnc k = false.
  Hypothesis Hpc : c_post_copy k = None.
  Hypothesis Hni : no_dep k a.
  Hypothesis Hcoll : ty_is_collection (a_ty sp) = true.
  Hypothesis Hnone : assoc a d = None.
  Hypothesis Hov : assoc a (c_overrides k) = None.
  Hypothesis Hdef : a_default sp = VMissing.
  Hypothesis Hflat : flat_fields (heap s) d.
  Hypothesis Hinit : assoc A_INITIALIZING d = None.
  Hypothesis Ha0 : a <> A_INITIALIZING.

  Variable oe : obj.
  Hypothesis Hempty : empty_of (sexec ct h0 SFUEL) (a_ty sp) = SOk (aobj oe).

  Let flds := map (fun p => (fst p, abs 23 (heap s) (snd p))) (sorted_fields d).
  Let lnew := length (heap s).

  Lemma mc_mk_mutator : mk_mutator ct sp l false s = (Ok VMissing, s).
  Proof.
    unfold mk_mutator. rewrite (bind_ok _ _ _ _ _ (read_inst_at l s c d Hl)). cbn [fst snd].
    rewrite (bind_ok _ _ _ _ _ (cls_of_at ct c s k Hc)). cbn [andb]. rewrite bind_ret.
    rewrite (name_sp a k sp Ha).
    assert (E : getattr_default ct l a s = (Ok VMissing, s)).
    { unfold getattr_default. rewrite (bind_ok _ _ _ _ _ (read_inst_at l s c d Hl)). cbn [fst snd]. rewrite Hnone.
      rewrite (bind_ok _ _ _ _ _ (cls_of_at ct c s k Hc)). unfold class_default. now rewrite Hov, Ha, Hdef. }
    rewrite (bind_ok _ _ _ _ _ E). reflexivity.
  Qed.

  Lemma mc_spec_closed hp (edit : attr_spec -> aval -> ahargs -> sres aval) ah (r : sres aval) :
    ah_if ah = true -> mutates_in_place hp ah = false ->
    spec_unfrozen ct h0 (AInst c flds) hp ah = spec_elem_helper ct h0 (AInst c flds) a ah edit ->
    edit sp (aobj oe) ah = r ->
    spec_helper ct h0 (absv (heap s) (VRef l)) hp ah =
    (c' <~ r ;; SOk (AInst c (fset a c' flds))).
  Proof.
    intros Hif Hmp Hun Hr. rewrite (recv_abs l c d s Hl). fold flds. unfold spec_helper. rewrite Hif. cbn [negb].
    rewrite Hmp. cbn [andb]. rewrite Hun.
    unfold spec_elem_helper, attr_of, cls_for. rewrite Hc. cbn [sbind]. rewrite Ha.
    unfold read_attr.
    assert (Hcur : assoc a flds = None).
    { unfold flds. destruct (sorted_fields_props d Hd) as [_ A]. now rewrite assoc_map_fields, A, Hnone. }
    rewrite Hcur. unfold cls_for. rewrite Hc. cbn [sbind]. rewrite Hov, Ha, Hdef.
    assert (absv h0 VMissing = AMissing) as -> by (rewrite absv_unfold; now apply abs_nonref_eq).
    cbn [sbind]. rewrite Hcoll. unfold coll_of. cbn [a_is_missing]. rewrite Hempty. cbn [sbind]. rewrite Hr.
    destruct r as [c'| | |]; cbn [sbind]; auto.
    unfold invalidate, cls_for. rewrite Hc. cbn [sbind]. rewrite invalidatees_nodep by auto. reflexivity.
  Qed.

  Variable tail : val -> M val.
  Variable pe : obj + err.
  Hypothesis Htail0 : tail VMissing s = tail (VRef lnew) (push s oe).
  Hypothesis Htail : forall s1 lc1, nth_error (heap s1) lc1 = Some oe ->
    tail (VRef lc1) s1 =
    match pe with
    | inl o' => mutate_attr ct (exec ct XFUEL) l a (VRef lc1) false false false false (upd s1 lc1 o')
    | inr e => (Err e, s1)
    end.
  Hypothesis Hsc : forall o', pe = inl o' -> scalar_obj o' = true.

  Theorem mc_whole (hp : shelper) (edit : attr_spec -> aval -> ahargs -> sres aval) ah res :
    ah_if ah = true -> mutates_in_place hp ah = false ->
    spec_unfrozen ct h0 (AInst c flds) hp ah = spec_elem_helper ct h0 (AInst c flds) a ah edit ->
    edit sp (aobj oe) ah = match pe with inl o' => SOk (aobj o') | inr e => SErr e end ->
    res = bind (mk_mutator ct sp l false) tail s ->
    match res with
    | (Ok r, s') => exists l', r = VRef l' /\ length (heap s) <= l' /\ old_cells_kept s s' /\
                    spec_helper ct h0 (absv (heap s) (VRef l)) hp ah = SOk (absv (heap s') (VRef l'))
    | (Err e, s') => spec_helper ct h0 (absv (heap s) (VRef l)) hp ah = SErr e /\ old_cells_kept s s'
    end.
  Proof.
    intros Hif Hmp Hun Hspec ->.
    rewrite (mc_spec_closed hp edit ah _ Hif Hmp Hun Hspec).
    rewrite (bind_ok _ _ _ _ _ mc_mk_mutator). rewrite Htail0.
    assert (Hlp : nth_error (heap (push s oe)) lnew = Some oe).
    { unfold push, lnew. cbn [heap]. now rewrite nth_error_app2, Nat.sub_diag by lia. }
    rewrite (Htail (push s oe) lnew Hlp).
    assert (Hold_p : old_cells_kept s (push s oe)).
    { intros i Hi. unfold push. cbn [heap]. now apply nth_error_app1. }
    destruct pe as [o'|e]; [|split; auto].
    set (se := upd (push s oe) lnew o').
    assert (Hlen_e : length (heap se) = S (length (heap s))).
    { unfold se. rewrite heap_upd, set_nth_length. unfold push. cbn [heap]. rewrite app_length. cbn [length]. lia. }
    assert (Hold_e : old_cells_kept s se).
    { intros i Hi. unfold se. rewrite heap_upd, set_nth_other by (unfold lnew; lia). now apply Hold_p. }
    assert (Hllt : l < length (heap s)) by (apply nth_error_Some; congruence).
    assert (Hl_e : nth_error (heap se) l = Some (OInst c d)) by (rewrite Hold_e; auto).
    assert (Hlp_e : nth_error (heap se) lnew = Some o').
    { unfold se. apply upd_at. unfold push. cbn [heap]. rewrite app_length. cbn [length]. unfold lnew. lia. }
    assert (Hflat_e : flat_fields (heap se) d).
    { intros p Hp. destruct (Hflat p Hp) as [Hn|[lx [ox [E [Hx Hs]]]]]; [left; auto|].
      right. exists lx, ox. split; auto. split; auto. rewrite Hold_e; auto. apply nth_error_Some. congruence. }
    assert (Hso : same_object (assoc a d) (VRef lnew) = false) by (now rewrite Hnone).
    destruct (mutate_attr_copy_ref ct (exec ct XFUEL) l a lnew o' se c d k Hl_e Hc Hdnc Hpc Hni Hflat_e Hd Hinit Ha0
                Hlp_e (Hsc o' eq_refl) Hso) as [l' [s' [Hrun [Hfresh [Hsame Habs]]]]].
    fold se. rewrite Hrun. exists l'. split; [reflexivity|]. split; [lia|]. split.
    { intros i Hi. rewrite Hsame by lia. now apply Hold_e. }
    cbn [sbind]. f_equal. rewrite absv_unfold, (Habs 22).
    rewrite (abs_scalar_cell (heap se) lnew o' 22 Hlp_e (Hsc o' eq_refl)).
    assert (Hf : forall n, map (fun p : aid * val => (fst p, abs (S n) (heap se) (snd p))) (sorted_fields d) =
                           map (fun p : aid * val => (fst p, abs (S n) (heap s) (snd p))) (sorted_fields d)).
    { intro n. apply map_ext_in. intros [b0 w] Hb. cbn [fst snd]. f_equal.
      unfold sorted_fields in Hb. apply In_sort_by in Hb.
      destruct (Hflat (b0, w) Hb) as [Hn|[lx [ox [E [Hx Hs]]]]]; cbn [snd] in *.
      + now rewrite !abs_nonref_eq.
      + subst w. eapply abs_scalar_obj; eauto. rewrite Hold_e; auto. apply nth_error_Some. congruence. }
    rewrite (Hf 22). reflexivity.
  Qed.
End MissingCopyFrame.

(* ------------------------------------------------------------------ *)
(** * with_<item> / without_<item> without _inplace on an attribute that holds nothing *)

Section MissingCopyAttr.
  Variable ct : ctable.
  Variable h0 : list obj.
  Variables (l : loc) (a : aid) (c : cid) (d : list (aid * val)) (k : cls) (sp : attr_spec).
  Variable s : state.
  Hypothesis Hl : nth_error (heap s) l = Some (OInst c d).
  Hypothesis Hc : lookup_cls ct c = Some k.
  Hypothesis Ha : lookup_attr k a = Some sp.
  Hypothesis Hd : NoDup (map fst d).
  Hypothesis Hdnc : c_dnc k = false.
  Hypothesis Hpc : c_post_copy k = None.
  Hypothesis Hni : no_dep k a.
  Hypothesis Hnone : assoc a d = None.
  Hypothesis Hov : assoc a (c_overrides k) = None.
  Hypothesis Hdef : a_default sp = VMissing.
  Hypothesis Hflat : flat_fields (heap s) d.
  Hypothesis Hinit : assoc A_INITIALIZING d = None.
  Hypothesis Ha0 : a <> A_INITIALIZING.

  Lemma run_with_mc h : h_if h = true -> h_inplace h = false ->
    run_helper ct l (HWithItem a) h s = bind (mk_mutator ct sp l false) (with_tail ct l a sp h) s.
  Proof.
    intros Hif Hin. rewrite (run_with_tail ct l a h s Hif).
    rewrite (bind_ok _ _ _ _ _ (fr_spec_for ct l a c d k sp s Hl Hc Ha)). cbn [snd]. now rewrite Hin.
  Qed.
  Lemma run_without_mc h : h_if h = true -> h_inplace h = false ->
    run_helper ct l (HWithoutItem a) h s = bind (mk_mutator ct sp l false) (without_tail ct l a sp h) s.
  Proof.
    intros Hif Hin. rewrite (run_without_tail ct l a h s Hif).
    rewrite (bind_ok _ _ _ _ _ (fr_spec_for ct l a c d k sp s Hl Hc Ha)). cbn [snd]. now rewrite Hin.
  Qed.

  Ltac frame oe Hcoll Hempty tl pe ed :=
    apply (mc_whole ct h0 l a c d k sp s Hl Hc Ha Hd Hdnc Hpc Hni Hcoll Hnone Hov Hdef Hflat Hinit Ha0 oe Hempty tl pe)
      with (edit := ed); try reflexivity.

  Theorem with_item_list_missing_copy_refines ity idx v ins :
    a_ty sp = TList ity -> a_prepare_item sp = None -> spec_of_ty_strict ity = None -> ty_depth ity < FUEL ->
    vscalar v = true -> (idx = VMissing \/ exists i, idx = VInt i) ->
    copy_refines_spec ct h0 s l (HWithItem a) (mkh [v] false true idx ins None None [] None)
                      (SWithItem a) (mkah [abs0 v] false true (abs0 idx) ins None None [] None).
  Proof.
    intros Hty Hprep Hstrict Hdepth Hv Hidx. unfold copy_refines_spec.
    assert (Hcoll : ty_is_collection (a_ty sp) = true) by (now rewrite Hty).
    assert (Hempty : empty_of (sexec ct h0 SFUEL) (a_ty sp) = SOk (aobj (OList []))) by (now rewrite Hty).
    set (h := mkh [v] false true idx ins None None [] None).
    frame (OList []) Hcoll Hempty (with_tail ct l a sp h) (list_with_pure ct ity [] idx v ins) (spec_with_item ct h0).
    - exact (ms_with_tail ct h0 l a sp s Hcoll (OList []) (create_list ct sp ity Hty) Hempty h).
    - intros s1 lc1 H1. now apply with_tail_list.
    - intros o' E. apply (list_with_pure_scalar ct ity [] idx v ins o'); auto. now apply vscalar_nonref.
    - now apply list_with_pure_spec.
    - now apply run_with_mc.
  Qed.

  Theorem without_item_list_missing_copy_refines ity voi bi :
    a_ty sp = TList ity -> ty_depth ity < FUEL -> nonref voi = true ->
    copy_refines_spec ct h0 s l (HWithoutItem a) (mkh [voi] false true VMissing false bi None [] None)
                      (SWithoutItem a) (mkah [abs0 voi] false true AMissing false bi None [] None).
  Proof.
    intros Hty Hdepth Hv. unfold copy_refines_spec.
    assert (Hcoll : ty_is_collection (a_ty sp) = true) by (now rewrite Hty).
    assert (Hempty : empty_of (sexec ct h0 SFUEL) (a_ty sp) = SOk (aobj (OList []))) by (now rewrite Hty).
    set (h := mkh [voi] false true VMissing false bi None [] None).
    frame (OList []) Hcoll Hempty (without_tail ct l a sp h) (list_without_pure ct ity [] voi bi) (spec_without_item ct).
    - exact (ms_without_tail ct l a sp s (OList []) (create_list ct sp ity Hty) h).
    - intros s1 lc1 H1. now apply without_tail_list.
    - intros o' E. now apply (list_without_pure_scalar ct ity [] voi bi o').
    - now apply list_without_pure_spec.
    - now apply run_without_mc.
  Qed.

  Theorem with_item_dict_missing_copy_refines tk tv key v :
    a_ty sp = TDict tk tv -> a_prepare_item sp = None -> spec_of_ty_strict tv = None ->
    ty_depth tk < FUEL -> ty_depth tv < FUEL -> nonref key = true -> vscalar v = true ->
    copy_refines_spec ct h0 s l (HWithItem a) (mkh [key; v] false true VMissing false None None [] None)
                      (SWithItem a) (mkah [abs0 key; abs0 v] false true AMissing false None None [] None).
  Proof.
    intros Hty Hprep Hstrict Hdk Hdv Hk Hv. unfold copy_refines_spec.
    assert (Hcoll : ty_is_collection (a_ty sp) = true) by (now rewrite Hty).
    assert (Hempty : empty_of (sexec ct h0 SFUEL) (a_ty sp) = SOk (aobj (ODict []))) by (now rewrite Hty).
    set (h := mkh [key; v] false true VMissing false None None [] None).
    frame (ODict []) Hcoll Hempty (with_tail ct l a sp h) (dict_with_pure ct tk tv [] key v) (spec_with_item ct h0).
    - exact (ms_with_tail ct h0 l a sp s Hcoll (ODict []) (create_dict ct sp tk tv Hty) Hempty h).
    - intros s1 lc1 H1. now apply with_tail_dict.
    - intros o' E. apply (dict_with_pure_scalar ct tk tv [] key v o'); auto. now apply vscalar_nonref.
    - now apply dict_with_pure_spec.
    - now apply run_with_mc.
  Qed.

  Theorem without_item_dict_missing_copy_refines tk tv key :
    a_ty sp = TDict tk tv -> nonref key = true ->
    copy_refines_spec ct h0 s l (HWithoutItem a) (mkh [key] false true VMissing false None None [] None)
                      (SWithoutItem a) (mkah [abs0 key] false true AMissing false None None [] None).
  Proof.
    intros Hty Hk. unfold copy_refines_spec.
    assert (Hcoll : ty_is_collection (a_ty sp) = true) by (now rewrite Hty).
    assert (Hempty : empty_of (sexec ct h0 SFUEL) (a_ty sp) = SOk (aobj (ODict []))) by (now rewrite Hty).
    set (h := mkh [key] false true VMissing false None None [] None).
    frame (ODict []) Hcoll Hempty (without_tail ct l a sp h) (dict_without_pure ct [] key) (spec_without_item ct).
    - exact (ms_without_tail ct l a sp s (ODict []) (create_dict ct sp tk tv Hty) h).
    - intros s1 lc1 H1. now apply (without_tail_dict ct l a sp tk tv).
    - intros o' E. now apply (dict_without_pure_scalar ct [] key o').
    - now apply (dict_without_pure_spec ct sp tk tv).
    - now apply run_without_mc.
  Qed.

  Theorem with_item_set_missing_copy_refines ity v :
    a_ty sp = TSet ity -> a_prepare_item sp = None -> spec_of_ty_strict ity = None -> ty_depth ity < FUEL ->
    vscalar v = true ->
    copy_refines_spec ct h0 s l (HWithItem a) (mkh [v] false true VMissing false None None [] None)
                      (SWithItem a) (mkah [abs0 v] false true AMissing false None None [] None).
  Proof.
    intros Hty Hprep Hstrict Hdepth Hv. unfold copy_refines_spec.
    assert (Hcoll : ty_is_collection (a_ty sp) = true) by (now rewrite Hty).
    assert (Hempty : empty_of (sexec ct h0 SFUEL) (a_ty sp) = SOk (aobj (OSet []))) by (now rewrite Hty).
    set (h := mkh [v] false true VMissing false None None [] None).
    frame (OSet []) Hcoll Hempty (with_tail ct l a sp h) (set_with_pure ct ity [] v) (spec_with_item ct h0).
    - exact (ms_with_tail ct h0 l a sp s Hcoll (OSet []) (create_set ct sp ity Hty) Hempty h).
    - intros s1 lc1 H1. now apply with_tail_set.
    - intros o' E. apply (set_with_pure_scalar ct ity [] v o'); auto. now apply vscalar_nonref.
    - now apply set_with_pure_spec.
    - now apply run_with_mc.
  Qed.

  Theorem without_item_set_missing_copy_refines ity voi :
    a_ty sp = TSet ity -> nonref voi = true ->
    copy_refines_spec ct h0 s l (HWithoutItem a) (mkh [voi] false true VMissing false None None [] None)
                      (SWithoutItem a) (mkah [abs0 voi] false true AMissing false None None [] None).
  Proof.
    intros Hty Hv. unfold copy_refines_spec.
    assert (Hcoll : ty_is_collection (a_ty sp) = true) by (now rewrite Hty).
    assert (Hempty : empty_of (sexec ct h0 SFUEL) (a_ty sp) = SOk (aobj (OSet []))) by (now rewrite Hty).
    set (h := mkh [voi] false true VMissing false None None [] None).
    frame (OSet []) Hcoll Hempty (without_tail ct l a sp h) (set_without_pure ct [] voi) (spec_without_item ct).
    - exact (ms_without_tail ct l a sp s (OSet []) (create_set ct sp ity Hty) h).
    - intros s1 lc1 H1. now apply (without_tail_set ct l a sp ity).
    - intros o' E. now apply (set_without_pure_scalar ct [] voi o').
    - now apply (set_without_pure_spec ct sp ity).
    - now apply run_without_mc.
  Qed.
End MissingCopyAttr.
