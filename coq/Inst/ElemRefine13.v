(* C06: thirteenth layer: NESTED receivers, in place.  The other attributes of
   the receiver may hold anything (spec instances, containers of containers,
   shared structure): it is enough that the cell of the edited container is not
   reachable from them.  `reaches` is the computable reachability test (to the
   depth the abstraction looks), `abs_unreach` the frame property of the
   abstraction, `ip_whole_n` the in-place frame without the flatness condition. *)
From Coq Require Import List ZArith Bool Arith Lia.
From SC Require Import Base.Res Base.PyList Inst.Heap Inst.ClassTable Inst.Model Inst.Canon
  Inst.Abs Inst.SpecHelpers Inst.ElemProofs Inst.Framed Inst.RefineProofs Inst.CopyProofs Inst.ElemRefineDep Inst.CopyStore
  Inst.ElemRefine Inst.ElemRefine2 Inst.ElemRefine3 Inst.ElemRefine4 Inst.ElemRefine5 Inst.ElemRefine6
  Inst.ElemRefine7 Inst.ElemRefine8 Inst.ElemRefine9.
Import ListNotations.
Open Scope nat_scope.

#[local] Opaque FUEL.
Local Opaque py_eq.

(* ------------------------------------------------------------------ *)
(** * Reachability, and the abstraction of what does not reach a rewritten cell *)

Fixpoint reaches (f : nat) (h : list obj) (w : val) (x : loc) : bool :=
  match f with
  | O => match w with VRef y => y =? x | _ => false end
  | S f' =>
      match w with
      | VRef y =>
          (y =? x) ||
          match nth_error h y with
          | Some (OList xs) => existsb (fun v => reaches f' h v x) xs
          | Some (ODict kvs) => existsb (fun p => reaches f' h (fst p) x || reaches f' h (snd p) x) kvs
          | Some (OSet xs) => existsb (fun v => reaches f' h v x) xs
          | Some (OInst _ d) => existsb (fun p => reaches f' h (snd p) x) d
          | None => false
          end
      | _ => false
      end
  end.

Lemma reaches_self f h x : reaches f h (VRef x) x = true.
Proof. destruct f; cbn [reaches]; now rewrite Nat.eqb_refl. Qed.

Lemma existsb_false_in {A} (f : A -> bool) l x : existsb f l = false -> In x l -> f x = false.
Proof.
  intros H Hin. destruct (f x) eqn:E; auto.
  assert (existsb f l = true) by (apply existsb_exists; exists x; auto). congruence.
Qed.

Lemma abs_unreach : forall f h w x o', reaches f h w x = false -> abs f (set_nth x o' h) w = abs f h w.
Proof.
  induction f as [|f IH]; intros h w x o' H.
  - destruct w; reflexivity.
  - destruct w as [| | | | | | | |y]; try reflexivity.
    cbn [reaches] in H. apply orb_false_iff in H. destruct H as [Hy Hc]. apply Nat.eqb_neq in Hy.
    cbn [abs]. rewrite set_nth_other by auto.
    destruct (nth_error h y) as [[xs|kvs|xs|c d]|]; try reflexivity.
    + f_equal. apply map_ext_in. intros v Hv. apply IH. exact (existsb_false_in _ xs v Hc Hv).
    + f_equal. apply map_ext_in. intros p Hp. pose proof (existsb_false_in _ kvs p Hc Hp) as E.
      cbv beta in E. apply orb_false_iff in E. destruct E as [E1 E2]. now rewrite !IH.
    + f_equal. apply map_ext_in. intros v Hv. apply In_sort_by in Hv. apply IH. exact (existsb_false_in _ xs v Hc Hv).
    + f_equal. apply map_ext_in. intros p Hp. unfold sorted_fields in Hp. apply In_sort_by in Hp. f_equal.
      apply IH. exact (existsb_false_in _ d p Hc Hp).
Qed.

(* the receiver after its container cell has been rewritten: the other attributes do not reach it *)
Lemma abs_inst_child_update_unreach h l c d n a lc o' :
  nth_error h l = Some (OInst c d) -> NoDup (map fst d) -> assoc a d = Some (VRef lc) -> lc <> l ->
  (forall b w, In (b, w) d -> b <> a -> reaches (S n) h w lc = false) ->
  abs (S (S n)) (set_nth lc o' h) (VRef l) =
  AInst c (fset a (abs (S n) (set_nth lc o' h) (VRef lc))
                (map (fun p => (fst p, abs (S n) h (snd p))) (sorted_fields d))).
Proof.
  intros Hl Hd Ha Hne Hun.
  set (h' := set_nth lc o' h).
  assert (Hl' : nth_error h' l = Some (OInst c d)) by (unfold h'; rewrite set_nth_other; auto).
  rewrite (abs_inst h' l c d (S n) Hl'). f_equal.
  destruct (sorted_fields_props d Hd) as [S A].
  apply ssorted_ext.
  - now apply ssorted_map_fields.
  - apply ssorted_fset. now apply ssorted_map_fields.
  - intro k0. rewrite assoc_fset, !assoc_map_fields, A.
    destruct (a =? k0) eqn:E.
    + apply Nat.eqb_eq in E. subst k0. rewrite Ha. reflexivity.
    + destruct (assoc k0 d) as [w|] eqn:Ek; [|reflexivity]. cbn [option_map]. f_equal.
      apply assoc_in in Ek. apply Nat.eqb_neq in E. unfold h'. apply abs_unreach. apply (Hun k0 w Ek). auto.
Qed.

(* ------------------------------------------------------------------ *)
(** * The in-place frame for nested receivers *)

Section InplaceFrameN.
  Variable ct : ctable.
  Variable h0 : list obj.
  Variables (l : loc) (a : aid) (c : cid) (d : list (aid * val)) (k : cls) (sp : attr_spec).
  Variable s : state.
  Variables (lc : loc) (o : obj).
  Hypothesis Hl : nth_error (heap s) l = Some (OInst c d).
  Hypothesis Hc : lookup_cls ct c = Some k.
  Hypothesis Ha : lookup_attr k a = Some sp.
  Hypothesis Hd : NoDup (map fst d).
  Hypothesis Hfz : c_frozen k = false.
  Hypothesis Hni : no_dep k a.
  Hypothesis Hcoll : ty_is_collection (a_ty sp) = true.
  Hypothesis Hfld : assoc a d = Some (VRef lc).
  Hypothesis Hlc : nth_error (heap s) lc = Some o.
  Hypothesis Ho : scalar_obj o = true.
  Hypothesis Hun : forall b w, In (b, w) d -> b <> a -> reaches 23 (heap s) w lc = false.

  Lemma ipn_share : forall b w, In (b, w) d -> b <> a -> w <> VRef lc.
  Proof.
    intros b w Hin Hb E. subst w. pose proof (Hun b (VRef lc) Hin Hb) as R.
    rewrite reaches_self in R. discriminate.
  Qed.

  Variable tail : val -> M val.
  Variable pe : obj + err.
  Hypothesis Htail : forall s1 lc1, nth_error (heap s1) lc1 = Some o -> fail_at s1 = fail_at s ->
    exists st, heap st = heap s1 /\
    tail (VRef lc1) s1 =
    match pe with
    | inl o' => mutate_attr ct (exec ct XFUEL) l a (VRef lc1) true false false false (upd st lc1 o')
    | inr e => (Err e, st)
    end.
  Hypothesis Hsc : forall o', pe = inl o' -> scalar_obj o' = true.

  Theorem ip_whole_n (hp : shelper) (edit : attr_spec -> aval -> ahargs -> sres aval) ah res :
    ah_if ah = true ->
    spec_unfrozen ct h0 (AInst c (map (fun p => (fst p, abs 23 (heap s) (snd p))) (sorted_fields d))) hp ah =
      spec_elem_helper ct h0 (AInst c (map (fun p => (fst p, abs 23 (heap s) (snd p))) (sorted_fields d))) a ah edit ->
    edit sp (aobj o) ah = match pe with inl o' => SOk (aobj o') | inr e => SErr e end ->
    res = bind (mk_mutator ct sp l true) tail s ->
    match res with
    | (Ok r, s') => r = VRef l /\
                    spec_helper ct h0 (absv (heap s) (VRef l)) hp ah = SOk (absv (heap s') (VRef l))
    | (Err e, s') => spec_helper ct h0 (absv (heap s) (VRef l)) hp ah = SErr e /\ heap s' = heap s
    end.
  Proof.
    intros Hif Hun' Hspec ->.
    assert (Hacur : abs 23 (heap s) (VRef lc) = aobj o) by (exact (abs_scalar_cell (heap s) lc o 22 Hlc Ho)).
    rewrite <- Hacur in Hspec.
    rewrite (fr_spec_closed ct h0 l a c d k sp s lc o Hl Hc Ha Hd Hfz Hni Hcoll Hfld Hlc hp edit ah _ Hif Hun' Hspec).
    rewrite (bind_ok _ _ _ _ _ (fr_mk_mutator ct l a c d k sp s lc Hl Hc Ha Hfz Hfld)).
    destruct (Htail s lc Hlc eq_refl) as [st [Hst Et]]. rewrite Et. clear Et.
    destruct pe as [o'|e]; [|split; auto].
    rewrite (fr_store_back ct l a c d k lc Hc Hd Hfz Hni Hfld _
               (fr_recv_after l a c d s lc o Hl Hfld Hlc Ho ipn_share st o' Hst)).
    split; auto. cbn [sbind]. f_equal.
    rewrite heap_upd, Hst, absv_unfold.
    rewrite (abs_inst_child_update_unreach (heap s) l c d 22 a lc o' Hl Hd Hfld
               (fr_lc_ne_l l a c d s lc o Hl Hfld Hlc Ho ipn_share) Hun).
    rewrite (abs_scalar_cell (set_nth lc o' (heap s)) lc o' 22
               (nth_error_set_nth_same lc _ (heap s) (fr_lc_len s lc _ Hlc)) (Hsc o' eq_refl)).
    reflexivity.
  Qed.
End InplaceFrameN.

(* ------------------------------------------------------------------ *)
(** * with_<item> / without_<item> in place on a nested receiver *)

Section NestedThms.
  Variable ct : ctable.
  Variable h0 : list obj.
  Variables (l : loc) (a : aid) (c : cid) (d : list (aid * val)) (k : cls) (sp : attr_spec).
  Variable s : state.
  Variable lc : loc.
  Hypothesis Hl : nth_error (heap s) l = Some (OInst c d).
  Hypothesis Hc : lookup_cls ct c = Some k.
  Hypothesis Ha : lookup_attr k a = Some sp.
  Hypothesis Hd : NoDup (map fst d).
  Hypothesis Hfz : c_frozen k = false.
  Hypothesis Hni : no_dep k a.
  Hypothesis Hfld : assoc a d = Some (VRef lc).
  Hypothesis Hun : forall b w, In (b, w) d -> b <> a -> reaches 23 (heap s) w lc = false.

  Lemma nt_run_with h : h_if h = true -> h_inplace h = true ->
    run_helper ct l (HWithItem a) h s = bind (mk_mutator ct sp l true) (with_tail ct l a sp h) s.
  Proof.
    intros Hif Hin. rewrite (run_with_tail ct l a h s Hif).
    rewrite (bind_ok _ _ _ _ _ (fr_spec_for ct l a c d k sp s Hl Hc Ha)). cbn [snd]. now rewrite Hin.
  Qed.
  Lemma nt_run_without h : h_if h = true -> h_inplace h = true ->
    run_helper ct l (HWithoutItem a) h s = bind (mk_mutator ct sp l true) (without_tail ct l a sp h) s.
  Proof.
    intros Hif Hin. rewrite (run_without_tail ct l a h s Hif).
    rewrite (bind_ok _ _ _ _ _ (fr_spec_for ct l a c d k sp s Hl Hc Ha)). cbn [snd]. now rewrite Hin.
  Qed.

  Ltac frame o Hcoll Hlc Ho tl pe ed :=
    apply (ip_whole_n ct h0 l a c d k sp s lc o Hl Hc Ha Hd Hfz Hni Hcoll Hfld Hlc Ho Hun tl pe)
      with (edit := ed); try reflexivity.

  Section L.
    Variables (xs : list val) (ity : ty).
    Hypothesis Hty : a_ty sp = TList ity.
    Hypothesis Hdepth : ty_depth ity < FUEL.
    Hypothesis Hlc : nth_error (heap s) lc = Some (OList xs).
    Hypothesis Hxs : forallb nonref xs = true.
    Lemma ntl_coll : ty_is_collection (a_ty sp) = true.
    Proof. now rewrite Hty. Qed.

    Theorem with_item_list_nested_refines idx v ins :
      a_prepare_item sp = None -> spec_of_ty_strict ity = None ->
      vscalar v = true -> (idx = VMissing \/ exists i, idx = VInt i) ->
      inplace_refines_spec ct h0 s l (HWithItem a) (mkh [v] true true idx ins None None [] None)
                           (SWithItem a) (mkah [abs0 v] true true (abs0 idx) ins None None [] None).
    Proof.
      intros Hprep Hstrict Hv Hidx. unfold inplace_refines_spec.
      frame (OList xs) ntl_coll Hlc Hxs (with_tail ct l a sp (mkh [v] true true idx ins None None [] None))
            (list_with_pure ct ity xs idx v ins) (spec_with_item ct h0).
      - intros s1 lc1 H1 _. exists s1. split; auto. now apply with_tail_list.
      - intros o' E. apply (list_with_pure_scalar ct ity xs idx v ins o'); auto. now apply vscalar_nonref.
      - now apply list_with_pure_spec.
      - now apply nt_run_with.
    Qed.

    Theorem without_item_list_nested_refines voi bi :
      nonref voi = true ->
      inplace_refines_spec ct h0 s l (HWithoutItem a) (mkh [voi] true true VMissing false bi None [] None)
                           (SWithoutItem a) (mkah [abs0 voi] true true AMissing false bi None [] None).
    Proof.
      intros Hv. unfold inplace_refines_spec.
      frame (OList xs) ntl_coll Hlc Hxs (without_tail ct l a sp (mkh [voi] true true VMissing false bi None [] None))
            (list_without_pure ct ity xs voi bi) (spec_without_item ct).
      - intros s1 lc1 H1 _. exists s1. split; auto. now apply without_tail_list.
      - intros o' E. now apply (list_without_pure_scalar ct ity xs voi bi o').
      - now apply list_without_pure_spec.
      - now apply nt_run_without.
    Qed.
  End L.

  Section D.
    Variables (kvs : list (val * val)) (tk tv : ty).
    Hypothesis Hty : a_ty sp = TDict tk tv.
    Hypothesis Hdk : ty_depth tk < FUEL.
    Hypothesis Hdv : ty_depth tv < FUEL.
    Hypothesis Hlc : nth_error (heap s) lc = Some (ODict kvs).
    Hypothesis Hkvs : forallb pair_nonref kvs = true.
    Lemma ntd_coll : ty_is_collection (a_ty sp) = true.
    Proof. now rewrite Hty. Qed.

    Theorem with_item_dict_nested_refines key v :
      a_prepare_item sp = None -> spec_of_ty_strict tv = None ->
      nonref key = true -> vscalar v = true ->
      inplace_refines_spec ct h0 s l (HWithItem a) (mkh [key; v] true true VMissing false None None [] None)
                           (SWithItem a) (mkah [abs0 key; abs0 v] true true AMissing false None None [] None).
    Proof.
      intros Hprep Hstrict Hk Hv. unfold inplace_refines_spec.
      frame (ODict kvs) ntd_coll Hlc Hkvs (with_tail ct l a sp (mkh [key; v] true true VMissing false None None [] None))
            (dict_with_pure ct tk tv kvs key v) (spec_with_item ct h0).
      - intros s1 lc1 H1 _. exists s1. split; auto. now apply with_tail_dict.
      - intros o' E. apply (dict_with_pure_scalar ct tk tv kvs key v o'); auto. now apply vscalar_nonref.
      - now apply dict_with_pure_spec.
      - now apply nt_run_with.
    Qed.

    Theorem without_item_dict_nested_refines key :
      nonref key = true ->
      inplace_refines_spec ct h0 s l (HWithoutItem a) (mkh [key] true true VMissing false None None [] None)
                           (SWithoutItem a) (mkah [abs0 key] true true AMissing false None None [] None).
    Proof.
      intros Hk. unfold inplace_refines_spec.
      frame (ODict kvs) ntd_coll Hlc Hkvs (without_tail ct l a sp (mkh [key] true true VMissing false None None [] None))
            (dict_without_pure ct kvs key) (spec_without_item ct).
      - intros s1 lc1 H1 _. exists s1. split; auto. now apply (without_tail_dict ct l a sp tk tv).
      - intros o' E. now apply (dict_without_pure_scalar ct kvs key o').
      - now apply (dict_without_pure_spec ct sp tk tv).
      - now apply nt_run_without.
    Qed.
  End D.

  Section S.
    Variables (xs : list val) (ity : ty).
    Hypothesis Hty : a_ty sp = TSet ity.
    Hypothesis Hdepth : ty_depth ity < FUEL.
    Hypothesis Hlc : nth_error (heap s) lc = Some (OSet xs).
    Hypothesis Hxs : forallb nonref xs = true.
    Lemma nts_coll : ty_is_collection (a_ty sp) = true.
    Proof. now rewrite Hty. Qed.

    Theorem with_item_set_nested_refines v :
      a_prepare_item sp = None -> spec_of_ty_strict ity = None ->
      vscalar v = true -> set_key_free ct xs v = true ->
      inplace_refines_spec ct h0 s l (HWithItem a) (mkh [v] true true VMissing false None None [] None)
                           (SWithItem a) (mkah [abs0 v] true true AMissing false None None [] None).
    Proof.
      intros Hprep Hstrict Hv Hkf. unfold inplace_refines_spec.
      frame (OSet xs) nts_coll Hlc Hxs (with_tail ct l a sp (mkh [v] true true VMissing false None None [] None))
            (set_with_pure ct ity xs v) (spec_with_item ct h0).
      - intros s1 lc1 H1 _. exists s1. split; auto. now apply with_tail_set.
      - intros o' E. apply (set_with_pure_scalar ct ity xs v o'); auto. now apply vscalar_nonref.
      - now apply set_with_pure_spec.
      - now apply nt_run_with.
    Qed.

    Theorem without_item_set_nested_refines voi :
      nonref voi = true ->
      inplace_refines_spec ct h0 s l (HWithoutItem a) (mkh [voi] true true VMissing false None None [] None)
                           (SWithoutItem a) (mkah [abs0 voi] true true AMissing false None None [] None).
    Proof.
      intros Hv. unfold inplace_refines_spec.
      frame (OSet xs) nts_coll Hlc Hxs (without_tail ct l a sp (mkh [voi] true true VMissing false None None [] None))
            (set_without_pure ct xs voi) (spec_without_item ct).
      - intros s1 lc1 H1 _. exists s1. split; auto. now apply (without_tail_set ct l a sp ity).
      - intros o' E. now apply (set_without_pure_scalar ct xs voi o').
      - now apply (set_without_pure_spec ct sp ity).
      - now apply nt_run_without.
    Qed.
  End S.

  Lemma nt_run_transform h : h_if h = true -> h_inplace h = true ->
    run_helper ct l (HTransformItem a) h s = bind (mk_mutator ct sp l true) (transform_tail ct l a sp h) s.
  Proof. exact (run_transform_ip ct l a c d k sp s Hl Hc Ha h). Qed.
  Lemma nt_run_update h : h_if h = true -> h_inplace h = true ->
    run_helper ct l (HUpdateItem a) h s = bind (mk_mutator ct sp l true) (update_tail ct l a sp h) s.
  Proof. exact (run_update_ip ct l a c d k sp s Hl Hc Ha h). Qed.


  Section DC.
    Variables (kvs : list (val * val)) (tk tv : ty).
    Hypothesis Hty : a_ty sp = TDict tk tv.
    Hypothesis Hdk : ty_depth tk < FUEL.
    Hypothesis Hdv : ty_depth tv < FUEL.
    Hypothesis Hlc : nth_error (heap s) lc = Some (ODict kvs).
    Hypothesis Hkvs : forallb pair_nonref kvs = true.
    Hypothesis Hvp : vals_proper kvs = true.
    Lemma ntdc_coll : ty_is_collection (a_ty sp) = true.
    Proof. now rewrite Hty. Qed.

    Theorem transform_item_dict_nested_refines key fo bi :
      nonref key = true -> is_missing key = false -> fail_at s = None -> fo_ok fo ->
      inplace_refines_spec ct h0 s l (HTransformItem a) (mkh [key] true true VMissing false bi None [] fo)
                           (STransformItem a) (mkah [abs0 key] true true AMissing false bi None [] fo).
    Proof.
      intros Hk Hm Hfa Hfo. unfold inplace_refines_spec.
      frame (ODict kvs) ntdc_coll Hlc Hkvs (transform_tail ct l a sp (mkh [key] true true VMissing false bi None [] fo))
            (dict_change_pure ct tk tv kvs key (trp fo)) (fun sp c h => spec_change_item ct h0 sp c h true).
      - exact (transform_tail_dict ct l a sp s kvs tk tv Hty Hdk Hdv Hkvs Hvp true key fo bi Hk Hfa Hfo).
      - intros o'. apply (dict_change_pure_scalar ct tk tv kvs Hkvs (trp fo) (tr_prn fo Hfo) key o' Hk).
      - exact (transform_spec_dict ct h0 sp kvs tk tv Hty Hkvs Hvp true key fo bi Hk Hm Hfo).
      - now apply nt_run_transform.
    Qed.

    Theorem update_item_dict_nested_refines key v :
      a_prepare_item sp = None -> spec_of_ty_strict tv = None ->
      nonref key = true -> is_missing key = false -> nonref v = true ->
      inplace_refines_spec ct h0 s l (HUpdateItem a) (mkh [key; v] true true VMissing false None None [] None)
                           (SUpdateItem a) (mkah [abs0 key; abs0 v] true true AMissing false None None [] None).
    Proof.
      intros Hprep Hstrict Hk Hm Hnv. unfold inplace_refines_spec.
      frame (ODict kvs) ntdc_coll Hlc Hkvs (update_tail ct l a sp (mkh [key; v] true true VMissing false None None [] None))
            (dict_change_pure ct tk tv kvs key (up_pr v)) (fun sp c h => spec_change_item ct h0 sp c h false).
      - exact (update_tail_dict ct l a sp s kvs tk tv Hty Hdk Hdv Hkvs Hvp true key v Hprep Hstrict Hk Hnv).
      - intros o'. apply (dict_change_pure_scalar ct tk tv kvs Hkvs (up_pr v) (up_prn v Hnv) key o' Hk).
      - exact (update_spec_dict ct h0 sp kvs tk tv Hty Hkvs Hvp true key v Hprep Hstrict Hk Hm Hnv).
      - now apply nt_run_update.
    Qed.
  End DC.

  Section SC.
    Variables (xs : list val) (ity : ty).
    Hypothesis Hty : a_ty sp = TSet ity.
    Hypothesis Hdepth : ty_depth ity < FUEL.
    Hypothesis Hlc : nth_error (heap s) lc = Some (OSet xs).
    Hypothesis Hxs : forallb nonref xs = true.
    Lemma ntsc_coll : ty_is_collection (a_ty sp) = true.
    Proof. now rewrite Hty. Qed.

    Theorem transform_item_set_nested_refines voi fo bi :
      vscalar voi = true -> fail_at s = None -> fo_ok fo -> ident_on_eq ct xs voi = true ->
      (forall v', trp fo voi = Ok v' -> set_key_free ct xs v' = true) ->
      inplace_refines_spec ct h0 s l (HTransformItem a) (mkh [voi] true true VMissing false bi None [] fo)
                           (STransformItem a) (mkah [abs0 voi] true true AMissing false bi None [] fo).
    Proof.
      intros Hv Hfa Hfo Hid Hkf. unfold inplace_refines_spec.
      frame (OSet xs) ntsc_coll Hlc Hxs (transform_tail ct l a sp (mkh [voi] true true VMissing false bi None [] fo))
            (set_change_pure ct ity xs voi (trp fo)) (fun sp c h => spec_change_item ct h0 sp c h true).
      - exact (transform_tail_set ct l a sp s xs ity Hty Hdepth Hxs true voi fo bi Hv Hfa Hfo).
      - intros o'. apply (set_change_pure_scalar ct ity xs Hxs (trp fo) (tr_prn fo Hfo) voi o').
      - exact (transform_spec_set ct h0 sp xs ity Hty Hxs true voi fo bi Hv Hfo Hid Hkf).
      - now apply nt_run_transform.
    Qed.

    Theorem update_item_set_nested_refines voi v :
      a_prepare_item sp = None -> spec_of_ty_strict ity = None ->
      vscalar voi = true -> nonref v = true -> ident_on_eq ct xs voi = true ->
      (forall v', up_pr v voi = Ok v' -> set_key_free ct xs v' = true) ->
      inplace_refines_spec ct h0 s l (HUpdateItem a) (mkh [voi; v] true true VMissing false None None [] None)
                           (SUpdateItem a) (mkah [abs0 voi; abs0 v] true true AMissing false None None [] None).
    Proof.
      intros Hprep Hstrict Hv Hnv Hid Hkf. unfold inplace_refines_spec.
      frame (OSet xs) ntsc_coll Hlc Hxs (update_tail ct l a sp (mkh [voi; v] true true VMissing false None None [] None))
            (set_change_pure ct ity xs voi (up_pr v)) (fun sp c h => spec_change_item ct h0 sp c h false).
      - exact (update_tail_set ct l a sp s xs ity Hty Hdepth Hxs true voi v Hprep Hstrict Hv Hnv).
      - intros o'. apply (set_change_pure_scalar ct ity xs Hxs (up_pr v) (up_prn v Hnv) voi o').
      - exact (update_spec_set ct h0 sp xs ity Hty Hxs true voi v Hprep Hstrict Hv Hnv Hid Hkf).
      - now apply nt_run_update.
    Qed.
  End SC.
End NestedThms.

(* ------------------------------------------------------------------ *)
(** * update_<item> / transform_<item> on a list: the edit as standalone facts *)

Section ListChangeTail.
  Variable ct : ctable.
  Variable h0 : list obj.
  Variables (l : loc) (a : aid) (sp : attr_spec).
  Variables (xs : list val) (ity : ty).
  Hypothesis Hty : a_ty sp = TList ity.
  Hypothesis Hdepth : ty_depth ity < FUEL.
  Hypothesis Hxs : forallb vscalar xs = true.
  Variable s : state.
  Variable new : val.
  Variable x : option (xform * option (attr_spec * loc)).
  Variable okold : val -> Prop.
  Variable pr : val -> res val.
  Variable stf : state -> state.
  Hypothesis Hstf : forall s1, heap (stf s1) = heap s1.
  Hypothesis Hmv : forall s1, fail_at s1 = fail_at s -> forall old, okold old ->
    mutate_value ct (exec ct 39) (mkmv old new false (PItem sp l) None (Some (ctor_of_ty ity)) (Some ity) x [] false) s1
    = (pr old, stf s1).
  Hypothesis Hpr : forall old v', pr old = Ok v' -> nonref v' = true.
  Hypothesis Hin : forall old, In old xs -> okold old.

  Lemma lct_xn : forallb nonref xs = true.
  Proof. now apply vscalar_forall_nonref. Qed.

  Lemma change_tail_list ip voi bi s1 lc1 :
    nonref voi = true -> is_missing voi = false ->
    (by_index_rule ct ity (abs0 voi) bi = false ->
     forall n, find_index (fun y => py_eq ct y (abs0 voi)) (map abs0 xs) = Some n ->
               okold voi /\ pr voi = pr (nth n xs VMissing)) ->
    nth_error (heap s1) lc1 = Some (OList xs) -> fail_at s1 = fail_at s ->
    exists st, heap st = heap s1 /\
      (c' <- mutate_collection ct (exec ct XFUEL) FSeq sp l (VRef lc1) (mkio voi new None x [] false true (tri_of bi) false) ;;
       mutate_attr ct (exec ct XFUEL) l a c' ip false false false) s1 =
      match list_change_pure ct ity xs voi bi pr with
      | inl o' => mutate_attr ct (exec ct XFUEL) l a (VRef lc1) ip false false false (upd st lc1 o')
      | inr e => (Err e, st) end.
  Proof.
    intros Hv Hm Hval Hlc1 Hfa1.
    pose proof (mc_change ct l sp s1 lc1 xs ity Hty Hdepth Hlc1 Hxs new x okold pr (stf s1) (Hstf s1)
                  (Hmv s1 Hfa1) Hpr Hin voi bi Hv Hm Hval) as Hmc.
    unfold list_change_pure.
    assert (Hfin : forall n, mutate_collection ct (exec ct XFUEL) FSeq sp l (VRef lc1)
                               (mkio voi new None x [] false true (tri_of bi) false) s1 =
                             ch_finish ct lc1 xs ity pr (stf s1) n ->
              exists st, heap st = heap s1 /\
                (c' <- mutate_collection ct (exec ct XFUEL) FSeq sp l (VRef lc1)
                         (mkio voi new None x [] false true (tri_of bi) false) ;;
                 mutate_attr ct (exec ct XFUEL) l a c' ip false false false) s1 =
                match list_change_fin ct ity xs pr n with
                | inl o' => mutate_attr ct (exec ct XFUEL) l a (VRef lc1) ip false false false (upd st lc1 o')
                | inr e => (Err e, st) end).
    { intros n E. exists (stf s1). split; [apply Hstf|]. unfold ch_finish in E. unfold list_change_fin.
      destruct (pr (nth n xs VMissing)) as [v'|e]; [|now rewrite (bind_err _ _ _ _ _ E)].
      destruct (conforms ct ity (abs0 v')); [now rewrite (bind_ok _ _ _ _ _ E)|now rewrite (bind_err _ _ _ _ _ E)]. }
    destruct (by_index_rule ct ity (abs0 voi) bi).
    - destruct (vint_of voi) as [i|]; [|exists s1; split; auto; now rewrite (bind_err _ _ _ _ _ Hmc)].
      destruct (norm_index (zlen xs) i) as [n|]; [|exists s1; split; auto; now rewrite (bind_err _ _ _ _ _ Hmc)].
      now apply Hfin.
    - destruct (find_index (fun y => py_eq ct y (abs0 voi)) (map abs0 xs)) as [n|];
        [|exists s1; split; auto; now rewrite (bind_err _ _ _ _ _ Hmc)].
      now apply Hfin.
  Qed.

  Lemma list_change_pure_scalar voi bi o' :
    list_change_pure ct ity xs voi bi pr = inl o' -> scalar_obj o' = true.
  Proof.
    unfold list_change_pure, list_change_fin. intro E.
    assert (H1 : forall n v', pr (nth n xs VMissing) = Ok v' -> forallb nonref (set_at n v' xs) = true).
    { intros n v' Ep. apply forallb_set_at; [apply lct_xn|exact (Hpr _ _ Ep)]. }
    destruct (by_index_rule ct ity (abs0 voi) bi).
    - destruct (vint_of voi) as [i|]; [|discriminate].
      destruct (norm_index (zlen xs) i) as [n|]; [|discriminate].
      destruct (pr (nth n xs VMissing)) as [v'|e] eqn:Ep; [|discriminate].
      destruct (conforms ct ity (abs0 v')); inversion E; subst. now apply H1.
    - destruct (find_index _ (map abs0 xs)) as [n|]; [|discriminate].
      destruct (pr (nth n xs VMissing)) as [v'|e] eqn:Ep; [|discriminate].
      destruct (conforms ct ity (abs0 v')); inversion E; subst. now apply H1.
  Qed.

  Lemma list_change_pure_spec (ah : ahargs) (transform : bool) voi bi :
    is_missing voi = false -> apos0 ah = abs0 voi -> ah_by_index ah = bi ->
    (forall old, In old xs ->
       elem_pipeline ct h0 sp (abs0 old) (if transform then AMissing else apos1 ah) false
                     (if transform then None else ah_kw ah) (if transform then ah_fn ah else None)
                     (if transform then ah_kwfn ah else []) =
       match pr old with
       | Ok v' => if conforms ct ity (abs0 v') then SOk (abs0 v') else SErr ValueErr
       | Err e => SErr e end) ->
    spec_change_item ct h0 sp (aobj (OList xs)) ah transform =
    match list_change_pure ct ity xs voi bi pr with inl o' => SOk (aobj o') | inr e => SErr e end.
  Proof.
    intros Hm Hp0 Hbi Hpipe.
    (* ch_spec is stated on a heap cell: use a one-cell heap holding the list *)
    set (s0 := mkst [OList xs] 0 None).
    assert (Hc0 : nth_error (heap s0) 0 = Some (OList xs)) by reflexivity.
    change (aobj (OList xs)) with (AList (map abs0 xs)).
    rewrite <- (abs_list_scalars (heap s0) 0 xs 22 Hc0 lct_xn).
    rewrite (ch_spec ct h0 sp s0 0 xs ity Hty Hc0 Hxs pr ah transform voi bi Hm Hp0 Hbi Hpipe).
    unfold list_change_pure, list_change_fin, ch_spec_finish.
    destruct (by_index_rule ct ity (abs0 voi) bi).
    - destruct (vint_of voi) as [i|]; [|reflexivity].
      destruct (norm_index (zlen xs) i) as [n|]; [|reflexivity].
      destruct (pr (nth n xs VMissing)) as [v'|e]; [|reflexivity].
      destruct (conforms ct ity (abs0 v')); [|reflexivity]. cbn [aobj]. now rewrite map_set_at.
    - destruct (find_index _ (map abs0 xs)) as [n|]; [|reflexivity].
      destruct (pr (nth n xs VMissing)) as [v'|e]; [|reflexivity].
      destruct (conforms ct ity (abs0 v')); [|reflexivity]. cbn [aobj]. now rewrite map_set_at.
  Qed.
End ListChangeTail.

(* ------------------------------------------------------------------ *)
(** * update_<item> / transform_<item> in place on a list attribute of a nested receiver *)

Section NestedListChange.
  Variable ct : ctable.
  Variable h0 : list obj.
  Variables (l : loc) (a : aid) (c : cid) (d : list (aid * val)) (k : cls) (sp : attr_spec).
  Variable s : state.
  Variable lc : loc.
  Variables (xs : list val) (ity : ty).
  Hypothesis Hl : nth_error (heap s) l = Some (OInst c d).
  Hypothesis Hc : lookup_cls ct c = Some k.
  Hypothesis Ha : lookup_attr k a = Some sp.
  Hypothesis Hd : NoDup (map fst d).
  Hypothesis Hfz : c_frozen k = false.
  Hypothesis Hni : no_dep k a.
  Hypothesis Hfld : assoc a d = Some (VRef lc).
  Hypothesis Hun : forall b w, In (b, w) d -> b <> a -> reaches 23 (heap s) w lc = false.
  Hypothesis Hty : a_ty sp = TList ity.
  Hypothesis Hdepth : ty_depth ity < FUEL.
  Hypothesis Hlc : nth_error (heap s) lc = Some (OList xs).
  Hypothesis Hxs : forallb vscalar xs = true.

  Lemma nlc_coll : ty_is_collection (a_ty sp) = true.
  Proof. now rewrite Hty. Qed.
  Lemma nlc_item : item_type (a_ty sp) = ity.
  Proof. now rewrite Hty. Qed.
  Lemma nlc_xn : forallb nonref xs = true.
  Proof. now apply vscalar_forall_nonref. Qed.
  Lemma nlc_in : forall old, In old xs -> vscalar old = true.
  Proof. intros old Ho. rewrite forallb_forall in Hxs. auto. Qed.

  Theorem transform_item_list_nested_refines voi fo bi :
    nonref voi = true -> is_missing voi = false -> fail_at s = None -> fo_ok fo ->
    (by_index_rule ct ity (abs0 voi) bi = false -> ident_on_eq ct xs voi = true) ->
    inplace_refines_spec ct h0 s l (HTransformItem a) (mkh [voi] true true VMissing false bi None [] fo)
                         (STransformItem a) (mkah [abs0 voi] true true AMissing false bi None [] fo).
  Proof.
    intros Hv Hm Hfa Hfo Hid. unfold inplace_refines_spec.
    assert (Hmv : forall s1, fail_at s1 = fail_at s -> forall old, vscalar old = true ->
              mutate_value ct (exec ct 39) (mkmv old VMissing false (PItem sp l) None (Some (ctor_of_ty ity)) (Some ity) (xf fo) [] false) s1
              = (trp fo old, stft fo s1)).
    { intros s1 Hf1 old Ho. pose proof (tr_mv ct l sp s fo Hfa Hfo s1 Hf1 old Ho) as E. now rewrite nlc_item in E. }
    assert (Hval : by_index_rule ct ity (abs0 voi) bi = false ->
                   forall n, find_index (fun y => py_eq ct y (abs0 voi)) (map abs0 xs) = Some n ->
                     vscalar voi = true /\ trp fo voi = trp fo (nth n xs VMissing)).
    { intros Hb n Ef.
      assert (Hn : n < length xs) by (apply find_index_lt in Ef; now rewrite map_length in Ef).
      rewrite (ident_on_eq_found ct xs voi n nlc_xn Hv (Hid Hb) Ef). split; auto.
      rewrite <- (ident_on_eq_found ct xs voi n nlc_xn Hv (Hid Hb) Ef). apply nlc_in. now apply nth_In. }
    apply (ip_whole_n ct h0 l a c d k sp s lc (OList xs) Hl Hc Ha Hd Hfz Hni nlc_coll Hfld Hlc nlc_xn Hun
             (transform_tail ct l a sp (mkh [voi] true true VMissing false bi None [] fo))
             (list_change_pure ct ity xs voi bi (trp fo)))
      with (edit := fun sp c h => spec_change_item ct h0 sp c h true); try reflexivity.
    - intros s1 lc1 H1 Hf1. unfold transform_tail. rewrite Hty.
      cbn [family_of pos0 h_pos nth h_fn h_kwfn h_by_index h_inplace].
      exact (change_tail_list ct l a sp xs ity Hty Hdepth Hxs s VMissing (xf fo) (fun old => vscalar old = true)
               (trp fo) (stft fo) (stft_heap fo) Hmv (tr_prn fo Hfo) nlc_in true voi bi s1 lc1 Hv Hm Hval H1 Hf1).
    - intros o'. apply (list_change_pure_scalar ct xs ity Hxs (trp fo) (tr_prn fo Hfo) voi bi o').
    - apply (list_change_pure_spec ct h0 sp xs ity Hty Hxs (trp fo)
               (mkah [abs0 voi] true true AMissing false bi None [] fo) true voi bi Hm eq_refl eq_refl).
      intros old Ho. cbn [ah_fn ah_kwfn]. rewrite (tr_pipe ct h0 sp fo Hfo old (nlc_in old Ho)). now rewrite nlc_item.
    - exact (run_transform_ip ct l a c d k sp s Hl Hc Ha (mkh [voi] true true VMissing false bi None [] fo) eq_refl eq_refl).
  Qed.

  Theorem update_item_list_nested_refines voi v bi :
    a_prepare_item sp = None -> spec_of_ty_strict ity = None ->
    nonref voi = true -> is_missing voi = false -> nonref v = true ->
    (vscalar v = false -> by_index_rule ct ity (abs0 voi) bi = false -> ident_on_eq ct xs voi = true) ->
    inplace_refines_spec ct h0 s l (HUpdateItem a) (mkh [voi; v] true true VMissing false bi None [] None)
                         (SUpdateItem a) (mkah [abs0 voi; abs0 v] true true AMissing false bi None [] None).
  Proof.
    intros Hprep Hstrict Hv Hm Hnv Hid. unfold inplace_refines_spec.
    set (okold := fun old : val => vscalar v = true \/ vscalar old = true).
    assert (Hmv : forall s1, fail_at s1 = fail_at s -> forall old, okold old ->
              mutate_value ct (exec ct 39) (mkmv old v false (PItem sp l) None (Some (ctor_of_ty ity)) (Some ity) None [] false) s1
              = (up_pr v old, s1)).
    { intros s1 _ old Ho. unfold up_pr. destruct (vscalar v) eqn:Esv.
      - now apply mutate_value_update_scalar.
      - destruct Ho as [Ho|Ho]; [discriminate|]. rewrite Ho. now apply mutate_value_update_sentinel. }
    assert (Hin : forall old, In old xs -> okold old) by (intros old Ho; right; now apply nlc_in).
    assert (Hval : by_index_rule ct ity (abs0 voi) bi = false ->
                   forall n, find_index (fun y => py_eq ct y (abs0 voi)) (map abs0 xs) = Some n ->
                     okold voi /\ up_pr v voi = up_pr v (nth n xs VMissing)).
    { intros Hb n Ef. unfold okold, up_pr. destruct (vscalar v) eqn:Esv; [split; auto|].
      assert (Hn : n < length xs) by (apply find_index_lt in Ef; now rewrite map_length in Ef).
      rewrite (ident_on_eq_found ct xs voi n nlc_xn Hv (Hid eq_refl Hb) Ef). split; auto. right.
      rewrite <- (ident_on_eq_found ct xs voi n nlc_xn Hv (Hid eq_refl Hb) Ef). apply nlc_in. now apply nth_In. }
    assert (Hstrict' : spec_of_ty_strict (item_type (a_ty sp)) = None) by (now rewrite nlc_item).
    apply (ip_whole_n ct h0 l a c d k sp s lc (OList xs) Hl Hc Ha Hd Hfz Hni nlc_coll Hfld Hlc nlc_xn Hun
             (update_tail ct l a sp (mkh [voi; v] true true VMissing false bi None [] None))
             (list_change_pure ct ity xs voi bi (up_pr v)))
      with (edit := fun sp c h => spec_change_item ct h0 sp c h false); try reflexivity.
    - intros s1 lc1 H1 Hf1. unfold update_tail. rewrite Hty.
      cbn [family_of pos0 pos1 h_pos nth h_kw h_by_index h_inplace]. rewrite Hm. cbn [negb].
      exact (change_tail_list ct l a sp xs ity Hty Hdepth Hxs s v None okold (up_pr v) (fun s1 => s1) (fun s1 => eq_refl)
               Hmv (up_prn v Hnv) Hin true voi bi s1 lc1 Hv Hm Hval H1 Hf1).
    - intros o'. apply (list_change_pure_scalar ct xs ity Hxs (up_pr v) (up_prn v Hnv) voi bi o').
    - apply (list_change_pure_spec ct h0 sp xs ity Hty Hxs (up_pr v)
               (mkah [abs0 voi; abs0 v] true true AMissing false bi None [] None) false voi bi Hm eq_refl eq_refl).
      intros old Ho. cbn [apos1 ah_pos nth ah_kw].
      rewrite (up_pipe ct h0 sp Hprep Hstrict' v Hnv old (nlc_in old Ho)). now rewrite nlc_item.
    - exact (run_update_ip ct l a c d k sp s Hl Hc Ha (mkh [voi; v] true true VMissing false bi None [] None) eq_refl eq_refl).
  Qed.
End NestedListChange.
