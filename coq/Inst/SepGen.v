(* GENERALISED separation judgement (C08 extension): a copy of the judgement part of
   SepProofs.v with ONE change — the old cells that may be written (W) have to be ALLOWED (A) and
   must hold only allowed-or-fresh values after a write:
     sinv: for l < b, either cell l is as in h0, or W l /\ A l and its content is obj_ok.
   (SepProofs.v: a written old cell is unconstrained, which forces A := everything as soon as W is
   not empty.)  A_closed loses its second clause accordingly.  Everything else — one lemma per
   Model.v function, exec_sep, run_helper_sep, run_helper_item_inplace, step_sep — is the text of
   SepProofs.v.  With W = A = "what the receiver reached" this confines an in-place operation,
   element helpers included, to the receiver's own object graph AND bounds what that graph and the
   freshly allocated cells may refer to.

   Original header:
   Separation proofs for the instance model (C02, C08).

   `sep b A W h0 m Q` is a Hoare-style judgement over the state-and-exception
   monad of Heap.v.  b is a watermark (the length of the heap when the call
   under consideration began), h0 that heap, W : loc -> Prop the old cells the
   computation may write (none for copy-on-write calls; the receiver for
   in-place operations, see Section Confinement), and A : loc -> Prop the set of
   "allowed old objects" (what the caller handed to the call, values held
   by do_not_copy attributes, ...).  A value is `okv` when it is a scalar, a
   reference to a cell >= b, or a reference to an allowed old object.  The
   state invariant `sinv` says: the heap has at least b cells, the cells
   below b are those of h0 (nothing old is written), and every cell >= b
   contains only okv values.  `sep m Q`: started in a state satisfying sinv,
   m ends (Ok or Err) in a state satisfying sinv, and an Ok result satisfies Q.

   The development follows FrameProofs.v function by function. *)
From Coq Require Import List ZArith Bool Arith Lia.
From SC Require Import Base.Res Base.PyList Inst.Heap Inst.ClassTable Inst.Model Inst.Framed Inst.Reach Inst.FrameProofs Inst.SepProofs.
Import ListNotations.
Open Scope nat_scope.

(* ------------------------------------------------------------------ *)
(** * The judgement *)
Section Judgement.
  Variable b : nat.
  Variable A : loc -> Prop.
  Variable W : loc -> Prop.   (* old cells that may be written (in-place operations); empty for copy-on-write calls *)
  Variable h0 : list obj.

  Definition okv (v : val) : Prop :=
    match v with VRef l => b <= l \/ A l | _ => True end.

  Definition pok (p : val * val) : Prop := okv (fst p) /\ okv (snd p).
  Definition fok (p : aid * val) : Prop := okv (snd p).

  Definition obj_ok (o : obj) : Prop :=
    match o with
    | OList xs | OSet xs => Forall okv xs
    | ODict kvs => Forall pok kvs
    | OInst _ d => Forall fok d
    end.

  (* a cell that may be written: allocated by the call, or a writable (and allowed) old cell *)
  Definition wr (l : loc) : Prop := b <= l \/ (W l /\ A l).
  Definition wrv (v : val) : Prop := match v with VRef l => wr l | _ => True end.

  Definition sinv (s : state) : Prop :=
    b <= length (heap s) /\
    (forall l, l < b -> (W l /\ A l /\ forall o, nth_error (heap s) l = Some o -> obj_ok o)
                        \/ nth_error (heap s) l = nth_error h0 l) /\
    (forall l o, b <= l -> nth_error (heap s) l = Some o -> obj_ok o).

  Definition sep {T} (m : M T) (Q : T -> Prop) : Prop :=
    forall s, sinv s ->
      sinv (snd (m s)) /\ match fst (m s) with Ok a => Q a | Err _ => True end.

  (* allowed old objects contain only allowed (or fresh) references *)
  (* and: if some old cell may be written, every value is allowed (the judgement then
     only confines writes; used with A := everything for in-place operations) *)
  Definition A_closed : Prop :=
    forall l o, A l -> l < b -> nth_error h0 l = Some o -> obj_ok o.

  Lemma obj_ok_all o : (forall v, okv v) -> obj_ok o.
  Proof.
    intro H. destruct o; simpl; rewrite Forall_forall; intros; unfold pok, fok; auto.
  Qed.

  Lemma freshv_okv v : freshv b v -> okv v.
  Proof. destruct v; simpl; auto. Qed.
  Lemma wr_okv l : wr l -> okv (VRef l).
  Proof. intros [H|[_ H]]; simpl; auto. Qed.
  Lemma wrv_okv v : wrv v -> okv v.
  Proof. destruct v; simpl; auto. apply wr_okv. Qed.
  Lemma freshv_wrv v : freshv b v -> wrv v.
  Proof. destruct v; simpl; auto. intro H; left; exact H. Qed.

  Lemma sep_ret {T} (a : T) (Q : T -> Prop) : Q a -> sep (ret a) Q.
  Proof. intros H s Hs. simpl. auto. Qed.

  Lemma sep_fail {T} e (Q : T -> Prop) : sep (fail e) Q.
  Proof. intros s Hs. simpl. auto. Qed.

  Lemma sep_weaken {T} (m : M T) (Q Q' : T -> Prop) :
    sep m Q -> (forall a, Q a -> Q' a) -> sep m Q'.
  Proof.
    intros H HW s Hs. destruct (H s Hs) as [I P]. split; auto. destruct (fst (m s)); auto.
  Qed.

  Lemma sep_bind {T U} (m : M T) (k : T -> M U) (Q : T -> Prop) (R : U -> Prop) :
    sep m Q -> (forall a, Q a -> sep (k a) R) -> sep (bind m k) R.
  Proof.
    intros Hm Hk s Hs. unfold bind. specialize (Hm s Hs).
    destruct (m s) as [[a|e] s1]; simpl in *.
    - destruct Hm as [I Qa]. exact (Hk a Qa s1 I).
    - tauto.
  Qed.

  Lemma sep_alloc o : obj_ok o -> sep (alloc o) (fun l => b <= l).
  Proof.
    intros Ho s (L & Old & Cl). unfold alloc. simpl. split; [|exact L].
    unfold sinv; simpl. split; [rewrite app_length; lia|]. split.
    - intros l Hl. destruct (Old l Hl) as [(Hw & Ha & Hoo)|E1].
      + left. split; [exact Hw|]. split; [exact Ha|]. intros o' Hn. rewrite nth_error_app1 in Hn by lia. eauto.
      + right. rewrite nth_error_app1 by lia. exact E1.
    - intros l o' Hl Hn. destruct (Nat.lt_ge_cases l (length (heap s))) as [Hlt|Hge].
      + rewrite nth_error_app1 in Hn by exact Hlt. eauto.
      + rewrite nth_error_app2 in Hn by exact Hge.
        destruct (l - length (heap s)) as [|n]; simpl in Hn.
        * inversion Hn; subst; exact Ho.
        * destruct n; discriminate.
  Qed.

  (* what is known about an object read from cell l *)
  Definition rd (l : loc) (o : obj) : Prop :=
    (okv (VRef l) -> obj_ok o) /\ (l < b -> (W l /\ A l) \/ nth_error h0 l = Some o).

  Lemma sep_read l : A_closed -> sep (read l) (rd l).
  Proof.
    intros AC s Hs. unfold read. destruct (nth_error (heap s) l) as [o|] eqn:E; simpl; split; auto.
    destruct Hs as (L & Old & Cl). split.
    - intros [Hl|Hl]; [eapply Cl; eauto|].
      destruct (Nat.lt_ge_cases l b) as [Hlt|Hge]; [|eapply Cl; eauto].
      destruct (Old l Hlt) as [(Hw & Ha & Ho)|He]; [exact (Ho o E)|].
      eapply AC; eauto. rewrite <- He; exact E.
    - intro Hl. destruct (Old l Hl) as [(Hw & Ha & Ho)|He]; [left; split; assumption|right; rewrite <- He; exact E].
  Qed.

  Lemma sep_write l o : wr l -> obj_ok o -> sep (write l o) (fun _ => True).
  Proof.
    intros Hl Ho s Hs. unfold write. destruct (l <? length (heap s)) eqn:E; simpl; split; auto.
    destruct Hs as (L & Old & Cl). unfold sinv; simpl. split; [rewrite set_nth_length; exact L|]. split.
    - intros l' Hl'. destruct (Nat.eq_dec l l') as [->|Hne].
      + left. destruct Hl as [Hl|[Hw Ha]]; [lia|]. split; [exact Hw|]. split; [exact Ha|].
        intros o' Hn. apply Nat.ltb_lt in E.
        assert (nth_error (set_nth l' o (heap s)) l' = Some o).
        { clear -E. revert l' E. induction (heap s); intros [|n] E; simpl in *; try lia; auto.
          apply IHl. lia. }
        assert (o' = o) by congruence. subst. exact Ho.
      + destruct (Old l' Hl') as [(Hw & Ha & Hoo)|E1].
        * left. split; [exact Hw|]. split; [exact Ha|]. intros o' Hn.
          rewrite set_nth_other in Hn by exact Hne. eauto.
        * right. rewrite set_nth_other by exact Hne. exact E1.
    - intros l' o' Hl' Hn. destruct (Nat.eq_dec l l') as [->|Hne].
      + apply Nat.ltb_lt in E.
        assert (nth_error (set_nth l' o (heap s)) l' = Some o).
        { clear -E. revert l' E. induction (heap s); intros [|n] E; simpl in *; try lia; auto.
          apply IHl. lia. }
        congruence.
      + rewrite set_nth_other in Hn by exact Hne. eauto.
  Qed.

  Lemma sinv_heap_irrel s n f : sinv s -> sinv (mkst (heap s) n f).
  Proof. intros H; exact H. Qed.

  Lemma sep_tick : sep tick (fun _ => True).
  Proof.
    intros s Hs. unfold tick. destruct (fail_at s) as [k|]; [destruct (k =? S (ncalls s))|];
      simpl; split; auto.
  Qed.

  Lemma sep_get_heap : sep get_heap (fun _ => True).
  Proof. intros s Hs. simpl. auto. Qed.

  Lemma sep_catch {T} (m k : M T) h (Q : T -> Prop) :
    sep m Q -> sep k Q -> sep (catch m h k) Q.
  Proof.
    intros Hm Hk s Hs. unfold catch. specialize (Hm s Hs).
    destruct (m s) as [[a|e] s1]; simpl in *; auto.
    destruct (h e); simpl; auto. destruct Hm as [I _]. exact (Hk s1 I).
  Qed.

  Lemma sep_finally {T} (m : M T) (c : M unit) (Q : T -> Prop) :
    sep m Q -> sep c (fun _ => True) -> sep (finally_ m c) Q.
  Proof.
    intros Hm Hc s Hs. unfold finally_. specialize (Hm s Hs).
    destruct (m s) as [[a|e] s1]; simpl in *; destruct Hm as [I P];
      destruct (Hc s1 I) as [I2 _].
    - destruct (c s1) as [[u|e] s2]; simpl in *; split; auto.
    - split; auto.
  Qed.

  Lemma sep_iterM {T} (f : T -> M unit) (l : list T) :
    (forall x, In x l -> sep (f x) (fun _ => True)) -> sep (iterM f l) (fun _ => True).
  Proof.
    induction l as [|x l IH]; intro H; simpl.
    - now apply sep_ret.
    - eapply sep_bind; [apply H; simpl; auto|]. intros _ _. apply IH. intros; apply H; simpl; auto.
  Qed.

  Lemma sep_foldM {T U} (f : U -> T -> M U) (l : list T) (P : U -> Prop) :
    (forall acc x, In x l -> P acc -> sep (f acc x) P) ->
    forall acc, P acc -> sep (foldM f l acc) P.
  Proof.
    induction l as [|x l IH]; intros H acc Hacc; simpl.
    - now apply sep_ret.
    - eapply sep_bind; [apply H; simpl; auto|]. intros acc' Hacc'.
      apply IH; auto. intros; apply H; simpl; auto.
  Qed.

  Lemma sep_mapM {T U} (f : T -> M U) (l : list T) (P : U -> Prop) :
    (forall x, In x l -> sep (f x) P) -> sep (mapM f l) (Forall P).
  Proof.
    induction l as [|x l IH]; intro H; simpl.
    - apply sep_ret. constructor.
    - eapply sep_bind; [apply H; simpl; auto|]. intros y Hy.
      eapply sep_bind; [apply IH; intros; apply H; simpl; auto|]. intros ys Hys.
      apply sep_ret. constructor; auto.
  Qed.

  (* running a judgement *)
  Lemma sep_run {T} (m : M T) (Q : T -> Prop) s :
    sep m Q -> sinv s -> sinv (snd (m s)) /\ forall a, fst (m s) = Ok a -> Q a.
  Proof.
    intros H Hs. destruct (H s Hs) as [I P]. split; auto. intros a E. rewrite E in P. exact P.
  Qed.

  (* ---------- small facts about ok lists ---------- *)
  Lemma Forall_app_1 {T} (P : T -> Prop) xs x : Forall P xs -> P x -> Forall P (xs ++ [x]).
  Proof. intros. apply Forall_app. split; auto. Qed.

  Lemma fok_assoc d a v : Forall fok d -> assoc a d = Some v -> okv v.
  Proof.
    unfold assoc. intros H E.
    destruct (find (fun p : nat * val => fst p =? a) d) as [[x y]|] eqn:F; simpl in E; [|discriminate].
    inversion E; subst. apply find_some in F. destruct F as [F _].
    rewrite Forall_forall in H. exact (H _ F).
  Qed.

  Lemma fok_assoc_set d a v : Forall fok d -> okv v -> Forall fok (assoc_set a v d).
  Proof.
    intros H Hv. unfold assoc_set. destruct (existsb (fun p : nat * val => fst p =? a) d).
    - rewrite Forall_forall in *. intros p Hp. apply in_map_iff in Hp. destruct Hp as [q [<- Hq]].
      destruct (fst q =? a); [exact Hv|auto].
    - apply Forall_app_1; auto.
  Qed.

  Lemma fok_assoc_del d a : Forall fok d -> Forall fok (assoc_del a d).
  Proof.
    intros H. unfold assoc_del. rewrite Forall_forall in *. intros p Hp.
    apply filter_In in Hp. destruct Hp; auto.
  Qed.

  Lemma Forall_filter {T} (P : T -> Prop) f xs : Forall P xs -> Forall P (filter f xs).
  Proof.
    intros H. rewrite Forall_forall in *. intros p Hp. apply filter_In in Hp. destruct Hp; auto.
  Qed.

  Lemma Forall_nth_error {T} (P : T -> Prop) xs n x : Forall P xs -> nth_error xs n = Some x -> P x.
  Proof. intros H E. rewrite Forall_forall in H. apply H. eapply nth_error_In; eauto. Qed.
End Judgement.


(* ------------------------------------------------------------------ *)
(** * Conditions on the class table, callbacks, deepcopy *)
From SC Require Import Inst.FrameProofs.

Tactic Notation "sbind" := eapply sep_bind.
Ltac sret := apply sep_ret.

Definition is_appended (f : fn) : bool := match f with FAppended _ => true | _ => false end.

Section Table.
  Variable ct : ctable.
  Hypothesis no_dnc : forall c k, lookup_cls ct c = Some k -> c_dnc k = false.
  Variable b : nat.
  Variable A : loc -> Prop.
  Variable W : loc -> Prop.
  Variable h0 : list obj.
  Hypothesis AC : A_closed b A h0.

  Local Notation okV := (okv b A).
  Local Notation SEP := (sep b A W h0).

  (* values embedded in callbacks and factories *)
  Definition fn_ok (f : fn) : Prop :=
    match f with
    | FNewList xs => Forall okV xs
    | FAppended x => okV x
    | FDictOf _ x => okV x
    | _ => True
    end.
  Definition fac_ok (f : fac) : Prop :=
    match f with
    | FacList xs | FacSet xs => Forall okV xs
    | FacDict kvs => Forall (pok b A) kvs
    | FacInst _ => True
    end.
  Definition ofn_ok (o : option fn) : Prop := match o with Some f => fn_ok f | None => True end.
  Definition spec_ok (sp : attr_spec) : Prop :=
    ofn_ok (a_prepare sp) /\ ofn_ok (a_prepare_item sp) /\
    match a_factory sp with Some f => fac_ok f | None => True end.
  Definition cls_ok (k : cls) : Prop :=
    (forall sp, In sp (c_attrs k) -> spec_ok sp) /\ ofn_ok (c_post_init k) /\ ofn_ok (c_post_copy k).
  Definition table_ok : Prop := forall k, In k ct -> cls_ok k.

  Hypothesis ct_ok : table_ok.

  (* values held by do_not_copy attributes of old instances are allowed *)
  Definition dnc_allowed : Prop :=
    forall l c d k a sp x, l < b -> nth_error h0 l = Some (OInst c d) ->
      lookup_cls ct c = Some k -> In (a, x) d -> lookup_attr k a = Some sp -> a_dnc sp = true -> okV x.
  Hypothesis A_dnc : dnc_allowed.

  Lemma lookup_cls_in c k : lookup_cls ct c = Some k -> In k ct.
  Proof. unfold lookup_cls. intro H. apply find_some in H. exact (proj1 H). Qed.

  Lemma lookup_attr_in k a sp : lookup_attr k a = Some sp -> In sp (c_attrs k) /\ a_name sp = a.
  Proof.
    unfold lookup_attr. intro H. apply find_some in H. destruct H as [H1 H2].
    split; auto. now apply Nat.eqb_eq.
  Qed.

  Lemma lookup_cls_ok c k : lookup_cls ct c = Some k -> cls_ok k.
  Proof. intro H. apply ct_ok. eapply lookup_cls_in; eauto. Qed.

  Lemma lookup_attr_ok c k a sp : lookup_cls ct c = Some k -> lookup_attr k a = Some sp -> spec_ok sp.
  Proof.
    intros Hk Ha. destruct (lookup_cls_ok _ _ Hk) as [H _]. apply H. eapply lookup_attr_in; eauto.
  Qed.

  (* user callbacks: the result is the argument, a scalar, or a fresh object with allowed content *)
  Lemma sep_apply_fn f v :
    fn_ok f -> (okV v \/ is_appended f = false) ->
    SEP (apply_fn f v) (fun r => r = v \/ freshv b r).
  Proof.
    intros Hf Hv. unfold apply_fn. sbind; [apply sep_tick|]. intros _ _.
    destruct f; simpl in Hf.
    - sret; auto.
    - destruct v; try apply sep_fail; sret; right; exact I.
    - destruct v0; try apply sep_fail; sret; right; exact I.
    - sbind; [apply sep_alloc; exact Hf|]. intros; sret; right; assumption.
    - destruct Hv as [Hv|Hv]; [|discriminate].
      destruct v; try apply sep_fail.
      sbind; [apply sep_read; exact AC|]. intros o [Ho _]. destruct o; try apply sep_fail.
      sbind; [apply sep_alloc; simpl; apply Forall_app_1; [apply Ho; exact Hv|exact Hf]|].
      intros; sret; right; assumption.
    - sbind; [apply sep_alloc; simpl; repeat constructor; exact Hf|]. intros; sret; right; assumption.
    - apply sep_fail.
  Qed.

  Lemma Qdc_okv v r : Qdc b v r -> okV (fst r).
  Proof.
    intros [H _]. destruct v; try (rewrite H; exact I).
    destruct H as [l' [-> Hl']]. simpl. auto.
  Qed.

  Lemma scalar_okv v : val_is_scalar v = true -> okV v.
  Proof. destruct v; simpl; auto; discriminate. Qed.

  Lemma dc_sep fuel : forall v memo, memo_ok b memo -> SEP (dc ct fuel v memo) (Qdc b v).
  Proof.
    induction fuel as [|f IH]; intros v memo Hm; simpl; [apply sep_fail|].
    destruct v; try (sret; split; simpl; auto; fail).
    destruct (assoc l memo) as [l'|] eqn:E.
    { sret. split; simpl; auto. exists l'. split; auto. eapply memo_ok_assoc; eauto. }
    sbind; [apply sep_read; exact AC|]. intros o [Ho Hold]. destruct o as [xs|kvs|xs|c d].
    - (* list *)
      sbind; [apply sep_alloc; constructor|]. intros l' Hl'.
      sbind.
      + apply sep_foldM with (P := memo_ok b).
        * intros m x _ Hmm. sbind; [apply IH; exact Hmm|]. intros r Hr.
          sbind; [apply sep_read; exact AC|]. intros o' [Ho' _]. destruct o'; try apply sep_fail.
          sbind; [apply sep_write; [left; exact Hl'|]|].
          { simpl. apply Forall_app_1; [apply Ho'; simpl; auto|eapply Qdc_okv; eauto]. }
          intros _ _. sret. apply Hr.
        * now apply memo_ok_cons.
      + intros memo' Hm'. sret. split; simpl; auto. eauto.
    - (* dict *)
      sbind; [apply sep_alloc; constructor|]. intros l' Hl'.
      sbind.
      + apply sep_foldM with (P := memo_ok b).
        * intros m p _ Hmm. sbind; [apply IH; exact Hmm|]. intros rk Hrk.
          sbind; [apply IH; apply Hrk|]. intros rv Hrv.
          sbind; [apply sep_read; exact AC|]. intros o' [Ho' _]. destruct o'; try apply sep_fail.
          sbind; [apply sep_write; [left; exact Hl'|]|].
          { simpl. apply Forall_app_1; [apply Ho'; simpl; auto|].
            split; simpl; eapply Qdc_okv; eauto. }
          intros _ _. sret. apply Hrv.
        * now apply memo_ok_cons.
      + intros memo' Hm'. sret. split; simpl; auto. eauto.
    - (* set *)
      sbind.
      + apply sep_foldM with (P := fun acc : list val * memo_t => Forall okV (fst acc) /\ memo_ok b (snd acc)).
        * intros acc x _ [Ha1 Ha2]. sbind; [apply IH; exact Ha2|]. intros r Hr. sret. simpl. split.
          -- apply Forall_app_1; auto. eapply Qdc_okv; eauto.
          -- apply Hr.
        * split; [constructor|exact Hm].
      + intros r [Hr1 Hr2]. sbind; [apply sep_alloc; exact Hr1|]. intros l' Hl'.
        sret. split; simpl; eauto. now apply memo_ok_cons.
    - (* instance *)
      destruct (lookup_cls ct c) as [k|] eqn:Ek; [|apply sep_fail].
      rewrite (no_dnc c k Ek).
      sbind; [apply sep_alloc; constructor|]. intros new Hnew.
      sbind.
      + apply sep_foldM with (P := memo_ok b); [|exact Hm].
        intros m [a x] Hin Hmm.
        assert (Hdnc : forall sp, lookup_attr k a = Some sp -> a_dnc sp = true -> okV x).
        { intros sp Hsp Hd. destruct (Nat.lt_ge_cases l b) as [Hlt|Hge].
          - destruct (Hold Hlt) as [[Hw Ha]|Hh].
            + assert (Hd' : Forall (fok b A) d) by (apply Ho; simpl; auto).
              rewrite Forall_forall in Hd'. exact (Hd' _ Hin).
            + eapply A_dnc; [exact Hlt|exact Hh|exact Ek|exact Hin|exact Hsp|exact Hd].
          - assert (Hd' : Forall (fok b A) d) by (apply Ho; simpl; auto).
            rewrite Forall_forall in Hd'. exact (Hd' _ Hin). }
        eapply sep_bind with (Q := fun r : val * memo_t => okV (fst r) /\ memo_ok b (snd r)).
        * destruct (lookup_attr k a) as [sp|] eqn:Ea.
          -- destruct (a_dnc sp) eqn:Ed; [sret; split; simpl; eauto|].
             destruct (val_is_scalar x) eqn:Es; [sret; split; simpl; auto using scalar_okv|].
             eapply sep_weaken; [apply IH; exact Hmm|]. intros r Hr; split; [eapply Qdc_okv; eauto|apply Hr].
          -- destruct (val_is_scalar x) eqn:Es; [sret; split; simpl; auto using scalar_okv|].
             eapply sep_weaken; [apply IH; exact Hmm|]. intros r Hr; split; [eapply Qdc_okv; eauto|apply Hr].
        * intros r [Hr1 Hr2]. sbind; [apply sep_read; exact AC|]. intros o' [Ho' _].
          destruct o'; try apply sep_fail.
          sbind; [apply sep_write; [left; exact Hnew|]|].
          { simpl. apply Forall_app_1; [apply Ho'; simpl; auto|exact Hr1]. }
          intros _ _. sret. exact Hr2.
      + intros memo' Hm'.
        eapply sep_bind with (Q := fun _ : unit => True).
        * destruct (c_post_copy k) as [g|] eqn:Eg; [|now sret].
          sbind; [apply sep_apply_fn; [|left; exact I]|intros; now sret].
          destruct (lookup_cls_ok _ _ Ek) as (_ & _ & H). rewrite Eg in H. exact H.
        * intros _ _. sret. split; simpl; eauto. now apply memo_ok_cons.
  Qed.

  Lemma deepcopy_sep v :
    SEP (deepcopy ct v)
        (fun r => match v with VRef _ => exists l', r = VRef l' /\ b <= l' | _ => r = v end).
  Proof.
    unfold deepcopy. sbind; [apply dc_sep; intros ? ? []|].
    intros r [H _]. sret. exact H.
  Qed.

  Lemma protect_sep v : SEP (protect ct v) (freshv b).
  Proof.
    unfold protect. destruct (val_is_scalar v) eqn:E.
    - sret. destruct v; simpl in *; auto; discriminate.
    - eapply sep_weaken; [apply deepcopy_sep|].
      intros r H. destruct v; subst; simpl; auto. destruct H as [l' [-> H]]. exact H.
  Qed.
End Table.

(* ------------------------------------------------------------------ *)
(** * Automation *)
Create HintDb sp.
#[export] Hint Resolve sep_tick sep_get_heap : sp.
#[export] Hint Extern 1 (_ <= _) => (assumption || lia) : sp.

Ltac sprim := eauto with sp.
Ltac sbindT := eapply sep_bind with (Q := fun _ => True).
Ltac sstep :=
  lazymatch goal with
  | |- sep _ _ _ _ (ret _) _ => apply sep_ret; auto
  | |- sep _ _ _ _ (fail _) _ => apply sep_fail
  | |- sep _ _ _ _ (bind _ _) _ => eapply sep_bind; [ solve [sprim] | intros; cbv beta in * ]
  | |- sep _ _ _ _ (let _ := _ in _) _ => cbv zeta
  | |- sep _ _ _ _ (if ?c then _ else _) _ => destruct c eqn:?
  | |- sep _ _ _ _ (match ?x with _ => _ end) _ => destruct x eqn:?
  end.
Ltac sgo := repeat sstep.
Tactic Notation "sbi" ident(x) ident(H) := eapply sep_bind; [ solve [sprim] | intros x H; cbv beta in * ].

Lemma Forall_firstn' {T} (P : T -> Prop) n l : Forall P l -> Forall P (firstn n l).
Proof. revert n; induction l; intros [|n] H; simpl; auto. inversion H; subst. constructor; auto. Qed.
Lemma Forall_skipn' {T} (P : T -> Prop) n l : Forall P l -> Forall P (skipn n l).
Proof. revert n; induction l; intros [|n] H; simpl; auto. inversion H; subst. auto. Qed.
Lemma Forall_insert_at {T} (P : T -> Prop) n x l : Forall P l -> P x -> Forall P (insert_at n x l).
Proof.
  intros. unfold insert_at. apply Forall_app. split; [now apply Forall_firstn'|].
  constructor; auto. now apply Forall_skipn'.
Qed.
Lemma Forall_set_at {T} (P : T -> Prop) n x l : Forall P l -> P x -> Forall P (set_at n x l).
Proof.
  intros. unfold set_at. apply Forall_app. split; [now apply Forall_firstn'|].
  constructor; auto. now apply Forall_skipn'.
Qed.
Lemma Forall_remove_at {T} (P : T -> Prop) n l : Forall P l -> Forall P (remove_at n l).
Proof.
  intros. unfold remove_at. apply Forall_app. split; [now apply Forall_firstn'|now apply Forall_skipn'].
Qed.

(* ------------------------------------------------------------------ *)
(** * The recursive core *)
Section Core.
  Variable ct : ctable.
  Hypothesis no_dnc : forall c k, lookup_cls ct c = Some k -> c_dnc k = false.
  (* no plain subclasses: every class of the table uses its own metadata *)
  Hypothesis wf_owner : forall c k, lookup_cls ct c = Some k -> c_owner k = c.
  Variable b : nat.
  Variable A : loc -> Prop.
  Variable W : loc -> Prop.
  Variable h0 : list obj.
  Hypothesis AC : A_closed b A h0.
  Hypothesis ct_ok : table_ok ct b A.
  Hypothesis A_dnc : dnc_allowed ct b A h0.
  Variable rec : call -> M val.

  Local Notation okV := (okv b A).
  Local Notation SEP := (sep b A W h0).
  Local Notation fnOk := (fn_ok b A).
  Local Notation specOk := (spec_ok b A).
  Local Notation wR := (wr b A W).
  Local Notation wrV := (wrv b A W).

  (* an attribute name that some class of the table declares do_not_copy *)
  Definition dncname (a : aid) : bool :=
    existsb (fun k => existsb (fun sp => (a_name sp =? a) && a_dnc sp) (c_attrs k)) ct.

  (* constructor keywords: whatever will not be copied by InitMethod must be allowed *)
  Definition kwok (kw : list (aid * val)) : Prop :=
    forall a v, In (a, v) kw -> okV v \/ dncname a = false.
  Definition kw_okv (kw : list (aid * val)) : Prop := Forall (fok b A) kw.

  (* class-level default objects are allowed (needed only where the model falls
     back to the class attribute: getattr(obj, name, MISSING)) *)
  Definition dflt_ok : Prop := forall c k a, lookup_cls ct c = Some k -> okV (class_default k a).

  Definition prep_ok (p : prep) : Prop :=
    match p with PNone => True | PAttr f => fnOk f | PItem sp _ => specOk sp end.
  Definition xf_ok (x : option (xform * option (attr_spec * loc))) : Prop :=
    match x with
    | Some (XFn f, _) => fnOk f
    | Some (XPrepItem, Some (sp, _)) => specOk sp
    | _ => True
    end.
  Definition xf_plain (x : option (xform * option (attr_spec * loc))) : Prop :=
    match x with
    | None => True
    | Some (XFn f, _) => is_appended f = false
    | Some (XPrepItem, _) => False
    end.
  Definition oattrs_ok (o : option (list (aid * val))) : Prop :=
    match o with Some kw => kw_okv kw | None => True end.
  Definition ats_ok (ats : list (aid * fn)) : Prop :=
    Forall (fun p => fnOk (snd p)) ats /\ (ats = [] \/ dflt_ok).

  (* mutate_value looks at old_value only when no new value is given and not replacing *)
  Definition mv_uses_old (m : mv_args) : bool :=
    negb ((negb (is_missing (mv_new m)) && negb (match mv_new m with VEmpty => true | _ => false end))
          || mv_replace m).

  Definition mv_ok (m : mv_args) : Prop :=
    okV (mv_new m) /\
    (mv_uses_old m = true -> okV (mv_old m) \/ (mv_ctor m = None /\ xf_plain (mv_transform m))) /\
    prep_ok (mv_prepare m) /\ oattrs_ok (mv_attrs m) /\ xf_ok (mv_transform m) /\
    ats_ok (mv_attr_transforms m) /\
    (mv_inplace m = true -> wrV (mv_old m) /\ wrV (mv_new m)).

  Definition call_ok (k : call) : Prop :=
    match k with
    | KSetAttr l _ v _ _ => wR l /\ okV v
    | KDelAttr l _ _ _ => wR l
    | KInit _ l kw => wR l /\ kw_okv kw
    | KConstruct _ pos kw => kwok kw /\ match pos with Some v => okV v | None => True end
    | KMutateValue m => mv_ok m
    end.
  Definition post (k : call) (v : val) : Prop :=
    match k with
    | KConstruct _ _ _ => freshv b v
    | KMutateValue m => okV v \/ (v = mv_old m /\ (mv_uses_old m = true \/ mv_new m = VUnchanged))
    | _ => True
    end.

  Definition cls_at (l : loc) (c : cid) (s : state) : Prop :=
    exists d, nth_error (heap s) l = Some (OInst c d).

  Hypothesis Hrec : forall k, call_ok k -> SEP (rec k) (post k).
  (* the constructor call on the instance just allocated: keywords are arbitrary
     (InitMethod copies them) except those of do_not_copy attributes *)
  Hypothesis Hrec_top : forall c l kw s,
    b <= l -> kwok kw -> sinv b A W h0 s -> cls_at l c s -> sinv b A W h0 (snd (rec (KInit c l kw) s)).

  Lemma apply_fn_sep f v :
    fnOk f -> (okV v \/ is_appended f = false) ->
    SEP (apply_fn f v) (fun r => r = v \/ freshv b r).
  Proof. apply sep_apply_fn; exact AC. Qed.

  Lemma wr_okV l : wR l -> okV (VRef l).
  Proof. apply wr_okv. Qed.
  Lemma wrv_okV v : wrV v -> okV v.
  Proof. apply wrv_okv. Qed.
  Lemma freshv_wrV v : freshv b v -> wrV v.
  Proof. apply freshv_wrv. Qed.
  Local Hint Resolve freshv_wrV wr_okV wrv_okV : core.

  Lemma rec_sep k : call_ok k -> SEP (rec k) (fun _ => True).
  Proof. intro H. eapply sep_weaken; [apply Hrec; exact H|auto]. Qed.

  Lemma kwok_nil : kwok [].
  Proof. intros a v []. Qed.
  Lemma kwok_of_okv kw : kw_okv kw -> kwok kw.
  Proof. intros H a v Hin. left. unfold kw_okv in H. rewrite Forall_forall in H. exact (H _ Hin). Qed.

  Lemma rec_construct_sep c pos kw :
    kwok kw -> match pos with Some v => okV v | None => True end ->
    SEP (rec (KConstruct c pos kw)) (freshv b).
  Proof. intros H1 H2. apply (Hrec (KConstruct c pos kw)). split; auto. Qed.

  Lemma rec_construct0_sep c : SEP (rec (KConstruct c None [])) (freshv b).
  Proof. apply rec_construct_sep; [apply kwok_nil|exact I]. Qed.

  Lemma sep_check_typeM v t : SEP (check_typeM ct v t) (fun _ => True).
  Proof. unfold check_typeM. sbind; [apply sep_get_heap|]. intros; now sret. Qed.
  Lemma sep_val_eqM x y : SEP (val_eqM ct x y) (fun _ => True).
  Proof. unfold val_eqM. sbind; [apply sep_get_heap|]. intros; now sret. Qed.
  Lemma sep_read' l : SEP (read l) (rd b A W h0 l).
  Proof. apply sep_read; exact AC. Qed.

  Hint Resolve sep_check_typeM sep_val_eqM sep_read' rec_construct0_sep
       (protect_sep ct no_dnc b A W h0 AC ct_ok A_dnc) : sp.

  Lemma loc_of_sep v : SEP (loc_of v) (fun l => v = VRef l).
  Proof. destruct v; simpl; try apply sep_fail. now apply sep_ret. Qed.
  Lemma loc_of_t_sep v : SEP (loc_of_t v) (fun l => v = VRef l).
  Proof. destruct v; simpl; try apply sep_fail. now apply sep_ret. Qed.

  Lemma read_inst_sep l : SEP (read_inst l) (fun p => rd b A W h0 l (OInst (fst p) (snd p))).
  Proof. unfold read_inst. sbi o Ho. destruct o; try apply sep_fail. sret. exact Ho. Qed.
  Lemma cls_of_sep c : SEP (cls_of ct c) (fun k => lookup_cls ct c = Some k).
  Proof. unfold cls_of. destruct (lookup_cls ct c) eqn:E; sgo. Qed.
  Hint Resolve loc_of_sep loc_of_t_sep read_inst_sep cls_of_sep : sp.

  Lemma rd_fok l c d : rd b A W h0 l (OInst c d) -> okV (VRef l) -> Forall (fok b A) d.
  Proof. intros [H _] Hl. exact (H Hl). Qed.

  Lemma raw_setattr_sep l a v : wR l -> okV v -> SEP (raw_setattr l a v) (fun _ => True).
  Proof.
    intros Hl Hv. unfold raw_setattr. sbi p Hp.
    apply sep_write; [exact Hl|]. simpl. apply fok_assoc_set; auto.
    eapply rd_fok; eauto; now apply wr_okV.
  Qed.
  Lemma raw_delattr_sep l a : wR l -> SEP (raw_delattr l a) (fun _ => True).
  Proof.
    intros Hl. unfold raw_delattr. sbi p Hp. destruct (assoc a (snd p)); [|apply sep_fail].
    apply sep_write; [exact Hl|]. simpl. apply fok_assoc_del.
    eapply rd_fok; eauto; now apply wr_okV.
  Qed.
  Lemma getattr_default_any l a : SEP (getattr_default ct l a) (fun _ => True).
  Proof. unfold getattr_default. sgo. Qed.
  Lemma getattr_default_sep l a : okV (VRef l) -> dflt_ok -> SEP (getattr_default ct l a) okV.
  Proof.
    intros Hl Hd. unfold getattr_default. sbi p Hp.
    destruct (assoc a (snd p)) eqn:E.
    - sret. eapply fok_assoc; [eapply rd_fok; eauto|exact E].
    - sbi k Hk. sret. eapply Hd; eauto.
  Qed.
  Hint Resolve raw_setattr_sep raw_delattr_sep getattr_default_any : sp.

  Lemma thawed_sep {T} l thaw (m : M T) Q :
    (thaw = true -> wR l) -> SEP m Q -> SEP (thawed ct l thaw m) Q.
  Proof.
    intros Hl Hm. unfold thawed. sstep. sstep; auto. sstep.
    destruct thaw; simpl; auto.
    destruct (negb (c_frozen a0) || initializing d); auto.
    sbindT; [apply raw_setattr_sep; [auto|exact I]|]. intros _ _.
    apply sep_finally; auto. apply raw_delattr_sep; auto.
  Qed.

  Lemma thawed_val_sep {T} v thaw (m : M T) Q :
    (thaw = true -> wrV v) -> SEP m Q -> SEP (thawed_val ct v thaw m) Q.
  Proof. intros Hv Hm. destruct v; simpl; auto. apply thawed_sep; auto. Qed.

  Lemma invalidate_attrs_sep l a : wR l -> SEP (invalidate_attrs ct rec l a) (fun _ => True).
  Proof.
    intro Hl. unfold invalidate_attrs. sstep. sstep. cbv zeta. apply sep_iterM. intros sp _.
    sstep; [|sstep]. apply sep_catch; [|sstep].
    sbindT; [apply rec_sep; exact Hl|]. intros; sstep.
  Qed.
  Hint Resolve invalidate_attrs_sep : sp.

  (* the result of mutate_attr: the receiver itself, or a fresh copy *)
  Definition Qma (l : loc) (r : val) : Prop := exists l', r = VRef l' /\ (l' = l \/ b <= l').

  Lemma mutate_attr_sep l a v inplace tc force skip :
    (inplace = true -> wR l) -> okV v ->
    SEP (mutate_attr ct rec l a v inplace tc force skip) (Qma l).
  Proof.
    intros Hl Hv. unfold mutate_attr. sstep; [sstep; exists l; auto|]. sstep. sstep.
    sbindT; [sgo|]. intros _ _.
    sbindT; [sgo|]. intros _ _.
    eapply sep_bind with (Q := fun l' => (l' = l /\ inplace = true) \/ (b <= l' /\ inplace = false)).
    - destruct (negb (inplace || c_dnc a1)) eqn:C.
      + eapply sep_bind; [apply (deepcopy_sep ct no_dnc b A W h0 AC ct_ok A_dnc)|].
        intros r [l' [-> H']]. simpl. apply sep_ret. right. split; auto.
        destruct inplace; auto; discriminate.
      + apply sep_ret. left. split; auto. destruct inplace; auto.
        simpl in C. cbv beta in *.
        match goal with H : lookup_cls _ _ = Some _ |- _ => rewrite (no_dnc _ _ H) in C end. discriminate.
    - intros l' Hl'.
      assert (Hbl : wR l') by (destruct Hl' as [[-> Hi]|[Hb _]]; [auto|left; exact Hb]).
      eapply sep_bind with (Q := okV).
      + destruct (negb (inplace || c_dnc a1) && same_object (assoc a (snd a0)) v); [|now sret].
        sbi p' Hp'. sret. destruct (assoc a (snd p')) eqn:E; [|exact Hv].
        eapply fok_assoc; [eapply rd_fok; eauto; now apply wr_okV|exact E].
      + intros value' Hv'. sbindT.
        * apply thawed_sep; [intros _; exact Hbl|]. sbindT; [sprim|]. intros _ _. sgo. sprim.
        * intros _ _. sret. exists l'. split; auto. destruct Hl' as [[-> _]|[Hb _]]; auto.
  Qed.

  Lemma run_factory_sep f : fac_ok b A f -> SEP (run_factory rec f) (freshv b).
  Proof.
    intro Hf. unfold run_factory. sstep. destruct f; simpl in Hf.
    - sbind; [apply sep_alloc; exact Hf|]. intros; now sret.
    - sbind; [apply sep_alloc; exact Hf|]. intros; now sret.
    - sbind; [apply sep_alloc; exact Hf|]. intros; now sret.
    - apply rec_construct0_sep.
  Qed.

  Lemma default_value_sep sp : specOk sp -> SEP (default_value ct rec sp) (freshv b).
  Proof.
    intros (_ & _ & Hf). unfold default_value. destruct (a_factory sp); [apply run_factory_sep; exact Hf|].
    sprim.
  Qed.

  Lemma lookup_default_value_sep sp k : specOk sp -> SEP (lookup_default_value ct rec sp k) (freshv b).
  Proof.
    intro H. unfold lookup_default_value. destruct (assoc _ _); [sprim|].
    apply default_value_sep; exact H.
  Qed.

  Lemma instantiate_ty_sep t : SEP (instantiate_ty rec t) (freshv b).
  Proof.
    unfold instantiate_ty. destruct t; try (sstep; simpl; auto; fail); try apply rec_construct0_sep;
      (sbind; [apply sep_alloc; constructor|]; intros; now sret).
  Qed.
  Hint Resolve instantiate_ty_sep : sp.
  Lemma prepare_item_sep sp inst item :
    specOk sp -> okV item ->
    SEP (prepare_item ct rec sp inst item) (fun r => r = item \/ freshv b r).
  Proof.
    intros Hsp Hi. unfold prepare_item.
    eapply sep_bind with (Q := fun r => r = item \/ freshv b r).
    - destruct (a_prepare_item sp) eqn:E; [|sret; auto].
      apply apply_fn_sep; auto. destruct Hsp as (_ & H & _). rewrite E in H. exact H.
    - intros item1 H1.
      assert (Ho1 : okV item1) by (destruct H1 as [->|H1]; auto using freshv_okv).
      destruct (spec_of_ty_strict (item_type (a_ty sp))); [|sret; auto].
      sbi k Hk. destruct (c_key k) as [ka|]; [|sret; auto].
      destruct (lookup_attr k ka) as [ksp|]; [|sret; auto].
      destruct (is_missing item1); [sret; auto|].
      sbi ok1 Hok1. sbi ok2 Hok2. destruct (negb ok1 && ok2); [|sret; auto].
      eapply sep_weaken; [apply rec_construct_sep; [apply kwok_nil|exact Ho1]|]. intros; right; assumption.
  Qed.

  Lemma apply_xform_sep x v :
    xf_ok (Some x) -> (okV v \/ xf_plain (Some x)) ->
    SEP (apply_xform ct rec x v) (fun r => r = v \/ freshv b r).
  Proof.
    intros Hx Hv. unfold apply_xform. destruct x as [[f|] o]; simpl in *.
    - apply apply_fn_sep; auto.
    - destruct o as [[sp inst]|]; [|apply sep_fail].
      apply prepare_item_sep; auto. destruct Hv as [Hv|[]]; exact Hv.
  Qed.

  Lemma str_key_sep v : SEP (str_key_to_aid v) (fun _ => True).
  Proof. unfold str_key_to_aid. destruct v; sgo. Qed.
  Hint Resolve str_key_sep : sp.

  Lemma kw_okv_fold (kw attrs : list (aid * val)) :
    kw_okv kw -> kw_okv attrs ->
    kw_okv (fold_left (fun acc p => assoc_set (fst p) (snd p) acc) kw attrs).
  Proof.
    revert attrs. induction kw as [|p kw IH]; intros attrs Hk Ha; simpl; auto.
    inversion Hk; subst. apply IH; auto. apply fok_assoc_set; auto.
  Qed.

  Lemma kw_okv_filter f (kw : list (aid * val)) : kw_okv kw -> kw_okv (filter f kw).
  Proof. apply Forall_filter. Qed.

  Section MutateValue.
    Variable m : mv_args.
    Hypothesis Hm : mv_ok m.

    (* a value flowing through mutate_value: allowed, or the old value itself
       (top-level update/transform); fresh whenever the call is in place *)
    Definition R (v : val) : Prop :=
      (okV v \/ (v = mv_old m /\ mv_uses_old m = true)) /\ (mv_inplace m = true -> wrV v).
    Definition Q3 (r : val * bool * list aid) : Prop :=
      let '(v, safe, _) := r in R v /\ (safe = true -> wrV v).
    Definition Q5 (r : val * bool) : Prop := R (fst r) /\ (snd r = true -> wrV (fst r)).

    Lemma R_fresh v : freshv b v -> R v.
    Proof. intro H. split; [left; now apply freshv_okv|intros _; now apply freshv_wrV]. Qed.

    Lemma construct_args_sep c attrs :
      kw_okv attrs ->
      SEP (k <- cls_of ct c ;;
           let names := init_names k in
           let args := filter (fun p => existsb (fun n => n =? fst p) names
                                        && negb (is_missing (snd p))) attrs in
           v <- rec (KConstruct c None args) ;;
           ret (v, true, match mv_attrs m with Some _ => names | None => [] end)) Q3.
    Proof.
      intro Ha. sbi k Hk. cbv zeta.
      sbind; [apply rec_construct_sep; [apply kwok_of_okv; apply kw_okv_filter; exact Ha|exact I]|].
      intros v Hv. sret. unfold Q3. split; auto. apply R_fresh; auto.
    Qed.

    Lemma instantiate_args_sep t :
      SEP (v <- instantiate_ty rec t ;; ret (v, true, @nil aid)) Q3.
    Proof. sbi v Hv. sret. unfold Q3. split; auto. apply R_fresh; auto. Qed.

    Lemma mutate_value_body_sep :
      SEP (mutate_value_body ct rec m) (fun r => okV r \/ (r = mv_old m /\ mv_uses_old m = true)).
    Proof.
      destruct Hm as (Hnew & Hold & Hprep & Hattrs & Hxf & [Hats Hdf] & Hinp).
      unfold mutate_value_body. cbv zeta.
      set (use_new := negb (is_missing (mv_new m)) && negb (match mv_new m with VEmpty => true | _ => false end)).
      set (value0 := if use_new then mv_new m else if mv_replace m then VMissing else mv_old m).
      assert (R0 : R value0).
      { unfold value0. destruct use_new eqn:Eun; [split; auto; intro Hi; apply Hinp; exact Hi|].
        destruct (mv_replace m) eqn:Erp; [apply R_fresh; exact I|].
        split; [right; split; [reflexivity|]|intro Hi; apply Hinp; exact Hi].
        unfold mv_uses_old. fold use_new. rewrite Eun, Erp. reflexivity. }
      assert (O0 : use_new || mv_replace m = true -> okV value0).
      { unfold value0. destruct use_new; simpl; [auto|]. destruct (mv_replace m); [intros; exact I|discriminate]. }
      assert (Rr : forall r, r = value0 \/ freshv b r -> R r) by (intros r [->|Hr]; [exact R0|now apply R_fresh]).
      eapply sep_bind with (Q := R).
      { destruct (use_new || mv_replace m) eqn:Eu; [|sret; exact R0].
        specialize (O0 eq_refl).
        destruct (mv_prepare m) as [|f|sp inst]; simpl in Hprep.
        + sret; exact R0.
        + eapply sep_weaken; [apply apply_fn_sep; auto|exact Rr].
        + eapply sep_weaken; [apply prepare_item_sep; auto|exact Rr]. }
      intros value1 R1. sstep.
      set (attrs := match mv_attrs m with Some l => l | None => [] end).
      assert (Hattrs' : kw_okv attrs).
      { unfold attrs. destruct (mv_attrs m); [exact Hattrs|constructor]. }
      assert (Hplain : R value1 -> Q3 (value1, mv_inplace m, @nil aid)).
      { intros Hr. unfold Q3. split; auto. apply Hr. }
      eapply sep_bind with (Q := Q3).
      { destruct (mv_ctor m) as [ctor|] eqn:Ector; [|sret; auto].
        assert (Ho1 : okV value1).
        { destruct R1 as [[H1|[-> Hu]] _]; auto. destruct (Hold Hu) as [H1|[H1 _]]; [exact H1|discriminate]. }
        assert (Hdict :
          SEP (l <- loc_of value1 ;; o <- read l ;;
               match o with
               | ODict kvs =>
                   kw <- mapM (fun p => a0 <- str_key_to_aid (fst p) ;; ret (a0, snd p)) kvs ;;
                   let merged := fold_left (fun acc p => assoc_set (fst p) (snd p) acc) kw attrs in
                   match ctor with
                   | CtorSpec c => v <- rec (KConstruct c None merged) ;; ret (v, false, @nil aid)
                   | CtorTy t => match merged with
                                 | [] => v <- instantiate_ty rec t ;; ret (v, false, @nil aid)
                                 | _ => fail TypeErr end
                   end
               | _ => fail RuntimeErr end) Q3).
        { sbi l0 Hl0. subst value1. sbi o0 Ho0. destruct o0 as [|kvs| |]; try apply sep_fail.
          assert (Hkvs : Forall (pok b A) kvs) by (apply Ho0; exact Ho1).
          eapply sep_bind with (Q := kw_okv).
          { apply sep_mapM. intros p Hp. sbi a0 Ha0. sret.
            rewrite Forall_forall in Hkvs. apply (Hkvs _ Hp). }
          intros kw Hkw. cbv zeta.
          assert (Hmerged := kw_okv_fold kw attrs Hkw Hattrs').
          remember (fold_left (fun acc p => assoc_set (fst p) (snd p) acc) kw attrs) as merged.
          destruct ctor.
          - sbind; [apply rec_construct_sep; [apply kwok_of_okv; exact Hmerged|exact I]|].
            intros v Hv. sret. unfold Q3. split; [now apply R_fresh|discriminate].
          - destruct merged; [|apply sep_fail].
            sbi v Hv. sret. unfold Q3. split; [now apply R_fresh|discriminate]. }
        assert (Hmiss :
          SEP (match ctor with
               | CtorSpec c =>
                   k <- cls_of ct c ;;
                   let names := init_names k in
                   let args := filter (fun p => existsb (fun n => n =? fst p) names
                                                && negb (is_missing (snd p))) attrs in
                   v <- rec (KConstruct c None args) ;;
                   ret (v, true, match mv_attrs m with Some _ => names | None => [] end)
               | CtorTy t => v <- instantiate_ty rec t ;; ret (v, true, @nil aid)
               end) Q3).
        { destruct ctor; [apply construct_args_sep; exact Hattrs'|apply instantiate_args_sep]. }
        destruct (mv_expected m) as [ety|].
        - match goal with |- sep _ _ _ _ (if ?c then _ else _) _ => destruct c end; [exact Hdict|].
          destruct (is_missing value1); [exact Hmiss|sret; auto].
        - destruct (is_missing value1); [exact Hmiss|sret; auto]. }
      intros [[value2 safe2] used] [R2 S2].
      eapply sep_bind with (Q := Q5).
      { destruct attrs as [|p0 attrs'] eqn:Ea; [sret; split; auto|].
        assert (Hbody : SEP
          (value3 <- (if safe2 then ret value2 else protect ct value2) ;;
           thawed_val ct value3 (negb (mv_inplace m))
             (iterM (fun p => if existsb (fun n => n =? fst p) used then ret tt
                              else if is_missing (snd p) then ret tt
                              else (l <- loc_of value3 ;;
                                    rec (KSetAttr l (fst p) (snd p) false false) ;;; ret tt))
                    (p0 :: attrs')) ;;;
           ret (value3, true)) Q5).
        { eapply sep_bind with (Q := wrV).
          - destruct safe2; [sret; auto|eapply sep_weaken; [sprim|auto]].
          - intros value3 H3. sbindT.
            + apply thawed_val_sep; auto. apply sep_iterM. intros p Hp.
              sstep; [sstep|]. sstep; [sstep|].
              sbi l0 Hl0. subst value3. simpl in H3.
              sbindT; [apply rec_sep; split; [exact H3|]|intros; sstep].
              unfold kw_okv in Hattrs'. rewrite Forall_forall in Hattrs'. exact (Hattrs' _ Hp).
            + intros _ _. sret. split; simpl; auto. split; auto. }
        destruct value2; try exact Hbody; apply sep_fail. }
      intros [value3 safe3] [R3 S3]. simpl in R3, S3.
      eapply sep_bind with (Q := fun value4 => R value4 /\ (safe3 = true -> wrV value4)).
      { destruct (mv_transform m) as [x|] eqn:Ex; [|sret; auto].
        eapply sep_weaken.
        - apply apply_xform_sep; [exact Hxf|].
          destruct R3 as [[H1|[-> Hu]] _]; auto. destruct (Hold Hu) as [H1|[_ H1]]; auto.
        - intros r [->|Hr]; [auto|split; [now apply R_fresh|auto]]. }
      intros value4 [R4 S4].
      destruct (mv_attr_transforms m) as [|q0 ats] eqn:Eats; [sret; apply R4|].
      assert (Hd : dflt_ok) by (destruct Hdf as [?|?]; [discriminate|assumption]).
      eapply sep_bind with (Q := wrV).
      { destruct safe3; [sret; auto|eapply sep_weaken; [sprim|auto]]. }
      intros value5 H5. sbindT; [|intros; sstep; left; now apply wrv_okV].
      apply thawed_val_sep; auto. apply sep_iterM. intros p Hp.
      sbi l0 Hl0. subst value5. simpl in H5.
      sbind; [apply getattr_default_sep; [apply wr_okV; exact H5|exact Hd]|]. intros cur Hcur.
      sbind; [apply apply_fn_sep; [|left; exact Hcur]|].
      { rewrite Forall_forall in Hats. exact (Hats _ Hp). }
      intros t Ht. destruct (is_missing t); [sstep|].
      sbindT; [apply rec_sep; split; [exact H5|destruct Ht as [->|Ht]; auto using freshv_okv]|intros; sstep].
    Qed.
  End MutateValue.

  Lemma mutate_value_sep m : mv_ok m -> SEP (mutate_value ct rec m) (post (KMutateValue m)).
  Proof.
    intro H. unfold mutate_value. simpl.
    destruct (mv_new m) eqn:E;
      try (eapply sep_weaken; [apply mutate_value_body_sep; exact H|
           intros r [Hr|[Hr Hu]]; [left; exact Hr|right; split; [exact Hr|left; exact Hu]]]).
    sret. right. split; [reflexivity|right; exact E].
  Qed.
  (* ---------------- collections ---------------- *)
  Lemma read_list_sep v :
    SEP (read_list v) (fun p => v = VRef (fst p) /\ (okV v -> Forall okV (snd p))).
  Proof.
    unfold read_list. sbi l Hl. subst v. sbi o Ho. destruct o; try apply sep_fail.
    sret. split; auto. intro H. apply Ho. exact H.
  Qed.
  Lemma read_dict_sep v :
    SEP (read_dict v) (fun p => v = VRef (fst p) /\ (okV v -> Forall (pok b A) (snd p))).
  Proof.
    unfold read_dict. sbi l Hl. subst v. sbi o Ho. destruct o; try apply sep_fail.
    sret. split; auto. intro H. apply Ho. exact H.
  Qed.
  Lemma read_set_sep v :
    SEP (read_set v) (fun p => v = VRef (fst p) /\ (okV v -> Forall okV (snd p))).
  Proof.
    unfold read_set. sbi l Hl. subst v. sbi o Ho. destruct o; try apply sep_fail.
    sret. split; auto. intro H. apply Ho. exact H.
  Qed.
  Hint Resolve read_list_sep read_dict_sep read_set_sep : sp.

  Lemma find_eq_index_sep xs v : SEP (find_eq_index ct xs v) (fun _ => True).
  Proof. unfold find_eq_index. sgo. Qed.
  Lemma dict_lookup_sep kvs k :
    SEP (dict_lookup ct kvs k) (fun r => forall v, r = Some v -> exists p, In p kvs /\ snd p = v).
  Proof.
    unfold dict_lookup. sstep; [sstep|]. sstep. sstep.
    intros v Hv. destruct (find _ kvs) as [p|] eqn:F; simpl in Hv; [|discriminate].
    inversion Hv; subst. apply find_some in F. exists p. tauto.
  Qed.
  Lemma dict_assign_sep kvs k v :
    Forall (pok b A) kvs -> okV k -> okV v -> SEP (dict_assign ct kvs k v) (Forall (pok b A)).
  Proof.
    intros Hk Hkk Hv. unfold dict_assign. sstep; [sstep|]. sstep. sstep.
    destruct (existsb _ kvs).
    - rewrite Forall_forall in *. intros p Hp. apply in_map_iff in Hp. destruct Hp as [q [<- Hq]].
      destruct (val_eqb _ _ _ _ _); [|auto]. split; simpl; auto. apply (Hk _ Hq).
    - apply Forall_app_1; auto. split; auto.
  Qed.
  Lemma set_mem_sep xs v : SEP (set_mem ct xs v) (fun _ => True).
  Proof. unfold set_mem. sgo. Qed.
  Lemma set_discard_sep xs v : Forall okV xs -> SEP (set_discard ct xs v) (Forall okV).
  Proof. intro H. unfold set_discard. sstep; [sstep|]. sstep. sstep. now apply Forall_filter. Qed.
  Hint Resolve find_eq_index_sep set_mem_sep : sp.

  Definition pairok (p : val * val) : Prop := okV (fst p) /\ okV (snd p).

  Lemma seq_extractor_sep sp coll voi r bi :
    okV coll -> okV voi -> SEP (seq_extractor ct sp coll voi r bi) pairok.
  Proof.
    intros Hc Hv. unfold seq_extractor. sstep; [sstep; split; exact I|].
    sbindT; [destruct bi; sgo|]. intros bi' _.
    sbi p Hp. destruct Hp as [-> Hp]. specialize (Hp Hc). destruct bi'.
    - destruct voi; try apply sep_fail; cbv zeta.
      + destruct (norm_index _ _) as [n|]; [destruct (nth_error (snd p) n) eqn:E|]; sgo;
          try (split; simpl; auto; fail).
        split; simpl; auto. eapply Forall_nth_error; eauto.
      + destruct (norm_index _ _) as [n|]; [destruct (nth_error (snd p) n) eqn:E|]; sgo;
          try (split; simpl; auto; fail).
        split; simpl; auto. eapply Forall_nth_error; eauto.
    - sbi idx Hidx. destruct idx; sgo; split; simpl; auto.
  Qed.

  Lemma seq_inserter_sep sp coll index item ins :
    wrV coll -> okV item -> SEP (seq_inserter ct sp coll index item ins) (fun _ => True).
  Proof.
    intros H Hi. unfold seq_inserter. sbi ok Hok. destruct (negb ok); [apply sep_fail|].
    sbi p Hp. destruct Hp as [-> Hp]. assert (Hxs : Forall okV (snd p)) by (apply Hp; now apply wrv_okV).
    destruct index; try apply sep_fail; cbv zeta.
    - apply sep_write; [exact H|]. simpl. apply Forall_app_1; auto.
    - destruct ins; [apply sep_write; [exact H|]; simpl; apply Forall_insert_at; auto|].
      destruct (norm_index _ _); [|apply sep_fail]. apply sep_write; [exact H|]. simpl. apply Forall_set_at; auto.
    - destruct ins; [apply sep_write; [exact H|]; simpl; apply Forall_insert_at; auto|].
      destruct (norm_index _ _); [|apply sep_fail]. apply sep_write; [exact H|]. simpl. apply Forall_set_at; auto.
  Qed.

  Lemma map_extractor_sep coll key r : okV coll -> okV key -> SEP (map_extractor ct coll key r) pairok.
  Proof.
    intros Hc Hk. unfold map_extractor. sbi p Hp. destruct Hp as [-> Hp]. specialize (Hp Hc).
    sbind; [apply dict_lookup_sep|]. intros rr Hr. destruct rr as [v|].
    - sret. split; simpl; auto. destruct (Hr v eq_refl) as [q [Hq <-]].
      rewrite Forall_forall in Hp. apply (Hp _ Hq).
    - sgo; split; simpl; auto.
  Qed.

  Lemma map_inserter_sep sp coll key item :
    wrV coll -> okV key -> okV item -> SEP (map_inserter ct sp coll key item) (fun _ => True).
  Proof.
    intros H Hk Hi. unfold map_inserter. sbi okk Hokk. destruct (negb okk); [apply sep_fail|].
    sbi ok Hok. destruct (negb ok); [apply sep_fail|].
    sbi p Hp. destruct Hp as [-> Hp].
    sbind; [apply dict_assign_sep; auto; apply Hp; now apply wrv_okV|]. intros kvs Hkvs.
    apply sep_write; [exact H|exact Hkvs].
  Qed.

  Lemma set_extractor_sep coll voi r : okV voi -> SEP (set_extractor ct coll voi r) pairok.
  Proof. intro Hv. unfold set_extractor. sgo; split; simpl; auto. Qed.

  Lemma set_inserter_sep sp coll index item :
    wrV coll -> okV item -> SEP (set_inserter ct sp coll index item) (fun _ => True).
  Proof.
    intros H Hi. unfold set_inserter. sbi ok Hok. destruct (negb ok); [apply sep_fail|].
    sbi p Hp. destruct Hp as [-> Hp]. assert (Hxs : Forall okV (snd p)) by (apply Hp; now apply wrv_okV).
    eapply sep_bind with (Q := Forall okV).
    { destruct (negb (is_missing index)); [apply set_discard_sep; auto|now sret]. }
    intros xs1 H1. sbi b0 Hb0. apply sep_write; [exact H|]. simpl.
    destruct b0; auto. apply Forall_app_1; auto.
  Qed.

  Lemma create_collection_sep sp : SEP (create_collection rec sp) (freshv b).
  Proof. unfold create_collection. apply instantiate_ty_sep. Qed.
  Hint Resolve create_collection_sep : sp.

  Definition io_ok (io : item_op) : Prop :=
    okV (io_voi io) /\ okV (io_new io) /\ oattrs_ok (io_attrs io) /\ xf_ok (io_transform io) /\
    ats_ok (io_attr_transforms io).

  Lemma mutate_collection_sep fam sp inst coll io :
    specOk sp -> wrV coll -> io_ok io ->
    SEP (mutate_collection ct rec fam sp inst coll io) wrV.
  Proof.
    intros Hsp H (Hvoi & Hnew & Hat & Hxf & Hats). unfold mutate_collection.
    eapply sep_bind with (Q := wrV).
    { destruct (is_missing coll); [eapply sep_weaken; [sprim|auto]|sret; auto]. }
    intros coll1 H1. assert (Ho1 := wrv_okV _ H1).
    eapply sep_bind with (Q := pairok).
    { destruct fam; [apply seq_extractor_sep|apply map_extractor_sep|apply set_extractor_sep]; auto. }
    intros ex [Hex1 Hex2]. cbv zeta.
    eapply sep_bind with (Q := okV).
    { eapply sep_weaken; [apply Hrec; simpl; unfold mv_ok; simpl|].
      - split; [exact Hnew|]. split; [left; exact Hex2|]. split; [exact Hsp|]. split; [exact Hat|].
        split; [exact Hxf|]. split; [exact Hats|]. discriminate.
      - simpl. intros r [Hr|[-> _]]; auto. }
    intros new_item Hni.
    sbindT.
    { destruct fam; [apply seq_inserter_sep|apply map_inserter_sep|apply set_inserter_sep]; auto. }
    intros _ _. sret. exact H1.
  Qed.

  Lemma ats_ok_nil : ats_ok [].
  Proof. split; [constructor|left; reflexivity]. Qed.
  Lemma io_add_ok x : okV x -> io_ok (io_add x).
  Proof.
    intro H. unfold io_add, io_ok; simpl. split; [exact I|]. split; [exact H|].
    split; [exact I|]. split; [exact I|apply ats_ok_nil].
  Qed.
  Lemma io_kv_ok k v : okV k -> okV v -> io_ok (mkio k v None None [] true false TriTrue false).
  Proof.
    intros Hk H. unfold io_ok; simpl. split; [exact Hk|]. split; [exact H|].
    split; [exact I|]. split; [exact I|apply ats_ok_nil].
  Qed.
  Lemma io_transform_item_ok sp inst voi bi : specOk sp -> okV voi -> io_ok (io_transform_item sp inst voi bi).
  Proof.
    intros Hsp H. unfold io_transform_item, io_ok; simpl. split; [exact H|]. split; [exact I|].
    split; [exact I|]. split; [exact Hsp|apply ats_ok_nil].
  Qed.

  Lemma add_items_sep fam sp inst coll items :
    specOk sp -> wrV coll -> okV items ->
    SEP (add_items ct rec fam sp inst coll items) wrV.
  Proof.
    intros Hsp H Hit. unfold add_items. destruct items; try apply sep_fail.
    sbi o Ho. destruct Ho as [Ho _]. specialize (Ho Hit).
    destruct fam, o; try apply sep_fail; simpl in Ho;
      (apply sep_foldM with (P := wrV); [|exact H]; intros acc x Hx Hacc;
       apply mutate_collection_sep; auto; rewrite Forall_forall in Ho; specialize (Ho _ Hx));
      try (apply io_add_ok; first [exact Ho | apply Ho]).
    destruct Ho. apply io_kv_ok; auto.
  Qed.

  Lemma prepare_items_sep fam sp inst coll :
    specOk sp -> wrV coll -> SEP (prepare_items ct rec fam sp inst coll) wrV.
  Proof.
    intros Hsp H. unfold prepare_items. assert (Hc := wrv_okV _ H). destruct fam.
    - sbi p Hp. apply sep_foldM with (P := wrV); [|exact H].
      intros; apply mutate_collection_sep; auto. apply io_transform_item_ok; [exact Hsp|exact I].
    - apply add_items_sep; auto.
    - sbi p Hp. destruct Hp as [_ Hp]. specialize (Hp Hc).
      apply sep_foldM with (P := wrV); [|exact H].
      intros acc x Hx Hacc; apply mutate_collection_sep; auto.
      rewrite Forall_forall in Hp. apply io_transform_item_ok; auto.
  Qed.

  Lemma truthy_collection_sep v : SEP (truthy_collection v) (fun _ => True).
  Proof. unfold truthy_collection. destruct v; sgo. Qed.
  Hint Resolve truthy_collection_sep : sp.

  Lemma coll_prepare_sep sp inst coll :
    specOk sp -> okV coll -> SEP (coll_prepare ct rec sp inst coll) okV.
  Proof.
    intros Hsp Hc. unfold coll_prepare. destruct (family_of (a_ty sp)) as [fam|]; [|now sret].
    eapply sep_bind with (Q := okV).
    { destruct coll; try (now sret); (eapply sep_weaken; [apply create_collection_sep|apply freshv_okv]). }
    intros coll1 H1. sbi ok Hok. destruct (negb ok).
    - sbind; [apply create_collection_sep|]. intros fresh Hf.
      eapply sep_weaken; [apply add_items_sep; auto|apply wrv_okV].
    - sbi t Ht. destruct (a_prepare_item sp); [|now sret].
      destruct t; [|now sret].
      sbi l Hl. subst coll1. sbi o Ho. destruct Ho as [Ho _].
      sbind; [apply sep_alloc; apply Ho; exact H1|]. intros l' Hl'.
      eapply sep_weaken; [apply prepare_items_sep; [exact Hsp|left; exact Hl']|apply wrv_okV].
  Qed.

  Lemma prepare_attr_value_sep sp inst value attrs :
    specOk sp -> okV value -> oattrs_ok attrs ->
    SEP (prepare_attr_value ct rec sp inst value attrs) okV.
  Proof.
    intros Hsp Hv Ha. unfold prepare_attr_value.
    assert (Hgen : SEP
      (v <- rec (KMutateValue
                  (mkmv VMissing value false
                        (match a_prepare sp with Some f => PAttr f | None => PNone end)
                        attrs (Some (ctor_of_ty (a_ty sp))) (Some (a_ty sp)) None [] false)) ;;
       if ty_is_collection (a_ty sp) then coll_prepare ct rec sp inst v else ret v) okV).
    { eapply sep_bind with (Q := okV).
      { eapply sep_weaken; [apply Hrec; simpl; unfold mv_ok; simpl|].
        - split; [exact Hv|]. split; [left; exact I|].
          split; [destruct Hsp as (H & _); destruct (a_prepare sp); [exact H|exact I]|].
          split; [exact Ha|]. split; [exact I|]. split; [split; [constructor|left; reflexivity]|]. discriminate.
        - simpl. intros r [Hr|[-> _]]; auto. exact I. }
      intros v Hv'.
      destruct (ty_is_collection (a_ty sp)); [apply coll_prepare_sep; auto|now sret]. }
    destruct value; try exact Hgen. now sret.
  Qed.

  Lemma delattr_sep l a force skip : wR l -> SEP (delattr_ ct rec l a force skip) (fun _ => True).
  Proof.
    intro Hl. unfold delattr_. sbi p Hp. sbi k Hk.
    sbindT; [sgo|]. intros _ _.
    destruct (if force then None else lookup_attr k a) as [sp|] eqn:Esp.
    - assert (Hsp : specOk sp).
      { destruct force; [discriminate|]. eapply lookup_attr_ok; eauto. }
      sbind; [apply lookup_default_value_sep; exact Hsp|]. intros d Hd.
      destruct (is_missing d).
      + sbindT; [sprim|]. intros _ _. sbindT; [sgo; sprim|]. intros; sstep.
      + sbind; [apply prepare_attr_value_sep; [exact Hsp|now apply freshv_okv|exact I]|]. intros v Hv.
        eapply sep_weaken; [apply mutate_attr_sep; auto|auto].
    - sbindT; [sprim|]. intros _ _. sbindT; [sgo; sprim|]. intros; sstep.
  Qed.

  Lemma setattr_sep l a v force skip :
    wR l -> okV v -> SEP (setattr_ ct rec l a v force skip) (fun _ => True).
  Proof.
    intros Hl Hv. unfold setattr_. sbi p Hp. sbi k Hk.
    eapply sep_bind with (Q := okV).
    { destruct (lookup_attr k a) eqn:E; [|now sret].
      apply prepare_attr_value_sep; auto; [eapply lookup_attr_ok; eauto|exact I]. }
    intros value Hval. eapply sep_weaken; [apply mutate_attr_sep; auto|auto].
  Qed.
  (* ---------------- __init__ and construction ---------------- *)
  (* InitMethod.init after the classes have been looked up (same text as in Model.init_) *)
  Definition init_tail (spec_cls : cid) (self : loc) (ks im : cls) (top : bool) (kw0 : list (aid * val)) : M val :=
    kw1 <- (if top then
              raw_setattr self A_INITIALIZING (VBool true) ;;;
              foldM (fun kw parent =>
                       pk <- cls_of ct parent ;;
                       r <- foldM (fun acc psp =>
                                     let '(pkw, kw') := acc in
                                     match lookup_attr im (a_name psp) with
                                     | None => ret acc
                                     | Some isp =>
                                         if negb (a_owner isp =? parent) then ret acc
                                         else match assoc (a_name psp) kw' with
                                              | Some v =>
                                                  v' <- (if a_dnc isp then ret v else protect ct v) ;;
                                                  ret (pkw ++ [(a_name psp, v')], assoc_del (a_name psp) kw')
                                              | None =>
                                                  d <- lookup_default_value ct rec isp im ;;
                                                  if is_missing d then ret acc
                                                  else ret (pkw ++ [(a_name psp, d)], kw')
                                              end
                                     end)
                                  (c_attrs pk) ([], kw) ;;
                       let '(pkw, kw') := r in
                       let pkw' := match c_key pk with
                                   | Some ka => if kw_has ka pkw then pkw else pkw ++ [(ka, VMissing)]
                                   | None => pkw end in
                       rec (KInit parent self pkw') ;;; ret kw')
                    (rev (tl (c_mro ks))) kw0
            else ret kw0) ;;
    iterM (fun sp =>
             if negb (a_init sp) || negb (a_owner sp =? spec_cls) then ret tt else
             r <- (match assoc (a_name sp) kw1 with
                   | Some v => if is_missing v then (d <- lookup_default_value ct rec sp im ;; ret (d, false))
                               else ret (v, top && negb (a_dnc sp))
                   | None => d <- lookup_default_value ct rec sp im ;; ret (d, false) end) ;;
             let '(value, copy_required) := r in
             if is_missing value then ret tt else
             value' <- (if copy_required then protect ct value else ret value) ;;
             rec (KSetAttr self (a_name sp) value' true true) ;;; ret tt)
          (c_attrs im) ;;;
    (if top then
       (match c_post_init im with
        | Some g => apply_fn g VNone ;;; ret tt
        | None => ret tt end) ;;;
       raw_delattr self A_INITIALIZING
     else ret tt) ;;;
    ret VNone.

  Lemma init_unfold spec_cls self kw0 :
    init_ ct rec spec_cls self kw0 =
    (ks <- cls_of ct spec_cls ;;
     if negb (init_wrapper_ok ks kw0) then fail TypeErr else
     p <- read_inst self ;; im <- cls_of ct (fst p) ;;
     init_tail spec_cls self ks im (c_owner im =? spec_cls) kw0).
  Proof. reflexivity. Qed.

  Lemma assoc_in {T} a (l : list (nat * T)) v : assoc a l = Some v -> In (a, v) l.
  Proof.
    unfold assoc. destruct (find (fun p : nat * T => fst p =? a) l) as [[x y]|] eqn:F; simpl; [|discriminate].
    intro E; inversion E; subst. apply find_some in F. destruct F as [F1 F2].
    simpl in F2. apply Nat.eqb_eq in F2. subst. exact F1.
  Qed.

  Lemma dncname_true k sp : In k ct -> In sp (c_attrs k) -> a_dnc sp = true -> dncname (a_name sp) = true.
  Proof.
    intros Hk Hsp Hd. unfold dncname. apply existsb_exists. exists k. split; auto.
    apply existsb_exists. exists sp. split; auto. rewrite Nat.eqb_refl, Hd. reflexivity.
  Qed.

  (* what is known about the keywords of __init__: all allowed, or (top-level
     call, where the non-do_not_copy ones get copied) only the do_not_copy ones *)
  Definition KWP (top : bool) (kw : list (aid * val)) : Prop :=
    kw_okv kw \/ (top = true /\ kwok kw).

  Lemma KWP_del top a kw : KWP top kw -> KWP top (assoc_del a kw).
  Proof.
    intros [H|[Ht H]]; [left; now apply fok_assoc_del|right; split; auto].
    intros a' v Hin. apply H. unfold assoc_del in Hin. apply filter_In in Hin. tauto.
  Qed.

  Lemma KWP_dnc top kw k sp v :
    KWP top kw -> In k ct -> In sp (c_attrs k) -> (top = false \/ a_dnc sp = true) ->
    assoc (a_name sp) kw = Some v -> okV v.
  Proof.
    intros [H|[Ht H]] Hk Hsp Hc E.
    - eapply fok_assoc; eauto.
    - destruct Hc as [Hc|Hc]; [congruence|].
      destruct (H _ _ (assoc_in _ _ _ E)) as [Hv|Hn]; auto.
      rewrite (dncname_true k sp Hk Hsp Hc) in Hn. discriminate.
  Qed.

  Lemma init_tail_sep spec_cls self ks cim im top kw0 :
    wR self -> lookup_cls ct cim = Some im -> KWP top kw0 ->
    SEP (init_tail spec_cls self ks im top kw0) (fun _ => True).
  Proof.
    intros Hs Him Hkw. unfold init_tail.
    assert (Hin_im := lookup_cls_in ct _ _ Him).
    assert (Hok_im := lookup_cls_ok ct b A ct_ok _ _ Him).
    eapply sep_bind with (Q := KWP top).
    { destruct top eqn:Et; [|now sret].
      sbindT; [apply raw_setattr_sep; [exact Hs|exact I]|]. intros _ _.
      apply sep_foldM with (P := KWP true); [|exact Hkw].
      intros kw parent _ Hk. sbi pk Hpk.
      eapply sep_bind with (Q := fun acc : list (aid * val) * list (aid * val) =>
                                    kw_okv (fst acc) /\ KWP true (snd acc)).
      { apply sep_foldM with (P := fun acc : list (aid * val) * list (aid * val) =>
                                    kw_okv (fst acc) /\ KWP true (snd acc)); [|split; [constructor|exact Hk]].
        intros [pkw kw'] psp _ [Hp1 Hp2]. simpl in Hp1, Hp2.
        destruct (lookup_attr im (a_name psp)) as [isp|] eqn:Ei; [|sret; split; auto].
        destruct (lookup_attr_in _ _ _ Ei) as [Hisp Hname].
        destruct (negb (a_owner isp =? parent)); [sret; split; auto|].
        destruct (assoc (a_name psp) kw') eqn:Ea.
        - eapply sep_bind with (Q := okV).
          + destruct (a_dnc isp) eqn:Ed; [|eapply sep_weaken; [sprim|apply freshv_okv]].
            sret. rewrite <- Hname in Ea. eapply KWP_dnc; eauto.
          + intros v' Hv'. sret. simpl. split; [apply Forall_app_1; auto|now apply KWP_del].
        - sbind; [apply lookup_default_value_sep; destruct Hok_im as [H _]; apply H; exact Hisp|].
          intros d Hd. destruct (is_missing d); sret; simpl; split; auto.
          apply Forall_app_1; auto. now apply freshv_okv. }
      intros [pkw kw'] [Hp1 Hp2]. simpl in Hp1, Hp2. cbv zeta.
      sbindT; [|intros; now sret].
      apply rec_sep. simpl. split; [exact Hs|].
      destruct (c_key pk) as [ka|]; [|exact Hp1].
      destruct (kw_has ka pkw); [exact Hp1|]. apply Forall_app_1; auto. exact I. }
    intros kw1 Hkw1.
    sbindT.
    { apply sep_iterM. intros sp Hsp.
      destruct (negb (a_init sp) || negb (a_owner sp =? spec_cls)); [now sret|].
      assert (Hspok : specOk sp) by (destruct Hok_im as [H _]; apply H; exact Hsp).
      eapply sep_bind with (Q := fun r : val * bool => snd r = false -> okV (fst r)).
      { assert (Hdf : SEP (d <- lookup_default_value ct rec sp im ;; ret (d, false))
                          (fun r : val * bool => snd r = false -> okV (fst r))).
        { sbind; [apply lookup_default_value_sep; exact Hspok|]. intros d Hd. sret. intros _. now apply freshv_okv. }
        destruct (assoc (a_name sp) kw1) as [v|] eqn:Ea; [|exact Hdf].
        destruct (is_missing v); [exact Hdf|]. sret. simpl. intro Hc.
        eapply KWP_dnc; eauto. destruct top; auto. right. simpl in Hc.
        destruct (a_dnc sp); auto. }
      intros [value copy_required] Hr. simpl in Hr.
      destruct (is_missing value); [now sret|].
      eapply sep_bind with (Q := okV).
      { destruct copy_required; [eapply sep_weaken; [sprim|apply freshv_okv]|sret; auto]. }
      intros value' Hv'. sbindT; [apply rec_sep; simpl; auto|]. intros; now sret. }
    intros _ _.
    sbindT.
    { destruct top; [|now sret].
      sbindT.
      - destruct (c_post_init im) as [g|] eqn:Eg; [|now sret].
        sbindT; [|intros; now sret].
        eapply sep_weaken; [apply apply_fn_sep; [|left; exact I]|auto].
        destruct Hok_im as (_ & H & _). rewrite Eg in H. exact H.
      - intros _ _. sprim. }
    intros; now sret.
  Qed.

  Lemma init_sep c self kw0 : wR self -> kw_okv kw0 -> SEP (init_ ct rec c self kw0) (fun _ => True).
  Proof.
    intros Hs Hkw. rewrite init_unfold. sbi ks Hks.
    destruct (negb (init_wrapper_ok ks kw0)); [apply sep_fail|].
    sbi p Hp. sbi im Him. eapply init_tail_sep; eauto. left. exact Hkw.
  Qed.

  Lemma bind_ok {T U} (m : M T) (k : T -> M U) s a s1 : m s = (Ok a, s1) -> bind m k s = k a s1.
  Proof. unfold bind. now intros ->. Qed.

  (* the constructor call on a freshly allocated instance of the class itself *)
  Lemma init_top c self kw0 s :
    b <= self -> kwok kw0 -> sinv b A W h0 s -> cls_at self c s ->
    sinv b A W h0 (snd (init_ ct rec c self kw0 s)).
  Proof.
    intros Hs Hkw Hinv [d Hd]. rewrite init_unfold.
    unfold cls_of at 1. destruct (lookup_cls ct c) as [ks|] eqn:Ek; [|exact Hinv].
    rewrite bind_ok with (a := ks) (s1 := s) by reflexivity.
    destruct (negb (init_wrapper_ok ks kw0)); [exact Hinv|].
    rewrite bind_ok with (a := (c, d)) (s1 := s).
    2:{ unfold read_inst. rewrite bind_ok with (a := OInst c d) (s1 := s); [reflexivity|].
        unfold read. rewrite Hd. reflexivity. }
    cbn [fst]. rewrite bind_ok with (a := ks) (s1 := s) by (unfold cls_of; rewrite Ek; reflexivity).
    rewrite (wf_owner c ks Ek), Nat.eqb_refl.
    refine (proj1 (init_tail_sep c self ks c ks true kw0 (or_introl Hs) Ek _ s Hinv)).
    right. split; auto.
  Qed.

  Lemma sep_alloc_then {T} o (k : loc -> M T) (Q : T -> Prop) :
    obj_ok b A o ->
    (forall l s1, b <= l -> sinv b A W h0 s1 -> nth_error (heap s1) l = Some o ->
       sinv b A W h0 (snd (k l s1)) /\ match fst (k l s1) with Ok a => Q a | Err _ => True end) ->
    SEP (l <- alloc o ;; k l) Q.
  Proof.
    intros Ho Hk s Hs. unfold bind at 1. unfold alloc at 1.
    destruct (sep_alloc b A W h0 o Ho s Hs) as [I1 L]. simpl in I1, L.
    apply Hk; auto. simpl. rewrite nth_error_app2 by lia. rewrite Nat.sub_diag. reflexivity.
  Qed.

  Lemma construct_sep c pos kw :
    kwok kw -> match pos with Some v => okV v | None => True end ->
    SEP (construct ct rec c pos kw) (freshv b).
  Proof.
    intros Hkw Hpos. unfold construct. sbi k Hk. rewrite (wf_owner c k Hk).
    eapply sep_bind with (Q := kwok).
    { destruct pos as [v|]; [|now sret]. destruct (c_key k) as [ka|]; [|apply sep_fail].
      destruct (kw_has ka kw); [apply sep_fail|]. sret.
      intros a x [E|Hin]; [inversion E; subst; auto|auto]. }
    intros kw' Hkw'.
    sbindT. { destruct (c_key k) as [ka|]; [|now sret]. destruct (lookup_attr k ka); [|now sret]. sgo. }
    intros _ _.
    sbindT; [sgo|]. intros _ _.
    apply sep_alloc_then; [constructor|].
    intros l s1 Hl Hs1 Hn.
    assert (H2 := Hrec_top c l kw' s1 Hl Hkw' Hs1 (ex_intro _ [] Hn)).
    unfold bind. destruct (rec (KInit c l kw') s1) as [[r|e] s2]; simpl in *; auto.
  Qed.

  Theorem body_sep k : call_ok k -> SEP (body ct rec k) (post k).
  Proof.
    destruct k; simpl; intro H.
    - destruct H. apply setattr_sep; auto.
    - apply delattr_sep; auto.
    - destruct H. apply construct_sep; auto.
    - destruct H. apply init_sep; auto.
    - apply mutate_value_sep; auto.
  Qed.

  Theorem body_top c l kw s :
    b <= l -> kwok kw -> sinv b A W h0 s -> cls_at l c s ->
    sinv b A W h0 (snd (body ct rec (KInit c l kw) s)).
  Proof. simpl. apply init_top. Qed.
End Core.

(* ------------------------------------------------------------------ *)
Section Exec.
  Variable ct : ctable.
  Hypothesis no_dnc : forall c k, lookup_cls ct c = Some k -> c_dnc k = false.
  Hypothesis wf_owner : forall c k, lookup_cls ct c = Some k -> c_owner k = c.
  Variable b : nat.
  Variable A : loc -> Prop.
  Variable W : loc -> Prop.
  Variable h0 : list obj.
  Hypothesis AC : A_closed b A h0.
  Hypothesis ct_ok : table_ok ct b A.
  Hypothesis A_dnc : dnc_allowed ct b A h0.

  Theorem exec_sep fuel :
    (forall k, call_ok ct b A W k -> sep b A W h0 (exec ct fuel k) (post b A k)) /\
    (forall c l kw s, b <= l -> kwok ct b A kw -> sinv b A W h0 s -> cls_at l c s ->
       sinv b A W h0 (snd (exec ct fuel (KInit c l kw) s))).
  Proof.
    induction fuel as [|f [IH1 IH2]]; simpl.
    - split; [intros; apply sep_fail|intros; assumption].
    - split.
      + intros k Hk. eapply body_sep; eauto.
      + intros. eapply body_top; eauto.
  Qed.
End Exec.

(* ------------------------------------------------------------------ *)
(** * Reachability: what the invariant says about the object graph *)
Section ReachSep.
  Variable b : nat.
  Variable A : loc -> Prop.
  Variable W : loc -> Prop.
  Variable h0 : list obj.
  Hypothesis AC : A_closed b A h0.

  Lemma vrefs_okv xs l : Forall (okv b A) xs -> In l (vrefs xs) -> b <= l \/ A l.
  Proof.
    unfold vrefs. intros H Hin. apply in_flat_map in Hin. destruct Hin as [v [Hv Hl]].
    rewrite Forall_forall in H. specialize (H _ Hv). destruct v; simpl in Hl; try contradiction.
    destruct Hl as [<-|[]]. exact H.
  Qed.

  Lemma obj_ok_refs o l : obj_ok b A o -> In l (refs_of o) -> b <= l \/ A l.
  Proof.
    destruct o as [xs|kvs|xs|c d]; simpl; intros H Hin.
    - eapply vrefs_okv; eauto.
    - apply in_app_or in Hin. destruct Hin as [Hin|Hin]; (eapply vrefs_okv; [|exact Hin]);
        rewrite Forall_forall in *; intros v Hv; apply in_map_iff in Hv; destruct Hv as [p [<- Hp]];
        apply (H _ Hp).
    - eapply vrefs_okv; eauto.
    - eapply vrefs_okv; [|exact Hin]. rewrite Forall_forall in *. intros v Hv.
      apply in_map_iff in Hv. destruct Hv as [p [<- Hp]]. apply (H _ Hp).
  Qed.

  (* everything reachable from an allowed or fresh location is allowed or fresh *)
  Theorem sinv_reach s l0 l :
    sinv b A W h0 s -> (b <= l0 \/ A l0) -> reach (heap s) l0 l -> b <= l \/ A l.
  Proof.
    intros (L & Old & Cl) H0 R. induction R as [|l o l' R IH Hn Hin]; auto.
    eapply obj_ok_refs; [|exact Hin].
    destruct (Nat.lt_ge_cases l b) as [Hlt|Hge].
    - destruct IH as [IH|IH]; [lia|].
      destruct (Old l Hlt) as [(Hw & Ha & Ho)|He]; [exact (Ho o Hn)|].
      eapply AC; [exact IH|exact Hlt|]. rewrite <- He; exact Hn.
    - eapply Cl; eauto.
  Qed.
End ReachSep.

(* ------------------------------------------------------------------ *)
(** * The public operations *)
Section Helpers.
  Variable ct : ctable.
  Hypothesis no_dnc : forall c k, lookup_cls ct c = Some k -> c_dnc k = false.
  Hypothesis wf_owner : forall c k, lookup_cls ct c = Some k -> c_owner k = c.
  Variable b : nat.
  Variable A : loc -> Prop.
  Variable W : loc -> Prop.
  Variable h0 : list obj.
  Hypothesis AC : A_closed b A h0.
  Hypothesis ct_ok : table_ok ct b A.
  Hypothesis A_dnc : dnc_allowed ct b A h0.

  Local Notation okV := (okv b A).
  Local Notation SEP := (sep b A W h0).
  Local Notation specOk := (spec_ok b A).
  Local Notation wR := (wr b A W).
  Local Notation wrV := (wrv b A W).
  Notation rec := (exec ct XFUEL).
  Let Hrec := proj1 (exec_sep ct no_dnc wf_owner b A W h0 AC ct_ok A_dnc XFUEL).
  Local Opaque exec XFUEL.

  Local Hint Resolve (read_inst_sep b A W h0 AC) (cls_of_sep ct b A W h0)
    (getattr_default_any ct b A W h0 AC) (protect_sep ct no_dnc b A W h0 AC ct_ok A_dnc)
    (read_list_sep b A W h0 AC) (read_dict_sep b A W h0 AC) (read_set_sep b A W h0 AC) : sp.

  Definition hargs_ok (h : hargs) : Prop :=
    Forall okV (h_pos h) /\ okV (h_index h) /\ oattrs_ok b A (h_kw h) /\
    ats_ok ct b A (h_kwfn h) /\ ofn_ok b A (h_fn h).

  (* the helper forms covered: copy-on-write everywhere; in place for the
     helpers that never read the attribute through getattr(obj, name, default) *)
  Definition inplace_form (hp : helper) : Prop :=
    match hp with
    | HWith _ | HUpdate _ | HTransform _ | HReset _ | HResetTop | HUpdateTop | HTransformTop => True
    | _ => False
    end.
  (* in place: the receiver cell is writable; update(_new_value, _inplace=True) works on
     the object handed in, which then has to be writable too *)
  Definition form_ok (l : loc) (hp : helper) (h : hargs) : Prop :=
    (h_inplace h = true ->
       wR l /\ inplace_form hp /\
       match hp with
       | HUpdateTop => wrV (pos0 h)
       | HUpdate _ | HTransform _ => dflt_ok ct b A
       | _ => True
       end) /\
    match hp with
    | HTransformTop => okV (VRef l) \/ match h_fn h with Some f => is_appended f = false | None => True end
    | HUpdate a | HTransform a => dncname ct a = false \/ dflt_ok ct b A
    | _ => True
    end.

  Lemma nth_okv xs n : Forall okV xs -> okV (nth n xs VMissing).
  Proof.
    intro H. destruct (nth_in_or_default n xs VMissing) as [Hin| ->]; [|exact I].
    rewrite Forall_forall in H. exact (H _ Hin).
  Qed.
  Lemma nth_freshv xs n : Forall (freshv b) xs -> freshv b (nth n xs VMissing).
  Proof.
    intro H. destruct (nth_in_or_default n xs VMissing) as [Hin| ->]; [|exact I].
    rewrite Forall_forall in H. exact (H _ Hin).
  Qed.

  Lemma spec_for_sep l a : SEP (spec_for ct l a) (fun r => specOk (snd r)).
  Proof.
    unfold spec_for. sbi p Hp. sbi k Hk. destruct (lookup_attr k a) eqn:E; [|apply sep_fail].
    sret. simpl. eapply lookup_attr_ok; eauto.
  Qed.

  Lemma spec_for_sep' l a :
    SEP (spec_for ct l a)
        (fun r => specOk (snd r) /\ a_name (snd r) = a /\ In (fst r) ct /\ In (snd r) (c_attrs (fst r)) /\
                  (l < b -> (W l /\ A l) \/ exists c d, nth_error h0 l = Some (OInst c d) /\
                                        lookup_cls ct c = Some (fst r) /\ lookup_attr (fst r) a = Some (snd r))).
  Proof.
    unfold spec_for. sbi p Hp. sbi k Hk. destruct (lookup_attr k a) eqn:E; [|apply sep_fail].
    sret. simpl. destruct (lookup_attr_in _ _ _ E) as [Hin Hn].
    split; [eapply lookup_attr_ok; eauto|]. split; [exact Hn|]. split; [eapply lookup_cls_in; eauto|].
    split; [exact Hin|]. intro Hl. destruct Hp as [_ Hp].
    destruct (Hp Hl) as [Hw|Hh]; [left; exact Hw|right; exists (fst p), (snd p); auto].
  Qed.

  (* the old value handed to mutate_value by update_<attr> / transform_<attr> *)
  Lemma current_value_sep l sp k inplace used :
    In k ct -> In sp (c_attrs k) ->
    (dncname ct (a_name sp) = false \/ dflt_ok ct b A) ->
    (l < b -> (W l /\ A l) \/ exists c d, nth_error h0 l = Some (OInst c d) /\
                          lookup_cls ct c = Some k /\ lookup_attr k (a_name sp) = Some sp) ->
    (inplace = true -> okV (VRef l) /\ dflt_ok ct b A) ->
    SEP (current_value ct l sp inplace used) (fun r => used = true -> okV r).
  Proof.
    intros Hk Hsp Hd Hold Hinp. unfold current_value.
    eapply sep_bind with (Q := fun v => (inplace = true \/ a_dnc sp = true) -> okV v).
    { unfold getattr_default. sbi p Hp. destruct (assoc (a_name sp) (snd p)) eqn:E.
      - sret. intros [Hi|Hdnc].
        + eapply fok_assoc; [|exact E]. eapply rd_fok; eauto. apply Hinp; exact Hi.
        + destruct (Nat.lt_ge_cases l b) as [Hlt|Hge].
          * assert (HokA : A l -> okV v).
            { intro Ha. eapply fok_assoc; [|exact E]. eapply rd_fok; eauto. simpl; auto. }
            destruct (Hold Hlt) as [[Hw Ha]|(c & d & H1 & H2 & H3)]; [exact (HokA Ha)|].
            destruct Hp as [_ Hp]. destruct (Hp Hlt) as [[Hw Ha]|Hh]; [exact (HokA Ha)|].
            rewrite Hh in H1. inversion H1; subst. eapply A_dnc; eauto. apply assoc_in. exact E.
          * eapply fok_assoc; [|exact E]. eapply rd_fok; eauto. simpl; auto.
      - sbi k' Hk'. sret. intros [Hi|Hdnc].
        + eapply (proj2 (Hinp Hi)); eauto.
        + destruct Hd as [Hd|Hd]; [rewrite (dncname_true ct k sp Hk Hsp Hdnc) in Hd; discriminate|].
          eapply Hd; eauto. }
    intros v Hv. destruct inplace; simpl; [sret; auto|]. destruct (a_dnc sp); simpl.
    - sret. auto.
    - destruct used; simpl; [|sret; discriminate].
      eapply sep_weaken; [sprim|]. intros r Hr _. now apply freshv_okv.
  Qed.

  Lemma uses_old_sentinel v : negb ((negb (is_missing v) && negb (match v with VEmpty => true | _ => false end)) || false) = true -> is_sentinel v = true.
  Proof. destruct v; simpl; auto. Qed.

  Lemma mk_mutator_sep sp l : SEP (mk_mutator ct sp l false) (freshv b).
  Proof.
    unfold mk_mutator. sbi p Hp. sbi k Hk. sbindT; [sgo|]. intros _ _.
    sbi c Hc. destruct (is_missing c || false) eqn:E.
    - sret. destruct c; simpl in *; auto; discriminate.
    - sprim.
  Qed.

  Definition Qh (l : loc) (r : val) : Prop := okV r \/ r = VRef l.

  Lemma Qma_Qh l r : (b <= l \/ True) -> Qma b l r -> Qh l r.
  Proof. intros _ [l' [-> [->|H]]]; [right; reflexivity|left; simpl; auto]. Qed.

  Lemma with_attr_sep l sp new attrs inplace :
    specOk sp -> okV new -> oattrs_ok b A attrs -> (inplace = true -> wR l) ->
    SEP (with_attr ct l sp new attrs inplace) (Qh l).
  Proof.
    intros Hsp Hn Ha Hi. unfold with_attr.
    sbind; [eapply prepare_attr_value_sep; eauto|]. intros v Hv.
    eapply sep_weaken; [eapply mutate_attr_sep; eauto|]. intros r Hr. apply Qma_Qh; auto.
  Qed.

  Lemma copy_loc_sep l : SEP (v <- deepcopy ct (VRef l) ;; loc_of v) (fun l' => b <= l').
  Proof.
    sbind; [eapply deepcopy_sep; eauto|]. intros r [l' [-> H]]. simpl. now sret.
  Qed.

  Lemma target_sep l inplace :
    (inplace = true -> wR l) ->
    SEP (if inplace then ret l else (v <- deepcopy ct (VRef l) ;; loc_of v)) (fun l' => wR l').
  Proof.
    intro H. destruct inplace; [sret; auto|eapply sep_weaken; [apply copy_loc_sep|intros l' Hl'; left; exact Hl']].
  Qed.

  Lemma item_tail_sep l a c inplace :
    okV c -> (inplace = true -> wR l) ->
    SEP (mutate_attr ct rec l a c inplace false false false) (Qh l).
  Proof.
    intros Hc Hi. eapply sep_weaken; [eapply mutate_attr_sep; eauto|]. intros r Hr. apply Qma_Qh; auto.
  Qed.

  Theorem run_helper_sep l hp h :
    hargs_ok h -> form_ok l hp h -> SEP (run_helper ct l hp h) (Qh l).
  Proof.
    intros (Hpos & Hidx & Hkw & Hkwfn & Hfn) [Hinp Hform]. unfold run_helper.
    destruct (negb (h_if h)); [sret; right; reflexivity|].
    assert (Hp0 : okV (pos0 h)) by (apply nth_okv; exact Hpos).
    assert (Hp1 : okV (pos1 h)) by (apply nth_okv; exact Hpos).
    assert (Hbl : h_inplace h = true -> wR l) by (intro E; apply Hinp; exact E).
    destruct hp.
    - (* HWith *) sbind; [apply spec_for_sep|]. intros r Hr. apply with_attr_sep; auto.
    - (* HUpdate *)
      assert (Hgen : SEP
        (r <- spec_for ct l a ;; let sp := snd r in
         old <- current_value ct l sp (h_inplace h) (is_sentinel (pos0 h)) ;;
         v <- rec (KMutateValue (mkmv old (pos0 h) false PNone (h_kw h)
                                      (Some (ctor_of_ty (a_ty sp))) (Some (a_ty sp)) None [] false)) ;;
         with_attr ct l sp v None (h_inplace h)) (Qh l)).
      { sbind; [apply spec_for_sep'|]. intros r (Hsp & Hname & Hk & Hin & Hold). cbv zeta.
        sbind; [eapply (current_value_sep l (snd r) (fst r));
                [exact Hk|exact Hin|rewrite Hname; exact Hform|rewrite Hname; exact Hold|
                 intro E; destruct (Hinp E) as (Hw & _ & Hd); split; [eapply wr_okv; exact Hw|exact Hd]]|].
        intros old Hold'.
        eapply sep_bind with (Q := okV).
        { eapply sep_weaken; [apply Hrec; simpl; unfold mv_ok; simpl|].
          - split; [exact Hp0|]. split; [intro Hu; left; apply Hold'; apply uses_old_sentinel; exact Hu|].
            split; [exact I|]. split; [exact Hkw|]. split; [exact I|]. split; [apply ats_ok_nil|]. discriminate.
          - simpl. intros v [Hv|[-> [Hu|Hu]]]; auto.
            + apply Hold'. apply uses_old_sentinel. exact Hu.
            + apply Hold'. rewrite Hu. reflexivity. }
        intros v Hv. apply with_attr_sep; [exact Hsp|exact Hv|exact I|exact Hbl]. }
      destruct (pos0 h); try exact Hgen. sret. right; reflexivity.
    - (* HTransform *)
      sbind; [apply spec_for_sep'|]. intros r (Hsp & Hname & Hk & Hin & Hold). cbv zeta.
      sbind; [eapply (current_value_sep l (snd r) (fst r));
              [exact Hk|exact Hin|rewrite Hname; exact Hform|rewrite Hname; exact Hold|
               intro E; destruct (Hinp E) as (Hw & _ & Hd); split; [eapply wr_okv; exact Hw|exact Hd]]|].
      intros old Hold'. specialize (Hold' eq_refl).
      eapply sep_bind with (Q := okV).
      { eapply sep_weaken; [apply Hrec; simpl; unfold mv_ok; simpl|].
        - split; [exact I|]. split; [intro Hu; left; exact Hold'|].
          split; [exact I|]. split; [exact I|]. split; [destruct (h_fn h); simpl; auto|].
          split; [exact Hkwfn|]. discriminate.
        - simpl. intros v [Hv|[-> _]]; auto. }
      intros v Hv. apply with_attr_sep; [exact Hsp|exact Hv|exact I|exact Hbl].
    - (* HReset *)
      sbind; [apply target_sep; exact Hbl|]. intros l' Hl'.
      sbindT; [|intros; sret; left; eapply wr_okv; exact Hl'].
      eapply thawed_sep; eauto. eapply sep_weaken; [apply Hrec; exact Hl'|auto].
    - (* HWithItem *)
      destruct (h_inplace h) eqn:Ein; [destruct (Hinp eq_refl) as (_ & [] & _)|].
      sbind; [apply spec_for_sep|]. intros r Hr. cbv zeta.
      sbind; [apply mk_mutator_sep|]. intros c Hc.
      eapply sep_bind with (Q := wrV).
      { destruct (family_of (a_ty (snd r))) as [[| |]|]; try apply sep_fail;
          (eapply mutate_collection_sep; eauto; [now apply freshv_wrv|]; unfold io_ok; simpl;
           (split; [|split; [|split; [exact Hkw|split; [exact I|apply ats_ok_nil]]]])); auto; try exact I.
        - destruct (h_pos h) as [|k0 t]; [exact I|]. inversion Hpos; auto.
        - destruct (h_pos h) as [|k0 [|v0 t]]; try exact I. inversion Hpos as [|? ? _ H2]; inversion H2; auto. }
      intros c' Hc'. apply item_tail_sep; [eapply wrv_okv; exact Hc'|discriminate].
    - (* HUpdateItem *)
      destruct (h_inplace h) eqn:Ein; [destruct (Hinp eq_refl) as (_ & [] & _)|].
      sbind; [apply spec_for_sep|]. intros r Hr. cbv zeta.
      sbind; [apply mk_mutator_sep|]. intros c Hc.
      eapply sep_bind with (Q := wrV).
      { destruct (family_of (a_ty (snd r))) as [[| |]|]; try apply sep_fail;
          (eapply mutate_collection_sep; eauto; [now apply freshv_wrv|]; unfold io_ok; simpl;
           (split; [exact Hp0|split; [exact Hp1|split; [exact Hkw|split; [exact I|apply ats_ok_nil]]]])). }
      intros c' Hc'. apply item_tail_sep; [eapply wrv_okv; exact Hc'|discriminate].
    - (* HTransformItem *)
      destruct (h_inplace h) eqn:Ein; [destruct (Hinp eq_refl) as (_ & [] & _)|].
      sbind; [apply spec_for_sep|]. intros r Hr. cbv zeta.
      sbind; [apply mk_mutator_sep|]. intros c Hc.
      eapply sep_bind with (Q := wrV).
      { destruct (family_of (a_ty (snd r))) as [fam|]; try apply sep_fail.
        eapply mutate_collection_sep; eauto; [now apply freshv_wrv|]. unfold io_ok; simpl.
        split; [exact Hp0|split; [exact I|split; [exact I|split; [|exact Hkwfn]]]].
        destruct (h_fn h); [exact Hfn|exact I]. }
      intros c' Hc'. apply item_tail_sep; [eapply wrv_okv; exact Hc'|discriminate].
    - (* HWithoutItem *)
      destruct (h_inplace h) eqn:Ein; [destruct (Hinp eq_refl) as (_ & [] & _)|].
      sbind; [apply spec_for_sep|]. intros r Hr. cbv zeta.
      sbind; [apply mk_mutator_sep|]. intros c00 Hc00.
      eapply sep_bind with (Q := freshv b).
      { destruct (is_missing c00); [eapply create_collection_sep; eauto|now sret]. }
      intros c Hc. assert (Hoc := freshv_okv b A _ Hc).
      sbindT.
      { destruct (family_of (a_ty (snd r))) as [[| |]|]; try apply sep_fail.
        - sbind; [eapply seq_extractor_sep; eauto|]. intros ex _.
          destruct (fst ex); try apply sep_fail; try (now sret); cbv zeta.
          + sbi p Hp. destruct Hp as [-> Hp]. simpl in Hc. specialize (Hp Hoc).
            destruct (norm_index _ _); [|apply sep_fail].
            apply sep_write; [left; exact Hc|]. simpl. now apply Forall_remove_at.
          + sbi p Hp. destruct Hp as [-> Hp]. simpl in Hc. specialize (Hp Hoc).
            destruct (norm_index _ _); [|apply sep_fail].
            apply sep_write; [left; exact Hc|]. simpl. now apply Forall_remove_at.
        - sbind; [eapply map_extractor_sep; eauto|]. intros ex _.
          sbi p Hp. destruct Hp as [-> Hp]. simpl in Hc. specialize (Hp Hoc). sbi h' Hh.
          apply sep_write; [left; exact Hc|]. unfold obj_ok. apply Forall_filter. exact Hp.
        - sbind; [eapply set_extractor_sep; eauto|]. intros ex _.
          sbi p Hp. destruct Hp as [-> Hp]. simpl in Hc. specialize (Hp Hoc).
          sbind; [eapply set_discard_sep; eauto|]. intros xs Hxs.
          apply sep_write; [left; exact Hc|exact Hxs]. }
      intros _ _. apply item_tail_sep; [exact Hoc|discriminate].
    - (* HUpdateTop *)
      eapply sep_weaken; [apply Hrec; simpl; unfold mv_ok; simpl|simpl; intros r [Hr|[-> _]]; [left; exact Hr|right; reflexivity]].
      split; [exact Hp0|]. split; [intros _; right; split; [reflexivity|exact I]|]. split; [exact I|].
      split; [exact Hkw|]. split; [exact I|]. split; [apply ats_ok_nil|].
      intro E. destruct (Hinp E) as (Hl & _ & Hf). split; [exact Hl|exact Hf].
    - (* HTransformTop *)
      eapply sep_weaken; [apply Hrec; simpl; unfold mv_ok; simpl|simpl; intros r [Hr|[-> _]]; [left; exact Hr|right; reflexivity]].
      split; [exact I|].
      split; [intros _; destruct Hform as [Hok|Hpl]; [left; exact Hok|right; split; [reflexivity|destruct (h_fn h); simpl; auto]]|].
      split; [exact I|]. split; [exact I|]. split; [destruct (h_fn h); simpl; auto|].
      split; [exact Hkwfn|]. intro E. destruct (Hinp E) as (Hl & _ & Hf). split; [exact Hl|exact I].
    - (* HResetTop *)
      sbind; [apply target_sep; exact Hbl|]. intros l' Hl'.
      sbi p Hp. sbi k Hk. sbindT; [|intros; sret; left; eapply wr_okv; exact Hl'].
      eapply thawed_sep; eauto. apply sep_iterM. intros sp _.
      apply sep_catch; [|now sret].
      sbindT; [eapply sep_weaken; [apply Hrec; exact Hl'|auto]|]. intros; now sret.
  Qed.
  (* ---- element helpers called with _inplace=True: the collection object is read
     out of the receiver before anything is written ---- *)
  Definition pure {T} (m : M T) : Prop := forall s, snd (m s) = s.
  Lemma pure_ret {T} (a : T) : pure (ret a).
  Proof. intro s; reflexivity. Qed.
  Lemma pure_fail {T} e : pure (@fail T e).
  Proof. intro s; reflexivity. Qed.
  Lemma pure_read l : pure (read l).
  Proof. intro s. unfold read. destruct (nth_error (heap s) l); reflexivity. Qed.
  Lemma pure_bind {T U} (m : M T) (k : T -> M U) : pure m -> (forall a, pure (k a)) -> pure (bind m k).
  Proof.
    intros Hm Hk s. unfold bind. specialize (Hm s). destruct (m s) as [[a|e] s1]; simpl in *; subst; auto. apply Hk.
  Qed.
  Lemma bind_pure {T U} (m : M T) (k : T -> M U) s :
    pure m -> bind m k s = match fst (m s) with Ok a => k a s | Err e => (Err e, s) end.
  Proof. intro Hm. unfold bind. specialize (Hm s). destruct (m s) as [[a|e] s1]; simpl in *; subst; reflexivity. Qed.
  Lemma read_inst_pure l : pure (read_inst l).
  Proof. unfold read_inst. apply pure_bind; [apply pure_read|]. intros [| | |]; try apply pure_fail. apply pure_ret. Qed.
  Lemma cls_of_pure c : pure (cls_of ct c).
  Proof. unfold cls_of. destruct (lookup_cls ct c); [apply pure_ret|apply pure_fail]. Qed.
  Lemma getattr_default_pure l a : pure (getattr_default ct l a).
  Proof.
    unfold getattr_default. apply pure_bind; [apply read_inst_pure|]. intros p.
    destruct (assoc a (snd p)); [apply pure_ret|]. apply pure_bind; [apply cls_of_pure|]. intros; apply pure_ret.
  Qed.

  Lemma spec_for_pure l a : pure (spec_for ct l a).
  Proof.
    unfold spec_for. apply pure_bind; [apply read_inst_pure|]. intros p.
    apply pure_bind; [apply cls_of_pure|]. intros k. destruct (lookup_attr k a); [apply pure_ret|apply pure_fail].
  Qed.

  Lemma spec_for_ok l a s r :
    fst (spec_for ct l a s) = Ok r -> a_name (snd r) = a /\ specOk (snd r).
  Proof.
    unfold spec_for. rewrite bind_pure by apply read_inst_pure.
    destruct (fst (read_inst l s)) as [p|e]; [|discriminate].
    rewrite bind_pure by apply cls_of_pure. unfold cls_of at 1.
    destruct (lookup_cls ct (fst p)) as [k|] eqn:Ek; simpl; [|discriminate].
    destruct (lookup_attr k a) as [sp|] eqn:Ea; simpl; [|discriminate].
    intro E. inversion E; subst. simpl. split; [eapply lookup_attr_in; eauto|eapply lookup_attr_ok; eauto].
  Qed.

  Lemma mk_mutator_inplace sp l s :
    snd (mk_mutator ct sp l true s) = s /\
    forall c, fst (mk_mutator ct sp l true s) = Ok c -> fst (getattr_default ct l (a_name sp) s) = Ok c.
  Proof.
    unfold mk_mutator. rewrite bind_pure by apply read_inst_pure.
    destruct (fst (read_inst l s)) as [p|e]; [|split; [reflexivity|discriminate]].
    rewrite bind_pure by apply cls_of_pure.
    destruct (fst (cls_of ct (fst p) s)) as [k|e]; [|split; [reflexivity|discriminate]].
    rewrite bind_pure by (destruct (true && c_frozen k && negb (initializing (snd p))); [apply pure_fail|apply pure_ret]).
    destruct (true && c_frozen k && negb (initializing (snd p))); simpl; [split; [reflexivity|discriminate]|].
    rewrite bind_pure by apply getattr_default_pure.
    destruct (fst (getattr_default ct l (a_name sp) s)) as [c|e]; [|split; [reflexivity|discriminate]].
    rewrite orb_true_r. simpl. split; [reflexivity|auto].
  Qed.

  Definition item_helper_attr (hp : helper) : option aid :=
    match hp with
    | HWithItem a | HUpdateItem a | HTransformItem a | HWithoutItem a => Some a
    | _ => None
    end.

  Lemma run_helper_item_inplace l hp h a s :
    item_helper_attr hp = Some a -> h_inplace h = true -> hargs_ok h -> wR l ->
    (forall c, fst (getattr_default ct l a s) = Ok c -> wrV c) ->
    sinv b A W h0 s -> sinv b A W h0 (snd (run_helper ct l hp h s)).
  Proof.
    intros Hhp Hin (Hpos & Hidx & Hkw & Hkwfn & Hfn) Hwl Hheld Hs. unfold run_helper.
    destruct (negb (h_if h)); [exact Hs|]. rewrite Hin.
    assert (Hp0 : okV (pos0 h)) by (apply nth_okv; exact Hpos).
    assert (Hp1 : okV (pos1 h)) by (apply nth_okv; exact Hpos).
    assert (Hstart : forall (K : cls * attr_spec -> val -> M val),
              (forall r c, a_name (snd r) = a -> specOk (snd r) -> wrV c -> SEP (K r c) (Qh l)) ->
              sinv b A W h0 (snd ((r <- spec_for ct l a ;; c <- mk_mutator ct (snd r) l true ;; K r c) s))).
    { intros K HK. unfold bind at 1. pose proof (spec_for_pure l a s) as P1. pose proof (spec_for_ok l a s) as P2.
      destruct (spec_for ct l a s) as [[r|e] s1]; simpl in P1, P2; subst s1; [|exact Hs].
      destruct (P2 r eq_refl) as [Hn Hsp].
      unfold bind at 1. destruct (mk_mutator_inplace (snd r) l s) as [Q1 Q2].
      destruct (mk_mutator ct (snd r) l true s) as [[c|e] s2]; simpl in Q1, Q2; subst s2; [|exact Hs].
      assert (Hc : wrV c) by (apply Hheld; rewrite <- Hn; apply Q2; reflexivity).
      exact (proj1 (HK r c Hn Hsp Hc s Hs)). }
    destruct hp; simpl in Hhp; try discriminate; inversion Hhp; subst a0.
    - (* HWithItem *)
      apply (Hstart (fun r c =>
        c' <- (match family_of (a_ty (snd r)) with
               | Some FSeq =>
                   mutate_collection ct rec FSeq (snd r) l c
                     (mkio (h_index h) (pos0 h) (h_kw h) None [] true
                           (negb (is_missing (h_index h)) && negb (h_insert h)) (TriTrue) (h_insert h))
               | Some FMap =>
                   mutate_collection ct rec FMap (snd r) l c
                     (mkio (match h_pos h with [] => VNone | k :: _ => k end)
                           (match h_pos h with _ :: v :: _ => v | _ => VMissing end)
                           (h_kw h) None [] true false (TriTrue) false)
               | Some FSet =>
                   mutate_collection ct rec FSet (snd r) l c
                     (mkio VMissing (pos0 h) (h_kw h) None [] true false (TriTrue) false)
               | None => fail AttrErr end) ;;
        mutate_attr ct rec l a c' true false false false)).
      intros r c Hn Hsp Hc.
      eapply sep_bind with (Q := wrV).
      { destruct (family_of (a_ty (snd r))) as [[| |]|]; try apply sep_fail;
          (eapply mutate_collection_sep; eauto; unfold io_ok; simpl;
           (split; [|split; [|split; [exact Hkw|split; [exact I|apply ats_ok_nil]]]])); auto; try exact I.
        - destruct (h_pos h) as [|k0 t]; [exact I|]. inversion Hpos; auto.
        - destruct (h_pos h) as [|k0 [|v0 t]]; try exact I. inversion Hpos as [|? ? _ H2]; inversion H2; auto. }
      intros c' Hc'. apply item_tail_sep; [eapply wrv_okv; exact Hc'|intros _; exact Hwl].
    - (* HUpdateItem *)
      apply (Hstart (fun r c =>
        c' <- (match family_of (a_ty (snd r)) with
               | Some FSeq =>
                   mutate_collection ct rec FSeq (snd r) l c
                     (mkio (pos0 h) (pos1 h) (h_kw h) None [] false
                           (negb (is_missing (pos0 h))) (tri_of (h_by_index h)) false)
               | Some FMap =>
                   mutate_collection ct rec FMap (snd r) l c
                     (mkio (pos0 h) (pos1 h) (h_kw h) None [] false true (TriTrue) false)
               | Some FSet =>
                   mutate_collection ct rec FSet (snd r) l c
                     (mkio (pos0 h) (pos1 h) (h_kw h) None [] false
                           (negb (is_missing (pos0 h))) (TriTrue) false)
               | None => fail AttrErr end) ;;
        mutate_attr ct rec l a c' true false false false)).
      intros r c Hn Hsp Hc.
      eapply sep_bind with (Q := wrV).
      { destruct (family_of (a_ty (snd r))) as [[| |]|]; try apply sep_fail;
          (eapply mutate_collection_sep; eauto; unfold io_ok; simpl;
           (split; [exact Hp0|split; [exact Hp1|split; [exact Hkw|split; [exact I|apply ats_ok_nil]]]])). }
      intros c' Hc'. apply item_tail_sep; [eapply wrv_okv; exact Hc'|intros _; exact Hwl].
    - (* HTransformItem *)
      apply (Hstart (fun r c =>
        let x := match h_fn h with Some f => Some (XFn f, @None (attr_spec * loc)) | None => None end in
        c' <- (match family_of (a_ty (snd r)) with
               | Some fam =>
                   mutate_collection ct rec fam (snd r) l c
                     (mkio (pos0 h) VMissing None x (h_kwfn h) false true (tri_of (h_by_index h)) false)
               | None => fail AttrErr end) ;;
        mutate_attr ct rec l a c' true false false false)).
      intros r c Hn Hsp Hc. cbv zeta.
      eapply sep_bind with (Q := wrV).
      { destruct (family_of (a_ty (snd r))) as [fam|]; try apply sep_fail.
        eapply mutate_collection_sep; eauto. unfold io_ok; simpl.
        split; [exact Hp0|split; [exact I|split; [exact I|split; [|exact Hkwfn]]]].
        destruct (h_fn h); [exact Hfn|exact I]. }
      intros c' Hc'. apply item_tail_sep; [eapply wrv_okv; exact Hc'|intros _; exact Hwl].
    - (* HWithoutItem *)
      apply (Hstart (fun r c00 =>
        c <- (if is_missing c00 then create_collection rec (snd r) else ret c00) ;;
        (match family_of (a_ty (snd r)) with
         | Some FSeq =>
             ex <- seq_extractor ct (snd r) c (pos0 h) true (tri_of (h_by_index h)) ;;
             (match fst ex with
              | VNone => ret tt
              | VInt _ | VBool _ =>
                  let i := match fst ex with VInt z => z | VBool true => 1%Z | _ => 0%Z end in
                  p <- read_list c ;;
                  match norm_index (zlen (snd p)) i with
                  | Some n => write (fst p) (OList (remove_at n (snd p)))
                  | None => fail IndexErr end
              | _ => fail TypeErr end)
         | Some FMap =>
             ex <- map_extractor ct c (pos0 h) true ;;
             p <- read_dict c ;;
             h' <- get_heap ;;
             write (fst p) (ODict (filter (fun q => negb (val_eqb FUEL ct h' (fst q) (fst ex))) (snd p)))
         | Some FSet =>
             ex <- set_extractor ct c (pos0 h) true ;;
             p <- read_set c ;;
             xs <- set_discard ct (snd p) (fst ex) ;;
             write (fst p) (OSet xs)
         | None => fail AttrErr end) ;;;
        mutate_attr ct rec l a c true false false false)).
      intros r c00 Hn Hsp Hc00.
      eapply sep_bind with (Q := wrV).
      { destruct (is_missing c00); [eapply sep_weaken; [eapply create_collection_sep; eauto|apply freshv_wrv]|now sret]. }
      intros c Hc. assert (Hoc := wrv_okv b A W _ Hc).
      sbindT.
      { destruct (family_of (a_ty (snd r))) as [[| |]|]; try apply sep_fail.
        - sbind; [eapply seq_extractor_sep; eauto|]. intros ex _.
          destruct (fst ex); try apply sep_fail; try (now sret); cbv zeta.
          + sbi p Hp. destruct Hp as [-> Hp]. specialize (Hp Hoc).
            destruct (norm_index _ _); [|apply sep_fail].
            apply sep_write; [exact Hc|]. simpl. now apply Forall_remove_at.
          + sbi p Hp. destruct Hp as [-> Hp]. specialize (Hp Hoc).
            destruct (norm_index _ _); [|apply sep_fail].
            apply sep_write; [exact Hc|]. simpl. now apply Forall_remove_at.
        - sbind; [eapply map_extractor_sep; eauto|]. intros ex _.
          sbi p Hp. destruct Hp as [-> Hp]. specialize (Hp Hoc). sbi h' Hh.
          apply sep_write; [exact Hc|]. unfold obj_ok. apply Forall_filter. exact Hp.
        - sbind; [eapply set_extractor_sep; eauto|]. intros ex _.
          sbi p Hp. destruct Hp as [-> Hp]. specialize (Hp Hoc).
          sbind; [eapply set_discard_sep; eauto|]. intros xs Hxs.
          apply sep_write; [exact Hc|exact Hxs]. }
      intros _ _. apply item_tail_sep; [exact Hoc|intros _; exact Hwl].
  Qed.
End Helpers.

(* ------------------------------------------------------------------ *)
(** * step *)
Section Step.
  Variable ct : ctable.
  Hypothesis no_dnc : forall c k, lookup_cls ct c = Some k -> c_dnc k = false.
  Hypothesis wf_owner : forall c k, lookup_cls ct c = Some k -> c_owner k = c.
  Variable b : nat.
  Variable A : loc -> Prop.
  Variable W : loc -> Prop.
  Variable h0 : list obj.
  Hypothesis AC : A_closed b A h0.
  Hypothesis ct_ok : table_ok ct b A.
  Hypothesis A_dnc : dnc_allowed ct b A h0.

  Local Notation okV := (okv b A).
  Local Notation SEP := (sep b A W h0).
  Let Hrec := proj1 (exec_sep ct no_dnc wf_owner b A W h0 AC ct_ok A_dnc XFUEL).
  Local Opaque exec XFUEL.

  Definition op_ok (roots : list val) (o : op) : Prop :=
    match o with
    | OpConstruct c pos kw => kwok ct b A kw /\ match pos with Some v => okV v | None => True end
    | OpSetAttr x a v => wrv b A W (nth x roots VNone) /\ okV v
    | OpDelAttr x a => wrv b A W (nth x roots VNone)
    | OpHelper x hp h => hargs_ok ct b A h /\ forall l, nth x roots VNone = VRef l -> form_ok ct b A W l hp h
    | OpDeepCopy x => True
    | OpAlloc ob => obj_ok b A ob
    end.

  Definition Qstep (roots : list val) (o : op) (r : val) : Prop :=
    match o with
    | OpHelper x _ _ => okV r \/ r = nth x roots VNone
    | _ => okV r
    end.

  Theorem step_sep roots o : op_ok roots o -> SEP (step ct roots o) (Qstep roots o).
  Proof.
    destruct o; simpl; intro H.
    - destruct H. eapply sep_weaken; [apply Hrec; simpl; auto|simpl; apply freshv_okv].
    - destruct H as [H1 H2]. sbind; [apply loc_of_sep|]. intros l Hl. rewrite Hl in H1.
      sbindT; [eapply sep_weaken; [apply Hrec; simpl; auto|auto]|]. intros; now sret.
    - sbind; [apply loc_of_sep|]. intros l Hl. rewrite Hl in H.
      sbindT; [eapply sep_weaken; [apply Hrec; simpl; auto|auto]|]. intros; now sret.
    - destruct H as [H1 H2]. sbind; [apply loc_of_sep|]. intros l Hl.
      cbv beta in Hl.
      eapply sep_weaken; [eapply run_helper_sep; eauto|]. intros r Hr. simpl. rewrite Hl. exact Hr.
    - eapply sep_weaken; [eapply deepcopy_sep; eauto|].
      intros r Hr. destruct (nth x roots VNone); try (rewrite Hr; exact I).
      destruct Hr as [l' [-> Hl']]. simpl. auto.
    - sbind; [apply sep_alloc; exact H|]. intros l Hl. sret. simpl. auto.
  Qed.
End Step.

(* ------------------------------------------------------------------ *)
(** * Instantiating the allowed set *)
Lemma okv_of_refs b A xs : (forall l, In l (vrefs xs) -> b <= l \/ A l) -> Forall (okv b A) xs.
Proof.
  intro H. rewrite Forall_forall. intros v Hv. destruct v; simpl; auto. apply H. now apply in_vrefs.
Qed.

Lemma obj_ok_of_refs b A o : (forall l, In l (refs_of o) -> b <= l \/ A l) -> obj_ok b A o.
Proof.
  destruct o as [xs|kvs|xs|c d]; simpl; intro H.
  - now apply okv_of_refs.
  - rewrite Forall_forall. intros p Hp. split.
    + destruct (fst p) eqn:E; simpl; auto. apply H. apply in_or_app. left. apply in_vrefs.
      rewrite <- E. now apply in_map.
    + destruct (snd p) eqn:E; simpl; auto. apply H. apply in_or_app. right. apply in_vrefs.
      rewrite <- E. now apply in_map.
  - now apply okv_of_refs.
  - rewrite Forall_forall. intros p Hp. unfold fok. destruct (snd p) eqn:E; simpl; auto.
    apply H. apply in_vrefs. rewrite <- E. now apply in_map.
Qed.

Lemma reach_from_closed b h0 (R : loc -> Prop) : A_closed b (reach_from h0 R) h0.
Proof.
  intros l o [l0 [H0 Hr]] Hl Hn. apply obj_ok_of_refs. intros l' Hin. right.
  exists l0. split; auto. eapply reach_step; eauto.
Qed.

Lemma reach_from_dnc ct b h0 (R : loc -> Prop) :
  (forall l, dnc_value ct h0 l -> R l) -> dnc_allowed ct b (reach_from h0 R) h0.
Proof.
  intros H l c d k a sp x Hl Hn Hk Hin Ha Hd. destruct x; simpl; auto. right.
  exists l0. split; [|constructor]. apply H. exists l, c, d, k, a, sp. auto.
Qed.

Lemma nonref_okv b A v : val_nonref v -> okv b A v.
Proof. destruct v; simpl; auto; contradiction. Qed.
Lemma nonref_Forall b A xs : Forall val_nonref xs -> Forall (okv b A) xs.
Proof. intro H. eapply Forall_impl; [|exact H]. intros; now apply nonref_okv. Qed.
Lemma fn_scalar_ok b A f : fn_scalar f -> fn_ok b A f.
Proof. destruct f; simpl; auto using nonref_okv, nonref_Forall. Qed.
Lemma ofn_scalar_ok b A o : ofn_scalar o -> ofn_ok b A o.
Proof. destruct o; simpl; auto using fn_scalar_ok. Qed.
Lemma fac_scalar_ok b A f : fac_scalar f -> fac_ok b A f.
Proof.
  destruct f; simpl; auto using nonref_Forall. intro H. eapply Forall_impl; [|exact H].
  intros p [H1 H2]. split; now apply nonref_okv.
Qed.
Lemma scalar_table_ok ct b A : scalar_table ct -> table_ok ct b A.
Proof.
  intros H k Hk. destruct (H k Hk) as (H1 & H2 & H3). split; [|split; now apply ofn_scalar_ok].
  intros sp Hsp. destruct (H1 sp Hsp) as (P1 & P2 & P3). split; [now apply ofn_scalar_ok|].
  split; [now apply ofn_scalar_ok|]. destruct (a_factory sp); auto using fac_scalar_ok.
Qed.

Lemma sinv_start h0 A W s : heap s = h0 -> sinv (length h0) A W h0 s.
Proof.
  intros <-. split; [lia|]. split; [auto|]. intros l o Hl Hn.
  apply nth_error_None in Hl. congruence.
Qed.

