(* The element operations of the specification (SpecHelpers.spec_elem_op and
   the addressing functions) are the Python container operations: theorems
   about plain lists, association lists and duplicate-free lists of ANY
   length and content. *)
From Coq Require Import List ZArith Bool Arith Lia.
From SC Require Import Base.Res Base.PyList Inst.Heap Inst.ClassTable Inst.Canon Inst.Abs Inst.SpecHelpers.
Import ListNotations.
Open Scope nat_scope.

Local Opaque py_eq.

(* ------------------------------------------------------------------ *)
(** * Lists *)

Lemma nth_error_firstn {A} (l : list A) n i : i < n -> nth_error (firstn n l) i = nth_error l i.
Proof.
  revert n i; induction l as [|x l IH]; intros [|n] [|i] H; simpl; auto; try lia.
  apply IH. lia.
Qed.

Lemma nth_error_skipn {A} (l : list A) n i : nth_error (skipn n l) i = nth_error l (n + i).
Proof.
  revert n; induction l as [|x l IH]; intros [|n]; simpl; auto.
  destruct i; reflexivity.
Qed.

Lemma firstn_length_le {A} (l : list A) n : n <= length l -> length (firstn n l) = n.
Proof. intro H. rewrite firstn_length. lia. Qed.

Section ListOps.
  Context {A : Type}.
  Variables (xs : list A) (e : A).

  (* append *)
  Lemma append_spec :
    length (xs ++ [e]) = S (length xs) /\
    (forall i, i < length xs -> nth_error (xs ++ [e]) i = nth_error xs i) /\
    nth_error (xs ++ [e]) (length xs) = Some e.
  Proof.
    split; [rewrite app_length; simpl; lia|]. split.
    - intros i Hi. now apply nth_error_app1.
    - rewrite nth_error_app2 by lia. now rewrite Nat.sub_diag.
  Qed.

  (* list[n] = e *)
  Lemma set_at_spec n : n < length xs ->
    length (set_at n e xs) = length xs /\
    nth_error (set_at n e xs) n = Some e /\
    (forall i, i <> n -> nth_error (set_at n e xs) i = nth_error xs i).
  Proof.
    intro Hn. unfold set_at.
    assert (L : length (firstn n xs) = n) by (apply firstn_length_le; lia).
    split; [|split].
    - rewrite app_length. cbn [length]. rewrite L, skipn_length. lia.
    - rewrite nth_error_app2 by lia. rewrite L, Nat.sub_diag. reflexivity.
    - intros i Hi. destruct (Nat.lt_ge_cases i n).
      + rewrite nth_error_app1 by lia. now apply nth_error_firstn.
      + rewrite nth_error_app2 by lia. rewrite L.
        destruct (i - n) as [|m] eqn:E; [lia|]. cbn [nth_error].
        rewrite nth_error_skipn. f_equal. lia.
  Qed.

  (* list.insert at position p <= len *)
  Lemma insert_at_spec p : p <= length xs ->
    length (insert_at p e xs) = S (length xs) /\
    (forall i, i < p -> nth_error (insert_at p e xs) i = nth_error xs i) /\
    nth_error (insert_at p e xs) p = Some e /\
    (forall i, p <= i -> nth_error (insert_at p e xs) (S i) = nth_error xs i).
  Proof.
    intro Hp. unfold insert_at.
    assert (L : length (firstn p xs) = p) by (apply firstn_length_le; lia).
    split; [|split; [|split]].
    - rewrite app_length. cbn [length]. rewrite L, skipn_length. lia.
    - intros i Hi. rewrite nth_error_app1 by lia. now apply nth_error_firstn.
    - rewrite nth_error_app2 by lia. rewrite L, Nat.sub_diag. reflexivity.
    - intros i Hi. rewrite nth_error_app2 by lia. rewrite L.
      replace (S i - p) with (S (i - p)) by lia. cbn [nth_error]. rewrite nth_error_skipn. f_equal. lia.
  Qed.

  (* del list[n] *)
  Lemma remove_at_spec n : n < length xs ->
    S (length (remove_at n xs)) = length xs /\
    (forall i, i < n -> nth_error (remove_at n xs) i = nth_error xs i) /\
    (forall i, n <= i -> nth_error (remove_at n xs) i = nth_error xs (S i)).
  Proof.
    intro Hn. unfold remove_at.
    assert (L : length (firstn n xs) = n) by (apply firstn_length_le; lia).
    split; [|split].
    - rewrite app_length, L, skipn_length. lia.
    - intros i Hi. rewrite nth_error_app1 by lia. now apply nth_error_firstn.
    - intros i Hi. rewrite nth_error_app2 by lia. rewrite L, nth_error_skipn. f_equal. lia.
  Qed.
End ListOps.

(* index normalisation: list[i] with a possibly negative i *)
Lemma norm_index_spec len i n : (0 <= len)%Z ->
  norm_index len i = Some n <->
  ((0 <= i < len)%Z /\ n = Z.to_nat i) \/ ((- len <= i < 0)%Z /\ n = Z.to_nat (len + i)).
Proof.
  intro Hl. unfold norm_index.
  destruct (i <? 0)%Z eqn:Ei; [apply Z.ltb_lt in Ei | apply Z.ltb_ge in Ei].
  - destruct ((0 <=? i + len) && (i + len <? len))%Z eqn:E.
    + apply andb_true_iff in E. destruct E as [E1 E2]. apply Z.leb_le in E1. apply Z.ltb_lt in E2.
      split.
      * intro H. inversion H. right. split; [lia|]. f_equal. lia.
      * intros [[H _]|[_ ->]]; [lia|]. f_equal. f_equal. lia.
    + split; [discriminate|]. intros [[H _]|[H _]]; [lia|].
      apply andb_false_iff in E. destruct E as [E|E]; [apply Z.leb_gt in E|apply Z.ltb_ge in E]; lia.
  - destruct ((0 <=? i) && (i <? len))%Z eqn:E.
    + apply andb_true_iff in E. destruct E as [E1 E2]. apply Z.leb_le in E1. apply Z.ltb_lt in E2.
      split.
      * intro H. inversion H. left. split; [lia|reflexivity].
      * intros [[_ ->]|[H _]]; [reflexivity|lia].
    + split; [discriminate|]. intros [[H _]|[H _]]; [|lia].
      apply andb_false_iff in E. destruct E as [E|E]; [apply Z.leb_gt in E|apply Z.ltb_ge in E]; lia.
Qed.

Lemma norm_index_none len i : (0 <= len)%Z ->
  norm_index len i = None <-> (i < - len \/ len <= i)%Z.
Proof.
  intro Hl. unfold norm_index.
  destruct (i <? 0)%Z eqn:Ei; [apply Z.ltb_lt in Ei | apply Z.ltb_ge in Ei].
  - destruct ((0 <=? i + len) && (i + len <? len))%Z eqn:E.
    + apply andb_true_iff in E. destruct E as [E1 E2]. apply Z.leb_le in E1. apply Z.ltb_lt in E2.
      split; [discriminate|lia].
    + split; [|reflexivity]. intros _.
      apply andb_false_iff in E. destruct E as [E|E]; [apply Z.leb_gt in E|apply Z.ltb_ge in E]; lia.
  - destruct ((0 <=? i) && (i <? len))%Z eqn:E.
    + apply andb_true_iff in E. destruct E as [E1 E2]. apply Z.leb_le in E1. apply Z.ltb_lt in E2.
      split; [discriminate|lia].
    + split; [|reflexivity]. intros _.
      apply andb_false_iff in E. destruct E as [E|E]; [apply Z.leb_gt in E|apply Z.ltb_ge in E]; lia.
Qed.

Lemma norm_index_lt {A} (xs : list A) i n : norm_index (zlen xs) i = Some n -> n < length xs.
Proof.
  intro H. apply norm_index_spec in H; [|unfold zlen; lia]. unfold zlen in H.
  destruct H as [[H ->]|[H ->]]; lia.
Qed.

(* list.insert clamps the insertion point into [0, len] *)
Lemma clamp_index_spec len i : (0 <= len)%Z ->
  let p := Z.of_nat (clamp_index len i) in
  (0 <= p <= len)%Z /\
  ((0 <= i <= len)%Z -> p = i) /\ ((len < i)%Z -> p = len) /\
  ((- len <= i < 0)%Z -> p = (len + i)%Z) /\ ((i < - len)%Z -> p = 0%Z).
Proof.
  intro Hl. unfold clamp_index. cbv zeta.
  destruct (i <? 0)%Z eqn:Ei; [apply Z.ltb_lt in Ei | apply Z.ltb_ge in Ei];
    rewrite Z2Nat.id by lia; lia.
Qed.

Lemma clamp_index_le {A} (xs : list A) i : clamp_index (zlen xs) i <= length xs.
Proof.
  pose proof (clamp_index_spec (zlen xs) i) as H. unfold zlen in *.
  specialize (H ltac:(lia)). cbv zeta in H. lia.
Qed.

(* list.index: the first of the equal elements *)
Lemma find_index_spec {A} (f : A -> bool) (l : list A) n :
  find_index f l = Some n <->
  (exists x, nth_error l n = Some x /\ f x = true) /\
  (forall m y, m < n -> nth_error l m = Some y -> f y = false).
Proof.
  revert n; induction l as [|x l IH]; intro n; simpl.
  - split; [discriminate|]. intros [[y [H _]] _]. destruct n; discriminate.
  - destruct (f x) eqn:Fx.
    + split.
      * intro H. inversion H. subst. split; [exists x; auto|]. intros; lia.
      * intros [[y [Hy Fy]] Hm]. destruct n; auto.
        specialize (Hm 0 x ltac:(lia) eq_refl). congruence.
    + destruct (find_index f l) as [k|] eqn:E; simpl.
      * split.
        -- intro H. inversion H. subst. destruct (proj1 (IH k) eq_refl) as [E1 E2]. split; [exact E1|].
           intros [|m] y Hm Hy; simpl in Hy; [congruence|]. eapply E2; eauto. lia.
        -- intros [[y [Hy Fy]] Hm]. destruct n as [|n]; [simpl in Hy; congruence|].
           f_equal. f_equal. assert (Some k = Some n) as Hk; [|now inversion Hk].
           apply IH. split; [exists y; auto|].
           intros m z Hlt Hz. apply (Hm (S m) z); [lia|exact Hz].
      * split; [discriminate|]. intros [[y [Hy Fy]] Hm]. destruct n as [|n]; [simpl in Hy; congruence|].
        assert (@None nat = Some n) as Hk; [|discriminate].
        apply IH. split; [exists y; auto|]. intros m z Hlt Hz. apply (Hm (S m) z); [lia|exact Hz].
Qed.

Lemma find_index_none {A} (f : A -> bool) (l : list A) :
  find_index f l = None <-> forall x, In x l -> f x = false.
Proof.
  induction l as [|x l IH]; simpl.
  - split; auto. intros _ x [].
  - destruct (f x) eqn:Fx.
    + split; [discriminate|]. intro H. specialize (H x (or_introl eq_refl)). congruence.
    + destruct (find_index f l); simpl.
      * split; [discriminate|]. intro H. assert (Some n = None) by (apply IH; intros; apply H; auto). discriminate.
      * split; auto. intros _ y [<-|Hy]; auto. apply IH; auto.
Qed.

(* ------------------------------------------------------------------ *)
(** * The addressing modes of the sequence helpers *)

Section Addressing.
  Variable ct : ctable.

  Theorem seq_index_spec xs z :
    match seq_index xs (AInt z) with
    | SOk n => nth_error xs n <> None /\
               (((0 <= z < zlen xs)%Z /\ n = Z.to_nat z) \/ ((- zlen xs <= z < 0)%Z /\ n = Z.to_nat (zlen xs + z)))
    | SErr IndexErr => (z < - zlen xs \/ zlen xs <= z)%Z
    | _ => False
    end.
  Proof.
    unfold seq_index. simpl. destruct (norm_index (zlen xs) z) as [n|] eqn:E.
    - split.
      + apply nth_error_Some. eapply norm_index_lt; eauto.
      + apply norm_index_spec in E; auto. unfold zlen; lia.
    - apply norm_index_none in E; auto. unfold zlen; lia.
  Qed.

  Theorem seq_index_not_int xs v : int_of v = None -> seq_index xs v = SErr TypeErr.
  Proof. unfold seq_index. now intros ->. Qed.

  Theorem seq_find_spec xs v :
    match seq_find ct xs v with
    | SOk n => (exists x, nth_error xs n = Some x /\ py_eq ct x v = true) /\
               (forall m y, m < n -> nth_error xs m = Some y -> py_eq ct y v = false)
    | SErr ValueErr => forall x, In x xs -> py_eq ct x v = false
    | _ => False
    end.
  Proof.
    unfold seq_find. destruct (find_index _ xs) as [n|] eqn:E.
    - exact (proj1 (find_index_spec _ _ _) E).
    - exact (proj1 (find_index_none _ _) E).
  Qed.

  Theorem by_index_default ity voi :
    by_index_rule ct ity voi None = negb (conforms ct ity voi).
  Proof. reflexivity. Qed.
  Theorem by_index_explicit ity voi b : by_index_rule ct ity voi (Some b) = b.
  Proof. reflexivity. Qed.
End Addressing.

(* ------------------------------------------------------------------ *)
(** * Dicts: association lists in insertion order *)

Lemma find_app_none {A} (f : A -> bool) l1 l2 : find f l1 = None -> find f (l1 ++ l2) = find f l2.
Proof. induction l1 as [|x l1 IH]; simpl; auto. destruct (f x); [discriminate|auto]. Qed.

Section Dicts.
  Variable ct : ctable.
  Notation eqk := (py_eq ct).

  Definition keys (kvs : list (aval * aval)) : list aval := map fst kvs.

  Lemma dict_get_some_in kvs k v : dict_get ct kvs k = Some v -> exists k', In (k', v) kvs /\ eqk k' k = true.
  Proof.
    unfold dict_get. destruct (find _ kvs) as [[k' v']|] eqn:E; simpl; [|discriminate].
    intro H; inversion H; subst. apply find_some in E. exists k'. simpl in E. tauto.
  Qed.

  Lemma dict_has_iff kvs k : existsb (fun p => eqk (fst p) k) kvs = true <-> dict_get ct kvs k <> None.
  Proof.
    unfold dict_get. induction kvs as [|p kvs IH]; simpl; [intuition congruence|].
    destruct (eqk (fst p) k); simpl; [intuition congruence|exact IH].
  Qed.

  (* d[k] = v: reading k afterwards gives v *)
  Theorem dict_set_get_same kvs k v :
    eqk k k = true -> dict_get ct (dict_set ct kvs k v) k = Some v.
  Proof.
    intro Hr. unfold dict_set.
    destruct (existsb (fun p => eqk (fst p) k) kvs) eqn:E.
    - unfold dict_get. induction kvs as [|p kvs IH]; simpl in *; [discriminate|].
      destruct (eqk (fst p) k) eqn:Ep; simpl.
      + rewrite Ep. reflexivity.
      + rewrite Ep. apply IH. exact E.
    - unfold dict_get. rewrite find_app_none.
      + simpl. now rewrite Hr.
      + clear Hr. induction kvs as [|p kvs IH]; simpl in *; auto.
        destruct (eqk (fst p) k); simpl in *; [discriminate|auto].
  Qed.

  (* ... and every other key reads as before *)
  Theorem dict_set_get_other kvs k v k' :
    eqk k k' = false ->
    (forall p, In p kvs -> eqk (fst p) k = true -> eqk (fst p) k' = false) ->
    dict_get ct (dict_set ct kvs k v) k' = dict_get ct kvs k'.
  Proof.
    intros Hk Hsep. unfold dict_set.
    destruct (existsb (fun p => eqk (fst p) k) kvs) eqn:E.
    - clear E. unfold dict_get. induction kvs as [|p kvs IH]; simpl; auto.
      destruct (eqk (fst p) k) eqn:Ep; simpl.
      + rewrite (Hsep p (or_introl eq_refl) Ep). apply IH. intros; apply Hsep; simpl; auto.
      + destruct (eqk (fst p) k'); auto. apply IH. intros; apply Hsep; simpl; auto.
    - unfold dict_get. clear E Hsep. induction kvs as [|p kvs IH]; simpl.
      + now rewrite Hk.
      + destruct (eqk (fst p) k'); auto.
  Qed.

  (* order: an existing key keeps its position, a new key goes last; nothing else moves *)
  Theorem dict_set_keys kvs k v :
    keys (dict_set ct kvs k v) =
    if existsb (fun p => eqk (fst p) k) kvs then keys kvs else keys kvs ++ [k].
  Proof.
    unfold dict_set, keys. destruct (existsb _ kvs).
    - rewrite map_map. apply map_ext. intro p. destruct (eqk (fst p) k); reflexivity.
    - now rewrite map_app.
  Qed.

  Theorem dict_set_untouched kvs k v i p :
    nth_error kvs i = Some p -> eqk (fst p) k = false ->
    nth_error (dict_set ct kvs k v) i = Some p.
  Proof.
    intros Hi Hp. unfold dict_set. destruct (existsb _ kvs).
    - rewrite nth_error_map, Hi. simpl. now rewrite Hp.
    - rewrite nth_error_app1; auto. apply nth_error_Some. congruence.
  Qed.

  (* del d[k] *)
  Theorem dict_del_get_same kvs k : dict_get ct (dict_del ct kvs k) k = None.
  Proof.
    unfold dict_get, dict_del. induction kvs as [|p kvs IH]; simpl; auto.
    destruct (eqk (fst p) k) eqn:E; simpl; auto. now rewrite E.
  Qed.

  Theorem dict_del_get_other kvs k k' :
    (forall p, In p kvs -> eqk (fst p) k' = true -> eqk (fst p) k = false) ->
    dict_get ct (dict_del ct kvs k) k' = dict_get ct kvs k'.
  Proof.
    intro Hsep. unfold dict_get, dict_del. induction kvs as [|p kvs IH]; simpl; auto.
    destruct (eqk (fst p) k) eqn:E; simpl.
    - destruct (eqk (fst p) k') eqn:E'.
      + rewrite (Hsep p (or_introl eq_refl) E') in E. discriminate.
      + apply IH. intros; apply Hsep; simpl; auto.
    - destruct (eqk (fst p) k'); auto. apply IH. intros; apply Hsep; simpl; auto.
  Qed.

  (* the remaining entries keep their relative order *)
  Theorem dict_del_is_filter kvs k :
    dict_del ct kvs k = filter (fun p => negb (eqk (fst p) k)) kvs /\
    (forall p, In p (dict_del ct kvs k) <-> In p kvs /\ eqk (fst p) k = false).
  Proof.
    split; [reflexivity|]. intro p. unfold dict_del. rewrite filter_In, negb_true_iff. tauto.
  Qed.
End Dicts.

(* ------------------------------------------------------------------ *)
(** * Sets: duplicate-free lists in canonical order *)

Section Sets.
  Variable ct : ctable.
  Notation eqv := (py_eq ct).

  Lemma set_has_spec xs v : set_has ct xs v = true <-> exists x, In x xs /\ eqv x v = true.
  Proof. unfold set_has. apply existsb_exists. Qed.

  (* s.add(v) *)
  Theorem set_add_members xs v y :
    In y (set_add ct xs v) <-> In y xs \/ (y = v /\ set_has ct xs v = false).
  Proof.
    unfold set_add. destruct (set_has ct xs v) eqn:E.
    - intuition congruence.
    - rewrite In_insert_by. intuition.
  Qed.

  Theorem set_add_has xs v : eqv v v = true -> set_has ct (set_add ct xs v) v = true.
  Proof.
    intro Hr. unfold set_add. destruct (set_has ct xs v) eqn:E; auto.
    apply set_has_spec. exists v. split; auto. apply In_insert_by. auto.
  Qed.

  Theorem set_add_present xs v : set_has ct xs v = true -> set_add ct xs v = xs.
  Proof. unfold set_add. now intros ->. Qed.

  Theorem set_add_length xs v :
    length (set_add ct xs v) = if set_has ct xs v then length xs else S (length xs).
  Proof.
    unfold set_add. destruct (set_has ct xs v); auto.
    induction xs as [|x xs IH]; simpl; auto. destruct (akey v <=? akey x)%Z; simpl; auto.
  Qed.

  (* s.remove(v) / s.discard(v) *)
  Theorem set_remove_members xs v y :
    In y (set_remove ct xs v) <-> In y xs /\ eqv y v = false.
  Proof. unfold set_remove. rewrite filter_In, negb_true_iff. tauto. Qed.

  Theorem set_remove_has xs v : set_has ct (set_remove ct xs v) v = false.
  Proof.
    unfold set_has, set_remove. induction xs as [|x xs IH]; simpl; auto.
    destruct (eqv x v) eqn:E; simpl; auto. now rewrite E.
  Qed.

  (* duplicate-freeness (no two positions hold equal elements) is preserved *)
  Definition dupfree (xs : list aval) : Prop :=
    forall i j x y, i <> j -> nth_error xs i = Some x -> nth_error xs j = Some y -> eqv x y = false.

  Lemma dupfree_cons x xs :
    dupfree (x :: xs) <-> (forall y, In y xs -> eqv x y = false /\ eqv y x = false) /\ dupfree xs.
  Proof.
    split.
    - intro H. split.
      + intros y Hy. apply In_nth_error in Hy. destruct Hy as [n Hn]. split.
        * apply (H 0 (S n) x y); auto.
        * apply (H (S n) 0 y x); auto.
      + intros i j a b Hij Hi Hj. apply (H (S i) (S j)); auto.
    - intros [H1 H2] [|i] [|j] a b Hij Hi Hj; simpl in *; try congruence.
      + inversion Hi; subst. apply nth_error_In in Hj. now apply H1.
      + inversion Hj; subst. apply nth_error_In in Hi. now apply H1.
      + apply (H2 i j a b); auto.
  Qed.

  Lemma dupfree_insert v xs :
    (forall y, In y xs -> eqv v y = false /\ eqv y v = false) -> dupfree xs -> dupfree (insert_by akey v xs).
  Proof.
    induction xs as [|x xs IH]; intros Hv Hd; simpl.
    - intros [|i] [|j] a b Hij Hi Hj; simpl in *; try congruence;
        try (destruct i; discriminate); destruct j; discriminate.
    - destruct (akey v <=? akey x)%Z.
      + apply dupfree_cons. split; auto.
      + apply dupfree_cons in Hd. destruct Hd as [Hx Hd]. apply dupfree_cons. split.
        * intros y Hy. apply In_insert_by in Hy. destruct Hy as [->|Hy]; auto.
          destruct (Hv x (or_introl eq_refl)). auto.
        * apply IH; auto. intros; apply Hv; simpl; auto.
  Qed.

  Theorem set_add_dupfree xs v :
    (forall y, In y xs -> eqv v y = eqv y v) -> dupfree xs -> dupfree (set_add ct xs v).
  Proof.
    intros Hsym Hd. unfold set_add. destruct (set_has ct xs v) eqn:E; auto.
    apply dupfree_insert; auto. intros y Hy.
    assert (eqv y v = false).
    { destruct (eqv y v) eqn:F; auto. assert (set_has ct xs v = true) by (apply set_has_spec; eauto). congruence. }
    rewrite Hsym; auto.
  Qed.

  Theorem set_remove_dupfree xs v : dupfree xs -> dupfree (set_remove ct xs v).
  Proof.
    unfold set_remove. induction xs as [|x xs IH]; intro Hd; simpl; auto.
    apply dupfree_cons in Hd. destruct Hd as [Hx Hd].
    destruct (eqv x v); simpl; auto. apply dupfree_cons. split; auto.
    intros y Hy. apply filter_In in Hy. apply Hx. tauto.
  Qed.

  (* the canonical order is kept *)
  Fixpoint sorted (xs : list aval) : Prop :=
    match xs with
    | [] => True
    | x :: t => (forall y, In y t -> (akey x <= akey y)%Z) /\ sorted t
    end.

  Lemma sorted_insert v xs : sorted xs -> sorted (insert_by akey v xs).
  Proof.
    induction xs as [|x xs IH]; intro Hs; simpl.
    - split; [intros y []|exact I].
    - destruct Hs as [Hx Hs]. destruct (akey v <=? akey x)%Z eqn:E.
      + apply Z.leb_le in E. split; [|split; auto].
        intros y [<-|Hy]; auto. specialize (Hx y Hy). lia.
      + apply Z.leb_gt in E. split; [|auto].
        intros y Hy. apply In_insert_by in Hy. destruct Hy as [->|Hy]; [lia|auto].
  Qed.

  Theorem set_add_sorted xs v : sorted xs -> sorted (set_add ct xs v).
  Proof. unfold set_add. destruct (set_has ct xs v); auto using sorted_insert. Qed.

  Theorem set_remove_sorted xs v : sorted xs -> sorted (set_remove ct xs v).
  Proof.
    unfold set_remove. induction xs as [|x xs IH]; intro Hs; simpl; auto.
    destruct Hs as [Hx Hs]. destruct (negb (eqv x v)); simpl; auto.
    split; auto. intros y Hy. apply filter_In in Hy. apply Hx. tauto.
  Qed.
End Sets.

Local Transparent py_eq.
(* == on hashable scalars is symmetric and reflexive (what set_add_dupfree asks for) *)
Lemma scalar_eq_sym a b : a_hashable a = true -> a_hashable b = true -> scalar_eq a b = scalar_eq b a.
Proof.
  destruct a, b; simpl; intros; try reflexivity; try discriminate;
    try (now rewrite Z.eqb_sym); f_equal.
  destruct b, b0; reflexivity.
Qed.

Lemma aeq_scalar ct f a b r : scalar_eq a b = Some r -> aeq ct f a b = r.
Proof. destruct f; simpl; intros ->; reflexivity. Qed.

Lemma scalar_eq_hashable a b : a_hashable a = true -> a_hashable b = true -> exists r, scalar_eq a b = Some r.
Proof. destruct a, b; simpl; intros; try discriminate; eauto. Qed.

Lemma py_eq_sym_hashable ct a b : a_hashable a = true -> a_hashable b = true -> py_eq ct a b = py_eq ct b a.
Proof.
  intros Ha Hb. unfold py_eq.
  destruct (scalar_eq_hashable a b Ha Hb) as [r Hr].
  rewrite (aeq_scalar ct _ a b r Hr). rewrite scalar_eq_sym in Hr by assumption.
  now rewrite (aeq_scalar ct _ b a r Hr).
Qed.

Lemma py_eq_refl_hashable ct a : a_hashable a = true -> py_eq ct a a = true.
Proof.
  intros Ha. unfold py_eq. apply aeq_scalar.
  destruct a; simpl in *; try discriminate; try reflexivity; f_equal;
    try apply Z.eqb_refl. destruct b; reflexivity.
Qed.

(* ------------------------------------------------------------------ *)
(** * spec_elem_op is those operations *)

Theorem spec_elem_op_list ct xs :
  (forall e, spec_elem_op ct (EAppend e) (AList xs) = SOk (AList (xs ++ [e]))) /\
  (forall n e, spec_elem_op ct (ESetAt n e) (AList xs) = SOk (AList (set_at n e xs))) /\
  (forall i e, spec_elem_op ct (EInsert i e) (AList xs) = SOk (AList (insert_at (clamp_index (zlen xs) i) e xs))) /\
  (forall n, spec_elem_op ct (EDelAt n) (AList xs) = SOk (AList (remove_at n xs))).
Proof. repeat split. Qed.

Theorem spec_elem_op_dict ct kvs :
  (forall k e, spec_elem_op ct (EAssign k e) (ADict kvs) = SOk (ADict (dict_set ct kvs k e))) /\
  (forall k, spec_elem_op ct (EDelKey k) (ADict kvs) = SOk (ADict (dict_del ct kvs k))).
Proof. split; reflexivity. Qed.

Theorem spec_elem_op_set ct xs :
  (forall e, spec_elem_op ct (EAdd e) (ASet xs) = SOk (ASet (set_add ct xs e))) /\
  (forall o e, spec_elem_op ct (EReplace o e) (ASet xs) = SOk (ASet (set_add ct (set_remove ct xs o) e))) /\
  (forall o, spec_elem_op ct (EDiscard o) (ASet xs) = SOk (ASet (set_remove ct xs o))).
Proof. repeat split. Qed.
