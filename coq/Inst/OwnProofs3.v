(* C03, ownership, part 3: the in-place element helper with_<item> on a leaf
   list attribute.  No freshness condition on the item or the index: the
   inserter type-checks the item against a scalar annotation before it writes,
   so a reference is never inserted. *)
From Coq Require Import List ZArith Bool Arith Lia.
From SC Require Import Base.Res Base.PyList Inst.Heap Inst.ClassTable Inst.Model Inst.Framed
  Inst.TypeProofs Inst.OwnProofs Inst.OwnProofs2.
Import ListNotations.
Open Scope nat_scope.
Set Warnings "-unused-intro-pattern".
#[local] Opaque FUEL.

Section Items.
  Variable ct : ctable.
  Hypothesis Hflat : flat_table ct.
  Hypothesis Hninv : inval_spec ct.
  Notation Inv := (Inv ct).
  Notation rec := (exec ct XFUEL).
  Local Opaque exec XFUEL.

  Let HrecMv := Hmv ct Hflat XFUEL.

  Lemma held_list h l cl d k a sp e v :
    Inv h -> nth_error h l = Some (OInst cl d) -> lookup_cls ct cl = Some k ->
    lookup_attr k a = Some sp -> a_ty sp = TList e -> assoc a d = Some v ->
    exists fc, v = VRef fc /\ check_type FUEL ct h v (TList e) = true.
  Proof.
    intros [T _] N Hk Ha Ht As.
    assert (C : check_type FUEL ct h v (a_ty sp) = true).
    { eapply T; eauto. now apply assoc_in. }
    rewrite Ht in C. destruct v as [| | | | | | | |fc]; [..|eauto];
      destruct FUEL_SS as [f Ef]; rewrite Ef in C; simpl in C; discriminate.
  Qed.

  (* the element operation followed by the store, when the attribute holds the list fc *)
  Lemma item_tail_held l cl d k a sp e fc io :
    lookup_cls ct cl = Some k -> lookup_attr k a = Some sp -> leaf_list sp e -> io_plain io ->
    assoc a d = Some (VRef fc) ->
    T (fun h => Inv h /\ inst_at l cl d h)
      (c' <- mutate_collection ct rec FSeq sp l (VRef fc) io ;;
       mutate_attr ct rec l a c' true false false false)
      (fun _ h => Inv h) Inv.
  Proof.
    intros Hk Ha Hl Hio As. pose proof Hl as (Ht & Se & _).
    assert (Fc : flat_coll (a_ty sp) = true) by (rewrite Ht; simpl; now apply scalar_simple).
    eapply T_bind.
    - eapply T_conseq.
      + apply (mutate_collection_seq ct Hflat rec HrecMv sp e l fc io (inst_at l cl d) Hl Hio (cstable_inst_at l cl d)).
        intros h I N. right. rewrite <- Ht.
        eapply Owned_only_view; eauto; [apply I|now apply assoc_in].
      + intros h [I N]. split; [split; auto|].
        destruct (held_list h l cl d k a sp e (VRef fc) I N Hk Ha Ht As) as [fc' [_ C]]. exact C.
      + intros r h H. exact H.
      + intros h [I _]. exact I.
    - intros c'. apply T_pull. intros ->.
      eapply T_pre; [|apply (mutate_attr_inplace ct Hflat Hninv XFUEL l a (VRef fc) false)].
      intros h [[I N] C]. split; auto. split.
      + right. exists cl, d. auto.
      + intros _ cl' d' k' sp' N' Hk' Ha'. unfold inst_at in N. rewrite N in N'. inversion N'; subst cl' d'.
        rewrite Hk in Hk'. inversion Hk'; subst k'. rewrite Ha in Ha'. inversion Ha'; subst sp'.
        rewrite Ht. exact C.
  Qed.

  (* ... and when the attribute holds nothing: a fresh list is created, filled and stored *)
  Lemma item_tail_missing l cl d k a sp e io :
    lookup_cls ct cl = Some k -> lookup_attr k a = Some sp -> leaf_list sp e -> io_plain io ->
    T (fun h => Inv h /\ inst_at l cl d h)
      (c' <- mutate_collection ct rec FSeq sp l VMissing io ;;
       mutate_attr ct rec l a c' true false false false)
      (fun _ h => Inv h) Inv.
  Proof.
    intros Hk Ha Hl Hio. pose proof Hl as (Ht & Se & _).
    unfold mutate_collection at 1. cbn [is_missing].
    (* reassociate: create the list first *)
    intros s [I N].
    unfold bind at 1. unfold bind at 1.
    pose proof (create_list ct Hflat rec sp e (inst_at l cl d) Ht (astable_inst_at l cl d) s (conj I N)) as Cr.
    destruct (create_collection rec sp s) as [[c1|err] s1]; [|exact (proj1 Cr)].
    destruct Cr as [[I1 N1] [fc [-> [L C]]]].
    set (G := fun h => inst_at l cl d h /\ loose h (VRef fc)).
    assert (SG : cstable G) by (apply cstable_and; [apply cstable_inst_at|apply cstable_loose]).
    pose proof (mutate_collection_seq ct Hflat rec HrecMv sp e l fc io G Hl Hio SG) as MC.
    assert (HV : forall h, Inv h -> G h -> refcount h fc = 0 \/ only_view ct h fc (TList e)).
    { intros h _ [_ [_ Z]]. left. exact Z. }
    specialize (MC HV s1). unfold mutate_collection in MC. cbn [is_missing] in MC.
    unfold bind at 1 in MC. cbn [ret] in MC.
    match goal with |- context [bind ?m ?k s1] => change (bind m k s1) with (bind m k s1) end.
    match type of MC with _ -> match ?X with _ => _ end =>
      match goal with |- match match ?Y with _ => _ end with _ => _ end => change Y with X end end.
    assert (Pre : IF ct G (heap s1) /\ check_type FUEL ct (heap s1) (VRef fc) (TList e) = true).
    { split; [split; [exact I1|split; auto]|exact C]. }
    specialize (MC Pre).
    match type of MC with match ?X with _ => _ end => destruct X as [[c'|err] s2] end.
    - destruct MC as [[[I2 [N2 L2]] C2] ->].
      apply (mutate_attr_inplace ct Hflat Hninv XFUEL l a (VRef fc) false s2).
      split; auto. split; [left; exact L2|].
      intros _ cl' d' k' sp' N' Hk' Ha'. unfold inst_at in N2. rewrite N2 in N'. inversion N'; subst cl' d'.
      rewrite Hk in Hk'. inversion Hk'; subst k'. rewrite Ha in Ha'. inversion Ha'; subst sp'.
      rewrite Ht. exact C2.
    - exact (proj1 MC).
  Qed.

  (* what the attribute holds, else the class-level default must be absent *)
  Definition dflt_missing (l : loc) (a : aid) (h : heap_t) : Prop :=
    forall cl d k, nth_error h l = Some (OInst cl d) -> lookup_cls ct cl = Some k ->
      assoc a d = None -> class_default k a = VMissing.

  Lemma getattr_default_run l a s cl d k :
    nth_error (heap s) l = Some (OInst cl d) -> lookup_cls ct cl = Some k ->
    getattr_default ct l a s =
      (Ok (match assoc a d with Some v => v | None => class_default k a end), s).
  Proof.
    intros N Hk. unfold getattr_default.
    erewrite bind_ok'; [|apply read_inst_eq; eauto]. cbn [fst snd].
    destruct (assoc a d); [reflexivity|].
    erewrite bind_ok'; [|unfold cls_of; rewrite Hk; reflexivity]. reflexivity.
  Qed.

  Lemma mk_mutator_run sp l s cl d k :
    nth_error (heap s) l = Some (OInst cl d) -> lookup_cls ct cl = Some k ->
    mk_mutator ct sp l true s = (Err FrozenErr, s) \/
    mk_mutator ct sp l true s =
      (Ok (match assoc (a_name sp) d with Some v => v | None => class_default k (a_name sp) end), s).
  Proof.
    intros N Hk. unfold mk_mutator.
    erewrite bind_ok'; [|apply read_inst_eq; eauto]. cbn [fst snd].
    erewrite bind_ok'; [|unfold cls_of; rewrite Hk; reflexivity].
    destruct (true && c_frozen k && negb (initializing d)); [left; reflexivity|right].
    erewrite bind_ok'; [|reflexivity].
    erewrite bind_ok'; [|apply (getattr_default_run l (a_name sp) s cl d k N Hk)].
    rewrite orb_true_r. reflexivity.
  Qed.

  Lemma spec_for_run l a s cl d k :
    nth_error (heap s) l = Some (OInst cl d) -> lookup_cls ct cl = Some k ->
    spec_for ct l a s = match lookup_attr k a with Some sp => (Ok (k, sp), s) | None => (Err AttrErr, s) end.
  Proof.
    intros N Hk. unfold spec_for.
    erewrite bind_ok'; [|apply read_inst_eq; eauto]. cbn [fst snd].
    erewrite bind_ok'; [|unfold cls_of; rewrite Hk; reflexivity].
    destruct (lookup_attr k a); reflexivity.
  Qed.

  (* STEP 3a: obj.with_<item>(x, _index=i, _insert=b, _inplace=True) on a leaf list attribute *)
  Theorem with_item_inplace_Inv l a hh s :
    h_inplace hh = true -> h_kw hh = None ->
    Inv (heap s) -> recv_leaf ct l a (heap s) -> dflt_missing l a (heap s) ->
    Inv (heap (snd (run_helper ct l (HWithItem a) hh s))).
  Proof.
    intros Hin Hkw I R D. unfold run_helper. destruct (negb (h_if hh)); [exact I|]. rewrite Hin, Hkw.
    destruct (nth_error (heap s) l) as [o|] eqn:N.
    2:{ unfold bind at 1. unfold spec_for, bind at 1. unfold read_inst, bind at 1. unfold read. rewrite N. exact I. }
    destruct o as [xs|kvs|xs|cl d];
      try (unfold bind at 1; unfold spec_for, bind at 1; unfold read_inst, bind at 1; unfold read; rewrite N; exact I).
    destruct (lookup_cls ct cl) as [k|] eqn:Hk.
    2:{ unfold bind at 1. unfold spec_for. erewrite bind_ok'; [|apply read_inst_eq; eauto]. cbn [fst snd].
        unfold bind at 1. unfold cls_of. rewrite Hk. exact I. }
    unfold bind at 1. rewrite (spec_for_run l a s cl d k N Hk).
    destruct (lookup_attr k a) as [sp|] eqn:Ha; [|exact I].
    cbv zeta. cbn [snd].
    destruct (R _ _ _ _ N Hk Ha) as [e Hl]. pose proof Hl as (Ht & _).
    pose proof (lookup_attr_name k a sp Ha) as Hn.
    unfold bind at 1.
    destruct (mk_mutator_run sp l s cl d k N Hk) as [E|E]; rewrite E; [exact I|].
    rewrite Hn. rewrite Ht. cbn [family_of].
    set (io := mkio (h_index hh) (pos0 hh) None None [] true
                    (negb (is_missing (h_index hh)) && negb (h_insert hh)) TriTrue (h_insert hh)).
    assert (Hio : io_plain io) by (repeat split).
    destruct (assoc a d) as [v|] eqn:As.
    - destruct (held_list (heap s) l cl d k a sp e v I N Hk Ha Ht As) as [fc [-> _]].
      eapply (T_run _ _ _ _ Inv s (item_tail_held l cl d k a sp e fc io Hk Ha Hl Hio As)); auto.
      all: try (split; auto).
    - rewrite (D _ _ _ N Hk As).
      eapply (T_run _ _ _ _ Inv s (item_tail_missing l cl d k a sp e io Hk Ha Hl Hio)); auto.
      all: try (split; auto).
  Qed.

  Theorem step_with_item_inplace_Inv roots x a hh s :
    h_inplace hh = true -> h_kw hh = None -> Inv (heap s) ->
    (forall l, nth x roots VNone = VRef l -> recv_leaf ct l a (heap s) /\ dflt_missing l a (heap s)) ->
    Inv (heap (snd (step ct roots (OpHelper x (HWithItem a) hh) s))).
  Proof.
    intros Hin Hkw I R. unfold step.
    destruct (nth x roots VNone) as [| | | | | | | |l] eqn:Er; try exact I.
    cbn [loc_of]. rewrite bind_ret_l. destruct (R l eq_refl). apply with_item_inplace_Inv; auto.
  Qed.
End Items.

(* ------------------------------------------------------------------ *)
(** * Computable guards, combined statement *)
Definition dflt_missing_b (ct : ctable) (h : heap_t) (recv : val) (a : aid) : bool :=
  match recv with
  | VRef l =>
      match nth_error h l with
      | Some (OInst cl d) =>
          match lookup_cls ct cl with
          | Some k => match assoc a d with None => is_missing (class_default k a) | Some _ => true end
          | None => true end
      | _ => true end
  | _ => true
  end.

Lemma dflt_missing_b_sound ct h recv a :
  dflt_missing_b ct h recv a = true -> forall l, recv = VRef l -> dflt_missing ct l a h.
Proof.
  intros H l -> cl d k N Hk As. simpl in H. rewrite N, Hk, As in H.
  destruct (class_default k a); simpl in H; try discriminate. reflexivity.
Qed.

(* operations covered: those of owned_op_b, and with_<item>(x, _index, _insert, _inplace=True)
   on a leaf list attribute that holds a list, or holds nothing and has no class-level default
   (ANY item and index: no freshness condition) *)
Definition owned_op3_b (ct : ctable) (h : heap_t) (roots : list val) (o : op) : bool :=
  owned_op_b ct h roots o ||
  match o with
  | OpHelper x (HWithItem a) hh =>
      h_inplace hh && is_none (h_kw hh) && recv_leaf_b ct h (nth x roots VNone) a
      && dflt_missing_b ct h (nth x roots VNone) a
  | _ => false
  end.

Theorem step_preserves_owned_partial3 ct roots o s :
  flat_table ct -> no_inval_b ct = true -> owned_op3_b ct (heap s) roots o = true ->
  TypeInv ct s -> Owned ct (heap s) ->
  TypeInv ct (snd (step ct roots o s)) /\ Owned ct (heap (snd (step ct roots o s))).
Proof.
  intros Hf Hn Hop T O. unfold owned_op3_b in Hop. apply orb_true_iff in Hop.
  destruct Hop as [Hop|Hop]; [now apply step_preserves_owned_partial|].
  apply no_inval_b_sound in Hn. apply no_inval_spec in Hn.
  assert (I : Inv ct (heap s)) by (split; auto).
  change (Inv ct (heap (snd (step ct roots o s)))).
  destruct o as [| | | x hp hh | |]; try discriminate. destruct hp; try discriminate.
  rewrite !andb_true_iff in Hop. destruct Hop as [[[H1 H2] H3] H4].
  apply step_with_item_inplace_Inv; auto.
  - destruct (h_kw hh); auto; discriminate.
  - intros l El. split; [eapply recv_leaf_b_sound; eauto|eapply dflt_missing_b_sound; eauto].
Qed.
