(* C05 refinement with invalidation (continuation of RefineMore.v): the "no
   invalidated_by" guard is lifted for a written attribute whose dependants
   are direct (they invalidate nothing themselves) and have literal defaults:
   with_<a>(v, _inplace=True) / obj.a = v store the prepared value and reset
   every dependant, once, in declaration order -- exactly what the
   specification's `invalidate` computes. *)
From Coq Require Import List ZArith Bool Arith Lia.
From SC Require Import Base.Res Base.PyList Inst.Heap Inst.ClassTable Inst.Model Inst.Canon
  Inst.Abs Inst.SpecHelpers Inst.ElemProofs Inst.Framed Inst.RefineProofs Inst.CopyProofs Inst.RefineMore.
Import ListNotations.
Open Scope nat_scope.

#[local] Opaque FUEL.

(* ------------------------------------------------------------------ *)
(** * mutate_attr in place, invalidation left open *)

Lemma bind_thawed_false {A B} ct l (m : M A) (K : A -> M B) s c d k :
  nth_error (heap s) l = Some (OInst c d) -> lookup_cls ct c = Some k ->
  bind (thawed ct l false m) K s = bind m K s.
Proof. intros Hl Hc. unfold bind. now rewrite (thawed_false ct l m s c d k Hl Hc). Qed.

Section RunStoreOpen.
  Variable ct : ctable.
  Variable rec : call -> M val.

  Lemma mutate_attr_inplace_open l a v tc force skip s c d k :
    nth_error (heap s) l = Some (OInst c d) -> lookup_cls ct c = Some k ->
    negb (force || initializing d) && c_frozen k = false ->
    is_sentinel v = false ->
    mutate_attr ct rec l a v true tc force skip s =
    match (if tc then match lookup_attr k a with
                      | Some sp => check_type FUEL ct (heap s) v (a_ty sp)
                      | None => true end
           else true) with
    | true => bind (if skip then ret tt else invalidate_attrs ct rec l a) (fun _ => ret (VRef l))
                   (upd s l (OInst c (assoc_set a v d)))
    | false => (Err TypeErr, s)
    end.
  Proof.
    intros Hl Hc Hf Hs. unfold mutate_attr. rewrite Hs.
    rewrite (bind_ok _ _ _ _ _ (read_inst_at l s c d Hl)). cbn [fst snd].
    rewrite (bind_ok _ _ _ _ _ (cls_of_at ct c s k Hc)).
    rewrite andb_true_r, Hf. rewrite bind_ret.
    assert (Hstore : forall s0, s0 = s ->
      (l' <- (if negb (true || c_dnc k) then v0 <- deepcopy ct (VRef l);; loc_of v0 else ret l);;
       value <- (if negb (true || c_dnc k) && same_object (assoc a d) v
                 then p' <- read_inst l';; ret match assoc a (snd p') with Some v' => v' | None => v end
                 else ret v);;
       thawed ct l' (negb (true || c_dnc k))
         (raw_setattr l' a value;;; (if skip then ret tt else invalidate_attrs ct rec l' a));;;
       ret (VRef l')) s0 =
      bind (if skip then ret tt else invalidate_attrs ct rec l a) (fun _ => ret (VRef l))
           (upd s l (OInst c (assoc_set a v d)))).
    { intros s0 ->. cbn [orb negb andb]. rewrite !bind_ret.
      rewrite (bind_thawed_false ct l _ _ s c d k Hl Hc). rewrite bind_assoc.
      now rewrite (bind_ok _ _ _ _ _ (raw_setattr_at l a v s c d Hl)). }
    destruct tc.
    - destruct (lookup_attr k a) as [sp|].
      + rewrite bind_assoc.
        rewrite (bind_ok (check_typeM ct v (a_ty sp)) _ s (check_type FUEL ct (heap s) v (a_ty sp)) s eq_refl).
        destruct (check_type FUEL ct (heap s) v (a_ty sp)).
        * rewrite bind_ret. now apply Hstore.
        * reflexivity.
      + rewrite bind_ret. now apply Hstore.
    - destruct (lookup_attr k a); rewrite bind_ret; now apply Hstore.
  Qed.
End RunStoreOpen.

(* the errors the specification's scalar store can name *)
Lemma spec_core_err ct a c d sp s v e :
  match a_prepare sp with Some f => scalar_fn f = true | None => True end ->
  spec_core ct a c d sp s v = SErr e -> e = TypeErr.
Proof.
  intros Hp H. unfold spec_core in H.
  destruct (pv_of sp v) as [pv|e'| |] eqn:E; cbn [sbind] in H; try discriminate H.
  - destruct (conforms ct (a_ty sp) pv); [discriminate H|]. injection H as <-. reflexivity.
  - injection H as <-. unfold pv_of in E. destruct (a_prepare sp) as [f|]; [|discriminate E].
    destruct f as [|z|c0| | | |]; cbn [scalar_fn] in Hp; try discriminate; cbn [afn] in E; try discriminate E.
    destruct (abs0 v); try discriminate E; injection E as <-; reflexivity.
Qed.

(* ------------------------------------------------------------------ *)
(** * Resetting one dependant (del with skip_invalidation, AttributeError swallowed) *)

Definition literal_defaultb (k : cls) (sp : attr_spec) : bool :=
  match assoc (a_name sp) (c_overrides k) with
  | Some _ => true
  | None => match a_factory sp with None => true | Some _ => false end
  end.

(* a dependant the theorem covers *)
Definition dep_ok (k : cls) (sp : attr_spec) : bool :=
  (ty_depth (a_ty sp) <? FUEL) && negb (ty_is_collection (a_ty sp)) &&
  match a_prepare sp with Some f => scalar_fn f | None => true end &&
  literal_defaultb k sp &&
  (vscalar (class_default k (a_name sp)) || is_missing (class_default k (a_name sp))).

Lemma literal_defaultb_ok k sp : literal_defaultb k sp = true -> literal_default (a_name sp) k sp.
Proof.
  unfold literal_defaultb, literal_default. intros H E. rewrite E in H. destruct (a_factory sp); [discriminate|reflexivity].
Qed.

Definition reset_step (ct : ctable) (rec : call -> M val) (l : loc) (sp : attr_spec) : M unit :=
  catch (rec (KDelAttr l (a_name sp) false true) ;;; ret tt) (fun e => err_eqb e AttrErr) (ret tt).

Lemma reset_step_eq ct rec l sp s :
  reset_step ct rec l sp s =
  match rec (KDelAttr l (a_name sp) false true) s with
  | (Ok _, s1) => (Ok tt, s1)
  | (Err e, s1) => if err_eqb e AttrErr then (Ok tt, s1) else (Err e, s1)
  end.
Proof.
  unfold reset_step, catch, bind. destruct (rec (KDelAttr l (a_name sp) false true) s) as [[v|e] s1]; reflexivity.
Qed.

Section DepReset.
  Variable ct : ctable.
  Variable h0 : list obj.
  Variable rec' : scall -> sres aval.
  Variables (l : loc) (c : cid) (k : cls).
  Hypothesis Hc : lookup_cls ct c = Some k.
  Hypothesis Hfz : c_frozen k = false.

  Lemma delattr_skip_unfold rec b sp d s :
    nth_error (heap s) l = Some (OInst c d) -> lookup_attr k b = Some sp ->
    delattr_ ct rec l b false true s =
    (dv <- lookup_default_value ct rec sp k ;;
     if is_missing dv
     then raw_delattr l b ;;; ret tt ;;; ret VNone
     else (v <- prepare_attr_value ct rec sp l dv None ;; mutate_attr ct rec l b v true true true true)) s.
  Proof.
    intros Hl Hb. unfold delattr_.
    rewrite (bind_ok _ _ _ _ _ (read_inst_at l s c d Hl)). cbn [fst snd].
    rewrite (bind_ok _ _ _ _ _ (cls_of_at ct c s k Hc)).
    rewrite Hfz, andb_false_r. rewrite bind_ret. rewrite Hb. reflexivity.
  Qed.

  Lemma reset_step_refines f0 sp d s :
    nth_error (heap s) l = Some (OInst c d) -> NoDup (map fst d) ->
    aok (absv (heap s) (VRef l)) = true -> fail_at s = None ->
    lookup_attr k (a_name sp) = Some sp -> dep_ok k sp = true ->
    match reset_step ct (exec ct (S (S f0))) l sp s with
    | (Ok _, s') =>
        (exists d', nth_error (heap s') l = Some (OInst c d') /\ NoDup (map fst d')) /\
        aok (absv (heap s') (VRef l)) = true /\ fail_at s' = None /\
        reset_attr ct h0 rec' (absv (heap s) (VRef l)) (a_name sp) false = SOk (absv (heap s') (VRef l)) /\
        (forall i, i <> l -> nth_error (heap s') i = nth_error (heap s) i) /\
        length (heap s') = length (heap s)
    | (Err e, s') =>
        reset_attr ct h0 rec' (absv (heap s) (VRef l)) (a_name sp) false = SErr e /\
        (forall i, i <> l -> nth_error (heap s') i = nth_error (heap s) i) /\
        length (heap s') = length (heap s)
    end.
  Proof.
    intros Hl Hd Hok Hfa Hb Hdep. set (b := a_name sp) in *.
    unfold dep_ok in Hdep. fold b in Hdep.
    apply andb_true_iff in Hdep. destruct Hdep as [Hdep Hdv].
    apply andb_true_iff in Hdep. destruct Hdep as [Hdep Hlit].
    apply andb_true_iff in Hdep. destruct Hdep as [Hdep Hp0].
    apply andb_true_iff in Hdep. destruct Hdep as [Hty Hnc].
    apply Nat.ltb_lt in Hty. apply negb_true_iff in Hnc. apply literal_defaultb_ok in Hlit. fold b in Hlit.
    assert (Hp : match a_prepare sp with Some f => scalar_fn f = true | None => True end)
      by (destruct (a_prepare sp); auto).
    rewrite (absv_recv l c d s Hl).
    set (flds := map (fun p => (fst p, abs 23 (heap s) (snd p))) (sorted_fields d)).
    rewrite reset_step_eq. fold b. rewrite exec_S. cbn [body].
    rewrite (delattr_skip_unfold _ b sp d s Hl Hb).
    unfold reset_attr, cls_for. rewrite Hc. cbn [sbind]. rewrite Hb.
    assert (Hlen : l < length (heap s)) by (apply nth_error_Some; congruence).
    apply orb_true_iff in Hdv. destruct Hdv as [Hdv|Hdv].
    - (* a literal scalar default: the prepared default is stored, nothing further is invalidated *)
      rewrite (bind_ok _ _ _ _ _ (lookup_default_run ct b k sp Hb _ s Hlit (vscalar_nonref _ Hdv))).
      rewrite (default_of_literal h0 b k sp Hb rec' Hlit (vscalar_nonref _ Hdv)). cbn [sbind].
      rewrite (not_amissing_scalar _ Hdv).
      assert (is_missing (class_default k b) = false) as ->
        by (destruct (class_default k b); cbn [vscalar] in Hdv; try discriminate; reflexivity).
      unfold flds.
      rewrite (prepared_store_core_noinv ct h0 b c d k sp s Hb Hnc Hp rec' _ Hdv).
      pose proof (prepare_scalar_run ct l sp Hnc Hp f0 (class_default k b) s Hfa Hdv) as Hpr.
      pose proof (spec_core_err ct b c d sp s (class_default k b)) as Herr.
      unfold spec_core in *. fold flds in Herr |- *.
      destruct (pv_of sp (class_default k b)) as [pv|e| |]; try contradiction.
      + destruct Hpr as [v' [s2 [Hrun [Hh2 [Hf2 [Hv' ->]]]]]]. cbn [sbind] in *.
        assert (Hl2 : nth_error (heap s2) l = Some (OInst c d)) by (now rewrite Hh2).
        assert (Hpass : negb (true || initializing d) && c_frozen k = false) by reflexivity.
        assert (Hrun2 : (v <- prepare_attr_value ct (exec ct (S f0)) sp l (class_default k b) None;;
                         mutate_attr ct (exec ct (S f0)) l b v true true true true) s =
                        if conforms ct (a_ty sp) (abs0 v')
                        then (Ok (VRef l), upd s2 l (OInst c (assoc_set b v' d))) else (Err TypeErr, s2)).
        { rewrite (bind_ok _ _ _ _ _ Hrun).
          rewrite (mutate_attr_inplace_open ct _ l b v' true true true s2 c d k Hl2 Hc Hpass (not_sentinel_scalar v' Hv')).
          rewrite Hb. rewrite check_type_nonref by (auto using vscalar_nonref).
          destruct (conforms ct (a_ty sp) (abs0 v')); reflexivity. }
        rewrite Hrun2.
        destruct (conforms ct (a_ty sp) (abs0 v')).
        *          destruct (guard_after_store l b c d s Hl Hd Hok s2 v' Hh2 Hv') as [Hl' [Hd' [Hok' [Hoth Hlen']]]].
          split; [eauto|]. split; [exact Hok'|]. split; [exact Hf2|]. split.
          { now rewrite (abs_after_store l b c d s Hl Hd Hok s2 v' Hh2 Hv'). }
          split; [exact Hoth|exact Hlen'].
        * cbn [err_eqb]. split; [reflexivity|]. split; [intros i _; now rewrite Hh2|now rewrite Hh2].
      + destruct Hpr as [s2 [Hrun [Hh2 Hf2]]]. cbn [sbind] in *.
        assert (e = TypeErr) as -> by (now apply Herr).
        rewrite (bind_err _ _ _ _ _ Hrun). cbn [err_eqb].
        split; [reflexivity|]. split; [intros i _; now rewrite Hh2|now rewrite Hh2].
    - (* no default: the attribute disappears; nothing to delete is fine *)
      assert (Hdv' : class_default k b = VMissing) by (destruct (class_default k b); try discriminate; reflexivity).
      assert (Hnr : nonref (class_default k b) = true) by (now rewrite Hdv').
      rewrite (bind_ok _ _ _ _ _ (lookup_default_run ct b k sp Hb _ s Hlit Hnr)).
      rewrite (default_of_literal h0 b k sp Hb rec' Hlit Hnr). rewrite Hdv'. cbn [sbind abs0 a_is_missing is_missing].
      unfold fhas. fold flds. unfold flds at 1. rewrite (assoc_flds d s Hd b).
      destruct (assoc b d) as [w|] eqn:Eb; cbn [option_map].
      + rewrite (bind_ok _ _ _ _ _ (raw_delattr_at l b s c d w Hl Eb)). rewrite !bind_ret. unfold ret.
        assert (Hl' : nth_error (heap (upd s l (OInst c (assoc_del b d)))) l = Some (OInst c (assoc_del b d)))
          by (now apply upd_at).
        split; [exists (assoc_del b d); split; [exact Hl'|now apply nodup_assoc_del]|].
        rewrite (abs_after_delete l b c d s Hl Hd Hok s eq_refl). fold flds.
        split.
        { cbn [aok]. pose proof Hok as Hok2. rewrite (absv_recv l c d s Hl) in Hok2. fold flds in Hok2. cbn [aok] in Hok2.
          unfold fdel. apply forallb_forall. intros q Hq. apply filter_In in Hq. destruct Hq as [Hq _].
          rewrite forallb_forall in Hok2. now apply Hok2. }
        split; [exact Hfa|]. split; [reflexivity|]. split.
        * intros i Hi. rewrite heap_upd. apply set_nth_other. intro E. apply Hi. now symmetry.
        * rewrite heap_upd. apply set_nth_length.
      + assert (E : raw_delattr l b s = (Err AttrErr, s)).
        { unfold raw_delattr. rewrite (bind_ok _ _ _ _ _ (read_inst_at l s c d Hl)). cbn [fst snd]. now rewrite Eb. }
        rewrite (bind_err _ _ _ _ _ E). cbn [err_eqb].
        split; [eauto|]. split; [exact Hok|]. split; [exact Hfa|].
        split; [now rewrite (absv_recv l c d s Hl)|]. split; auto.
  Qed.
End DepReset.

(* ------------------------------------------------------------------ *)
(** * Direct dependants: the two closure computations agree *)

Definition dep_of (a : aid) (sp : attr_spec) : bool :=
  existsb (fun y => (y =? a) || (y =? WILDCARD)) (a_inv_by sp).

Lemma dependants_eq k x : dependants k x = map a_name (filter (dep_of x) (c_attrs k)).
Proof. reflexivity. Qed.
Lemma depends_on_eq sp a : depends_on sp a = dep_of a sp.
Proof. reflexivity. Qed.

(* the written attribute's dependants are direct and covered *)
Definition inval_flat (k : cls) (a : aid) : Prop :=
  NoDup (map a_name (c_attrs k)) /\
  ~ In a (dependants k a) /\
  (forall b, In b (dependants k a) -> dependants k b = []) /\
  (forall sp, In sp (c_attrs k) -> dep_of a sp = true -> dep_ok k sp = true).

Lemma filter_all {A} (p : A -> bool) l : (forall x, In x l -> p x = true) -> filter p l = l.
Proof.
  induction l as [|x l IH]; intro H; simpl; auto. rewrite (H x) by (simpl; auto). f_equal. apply IH. intros; apply H; simpl; auto.
Qed.

Lemma inv_closure_leaves k : forall f P seen,
  (forall b, In b P -> dependants k b = []) -> inv_closure f k P seen = seen.
Proof.
  induction f as [|f IH]; intros P seen H; [reflexivity|]. cbn [inv_closure]. destruct P as [|b rest]; [reflexivity|].
  rewrite (H b) by (simpl; auto). cbn [filter]. rewrite !app_nil_r. apply IH. intros; apply H; simpl; auto.
Qed.

Lemma inv_closure_S f k x rest seen :
  inv_closure (S f) k (x :: rest) seen =
  inv_closure f k (rest ++ filter (fun y => negb (existsb (fun z => z =? y) seen)) (dependants k x))
                  (seen ++ filter (fun y => negb (existsb (fun z => z =? y) seen)) (dependants k x)).
Proof. reflexivity. Qed.

Lemma inv_closure_flat k a n : inval_flat k a -> inv_closure (S (S n)) k [a] [a] = a :: dependants k a.
Proof.
  intros [_ [Hna [Hleaf _]]]. rewrite inv_closure_S.
  rewrite (filter_all _ (dependants k a)).
  - cbn [app]. now rewrite (inv_closure_leaves k (S n) (dependants k a) (a :: dependants k a) Hleaf).
  - intros y Hy. cbn [existsb]. rewrite orb_false_r. apply negb_true_iff. apply Nat.eqb_neq. intro; subst; auto.
Qed.

Lemma in_names_false x l : ~ In x l -> in_names x l = false.
Proof.
  intro H. unfold in_names. destruct (existsb (fun n => n =? x) l) eqn:E; auto.
  apply existsb_exists in E. destruct E as [y [Hy E]]. apply Nat.eqb_eq in E. subst. contradiction.
Qed.

Lemma inval_new_flat a : forall rest acc,
  NoDup (map a_name rest) -> (forall x, In x acc -> ~ In x (map a_name rest)) ->
  ~ In a (map a_name (filter (dep_of a) rest)) ->
  fold_left (fun l sp => if depends_on sp a && negb (in_names (a_name sp) ([a] ++ l))
                         then l ++ [a_name sp] else l) rest acc
  = acc ++ map a_name (filter (dep_of a) rest).
Proof.
  induction rest as [|sp t IH]; intros acc Hnd Hacc Hna; cbn [fold_left filter map].
  - now rewrite app_nil_r.
  - inversion Hnd as [|? ? Hsp Ht]; subst. rewrite depends_on_eq.
    destruct (dep_of a sp) eqn:Edep.
    + cbn [filter map] in Hna. rewrite Edep in Hna. cbn [map] in Hna.
      assert (in_names (a_name sp) ([a] ++ acc) = false) as ->.
      { apply in_names_false. cbn [app]. intros [E|E].
        - apply Hna. simpl. auto.
        - apply (Hacc _ E). simpl. auto. }
      cbn [negb andb]. rewrite IH; auto.
      * cbn [map]. now rewrite <- app_assoc.
      * intros x Hx. apply in_app_iff in Hx. destruct Hx as [Hx|[<-|[]]]; [|exact Hsp].
        intro Hin. apply (Hacc x Hx). simpl. auto.
      * intro Hin. apply Hna. simpl. auto.
    + cbn [andb]. apply IH; auto.
      * intros x Hx Hin. apply (Hacc x Hx). simpl. auto.
      * cbn [filter] in Hna. now rewrite Edep in Hna.
Qed.

Lemma fold_left_keep {A B} (g : list B -> A -> list B) (l : list A) acc :
  (forall x l0, In x l -> g l0 x = l0) -> fold_left g l acc = acc.
Proof.
  revert acc. induction l as [|x l IH]; intros acc H; cbn [fold_left]; auto.
  rewrite (H x acc) by (simpl; auto). apply IH. intros; apply H; simpl; auto.
Qed.

Lemma inval_close_leaves k : forall f P seen acc,
  (forall b, In b P -> forall sp, In sp (c_attrs k) -> dep_of b sp = false) ->
  inval_close f k P seen acc = acc.
Proof.
  induction f as [|f IH]; intros P seen acc H; [reflexivity|]. cbn [inval_close]. destruct P as [|b rest]; [reflexivity|].
  rewrite fold_left_keep.
  - rewrite !app_nil_r. apply IH. intros; eapply H; simpl; eauto.
  - intros sp l0 Hsp. rewrite depends_on_eq. rewrite (H b) by (simpl; auto). reflexivity.
Qed.

Lemma no_dependants k b : dependants k b = [] -> forall sp, In sp (c_attrs k) -> dep_of b sp = false.
Proof.
  rewrite dependants_eq. intros H sp Hsp. destruct (dep_of b sp) eqn:E; auto.
  assert (In sp (filter (dep_of b) (c_attrs k))) by (apply filter_In; auto).
  destruct (filter (dep_of b) (c_attrs k)); [contradiction|discriminate].
Qed.

Lemma invalidatees_flat k a : inval_flat k a -> invalidatees k a = dependants k a.
Proof.
  intros [Hnd [Hna [Hleaf _]]]. unfold invalidatees. cbn [inval_close].
  rewrite (inval_new_flat a (c_attrs k) [] Hnd) by (auto; rewrite <- dependants_eq; exact Hna).
  cbn [app]. rewrite <- dependants_eq.
  apply inval_close_leaves. intros b Hb. apply no_dependants. now apply Hleaf.
Qed.

Lemma find_nodup_name (attrs : list attr_spec) sp :
  NoDup (map a_name attrs) -> In sp attrs -> find (fun s => a_name s =? a_name sp) attrs = Some sp.
Proof.
  induction attrs as [|x t IH]; intros Hnd Hin; [contradiction|]. inversion Hnd as [|? ? Hx Ht]; subst.
  cbn [find]. destruct Hin as [->|Hin]; [now rewrite Nat.eqb_refl|].
  destruct (a_name x =? a_name sp) eqn:E; [|auto].
  apply Nat.eqb_eq in E. exfalso. apply Hx. rewrite E. now apply in_map.
Qed.

Lemma iterM_cond_filter {A} (p : A -> bool) (f : A -> M unit) l :
  iterM (fun x => if p x then f x else ret tt) l = iterM f (filter p l).
Proof.
  induction l as [|x l IH]; [reflexivity|]. cbn [iterM filter]. destruct (p x).
  - cbn [iterM]. now rewrite IH.
  - rewrite bind_ret. exact IH.
Qed.

Lemma iterM_ext_in {A} (f g : A -> M unit) l : (forall x, In x l -> f x = g x) -> iterM f l = iterM g l.
Proof.
  induction l as [|x l IH]; intro H; [reflexivity|]. cbn [iterM]. rewrite (H x) by (simpl; auto).
  rewrite IH; auto. intros; apply H; simpl; auto.
Qed.

(* invalidate_attrs resets the direct dependants, in declaration order *)
Lemma invalidate_attrs_flat ct rec l a s c d k :
  nth_error (heap s) l = Some (OInst c d) -> lookup_cls ct c = Some k -> inval_flat k a ->
  invalidate_attrs ct rec l a s = iterM (reset_step ct rec l) (filter (dep_of a) (c_attrs k)) s.
Proof.
  intros Hl Hc Hflat. unfold invalidate_attrs.
  rewrite (bind_ok _ _ _ _ _ (read_inst_at l s c d Hl)). cbn [fst].
  rewrite (bind_ok _ _ _ _ _ (cls_of_at ct c s k Hc)).
  rewrite (inv_closure_flat k a (length (c_attrs k)) Hflat).
  transitivity (iterM (fun x => if dep_of a x then reset_step ct rec l x else ret tt) (c_attrs k) s);
    [|now rewrite iterM_cond_filter].
  apply (f_equal (fun m : M unit => m s)). apply iterM_ext_in. intros sp Hsp.
  destruct Hflat as [Hnd [Hna _]].
  assert (E : existsb (fun z => z =? a_name sp) (a :: dependants k a) && negb (a_name sp =? a) = dep_of a sp).
  { destruct (dep_of a sp) eqn:Edep.
    - assert (Hin : In (a_name sp) (dependants k a)).
      { rewrite dependants_eq. apply in_map. apply filter_In. auto. }
      apply andb_true_iff. split.
      + apply existsb_exists. exists (a_name sp). split; [simpl; auto|apply Nat.eqb_refl].
      + apply negb_true_iff. apply Nat.eqb_neq. intro E. apply Hna. rewrite E in Hin. exact Hin.
    - destruct (a_name sp =? a) eqn:Ea; cbn [negb]; [now rewrite andb_false_r|]. rewrite andb_true_r.
      destruct (existsb (fun z => z =? a_name sp) (a :: dependants k a)) eqn:Ex; auto. exfalso.
      apply existsb_exists in Ex. destruct Ex as [z [Hz Ez]]. apply Nat.eqb_eq in Ez. subst z.
      destruct Hz as [Hz|Hz]; [apply Nat.eqb_neq in Ea; congruence|].
      rewrite dependants_eq in Hz. apply in_map_iff in Hz. destruct Hz as [sp2 [En Hsp2]].
      apply filter_In in Hsp2. destruct Hsp2 as [Hsp2 Hd2].
      assert (sp2 = sp).
      { pose proof (find_nodup_name _ sp2 Hnd Hsp2) as F2. pose proof (find_nodup_name _ sp Hnd Hsp) as F1.
        rewrite En in F2. congruence. }
      subst sp2. congruence. }
  rewrite E. unfold reset_step. reflexivity.
Qed.

(* ------------------------------------------------------------------ *)
(** * The invalidation loop against the specification's fold *)

Section InvalLoop.
  Variable ct : ctable.
  Variable h0 : list obj.
  Variables (l : loc) (c : cid) (k : cls).
  Hypothesis Hc : lookup_cls ct c = Some k.
  Hypothesis Hfz : c_frozen k = false.

  Lemma inval_loop_refines f0 n : forall L d s,
    nth_error (heap s) l = Some (OInst c d) -> NoDup (map fst d) ->
    aok (absv (heap s) (VRef l)) = true -> fail_at s = None ->
    (forall sp, In sp L -> lookup_attr k (a_name sp) = Some sp /\ dep_ok k sp = true) ->
    match iterM (reset_step ct (exec ct (S (S f0))) l) L s with
    | (Ok _, s') =>
        sfold (fun y b => sexec ct h0 (S n) (SResetAttr y b false)) (map a_name L) (absv (heap s) (VRef l))
          = SOk (absv (heap s') (VRef l)) /\
        (forall i, i <> l -> nth_error (heap s') i = nth_error (heap s) i) /\
        length (heap s') = length (heap s)
    | (Err e, s') =>
        sfold (fun y b => sexec ct h0 (S n) (SResetAttr y b false)) (map a_name L) (absv (heap s) (VRef l))
          = SErr e /\
        (forall i, i <> l -> nth_error (heap s') i = nth_error (heap s) i) /\
        length (heap s') = length (heap s)
    end.
  Proof.
    induction L as [|sp L IH]; intros d s Hl Hd Hok Hfa HL.
    - cbn [iterM map sfold]. unfold ret. auto.
    - cbn [iterM map sfold]. rewrite sexec_S. cbn [sbody].
      destruct (HL sp (or_introl eq_refl)) as [Hb Hdep].
      pose proof (reset_step_refines ct h0 (sexec ct h0 n) l c k Hc Hfz f0 sp d s Hl Hd Hok Hfa Hb Hdep) as H.
      destruct (reset_step ct (exec ct (S (S f0))) l sp s) as [[u|e] s1] eqn:E.
      + rewrite (bind_ok _ _ _ _ _ E).
        destruct H as [[d1 [Hl1 Hd1]] [Hok1 [Hfa1 [Hs [Hoth Hlen]]]]]. rewrite Hs. cbn [sbind].
        pose proof (IH d1 s1 Hl1 Hd1 Hok1 Hfa1 (fun sp0 H0 => HL sp0 (or_intror H0))) as IH'.
        destruct (iterM (reset_step ct (exec ct (S (S f0))) l) L s1) as [[u'|e'] s'].
        * destruct IH' as [E1 [E2 E3]]. split; [exact E1|]. split; [|congruence].
          intros i Hi. rewrite E2 by exact Hi. now apply Hoth.
        * destruct IH' as [E1 [E2 E3]]. split; [exact E1|]. split; [|congruence].
          intros i Hi. rewrite E2 by exact Hi. now apply Hoth.
      + rewrite (bind_err _ _ _ _ _ E). destruct H as [Hs [Hoth Hlen]]. rewrite Hs. cbn [sbind]. auto.
  Qed.
End InvalLoop.

(* ------------------------------------------------------------------ *)
(** * with_<a>(v, _inplace=True) / obj.a = v with invalidation of direct dependants *)

Section WithInval.
  Variable ct : ctable.
  Variable h0 : list obj.
  Variables (l : loc) (a : aid) (c : cid) (d : list (aid * val)) (k : cls) (sp : attr_spec).
  Variable s : state.
  Hypothesis Hl : nth_error (heap s) l = Some (OInst c d).
  Hypothesis Hc : lookup_cls ct c = Some k.
  Hypothesis Ha : lookup_attr k a = Some sp.
  Hypothesis Hd : NoDup (map fst d).
  Hypothesis Hok : aok (absv (heap s) (VRef l)) = true.
  Hypothesis Hfz : c_frozen k = false.
  Hypothesis Hflat : inval_flat k a.
  Hypothesis Hfa : fail_at s = None.
  Hypothesis Hty : ty_depth (a_ty sp) < FUEL.
  Hypothesis Hnc : ty_is_collection (a_ty sp) = false.
  Hypothesis Hp : match a_prepare sp with Some f => scalar_fn f = true | None => True end.

  Let flds := map (fun p => (fst p, abs 23 (heap s) (snd p))) (sorted_fields d).
  Let L := filter (dep_of a) (c_attrs k).

  Lemma L_covered : forall sp', In sp' L -> lookup_attr k (a_name sp') = Some sp' /\ dep_ok k sp' = true.
  Proof.
    intros sp' Hin. apply filter_In in Hin. destruct Hin as [Hin Hdep].
    destruct Hflat as [Hnd [_ [_ Hcov]]]. split; [|now apply Hcov].
    unfold lookup_attr. now apply find_nodup_name.
  Qed.

  (* the specification: the prepared value stored, then every direct dependant reset *)
  Lemma spec_with_inval v :
    vscalar v = true ->
    spec_helper ct h0 (absv (heap s) (VRef l)) (SWith a) (mkah [abs0 v] true true AMissing false None None [] None) =
    (pv <~ pv_of sp v ;;
     if conforms ct (a_ty sp) pv
     then sfold (fun y b => sexec ct h0 (S 29) (SResetAttr y b false)) (map a_name L) (AInst c (fset a pv flds))
     else SErr TypeErr).
  Proof.
    intro Hv. rewrite (spec_helper_inplace_unfrozen ct h0 l c d k s Hl Hc Hfz (SWith a)
                         (mkah [abs0 v] true true AMissing false None None [] None) eq_refl). fold flds.
    unfold spec_unfrozen, spec_with, cls_for, apos0. cbn [ah_pos nth ah_kw]. rewrite Hc. cbn [sbind]. rewrite Ha.
    rewrite (prepared_scalar ct h0 sp Hnc Hp _ v Hv).
    pose proof (pv_of_scalar sp Hp v Hv) as Hpv.
    destruct (pv_of sp v) as [pv|e| |]; try contradiction; [|reflexivity].
    destruct Hpv as [v' [-> Hv']]. cbn [sbind]. unfold store. rewrite (not_asentinel_scalar v' Hv').
    destruct (conforms ct (a_ty sp) (abs0 v')); cbn [negb]; [|reflexivity].
    rewrite (a_name_sp a k sp Ha). unfold invalidate, cls_for. rewrite Hc. cbn [sbind].
    rewrite (invalidatees_flat k a Hflat), dependants_eq. fold L. rewrite SFUEL_S. reflexivity.
  Qed.

  Theorem with_gen_scalar_inval_refines f0 v :
    vscalar v = true ->
    let ah := mkah [abs0 v] true true AMissing false None None [] None in
    match with_inplace_gen ct (exec ct (S (S f0))) l a v s with
    | (Ok r, s') => r = VRef l /\
                    spec_helper ct h0 (absv (heap s) (VRef l)) (SWith a) ah = SOk (absv (heap s') (VRef l)) /\
                    (forall i, i <> l -> nth_error (heap s') i = nth_error (heap s) i)
    | (Err e, s') => spec_helper ct h0 (absv (heap s) (VRef l)) (SWith a) ah = SErr e /\
                     (forall i, i <> l -> nth_error (heap s') i = nth_error (heap s) i)
    end.
  Proof.
    intros Hv ah. unfold ah. rewrite (spec_with_inval v Hv).
    unfold with_inplace_gen.
    rewrite (bind_ok _ _ _ _ _ (spec_for_run ct l a c d k sp s Hl Hc Ha s eq_refl)). cbn [snd].
    rewrite (a_name_sp a k sp Ha).
    pose proof (prepare_scalar_run ct l sp Hnc Hp (S f0) v s Hfa Hv) as Hpr.
    destruct (pv_of sp v) as [pv|e| |]; try contradiction.
    - destruct Hpr as [v' [s2 [Hrun [Hh2 [Hf2 [Hv' ->]]]]]]. cbn [sbind].
      rewrite (bind_ok _ _ _ _ _ Hrun).
      assert (Hl2 : nth_error (heap s2) l = Some (OInst c d)) by (now rewrite Hh2).
      assert (Hpass : negb (false || initializing d) && c_frozen k = false) by (rewrite Hfz; apply andb_false_r).
      rewrite (mutate_attr_inplace_open ct _ l a v' true false false s2 c d k Hl2 Hc Hpass (not_sentinel_scalar v' Hv')).
      rewrite Ha. rewrite check_type_nonref by (auto using vscalar_nonref).
      destruct (conforms ct (a_ty sp) (abs0 v')).
      + destruct (guard_after_store l a c d s Hl Hd Hok s2 v' Hh2 Hv') as [Hl' [Hd' [Hok' [Hoth Hlen']]]].
        set (s1 := upd s2 l (OInst c (assoc_set a v' d))) in *.
        unfold bind. cbv beta iota.
        rewrite (invalidate_attrs_flat ct _ l a s1 c _ k Hl' Hc Hflat). fold L.
        pose proof (inval_loop_refines ct h0 l c k Hc Hfz f0 29 L _ s1 Hl' Hd' Hok'
                      (eq_trans (fail_at_upd s2 l _) Hf2) L_covered) as H.
        assert (Habs1 : absv (heap s1) (VRef l) = AInst c (fset a (abs0 v') flds))
          by (exact (abs_after_store l a c d s Hl Hd Hok s2 v' Hh2 Hv')).
        rewrite Habs1 in H.
        destruct (iterM (reset_step ct (exec ct (S (S f0))) l) L s1) as [[u|e] s'].
        * destruct H as [E1 [E2 _]]. unfold ret. split; [reflexivity|]. split; [exact E1|].
          intros i Hi. rewrite E2 by exact Hi. now apply Hoth.
        * destruct H as [E1 [E2 _]]. split; [exact E1|].
          intros i Hi. rewrite E2 by exact Hi. now apply Hoth.
      + split; [reflexivity|]. intros i _. now rewrite Hh2.
    - destruct Hpr as [s2 [Hrun [Hh2 Hf2]]]. cbn [sbind].
      rewrite (bind_err _ _ _ _ _ Hrun). split; [reflexivity|]. intros i _. now rewrite Hh2.
  Qed.

  Corollary with_scalar_inplace_inval_refines v :
    vscalar v = true ->
    let h := mkh [v] true true VMissing false None None [] None in
    let ah := mkah [abs0 v] true true AMissing false None None [] None in
    match run_helper ct l (HWith a) h s with
    | (Ok r, s') => r = VRef l /\
                    spec_helper ct h0 (absv (heap s) (VRef l)) (SWith a) ah = SOk (absv (heap s') (VRef l)) /\
                    (forall i, i <> l -> nth_error (heap s') i = nth_error (heap s) i)
    | (Err e, s') => spec_helper ct h0 (absv (heap s) (VRef l)) (SWith a) ah = SErr e /\
                     (forall i, i <> l -> nth_error (heap s') i = nth_error (heap s) i)
    end.
  Proof.
    intros Hv h ah. unfold h. rewrite run_helper_with_inplace, XFUEL_S.
    exact (with_gen_scalar_inval_refines 38 v Hv).
  Qed.

  Corollary setattr_scalar_inval_refines roots x v :
    nth x roots VNone = VRef l -> vscalar v = true ->
    let ah := mkah [abs0 v] true true AMissing false None None [] None in
    match step ct roots (OpSetAttr x a v) s with
    | (Ok r, s') => spec_helper ct h0 (absv (heap s) (VRef l)) (SSetAttrOp a) ah = SOk (absv (heap s') (VRef l)) /\
                    (forall i, i <> l -> nth_error (heap s') i = nth_error (heap s) i)
    | (Err e, s') => spec_helper ct h0 (absv (heap s) (VRef l)) (SSetAttrOp a) ah = SErr e /\
                     (forall i, i <> l -> nth_error (heap s') i = nth_error (heap s) i)
    end.
  Proof.
    intros Hx Hv ah. rewrite (step_setattr ct roots x a v l s Hx).
    assert (Hman : forall c0 d0 k0, nth_error (heap s) l = Some (OInst c0 d0) -> lookup_cls ct c0 = Some k0 ->
                                    lookup_attr k0 a <> None).
    { intros c0 d0 k0 E1 E2. rewrite Hl in E1. inversion E1; subst. rewrite Hc in E2. inversion E2; subst.
      rewrite Ha. discriminate. }
    unfold bind. rewrite (setattr_is_with_inplace ct (exec ct 39) l a v s Hman).
    pose proof (with_gen_scalar_inval_refines 37 v Hv) as H. cbv zeta in H.
    assert (Hsame : spec_helper ct h0 (absv (heap s) (VRef l)) (SSetAttrOp a) ah =
                    spec_helper ct h0 (absv (heap s) (VRef l)) (SWith a) ah).
    { rewrite !(spec_helper_inplace_unfrozen ct h0 l c d k s Hl Hc Hfz _ ah eq_refl). reflexivity. }
    rewrite Hsame.
    destruct (with_inplace_gen ct (exec ct 39) l a v s) as [[r|e] s']; [destruct H as [_ H]|]; exact H.
  Qed.
End WithInval.
