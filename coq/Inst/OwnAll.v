(* C03, ownership: computable guards and the combined statement over all the
   operations reached (in place and copy-on-write). *)
From Coq Require Import List ZArith Bool Arith Lia.
From SC Require Import Base.Res Base.PyList Inst.Heap Inst.ClassTable Inst.Model Inst.Framed
  Inst.TypeProofs Inst.OwnProofs Inst.OwnProofs2 Inst.OwnProofs3 Inst.OwnColl Inst.OwnCopy Inst.OwnCow
  Inst.OwnInit Inst.OwnMore Inst.OwnInval.
Import ListNotations.
Open Scope nat_scope.
Set Warnings "-unused-intro-pattern".
#[local] Opaque FUEL.

Definition flat_class_b (k : cls) : bool :=
  negb (c_dnc k) && oqfn_b (c_post_copy k) &&
  forallb (fun sp => negb (a_dnc sp) && (scalar_ty (a_ty sp) || scalar_coll (a_ty sp))) (c_attrs k).

Lemma flat_class_b_sound k : flat_class_b k = true -> flat_class k.
Proof.
  unfold flat_class_b, flat_class. rewrite !andb_true_iff. intros [[H1 H2] H3].
  split; [now apply negb_true_iff|]. split; [now apply oqfn_b_sound|].
  intros sp Hsp. rewrite forallb_forall in H3. specialize (H3 _ Hsp).
  apply andb_true_iff in H3. destruct H3 as [H3 H4]. split; [now apply negb_true_iff|].
  now apply orb_true_iff.
Qed.

Definition keys_managed_b (k : cls) (d : list (nat * val)) : bool :=
  forallb (fun p => match snd p with
                    | VRef _ => match lookup_attr k (fst p) with Some _ => true | None => false end
                    | _ => true end) d.

Lemma keys_managed_b_sound k d : keys_managed_b k d = true -> keys_managed k d.
Proof.
  unfold keys_managed_b, keys_managed. rewrite forallb_forall. intros H a v Hi.
  specialize (H _ Hi). simpl in H. destruct v; try (left; intros c E; discriminate).
  right. destruct (lookup_attr k a); congruence.
Qed.

Definition leaf_attr_b (sp : attr_spec) : bool :=
  leaf_coll_b sp || (scalar_ty (a_ty sp) && oqfn_b (a_prepare sp)).

Lemma leaf_attr_b_sound sp : leaf_attr_b sp = true -> leaf_attr sp.
Proof.
  unfold leaf_attr_b. intro H. apply orb_true_iff in H. destruct H as [H|H].
  - left. now apply leaf_coll_b_sound.
  - right. apply andb_true_iff in H. destruct H as [H1 H2]. split; auto. now apply oqfn_b_sound.
Qed.

Definition no_reserved_b (ct : ctable) : bool :=
  forallb (fun k => is_none (lookup_attr k A_INITIALIZING)) ct.

Lemma no_reserved_b_sound ct : no_reserved_b ct = true -> no_reserved_names ct.
Proof.
  unfold no_reserved_b, no_reserved_names. rewrite forallb_forall. intros H c k Hk.
  assert (Hin : In k ct) by (unfold lookup_cls in Hk; apply find_some in Hk; tauto).
  specialize (H _ Hin). destruct (lookup_attr k A_INITIALIZING); auto; discriminate.
Qed.

Definition recv_leafa_b (ct : ctable) (h : heap_t) (recv : val) (a : aid) : bool :=
  match recv with
  | VRef l =>
      match nth_error h l with
      | Some (OInst cl d) =>
          match lookup_cls ct cl with
          | Some k => match lookup_attr k a with Some sp => leaf_attr_b sp | None => true end
          | None => true end
      | _ => true end
  | _ => true
  end.

Lemma recv_leafa_b_sound ct h recv a :
  recv_leafa_b ct h recv a = true -> forall l, recv = VRef l -> recv_leafa ct l a h.
Proof.
  intros H l -> cl d k sp N Hk Ha. simpl in H. rewrite N, Hk, Ha in H. now apply leaf_attr_b_sound.
Qed.

(* the receiver of a copy-on-write helper: an instance of a flat class whose dict has only
   managed keys (or non-reference values); attribute a is a leaf attribute (a leaf
   collection attribute that holds a collection or has no class-level default, for the
   element helpers) *)
Definition recv_flat_b (ct : ctable) (h : heap_t) (recv : val) (a : aid) (coll : bool) : bool :=
  match recv with
  | VRef l =>
      match nth_error h l with
      | Some (OInst cl d) =>
          match lookup_cls ct cl with
          | Some k =>
              flat_class_b k && keys_managed_b k d &&
              (match lookup_attr k a with
               | Some sp => if coll then leaf_coll_b sp else leaf_attr_b sp
               | None => true end) &&
              (if coll then match assoc a d with None => is_missing (class_default k a) | Some _ => true end
               else true)
          | None => false end
      | _ => false end
  | _ => false
  end.

Lemma recv_flat_b_sound ct h l a coll :
  recv_flat_b ct h (VRef l) a coll = true ->
  exists cl d k, flat_recv ct l h cl d k /\
    (forall sp, lookup_attr k a = Some sp ->
       if coll then exists fam, leaf_coll sp fam else leaf_attr sp) /\
    (coll = true -> assoc a d = None -> class_default k a = VMissing).
Proof.
  simpl. destruct (nth_error h l) as [[| | |cl d]|] eqn:N; try discriminate.
  destruct (lookup_cls ct cl) as [k|] eqn:Hk; [|discriminate].
  rewrite !andb_true_iff. intros [[[H1 H2] H3] H4].
  exists cl, d, k. split; [split; auto; split; auto; split; [now apply flat_class_b_sound|now apply keys_managed_b_sound]|].
  split.
  - intros sp Ha. rewrite Ha in H3. destruct coll; [now apply leaf_coll_b_sound|now apply leaf_attr_b_sound].
  - intros -> As. rewrite As in H4. destruct (class_default k a); simpl in H4; try discriminate. reflexivity.
Qed.

Definition deepcopy_ok_b (ct : ctable) (h : heap_t) (v : val) : bool :=
  match v with
  | VRef l =>
      match nth_error h l with
      | Some (OInst cl d) =>
          match lookup_cls ct cl with
          | Some k => flat_class_b k && keys_managed_b k d
          | None => false end
      | Some o => norefs_b o
      | None => false end
  | _ => true
  end.

(* Operations covered (leaf attribute: annotation scalar or List/Set/Dict of scalars, no
   preparer; flat receiver: see recv_flat_b):
   - obj.a = v, obj.with_<a>(v, _inplace=True): leaf or unmanaged attribute, fresh argument;
   - obj.with_<a>(v): copy-on-write, flat receiver, fresh argument;
   - obj.with_<item>(...), obj.without_<item>(...): in place and copy-on-write, any arguments;
   - copy.deepcopy(obj): flat instance, container of non-references, non-reference;
   - the caller building a container of scalars. *)
Definition owned_opa_b (ct : ctable) (h : heap_t) (roots : list val) (o : op) : bool :=
  match o with
  | OpSetAttr x a v => loose_b h v && recv_leafa_b ct h (nth x roots VNone) a
  | OpHelper x (HWith a) hh =>
      is_none (h_kw hh) && loose_b h (pos0 hh) &&
      (if h_inplace hh then recv_leafa_b ct h (nth x roots VNone) a
       else recv_flat_b ct h (nth x roots VNone) a false)
  | OpHelper x (HWithItem a) hh =>
      is_none (h_kw hh) &&
      (if h_inplace hh
       then recv_leafc_b ct h (nth x roots VNone) a && dflt_missing_b ct h (nth x roots VNone) a
       else recv_flat_b ct h (nth x roots VNone) a true)
  | OpHelper x (HWithoutItem a) hh =>
      if h_inplace hh
      then recv_leafc_b ct h (nth x roots VNone) a && dflt_missing_b ct h (nth x roots VNone) a
      else recv_flat_b ct h (nth x roots VNone) a true
  | OpDeepCopy x => deepcopy_ok_b ct h (nth x roots VNone)
  | OpAlloc ob => (shape ob <? 3) && norefs_b ob
  | _ => false
  end.

Theorem step_preserves_owned_all ct roots o s :
  flat_table ct -> no_inval_b ct = true -> no_reserved_b ct = true ->
  owned_opa_b ct (heap s) roots o = true ->
  TypeInv ct s -> Owned ct (heap s) ->
  TypeInv ct (snd (step ct roots o s)) /\ Owned ct (heap (snd (step ct roots o s))).
Proof.
  intros Hf Hn Hr Hop T O. apply no_inval_b_sound in Hn. apply no_inval_spec in Hn. apply no_reserved_b_sound in Hr.
  assert (I : Inv ct (heap s)) by (split; auto).
  change (Inv ct (heap (snd (step ct roots o s)))).
  destruct o as [| x a v | | x hp hh | x | ob]; simpl in Hop; try discriminate.
  - apply andb_true_iff in Hop. destruct Hop as [H1 H2].
    apply step_setattr_any; auto; [now apply loose_b_iff|now apply recv_leafa_b_sound].
  - destruct hp; try discriminate.
    + (* with_<a> *)
      rewrite !andb_true_iff in Hop. destruct Hop as [[H1 H2] H3].
      assert (Hkw : h_kw hh = None) by (destruct (h_kw hh); auto; discriminate).
      apply loose_b_iff in H2.
      destruct (h_inplace hh) eqn:Hin.
      * apply step_with_inplace_any; auto. now apply recv_leafa_b_sound.
      * unfold step. destruct (nth x roots VNone) as [| | | | | | | |l] eqn:Er; try exact I.
        cbn [loc_of]. rewrite bind_ret_l.
        destruct (recv_flat_b_sound ct (heap s) l a false H3) as (cl & d & k & FR & Hla & _).
        eapply with_cow; eauto.
    + (* with_<item> *)
      rewrite !andb_true_iff in Hop. destruct Hop as [H1 H3].
      assert (Hkw : h_kw hh = None) by (destruct (h_kw hh); auto; discriminate).
      destruct (h_inplace hh) eqn:Hin.
      * apply andb_true_iff in H3. destruct H3 as [H3 H4].
        apply step_with_item_inplace_coll; auto.
        intros l El. split; [eapply recv_leafc_b_sound; eauto|].
        exact (dflt_missing_b_sound ct (heap s) _ a H4 l El).
      * unfold step. destruct (nth x roots VNone) as [| | | | | | | |l] eqn:Er; try exact I.
        cbn [loc_of]. rewrite bind_ret_l.
        destruct (recv_flat_b_sound ct (heap s) l a true H3) as (cl & d & k & FR & Hla & D).
        eapply with_item_cow; eauto.
    + (* without_<item> *)
      destruct (h_inplace hh) eqn:Hin.
      * apply andb_true_iff in Hop. destruct Hop as [H3 H4].
        apply step_without_item_inplace_coll; auto.
        intros l El. split; [eapply recv_leafc_b_sound; eauto|].
        exact (dflt_missing_b_sound ct (heap s) _ a H4 l El).
      * unfold step. destruct (nth x roots VNone) as [| | | | | | | |l] eqn:Er; try exact I.
        cbn [loc_of]. rewrite bind_ret_l.
        destruct (recv_flat_b_sound ct (heap s) l a true Hop) as (cl & d & k & FR & Hla & D).
        eapply without_item_cow; eauto.
  - (* deepcopy *)
    unfold step. apply deepcopy_flat; auto.
    destruct (nth x roots VNone) as [| | | | | | | |l]; auto. simpl in Hop.
    destruct (nth_error (heap s) l) as [o|] eqn:N; [|discriminate].
    destruct o as [xs|kvs|xs|cl d].
    + right. exists (OList xs). split; auto. split; [now apply norefs_b_sound|simpl; lia].
    + right. exists (ODict kvs). split; auto. split; [now apply norefs_b_sound|simpl; lia].
    + right. exists (OSet xs). split; auto. split; [now apply norefs_b_sound|simpl; lia].
    + left. destruct (lookup_cls ct cl) as [k|] eqn:Hk; [|discriminate].
      apply andb_true_iff in Hop. destruct Hop as [H1 H2]. exists cl, d, k.
      apply FI_of_Inv; auto; [now apply flat_class_b_sound|now apply keys_managed_b_sound].
  - apply andb_true_iff in Hop. destruct Hop as [H1 H2]. simpl.
    apply Inv_alloc; auto; [now apply Nat.ltb_lt|now apply norefs_b_sound].
Qed.


(* ------------------------------------------------------------------ *)
(** * Constructor, del, reset_<a>: guards and the final combined statement *)
Definition nonref_b (v : val) : bool := match v with VRef _ => false | _ => true end.
Lemma nonref_b_sound v : nonref_b v = true -> nonref v.
Proof. destruct v; simpl; try discriminate; intros _ c E; discriminate. Qed.

Definition fac_flat_b (f : fac) : bool :=
  match f with
  | FacList xs | FacSet xs => forallb nonref_b xs
  | FacDict kvs => forallb (fun p => nonref_b (fst p) && nonref_b (snd p)) kvs
  | FacInst _ => false
  end.
Lemma fac_flat_b_sound f : fac_flat_b f = true -> fac_flat f.
Proof.
  destruct f; simpl; try discriminate; rewrite forallb_forall; intros H x Hx.
  - apply nonref_b_sound. auto.
  - specialize (H _ Hx). apply andb_true_iff in H. destruct H. split; now apply nonref_b_sound.
  - apply nonref_b_sound. auto.
Qed.

Definition default_ok_b (k : cls) (sp : attr_spec) : bool :=
  match assoc (a_name sp) (c_overrides k) with
  | Some v => nonref_b v
  | None => nonref_b (a_default sp) && match a_factory sp with Some f => fac_flat_b f | None => true end
  end.
Lemma default_ok_b_sound k sp : default_ok_b k sp = true -> default_ok k sp.
Proof.
  unfold default_ok_b, default_ok. destruct (assoc (a_name sp) (c_overrides k)); [apply nonref_b_sound|].
  rewrite andb_true_iff. intros [H2 H3]. split; [now apply nonref_b_sound|].
  destruct (a_factory sp); auto. now apply fac_flat_b_sound.
Qed.

Definition ctor_class_b (ct : ctable) (c : cid) : bool :=
  match lookup_cls ct c with
  | Some k =>
      flat_class_b k &&
      (match lookup_cls ct (c_owner k) with
       | Some ko => match tl (c_mro ko) with [] => true | _ => false end
       | None => false end) &&
      oqfn_b (c_post_init k) && forallb (fun sp => leaf_attr_b sp && default_ok_b k sp) (c_attrs k)
  | None => false
  end.
Lemma ctor_class_b_sound ct c : ctor_class_b ct c = true -> exists k, ctor_class ct c k.
Proof.
  unfold ctor_class_b, ctor_class. destruct (lookup_cls ct c) as [k|]; [|discriminate].
  rewrite !andb_true_iff. intros [[[H1 H3] H4] H5]. exists k.
  split; auto. split; [now apply flat_class_b_sound|].
  split; [destruct (lookup_cls ct (c_owner k)) as [ko|]; [|discriminate]; exists ko; split; auto;
          destruct (tl (c_mro ko)); auto; discriminate|].
  split; [now apply oqfn_b_sound|].
  intros sp Hsp. rewrite forallb_forall in H5. specialize (H5 _ Hsp). apply andb_true_iff in H5.
  destruct H5. split; [now apply leaf_attr_b_sound|now apply default_ok_b_sound].
Qed.

Definition flat_val_b (h : heap_t) (v : val) : bool :=
  match v with
  | VRef lx => match nth_error h lx with Some o => (shape o <? 3) && norefs_b o | None => false end
  | _ => true
  end.
Lemma flat_val_b_sound h v : flat_val_b h v = true -> flat_val h v.
Proof.
  destruct v; simpl; auto. destruct (nth_error h l) as [o|] eqn:N; [|discriminate].
  rewrite andb_true_iff, Nat.ltb_lt. intros [H1 H2]. exists o. split; auto. split; auto. now apply norefs_b_sound.
Qed.

Definition kw_flat_b (h : heap_t) (kw : list (aid * val)) : bool := forallb (fun p => flat_val_b h (snd p)) kw.
Lemma kw_flat_b_sound h kw : kw_flat_b h kw = true -> kw_flat kw h.
Proof.
  unfold kw_flat_b, kw_flat. rewrite forallb_forall. intros H a v Hi. apply flat_val_b_sound. exact (H _ Hi).
Qed.

Definition del_ok_b (ct : ctable) (h : heap_t) (recv : val) (a : aid) : bool :=
  match recv with
  | VRef l =>
      match nth_error h l with
      | Some (OInst cl d) =>
          match lookup_cls ct cl with
          | Some k => match lookup_attr k a with
                      | Some sp => leaf_attr_b sp && default_ok_b k sp
                      | None => true end
          | None => false end
      | _ => false end
  | _ => true
  end.
Lemma del_ok_b_sound ct h recv a :
  del_ok_b ct h recv a = true ->
  forall l, recv = VRef l -> exists cl k, is_inst l cl h /\ lookup_cls ct cl = Some k /\
    forall sp, lookup_attr k a = Some sp -> leaf_attr sp /\ default_ok k sp.
Proof.
  intros H l ->. simpl in H. destruct (nth_error h l) as [[| | |cl d]|] eqn:N; try discriminate.
  destruct (lookup_cls ct cl) as [k|] eqn:Hk; [|discriminate].
  exists cl, k. split; [exists d; auto|]. split; auto. intros sp Ha. rewrite Ha in H.
  apply andb_true_iff in H. destruct H. split; [now apply leaf_attr_b_sound|now apply default_ok_b_sound].
Qed.

(* Operations covered: those of owned_opa_b, and
   - C(k1=v1, ...): a flat class with its own metadata, no spec parent, no __post_init__, leaf
     attributes with scalar / factory-of-scalars defaults; keyword values flat (they are copied,
     so they need not be fresh); no positional argument;
   - del obj.a and obj.reset_<a>(_inplace=True): leaf attribute with such a default. *)
Definition owned_opf_b (ct : ctable) (h : heap_t) (roots : list val) (o : op) : bool :=
  owned_opa_b ct h roots o ||
  match o with
  | OpConstruct c pos kw =>
      ctor_class_b ct c && kw_flat_b h kw && match pos with Some v => flat_val_b h v | None => true end
  | OpDelAttr x a => del_ok_b ct h (nth x roots VNone) a
  | OpHelper x (HReset a) hh => h_inplace hh && del_ok_b ct h (nth x roots VNone) a
  | _ => false
  end.

Theorem step_preserves_owned_final ct roots o s :
  flat_table ct -> no_inval_b ct = true -> no_reserved_b ct = true ->
  owned_opf_b ct (heap s) roots o = true ->
  TypeInv ct s -> Owned ct (heap s) ->
  TypeInv ct (snd (step ct roots o s)) /\ Owned ct (heap (snd (step ct roots o s))).
Proof.
  intros Hf Hn Hr Hop T O. unfold owned_opf_b in Hop. apply orb_true_iff in Hop.
  destruct Hop as [Hop|Hop]; [now apply step_preserves_owned_all|].
  pose proof (no_inval_spec ct (no_inval_b_sound ct Hn)) as Hn'. pose proof (no_reserved_b_sound ct Hr) as Hr'.
  assert (I : Inv ct (heap s)) by (split; auto).
  change (Inv ct (heap (snd (step ct roots o s)))).
  destruct o as [c pos kw| | x a | x hp hh | |]; try discriminate.
  - rewrite !andb_true_iff in Hop. destruct Hop as [[H1 H2] H3].
    destruct (ctor_class_b_sound ct c H1) as [k Hc].
    eapply step_construct; eauto; [now apply kw_flat_b_sound|].
    destruct pos; auto. now apply flat_val_b_sound.
  - apply step_delattr; auto. now apply del_ok_b_sound.
  - destruct hp; try discriminate. apply andb_true_iff in Hop. destruct Hop as [H1 H2].
    apply step_reset_inplace; auto. now apply del_ok_b_sound.
Qed.


(* ------------------------------------------------------------------ *)
(** * update_<item>, transform_<item>, update_<a>, transform_<a> *)
Definition dflt_nonref_b (ct : ctable) (h : heap_t) (recv : val) (a : aid) : bool :=
  match recv with
  | VRef l =>
      match nth_error h l with
      | Some (OInst cl d) =>
          match lookup_cls ct cl with
          | Some k => match assoc a d with None => nonref_b (class_default k a) | Some _ => true end
          | None => true end
      | _ => true end
  | _ => true
  end.

Definition is_nil {A} (l : list A) : bool := match l with [] => true | _ => false end.

(* reset(): a flat receiver all of whose attributes are leaf attributes with a scalar /
   factory-of-scalars default *)
Definition reset_ok_b (ct : ctable) (h : heap_t) (recv : val) : bool :=
  match recv with
  | VRef l =>
      match nth_error h l with
      | Some (OInst cl d) =>
          match lookup_cls ct cl with
          | Some k => flat_class_b k && keys_managed_b k d &&
                      forallb (fun sp => leaf_attr_b sp && default_ok_b k sp) (c_attrs k)
          | None => false end
      | _ => false end
  | _ => false
  end.

(* Operations covered: those of owned_opf_b, and (f a quiet function: qfn)
   - update_<item>(old, new): in place and copy-on-write, any arguments;
   - transform_<item>(x, f): in place and copy-on-write;
   - update_<a>(v), v a real value nobody references: in place and copy-on-write;
   - transform_<a>(f): copy-on-write. *)
Definition owned_opg_b (ct : ctable) (h : heap_t) (roots : list val) (o : op) : bool :=
  owned_opf_b ct h roots o ||
  match o with
  | OpHelper x (HUpdateItem a) hh =>
      is_none (h_kw hh) &&
      (if h_inplace hh
       then recv_leafc_b ct h (nth x roots VNone) a && dflt_missing_b ct h (nth x roots VNone) a
       else recv_flat_b ct h (nth x roots VNone) a true)
  | OpHelper x (HTransformItem a) hh =>
      is_nil (h_kwfn hh) && oqfn_b (h_fn hh) &&
      (if h_inplace hh
       then recv_leafc_b ct h (nth x roots VNone) a && dflt_missing_b ct h (nth x roots VNone) a
       else recv_flat_b ct h (nth x roots VNone) a true)
  | OpHelper x (HUpdate a) hh =>
      is_none (h_kw hh) && negb (is_sentinel (pos0 hh)) && loose_b h (pos0 hh) &&
      (if h_inplace hh then recv_leafa_b ct h (nth x roots VNone) a
       else recv_flat_b ct h (nth x roots VNone) a false)
  | OpHelper x (HTransform a) hh =>
      negb (h_inplace hh) && is_nil (h_kwfn hh) && oqfn_b (h_fn hh) &&
      recv_flat_b ct h (nth x roots VNone) a false && dflt_nonref_b ct h (nth x roots VNone) a
  | OpHelper x (HReset a) hh =>
      negb (h_inplace hh) && recv_flat_b ct h (nth x roots VNone) a false && del_ok_b ct h (nth x roots VNone) a
  | OpHelper x HResetTop hh => reset_ok_b ct h (nth x roots VNone)
  | _ => false
  end.

Theorem step_preserves_owned_g ct roots o s :
  flat_table ct -> no_inval_b ct = true -> no_reserved_b ct = true ->
  owned_opg_b ct (heap s) roots o = true ->
  TypeInv ct s -> Owned ct (heap s) ->
  TypeInv ct (snd (step ct roots o s)) /\ Owned ct (heap (snd (step ct roots o s))).
Proof.
  intros Hf Hn Hr Hop T O. unfold owned_opg_b in Hop. apply orb_true_iff in Hop.
  destruct Hop as [Hop|Hop]; [now apply step_preserves_owned_final|].
  pose proof (no_inval_spec ct (no_inval_b_sound ct Hn)) as Hn'. pose proof (no_reserved_b_sound ct Hr) as Hr'.
  assert (I : Inv ct (heap s)) by (split; auto).
  change (Inv ct (heap (snd (step ct roots o s)))).
  destruct o as [| | | x hp hh | |]; try discriminate.
  unfold step. destruct (nth x roots VNone) as [| | | | | | | |l] eqn:Er;
    try (destruct hp; exact I).
  cbn [loc_of]. rewrite bind_ret_l.
  destruct hp; try discriminate.
  - (* update_<a> *)
    rewrite !andb_true_iff in Hop. destruct Hop as [[[H1 H2] H3] H4].
    assert (Hkw : h_kw hh = None) by (destruct (h_kw hh); auto; discriminate).
    apply negb_true_iff in H2. apply loose_b_iff in H3.
    destruct (h_inplace hh) eqn:Hin.
    + apply update_inplace; auto. eapply recv_leafa_b_sound; eauto.
    + destruct (recv_flat_b_sound ct (heap s) l a false H4) as (cl & d & k & FR & Hla & _).
      eapply update_cow; eauto.
  - (* transform_<a> *)
    rewrite !andb_true_iff in Hop. destruct Hop as [[[[H1 H2] H3] H4] H5].
    apply negb_true_iff in H1.
    assert (Hkf : h_kwfn hh = []) by (destruct (h_kwfn hh); auto; discriminate).
    destruct (recv_flat_b_sound ct (heap s) l a false H4) as (cl & d & k & FR & Hla & _).
    eapply transform_cow; eauto; [now apply oqfn_b_sound|].
    intros As. destruct FR as (N & Hk & _). simpl in H5. rewrite N, Hk, As in H5. now apply nonref_b_sound.
  - (* reset_<a> copy-on-write *)
    rewrite !andb_true_iff in Hop. destruct Hop as [[H1 H2] H3]. apply negb_true_iff in H1.
    destruct (recv_flat_b_sound ct (heap s) l a false H2) as (cl & d & k & FR & _ & _).
    destruct (del_ok_b_sound ct (heap s) (VRef l) a H3 l eq_refl) as (cl' & k' & [d' N'] & Hk' & Hla).
    destruct FR as (N & Hk & Fc & Km). rewrite N in N'. inversion N'; subst cl' d'.
    rewrite Hk in Hk'. inversion Hk'; subst k'.
    apply (reset_cow ct Hf Hn' Hr' l a hh s cl d k); auto. split; auto.
  - (* update_<item> *)
    rewrite !andb_true_iff in Hop. destruct Hop as [H1 H3].
    assert (Hkw : h_kw hh = None) by (destruct (h_kw hh); auto; discriminate).
    destruct (h_inplace hh) eqn:Hin.
    + apply andb_true_iff in H3. destruct H3 as [H3 H4].
      apply update_item_inplace; auto; [eapply recv_leafc_b_sound; eauto|].
      exact (dflt_missing_b_sound ct (heap s) _ a H4 l eq_refl).
    + destruct (recv_flat_b_sound ct (heap s) l a true H3) as (cl & d & k & FR & Hla & D).
      eapply update_item_cow; eauto.
  - (* transform_<item> *)
    rewrite !andb_true_iff in Hop. destruct Hop as [[H1 H2] H3].
    assert (Hkf : h_kwfn hh = []) by (destruct (h_kwfn hh); auto; discriminate).
    apply oqfn_b_sound in H2.
    destruct (h_inplace hh) eqn:Hin.
    + apply andb_true_iff in H3. destruct H3 as [H3 H4].
      apply transform_item_inplace; auto; [eapply recv_leafc_b_sound; eauto|].
      exact (dflt_missing_b_sound ct (heap s) _ a H4 l eq_refl).
    + destruct (recv_flat_b_sound ct (heap s) l a true H3) as (cl & d & k & FR & Hla & D).
      eapply transform_item_cow; eauto.
  - (* reset() *)
    simpl in Hop. destruct (nth_error (heap s) l) as [[| | |cl d]|] eqn:N; try discriminate.
    destruct (lookup_cls ct cl) as [k|] eqn:Hk; [|discriminate].
    rewrite !andb_true_iff in Hop. destruct Hop as [[H1 H2] H3].
    eapply (reset_all ct Hf Hn' Hr' l hh s cl d k); auto.
    + split; auto. split; auto. split; [now apply flat_class_b_sound|now apply keys_managed_b_sound].
    + intros a sp Ha. rewrite forallb_forall in H3.
      assert (Hin : In sp (c_attrs k)) by (eapply lookup_attr_in; eauto).
      specialize (H3 _ Hin). apply andb_true_iff in H3. destruct H3.
      split; [now apply leaf_attr_b_sound|now apply default_ok_b_sound].
Qed.


(* ------------------------------------------------------------------ *)
(** * invalidated_by *)
(* every class either declares no invalidated_by, or has only leaf attributes with a scalar /
   factory-of-scalars default *)
Definition inval_ok_b (ct : ctable) : bool :=
  forallb (fun k =>
    forallb (fun sp => match a_inv_by sp with [] => true | _ => false end) (c_attrs k) ||
    forallb (fun sp => leaf_attr_b sp && default_ok_b k sp) (c_attrs k)) ct.

Lemma inval_ok_b_sound ct : inval_ok_b ct = true -> inval_ok ct.
Proof.
  unfold inval_ok_b, inval_ok. rewrite forallb_forall. intros H k Hk. specialize (H _ Hk).
  apply orb_true_iff in H. destruct H as [H|H]; rewrite forallb_forall in H.
  - left. intros sp Hsp. specialize (H _ Hsp). destruct (a_inv_by sp); auto; discriminate.
  - right. intros a sp Ha. assert (Hin : In sp (c_attrs k)) by (eapply lookup_attr_in; eauto).
    specialize (H _ Hin). apply andb_true_iff in H. destruct H.
    split; [now apply leaf_attr_b_sound|now apply default_ok_b_sound].
Qed.

Lemma no_inval_ok_b ct : no_inval_b ct = true -> inval_ok_b ct = true.
Proof.
  unfold no_inval_b, inval_ok_b. rewrite !forallb_forall. intros H k Hk. rewrite (H k Hk). reflexivity.
Qed.

(* the final combined statement: tables with invalidated_by included *)
Theorem step_preserves_owned_h ct roots o s :
  flat_table ct -> inval_ok_b ct = true -> no_reserved_b ct = true ->
  owned_opg_b ct (heap s) roots o = true ->
  TypeInv ct s -> Owned ct (heap s) ->
  TypeInv ct (snd (step ct roots o s)) /\ Owned ct (heap (snd (step ct roots o s))).
Proof.
  intros Hf Hn Hr Hop T O.
  pose proof (inval_ok_spec ct Hf (inval_ok_b_sound ct Hn)) as Hn'.
  pose proof (no_reserved_b_sound ct Hr) as Hr'.
  assert (I : Inv ct (heap s)) by (split; auto).
  change (Inv ct (heap (snd (step ct roots o s)))).
  (* the operation lemmas only need inval_spec: replay the three case analyses *)
  unfold owned_opg_b, owned_opf_b in Hop. rewrite !orb_true_iff in Hop.
  destruct Hop as [[Hop|Hop]|Hop].
  - (* owned_opa_b *)
    destruct o as [| x a v | | x hp hh | x | ob]; simpl in Hop; try discriminate.
    + apply andb_true_iff in Hop. destruct Hop as [H1 H2].
      apply step_setattr_any; auto; [now apply loose_b_iff|now apply recv_leafa_b_sound].
    + destruct hp; try discriminate.
      * rewrite !andb_true_iff in Hop. destruct Hop as [[H1 H2] H3].
        assert (Hkw : h_kw hh = None) by (destruct (h_kw hh); auto; discriminate).
        apply loose_b_iff in H2.
        destruct (h_inplace hh) eqn:Hin.
        -- apply step_with_inplace_any; auto. now apply recv_leafa_b_sound.
        -- unfold step. destruct (nth x roots VNone) as [| | | | | | | |l] eqn:Er; try exact I.
           cbn [loc_of]. rewrite bind_ret_l.
           destruct (recv_flat_b_sound ct (heap s) l a false H3) as (cl & d & k & FR & Hla & _).
           eapply with_cow; eauto.
      * rewrite !andb_true_iff in Hop. destruct Hop as [H1 H3].
        assert (Hkw : h_kw hh = None) by (destruct (h_kw hh); auto; discriminate).
        destruct (h_inplace hh) eqn:Hin.
        -- apply andb_true_iff in H3. destruct H3 as [H3 H4].
           apply step_with_item_inplace_coll; auto.
           intros l El. split; [eapply recv_leafc_b_sound; eauto|].
           exact (dflt_missing_b_sound ct (heap s) _ a H4 l El).
        -- unfold step. destruct (nth x roots VNone) as [| | | | | | | |l] eqn:Er; try exact I.
           cbn [loc_of]. rewrite bind_ret_l.
           destruct (recv_flat_b_sound ct (heap s) l a true H3) as (cl & d & k & FR & Hla & D).
           eapply with_item_cow; eauto.
      * destruct (h_inplace hh) eqn:Hin.
        -- apply andb_true_iff in Hop. destruct Hop as [H3 H4].
           apply step_without_item_inplace_coll; auto.
           intros l El. split; [eapply recv_leafc_b_sound; eauto|].
           exact (dflt_missing_b_sound ct (heap s) _ a H4 l El).
        -- unfold step. destruct (nth x roots VNone) as [| | | | | | | |l] eqn:Er; try exact I.
           cbn [loc_of]. rewrite bind_ret_l.
           destruct (recv_flat_b_sound ct (heap s) l a true Hop) as (cl & d & k & FR & Hla & D).
           eapply without_item_cow; eauto.
    + unfold step. apply deepcopy_flat; auto.
      destruct (nth x roots VNone) as [| | | | | | | |l]; auto. simpl in Hop.
      destruct (nth_error (heap s) l) as [o|] eqn:N; [|discriminate].
      destruct o as [xs|kvs|xs|cl d].
      * right. exists (OList xs). split; auto. split; [now apply norefs_b_sound|simpl; lia].
      * right. exists (ODict kvs). split; auto. split; [now apply norefs_b_sound|simpl; lia].
      * right. exists (OSet xs). split; auto. split; [now apply norefs_b_sound|simpl; lia].
      * left. destruct (lookup_cls ct cl) as [k|] eqn:Hk; [|discriminate].
        apply andb_true_iff in Hop. destruct Hop as [H1 H2]. exists cl, d, k.
        apply FI_of_Inv; auto; [now apply flat_class_b_sound|now apply keys_managed_b_sound].
    + apply andb_true_iff in Hop. destruct Hop as [H1 H2]. simpl.
      apply Inv_alloc; auto; [now apply Nat.ltb_lt|now apply norefs_b_sound].
  - (* constructor, del, reset_<a> in place *)
    destruct o as [c pos kw| | x a | x hp hh | |]; try discriminate.
    + rewrite !andb_true_iff in Hop. destruct Hop as [[H1 H2] H3].
      destruct (ctor_class_b_sound ct c H1) as [k Hc].
      eapply step_construct; eauto; [now apply kw_flat_b_sound|].
      destruct pos; auto. now apply flat_val_b_sound.
    + apply step_delattr; auto. now apply del_ok_b_sound.
    + destruct hp; try discriminate. apply andb_true_iff in Hop. destruct Hop as [H1 H2].
      apply step_reset_inplace; auto. now apply del_ok_b_sound.
  - (* update_ / transform_ / reset *)
    destruct o as [| | | x hp hh | |]; try discriminate.
    unfold step. destruct (nth x roots VNone) as [| | | | | | | |l] eqn:Er;
      try (destruct hp; exact I).
    cbn [loc_of]. rewrite bind_ret_l.
    destruct hp; try discriminate.
    + rewrite !andb_true_iff in Hop. destruct Hop as [[[H1 H2] H3] H4].
      assert (Hkw : h_kw hh = None) by (destruct (h_kw hh); auto; discriminate).
      apply negb_true_iff in H2. apply loose_b_iff in H3.
      destruct (h_inplace hh) eqn:Hin.
      * apply update_inplace; auto. eapply recv_leafa_b_sound; eauto.
      * destruct (recv_flat_b_sound ct (heap s) l a false H4) as (cl & d & k & FR & Hla & _).
        eapply update_cow; eauto.
    + rewrite !andb_true_iff in Hop. destruct Hop as [[[[H1 H2] H3] H4] H5].
      apply negb_true_iff in H1.
      assert (Hkf : h_kwfn hh = []) by (destruct (h_kwfn hh); auto; discriminate).
      destruct (recv_flat_b_sound ct (heap s) l a false H4) as (cl & d & k & FR & Hla & _).
      eapply transform_cow; eauto; [now apply oqfn_b_sound|].
      intros As. destruct FR as (N & Hk & _). simpl in H5. rewrite N, Hk, As in H5. now apply nonref_b_sound.
    + rewrite !andb_true_iff in Hop. destruct Hop as [[H1 H2] H3]. apply negb_true_iff in H1.
      destruct (recv_flat_b_sound ct (heap s) l a false H2) as (cl & d & k & FR & _ & _).
      destruct (del_ok_b_sound ct (heap s) (VRef l) a H3 l eq_refl) as (cl' & k' & [d' N'] & Hk' & Hla).
      destruct FR as (N & Hk & Fc & Km). rewrite N in N'. inversion N'; subst cl' d'.
      rewrite Hk in Hk'. inversion Hk'; subst k'.
      apply (reset_cow ct Hf Hn' Hr' l a hh s cl d k); auto. split; auto.
    + rewrite !andb_true_iff in Hop. destruct Hop as [H1 H3].
      assert (Hkw : h_kw hh = None) by (destruct (h_kw hh); auto; discriminate).
      destruct (h_inplace hh) eqn:Hin.
      * apply andb_true_iff in H3. destruct H3 as [H3 H4].
        apply update_item_inplace; auto; [eapply recv_leafc_b_sound; eauto|].
        exact (dflt_missing_b_sound ct (heap s) _ a H4 l eq_refl).
      * destruct (recv_flat_b_sound ct (heap s) l a true H3) as (cl & d & k & FR & Hla & D).
        eapply update_item_cow; eauto.
    + rewrite !andb_true_iff in Hop. destruct Hop as [[H1 H2] H3].
      assert (Hkf : h_kwfn hh = []) by (destruct (h_kwfn hh); auto; discriminate).
      apply oqfn_b_sound in H2.
      destruct (h_inplace hh) eqn:Hin.
      * apply andb_true_iff in H3. destruct H3 as [H3 H4].
        apply transform_item_inplace; auto; [eapply recv_leafc_b_sound; eauto|].
        exact (dflt_missing_b_sound ct (heap s) _ a H4 l eq_refl).
      * destruct (recv_flat_b_sound ct (heap s) l a true H3) as (cl & d & k & FR & Hla & D).
        eapply transform_item_cow; eauto.
    + simpl in Hop. destruct (nth_error (heap s) l) as [[| | |cl d]|] eqn:N; try discriminate.
      destruct (lookup_cls ct cl) as [k|] eqn:Hk; [|discriminate].
      rewrite !andb_true_iff in Hop. destruct Hop as [[H1 H2] H3].
      eapply (reset_all ct Hf Hn' Hr' l hh s cl d k); auto.
      * split; auto. split; auto. split; [now apply flat_class_b_sound|now apply keys_managed_b_sound].
      * intros a sp Ha. rewrite forallb_forall in H3.
        assert (Hin : In sp (c_attrs k)) by (eapply lookup_attr_in; eauto).
        specialize (H3 _ Hin). apply andb_true_iff in H3. destruct H3.
        split; [now apply leaf_attr_b_sound|now apply default_ok_b_sound].
Qed.


(* ------------------------------------------------------------------ *)
(** * transform_<a> / update_<a>() in place *)
Definition recv_inst_leafa_b (ct : ctable) (h : heap_t) (recv : val) (a : aid) : bool :=
  match recv with
  | VRef l =>
      match nth_error h l with
      | Some (OInst cl d) =>
          match lookup_cls ct cl with
          | Some k => match lookup_attr k a with Some sp => leaf_attr_b sp | None => true end
          | None => false end
      | _ => false end
  | _ => false
  end.

(* Operations covered: those of owned_opg_b, and transform_<a>(f, _inplace=True) (f quiet) and
   update_<a>(_inplace=True) without a new value: the value the attribute holds is prepared
   again and stored back *)
Definition owned_opi_b (ct : ctable) (h : heap_t) (roots : list val) (o : op) : bool :=
  owned_opg_b ct h roots o ||
  match o with
  | OpHelper x (HTransform a) hh =>
      h_inplace hh && is_nil (h_kwfn hh) && oqfn_b (h_fn hh) &&
      recv_inst_leafa_b ct h (nth x roots VNone) a && dflt_nonref_b ct h (nth x roots VNone) a
  | OpHelper x (HUpdate a) hh =>
      h_inplace hh && is_none (h_kw hh) && is_missing (pos0 hh) &&
      recv_inst_leafa_b ct h (nth x roots VNone) a && dflt_nonref_b ct h (nth x roots VNone) a
  | _ => false
  end.

Theorem step_preserves_owned_i ct roots o s :
  flat_table ct -> inval_ok_b ct = true -> no_reserved_b ct = true ->
  owned_opi_b ct (heap s) roots o = true ->
  TypeInv ct s -> Owned ct (heap s) ->
  TypeInv ct (snd (step ct roots o s)) /\ Owned ct (heap (snd (step ct roots o s))).
Proof.
  intros Hf Hn Hr Hop T O. unfold owned_opi_b in Hop. apply orb_true_iff in Hop.
  destruct Hop as [Hop|Hop]; [now apply step_preserves_owned_h|].
  pose proof (inval_ok_spec ct Hf (inval_ok_b_sound ct Hn)) as Hn'.
  assert (I : Inv ct (heap s)) by (split; auto).
  change (Inv ct (heap (snd (step ct roots o s)))).
  destruct o as [| | | x hp hh | |]; try discriminate.
  unfold step. destruct (nth x roots VNone) as [| | | | | | | |l] eqn:Er;
    try (destruct hp; exact I).
  cbn [loc_of]. rewrite bind_ret_l.
  assert (Recv : forall a, recv_inst_leafa_b ct (heap s) (VRef l) a = true ->
            dflt_nonref_b ct (heap s) (VRef l) a = true ->
            exists cl d k, nth_error (heap s) l = Some (OInst cl d) /\ lookup_cls ct cl = Some k /\
              (forall sp, lookup_attr k a = Some sp -> leaf_attr sp) /\
              (assoc a d = None -> nonref (class_default k a))).
  { intros a H1 H2. simpl in H1, H2.
    destruct (nth_error (heap s) l) as [[| | |cl d]|] eqn:N; try discriminate.
    destruct (lookup_cls ct cl) as [k|] eqn:Hk; [|discriminate].
    exists cl, d, k. split; auto. split; auto. split.
    - intros sp Ha. rewrite Ha in H1. now apply leaf_attr_b_sound.
    - intros As. rewrite As in H2. now apply nonref_b_sound. }
  destruct hp; try discriminate.
  - rewrite !andb_true_iff in Hop. destruct Hop as [[[[H1 H2] H3] H4] H5].
    assert (Hkw : h_kw hh = None) by (destruct (h_kw hh); auto; discriminate).
    assert (Hp : pos0 hh = VMissing) by (destruct (pos0 hh); simpl in H3; try discriminate; reflexivity).
    destruct (Recv a H4 H5) as (cl & d & k & N & Hk & Hla & D).
    eapply update_inplace_noarg; eauto.
  - rewrite !andb_true_iff in Hop. destruct Hop as [[[[H1 H2] H3] H4] H5].
    assert (Hkf : h_kwfn hh = []) by (destruct (h_kwfn hh); auto; discriminate).
    destruct (Recv a H4 H5) as (cl & d & k & N & Hk & Hla & D).
    eapply transform_inplace; eauto. now apply oqfn_b_sound.
Qed.
