(* C03, ownership: computable guards and the combined statement over all the
   operations reached (in place and copy-on-write). *)
From Coq Require Import List ZArith Bool Arith Lia.
From SC Require Import Base.Res Base.PyList Inst.Heap Inst.ClassTable Inst.Model Inst.Framed
  Inst.TypeProofs Inst.OwnProofs Inst.OwnProofs2 Inst.OwnProofs3 Inst.OwnColl Inst.OwnCopy Inst.OwnCow.
Import ListNotations.
Open Scope nat_scope.
Set Warnings "-unused-intro-pattern".
#[local] Opaque FUEL.

Definition flat_class_b (k : cls) : bool :=
  negb (c_dnc k) && is_none (c_post_copy k) &&
  forallb (fun sp => negb (a_dnc sp) && (scalar_ty (a_ty sp) || scalar_coll (a_ty sp))) (c_attrs k).

Lemma flat_class_b_sound k : flat_class_b k = true -> flat_class k.
Proof.
  unfold flat_class_b, flat_class. rewrite !andb_true_iff. intros [[H1 H2] H3].
  split; [now apply negb_true_iff|]. split; [destruct (c_post_copy k); auto; discriminate|].
  intros sp Hsp. rewrite forallb_forall in H3. specialize (H3 _ Hsp).
  apply andb_true_iff in H3. destruct H3 as [H3 H4]. split; [now apply negb_true_iff|].
  now apply orb_true_iff.
Qed.

Definition keys_managed_b (k : cls) (d : list (nat * val)) : bool :=
  forallb (fun p => match snd p with
                    | VRef _ => match lookup_attr k (fst p) with Some _ => true | None => false end
                    | _ => true end) d.

Lemma keys_managed_b_sound k d : keys_managed_b k d = true -> keys_managed k d.
Proof.
  unfold keys_managed_b, keys_managed. rewrite forallb_forall. intros H a v Hi.
  specialize (H _ Hi). simpl in H. destruct v; try (left; intros c E; discriminate).
  right. destruct (lookup_attr k a); congruence.
Qed.

Definition leaf_attr_b (sp : attr_spec) : bool :=
  leaf_coll_b sp || (scalar_ty (a_ty sp) && is_none (a_prepare sp)).

Lemma leaf_attr_b_sound sp : leaf_attr_b sp = true -> leaf_attr sp.
Proof.
  unfold leaf_attr_b. intro H. apply orb_true_iff in H. destruct H as [H|H].
  - left. now apply leaf_coll_b_sound.
  - right. apply andb_true_iff in H. destruct H as [H1 H2]. split; auto.
    destruct (a_prepare sp); auto; discriminate.
Qed.

Definition no_reserved_b (ct : ctable) : bool :=
  forallb (fun k => is_none (lookup_attr k A_INITIALIZING)) ct.

Lemma no_reserved_b_sound ct : no_reserved_b ct = true -> no_reserved_names ct.
Proof.
  unfold no_reserved_b, no_reserved_names. rewrite forallb_forall. intros H c k Hk.
  assert (Hin : In k ct) by (unfold lookup_cls in Hk; apply find_some in Hk; tauto).
  specialize (H _ Hin). destruct (lookup_attr k A_INITIALIZING); auto; discriminate.
Qed.

Definition recv_leafa_b (ct : ctable) (h : heap_t) (recv : val) (a : aid) : bool :=
  match recv with
  | VRef l =>
      match nth_error h l with
      | Some (OInst cl d) =>
          match lookup_cls ct cl with
          | Some k => match lookup_attr k a with Some sp => leaf_attr_b sp | None => true end
          | None => true end
      | _ => true end
  | _ => true
  end.

Lemma recv_leafa_b_sound ct h recv a :
  recv_leafa_b ct h recv a = true -> forall l, recv = VRef l -> recv_leafa ct l a h.
Proof.
  intros H l -> cl d k sp N Hk Ha. simpl in H. rewrite N, Hk, Ha in H. now apply leaf_attr_b_sound.
Qed.

(* the receiver of a copy-on-write helper: an instance of a flat class whose dict has only
   managed keys (or non-reference values); attribute a is a leaf attribute (a leaf
   collection attribute that holds a collection or has no class-level default, for the
   element helpers) *)
Definition recv_flat_b (ct : ctable) (h : heap_t) (recv : val) (a : aid) (coll : bool) : bool :=
  match recv with
  | VRef l =>
      match nth_error h l with
      | Some (OInst cl d) =>
          match lookup_cls ct cl with
          | Some k =>
              flat_class_b k && keys_managed_b k d &&
              (match lookup_attr k a with
               | Some sp => if coll then leaf_coll_b sp else leaf_attr_b sp
               | None => true end) &&
              (if coll then match assoc a d with None => is_missing (class_default k a) | Some _ => true end
               else true)
          | None => false end
      | _ => false end
  | _ => false
  end.

Lemma recv_flat_b_sound ct h l a coll :
  recv_flat_b ct h (VRef l) a coll = true ->
  exists cl d k, flat_recv ct l h cl d k /\
    (forall sp, lookup_attr k a = Some sp ->
       if coll then exists fam, leaf_coll sp fam else leaf_attr sp) /\
    (coll = true -> assoc a d = None -> class_default k a = VMissing).
Proof.
  simpl. destruct (nth_error h l) as [[| | |cl d]|] eqn:N; try discriminate.
  destruct (lookup_cls ct cl) as [k|] eqn:Hk; [|discriminate].
  rewrite !andb_true_iff. intros [[[H1 H2] H3] H4].
  exists cl, d, k. split; [split; auto; split; auto; split; [now apply flat_class_b_sound|now apply keys_managed_b_sound]|].
  split.
  - intros sp Ha. rewrite Ha in H3. destruct coll; [now apply leaf_coll_b_sound|now apply leaf_attr_b_sound].
  - intros -> As. rewrite As in H4. destruct (class_default k a); simpl in H4; try discriminate. reflexivity.
Qed.

Definition deepcopy_ok_b (ct : ctable) (h : heap_t) (v : val) : bool :=
  match v with
  | VRef l =>
      match nth_error h l with
      | Some (OInst cl d) =>
          match lookup_cls ct cl with
          | Some k => flat_class_b k && keys_managed_b k d
          | None => false end
      | Some o => norefs_b o
      | None => false end
  | _ => true
  end.

(* Operations covered (leaf attribute: annotation scalar or List/Set/Dict of scalars, no
   preparer; flat receiver: see recv_flat_b):
   - obj.a = v, obj.with_<a>(v, _inplace=True): leaf or unmanaged attribute, fresh argument;
   - obj.with_<a>(v): copy-on-write, flat receiver, fresh argument;
   - obj.with_<item>(...), obj.without_<item>(...): in place and copy-on-write, any arguments;
   - copy.deepcopy(obj): flat instance, container of non-references, non-reference;
   - the caller building a container of scalars. *)
Definition owned_opa_b (ct : ctable) (h : heap_t) (roots : list val) (o : op) : bool :=
  match o with
  | OpSetAttr x a v => loose_b h v && recv_leafa_b ct h (nth x roots VNone) a
  | OpHelper x (HWith a) hh =>
      is_none (h_kw hh) && loose_b h (pos0 hh) &&
      (if h_inplace hh then recv_leafa_b ct h (nth x roots VNone) a
       else recv_flat_b ct h (nth x roots VNone) a false)
  | OpHelper x (HWithItem a) hh =>
      is_none (h_kw hh) &&
      (if h_inplace hh
       then recv_leafc_b ct h (nth x roots VNone) a && dflt_missing_b ct h (nth x roots VNone) a
       else recv_flat_b ct h (nth x roots VNone) a true)
  | OpHelper x (HWithoutItem a) hh =>
      if h_inplace hh
      then recv_leafc_b ct h (nth x roots VNone) a && dflt_missing_b ct h (nth x roots VNone) a
      else recv_flat_b ct h (nth x roots VNone) a true
  | OpDeepCopy x => deepcopy_ok_b ct h (nth x roots VNone)
  | OpAlloc ob => (shape ob <? 3) && norefs_b ob
  | _ => false
  end.

Theorem step_preserves_owned_all ct roots o s :
  flat_table ct -> no_inval_b ct = true -> no_reserved_b ct = true ->
  owned_opa_b ct (heap s) roots o = true ->
  TypeInv ct s -> Owned ct (heap s) ->
  TypeInv ct (snd (step ct roots o s)) /\ Owned ct (heap (snd (step ct roots o s))).
Proof.
  intros Hf Hn Hr Hop T O. apply no_inval_b_sound in Hn. apply no_reserved_b_sound in Hr.
  assert (I : Inv ct (heap s)) by (split; auto).
  change (Inv ct (heap (snd (step ct roots o s)))).
  destruct o as [| x a v | | x hp hh | x | ob]; simpl in Hop; try discriminate.
  - apply andb_true_iff in Hop. destruct Hop as [H1 H2].
    apply step_setattr_any; auto; [now apply loose_b_iff|now apply recv_leafa_b_sound].
  - destruct hp; try discriminate.
    + (* with_<a> *)
      rewrite !andb_true_iff in Hop. destruct Hop as [[H1 H2] H3].
      assert (Hkw : h_kw hh = None) by (destruct (h_kw hh); auto; discriminate).
      apply loose_b_iff in H2.
      destruct (h_inplace hh) eqn:Hin.
      * apply step_with_inplace_any; auto. now apply recv_leafa_b_sound.
      * unfold step. destruct (nth x roots VNone) as [| | | | | | | |l] eqn:Er; try exact I.
        cbn [loc_of]. rewrite bind_ret_l.
        destruct (recv_flat_b_sound ct (heap s) l a false H3) as (cl & d & k & FR & Hla & _).
        eapply with_cow; eauto.
    + (* with_<item> *)
      rewrite !andb_true_iff in Hop. destruct Hop as [H1 H3].
      assert (Hkw : h_kw hh = None) by (destruct (h_kw hh); auto; discriminate).
      destruct (h_inplace hh) eqn:Hin.
      * apply andb_true_iff in H3. destruct H3 as [H3 H4].
        apply step_with_item_inplace_coll; auto.
        intros l El. split; [eapply recv_leafc_b_sound; eauto|].
        exact (dflt_missing_b_sound ct (heap s) _ a H4 l El).
      * unfold step. destruct (nth x roots VNone) as [| | | | | | | |l] eqn:Er; try exact I.
        cbn [loc_of]. rewrite bind_ret_l.
        destruct (recv_flat_b_sound ct (heap s) l a true H3) as (cl & d & k & FR & Hla & D).
        eapply with_item_cow; eauto.
    + (* without_<item> *)
      destruct (h_inplace hh) eqn:Hin.
      * apply andb_true_iff in Hop. destruct Hop as [H3 H4].
        apply step_without_item_inplace_coll; auto.
        intros l El. split; [eapply recv_leafc_b_sound; eauto|].
        exact (dflt_missing_b_sound ct (heap s) _ a H4 l El).
      * unfold step. destruct (nth x roots VNone) as [| | | | | | | |l] eqn:Er; try exact I.
        cbn [loc_of]. rewrite bind_ret_l.
        destruct (recv_flat_b_sound ct (heap s) l a true Hop) as (cl & d & k & FR & Hla & D).
        eapply without_item_cow; eauto.
  - (* deepcopy *)
    unfold step. apply deepcopy_flat; auto.
    destruct (nth x roots VNone) as [| | | | | | | |l]; auto. simpl in Hop.
    destruct (nth_error (heap s) l) as [o|] eqn:N; [|discriminate].
    destruct o as [xs|kvs|xs|cl d].
    + right. exists (OList xs). split; auto. split; [now apply norefs_b_sound|simpl; lia].
    + right. exists (ODict kvs). split; auto. split; [now apply norefs_b_sound|simpl; lia].
    + right. exists (OSet xs). split; auto. split; [now apply norefs_b_sound|simpl; lia].
    + left. destruct (lookup_cls ct cl) as [k|] eqn:Hk; [|discriminate].
      apply andb_true_iff in Hop. destruct Hop as [H1 H2]. exists cl, d, k.
      apply FI_of_Inv; auto; [now apply flat_class_b_sound|now apply keys_managed_b_sound].
  - apply andb_true_iff in Hop. destruct Hop as [H1 H2]. simpl.
    apply Inv_alloc; auto; [now apply Nat.ltb_lt|now apply norefs_b_sound].
Qed.
