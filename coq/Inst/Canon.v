(* Canonical form of the object graph reachable from an ordered list of
   roots: nodes renumbered in depth-first discovery order, instance
   dictionaries sorted by attribute id, sets sorted.  Two states have equal
   canonical forms iff they are isomorphic as rooted ordered graphs (content
   and sharing).  The same function exists on the Python side
   (harness/inst_common.py:canon). *)
From Coq Require Import List ZArith Bool Arith.
From SC Require Import Base.Res Inst.Heap.
Import ListNotations.
Open Scope nat_scope.

Fixpoint insert_by {A} (key : A -> Z) (x : A) (l : list A) : list A :=
  match l with
  | [] => [x]
  | y :: t => if (key x <=? key y)%Z then x :: l else y :: insert_by key x t
  end.
Definition sort_by {A} (key : A -> Z) (l : list A) : list A :=
  fold_right (insert_by key) [] l.

Definition atom_key (v : val) : Z :=
  match v with
  | VMissing => 0 | VEmpty => 1 | VUnchanged => 2 | VNone => 3
  | VBool b => 10 + (if b then 1 else 0)
  | VInt z => 100000 + z
  | VStr z => 300000 + z
  | VAtom z => 500000 + z
  | VRef l => 700000 + Z.of_nat l
  end%Z.

Definition sorted_fields (d : list (aid * val)) : list (aid * val) :=
  sort_by (fun p => Z.of_nat (fst p)) d.

Definition children (o : obj) : list val :=
  match o with
  | OList xs => xs
  | ODict kvs => flat_map (fun p => [fst p; snd p]) kvs
  | OSet xs => sort_by atom_key xs
  | OInst _ d => map snd (sorted_fields d)
  end.

Fixpoint dfs (fuel : nat) (h : list obj) (stack : list val) (seen : list loc) : list loc :=
  match fuel with
  | O => seen
  | S f =>
    match stack with
    | [] => seen
    | VRef l :: st =>
        if existsb (fun x => x =? l) seen then dfs f h st seen
        else match nth_error h l with
             | Some o => dfs f h (children o ++ st) (seen ++ [l])
             | None => dfs f h st seen
             end
    | _ :: st => dfs f h st seen
    end
  end.

Fixpoint index_of (l : loc) (order : list loc) : nat :=
  match order with
  | [] => 0
  | x :: t => if x =? l then 0 else S (index_of l t)
  end.

Definition ren (order : list loc) (v : val) : val :=
  match v with VRef l => VRef (index_of l order) | _ => v end.

Definition ren_obj (order : list loc) (o : obj) : obj :=
  match o with
  | OList xs => OList (map (ren order) xs)
  | ODict kvs => ODict (map (fun p => (ren order (fst p), ren order (snd p))) kvs)
  | OSet xs => OSet (map (ren order) (sort_by atom_key xs))
  | OInst c d => OInst c (map (fun p => (fst p, ren order (snd p))) (sorted_fields d))
  end.

Definition graph := (list val * list obj)%type.

Definition dfs_fuel (h : list obj) (roots : list val) : nat :=
  length roots + fold_right (fun o n => S (length (children o)) + n) 1 h.

Definition canon (h : list obj) (roots : list val) : graph :=
  let order := dfs (dfs_fuel h roots) h roots [] in
  (map (ren order) roots,
   map (fun l => match nth_error h l with
                 | Some o => ren_obj order o
                 | None => OList [] end) order).

(* syntactic equality *)
Definition val_syn_eqb (a b : val) : bool :=
  match a, b with
  | VMissing, VMissing | VEmpty, VEmpty | VUnchanged, VUnchanged | VNone, VNone => true
  | VBool x, VBool y => Bool.eqb x y
  | VInt x, VInt y => Z.eqb x y
  | VStr x, VStr y => Z.eqb x y
  | VAtom x, VAtom y => Z.eqb x y
  | VRef x, VRef y => x =? y
  | _, _ => false
  end.

Fixpoint list_eqb' {A} (e : A -> A -> bool) (a b : list A) : bool :=
  match a, b with
  | [], [] => true
  | x :: a', y :: b' => e x y && list_eqb' e a' b'
  | _, _ => false
  end.

Definition obj_syn_eqb (a b : obj) : bool :=
  match a, b with
  | OList x, OList y => list_eqb' val_syn_eqb x y
  | OSet x, OSet y => list_eqb' val_syn_eqb x y
  | ODict x, ODict y =>
      list_eqb' (fun p q => val_syn_eqb (fst p) (fst q) && val_syn_eqb (snd p) (snd q)) x y
  | OInst c x, OInst d y =>
      (c =? d) && list_eqb' (fun p q => (fst p =? fst q) && val_syn_eqb (snd p) (snd q)) x y
  | _, _ => false
  end.

Definition graph_eqb (a b : graph) : bool :=
  list_eqb' val_syn_eqb (fst a) (fst b) && list_eqb' obj_syn_eqb (snd a) (snd b).

(* b extends a: same first roots, same first nodes *)
Fixpoint prefix_eqb {A} (e : A -> A -> bool) (a b : list A) : bool :=
  match a, b with
  | [], _ => true
  | x :: a', y :: b' => e x y && prefix_eqb e a' b'
  | _, [] => false
  end.
Definition graph_prefix (a b : graph) : bool :=
  prefix_eqb val_syn_eqb (fst a) (fst b) && prefix_eqb obj_syn_eqb (snd a) (snd b).

(* nodes reachable from a value in a canonical graph *)
Definition reach (g : graph) (v : val) : list loc :=
  dfs (dfs_fuel (snd g) [v]) (snd g) [v] [].
