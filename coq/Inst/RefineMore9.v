(* C05 refinement: copy-on-write calls on classes WITH invalidated_by (direct
   dependants, `inval_flat`), flat receiver of an unfrozen class:
   with_<a>(v), transform_<a>(f), reset_<a>(), update(a=v, ...). *)
From Coq Require Import List ZArith Bool Arith Lia.
From SC Require Import Base.Res Base.PyList Inst.Heap Inst.ClassTable Inst.Model Inst.Canon
  Inst.Abs Inst.SpecHelpers Inst.ElemProofs Inst.Framed Inst.RefineProofs Inst.CopyProofs Inst.CopyStore
  Inst.RefineMore Inst.RefineMore2 Inst.RefineMore3 Inst.RefineMore4 Inst.RefineMore6.
Import ListNotations.
Open Scope nat_scope.

#[local] Opaque FUEL.

Lemma twin_fields l c d s l' d' s2 :
  nth_error (heap s) l = Some (OInst c d) -> nth_error (heap s2) l' = Some (OInst c d') ->
  absv (heap s2) (VRef l') = absv (heap s) (VRef l) ->
  map (fun p => (fst p, abs 23 (heap s2) (snd p))) (sorted_fields d') =
  map (fun p => (fst p, abs 23 (heap s) (snd p))) (sorted_fields d).
Proof.
  intros Hl Hl' E. rewrite (absv_recv l' c d' s2 Hl'), (absv_recv l c d s Hl) in E.
  exact (f_equal (fun x => match x with AInst _ fl => fl | _ => [] end) E).
Qed.

Section CopyInval.
  Variable ct : ctable.
  Variable h0 : list obj.
  Variables (l : loc) (c : cid) (d : list (aid * val)) (k : cls).
  Variable s : state.
  Hypothesis Hl : nth_error (heap s) l = Some (OInst c d).
  Hypothesis Hc : lookup_cls ct c = Some k.
  Hypothesis Hd : NoDup (map fst d).
  Hypothesis Hflat : flat_fields (heap s) d.
  Hypothesis Hdnc : c_dnc k = false.
  Hypothesis Hfz : c_frozen k = false.
  Hypothesis Hfa : fail_at s = None.
  Hypothesis Hpc : c_post_copy k = None.

  Notation X := (absv (heap s) (VRef l)).
  Let flds := map (fun p => (fst p, abs 23 (heap s) (snd p))) (sorted_fields d).

  (* with_<a>(v) without _inplace, at any state with the same heap (so that transform_<a> can reuse it) *)
  Lemma with_attr_copy_inval a sp v s0 :
    lookup_attr k a = Some sp -> inval_flat k a ->
    ty_depth (a_ty sp) < FUEL -> ty_is_collection (a_ty sp) = false ->
    match a_prepare sp with Some f => scalar_fn f = true | None => True end ->
    vscalar v = true -> heap s0 = heap s -> fail_at s0 = None ->
    match with_attr ct l sp v None false s0 with
    | (Ok r, s') => exists l', r = VRef l' /\ length (heap s) <= l' /\
                    spec_store_inval ct h0 a c d k sp s 29 v = SOk (absv (heap s') (VRef l')) /\
                    (forall i, i < length (heap s) -> nth_error (heap s') i = nth_error (heap s) i)
    | (Err e, s') => spec_store_inval ct h0 a c d k sp s 29 v = SErr e /\
                     (forall i, i < length (heap s) -> nth_error (heap s') i = nth_error (heap s) i)
    end.
  Proof.
    intros Ha Hinv Hty Hnc Hp Hv Hh0 Hf0. unfold with_attr. rewrite (a_name_sp a k sp Ha). rewrite XFUEL_S.
    pose proof (prepare_scalar_run ct l sp Hnc Hp 39 v s0 Hf0 Hv) as Hpr.
    unfold spec_store_inval.
    destruct (pv_of sp v) as [pv|e| |]; try contradiction.
    - destruct Hpr as [v' [s1 [Hrun [Hh1 [Hf1 [Hv' ->]]]]]]. cbn [sbind].
      rewrite (bind_ok _ _ _ _ _ Hrun).
      assert (Hh1' : heap s1 = heap s) by (now rewrite Hh1).
      assert (Hl1 : nth_error (heap s1) l = Some (OInst c d)) by (now rewrite Hh1').
      assert (Hflat1 : flat_fields (heap s1) d) by (now rewrite Hh1').
      rewrite (mutate_attr_copy_unfold ct _ l a v' s1 c d k sp Hl1 Hc Ha Hdnc Hv' Hty).
      destruct (conforms ct (a_ty sp) (abs0 v')).
      + destruct (copy_twin ct l c d k s1 Hl1 Hc Hd Hflat1 Hdnc Hf1 Hpc)
          as [l' [d' [s2 [Hdc [Hfresh [Hcell [Hd' [Habs [Hok' [Hfa2 Hsame]]]]]]]]]].
        rewrite (bind_ok _ _ _ _ _ Hdc). cbn [loc_of]. rewrite bind_ret.
        unfold bind at 1. rewrite (thawed_unfrozen ct l' _ _ s2 c d' k Hcell Hc Hfz).
        rewrite (bind_ok _ _ _ _ _ (raw_setattr_at l' a v' s2 c d' Hcell)).
        pose proof (inval_after_store ct h0 l' a c d' k s2 Hcell Hc Hd' Hok' Hfz Hinv 38 29 s2 v' eq_refl Hfa2 Hv') as H.
        cbv zeta in H. rewrite Hh1' in Habs.
        rewrite (twin_fields l c d s l' d' s2 Hl Hcell Habs) in H. fold flds in H.
        destruct (invalidate_attrs ct (exec ct 40) l' a (upd s2 l' (OInst c (assoc_set a v' d')))) as [[u|e] s'].
        * destruct H as [_ [E1 [E2 _]]]. unfold ret. exists l'. split; [reflexivity|].
          split; [now rewrite <- Hh1'|]. split; [exact E1|].
          intros i Hi. rewrite E2 by (rewrite <- Hh1' in Hi; lia). rewrite <- Hh1'. apply Hsame. now rewrite Hh1'.
        * destruct H as [E1 [E2 _]]. split; [exact E1|].
          intros i Hi. rewrite E2 by (rewrite <- Hh1' in Hi; lia). rewrite <- Hh1'. apply Hsame. now rewrite Hh1'.
      + split; [reflexivity|]. intros i _. now rewrite Hh1'.
    - destruct Hpr as [s1 [Hrun [Hh1 Hf1]]]. cbn [sbind].
      rewrite (bind_err _ _ _ _ _ Hrun). split; [reflexivity|]. intros i _. now rewrite Hh1, Hh0.
  Qed.

  Lemma spec_with_copy_inval a sp v :
    lookup_attr k a = Some sp -> inval_flat k a -> ty_is_collection (a_ty sp) = false ->
    match a_prepare sp with Some f => scalar_fn f = true | None => True end ->
    vscalar v = true ->
    spec_helper ct h0 X (SWith a) (mkah [abs0 v] false true AMissing false None None [] None) =
    spec_store_inval ct h0 a c d k sp s 29 v.
  Proof.
    intros Ha Hinv Hnc Hp Hv.
    rewrite (spec_helper_copy ct h0 l c d s Hl (SWith a) (mkah [abs0 v] false true AMissing false None None [] None) eq_refl eq_refl I).
    unfold spec_unfrozen, apos0. cbn [ah_pos nth ah_kw].
    exact (spec_with_inval_core ct h0 a c d k sp s Hc Ha Hinv Hnc Hp v Hv).
  Qed.

  (* ---- with_<a>(v) ---- *)
  Theorem with_scalar_copy_inval_refines a sp v :
    lookup_attr k a = Some sp -> inval_flat k a ->
    ty_depth (a_ty sp) < FUEL -> ty_is_collection (a_ty sp) = false ->
    match a_prepare sp with Some f => scalar_fn f = true | None => True end ->
    vscalar v = true ->
    let h := mkh [v] false true VMissing false None None [] None in
    let ah := mkah [abs0 v] false true AMissing false None None [] None in
    match run_helper ct l (HWith a) h s with
    | (Ok r, s') => exists l', r = VRef l' /\ length (heap s) <= l' /\
                    spec_helper ct h0 X (SWith a) ah = SOk (absv (heap s') (VRef l')) /\
                    (forall i, i < length (heap s) -> nth_error (heap s') i = nth_error (heap s) i)
    | (Err e, s') => spec_helper ct h0 X (SWith a) ah = SErr e /\
                     (forall i, i < length (heap s) -> nth_error (heap s') i = nth_error (heap s) i)
    end.
  Proof.
    intros Ha Hinv Hty Hnc Hp Hv h ah. unfold ah. rewrite (spec_with_copy_inval a sp v Ha Hinv Hnc Hp Hv).
    unfold h. rewrite (with_copy_model ct l a c d k sp s Hl Hc Ha v s eq_refl).
    exact (with_attr_copy_inval a sp v s Ha Hinv Hty Hnc Hp Hv eq_refl Hfa).
  Qed.

  (* ---- transform_<a>(f) ---- *)
  Theorem transform_scalar_copy_inval_refines a sp f :
    lookup_attr k a = Some sp -> inval_flat k a ->
    ty_depth (a_ty sp) < FUEL -> ty_is_collection (a_ty sp) = false ->
    match a_prepare sp with Some g => scalar_fn g = true | None => True end ->
    scalar_fn f = true -> vscalar (cur_val a d k) = true ->
    let h := mkh [] false true VMissing false None None [] (Some f) in
    let ah := mkah [] false true AMissing false None None [] (Some f) in
    match run_helper ct l (HTransform a) h s with
    | (Ok r, s') => exists l', r = VRef l' /\ length (heap s) <= l' /\
                    spec_helper ct h0 X (STransform a) ah = SOk (absv (heap s') (VRef l')) /\
                    (forall i, i < length (heap s) -> nth_error (heap s') i = nth_error (heap s) i)
    | (Err e, s') => spec_helper ct h0 X (STransform a) ah = SErr e /\
                     (forall i, i < length (heap s) -> nth_error (heap s') i = nth_error (heap s) i)
    end.
  Proof.
    intros Ha Hinv Hty Hnc Hp Hf Hcur h ah.
    unfold h, ah. rewrite (transform_copy_model ct l a c d k sp s Hl Hc Ha f Hcur).
    rewrite (transform_copy_spec ct h0 l a c d k sp s Hl Hc Ha Hd f Hcur).
    pose proof (apply_fn_scalar f (cur_val a d k) s Hfa Hf Hcur) as Hap.
    destruct (afn f (abs0 (cur_val a d k))) as [nv|e| |]; try contradiction.
    - destruct Hap as [v' [Hrun [-> Hv']]]. rewrite Hrun. cbn [sbind].
      rewrite (spec_with_copy_inval a sp v' Ha Hinv Hnc Hp Hv').
      exact (with_attr_copy_inval a sp v' (ticked s) Ha Hinv Hty Hnc Hp Hv' (heap_ticked s) Hfa).
    - rewrite Hap. cbn [sbind]. split; [reflexivity|]. auto.
  Qed.


  (* ---- reset_<a>() ---- *)
  Theorem reset_scalar_copy_inval_refines a sp :
    lookup_attr k a = Some sp -> inval_flat k a ->
    ty_depth (a_ty sp) < FUEL -> ty_is_collection (a_ty sp) = false ->
    match a_prepare sp with Some g => scalar_fn g = true | None => True end ->
    literal_default a k sp -> vscalar (class_default k a) = true \/ class_default k a = VMissing ->
    let h := mkh [] false true VMissing false None None [] None in
    let ah := mkah [] false true AMissing false None None [] None in
    match run_helper ct l (HReset a) h s with
    | (Ok r, s') => exists l', r = VRef l' /\ length (heap s) <= l' /\
                    spec_helper ct h0 X (SReset a) ah = SOk (absv (heap s') (VRef l')) /\
                    (forall i, i < length (heap s) -> nth_error (heap s') i = nth_error (heap s) i)
    | (Err e, s') => spec_helper ct h0 X (SReset a) ah = SErr e /\
                     (forall i, i < length (heap s) -> nth_error (heap s') i = nth_error (heap s) i)
    end.
  Proof.
    intros Ha Hinv Hty Hnc Hp Hlit Hdv h ah.
    destruct (copy_twin ct l c d k s Hl Hc Hd Hflat Hdnc Hfa Hpc)
      as [l' [d' [s2 [Hdc [Hfresh [Hcell [Hd' [Habs [Hok' [Hfa2 Hsame]]]]]]]]]].
    assert (Hrun : run_helper ct l (HReset a) h s =
                   run_helper ct l' (HReset a) (mkh [] true true VMissing false None None [] None) s2).
    { unfold run_helper, h. cbn [h_if negb h_inplace]. rewrite bind_assoc.
      rewrite (bind_ok _ _ _ _ _ Hdc). cbn [loc_of]. rewrite !bind_ret.
      unfold bind. rewrite !(thawed_unfrozen ct l' _ _ s2 c d' k Hcell Hc Hfz). reflexivity. }
    rewrite Hrun.
    rewrite (spec_copy_is_inplace ct h0 l c d k s Hl Hc Hfz (SReset a) ah (mkah [] true true AMissing false None None [] None)
               (absv (heap s2) (VRef l')) Habs eq_refl eq_refl eq_refl I (fun x => eq_refl)).
    pose proof (reset_scalar_inplace_inval_refines ct h0 l' a c d' k sp s2 Hcell Hc Ha Hd' Hok' Hfz Hinv Hfa2 Hty Hnc Hp Hlit Hdv) as H.
    cbv zeta in H.
    destruct (run_helper ct l' (HReset a) (mkh [] true true VMissing false None None [] None) s2) as [[r|e] s'].
    - destruct H as [-> [Hs Hoth]]. exists l'. split; [reflexivity|]. split; [exact Hfresh|]. split; [exact Hs|].
      intros i Hi. rewrite Hoth by lia. now apply Hsame.
    - destruct H as [Hs Hoth]. split; [exact Hs|]. intros i Hi. rewrite Hoth by lia. now apply Hsame.
  Qed.

  (* ---- update(a=v, ...) ---- *)
  Theorem update_top_copy_inval_refines p0 ps :
    Forall (kw_inval_ok k) (p0 :: ps) ->
    let h := mkh [] false true VMissing false None (Some (p0 :: ps)) [] None in
    let ah := mkah [] false true AMissing false None (Some (akw (p0 :: ps))) [] None in
    match run_helper ct l HUpdateTop h s with
    | (Ok r, s') => exists l', r = VRef l' /\ length (heap s) <= l' /\
                    spec_helper ct h0 X SUpdateTop ah = SOk (absv (heap s') (VRef l')) /\
                    (forall i, i < length (heap s) -> nth_error (heap s') i = nth_error (heap s) i)
    | (Err e, s') => spec_helper ct h0 X SUpdateTop ah = SErr e /\
                     (forall i, i < length (heap s) -> nth_error (heap s') i = nth_error (heap s) i)
    end.
  Proof.
    intros Hkws h ah.
    destruct (copy_twin ct l c d k s Hl Hc Hd Hflat Hdnc Hfa Hpc)
      as [l' [d' [s2 [Hdc [Hfresh [Hcell [Hd' [Habs [Hok' [Hfa2 Hsame]]]]]]]]]].
    assert (Hrun : run_helper ct l HUpdateTop h s =
                   run_helper ct l' HUpdateTop (mkh [] true true VMissing false None (Some (p0 :: ps)) [] None) s2).
    { rewrite (update_inplace_is_iterated_setattr ct l' p0 ps s2 c d' k Hcell Hc).
      unfold run_helper, h. cbn [h_if negb pos0 h_pos nth h_kw h_inplace]. rewrite exec_XFUEL_mv.
      rewrite (update_body_copy_ok ct _ l p0 ps s l' s2 Hdc).
      unfold bind. now rewrite (thawed_unfrozen ct l' _ _ s2 c d' k Hcell Hc Hfz). }
    rewrite Hrun.
    rewrite (spec_copy_is_inplace ct h0 l c d k s Hl Hc Hfz SUpdateTop ah
               (mkah [] true true AMissing false None (Some (akw (p0 :: ps))) [] None)
               (absv (heap s2) (VRef l')) Habs eq_refl eq_refl eq_refl I (fun x => eq_refl)).
    pose proof (update_top_inplace_inval_refines ct h0 l' c k Hc Hfz d' s2 p0 ps Hcell Hd' Hok' Hfa2 Hkws) as H.
    cbv zeta in H.
    destruct (run_helper ct l' HUpdateTop (mkh [] true true VMissing false None (Some (p0 :: ps)) [] None) s2) as [[r|e] s'].
    - destruct H as [-> [Hs Hoth]]. exists l'. split; [reflexivity|]. split; [exact Hfresh|]. split; [exact Hs|].
      intros i Hi. rewrite Hoth by lia. now apply Hsame.
    - destruct H as [Hs Hoth]. split; [exact Hs|]. intros i Hi. rewrite Hoth by lia. now apply Hsame.
  Qed.
End CopyInval.
