(* C06: eighth layer: "creating the container when it is missing".  The
   attribute holds nothing (no entry in the instance dict, no class-level
   default): with_<item> / without_<item> in place create the empty list / dict /
   set first, edit it and store it. *)
From Coq Require Import List ZArith Bool Arith Lia.
From SC Require Import Base.Res Base.PyList Inst.Heap Inst.ClassTable Inst.Model Inst.Canon
  Inst.Abs Inst.SpecHelpers Inst.ElemProofs Inst.Framed Inst.RefineProofs Inst.CopyProofs Inst.ElemRefineDep Inst.CopyStore
  Inst.ElemRefine Inst.ElemRefine2 Inst.ElemRefine4 Inst.ElemRefine5 Inst.ElemRefine6.
Import ListNotations.
Open Scope nat_scope.

#[local] Opaque FUEL.
Local Opaque py_eq.

(* ------------------------------------------------------------------ *)
(** * The edits as standalone facts: model tail, new content, specification *)

Section Tails.
  Variable ct : ctable.
  Variable h0 : list obj.
  Variables (l : loc) (a : aid) (sp : attr_spec).

  (* ---- list, with_<item> ---- *)
  Lemma with_tail_list ity ip idx v ins s1 lc1 xs :
    a_ty sp = TList ity -> a_prepare_item sp = None -> spec_of_ty_strict ity = None -> ty_depth ity < FUEL ->
    vscalar v = true -> (idx = VMissing \/ exists i, idx = VInt i) ->
    nth_error (heap s1) lc1 = Some (OList xs) ->
    with_tail ct l a sp (mkh [v] ip true idx ins None None [] None) (VRef lc1) s1 =
    match list_with_pure ct ity xs idx v ins with
    | inl o' => mutate_attr ct (exec ct XFUEL) l a (VRef lc1) ip false false false (upd s1 lc1 o')
    | inr e => (Err e, s1) end.
  Proof.
    intros Hty Hprep Hstrict Hdepth Hv Hidx Hlc1. unfold with_tail. rewrite Hty.
    cbn [family_of h_index pos0 h_pos nth h_kw h_insert h_inplace].
    pose proof (mc_with_item ct l sp s1 lc1 xs ity Hty Hprep Hstrict Hdepth Hlc1 idx v ins Hv Hidx) as Hmc.
    unfold list_with_pure.
    destruct Hidx as [->|[i ->]].
    - destruct (conforms ct ity (abs0 v)); [now rewrite (bind_ok _ _ _ _ _ Hmc)|now rewrite (bind_err _ _ _ _ _ Hmc)].
    - destruct ins.
      + destruct (conforms ct ity (abs0 v)); [now rewrite (bind_ok _ _ _ _ _ Hmc)|now rewrite (bind_err _ _ _ _ _ Hmc)].
      + destruct (norm_index (zlen xs) i); [|now rewrite (bind_err _ _ _ _ _ Hmc)].
        destruct (conforms ct ity (abs0 v)); [now rewrite (bind_ok _ _ _ _ _ Hmc)|now rewrite (bind_err _ _ _ _ _ Hmc)].
  Qed.

  Lemma list_with_pure_scalar ity xs idx v ins o' :
    forallb nonref xs = true -> nonref v = true -> (idx = VMissing \/ exists i, idx = VInt i) ->
    list_with_pure ct ity xs idx v ins = inl o' -> scalar_obj o' = true.
  Proof.
    intros Hxs Hnr Hidx. unfold list_with_pure. intro E.
    assert (H1 : forallb nonref (xs ++ [v]) = true)
      by (apply forallb_app_true; auto; cbn [forallb]; now rewrite Hnr).
    assert (H2 : forall n, forallb nonref (insert_at n v xs) = true).
    { intro n. unfold insert_at. apply forallb_app_true; [now apply forallb_firstn|]. cbn [forallb]. rewrite Hnr.
      cbn [andb]. now apply forallb_skipn. }
    assert (H3 : forall n, forallb nonref (set_at n v xs) = true).
    { intro n. unfold set_at. apply forallb_app_true; [now apply forallb_firstn|]. cbn [forallb]. rewrite Hnr.
      cbn [andb]. now apply forallb_skipn. }
    destruct Hidx as [->|[i ->]].
    - destruct (conforms ct ity (abs0 v)); inversion E; subst; exact H1.
    - destruct ins.
      + destruct (conforms ct ity (abs0 v)); inversion E; subst; apply H2.
      + destruct (norm_index (zlen xs) i); [|discriminate].
        destruct (conforms ct ity (abs0 v)); inversion E; subst; apply H3.
  Qed.

  Lemma list_with_pure_spec ity xs ip idx v ins :
    a_ty sp = TList ity -> a_prepare_item sp = None -> spec_of_ty_strict ity = None ->
    vscalar v = true -> (idx = VMissing \/ exists i, idx = VInt i) ->
    spec_with_item ct h0 sp (aobj (OList xs)) (mkah [abs0 v] ip true (abs0 idx) ins None None [] None) =
    match list_with_pure ct ity xs idx v ins with inl o' => SOk (aobj o') | inr e => SErr e end.
  Proof.
    intros Hty Hprep Hstrict Hv Hidx. cbn [aobj]. unfold spec_with_item, list_with_pure. rewrite Hty.
    cbn [ah_index ah_insert ah_kw apos0 ah_pos nth].
    destruct Hidx as [->|[i ->]]; cbn [abs0 a_is_missing].
    - rewrite (elem_pipeline_scalar ct h0 sp ity Hty Hprep Hstrict AMissing v Hv).
      destruct (conforms ct ity (abs0 v)); cbn [sbind apply_elem spec_elem_op aobj]; [now rewrite map_app|reflexivity].
    - destruct ins.
      + cbn [int_of]. rewrite (elem_pipeline_scalar ct h0 sp ity Hty Hprep Hstrict _ v Hv).
        destruct (conforms ct ity (abs0 v)); cbn [sbind apply_elem spec_elem_op aobj]; [|reflexivity].
        now rewrite map_insert_at, zlen_map.
      + unfold seq_index. cbn [int_of]. rewrite zlen_map.
        destruct (norm_index (zlen xs) i) as [n|]; cbn [sbind]; [|reflexivity].
        rewrite (elem_pipeline_scalar ct h0 sp ity Hty Hprep Hstrict _ v Hv).
        destruct (conforms ct ity (abs0 v)); cbn [sbind apply_elem spec_elem_op aobj]; [|reflexivity].
        now rewrite map_set_at.
  Qed.

  (* ---- list, without_<item> ---- *)
  Lemma without_tail_list ity ip voi bi s1 lc1 xs :
    a_ty sp = TList ity -> ty_depth ity < FUEL -> forallb nonref xs = true -> nonref voi = true ->
    nth_error (heap s1) lc1 = Some (OList xs) ->
    without_tail ct l a sp (mkh [voi] ip true VMissing false bi None [] None) (VRef lc1) s1 =
    match list_without_pure ct ity xs voi bi with
    | inl o' => mutate_attr ct (exec ct XFUEL) l a (VRef lc1) ip false false false (upd s1 lc1 o')
    | inr e => (Err e, s1) end.
  Proof.
    intros Hty Hdepth Hxs Hv Hlc1. unfold without_tail. cbn [is_missing]. rewrite bind_ret. rewrite Hty.
    cbn [family_of pos0 h_pos nth h_by_index h_inplace].
    assert (Hdel : forall i n, norm_index (zlen xs) i = Some n ->
              (p <- read_list (VRef lc1) ;;
               match norm_index (zlen (snd p)) i with
               | Some n => write (fst p) (OList (remove_at n (snd p)))
               | None => fail IndexErr end) s1 = (Ok tt, upd s1 lc1 (OList (remove_at n xs)))).
    { intros i n E. rewrite (bind_ok _ _ _ _ _ (read_list_at lc1 xs s1 Hlc1)). cbn [fst snd]. rewrite E.
      apply write_run. apply nth_error_Some. congruence. }
    rewrite bind_assoc.
    pose proof (seq_extractor_run ct sp ity Hty Hdepth lc1 xs voi true bi s1 Hlc1 Hxs Hv) as E.
    unfold list_without_pure.
    destruct (is_missing voi) eqn:Em.
    - rewrite (bind_ok _ _ _ _ _ E). cbn [fst]. rewrite bind_ret. now rewrite (upd_same s1 lc1 _ Hlc1).
    - destruct (by_index_rule ct ity (abs0 voi) bi).
      + destruct (vint_of voi) as [i|] eqn:Ei; [|now rewrite (bind_err _ _ _ _ _ E)].
        destruct (norm_index (zlen xs) i) as [n|] eqn:En; [|now rewrite (bind_err _ _ _ _ _ E)].
        rewrite (bind_ok _ _ _ _ _ E). cbn [fst].
        assert (Evoi : match voi with VInt z => z | VBool true => 1%Z | _ => 0%Z end = i).
        { destruct voi as [| | | |[|]|z| | |]; cbn [vint_of] in Ei; try discriminate; now inversion Ei. }
        destruct voi as [| | | |b|z| | |]; cbn [vint_of] in Ei; try discriminate;
          rewrite Evoi; now rewrite (bind_ok _ _ _ _ _ (Hdel i n En)).
      + destruct (find_index (fun x => py_eq ct x (abs0 voi)) (map abs0 xs)) as [n|] eqn:Ef;
          [|now rewrite (bind_err _ _ _ _ _ E)].
        rewrite (bind_ok _ _ _ _ _ E). cbn [fst].
        assert (Hn : n < length xs) by (apply find_index_lt in Ef; now rewrite map_length in Ef).
        now rewrite (bind_ok _ _ _ _ _ (Hdel (Z.of_nat n) n (norm_index_nat xs n Hn))).
  Qed.

  Lemma list_without_pure_scalar ity xs voi bi o' :
    forallb nonref xs = true -> list_without_pure ct ity xs voi bi = inl o' -> scalar_obj o' = true.
  Proof.
    intros Hxs. unfold list_without_pure. intro E.
    assert (H1 : forall n, forallb nonref (remove_at n xs) = true).
    { intro n. unfold remove_at. apply forallb_app_true; [now apply forallb_firstn|now apply forallb_skipn]. }
    destruct (is_missing voi); [inversion E; subst; exact Hxs|].
    destruct (by_index_rule ct ity (abs0 voi) bi).
    - destruct (vint_of voi) as [i|]; [|discriminate].
      destruct (norm_index (zlen xs) i); inversion E; subst; apply H1.
    - destruct (find_index _ (map abs0 xs)); inversion E; subst; apply H1.
  Qed.

  Lemma list_without_pure_spec ity xs ip voi bi :
    a_ty sp = TList ity -> nonref voi = true ->
    spec_without_item ct sp (aobj (OList xs)) (mkah [abs0 voi] ip true AMissing false bi None [] None) =
    match list_without_pure ct ity xs voi bi with inl o' => SOk (aobj o') | inr e => SErr e end.
  Proof.
    intros Hty Hv. cbn [aobj]. unfold spec_without_item, list_without_pure. rewrite Hty. cbn [apos0 ah_pos nth ah_by_index].
    assert (Em : a_is_missing (abs0 voi) = is_missing voi) by (destruct voi; try reflexivity; discriminate).
    rewrite Em. destruct (is_missing voi); [reflexivity|].
    rewrite (seq_locate_abs ct ity xs voi bi).
    destruct (by_index_rule ct ity (abs0 voi) bi).
    - destruct (vint_of voi) as [i|]; [|reflexivity].
      destruct (norm_index (zlen xs) i); cbn [sbind apply_elem spec_elem_op aobj]; [now rewrite map_remove_at|reflexivity].
    - destruct (find_index _ (map abs0 xs)); cbn [sbind apply_elem spec_elem_op aobj]; [now rewrite map_remove_at|reflexivity].
  Qed.

  (* ---- dict, with_<item> ---- *)
  Lemma with_tail_dict tk tv ip key v s1 lc1 kvs :
    a_ty sp = TDict tk tv -> a_prepare_item sp = None -> spec_of_ty_strict tv = None ->
    ty_depth tk < FUEL -> ty_depth tv < FUEL -> forallb pair_nonref kvs = true ->
    nonref key = true -> vscalar v = true ->
    nth_error (heap s1) lc1 = Some (ODict kvs) ->
    with_tail ct l a sp (mkh [key; v] ip true VMissing false None None [] None) (VRef lc1) s1 =
    match dict_with_pure ct tk tv kvs key v with
    | inl o' => mutate_attr ct (exec ct XFUEL) l a (VRef lc1) ip false false false (upd s1 lc1 o')
    | inr e => (Err e, s1) end.
  Proof.
    intros Hty Hprep Hstrict Hdk Hdv Hkvs Hk Hv Hlc1.
    assert (Hitem : item_type (a_ty sp) = tv) by (now rewrite Hty).
    assert (Hstrict' : spec_of_ty_strict (item_type (a_ty sp)) = None) by (now rewrite Hitem).
    assert (Hnv : nonref v = true) by (now apply vscalar_nonref).
    unfold with_tail. rewrite Hty. cbn [family_of h_pos h_kw h_inplace].
    assert (Hmc : mutate_collection ct (exec ct XFUEL) FMap sp l (VRef lc1)
                    (mkio key v None None [] true false TriTrue false) s1 =
                  if conforms ct tk (abs0 key) && conforms ct tv (abs0 v)
                  then (Ok (VRef lc1), upd s1 lc1 (ODict (dassign ct [] kvs key v)))
                  else (Err ValueErr, s1)).
    { unfold mutate_collection.
      cbn [is_missing io_voi io_require io_by_index io_new io_replace io_attrs io_transform io_attr_transforms io_insert].
      rewrite bind_ret.
      assert (Hex : exists old, map_extractor ct (VRef lc1) key false s1 = (Ok (key, old), s1)).
      { rewrite (map_extractor_run ct lc1 kvs key false s1 Hlc1 Hk).
        destruct (find (fun p => val_eqb FUEL ct (heap s1) (fst p) key) kvs) as [p|]; eexists; reflexivity. }
      destruct Hex as [old Hex]. rewrite (bind_ok _ _ _ _ _ Hex). cbn [fst snd].
      assert (Hmv : exec ct XFUEL (KMutateValue (mkmv old v true (PItem sp l) None
                       (Some (ctor_of_ty (item_type (a_ty sp)))) (Some (item_type (a_ty sp))) None [] false)) s1 = (Ok v, s1)).
      { rewrite XFUEL_S, exec_S. cbn [body]. now apply mutate_value_new_scalar. }
      rewrite (bind_ok _ _ _ _ _ Hmv). unfold bind.
      rewrite (map_inserter_run ct sp tk tv lc1 kvs key v s1 Hty Hdk Hdv Hlc1 Hk Hnv).
      rewrite (dassign_heap_indep ct (heap s1) kvs key v Hkvs Hk).
      destruct (conforms ct tk (abs0 key) && conforms ct tv (abs0 v)); reflexivity. }
    unfold dict_with_pure.
    destruct (conforms ct tk (abs0 key) && conforms ct tv (abs0 v));
      [now rewrite (bind_ok _ _ _ _ _ Hmc)|now rewrite (bind_err _ _ _ _ _ Hmc)].
  Qed.

  Lemma dict_with_pure_scalar tk tv kvs key v o' :
    forallb pair_nonref kvs = true -> nonref key = true -> nonref v = true ->
    dict_with_pure ct tk tv kvs key v = inl o' -> scalar_obj o' = true.
  Proof.
    intros Hkvs Hk Hnv. unfold dict_with_pure.
    destruct (conforms ct tk (abs0 key) && conforms ct tv (abs0 v)); intro E; inversion E; subst.
    cbn [scalar_obj]. now apply dassign_scalar.
  Qed.

  Lemma dict_with_pure_spec tk tv kvs ip key v :
    a_ty sp = TDict tk tv -> a_prepare_item sp = None -> spec_of_ty_strict tv = None ->
    forallb pair_nonref kvs = true -> nonref key = true -> vscalar v = true ->
    spec_with_item ct h0 sp (aobj (ODict kvs)) (mkah [abs0 key; abs0 v] ip true AMissing false None None [] None) =
    match dict_with_pure ct tk tv kvs key v with inl o' => SOk (aobj o') | inr e => SErr e end.
  Proof.
    intros Hty Hprep Hstrict Hkvs Hk Hv.
    assert (Hitem : item_type (a_ty sp) = tv) by (now rewrite Hty).
    assert (Hstrict' : spec_of_ty_strict (item_type (a_ty sp)) = None) by (now rewrite Hitem).
    cbn [aobj]. unfold spec_with_item, dict_with_pure. rewrite Hty. cbn [ah_pos apos1 nth ah_kw].
    rewrite (a_hashable_abs0 key Hk). cbn [negb].
    rewrite (elem_pipeline_new_scalar_gen ct h0 sp Hprep Hstrict' _ v true Hv). rewrite Hitem.
    destruct (conforms ct tv (abs0 v)); cbn [sbind]; [|now rewrite andb_false_r].
    rewrite andb_true_r. destruct (conforms ct tk (abs0 key)); [|reflexivity].
    cbn [apply_elem spec_elem_op aobj]. now rewrite dassign_abs.
  Qed.

  (* ---- dict, without_<item> ---- *)
  Lemma without_tail_dict tk tv ip key s1 lc1 kvs :
    a_ty sp = TDict tk tv -> forallb pair_nonref kvs = true -> nonref key = true ->
    nth_error (heap s1) lc1 = Some (ODict kvs) ->
    without_tail ct l a sp (mkh [key] ip true VMissing false None None [] None) (VRef lc1) s1 =
    match dict_without_pure ct kvs key with
    | inl o' => mutate_attr ct (exec ct XFUEL) l a (VRef lc1) ip false false false (upd s1 lc1 o')
    | inr e => (Err e, s1) end.
  Proof.
    intros Hty Hkvs Hk Hlc1.
    assert (Efind : forall hh, find (fun p => val_eqb FUEL ct hh (fst p) key) kvs =
                               find (fun p => val_eqb FUEL ct [] (fst p) key) kvs).
    { intro hh. apply find_ext_in. intros p Hp. rewrite forallb_forall in Hkvs. specialize (Hkvs p Hp).
      unfold pair_nonref in Hkvs. apply andb_true_iff in Hkvs. apply val_eqb_heap_indep; tauto. }
    assert (Efilter : forall hh, filter (fun q => negb (val_eqb FUEL ct hh (fst q) key)) kvs =
                                 filter (fun q => negb (val_eqb FUEL ct [] (fst q) key)) kvs).
    { intro hh. apply filter_ext_in'. intros p Hp. rewrite forallb_forall in Hkvs. specialize (Hkvs p Hp).
      unfold pair_nonref in Hkvs. apply andb_true_iff in Hkvs.
      rewrite (val_eqb_heap_indep ct FUEL hh (fst p) key (proj1 Hkvs) Hk). reflexivity. }
    unfold without_tail. cbn [is_missing]. rewrite bind_ret. rewrite Hty.
    cbn [family_of pos0 h_pos nth h_inplace].
    rewrite bind_assoc.
    pose proof (map_extractor_run ct lc1 kvs key true s1 Hlc1 Hk) as E. rewrite Efind in E.
    unfold dict_without_pure.
    destruct (find (fun p => val_eqb FUEL ct [] (fst p) key) kvs) as [p|]; [|now rewrite (bind_err _ _ _ _ _ E)].
    rewrite (bind_ok _ _ _ _ _ E). cbn [fst].
    rewrite bind_assoc. rewrite (bind_ok _ _ _ _ _ (read_dict_at lc1 kvs s1 Hlc1)). cbn [fst snd].
    rewrite bind_assoc. rewrite (bind_ok get_heap _ s1 (heap s1) s1 eq_refl).
    assert (Hlen : lc1 < length (heap s1)) by (apply nth_error_Some; congruence).
    rewrite (bind_ok _ _ _ _ _ (write_run lc1 _ s1 Hlen)). now rewrite Efilter.
  Qed.

  Lemma dict_without_pure_scalar kvs key o' :
    forallb pair_nonref kvs = true -> dict_without_pure ct kvs key = inl o' -> scalar_obj o' = true.
  Proof.
    intros Hkvs. unfold dict_without_pure.
    destruct (find _ kvs); intro E; inversion E; subst. cbn [scalar_obj]. now apply forallb_filter_true.
  Qed.

  Lemma dict_without_pure_spec tk tv kvs ip key :
    a_ty sp = TDict tk tv -> forallb pair_nonref kvs = true -> nonref key = true ->
    spec_without_item ct sp (aobj (ODict kvs)) (mkah [abs0 key] ip true AMissing false None None [] None) =
    match dict_without_pure ct kvs key with inl o' => SOk (aobj o') | inr e => SErr e end.
  Proof.
    intros Hty Hkvs Hk. cbn [aobj]. unfold spec_without_item, dict_without_pure. rewrite Hty. cbn [ah_pos apos0 nth].
    rewrite (a_hashable_abs0 key Hk). cbn [negb].
    rewrite (dict_get_abs ct [] kvs key Hkvs Hk).
    destruct (find (fun p => val_eqb FUEL ct [] (fst p) key) kvs); cbn [option_map]; [|reflexivity].
    cbn [apply_elem spec_elem_op aobj]. now rewrite (dict_del_abs ct [] kvs key Hkvs Hk).
  Qed.

  (* ---- set, with_<item> ---- *)
  Lemma mem_heap_indep hh xs v : forallb nonref xs = true -> nonref v = true ->
    existsb (fun x => val_eqb FUEL ct hh x v) xs = existsb (fun x => val_eqb FUEL ct [] x v) xs.
  Proof.
    intros Hxs Hv. apply existsb_ext_in. intros x Hx. rewrite forallb_forall in Hxs. apply val_eqb_heap_indep; auto.
  Qed.

  Lemma with_tail_set ity ip v s1 lc1 xs :
    a_ty sp = TSet ity -> a_prepare_item sp = None -> spec_of_ty_strict ity = None -> ty_depth ity < FUEL ->
    forallb nonref xs = true -> vscalar v = true ->
    nth_error (heap s1) lc1 = Some (OSet xs) ->
    with_tail ct l a sp (mkh [v] ip true VMissing false None None [] None) (VRef lc1) s1 =
    match set_with_pure ct ity xs v with
    | inl o' => mutate_attr ct (exec ct XFUEL) l a (VRef lc1) ip false false false (upd s1 lc1 o')
    | inr e => (Err e, s1) end.
  Proof.
    intros Hty Hprep Hstrict Hdepth Hxs Hv Hlc1.
    assert (Hitem : item_type (a_ty sp) = ity) by (now rewrite Hty).
    assert (Hstrict' : spec_of_ty_strict (item_type (a_ty sp)) = None) by (now rewrite Hitem).
    assert (Hnv : nonref v = true) by (now apply vscalar_nonref).
    set (mem := existsb (fun x => val_eqb FUEL ct [] x v) xs).
    unfold with_tail. rewrite Hty. cbn [family_of pos0 h_pos nth h_kw h_inplace].
    assert (Hmc : mutate_collection ct (exec ct XFUEL) FSet sp l (VRef lc1)
                    (mkio VMissing v None None [] true false TriTrue false) s1 =
                  if conforms ct ity (abs0 v)
                  then (Ok (VRef lc1), upd s1 lc1 (OSet (if mem then xs else xs ++ [v])))
                  else (Err ValueErr, s1)).
    { unfold mutate_collection.
      cbn [is_missing io_voi io_require io_by_index io_new io_replace io_attrs io_transform io_attr_transforms io_insert].
      rewrite bind_ret.
      assert (Hex : exists old, set_extractor ct (VRef lc1) VMissing false s1 = (Ok (VMissing, old), s1)).
      { rewrite (set_extractor_run ct lc1 xs VMissing false s1 Hlc1 eq_refl).
        destruct (existsb (fun x => val_eqb FUEL ct (heap s1) x VMissing) xs); eexists; reflexivity. }
      destruct Hex as [old Hex]. rewrite (bind_ok _ _ _ _ _ Hex). cbn [fst snd].
      assert (Hmv : exec ct XFUEL (KMutateValue (mkmv old v true (PItem sp l) None
                       (Some (ctor_of_ty (item_type (a_ty sp)))) (Some (item_type (a_ty sp))) None [] false)) s1 = (Ok v, s1)).
      { rewrite XFUEL_S, exec_S. cbn [body]. now apply mutate_value_new_scalar. }
      rewrite (bind_ok _ _ _ _ _ Hmv). unfold bind at 1. unfold set_inserter.
      rewrite (bind_ok (check_typeM ct v (item_type (a_ty sp))) _ s1
                       (check_type FUEL ct (heap s1) v (item_type (a_ty sp))) s1 eq_refl).
      rewrite Hitem, check_type_nonref by auto.
      destruct (conforms ct ity (abs0 v)); [|reflexivity]. cbn [negb].
      rewrite (bind_ok _ _ _ _ _ (read_set_at lc1 xs s1 Hlc1)). cbn [fst snd is_missing negb]. rewrite bind_ret.
      rewrite (bind_ok _ _ _ _ _ (set_mem_run ct xs v s1 Hnv)). rewrite (mem_heap_indep (heap s1) xs v Hxs Hnv). fold mem.
      assert (Hlen : lc1 < length (heap s1)) by (apply nth_error_Some; congruence).
      rewrite (write_run lc1 _ s1 Hlen). reflexivity. }
    unfold set_with_pure. fold mem.
    destruct (conforms ct ity (abs0 v)); [now rewrite (bind_ok _ _ _ _ _ Hmc)|now rewrite (bind_err _ _ _ _ _ Hmc)].
  Qed.

  Lemma set_with_pure_scalar ity xs v o' :
    forallb nonref xs = true -> nonref v = true -> set_with_pure ct ity xs v = inl o' -> scalar_obj o' = true.
  Proof.
    intros Hxs Hnv. unfold set_with_pure.
    destruct (conforms ct ity (abs0 v)); intro E; inversion E; subst. cbn [scalar_obj].
    destruct (existsb _ xs); auto. apply forallb_app_true; auto. cbn [forallb]. now rewrite Hnv.
  Qed.

  Lemma set_with_pure_spec ity xs ip v :
    a_ty sp = TSet ity -> a_prepare_item sp = None -> spec_of_ty_strict ity = None ->
    forallb nonref xs = true -> vscalar v = true -> set_key_free ct xs v = true ->
    spec_with_item ct h0 sp (aobj (OSet xs)) (mkah [abs0 v] ip true AMissing false None None [] None) =
    match set_with_pure ct ity xs v with inl o' => SOk (aobj o') | inr e => SErr e end.
  Proof.
    intros Hty Hprep Hstrict Hxs Hv Hkf.
    assert (Hitem : item_type (a_ty sp) = ity) by (now rewrite Hty).
    assert (Hstrict' : spec_of_ty_strict (item_type (a_ty sp)) = None) by (now rewrite Hitem).
    assert (Hnv : nonref v = true) by (now apply vscalar_nonref).
    set (mem := existsb (fun x => val_eqb FUEL ct [] x v) xs).
    assert (Hmem : set_has ct (cset xs) (abs0 v) = mem) by (symmetry; apply mem_abs; auto).
    cbn [aobj]. unfold spec_with_item, set_with_pure. fold mem. rewrite Hty. cbn [ah_pos apos0 nth ah_kw].
    rewrite (elem_pipeline_new_scalar_gen ct h0 sp Hprep Hstrict' _ v true Hv). rewrite Hitem.
    destruct (conforms ct ity (abs0 v)); cbn [sbind]; [|reflexivity].
    rewrite (a_hashable_abs0 v Hnv). cbn [apply_elem spec_elem_op aobj]. unfold set_add. rewrite Hmem.
    destruct mem eqn:Em; [reflexivity|]. rewrite (cset_snoc ct xs v Hxs Hnv Hkf); [reflexivity|]. now rewrite Hmem.
  Qed.

  (* ---- set, without_<item> ---- *)
  Lemma without_tail_set ity ip voi s1 lc1 xs :
    a_ty sp = TSet ity -> forallb nonref xs = true -> nonref voi = true ->
    nth_error (heap s1) lc1 = Some (OSet xs) ->
    without_tail ct l a sp (mkh [voi] ip true VMissing false None None [] None) (VRef lc1) s1 =
    match set_without_pure ct xs voi with
    | inl o' => mutate_attr ct (exec ct XFUEL) l a (VRef lc1) ip false false false (upd s1 lc1 o')
    | inr e => (Err e, s1) end.
  Proof.
    intros Hty Hxs Hv Hlc1.
    set (mem := existsb (fun x => val_eqb FUEL ct [] x voi) xs).
    assert (Efilter : forall hh, filter (fun x => negb (val_eqb FUEL ct hh x voi)) xs =
                                 filter (fun x => negb (val_eqb FUEL ct [] x voi)) xs).
    { intro hh. apply filter_ext_in'. intros x Hx. rewrite forallb_forall in Hxs.
      rewrite (val_eqb_heap_indep ct FUEL hh x voi (Hxs x Hx) Hv). reflexivity. }
    unfold without_tail. cbn [is_missing]. rewrite bind_ret. rewrite Hty.
    cbn [family_of pos0 h_pos nth h_inplace].
    rewrite bind_assoc.
    pose proof (set_extractor_run ct lc1 xs voi true s1 Hlc1 Hv) as E. rewrite (mem_heap_indep (heap s1) xs voi Hxs Hv) in E.
    fold mem in E. unfold set_without_pure. fold mem.
    destruct mem; [|now rewrite (bind_err _ _ _ _ _ E)].
    rewrite (bind_ok _ _ _ _ _ E). cbn [fst].
    rewrite bind_assoc. rewrite (bind_ok _ _ _ _ _ (read_set_at lc1 xs s1 Hlc1)). cbn [fst snd].
    rewrite bind_assoc.
    assert (Ed : set_discard ct xs voi s1 = (Ok (filter (fun x => negb (val_eqb FUEL ct [] x voi)) xs), s1)).
    { unfold set_discard. rewrite hashable_nonref, Hv. rewrite <- (Efilter (heap s1)). reflexivity. }
    rewrite (bind_ok _ _ _ _ _ Ed).
    assert (Hlen : lc1 < length (heap s1)) by (apply nth_error_Some; congruence).
    now rewrite (bind_ok _ _ _ _ _ (write_run lc1 _ s1 Hlen)).
  Qed.

  Lemma set_without_pure_scalar xs voi o' :
    forallb nonref xs = true -> set_without_pure ct xs voi = inl o' -> scalar_obj o' = true.
  Proof.
    intros Hxs. unfold set_without_pure.
    destruct (existsb _ xs); intro E; inversion E; subst. cbn [scalar_obj]. now apply forallb_filter_true.
  Qed.

  Lemma set_without_pure_spec ity xs ip voi :
    a_ty sp = TSet ity -> forallb nonref xs = true -> nonref voi = true ->
    spec_without_item ct sp (aobj (OSet xs)) (mkah [abs0 voi] ip true AMissing false None None [] None) =
    match set_without_pure ct xs voi with inl o' => SOk (aobj o') | inr e => SErr e end.
  Proof.
    intros Hty Hxs Hv.
    set (mem := existsb (fun x => val_eqb FUEL ct [] x voi) xs).
    assert (Hmem : set_has ct (cset xs) (abs0 voi) = mem) by (symmetry; apply mem_abs; auto).
    cbn [aobj]. unfold spec_without_item, set_without_pure. fold mem. rewrite Hty. cbn [ah_pos apos0 nth].
    rewrite (a_hashable_abs0 voi Hv). cbn [negb]. rewrite Hmem. destruct mem; [|reflexivity].
    cbn [apply_elem spec_elem_op aobj]. now rewrite (cset_filter ct [] xs voi Hxs Hv).
  Qed.
End Tails.

(* ------------------------------------------------------------------ *)
(** * The receiver after a fresh container of scalars has been stored in attribute a *)

Lemma abs_inst_set_field h l c d n a lv ov :
  nth_error h l = Some (OInst c d) -> NoDup (map fst d) -> flat_fields h d ->
  nth_error h lv = Some ov -> scalar_obj ov = true ->
  abs (S (S n)) (set_nth l (OInst c (assoc_set a (VRef lv) d)) h) (VRef l) =
  AInst c (fset a (aobj ov) (map (fun p => (fst p, abs (S n) h (snd p))) (sorted_fields d))).
Proof.
  intros Hl Hd Hflat Hlv Hov.
  assert (Hne : lv <> l) by (intro E; subst lv; rewrite Hl in Hlv; inversion Hlv; subst ov; discriminate).
  assert (Hlen : l < length h) by (apply nth_error_Some; congruence).
  set (h' := set_nth l (OInst c (assoc_set a (VRef lv) d)) h).
  rewrite (abs_inst h' l c (assoc_set a (VRef lv) d) (S n)) by (now apply nth_error_set_nth_same).
  f_equal.
  transitivity (map (fun p => (fst p, abs (S n) h (snd p))) (sorted_fields (assoc_set a (VRef lv) d))).
  - apply map_ext_in. intros [b w] Hb. cbn [fst snd]. f_equal.
    unfold sorted_fields in Hb. apply In_sort_by in Hb. apply in_assoc_set in Hb.
    destruct Hb as [E|Hb].
    + inversion E; subst. eapply abs_scalar_obj; eauto. unfold h'. rewrite set_nth_other; auto.
    + destruct (Hflat (b, w) Hb) as [Hw|[lx [o [Ew [Ho Hso]]]]]; cbn [snd] in *.
      * now rewrite !abs_nonref_eq.
      * subst w. assert (lx <> l) by (intro; subst lx; rewrite Hl in Ho; inversion Ho; subst o; discriminate).
        eapply abs_scalar_obj; eauto. unfold h'. rewrite set_nth_other; auto.
  - pose proof (nodup_assoc_set a (VRef lv) d Hd) as Hd'.
    destruct (sorted_fields_props d Hd) as [S A]. destruct (sorted_fields_props _ Hd') as [S' A'].
    apply ssorted_ext.
    + now apply ssorted_map_fields.
    + apply ssorted_fset. now apply ssorted_map_fields.
    + intro k. rewrite assoc_fset, !assoc_map_fields, A', A, assoc_assoc_set.
      destruct (a =? k); [|reflexivity]. cbn [option_map]. f_equal. now apply abs_scalar_cell.
Qed.

(* every old cell but the receiver's keeps its content *)
Definition old_cells_kept_but (s s' : state) (l : loc) : Prop :=
  forall i, i < length (heap s) -> i <> l -> nth_error (heap s') i = nth_error (heap s) i.

(* ------------------------------------------------------------------ *)
(** * The frame: an element helper in place on an attribute that holds nothing *)

Section MissingFrame.
  Variable ct : ctable.
  Variable h0 : list obj.
  Variables (l : loc) (a : aid) (c : cid) (d : list (aid * val)) (k : cls) (sp : attr_spec).
  Variable s : state.
  Hypothesis Hl : nth_error (heap s) l = Some (OInst c d).
  Hypothesis Hc : lookup_cls ct c = Some k.
  Hypothesis Ha : lookup_attr k a = Some sp.
  Hypothesis Hd : NoDup (map fst d).
  Hypothesis Hfz : c_frozen k = false.
  Hypothesis Hni : no_dep k a.
  Hypothesis Hcoll : ty_is_collection (a_ty sp) = true.
  Hypothesis Hnone : assoc a d = None.                      (* nothing in the instance dict *)
  Hypothesis Hov : assoc a (c_overrides k) = None.          (* no class-level value *)
  Hypothesis Hdef : a_default sp = VMissing.
  Hypothesis Hflat : flat_fields (heap s) d.

  Variable oe : obj.                                        (* the empty container of the declared family *)
  Hypothesis Hoe : scalar_obj oe = true.
  Hypothesis Hcreate : forall s1, create_collection (exec ct XFUEL) sp s1 = (Ok (VRef (length (heap s1))), push s1 oe).
  Hypothesis Hempty : empty_of (sexec ct h0 SFUEL) (a_ty sp) = SOk (aobj oe).

  Let flds := map (fun p => (fst p, abs 23 (heap s) (snd p))) (sorted_fields d).
  Let lnew := length (heap s).

  Lemma ms_mk_mutator : mk_mutator ct sp l true s = (Ok VMissing, s).
  Proof.
    unfold mk_mutator. rewrite (bind_ok _ _ _ _ _ (read_inst_at l s c d Hl)). cbn [fst snd].
    rewrite (bind_ok _ _ _ _ _ (cls_of_at ct c s k Hc)). rewrite Hfz. cbn [andb]. rewrite bind_ret.
    rewrite (name_sp a k sp Ha).
    assert (E : getattr_default ct l a s = (Ok VMissing, s)).
    { unfold getattr_default. rewrite (bind_ok _ _ _ _ _ (read_inst_at l s c d Hl)). cbn [fst snd]. rewrite Hnone.
      rewrite (bind_ok _ _ _ _ _ (cls_of_at ct c s k Hc)). unfold class_default. now rewrite Hov, Ha, Hdef. }
    rewrite (bind_ok _ _ _ _ _ E). reflexivity.
  Qed.

  Lemma ms_with_tail h : with_tail ct l a sp h VMissing s = with_tail ct l a sp h (VRef lnew) (push s oe).
  Proof.
    unfold with_tail.
    assert (Hmc : forall fam io, mutate_collection ct (exec ct XFUEL) fam sp l VMissing io s =
                                 mutate_collection ct (exec ct XFUEL) fam sp l (VRef lnew) io (push s oe)).
    { intros fam io. unfold mutate_collection. cbn [is_missing].
      rewrite (bind_ok _ _ _ _ _ (Hcreate s)). rewrite bind_ret. reflexivity. }
    destruct (a_ty sp); cbn [ty_is_collection ty_is_list ty_is_dict ty_is_set orb] in Hcoll; try discriminate;
      cbn [family_of]; unfold bind at 1; rewrite Hmc; reflexivity.
  Qed.

  Lemma ms_without_tail h : without_tail ct l a sp h VMissing s = without_tail ct l a sp h (VRef lnew) (push s oe).
  Proof.
    unfold without_tail. cbn [is_missing]. rewrite (bind_ok _ _ _ _ _ (Hcreate s)). rewrite bind_ret. reflexivity.
  Qed.

  Lemma ms_spec_closed hp (edit : attr_spec -> aval -> ahargs -> sres aval) ah (r : sres aval) :
    ah_if ah = true ->
    spec_unfrozen ct h0 (AInst c flds) hp ah = spec_elem_helper ct h0 (AInst c flds) a ah edit ->
    edit sp (aobj oe) ah = r ->
    spec_helper ct h0 (absv (heap s) (VRef l)) hp ah =
    (c' <~ r ;; SOk (AInst c (fset a c' flds))).
  Proof.
    intros Hif Hun Hr. rewrite (recv_abs l c d s Hl). fold flds. unfold spec_helper. rewrite Hif. cbn [negb].
    unfold frozen_class. rewrite Hc, Hfz, andb_false_r. rewrite Hun.
    unfold spec_elem_helper, attr_of, cls_for. rewrite Hc. cbn [sbind]. rewrite Ha.
    unfold read_attr.
    assert (Hcur : assoc a flds = None).
    { unfold flds. destruct (sorted_fields_props d Hd) as [_ A]. now rewrite assoc_map_fields, A, Hnone. }
    rewrite Hcur. unfold cls_for. rewrite Hc. cbn [sbind]. rewrite Hov, Ha, Hdef.
    assert (absv h0 VMissing = AMissing) as -> by (rewrite absv_unfold; now apply abs_nonref_eq).
    cbn [sbind]. rewrite Hcoll. unfold coll_of. cbn [a_is_missing]. rewrite Hempty. cbn [sbind]. rewrite Hr.
    destruct r as [c'| | |]; cbn [sbind]; auto.
    unfold invalidate, cls_for. rewrite Hc. cbn [sbind]. rewrite invalidatees_nodep by auto. reflexivity.
  Qed.

  Variable tail : val -> M val.
  Variable pe : obj + err.
  Hypothesis Htail0 : tail VMissing s = tail (VRef lnew) (push s oe).
  Hypothesis Htail : forall s1 lc1, nth_error (heap s1) lc1 = Some oe ->
    tail (VRef lc1) s1 =
    match pe with
    | inl o' => mutate_attr ct (exec ct XFUEL) l a (VRef lc1) true false false false (upd s1 lc1 o')
    | inr e => (Err e, s1)
    end.
  Hypothesis Hsc : forall o', pe = inl o' -> scalar_obj o' = true.

  Theorem ms_whole (hp : shelper) (edit : attr_spec -> aval -> ahargs -> sres aval) ah res :
    ah_if ah = true ->
    spec_unfrozen ct h0 (AInst c flds) hp ah = spec_elem_helper ct h0 (AInst c flds) a ah edit ->
    edit sp (aobj oe) ah = match pe with inl o' => SOk (aobj o') | inr e => SErr e end ->
    res = bind (mk_mutator ct sp l true) tail s ->
    match res with
    | (Ok r, s') => r = VRef l /\ old_cells_kept_but s s' l /\
                    spec_helper ct h0 (absv (heap s) (VRef l)) hp ah = SOk (absv (heap s') (VRef l))
    | (Err e, s') => spec_helper ct h0 (absv (heap s) (VRef l)) hp ah = SErr e /\ old_cells_kept s s'
    end.
  Proof.
    intros Hif Hun Hspec ->.
    rewrite (ms_spec_closed hp edit ah _ Hif Hun Hspec).
    rewrite (bind_ok _ _ _ _ _ ms_mk_mutator). rewrite Htail0.
    assert (Hlp : nth_error (heap (push s oe)) lnew = Some oe).
    { unfold push, lnew. cbn [heap]. now rewrite nth_error_app2, Nat.sub_diag by lia. }
    rewrite (Htail (push s oe) lnew Hlp).
    assert (Hold_p : old_cells_kept s (push s oe)).
    { intros i Hi. unfold push. cbn [heap]. now apply nth_error_app1. }
    destruct pe as [o'|e]; [|split; auto].
    set (se := upd (push s oe) lnew o').
    assert (Hold_e : old_cells_kept s se).
    { intros i Hi. unfold se. rewrite heap_upd, set_nth_other by (unfold lnew; lia). now apply Hold_p. }
    assert (Hllt : l < length (heap s)) by (apply nth_error_Some; congruence).
    assert (Hl_e : nth_error (heap se) l = Some (OInst c d)) by (rewrite Hold_e; auto).
    assert (Hlp_e : nth_error (heap se) lnew = Some o').
    { unfold se. apply upd_at. unfold push. cbn [heap]. rewrite app_length. cbn [length]. unfold lnew. lia. }
    assert (Hflat_e : flat_fields (heap se) d).
    { intros p Hp. destruct (Hflat p Hp) as [Hn|[lx [ox [E [Hx Hs]]]]]; [left; auto|].
      right. exists lx, ox. split; auto. split; auto. rewrite Hold_e; auto. apply nth_error_Some. congruence. }
    fold se.
    rewrite (mutate_attr_inplace_run_nodep ct (exec ct XFUEL) l a (VRef lnew) false se c d k Hl_e Hc Hfz eq_refl Hni).
    split; [reflexivity|]. split.
    { intros i Hi Hil. rewrite heap_upd, set_nth_other by auto. now apply Hold_e. }
    cbn [sbind]. f_equal. rewrite heap_upd, absv_unfold.
    rewrite (abs_inst_set_field (heap se) l c d 22 a lnew o' Hl_e Hd Hflat_e Hlp_e (Hsc o' eq_refl)).
    assert (Hf : forall n, map (fun p : aid * val => (fst p, abs (S n) (heap se) (snd p))) (sorted_fields d) =
                           map (fun p : aid * val => (fst p, abs (S n) (heap s) (snd p))) (sorted_fields d)).
    { intro n. apply map_ext_in. intros [b0 w] Hb. cbn [fst snd]. f_equal.
      unfold sorted_fields in Hb. apply In_sort_by in Hb.
      destruct (Hflat (b0, w) Hb) as [Hn|[lx [ox [E [Hx Hs]]]]]; cbn [snd] in *.
      + now rewrite !abs_nonref_eq.
      + subst w. eapply abs_scalar_obj; eauto. rewrite Hold_e; auto. apply nth_error_Some. congruence. }
    rewrite (Hf 22). reflexivity.
  Qed.
End MissingFrame.

(* ------------------------------------------------------------------ *)
(** * with_<item> / without_<item> in place on an attribute that holds nothing *)

Definition missing_refines_spec (ct : ctable) (h0 : list obj) (s : state) (l : loc)
           (hp : helper) (h : hargs) (shp : shelper) (ah : ahargs) : Prop :=
  match run_helper ct l hp h s with
  | (Ok r, s') => r = VRef l /\ old_cells_kept_but s s' l /\
                  spec_helper ct h0 (absv (heap s) (VRef l)) shp ah = SOk (absv (heap s') (VRef l))
  | (Err e, s') => spec_helper ct h0 (absv (heap s) (VRef l)) shp ah = SErr e /\ old_cells_kept s s'
  end.

Section MissingAttr.
  Variable ct : ctable.
  Variable h0 : list obj.
  Variables (l : loc) (a : aid) (c : cid) (d : list (aid * val)) (k : cls) (sp : attr_spec).
  Variable s : state.
  Hypothesis Hl : nth_error (heap s) l = Some (OInst c d).
  Hypothesis Hc : lookup_cls ct c = Some k.
  Hypothesis Ha : lookup_attr k a = Some sp.
  Hypothesis Hd : NoDup (map fst d).
  Hypothesis Hfz : c_frozen k = false.
  Hypothesis Hni : no_dep k a.
  Hypothesis Hnone : assoc a d = None.
  Hypothesis Hov : assoc a (c_overrides k) = None.
  Hypothesis Hdef : a_default sp = VMissing.
  Hypothesis Hflat : flat_fields (heap s) d.

  Lemma create_list ity : a_ty sp = TList ity ->
    forall s1, create_collection (exec ct XFUEL) sp s1 = (Ok (VRef (length (heap s1))), push s1 (OList [])).
  Proof. intros Hty s1. unfold create_collection. rewrite Hty. reflexivity. Qed.
  Lemma create_dict tk tv : a_ty sp = TDict tk tv ->
    forall s1, create_collection (exec ct XFUEL) sp s1 = (Ok (VRef (length (heap s1))), push s1 (ODict [])).
  Proof. intros Hty s1. unfold create_collection. rewrite Hty. reflexivity. Qed.
  Lemma create_set ity : a_ty sp = TSet ity ->
    forall s1, create_collection (exec ct XFUEL) sp s1 = (Ok (VRef (length (heap s1))), push s1 (OSet [])).
  Proof. intros Hty s1. unfold create_collection. rewrite Hty. reflexivity. Qed.

  Lemma run_with_missing h : h_if h = true -> h_inplace h = true ->
    run_helper ct l (HWithItem a) h s = bind (mk_mutator ct sp l true) (with_tail ct l a sp h) s.
  Proof.
    intros Hif Hin. rewrite (run_with_tail ct l a h s Hif).
    rewrite (bind_ok _ _ _ _ _ (fr_spec_for ct l a c d k sp s Hl Hc Ha)). cbn [snd]. now rewrite Hin.
  Qed.
  Lemma run_without_missing h : h_if h = true -> h_inplace h = true ->
    run_helper ct l (HWithoutItem a) h s = bind (mk_mutator ct sp l true) (without_tail ct l a sp h) s.
  Proof.
    intros Hif Hin. rewrite (run_without_tail ct l a h s Hif).
    rewrite (bind_ok _ _ _ _ _ (fr_spec_for ct l a c d k sp s Hl Hc Ha)). cbn [snd]. now rewrite Hin.
  Qed.

  (* ---------------- lists ---------------- *)
  Theorem with_item_list_missing_refines ity idx v ins :
    a_ty sp = TList ity -> a_prepare_item sp = None -> spec_of_ty_strict ity = None -> ty_depth ity < FUEL ->
    vscalar v = true -> (idx = VMissing \/ exists i, idx = VInt i) ->
    missing_refines_spec ct h0 s l (HWithItem a) (mkh [v] true true idx ins None None [] None)
                         (SWithItem a) (mkah [abs0 v] true true (abs0 idx) ins None None [] None).
  Proof.
    intros Hty Hprep Hstrict Hdepth Hv Hidx. unfold missing_refines_spec.
    assert (Hcoll : ty_is_collection (a_ty sp) = true) by (now rewrite Hty).
    assert (Hempty : empty_of (sexec ct h0 SFUEL) (a_ty sp) = SOk (aobj (OList []))) by (now rewrite Hty).
    set (h := mkh [v] true true idx ins None None [] None).
    apply (ms_whole ct h0 l a c d k sp s Hl Hc Ha Hd Hfz Hni Hcoll Hnone Hov Hdef Hflat (OList []) Hempty
             (with_tail ct l a sp h) (list_with_pure ct ity [] idx v ins)) with (edit := spec_with_item ct h0);
      try reflexivity.
    - exact (ms_with_tail ct h0 l a sp s Hcoll (OList []) (create_list ity Hty) Hempty h).
    - intros s1 lc1 H1. now apply with_tail_list.
    - intros o' E. apply (list_with_pure_scalar ct ity [] idx v ins o'); auto. now apply vscalar_nonref.
    - now apply list_with_pure_spec.
    - now apply run_with_missing.
  Qed.

  Theorem without_item_list_missing_refines ity voi bi :
    a_ty sp = TList ity -> ty_depth ity < FUEL -> nonref voi = true ->
    missing_refines_spec ct h0 s l (HWithoutItem a) (mkh [voi] true true VMissing false bi None [] None)
                         (SWithoutItem a) (mkah [abs0 voi] true true AMissing false bi None [] None).
  Proof.
    intros Hty Hdepth Hv. unfold missing_refines_spec.
    assert (Hcoll : ty_is_collection (a_ty sp) = true) by (now rewrite Hty).
    assert (Hempty : empty_of (sexec ct h0 SFUEL) (a_ty sp) = SOk (aobj (OList []))) by (now rewrite Hty).
    set (h := mkh [voi] true true VMissing false bi None [] None).
    apply (ms_whole ct h0 l a c d k sp s Hl Hc Ha Hd Hfz Hni Hcoll Hnone Hov Hdef Hflat (OList []) Hempty
             (without_tail ct l a sp h) (list_without_pure ct ity [] voi bi)) with (edit := spec_without_item ct);
      try reflexivity.
    - exact (ms_without_tail ct l a sp s (OList []) (create_list ity Hty) h).
    - intros s1 lc1 H1. now apply without_tail_list.
    - intros o' E. now apply (list_without_pure_scalar ct ity [] voi bi o').
    - now apply list_without_pure_spec.
    - now apply run_without_missing.
  Qed.

  (* ---------------- dicts ---------------- *)
  Theorem with_item_dict_missing_refines tk tv key v :
    a_ty sp = TDict tk tv -> a_prepare_item sp = None -> spec_of_ty_strict tv = None ->
    ty_depth tk < FUEL -> ty_depth tv < FUEL -> nonref key = true -> vscalar v = true ->
    missing_refines_spec ct h0 s l (HWithItem a) (mkh [key; v] true true VMissing false None None [] None)
                         (SWithItem a) (mkah [abs0 key; abs0 v] true true AMissing false None None [] None).
  Proof.
    intros Hty Hprep Hstrict Hdk Hdv Hk Hv. unfold missing_refines_spec.
    assert (Hcoll : ty_is_collection (a_ty sp) = true) by (now rewrite Hty).
    assert (Hempty : empty_of (sexec ct h0 SFUEL) (a_ty sp) = SOk (aobj (ODict []))) by (now rewrite Hty).
    set (h := mkh [key; v] true true VMissing false None None [] None).
    apply (ms_whole ct h0 l a c d k sp s Hl Hc Ha Hd Hfz Hni Hcoll Hnone Hov Hdef Hflat (ODict []) Hempty
             (with_tail ct l a sp h) (dict_with_pure ct tk tv [] key v)) with (edit := spec_with_item ct h0);
      try reflexivity.
    - exact (ms_with_tail ct h0 l a sp s Hcoll (ODict []) (create_dict tk tv Hty) Hempty h).
    - intros s1 lc1 H1. now apply with_tail_dict.
    - intros o' E. apply (dict_with_pure_scalar ct tk tv [] key v o'); auto. now apply vscalar_nonref.
    - now apply dict_with_pure_spec.
    - now apply run_with_missing.
  Qed.

  Theorem without_item_dict_missing_refines tk tv key :
    a_ty sp = TDict tk tv -> nonref key = true ->
    missing_refines_spec ct h0 s l (HWithoutItem a) (mkh [key] true true VMissing false None None [] None)
                         (SWithoutItem a) (mkah [abs0 key] true true AMissing false None None [] None).
  Proof.
    intros Hty Hk. unfold missing_refines_spec.
    assert (Hcoll : ty_is_collection (a_ty sp) = true) by (now rewrite Hty).
    assert (Hempty : empty_of (sexec ct h0 SFUEL) (a_ty sp) = SOk (aobj (ODict []))) by (now rewrite Hty).
    set (h := mkh [key] true true VMissing false None None [] None).
    apply (ms_whole ct h0 l a c d k sp s Hl Hc Ha Hd Hfz Hni Hcoll Hnone Hov Hdef Hflat (ODict []) Hempty
             (without_tail ct l a sp h) (dict_without_pure ct [] key)) with (edit := spec_without_item ct);
      try reflexivity.
    - exact (ms_without_tail ct l a sp s (ODict []) (create_dict tk tv Hty) h).
    - intros s1 lc1 H1. now apply (without_tail_dict ct l a sp tk tv).
    - intros o' E. now apply (dict_without_pure_scalar ct [] key o').
    - now apply (dict_without_pure_spec ct sp tk tv).
    - now apply run_without_missing.
  Qed.

  (* ---------------- sets ---------------- *)
  Theorem with_item_set_missing_refines ity v :
    a_ty sp = TSet ity -> a_prepare_item sp = None -> spec_of_ty_strict ity = None -> ty_depth ity < FUEL ->
    vscalar v = true ->
    missing_refines_spec ct h0 s l (HWithItem a) (mkh [v] true true VMissing false None None [] None)
                         (SWithItem a) (mkah [abs0 v] true true AMissing false None None [] None).
  Proof.
    intros Hty Hprep Hstrict Hdepth Hv. unfold missing_refines_spec.
    assert (Hcoll : ty_is_collection (a_ty sp) = true) by (now rewrite Hty).
    assert (Hempty : empty_of (sexec ct h0 SFUEL) (a_ty sp) = SOk (aobj (OSet []))) by (now rewrite Hty).
    set (h := mkh [v] true true VMissing false None None [] None).
    apply (ms_whole ct h0 l a c d k sp s Hl Hc Ha Hd Hfz Hni Hcoll Hnone Hov Hdef Hflat (OSet []) Hempty
             (with_tail ct l a sp h) (set_with_pure ct ity [] v)) with (edit := spec_with_item ct h0);
      try reflexivity.
    - exact (ms_with_tail ct h0 l a sp s Hcoll (OSet []) (create_set ity Hty) Hempty h).
    - intros s1 lc1 H1. now apply with_tail_set.
    - intros o' E. apply (set_with_pure_scalar ct ity [] v o'); auto. now apply vscalar_nonref.
    - now apply set_with_pure_spec.
    - now apply run_with_missing.
  Qed.

  Theorem without_item_set_missing_refines ity voi :
    a_ty sp = TSet ity -> nonref voi = true ->
    missing_refines_spec ct h0 s l (HWithoutItem a) (mkh [voi] true true VMissing false None None [] None)
                         (SWithoutItem a) (mkah [abs0 voi] true true AMissing false None None [] None).
  Proof.
    intros Hty Hv. unfold missing_refines_spec.
    assert (Hcoll : ty_is_collection (a_ty sp) = true) by (now rewrite Hty).
    assert (Hempty : empty_of (sexec ct h0 SFUEL) (a_ty sp) = SOk (aobj (OSet []))) by (now rewrite Hty).
    set (h := mkh [voi] true true VMissing false None None [] None).
    apply (ms_whole ct h0 l a c d k sp s Hl Hc Ha Hd Hfz Hni Hcoll Hnone Hov Hdef Hflat (OSet []) Hempty
             (without_tail ct l a sp h) (set_without_pure ct [] voi)) with (edit := spec_without_item ct);
      try reflexivity.
    - exact (ms_without_tail ct l a sp s (OSet []) (create_set ity Hty) h).
    - intros s1 lc1 H1. now apply (without_tail_set ct l a sp ity).
    - intros o' E. now apply (set_without_pure_scalar ct [] voi o').
    - now apply (set_without_pure_spec ct sp ity).
    - now apply run_without_missing.
  Qed.
End MissingAttr.
