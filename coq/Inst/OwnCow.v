(* C03, ownership, part 6: copy-on-write operations on flat instances.

   A *flat class* has only scalar and scalar-collection attributes, none of
   them do_not_copy, is copied normally (no do_not_copy on the class, no
   __post_copy__); an instance of a flat class whose dict has only managed keys
   (or non-reference values) is a flat instance (FI) as soon as TI /\ Owned
   holds.  mutate_attr(..., inplace=False) deep-copies the receiver
   (dc_instance) and stores into the copy. *)
From Coq Require Import List ZArith Bool Arith Lia.
From SC Require Import Base.Res Base.PyList Inst.Heap Inst.ClassTable Inst.Model Inst.Framed
  Inst.TypeProofs Inst.OwnProofs Inst.OwnProofs2 Inst.OwnProofs3 Inst.OwnColl Inst.OwnCopy.
Import ListNotations.
Open Scope nat_scope.
Set Warnings "-unused-intro-pattern".
#[local] Opaque FUEL.

Definition flat_class (k : cls) : Prop :=
  c_dnc k = false /\ oqfn (c_post_copy k) /\
  forall sp, In sp (c_attrs k) ->
    a_dnc sp = false /\ (scalar_ty (a_ty sp) = true \/ scalar_coll (a_ty sp) = true).

Definition keys_managed (k : cls) (d : list (nat * val)) : Prop :=
  forall a v, In (a, v) d -> nonref v \/ lookup_attr k a <> None.

Lemma T_finally {A} (P : heap_t -> Prop) (m : M A) (c : M unit)
      (Q' Q : A -> heap_t -> Prop) (E' E : heap_t -> Prop) :
  T P m Q' E' -> (forall a, T (Q' a) c (fun _ h => Q a h) E) -> T E' c (fun _ h => E h) E ->
  T P (finally_ m c) Q E.
Proof.
  intros Hm Hc He s Ps. unfold finally_. specialize (Hm s Ps).
  destruct (m s) as [[a|e] s1].
  - specialize (Hc a s1 Hm). destruct (c s1) as [[u|e] s2]; auto.
  - specialize (He s1 Hm). simpl. destruct (c s1) as [[u|e2] s2]; auto.
Qed.

Section Cow.
  Variable ct : ctable.
  Hypothesis Hflat : flat_table ct.
  Hypothesis Hninv : inval_spec ct.
  Hypothesis Hres : no_reserved_names ct.
  Notation Inv := (Inv ct).

  Lemma FI_of_Inv h l cl (d : list (nat * val)) k :
    Inv h -> nth_error h l = Some (OInst cl d) -> lookup_cls ct cl = Some k ->
    flat_class k -> keys_managed k d -> FI ct h l cl d k.
  Proof.
    intros [T (_ & _ & Ho)] N Hk (Hd & Hp & Ha) Km. split; auto. split; auto. split; auto. split; auto.
    intros a lx Hi. destruct (Km _ _ Hi) as [Hn|Hm]; [exfalso; eapply Hn; reflexivity|].
    destruct (lookup_attr k a) as [sp|] eqn:Ea; [|congruence].
    destruct (Ha sp (lookup_attr_in _ _ _ Ea)) as [Dn [Sc|Sc]].
    - exfalso. assert (C : check_type FUEL ct h (VRef lx) (a_ty sp) = true) by (eapply T; eauto).
      exact (scalar_check_noref ct h FUEL (a_ty sp) (VRef lx) Sc C lx eq_refl).
    - assert (C : check_type FUEL ct h (VRef lx) (a_ty sp) = true) by (eapply T; eauto).
      destruct (check_flat_valid ct FUEL h (a_ty sp) lx (scalar_coll_flat _ Sc) C) as [o [No So]].
      destruct (conf_norefs ct h lx (a_ty sp) o Sc C No) as [Nr _].
      split; [exists o; auto|]. split.
      + eapply Ho; eauto. now apply scalar_coll_flat.
      + intros sp' E'. inversion E'; subst. exact Dn.
  Qed.

  Lemma frame_ext h h' : frame_rel (length h) h h' -> ext h h'.
  Proof.
    intros (A & _ & _) l o N. exists o. split; auto. rewrite A; auto. apply nth_error_Some. congruence.
  Qed.

  Lemma check_frame h h' v t :
    flat t = true -> frame_rel (length h) h h' ->
    check_type FUEL ct h v t = true -> check_type FUEL ct h' v t = true.
  Proof.
    intros Ft FR C. pose proof (frame_ext h h' FR) as E. unfold flat in Ft.
    destruct (simple t) eqn:St; [eapply check_simple_ext; eauto|]. simpl in Ft.
    destruct v as [| | | | | | | |c];
      try (destruct FUEL_SS as [f Ef]; rewrite Ef in C; destruct t; simpl in Ft, C; discriminate).
    destruct (check_flat_valid ct FUEL h t c Ft C) as [o [No _]].
    eapply check_flat_cell; eauto. destruct FR as (A & _). apply A. apply nth_error_Some. congruence.
  Qed.

  Lemma loose_frame h h' v : frame_rel (length h) h h' -> loose h v -> loose h' v.
  Proof.
    intros (_ & B & L) Lv. destruct v; simpl in *; auto. destruct Lv as [Lc Z]. split; [lia|]. rewrite B; auto.
  Qed.

  Lemma inst_frame h h' l cl d : frame_rel (length h) h h' -> nth_error h l = Some (OInst cl d) ->
    nth_error h' l = Some (OInst cl d).
  Proof. intros (A & _) N. rewrite A; auto. apply nth_error_Some. congruence. Qed.

  Lemma raw_delattr_Inv l a : T Inv (raw_delattr l a) (fun _ h => Inv h) Inv.
  Proof.
    unfold raw_delattr. eapply T_bind; [apply T_read_inst; auto|]. intros [cl d]. cbn [fst snd].
    destruct (assoc a d); [|apply T_fail; tauto].
    apply T_write. intros h [I N]. split; [apply nth_error_Some; congruence|]. now apply Inv_delete.
  Qed.

  (* what is known about the copy while the value is stored into it *)
  Definition CW (l' : loc) (cl : cid) (k : cls) (a : aid) (v : val) (h : heap_t) : Prop :=
    Inv h /\ loose h v /\ (exists d', nth_error h l' = Some (OInst cl d')) /\
    (forall sp, lookup_attr k a = Some sp -> check_type FUEL ct h v (a_ty sp) = true).

  Lemma flag_set l' cl k a v :
    lookup_cls ct cl = Some k ->
    T (CW l' cl k a v) (raw_setattr l' A_INITIALIZING (VBool true)) (fun _ h => CW l' cl k a v h) Inv.
  Proof.
    intro Hk. unfold raw_setattr.
    eapply T_bind; [apply T_read_inst; unfold CW; tauto|]. intros [cl0 d0]. cbn [fst snd].
    apply T_write. intros h [(I & L & (d' & N) & Cv) N0].
    rewrite N in N0. inversion N0; subst cl0 d0.
    assert (Ll : l' < length h) by (apply nth_error_Some; congruence).
    split; auto.
    assert (I1 : Inv (set_nth l' (OInst cl (assoc_set A_INITIALIZING (VBool true) d')) h)).
    { apply Inv_store; auto; [|simpl; trivial].
      intros k0 sp Hk0 Ha0. rewrite (Hres _ _ Hk0) in Ha0. discriminate. }
    split; [exact I1|]. split; [|split].
    - destruct v as [| | | | | | | |c]; simpl in *; auto. destruct L as [Lc Z].
      split; [now rewrite set_nth_length|].
      pose proof (refcount_set_nth h l' (OInst cl (assoc_set A_INITIALIZING (VBool true) d')) _ c N) as E.
      unfold orefs in E. simpl in E.
      pose proof (cnt_assoc_set_le c A_INITIALIZING (VBool true) d' eq_refl). lia.
    - eexists. apply nth_error_set_nth_same; auto.
    - intros sp Ha. specialize (Cv sp Ha).
      assert (Fl : flat (a_ty sp) = true) by (eapply flat_attr; eauto).
      eapply check_flat_other; eauto.
      intros c ->. destruct (flat_coll (a_ty sp)) eqn:Fc; auto. left.
      destruct (check_flat_valid ct FUEL h (a_ty sp) c Fc Cv) as [o [No So]].
      intros ->. rewrite N in No. inversion No; subst. simpl in So. lia.
  Qed.

  Lemma store_into_copy fuel1 l' cl k a v :
    lookup_cls ct cl = Some k ->
    T (CW l' cl k a v) (raw_setattr l' a v ;;; invalidate_attrs ct (exec ct fuel1) l' a) (fun _ h => Inv h) Inv.
  Proof.
    intro Hk. eapply T_bind with (Q := fun _ h => Inv h);
      [|intros ?; eapply T_conseq; [apply (Hninv fuel1 l' a (fun _ => True) xstable_true)| | |]; cbv beta; intros; tauto].
    eapply T_pre; [|apply raw_setattr_Inv; auto].
    intros h (I & L & (d' & N) & Cv). split; auto. split; [left; exact L|].
    intros cl0 d0 k0 sp0 N0 Hk0 Ha0. rewrite N in N0. inversion N0; subst cl0 d0.
    rewrite Hk in Hk0. inversion Hk0; subst k0. eauto.
  Qed.

  (* _thawed(copy) around the store *)
  Lemma cow_tail fuel1 l' cl k a v :
    lookup_cls ct cl = Some k ->
    T (CW l' cl k a v) (thawed ct l' true (raw_setattr l' a v ;;; invalidate_attrs ct (exec ct fuel1) l' a))
      (fun _ h => Inv h) Inv.
  Proof.
    intro Hk. unfold thawed.
    assert (PE : forall h, CW l' cl k a v h -> Inv h) by (unfold CW; tauto).
    eapply T_bind; [apply T_hpure; [apply hpure_read|exact PE]|]. intros o.
    destruct o; try (apply store_into_copy; auto).
    eapply T_bind; [apply T_hpure; [unfold cls_of; hpgo|exact PE]|]. intros k0.
    destruct (negb true || negb (c_frozen k0) || initializing d); [apply store_into_copy; auto|].
    eapply T_bind; [apply flag_set; auto|]. intros ?.
    eapply T_finally with (Q' := fun _ h => Inv h) (E' := Inv).
    - apply store_into_copy; auto.
    - intros ?. apply raw_delattr_Inv.
    - apply raw_delattr_Inv.
  Qed.

  Lemma loose_not_held h l cl (d : list (nat * val)) a v :
    nth_error h l = Some (OInst cl d) -> loose h v -> same_object (assoc a d) v = false.
  Proof.
    intros N L. unfold same_object. destruct (assoc a d) as [[| | | | | | | |x]|] eqn:As; auto.
    destruct v as [| | | | | | | |y]; auto. apply Nat.eqb_neq. intros ->.
    destruct L as [_ Z]. apply assoc_in in As.
    pose proof (refcount_ge h l _ y N) as G. unfold orefs in G. simpl in G.
    pose proof (entry_counted y d a As). lia.
  Qed.

  (* mutate_attr(..., inplace=False) on a flat instance with a value nobody references *)
  Theorem mutate_attr_cow fuel1 l a v tc s cl (d : list (nat * val)) k :
    Inv (heap s) -> FI ct (heap s) l cl d k -> loose (heap s) v ->
    (tc = false -> forall sp, lookup_attr k a = Some sp -> check_type FUEL ct (heap s) v (a_ty sp) = true) ->
    Inv (heap (snd (mutate_attr ct (exec ct fuel1) l a v false tc false false s))).
  Proof.
    intros I FIs L Cv0. pose proof FIs as (N & Hk & Hdnc & Hpc & Re).
    unfold mutate_attr. destruct (is_sentinel v); [exact I|].
    erewrite bind_ok'; [|apply read_inst_eq; eauto]. cbn [fst snd].
    erewrite bind_ok'; [|unfold cls_of; rewrite Hk; reflexivity].
    rewrite andb_false_r. cbn [andb]. rewrite bind_ret_l.
    (* the type check *)
    assert (Chk : (exists e, (match lookup_attr k a with
                   | Some sp => if tc then (ok <- check_typeM ct v (a_ty sp) ;; if ok then ret tt else fail TypeErr)
                                else ret tt
                   | None => ret tt end) s = (Err e, s)) \/
                  ((match lookup_attr k a with
                   | Some sp => if tc then (ok <- check_typeM ct v (a_ty sp) ;; if ok then ret tt else fail TypeErr)
                                else ret tt
                   | None => ret tt end) s = (Ok tt, s) /\
                   forall sp, lookup_attr k a = Some sp -> check_type FUEL ct (heap s) v (a_ty sp) = true)).
    { destruct (lookup_attr k a) as [sp|] eqn:Ea; [|right; split; [reflexivity|intros; discriminate]].
      destruct tc.
      - erewrite bind_ok'; [|apply check_typeM_eq].
        destruct (check_type FUEL ct (heap s) v (a_ty sp)) eqn:C.
        + right. split; [reflexivity|]. intros sp' E. inversion E; subst. exact C.
        + left. eexists. reflexivity.
      - right. split; [reflexivity|]. intros sp' E. inversion E; subst. apply Cv0; auto. }
    destruct Chk as [[e Ee]|[Eo Cv]].
    { erewrite bind_err'; [exact I|exact Ee]. }
    erewrite bind_ok'; [|exact Eo]. cbv zeta.
    rewrite Hdnc. cbn [orb negb andb].
    (* the deep copy of the receiver *)
    destruct FUEL_SSS as [f Ef].
    pose proof (dc_instance ct Hflat f l s cl d k I FIs) as DC.
    unfold bind at 1. unfold bind at 1. unfold deepcopy. unfold bind at 1. rewrite Ef.
    destruct (dc ct (S (S (S f))) (VRef l) [] s) as [[r|e] s1]; [|exact (proj2 DC)].
    destruct DC as (new & d' & Er & Hnew & FR & I1 & FI1 & Ek & Zn).
    cbn [ret]. rewrite Er. cbn [loc_of ret].
    rewrite (loose_not_held (heap s) l cl d a v N L). unfold bind at 1. cbn [ret].
    destruct FI1 as (N1 & _).
    unfold bind at 1.
    pose proof (cow_tail fuel1 new cl k a v Hk s1) as CT.
    assert (Pre : CW new cl k a v (heap s1)).
    { split; [exact I1|]. split; [eapply loose_frame; eauto|]. split; [eauto|].
      intros sp Ea. eapply check_frame; eauto. eapply flat_attr; eauto. }
    specialize (CT Pre).
    destruct (thawed ct new true (raw_setattr new a v;;; invalidate_attrs ct (exec ct fuel1) new a) s1) as [[u|e] s2];
      exact CT.
  Qed.
End Cow.

(* ------------------------------------------------------------------ *)
(** * Leaf attributes (scalar or scalar collection), flat receivers *)
Definition leaf_scalar (sp : attr_spec) : Prop := scalar_ty (a_ty sp) = true /\ oqfn (a_prepare sp).
Definition leaf_attr (sp : attr_spec) : Prop := (exists fam, leaf_coll sp fam) \/ leaf_scalar sp.

Section CowOps.
  Variable ct : ctable.
  Hypothesis Hflat : flat_table ct.
  Hypothesis Hninv : inval_spec ct.
  Hypothesis Hres : no_reserved_names ct.
  Notation Inv := (Inv ct).
  Notation rec := (exec ct XFUEL).

  Lemma scalar_mv_plain sp v :
    leaf_scalar sp ->
    mv_plain (mkmv VMissing v false
                (match a_prepare sp with Some f => PAttr f | None => PNone end)
                None (Some (ctor_of_ty (a_ty sp))) (Some (a_ty sp)) None [] false).
  Proof.
    intros (Sc & Hp). unfold mv_plain.
    cbn [mv_prepare mv_attrs mv_transform mv_attr_transforms mv_ctor mv_expected xf_plain].
    split; [destruct (a_prepare sp); simpl; auto|]. split; auto. split; auto. split; auto.
    exists (a_ty sp), (a_ty sp). unfold ctor_of_ty. destruct (scalar_nospec _ Sc) as [-> _].
    split; auto. split; auto. destruct (a_ty sp); simpl in *; auto; discriminate.
  Qed.

  Lemma prepare_attr_value_scalar fuel sp inst v F :
    leaf_scalar sp -> astable F ->
    T (fun h => IF ct F h /\ loose h v) (prepare_attr_value ct (exec ct fuel) sp inst v None)
      (fun r h => IF ct F h /\ loose h r) (IF ct F).
  Proof.
    intros Hl SF. pose proof Hl as (Sc & _).
    assert (Ec : ty_is_collection (a_ty sp) = false) by (destruct (a_ty sp); simpl in *; auto; discriminate).
    assert (B : T (fun h => IF ct F h /\ loose h v)
                  (v' <- exec ct fuel (KMutateValue (mkmv VMissing v false
                                (match a_prepare sp with Some f => PAttr f | None => PNone end)
                                None (Some (ctor_of_ty (a_ty sp))) (Some (a_ty sp)) None [] false)) ;;
                   if ty_is_collection (a_ty sp) then coll_prepare ct (exec ct fuel) sp inst v' else ret v')
                  (fun r h => IF ct F h /\ loose h r) (IF ct F)).
    { eapply T_bind with (Q := fun v' h => IF ct F h /\ loose h v').
      - eapply T_conseq.
        + apply (Hmv ct Hflat fuel _ (fun h => F h /\ loose h v)).
          * apply astable_and; [apply SF|apply astable_loose].
          * now apply scalar_mv_plain.
        + intros h [[I Fh] L]. split; auto.
        + intros r h [[Iv [Fh L]] R]. split; [split; auto|].
          destruct R as [[-> _]|[->|R]]; [exact I|exact L|exact R].
        + intros h [I [Fh _]]. split; auto.
      - intros v'. rewrite Ec. apply T_ret. auto. }
    unfold prepare_attr_value. destruct v; try exact B. apply T_ret. auto.
  Qed.

  Lemma prepare_attr_value_any fuel sp inst v F :
    leaf_attr sp -> cstable F ->
    T (fun h => IF ct F h /\ loose h v) (prepare_attr_value ct (exec ct fuel) sp inst v None)
      (fun r h => IF ct F h /\ loose h r) (IF ct F).
  Proof.
    intros [[fam Hl]|Hl] SF.
    - apply (prepare_attr_value_leaf ct Hflat (exec ct fuel) (Hmv ct Hflat fuel) fam sp inst v F Hl SF).
    - apply prepare_attr_value_scalar; auto. apply SF.
  Qed.

  (* the receiver: an instance of a flat class with managed keys *)
  Definition flat_recv (l : loc) (h : heap_t) (cl : cid) (d : list (nat * val)) (k : cls) : Prop :=
    nth_error h l = Some (OInst cl d) /\ lookup_cls ct cl = Some k /\ flat_class k /\ keys_managed k d.

  Lemma mutate_attr_cow_T l cl d k a v tc :
    flat_class k -> keys_managed k d -> lookup_cls ct cl = Some k ->
    T (fun h => Inv h /\ inst_at l cl d h /\ loose h v /\
                (tc = false -> forall sp, lookup_attr k a = Some sp -> check_type FUEL ct h v (a_ty sp) = true))
      (mutate_attr ct rec l a v false tc false false) (fun _ h => Inv h) Inv.
  Proof.
    intros Fc Km Hk s (I & N & L & Cv).
    pose proof (mutate_attr_cow ct Hflat Hninv Hres XFUEL l a v tc s cl d k I
                  (FI_of_Inv ct (heap s) l cl d k I N Hk Fc Km) L Cv) as R.
    destruct (mutate_attr ct rec l a v false tc false false s) as [[r|e] s']; exact R.
  Qed.

  (* obj.with_<a>(v) -- copy-on-write *)
  Theorem with_cow l a hh s cl d k :
    h_inplace hh = false -> h_kw hh = None ->
    Inv (heap s) -> loose (heap s) (pos0 hh) -> flat_recv l (heap s) cl d k ->
    (forall sp, lookup_attr k a = Some sp -> leaf_attr sp) ->
    Inv (heap (snd (run_helper ct l (HWith a) hh s))).
  Proof.
    intros Hin Hkw I L (N & Hk & Fc & Km) Hla.
    unfold run_helper. destruct (negb (h_if hh)); [exact I|]. rewrite Hin, Hkw.
    unfold bind at 1. rewrite (spec_for_run ct l a s cl d k N Hk).
    destruct (lookup_attr k a) as [sp|] eqn:Ea; [|exact I]. cbn [snd].
    pose proof (lookup_attr_name k a sp Ea) as Hn.
    unfold with_attr. rewrite Hn.
    eapply (T_run (fun h => IF ct (inst_at l cl d) h /\ loose h (pos0 hh)) _ (fun _ h => Inv h) Inv Inv s);
      [| split; [split; auto|auto] | auto | auto].
    eapply T_bind with (Q := fun value h => IF ct (inst_at l cl d) h /\ loose h value).
    - eapply T_conseq;
        [apply (prepare_attr_value_any XFUEL sp l (pos0 hh) (inst_at l cl d) (Hla sp eq_refl) (cstable_inst_at l cl d))
        | auto | auto | intros h [I1 _]; exact I1].
    - intros value. eapply T_pre; [|apply (mutate_attr_cow_T l cl d k a value true Fc Km Hk)].
      intros h [[I1 N1] L1]. split; auto. split; auto. split; auto. intros E; discriminate.
  Qed.

  (* ---------- element helpers, copy-on-write ---------- *)
  Local Opaque exec XFUEL.
  Let HrecMv := Hmv ct Hflat XFUEL.

  (* protect_via_deepcopy of the collection the attribute holds: a fresh conforming copy *)
  Lemma protect_held l cl (d : list (nat * val)) k a sp fam lx s :
    Inv (heap s) -> nth_error (heap s) l = Some (OInst cl d) -> lookup_cls ct cl = Some k ->
    lookup_attr k a = Some sp -> leaf_coll sp fam -> assoc a d = Some (VRef lx) ->
    match protect ct (VRef lx) s with
    | (Ok c, s1) => exists fc, c = VRef fc /\
          (Inv (heap s1) /\ inst_at l cl d (heap s1) /\ loose (heap s1) (VRef fc)) /\ conf ct (heap s1) (VRef fc) sp
    | (Err _, s1) => Inv (heap s1)
    end.
  Proof.
    intros I N Hk Ha Hl As. pose proof Hl as (Hf & Sc & _).
    destruct (held_coll ct (heap s) l cl d k a sp fam (VRef lx) I N Hk Ha Hl As) as [lx' [E C]].
    inversion E; subst lx'. unfold conf in C.
    destruct (check_flat_valid ct FUEL (heap s) (a_ty sp) lx (scalar_coll_flat _ Sc) C) as [o [No So]].
    destruct (conf_norefs ct (heap s) lx (a_ty sp) o Sc C No) as [Nr _].
    unfold protect. cbn [val_is_scalar]. unfold deepcopy. destruct FUEL_SS as [f Ef]. rewrite Ef.
    pose proof (dc_container ct Hflat f lx [] o (length (heap s)) (inst_at l cl d)
                  (cstable_fstable _ _ (cstable_inst_at l cl d)) Nr So eq_refl s) as DC.
    assert (Pre : CP ct (inst_at l cl d) (length (heap s)) lx o (heap s)).
    { split; [split; auto|split; auto]. }
    specialize (DC Pre). unfold bind at 1.
    destruct (dc ct (S (S f)) (VRef lx) [] s) as [[r|e] s1]; [|exact (proj1 DC)].
    destruct DC as (((I1 & N1) & _ & Nlx) & l' & -> & _ & L1 & Nl'). cbn [ret fst].
    exists l'. split; auto. split; auto. unfold conf.
    rewrite <- (check_same_content ct FUEL (a_ty sp) (heap s) (heap s1) lx l' o No Nl' Nr So).
    exact C.
  Qed.

  Lemma tail_loose_cow l cl (d : list (nat * val)) k a sp fam fc (Mid : M val) :
    flat_class k -> keys_managed k d ->
    lookup_cls ct cl = Some k -> lookup_attr k a = Some sp -> leaf_coll sp fam ->
    (forall F, cstable F ->
       (forall h, Inv h -> F h -> refcount h fc = 0 \/ only_view ct h fc (a_ty sp)) ->
       T (fun h => IF ct F h /\ conf ct h (VRef fc) sp) Mid
         (fun r h => (IF ct F h /\ conf ct h (VRef fc) sp) /\ r = VRef fc) (IF ct F)) ->
    T (fun h => (Inv h /\ inst_at l cl d h /\ loose h (VRef fc)) /\ conf ct h (VRef fc) sp)
      (c' <- Mid ;; mutate_attr ct rec l a c' false false false false) (fun _ h => Inv h) Inv.
  Proof.
    intros Fc Km Hk Ha Hl HM.
    set (G := fun h => inst_at l cl d h /\ loose h (VRef fc)).
    assert (SG : cstable G) by (apply cstable_and; [apply cstable_inst_at|apply cstable_loose]).
    eapply T_bind.
    - eapply T_conseq.
      + apply (HM G SG). intros h _ [_ [_ Z]]. left. exact Z.
      + intros h [[I [N L]] C]. split; [split; [exact I|split; auto]|exact C].
      + intros r h H. exact H.
      + intros h [I _]. exact I.
    - intros c'. apply T_pull. intros ->.
      eapply T_pre; [|apply (mutate_attr_cow_T l cl d k a (VRef fc) false Fc Km Hk)].
      intros h [[I [N L]] C]. split; auto. split; auto. split; auto.
      intros _ sp' E'. rewrite Ha in E'. inversion E'; subst sp'. exact C.
  Qed.

  Lemma tail_missing_cow l cl (d : list (nat * val)) k a sp fam io :
    flat_class k -> keys_managed k d ->
    lookup_cls ct cl = Some k -> lookup_attr k a = Some sp -> leaf_coll sp fam -> io_plain io ->
    T (fun h => Inv h /\ inst_at l cl d h)
      (c' <- mutate_collection ct rec fam sp l VMissing io ;;
       mutate_attr ct rec l a c' false false false false)
      (fun _ h => Inv h) Inv.
  Proof.
    intros Fc Km Hk Ha Hl Hio. pose proof Hl as (Hf & _).
    intros s [I N].
    pose proof (create_coll ct Hflat rec sp fam (inst_at l cl d) Hf (astable_inst_at l cl d) s (conj I N)) as Cr.
    unfold mutate_collection. cbn [is_missing]. unfold bind at 1. unfold bind at 1.
    destruct (create_collection rec sp s) as [[c1|err] s1]; [|exact (proj1 Cr)].
    destruct Cr as [[I1 N1] [fc [-> [L C]]]].
    exact (tail_loose_cow l cl d k a sp fam fc (mutate_collection ct rec fam sp l (VRef fc) io) Fc Km Hk Ha Hl
             (fun F SF HV => mutate_collection_leaf ct Hflat rec HrecMv fam sp l fc io F Hl Hio SF HV)
             s1 (conj (conj I1 (conj N1 L)) C)).
  Qed.

  Lemma mk_mutator_cow_run sp l s cl (d : list (nat * val)) k :
    nth_error (heap s) l = Some (OInst cl d) -> lookup_cls ct cl = Some k ->
    mk_mutator ct sp l false s =
      (let c := match assoc (a_name sp) d with Some v => v | None => class_default k (a_name sp) end in
       if is_missing c then (Ok c, s) else protect ct c s).
  Proof.
    intros N Hk. unfold mk_mutator.
    erewrite bind_ok'; [|apply read_inst_eq; eauto]. cbn [fst snd].
    erewrite bind_ok'; [|unfold cls_of; rewrite Hk; reflexivity].
    cbn [andb]. rewrite bind_ret_l.
    erewrite bind_ok'; [|apply (getattr_default_run ct l (a_name sp) s cl d k N Hk)].
    cbv zeta. rewrite orb_false_r. destruct (is_missing _); reflexivity.
  Qed.

  (* the common prefix of the copy-on-write element helpers *)
  Lemma elem_prefix_cow l a s cl (d : list (nat * val)) k (K : cls * attr_spec -> val -> M val) :
    Inv (heap s) -> flat_recv l (heap s) cl d k ->
    (forall sp, lookup_attr k a = Some sp -> exists fam, leaf_coll sp fam) ->
    (assoc a d = None -> class_default k a = VMissing) ->
    (forall sp fam, lookup_attr k a = Some sp -> leaf_coll sp fam ->
        (forall fc s1, (Inv (heap s1) /\ inst_at l cl d (heap s1) /\ loose (heap s1) (VRef fc)) /\
                       conf ct (heap s1) (VRef fc) sp ->
                       Inv (heap (snd (K (k, sp) (VRef fc) s1)))) /\
        (assoc a d = None -> Inv (heap (snd (K (k, sp) VMissing s))))) ->
    Inv (heap (snd ((r <- spec_for ct l a ;; c <- mk_mutator ct (snd r) l false ;; K r c) s))).
  Proof.
    intros I (N & Hk & Fc & Km) Hla D HK.
    unfold bind at 1. rewrite (spec_for_run ct l a s cl d k N Hk).
    destruct (lookup_attr k a) as [sp|] eqn:Ha; [|exact I]. cbn [snd].
    destruct (Hla sp eq_refl) as [fam Hl].
    pose proof (lookup_attr_name k a sp Ha) as Hn.
    destruct (HK sp fam eq_refl Hl) as [K1 K2].
    unfold bind at 1. rewrite (mk_mutator_cow_run sp l s cl d k N Hk). rewrite Hn. cbv zeta.
    destruct (assoc a d) as [v|] eqn:As.
    - destruct (held_coll ct (heap s) l cl d k a sp fam v I N Hk Ha Hl As) as [lx [-> _]].
      cbn [is_missing].
      pose proof (protect_held l cl d k a sp fam lx s I N Hk Ha Hl As) as PH.
      destruct (protect ct (VRef lx) s) as [[c|e] s1]; [|exact PH].
      destruct PH as [fc [-> H]]. apply K1. exact H.
    - rewrite (D eq_refl). cbn [is_missing]. apply K2. reflexivity.
  Qed.

  (* obj.with_<item>(...) -- copy-on-write, every family *)
  Theorem with_item_cow l a hh s cl d k :
    h_inplace hh = false -> h_kw hh = None ->
    Inv (heap s) -> flat_recv l (heap s) cl d k ->
    (forall sp, lookup_attr k a = Some sp -> exists fam, leaf_coll sp fam) ->
    (assoc a d = None -> class_default k a = VMissing) ->
    Inv (heap (snd (run_helper ct l (HWithItem a) hh s))).
  Proof.
    intros Hin Hkw I FR Hla D. pose proof FR as (N & Hk & Fc & Km).
    unfold run_helper. destruct (negb (h_if hh)); [exact I|]. rewrite Hin, Hkw. cbv zeta.
    apply (elem_prefix_cow l a s cl d k (fun r c =>
      c' <- (match family_of (a_ty (snd r)) with
             | Some FSeq =>
                 mutate_collection ct rec FSeq (snd r) l c
                   (mkio (h_index hh) (pos0 hh) None None [] true
                         (negb (is_missing (h_index hh)) && negb (h_insert hh)) TriTrue (h_insert hh))
             | Some FMap =>
                 mutate_collection ct rec FMap (snd r) l c
                   (mkio (match h_pos hh with [] => VNone | k :: _ => k end)
                         (match h_pos hh with _ :: v :: _ => v | _ => VMissing end)
                         None None [] true false TriTrue false)
             | Some FSet =>
                 mutate_collection ct rec FSet (snd r) l c
                   (mkio VMissing (pos0 hh) None None [] true false TriTrue false)
             | None => fail AttrErr end) ;;
      mutate_attr ct rec l a c' false false false false) I FR Hla D).
    intros sp fam Ha Hl. pose proof Hl as (Hf & _). cbn [snd]. rewrite Hf.
    split.
    - intros fc s1 H.
      destruct fam;
        (eapply (T_run _ _ _ _ Inv s1); [eapply (tail_loose_cow l cl d k a sp _ fc); eauto| | |]; auto;
         intros F SF HV; eapply mutate_collection_leaf; eauto; repeat split).
    - intros As.
      destruct fam;
        (eapply (T_run _ _ _ _ Inv s); [eapply (tail_missing_cow l cl d k a sp); eauto; repeat split| | |]; auto;
         split; auto).
  Qed.

  (* obj.without_<item>(x) -- copy-on-write, every family *)
  Theorem without_item_cow l a hh s cl d k :
    h_inplace hh = false ->
    Inv (heap s) -> flat_recv l (heap s) cl d k ->
    (forall sp, lookup_attr k a = Some sp -> exists fam, leaf_coll sp fam) ->
    (assoc a d = None -> class_default k a = VMissing) ->
    Inv (heap (snd (run_helper ct l (HWithoutItem a) hh s))).
  Proof.
    intros Hin I FR Hla D. pose proof FR as (N & Hk & Fc & Km).
    unfold run_helper. destruct (negb (h_if hh)); [exact I|]. rewrite Hin. cbv zeta.
    apply (elem_prefix_cow l a s cl d k (fun r c00 =>
      c <- (if is_missing c00 then create_collection rec (snd r) else ret c00) ;;
      (remove_code ct (snd r) c hh ;;; mutate_attr ct rec l a c false false false false)) I FR Hla D).
    intros sp fam Ha Hl. pose proof Hl as (Hf & _). cbn [snd].
    split.
    - intros fc s1 H. cbn [is_missing]. rewrite bind_ret_l.
      eapply (T_run _ _ _ _ Inv s1);
        [apply (T_reassoc _ (remove_code ct sp (VRef fc) hh) (VRef fc)
                  (fun c => mutate_attr ct rec l a c false false false false));
         eapply (tail_loose_cow l cl d k a sp fam fc); eauto| | |]; auto.
      intros F SF HV. apply (remove_code_inv ct Hflat sp fam fc hh F Hl SF HV).
    - intros As. cbn [is_missing].
      pose proof (create_coll ct Hflat rec sp fam (inst_at l cl d) Hf (astable_inst_at l cl d) s (conj I N)) as Cr.
      unfold bind at 1.
      destruct (create_collection rec sp s) as [[c1|err] s1]; [|exact (proj1 Cr)].
      destruct Cr as [[I1 N1] [fc [-> [L C]]]].
      eapply (T_run _ _ _ _ Inv s1);
        [apply (T_reassoc _ (remove_code ct sp (VRef fc) hh) (VRef fc)
                  (fun c => mutate_attr ct rec l a c false false false false));
         eapply (tail_loose_cow l cl d k a sp fam fc); eauto| | |]; auto.
      + intros F SF HV. apply (remove_code_inv ct Hflat sp fam fc hh F Hl SF HV).
      + cbv beta. split; auto.
  Qed.
End CowOps.

(* ------------------------------------------------------------------ *)
(** * In-place assignment on any leaf attribute; deepcopy; steps *)
Section MoreOps.
  Variable ct : ctable.
  Hypothesis Hflat : flat_table ct.
  Hypothesis Hninv : inval_spec ct.
  Notation Inv := (Inv ct).

  Definition recv_leafa (l : loc) (a : aid) (h : heap_t) : Prop :=
    forall cl d k sp, nth_error h l = Some (OInst cl d) -> lookup_cls ct cl = Some k ->
      lookup_attr k a = Some sp -> leaf_attr sp.

  Lemma prepare_then_store_any fuel' fuel l a sp v :
    leaf_attr sp ->
    T (fun h => Inv h /\ loose h v)
      (value <- prepare_attr_value ct (exec ct fuel) sp l v None ;;
       mutate_attr ct (exec ct fuel') l a value true true false false)
      (fun _ h => Inv h) Inv.
  Proof.
    intro Hl. eapply T_bind.
    - eapply T_conseq; [apply (prepare_attr_value_any ct Hflat fuel sp l v (fun _ => True) Hl cstable_true)| | |].
      + intros h [I L]. split; [apply IF_true; exact I|exact L].
      + intros r h H. exact H.
      + intros h [I _]. exact I.
    - intros value. eapply T_pre; [|apply (mutate_attr_inplace ct Hflat Hninv fuel' l a value true)].
      intros h [[I _] L]. split; auto. split; [left; exact L|discriminate].
  Qed.

  Lemma setattr_Inv_any fuel l a v :
    T (fun h => Inv h /\ loose h v /\ recv_leafa l a h)
      (setattr_ ct (exec ct fuel) l a v false false) (fun _ h => Inv h) Inv.
  Proof.
    unfold setattr_.
    eapply T_bind; [apply T_read_inst; tauto|]. intros [cl d]. cbn [fst snd].
    eapply T_bind; [apply T_cls_of; tauto|]. intros k.
    intros s [[[I [L R]] N] Hk].
    destruct (lookup_attr k a) as [sp|] eqn:Ha.
    - apply (prepare_then_store_any fuel fuel l a sp v (R _ _ _ _ N Hk Ha) s). auto.
    - rewrite bind_ret_l.
      apply (mutate_attr_inplace ct Hflat Hninv fuel l a v true s).
      split; auto. split; [left; exact L|discriminate].
  Qed.

  (* obj.a = v, a any leaf attribute (scalar or scalar collection) or unmanaged *)
  Theorem step_setattr_any roots x a v s :
    Inv (heap s) -> loose (heap s) v ->
    (forall l, nth x roots VNone = VRef l -> recv_leafa l a (heap s)) ->
    Inv (heap (snd (step ct roots (OpSetAttr x a v) s))).
  Proof.
    intros I L R. unfold step.
    destruct (nth x roots VNone) as [| | | | | | | |l] eqn:Er; try exact I.
    cbn [loc_of]. rewrite bind_ret_l.
    eapply T_run_then with (P := fun h => Inv h /\ loose h v /\ recv_leafa l a h) (Q := fun _ h => Inv h) (E := Inv);
      auto.
    assert (Ex : exists f, XFUEL = S f) by (exists 39; reflexivity). destruct Ex as [f ->].
    rewrite exec_S. apply setattr_Inv_any.
  Qed.

  Theorem step_with_inplace_any roots x a hh s :
    Inv (heap s) -> loose (heap s) (pos0 hh) -> h_inplace hh = true -> h_kw hh = None ->
    (forall l, nth x roots VNone = VRef l -> recv_leafa l a (heap s)) ->
    Inv (heap (snd (step ct roots (OpHelper x (HWith a) hh) s))).
  Proof.
    intros I L Hin Hkw R. unfold step.
    destruct (nth x roots VNone) as [| | | | | | | |l] eqn:Er; try exact I.
    cbn [loc_of]. rewrite bind_ret_l. specialize (R l eq_refl).
    unfold run_helper. destruct (negb (h_if hh)); [exact I|]. rewrite Hin, Hkw.
    eapply T_run with (P := fun h => Inv h /\ loose h (pos0 hh) /\ recv_leafa l a h) (Q := fun _ h => Inv h) (E := Inv);
      auto.
    unfold spec_for.
    eapply T_bind.
    { eapply T_bind; [apply T_read_inst; tauto|]. intros [cl d]. cbn [fst snd].
      eapply T_bind; [apply T_cls_of; tauto|]. intros k.
      instantiate (1 := fun r h => (Inv h /\ loose h (pos0 hh)) /\ a_name (snd r) = a /\ leaf_attr (snd r)).
      intros s0 [[[I0 [L0 R0]] N] Hk].
      destruct (lookup_attr k a) as [sp|] eqn:Ha; simpl; auto.
      split; auto. split; [eapply lookup_attr_name; eauto|eauto]. }
    intros r. apply T_pull. intros [Hn Hl]. unfold with_attr. rewrite Hn.
    apply (prepare_then_store_any XFUEL XFUEL l a (snd r) (pos0 hh) Hl).
  Qed.

  (* copy.deepcopy(obj): a flat instance, a container of non-references, a non-reference *)
  Theorem deepcopy_flat v s :
    Inv (heap s) ->
    match v with
    | VRef l => (exists cl d k, FI ct (heap s) l cl d k) \/
                (exists o, nth_error (heap s) l = Some o /\ norefs o /\ shape o < 3)
    | _ => True
    end ->
    Inv (heap (snd (deepcopy ct v s))).
  Proof.
    intros I Hv. unfold deepcopy.
    destruct v as [| | | | | | | |l];
      try (destruct FUEL_SS as [f Ef]; rewrite Ef; rewrite dc_nonref by (intros c E; discriminate); exact I).
    destruct Hv as [(cl & d & k & Fi)|(o & No & Nr & So)].
    - destruct FUEL_SSS as [f Ef]. rewrite Ef.
      pose proof (dc_instance ct Hflat f l s cl d k I Fi) as DC. unfold bind.
      destruct (dc ct (S (S (S f))) (VRef l) [] s) as [[r|e] s1].
      + destruct DC as (new & d' & _ & _ & _ & I1 & _). exact I1.
      + exact (proj2 DC).
    - destruct FUEL_SS as [f Ef]. rewrite Ef.
      pose proof (dc_container ct Hflat f l [] o (length (heap s)) (fun _ => True)
                    (cstable_fstable _ _ cstable_true) Nr So eq_refl s) as DC.
      assert (Pre : CP ct (fun _ => True) (length (heap s)) l o (heap s)).
      { split; [split; auto|split; auto]. }
      specialize (DC Pre). unfold bind.
      destruct (dc ct (S (S f)) (VRef l) [] s) as [[r|e] s1].
      + destruct DC as (((I1 & _) & _) & _). exact I1.
      + exact (proj1 DC).
  Qed.
End MoreOps.
