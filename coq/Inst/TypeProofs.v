(* C03: managed attributes satisfy their declared type on every mutation route.
   Part A: types whose check does not look inside containers (`simple`),
   fuel, and the heap evolution relation `ext`. *)
From Coq Require Import List ZArith Bool Arith Lia.
From SC Require Import Base.Res Base.PyList Inst.Heap Inst.ClassTable Inst.Model Inst.Framed.
Import ListNotations.
Open Scope nat_scope.
Set Warnings "-unused-intro-pattern".
Set Warnings "-deprecated".
#[local] Opaque FUEL.

(* annotation language without container constructors: int/str/bool/None/Any,
   nested spec classes, Optional and Union of those *)
Fixpoint simple (t : ty) : bool :=
  match t with
  | TList _ | TDict _ _ | TSet _ => false
  | TOpt t' => simple t'
  | TUnion a b => simple a && simple b
  | _ => true
  end.

Fixpoint ty_depth (t : ty) : nat :=
  match t with
  | TOpt t' | TList t' | TSet t' => S (ty_depth t')
  | TUnion a b | TDict a b => S (Nat.max (ty_depth a) (ty_depth b))
  | _ => 0
  end.

(* the class of the instance stored at l, if l holds an instance *)
Definition cls_at (h : heap_t) (l : loc) : option cid :=
  match nth_error h l with Some (OInst c _) => Some c | _ => None end.

Definition shape (o : obj) : nat :=
  match o with OList _ => 0 | ODict _ => 1 | OSet _ => 2 | OInst c _ => 3 + c end.

(* heap evolution: cells are never removed and keep their kind and class *)
Definition ext (h h' : heap_t) : Prop :=
  forall l o, nth_error h l = Some o -> exists o', nth_error h' l = Some o' /\ shape o' = shape o.

Lemma ext_refl h : ext h h.
Proof. intros l o H. eauto. Qed.

Lemma ext_trans h1 h2 h3 : ext h1 h2 -> ext h2 h3 -> ext h1 h3.
Proof.
  intros A B l o H. destruct (A l o H) as [o' [H' S']].
  destruct (B l o' H') as [o'' [H'' S'']]. exists o''. split; auto. congruence.
Qed.

Lemma ext_cls h h' l : ext h h' -> l < length h -> cls_at h' l = cls_at h l.
Proof.
  intros E Hl. unfold cls_at. destruct (nth_error h l) as [o|] eqn:N.
  - destruct (E l o N) as [o' [-> S']]. destruct o, o'; simpl in S'; try discriminate; auto.
    f_equal. lia.
  - apply nth_error_None in N. lia.
Qed.

Lemma ext_length h h' : ext h h' -> length h <= length h'.
Proof.
  intro E. destruct (le_lt_dec (length h) (length h')) as [|Hlt]; auto.
  destruct h as [|o t]; [simpl in *; lia|].
  destruct (nth_error (o :: t) (length h')) as [o1|] eqn:N.
  - destruct (E _ _ N) as [o' [N' _]]. assert (nth_error h' (length h') <> None) by congruence.
    apply nth_error_Some in H. lia.
  - apply nth_error_None in N. lia.
Qed.

Lemma ext_app h o : ext h (h ++ [o]).
Proof. intros l o1 H. exists o1. split; auto. rewrite nth_error_app1; auto. apply nth_error_Some. congruence. Qed.

Lemma nth_error_set_nth_same {A} n (x : A) l : n < length l -> nth_error (set_nth n x l) n = Some x.
Proof. revert n; induction l; intros [|n] H; simpl in *; try lia; auto. apply IHl. lia. Qed.

Lemma ext_set_nth h l o o0 :
  nth_error h l = Some o0 -> shape o = shape o0 -> ext h (set_nth l o h).
Proof.
  intros N S l1 o1 H. destruct (Nat.eq_dec l l1) as [<-|Ne].
  - exists o. split; [|congruence]. apply nth_error_set_nth_same. apply nth_error_Some. congruence.
  - exists o1. split; auto. rewrite set_nth_other; auto.
Qed.

(* ---------- the check on simple types only looks at classes ---------- *)
Definition vsame (h h' : heap_t) (v v' : val) : Prop :=
  match v with
  | VRef l => exists l', v' = VRef l' /\ cls_at h' l' = cls_at h l
  | _ => v' = v
  end.

Lemma check_spec_cls ct h l c :
  match nth_error h l with Some (OInst c' _) => is_subclass ct c' c | _ => false end
  = match cls_at h l with Some c' => is_subclass ct c' c | None => false end.
Proof. unfold cls_at. destruct (nth_error h l) as [[]|]; auto. Qed.

Lemma check_simple_same ct h h' fuel : forall t v v',
  simple t = true -> vsame h h' v v' ->
  check_type fuel ct h' v' t = check_type fuel ct h v t.
Proof.
  induction fuel as [|f IH]; intros t v v' St Hv; simpl; auto.
  destruct t; simpl in St; try discriminate; auto;
    try (destruct v; simpl in Hv; [subst; reflexivity ..|destruct Hv as [l' [-> _]]; reflexivity]).
  - destruct v; simpl in Hv; subst; auto; try (apply IH; simpl; auto).
    destruct Hv as [l' [-> E]]. apply IH; auto. simpl. eauto.
  - apply andb_true_iff in St. destruct St. f_equal; apply IH; auto.
  - destruct v; simpl in Hv; subst; auto. destruct Hv as [l' [-> E]].
    rewrite !check_spec_cls. now rewrite E.
Qed.

Lemma vsame_ext h h' v : ext h h' ->
  (forall l, v = VRef l -> l < length h) -> vsame h h' v v.
Proof.
  intros E Hl. destruct v; simpl; auto. exists l. split; auto. apply ext_cls; auto.
Qed.

(* a dangling reference conforms to nothing but Any/..., in both heaps *)
Lemma check_simple_ext ct h h' fuel t v :
  simple t = true -> ext h h' ->
  check_type fuel ct h v t = true -> check_type fuel ct h' v t = true.
Proof.
  intros St E. revert t v St. induction fuel as [|f IH]; intros t v St; simpl; auto.
  destruct t; simpl in St; try discriminate; auto.
  - destruct v; auto.
  - apply andb_true_iff in St. destruct St. rewrite !orb_true_iff. intros [H1|H1]; [left|right]; auto.
  - destruct v; auto. destruct (nth_error h l) as [o|] eqn:N; [|discriminate].
    destruct (E l o N) as [o' [-> S']]. destruct o; try discriminate.
    destruct o'; simpl in S'; try discriminate. assert (c1 = c0) by lia. now subst.
Qed.

Lemma forallb_ext' {A} (f g : A -> bool) l : (forall x, f x = g x) -> forallb f l = forallb g l.
Proof. intro H. induction l; simpl; auto. now rewrite H, IHl. Qed.

(* ---------- fuel: the recursion is structural in the annotation ---------- *)
Lemma check_fuel_mono ct h : forall f t v,
  ty_depth t < f -> forall f', f <= f' -> check_type f' ct h v t = check_type f ct h v t.
Proof.
  induction f as [|f IH]; intros t v D f' L; [lia|].
  destruct f' as [|f']; [lia|]. simpl.
  destruct t; simpl in D; auto.
  - destruct v; auto; apply IH; lia.
  - f_equal; apply IH; lia.
  - destruct v; auto. destruct (nth_error h l) as [[]|]; auto.
    apply forallb_ext'. intro x. apply IH; lia.
  - destruct v; auto. destruct (nth_error h l) as [[]|]; auto.
    apply forallb_ext'. intro x. f_equal; apply IH; lia.
  - destruct v; auto. destruct (nth_error h l) as [[]|]; auto.
    apply forallb_ext'. intro x. apply IH; lia.
Qed.

(* ------------------------------------------------------------------ *)
(** * The invariant *)

(* every managed attribute held by the instance dict d of class c whose
   annotation is selected by `sel` conforms (executable check, fuel FUEL) *)
Definition dict_ok (sel : ty -> bool) (ct : ctable) (h : heap_t) (c : cid) (d : list (aid * val)) : Prop :=
  forall k a v sp, lookup_cls ct c = Some k -> In (a, v) d -> lookup_attr k a = Some sp ->
    sel (a_ty sp) = true -> check_type FUEL ct h v (a_ty sp) = true.

Definition TInvP (sel : ty -> bool) (ct : ctable) (h : heap_t) : Prop :=
  forall l c d, nth_error h l = Some (OInst c d) -> dict_ok sel ct h c d.

(* the property's invariant: all managed attributes *)
Definition TypeInv (ct : ctable) (s : state) : Prop := TInvP (fun _ => true) ct (heap s).
(* its restriction to attributes with a simple annotation *)
Definition TS (ct : ctable) (h : heap_t) : Prop := TInvP simple ct h.

Definition obj_ok (ct : ctable) (h : heap_t) (o : obj) : Prop :=
  match o with OInst c d => dict_ok simple ct h c d | _ => True end.

Lemma dict_ok_ext ct h h' c d : ext h h' -> dict_ok simple ct h c d -> dict_ok simple ct h' c d.
Proof. intros E H k a v sp Hk Hin Ha Hs. eapply check_simple_ext; eauto. Qed.

Lemma obj_ok_ext ct h h' o : ext h h' -> obj_ok ct h o -> obj_ok ct h' o.
Proof. destruct o; simpl; auto; apply dict_ok_ext. Qed.

Lemma TS_step ct h h' :
  TS ct h -> ext h h' ->
  (forall l o', nth_error h' l = Some o' -> nth_error h l = Some o' \/ obj_ok ct h' o') ->
  TS ct h'.
Proof.
  intros T E H l c d N. destruct (H l _ N) as [N0|Ok]; [|exact Ok].
  eapply dict_ok_ext; eauto.
Qed.

(* ------------------------------------------------------------------ *)
(** * A Hoare logic over the monad that carries TS and ext *)
Section Hoare.
  Variable ct : ctable.

  Definition hoare {A} (P : heap_t -> Prop) (m : M A) (Q : A -> heap_t -> Prop) : Prop :=
    forall s, P (heap s) -> TS ct (heap s) ->
      ext (heap s) (heap (snd (m s))) /\ TS ct (heap (snd (m s))) /\
      match fst (m s) with Ok a => Q a (heap (snd (m s))) | Err _ => True end.

  Definition stable (F : heap_t -> Prop) : Prop := forall h h', ext h h' -> F h -> F h'.
  Definition TT : heap_t -> Prop := fun _ => True.
  Definition pres {A} (m : M A) : Prop := hoare TT m (fun _ _ => True).

  Lemma hoare_ret {A} (P : heap_t -> Prop) (a : A) (Q : A -> heap_t -> Prop) :
    (forall h, P h -> Q a h) -> hoare P (ret a) Q.
  Proof. intros H s Ps T. simpl. auto using ext_refl. Qed.

  Lemma hoare_fail {A} P e (Q : A -> heap_t -> Prop) : hoare P (fail e) Q.
  Proof. intros s Ps T. simpl. auto using ext_refl. Qed.

  Lemma hoare_bind {A B} P (m : M A) (k : A -> M B) Q R :
    hoare P m Q -> (forall a, hoare (Q a) (k a) R) -> hoare P (bind m k) R.
  Proof.
    intros Hm Hk s Ps T. unfold bind. specialize (Hm s Ps T).
    destruct (m s) as [[a|e] s1]; simpl in *.
    - destruct Hm as [E [T1 Qa]]. destruct (Hk a s1 Qa T1) as [E2 [T2 R2]].
      split; [eapply ext_trans; eauto|]. auto.
    - tauto.
  Qed.

  Lemma hoare_conseq {A} (P P' : heap_t -> Prop) (m : M A) (Q Q' : A -> heap_t -> Prop) :
    hoare P m Q -> (forall h, P' h -> P h) -> (forall a h, Q a h -> Q' a h) -> hoare P' m Q'.
  Proof.
    intros H HP HQ s Ps T. destruct (H s (HP _ Ps) T) as [E [T1 Qa]]. split; auto. split; auto.
    destruct (fst (m s)); auto.
  Qed.

  Lemma hoare_keep {A} F P (m : M A) Q :
    stable F -> hoare P m Q -> hoare (fun h => P h /\ F h) m (fun a h => Q a h /\ F h).
  Proof.
    intros St H s [Ps Fs] T. destruct (H s Ps T) as [E [T1 Qa]]. split; auto. split; auto.
    destruct (fst (m s)); auto. split; auto. eapply St; eauto.
  Qed.

  Lemma hoare_pure {A} (phi : Prop) P (m : M A) Q :
    (phi -> hoare P m Q) -> hoare (fun h => phi /\ P h) m Q.
  Proof. intros H s [Hp Ps] T. apply H; auto. Qed.

  Lemma pres_weaken {A} P (m : M A) Q : hoare P m Q -> forall P' : heap_t -> Prop, (forall h, P' h -> P h) -> hoare P' m (fun _ _ => True).
  Proof. intros H P' HP. eapply hoare_conseq; eauto. Qed.
End Hoare.

Section HoarePrims.
  Variable ct : ctable.
  Notation hoare := (hoare ct).
  Notation pres := (pres ct).

  Lemma hoare_alloc o :
    hoare (fun h => obj_ok ct h o) (alloc o) (fun l h => nth_error h l = Some o).
  Proof.
    intros s Ps T. unfold alloc. simpl. split; [apply ext_app|]. split.
    - eapply TS_step; [exact T|apply ext_app|]. intros l o' N.
      destruct (lt_dec l (length (heap s))) as [L|L].
      + left. now rewrite nth_error_app1 in N.
      + right. rewrite nth_error_app2 in N by lia.
        destruct (l - length (heap s)) as [|n]; simpl in N; [|destruct n; discriminate].
        inversion N; subst. eapply obj_ok_ext; [apply ext_app|exact Ps].
    - rewrite nth_error_app2 by lia. now rewrite Nat.sub_diag.
  Qed.

  Lemma hoare_read P l : hoare P (read l) (fun o h => P h /\ nth_error h l = Some o).
  Proof.
    intros s Ps T. unfold read. destruct (nth_error (heap s) l) eqn:N; simpl; auto using ext_refl.
  Qed.

  Lemma hoare_write l o :
    hoare (fun h => exists o0, nth_error h l = Some o0 /\ shape o = shape o0 /\ obj_ok ct h o)
          (write l o) (fun _ _ => True).
  Proof.
    intros s [o0 [N [S Ok]]] T. unfold write.
    assert (L : l < length (heap s)) by (apply nth_error_Some; congruence).
    apply Nat.ltb_lt in L. rewrite L. simpl.
    assert (E : ext (heap s) (set_nth l o (heap s))) by (eapply ext_set_nth; eauto).
    split; auto. split; auto. eapply TS_step; eauto. intros l1 o' N1.
    destruct (Nat.eq_dec l l1) as [<-|Ne].
    - right. rewrite nth_error_set_nth_same in N1 by (now apply Nat.ltb_lt).
      inversion N1; subst. eapply obj_ok_ext; eauto.
    - left. now rewrite set_nth_other in N1.
  Qed.

  Lemma hoare_tick P : stable P -> hoare P tick (fun _ h => P h).
  Proof.
    intros _ s Ps T. unfold tick. destruct (fail_at s) as [k|]; [destruct (k =? S (ncalls s))|];
      simpl; auto using ext_refl.
  Qed.

  Lemma hoare_get_heap P : hoare P get_heap (fun h0 h => h0 = h /\ P h).
  Proof. intros s Ps T. simpl. auto using ext_refl. Qed.

  Lemma hoare_catch {A} P (m k : M A) hd Q :
    hoare P m Q -> hoare TT k Q -> hoare P (catch m hd k) Q.
  Proof.
    intros Hm Hk s Ps T. unfold catch. specialize (Hm s Ps T).
    destruct (m s) as [[a|e] s1]; simpl in *; auto.
    destruct (hd e); simpl; auto. destruct Hm as [E [T1 _]].
    destruct (Hk s1 I T1) as [E2 [T2 Q2]]. split; [eapply ext_trans; eauto|auto].
  Qed.

  Lemma hoare_finally {A} P (m : M A) (c : M unit) Q :
    hoare P m Q -> pres c -> hoare P (finally_ m c) (fun _ _ => True).
  Proof.
    intros Hm Hc s Ps T. unfold finally_. specialize (Hm s Ps T).
    destruct (m s) as [[a|e] s1]; simpl in *; destruct Hm as [E [T1 _]];
      destruct (Hc s1 I T1) as [E2 [T2 _]].
    - destruct (c s1) as [[u|e] s2]; simpl in *; (split; [eapply ext_trans; eauto|auto]).
    - split; [eapply ext_trans; eauto|auto].
  Qed.

  Lemma hoare_foldM {A B} (f : B -> A -> M B) (Inv : B -> heap_t -> Prop) :
    (forall acc x, hoare (Inv acc) (f acc x) Inv) ->
    forall l acc, hoare (Inv acc) (foldM f l acc) Inv.
  Proof.
    intros H. induction l as [|x l IH]; intro acc; simpl.
    - apply hoare_ret; auto.
    - eapply hoare_bind; [apply H|]. intro acc'. apply IH.
  Qed.

  Lemma pres_iterM {A} (f : A -> M unit) l : (forall x, pres (f x)) -> pres (iterM f l).
  Proof.
    intro H. induction l as [|x l IH]; simpl; [apply hoare_ret; auto|].
    eapply hoare_bind; [apply H|]. intros u. apply IH.
  Qed.

  Lemma pres_mapM {A B} (f : A -> M B) l : (forall x, pres (f x)) -> pres (mapM f l).
  Proof.
    intro H. induction l as [|x l IH]; simpl; [apply hoare_ret; auto|].
    eapply hoare_bind; [apply H|]. intros y. eapply hoare_bind; [apply IH|]. intros ys.
    apply hoare_ret; auto.
  Qed.
End HoarePrims.

Section HoareMore.
  Variable ct : ctable.
  Notation hoare := (hoare ct).
  Notation pres := (pres ct).

  Definition has_shape (n : nat) (l : loc) (h : heap_t) : Prop :=
    exists o0, nth_error h l = Some o0 /\ shape o0 = n.

  Lemma has_shape_stable n l : stable (has_shape n l).
  Proof. intros h h' E [o0 [N S]]. destruct (E _ _ N) as [o' [N' S']]. exists o'. split; auto. congruence. Qed.

  Lemma obj_ok_stable o : stable (fun h => obj_ok ct h o).
  Proof. intros h h' E H. eapply obj_ok_ext; eauto. Qed.

  Lemma hoare_read_ok l :
    hoare TT (read l) (fun o h => has_shape (shape o) l h /\ obj_ok ct h o).
  Proof.
    intros s _ T. unfold read. destruct (nth_error (heap s) l) as [o|] eqn:N; simpl; auto using ext_refl.
    split; [apply ext_refl|]. split; auto. split; [exists o; auto|].
    destruct o; simpl; auto. eapply T; eauto.
  Qed.

  Lemma hoare_write_ok l o :
    hoare (fun h => has_shape (shape o) l h /\ obj_ok ct h o) (write l o) (fun _ _ => True).
  Proof.
    eapply hoare_conseq; [apply hoare_write| |auto].
    intros h [[o0 [N S]] Ok]. exists o0. auto.
  Qed.

  Lemma pres_pre {A} (P : heap_t -> Prop) (m : M A) Q : hoare TT m Q -> hoare P m Q.
  Proof. intro H. eapply hoare_conseq; eauto. intros; exact I. Qed.

  Lemma pres_post {A} (P : heap_t -> Prop) (m : M A) Q : hoare P m Q -> hoare P m (fun _ _ => True).
  Proof. intro H. eapply hoare_conseq; eauto. Qed.

  Lemma pres_bind {A B} (m : M A) (k : A -> M B) : pres m -> (forall a, pres (k a)) -> pres (bind m k).
  Proof. intros Hm Hk. eapply hoare_bind; [exact Hm|]. intro a. apply Hk. Qed.

  Lemma pres_ret {A} (a : A) : pres (ret a).
  Proof. apply hoare_ret; auto. Qed.
  Lemma pres_fail {A} e : pres (@fail A e).
  Proof. apply hoare_fail. Qed.

  Lemma pres_read l : pres (read l).
  Proof. eapply pres_post. apply hoare_read_ok. Qed.
  Lemma pres_tick : pres tick.
  Proof. eapply pres_post. apply hoare_tick. intros h h' _ H; exact H. Qed.
  Lemma pres_get_heap : pres get_heap.
  Proof. eapply pres_post. apply hoare_get_heap. Qed.

  Lemma pres_alloc o : (forall c d, o = OInst c d -> d = []) -> pres (alloc o).
  Proof.
    intro H. eapply hoare_conseq; [apply hoare_alloc| |auto].
    intros h _. destruct o; simpl; auto. rewrite (H c d eq_refl). intros k a v sp _ [].
  Qed.

  Lemma pres_catch {A} (m k : M A) hd : pres m -> pres k -> pres (catch m hd k).
  Proof. intros. apply hoare_catch; auto. Qed.
  Lemma pres_finally {A} (m : M A) c : pres m -> pres c -> pres (finally_ m c).
  Proof. intros. eapply hoare_finally; eauto. Qed.
  Lemma pres_foldM {A B} (f : B -> A -> M B) l acc : (forall acc x, pres (f acc x)) -> pres (foldM f l acc).
  Proof. intro H. apply (hoare_foldM ct f (fun _ _ => True)). exact H. Qed.
End HoareMore.

Create HintDb pr.
#[export] Hint Resolve pres_ret pres_fail pres_read pres_tick pres_get_heap : pr.
Ltac pprim := eauto with pr.
Ltac pstep :=
  lazymatch goal with
  | |- pres _ (ret _) => apply pres_ret
  | |- pres _ (fail _) => apply pres_fail
  | |- pres _ (bind _ _) => apply pres_bind; [ solve [pprim] | intros ]
  | |- pres _ (let _ := _ in _) => cbv zeta
  | |- pres _ (if ?c then _ else _) => destruct c eqn:?
  | |- pres _ (match ?x with _ => _ end) => destruct x eqn:?
  end.
Ltac pgo := repeat pstep.

(* ------------------------------------------------------------------ *)
(** * deepcopy: the copy of a value has the class of the original *)
Definition lsame (l l' : loc) (h : heap_t) : Prop :=
  l < length h /\ l' < length h /\ cls_at h l' = cls_at h l.

Lemma lsame_stable l l' : stable (fun h => lsame l l' h).
Proof.
  intros h h' E [L1 [L2 C]]. pose proof (ext_length _ _ E). unfold lsame.
  rewrite !(ext_cls h h') by auto. repeat split; auto; lia.
Qed.

Lemma has_shape_cls n l h : has_shape n l h ->
  l < length h /\ cls_at h l = match n with S (S (S c)) => Some c | _ => None end.
Proof.
  intros [o [N S]]. split; [apply nth_error_Some; congruence|]. unfold cls_at. rewrite N.
  destruct o; simpl in S; subst; auto.
Qed.

Lemma lsame_of_shapes n l l' h : has_shape n l h -> has_shape n l' h -> lsame l l' h.
Proof.
  intros H1 H2. apply has_shape_cls in H1, H2. destruct H1 as [L1 C1], H2 as [L2 C2].
  unfold lsame. rewrite C1, C2. auto.
Qed.

Lemma lsame_refl n l h : has_shape n l h -> lsame l l h.
Proof. intro H. eapply lsame_of_shapes; eauto. Qed.

Definition rsame (v r : val) (h : heap_t) : Prop :=
  r = v \/ exists l l', v = VRef l /\ r = VRef l' /\ lsame l l' h.

Lemma rsame_stable v r : stable (fun h => rsame v r h).
Proof.
  intros h h' E [H|[l [l' [H1 [H2 L]]]]]; [left; auto|right].
  exists l, l'. split; auto. split; auto. eapply lsame_stable; eauto.
Qed.

Lemma rsame_check ct h v r t :
  simple t = true -> rsame v r h ->
  check_type FUEL ct h v t = true -> check_type FUEL ct h r t = true.
Proof.
  intros St [->|[l [l' [-> [-> [_ [_ E]]]]]]] C; auto. rewrite <- C. apply check_simple_same; auto.
  simpl. eauto.
Qed.

Lemma has_shape_inj n m l h : has_shape n l h -> has_shape m l h -> n = m.
Proof. intros [o [N S]] [o' [N' S']]. congruence. Qed.

Definition memo_same (memo : memo_t) (h : heap_t) : Prop :=
  forall l l', In (l, l') memo -> lsame l l' h.

Lemma memo_same_stable memo : stable (memo_same memo).
Proof. intros h h' E H l l' Hin. eapply lsame_stable; eauto. Qed.

Lemma memo_same_assoc memo l l' h : memo_same memo h -> assoc l memo = Some l' -> lsame l l' h.
Proof.
  unfold assoc. intros H E.
  destruct (find (fun p : nat * loc => fst p =? l) memo) as [[x y]|] eqn:F; simpl in E; [|discriminate].
  inversion E; subst. apply find_some in F. destruct F as [F Fe]. simpl in Fe.
  apply Nat.eqb_eq in Fe. subst. auto.
Qed.

Lemma memo_same_cons memo l l' h : memo_same memo h -> lsame l l' h -> memo_same ((l, l') :: memo) h.
Proof. intros H L x y [E|Hin]; [inversion E; subst; auto|auto]. Qed.

Section HoareIn.
  Variable ct : ctable.
  Lemma hoare_foldM_in {A B} (f : B -> A -> M B) (Inv : B -> heap_t -> Prop) l :
    (forall acc x, In x l -> hoare ct (Inv acc) (f acc x) Inv) ->
    forall acc, hoare ct (Inv acc) (foldM f l acc) Inv.
  Proof.
    induction l as [|x l IH]; intros H acc; simpl.
    - apply hoare_ret; auto.
    - eapply hoare_bind; [apply H; simpl; auto|]. intro acc'. apply IH. intros; apply H; simpl; auto.
  Qed.
End HoareIn.

Section HoareKeep.
  Variable ct : ctable.
  Lemma stable_and F G : stable F -> stable G -> stable (fun h => F h /\ G h).
  Proof. intros SF SG h h' E [HF HG]. split; eauto. Qed.
  Lemma stable_TT : stable TT.
  Proof. intros h h' _ _. exact I. Qed.

  Lemma hoare_pre {A} (P P' : heap_t -> Prop) (m : M A) Q :
    (forall h, P' h -> P h) -> hoare ct P m Q -> hoare ct P' m Q.
  Proof. intros HP H. eapply hoare_conseq; eauto. Qed.

  Lemma hoare_post {A} (P : heap_t -> Prop) (m : M A) (Q Q' : A -> heap_t -> Prop) :
    (forall a h, Q a h -> Q' a h) -> hoare ct P m Q -> hoare ct P m Q'.
  Proof. intros HQ H. eapply hoare_conseq; eauto. Qed.

  (* run m (which needs nothing), keep the stable fact F for the continuation *)
  Lemma hoare_bind_keep {A B} F (m : M A) (k : A -> M B) Q R :
    stable F -> hoare ct TT m Q ->
    (forall a, hoare ct (fun h => Q a h /\ F h) (k a) R) ->
    hoare ct F (bind m k) R.
  Proof.
    intros St Hm Hk. eapply hoare_bind; [|exact Hk].
    eapply hoare_pre; [|apply (hoare_keep ct F TT m Q St Hm)]. intros h HF. split; [exact I|exact HF].
  Qed.

  Lemma hoare_bind_keepP {A B} F P (m : M A) (k : A -> M B) Q R :
    stable F -> hoare ct P m Q ->
    (forall a, hoare ct (fun h => Q a h /\ F h) (k a) R) ->
    hoare ct (fun h => P h /\ F h) (bind m k) R.
  Proof.
    intros St Hm Hk. eapply hoare_bind; [|exact Hk]. apply (hoare_keep ct F P m Q St Hm).
  Qed.

  Lemma pres_apply_fn f v : pres ct (apply_fn f v).
  Proof.
    unfold apply_fn. apply pres_bind; [apply pres_tick|]. intros _.
    destruct f; pgo; try (apply pres_bind; [apply pres_alloc; intros; discriminate|intros; apply pres_ret]).
  Qed.

  Lemma pres_check_typeM v t : pres ct (check_typeM ct v t).
  Proof. unfold check_typeM. pgo. Qed.
  Lemma pres_val_eqM x y : pres ct (val_eqM ct x y).
  Proof. unfold val_eqM. pgo. Qed.
End HoareKeep.
#[export] Hint Resolve pres_apply_fn pres_check_typeM pres_val_eqM : pr.

Create HintDb stb.
#[export] Hint Resolve stable_and stable_TT has_shape_stable lsame_stable rsame_stable
  memo_same_stable obj_ok_stable : stb.
Ltac stb := unfold TT; auto 10 with stb.

Section WriteKeep.
  Variable ct : ctable.
  (* a write to a cell of the same kind that keeps the stable facts F *)
  Lemma hoare_write_keep (F : heap_t -> Prop) l o :
    stable F ->
    hoare ct (fun h => (has_shape (shape o) l h /\ obj_ok ct h o) /\ F h) (write l o) (fun _ h => F h).
  Proof.
    intro St. eapply hoare_post; [|apply (hoare_keep ct F _ _ _ St (hoare_write_ok ct l o))].
    intros a h [_ HF]. exact HF.
  Qed.
End WriteKeep.

Section DC.
  Variable ct : ctable.
  Definition Qdc (v : val) (r : val * memo_t) (h : heap_t) : Prop :=
    rsame v (fst r) h /\ memo_same (snd r) h.

  Lemma Qdc_stable v r : stable (Qdc v r).
  Proof. unfold Qdc. stb. Qed.
  Hint Resolve Qdc_stable : stb.

  Lemma dc_hoare fuel : forall v memo,
    hoare ct (memo_same memo) (dc ct fuel v memo) (Qdc v).
  Proof.
    induction fuel as [|f IH]; intros v memo; simpl; [apply hoare_fail|].
    destruct v; try (apply hoare_ret; intros h H; split; simpl; auto; left; reflexivity).
    destruct (assoc l memo) as [l'|] eqn:A.
    { apply hoare_ret. intros h H. split; auto. simpl. right. exists l, l'. split; auto. split; auto.
      eapply memo_same_assoc; eauto. }
    eapply hoare_bind_keep; [apply memo_same_stable|apply hoare_read_ok|].
    intros o. destruct o as [xs|kvs|xs|c d].
    - (* list *)
      eapply hoare_pre with (P := fun h => has_shape 0 l h /\ memo_same memo h); [simpl; tauto|].
      eapply hoare_bind_keep;
        [apply stable_and; [apply has_shape_stable|apply memo_same_stable]
        |eapply hoare_pre; [|apply hoare_alloc]; simpl; auto|].
      intros l'.
      set (Inv := fun (m : memo_t) (h : heap_t) => memo_same m h /\ (has_shape 0 l' h /\ lsame l l' h)).
      eapply hoare_bind with (Q := Inv).
      { eapply hoare_pre; [|apply hoare_foldM with (Inv := Inv)].
        - intros h [N [S M]].
          assert (S' : has_shape 0 l' h) by (exists (OList []); auto).
          assert (L : lsame l l' h) by (eapply lsame_of_shapes; eauto).
          split; [apply memo_same_cons; auto|auto].
        - intros m x. unfold Inv.
          eapply hoare_bind_keepP;
            [apply stable_and; [apply has_shape_stable|apply lsame_stable]|apply IH|].
          intros r. cbv beta.
          eapply hoare_bind_keep; [stb|apply hoare_read_ok|].
          intros o'. destruct o' as [ys| | |]; try apply hoare_fail.
          eapply hoare_bind with (Q := fun _ h => Qdc x r h /\ has_shape 0 l' h /\ lsame l l' h).
          { eapply hoare_pre; [|apply hoare_write_keep; stb].
            intros h [[S0 _] H]. simpl. split; [split; [exact S0|exact I]|exact H]. }
          intros _. apply hoare_ret. intros h [[_ M] H]. split; auto. }
      intros memo'. apply hoare_ret. intros h [M [S L]]. split; auto. simpl. right. eauto.
    - (* dict *)
      eapply hoare_pre with (P := fun h => has_shape 1 l h /\ memo_same memo h); [simpl; tauto|].
      eapply hoare_bind_keep; [stb|eapply hoare_pre; [|apply hoare_alloc]; simpl; auto|].
      intros l'.
      set (Inv := fun (m : memo_t) (h : heap_t) => memo_same m h /\ (has_shape 1 l' h /\ lsame l l' h)).
      eapply hoare_bind with (Q := Inv).
      { eapply hoare_pre; [|apply hoare_foldM with (Inv := Inv)].
        - intros h [N [S M]].
          assert (S' : has_shape 1 l' h) by (exists (ODict []); auto).
          assert (L : lsame l l' h) by (eapply lsame_of_shapes; eauto).
          split; [apply memo_same_cons; auto|auto].
        - intros m p. unfold Inv.
          eapply hoare_bind_keepP; [stb|apply IH|].
          intros rk. cbv beta.
          eapply hoare_pre with (P := fun h => memo_same (snd rk) h /\ (has_shape 1 l' h /\ lsame l l' h));
            [unfold Qdc; tauto|].
          eapply hoare_bind_keepP; [stb|apply IH|].
          intros rv. cbv beta.
          eapply hoare_bind_keep; [stb|apply hoare_read_ok|].
          intros o'. destruct o' as [|ys| |]; try apply hoare_fail.
          eapply hoare_bind with (Q := fun _ h => Qdc (snd p) rv h /\ has_shape 1 l' h /\ lsame l l' h).
          { eapply hoare_pre; [|apply hoare_write_keep; stb].
            intros h [[S0 _] H]. simpl. split; [split; [exact S0|exact I]|exact H]. }
          intros _. apply hoare_ret. intros h [[_ M] H]. split; auto. }
      intros memo'. apply hoare_ret. intros h [M [S L]]. split; auto. simpl. right. eauto.
    - (* set *)
      eapply hoare_pre with (P := fun h => memo_same memo h /\ has_shape 2 l h); [simpl; tauto|].
      set (Inv := fun (acc : list val * memo_t) (h : heap_t) => memo_same (snd acc) h /\ has_shape 2 l h).
      eapply hoare_bind with (Q := Inv).
      { eapply hoare_pre; [|apply hoare_foldM with (Inv := Inv)]; [auto|].
        intros acc x. unfold Inv.
        eapply hoare_bind_keepP; [stb|apply IH|].
        intros r. apply hoare_ret. intros h [[_ M] S]. split; auto. }
      intros r. unfold Inv.
      eapply hoare_bind_keep; [stb|eapply hoare_pre; [|apply hoare_alloc]; simpl; auto|].
      intros l'. apply hoare_ret. intros h [N [M S]].
      assert (L : lsame l l' h) by (eapply lsame_of_shapes; eauto; eexists; eauto).
      split; simpl; [right; eauto|]. apply memo_same_cons; auto.
    - (* instance *)
      destruct (lookup_cls ct c) as [k|] eqn:Ek; [|apply hoare_fail].
      destruct (c_dnc k).
      { apply hoare_ret. intros h [[S _] M]. split; auto. simpl. right. exists l, l.
        split; auto. split; auto. eapply lsame_refl; eauto. }
      set (D := fun h => obj_ok ct h (OInst c d)).
      eapply hoare_pre with (P := fun h => has_shape (3 + c) l h /\ D h /\ memo_same memo h);
        [simpl; tauto|].
      eapply hoare_bind_keep;
        [unfold D; stb|eapply hoare_pre; [|apply hoare_alloc]; simpl; intros h _ k0 a v sp _ []|].
      intros new.
      set (Inv := fun (m : memo_t) (h : heap_t) =>
                    memo_same m h /\ (has_shape (3 + c) new h /\ lsame l new h /\ D h)).
      eapply hoare_bind with (Q := Inv).
      { eapply hoare_pre; [|apply hoare_foldM_in with (Inv := Inv)].
        - intros h [N [S [HD M]]].
          assert (S' : has_shape (3 + c) new h) by (exists (OInst c []); auto).
          assert (L : lsame l new h) by (eapply lsame_of_shapes; eauto).
          split; auto.
        - intros m [a x] Hin. unfold Inv.
          eapply hoare_bind with
            (Q := fun r h => Qdc x r h /\ (has_shape (3 + c) new h /\ lsame l new h /\ D h)).
          { assert (Hret : hoare ct (fun h => memo_same m h /\ (has_shape (3 + c) new h /\ lsame l new h /\ D h))
                             (ret (x, m))
                             (fun r h => Qdc x r h /\ (has_shape (3 + c) new h /\ lsame l new h /\ D h))).
            { apply hoare_ret. intros h [M H]. split; auto. split; simpl; auto. left; reflexivity. }
            assert (Hdc : hoare ct (fun h => memo_same m h /\ (has_shape (3 + c) new h /\ lsame l new h /\ D h))
                             (dc ct f x m)
                             (fun r h => Qdc x r h /\ (has_shape (3 + c) new h /\ lsame l new h /\ D h))).
            { apply hoare_keep; [unfold D; stb|apply IH]. }
            destruct (lookup_attr k a) as [sp|]; [destruct (a_dnc sp); auto|];
              destruct (val_is_scalar x); auto. }
          intros r.
          eapply hoare_bind_keep; [unfold D; stb|apply hoare_read_ok|].
          intros o'. destruct o' as [| | |c' d']; try apply hoare_fail.
          eapply hoare_bind with
            (Q := fun _ h => Qdc x r h /\ (has_shape (3 + c) new h /\ lsame l new h /\ D h)).
          { eapply hoare_pre; [|apply hoare_write_keep; unfold D; stb].
            intros h [[S0 Ok'] H]. split; [|exact H]. split; [exact S0|].
            destruct H as [[R _] [S1 [_ HD]]].
            assert (c' = c) by (pose proof (has_shape_inj _ _ _ _ S0 S1) as E; simpl in E; lia). subst c'.
            simpl in Ok' |- *. intros k0 a0 v0 sp Hk Hi Ha Hs.
            apply in_app_or in Hi. destruct Hi as [Hi|[Hi|[]]]; [eapply Ok'; eauto|].
            inversion Hi; subst a0 v0. eapply rsame_check; eauto. }
          intros _. apply hoare_ret. intros h [[_ M] H]. split; auto. }
      intros memo'. unfold Inv.
      eapply hoare_bind with (Q := fun _ h => memo_same memo' h /\ lsame l new h).
      { eapply hoare_pre with (P := fun h => TT h /\ (memo_same memo' h /\ lsame l new h)); [unfold TT; tauto|].
        eapply hoare_post; [|apply hoare_keep; [stb|]].
        - intros a h [_ H]. exact H.
        - destruct (c_post_copy k); [|apply pres_ret].
          apply pres_bind; [apply pres_apply_fn|intros; apply pres_ret]. }
      intros _. apply hoare_ret. intros h [M L]. split; simpl.
      + right. eauto.
      + apply memo_same_cons; auto.
  Qed.

  Lemma deepcopy_hoare v : hoare ct TT (deepcopy ct v) (fun r h => rsame v r h).
  Proof.
    unfold deepcopy. eapply hoare_bind; [eapply hoare_pre; [|apply dc_hoare]; intros h _ l l' []|].
    intros r. apply hoare_ret. intros h [H _]. exact H.
  Qed.

  Lemma protect_hoare v : hoare ct TT (protect ct v) (fun r h => rsame v r h).
  Proof.
    unfold protect. destruct (val_is_scalar v); [apply hoare_ret; intros; left; reflexivity|].
    apply deepcopy_hoare.
  Qed.

  Lemma pres_deepcopy v : pres ct (deepcopy ct v).
  Proof. eapply pres_post. apply deepcopy_hoare. Qed.
  Lemma pres_protect v : pres ct (protect ct v).
  Proof. eapply pres_post. apply protect_hoare. Qed.
End DC.
#[export] Hint Resolve pres_deepcopy pres_protect : pr.

(* ------------------------------------------------------------------ *)
(** * The core functions preserve the invariant *)
Lemma assoc_set_in {A} a (v : A) d a0 v0 :
  In (a0, v0) (assoc_set a v d) -> In (a0, v0) d \/ (a0 = a /\ v0 = v).
Proof.
  unfold assoc_set. destruct (existsb _ d).
  - intro H. apply in_map_iff in H. destruct H as [[a1 v1] [E Hin]]. simpl in E.
    destruct (a1 =? a); inversion E; subst; auto.
  - intro H. apply in_app_or in H. destruct H as [H|[H|[]]]; auto. inversion H; auto.
Qed.

Lemma assoc_del_in {A} a d a0 (v0 : A) : In (a0, v0) (assoc_del a d) -> In (a0, v0) d.
Proof. unfold assoc_del. intro H. apply filter_In in H. tauto. Qed.

Lemma assoc_in {A} a d (v : A) : assoc a d = Some v -> In (a, v) d.
Proof.
  unfold assoc. destruct (find (fun p : nat * A => fst p =? a) d) as [[x y]|] eqn:F; simpl; [|discriminate].
  intro E. inversion E; subst. apply find_some in F. destruct F as [F Fe]. simpl in Fe.
  apply Nat.eqb_eq in Fe. now subst.
Qed.

Lemma cls_at_shape h l c : cls_at h l = Some c -> has_shape (3 + c) l h.
Proof.
  unfold cls_at. destruct (nth_error h l) as [[]|] eqn:N; try discriminate.
  intro E. inversion E; subst. eexists; split; eauto.
Qed.

Lemma lsame_shape l l' h c : lsame l l' h -> has_shape (3 + c) l h -> has_shape (3 + c) l' h.
Proof.
  intros [_ [_ E]] S. apply has_shape_cls in S. destruct S as [_ C]. simpl in C.
  rewrite C in E. now apply cls_at_shape.
Qed.

Section Core.
  Variable ct : ctable.
  Hypothesis no_reserved : forall c k, lookup_cls ct c = Some k -> lookup_attr k A_INITIALIZING = None.
  Variable rec : call -> M val.
  Hypothesis Hrec : forall k, pres ct (rec k).
  Notation hoare := (hoare ct).
  Notation pres := (pres ct).

  (* v may be stored in attribute a of an instance of class c *)
  Definition val_ok (c : cid) (a : aid) (v : val) (h : heap_t) : Prop :=
    forall k sp, lookup_cls ct c = Some k -> lookup_attr k a = Some sp ->
      simple (a_ty sp) = true -> check_type FUEL ct h v (a_ty sp) = true.

  Lemma val_ok_stable c a v : stable (val_ok c a v).
  Proof. intros h h' E H k sp Hk Ha Hs. eapply check_simple_ext; eauto. Qed.

  Lemma pres_loc_of v : pres (loc_of v).
  Proof. destruct v; simpl; pgo. Qed.

  Lemma read_inst_hoare l :
    hoare TT (read_inst l) (fun p h => has_shape (3 + fst p) l h /\ dict_ok simple ct h (fst p) (snd p)).
  Proof.
    unfold read_inst. eapply hoare_bind; [apply hoare_read_ok|]. intros o.
    destruct o; try apply hoare_fail. apply hoare_ret. simpl. auto.
  Qed.
  Lemma pres_read_inst l : pres (read_inst l).
  Proof. eapply pres_post. apply read_inst_hoare. Qed.

  Lemma cls_of_hoare P c : hoare P (cls_of ct c) (fun k h => lookup_cls ct c = Some k /\ P h).
  Proof. unfold cls_of. destruct (lookup_cls ct c); [apply hoare_ret; auto|apply hoare_fail]. Qed.
  Lemma pres_cls_of c : pres (cls_of ct c).
  Proof. eapply pres_post. apply cls_of_hoare. Qed.

  Hint Resolve pres_loc_of pres_read_inst pres_cls_of : pr.

  Lemma hoare_read_full P l :
    hoare P (read l) (fun o h => P h /\ nth_error h l = Some o /\ obj_ok ct h o).
  Proof.
    intros s Ps T. unfold read. destruct (nth_error (heap s) l) as [o|] eqn:N; simpl; auto using ext_refl.
    split; [apply ext_refl|]. split; auto. split; auto. split; auto.
    destruct o; simpl; auto. eapply T; eauto.
  Qed.

  Lemma raw_setattr_hoare l a v :
    hoare (fun h => forall c, has_shape (3 + c) l h -> val_ok c a v h) (raw_setattr l a v) (fun _ _ => True).
  Proof.
    unfold raw_setattr, read_inst.
    eapply hoare_bind.
    { eapply hoare_bind; [apply hoare_read_full|]. intros o.
      destruct o as [| | |c d]; try apply hoare_fail.
      apply hoare_ret with (Q := fun p h => (forall c, has_shape (3 + c) l h -> val_ok c a v h) /\
                                 nth_error h l = Some (OInst (fst p) (snd p)) /\ dict_ok simple ct h (fst p) (snd p)).
      simpl. auto. }
    intros [c d]. simpl. eapply hoare_pre; [|apply hoare_write_ok].
    intros h [Ps [N Ok]]. assert (S : has_shape (3 + c) l h) by (eexists; split; eauto).
    split; [exact S|].
    simpl. intros k a0 v0 sp Hk Hi Ha Hs. apply assoc_set_in in Hi. destruct Hi as [Hi|[-> ->]].
    - eapply Ok; eauto.
    - eapply Ps; eauto. exact S.
  Qed.

  Lemma raw_setattr_at c l a v :
    hoare (fun h => has_shape (3 + c) l h /\ val_ok c a v h) (raw_setattr l a v) (fun _ _ => True).
  Proof.
    eapply hoare_pre; [|apply raw_setattr_hoare]. intros h [S V] c' S'.
    assert (3 + c' = 3 + c) by (eapply has_shape_inj; eauto). assert (c' = c) by lia. now subst.
  Qed.

  Lemma pres_raw_setattr_init l v : pres (raw_setattr l A_INITIALIZING v).
  Proof.
    eapply hoare_pre; [|apply raw_setattr_hoare]. intros h _ c _ k sp Hk Ha.
    rewrite (no_reserved _ _ Hk) in Ha. discriminate.
  Qed.

  Lemma pres_raw_delattr l a : pres (raw_delattr l a).
  Proof.
    unfold raw_delattr. eapply hoare_bind; [apply read_inst_hoare|]. intros p.
    destruct (assoc a (snd p)); [|apply hoare_fail].
    eapply hoare_pre; [|apply hoare_write_ok]. intros h [S Ok]. split; [exact S|].
    simpl. intros k a0 v0 sp Hk Hi. apply assoc_del_in in Hi. eapply Ok; eauto.
  Qed.

  Lemma pres_getattr_default l a : pres (getattr_default ct l a).
  Proof. unfold getattr_default. pgo. Qed.
  Hint Resolve pres_raw_setattr_init pres_raw_delattr pres_getattr_default : pr.

  Lemma thawed_hoare {A} P l thaw (m : M A) Q :
    stable P -> hoare P m Q -> hoare P (thawed ct l thaw m) (fun _ _ => True).
  Proof.
    intros St Hm. unfold thawed.
    assert (Hm' : forall P0 : heap_t -> Prop, hoare (fun h => P0 h /\ P h) m (fun _ _ => True)).
    { intro P0. eapply hoare_pre; [|eapply pres_post; exact Hm]. tauto. }
    eapply hoare_bind_keep; [exact St|apply pres_read|]. intros o.
    destruct o; try apply Hm'.
    eapply hoare_pre with (P := P); [tauto|].
    eapply hoare_bind_keep; [exact St|apply pres_cls_of|]. intros k.
    destruct (negb thaw || negb (c_frozen k) || initializing d); [apply Hm'|].
    eapply hoare_pre with (P := P); [tauto|].
    eapply hoare_bind_keep; [exact St|apply pres_raw_setattr_init|]. intros u.
    eapply hoare_pre with (P := P); [tauto|].
    eapply hoare_finally; [exact Hm|apply pres_raw_delattr].
  Qed.

  Lemma pres_thawed {A} l thaw (m : M A) : pres m -> pres (thawed ct l thaw m).
  Proof. intro H. eapply thawed_hoare; [apply stable_TT|exact H]. Qed.

  Lemma pres_thawed_val {A} v thaw (m : M A) : pres m -> pres (thawed_val ct v thaw m).
  Proof. intro H. destruct v; simpl; auto. now apply pres_thawed. Qed.

  Lemma pres_invalidate_attrs l a : pres (invalidate_attrs ct rec l a).
  Proof.
    unfold invalidate_attrs. pstep. pstep. cbv zeta. apply pres_iterM. intros sp.
    pstep; [|pstep]. apply pres_catch; [|pstep]. apply pres_bind; [apply Hrec|]. intros; pstep.
  Qed.
  Hint Resolve pres_invalidate_attrs : pr.

  Lemma hoare_guard P (b : bool) e : hoare P (if b then fail e else ret tt) (fun _ h => P h).
  Proof. destruct b; [apply hoare_fail|apply hoare_ret; auto]. Qed.

  Lemma check_typeM_hoare P v t :
    hoare P (check_typeM ct v t) (fun ok h => P h /\ ok = check_type FUEL ct h v t).
  Proof.
    unfold check_typeM. eapply hoare_bind; [apply hoare_get_heap|]. intros h0.
    apply hoare_ret. intros h [-> Ph]. auto.
  Qed.

  Definition may_store (tc : bool) (l : loc) (a : aid) (v : val) (h : heap_t) : Prop :=
    tc = false -> exists c, has_shape (3 + c) l h /\ val_ok c a v h.

  Lemma may_store_stable tc l a v : stable (may_store tc l a v).
  Proof.
    intros h h' E H Htc. destruct (H Htc) as [c [S V]]. exists c. split.
    - eapply has_shape_stable; eauto.
    - eapply val_ok_stable; eauto.
  Qed.

  (* the type check of mutate_attr: afterwards the value may be stored *)
  Lemma mutate_attr_check c k l a value tc :
    lookup_cls ct c = Some k ->
    hoare (fun h => has_shape (3 + c) l h /\ may_store tc l a value h)
      (match lookup_attr k a with
       | Some sp => if tc then (ok <- check_typeM ct value (a_ty sp) ;; if ok then ret tt else fail TypeErr)
                    else ret tt
       | None => ret tt end)
      (fun _ h => has_shape (3 + c) l h /\ val_ok c a value h).
  Proof.
    intro Hk. destruct (lookup_attr k a) as [sp|] eqn:Ha.
    - destruct tc.
      + eapply hoare_bind; [apply check_typeM_hoare|]. intros ok. destruct ok; [|apply hoare_fail].
        apply hoare_ret. intros h [[S _] C]. split; auto. intros k' sp' Hk' Ha' _.
        rewrite Hk in Hk'. inversion Hk'; subst k'. rewrite Ha in Ha'. inversion Ha'; subst sp'. auto.
      + apply hoare_ret. intros h [S M]. split; auto. destruct (M eq_refl) as [c' [S' V]].
        assert (3 + c' = 3 + c) by (eapply has_shape_inj; eauto). assert (c' = c) by lia. now subst.
    - apply hoare_ret. intros h [S _]. split; auto. intros k' sp' Hk' Ha'.
      rewrite Hk in Hk'. inversion Hk'; subst k'. rewrite Ha in Ha'. discriminate.
  Qed.

  (* the receiver, or its deep copy: an instance of the same class *)
  Lemma mutate_attr_copy c l (copied : bool) (F : heap_t -> Prop) :
    stable F ->
    hoare (fun h => has_shape (3 + c) l h /\ F h)
      (if copied then (v <- deepcopy ct (VRef l) ;; loc_of v) else ret l)
      (fun l' h => has_shape (3 + c) l' h /\ F h).
  Proof.
    intro St. destruct copied; [|apply hoare_ret; auto].
    eapply hoare_pre with (P := fun h => has_shape (3 + c) l h /\ F h); [auto|].
    eapply hoare_bind_keep; [stb|apply deepcopy_hoare|].
    intros v. destruct v; simpl; try apply hoare_fail.
    apply hoare_ret. intros h [R [S HF]]. split; auto.
    destruct R as [E|[l1 [l2 [E1 [E2 L]]]]].
    - inversion E; subst; auto.
    - inversion E1; inversion E2; subst. eapply lsame_shape; eauto.
  Qed.

  Lemma mutate_attr_pick c l' a value (b : bool) cur :
    hoare (fun h => has_shape (3 + c) l' h /\ val_ok c a value h)
      (if b && same_object cur value
       then (p' <- read_inst l' ;;
             ret (match assoc a (snd p') with Some v' => v' | None => value end))
       else ret value)
      (fun value' h => has_shape (3 + c) l' h /\ val_ok c a value' h).
  Proof.
    destruct (b && same_object cur value); [|apply hoare_ret; auto].
    eapply hoare_pre with (P := fun h => has_shape (3 + c) l' h /\ val_ok c a value h); [auto|].
    eapply hoare_bind_keep; [apply stable_and; [stb|apply val_ok_stable]|apply read_inst_hoare|].
    intros [c' d']. apply hoare_ret. simpl. intros h [[S' Ok] [S V]]. split; auto.
    destruct (assoc a d') as [v'|] eqn:As; auto.
    assert (3 + c' = 3 + c) by (eapply has_shape_inj; eauto). assert (c' = c) by lia. subst c'.
    intros k sp Hk Ha Hs. eapply Ok; eauto. now apply assoc_in.
  Qed.

  Theorem mutate_attr_hoare l a value inplace tc force skip :
    hoare (may_store tc l a value) (mutate_attr ct rec l a value inplace tc force skip) (fun _ _ => True).
  Proof.
    unfold mutate_attr. destruct (is_sentinel value); [apply hoare_ret; auto|].
    eapply hoare_bind_keep; [apply may_store_stable|apply read_inst_hoare|]. intros [c d]. simpl fst; simpl snd.
    eapply hoare_bind; [apply cls_of_hoare|]. intros k.
    apply hoare_pure with (P := fun h => (has_shape (3 + c) l h /\ dict_ok simple ct h c d) /\ may_store tc l a value h).
    intro Hk.
    eapply hoare_bind; [apply hoare_guard|]. intros ?.
    eapply hoare_bind.
    { eapply hoare_pre; [|apply (mutate_attr_check c k l a value tc Hk)]. tauto. }
    intros ?. cbv zeta.
    eapply hoare_bind; [apply (mutate_attr_copy c l _ (val_ok c a value)); apply val_ok_stable|].
    intros l'.
    eapply hoare_bind; [apply mutate_attr_pick|]. intros value'.
    eapply hoare_bind with (Q := fun _ _ => True); [|intros; apply hoare_ret; auto].
    eapply thawed_hoare; [apply stable_and; [stb|apply val_ok_stable]|].
    eapply hoare_bind; [apply raw_setattr_at|]. intros ?.
    destruct skip; [apply pres_ret|apply pres_invalidate_attrs].
  Qed.

  Lemma pres_mutate_attr_checked l a value inplace force skip :
    pres (mutate_attr ct rec l a value inplace true force skip).
  Proof. eapply hoare_pre; [|apply mutate_attr_hoare]. intros h _ E. discriminate. Qed.
  Hint Resolve pres_mutate_attr_checked : pr.

  Hint Extern 1 (TypeProofs.pres _ (alloc _)) => (apply pres_alloc; intros ? ? E; inversion E; reflexivity) : pr.
  Hint Resolve Hrec : pr.

  Lemma pres_run_factory f : pres (run_factory rec f).
  Proof. unfold run_factory. pstep. destruct f; pgo. apply Hrec. Qed.
  Lemma pres_default_value sp : pres (default_value ct rec sp).
  Proof. unfold default_value. destruct (a_factory sp); [apply pres_run_factory|apply pres_protect]. Qed.
  Lemma pres_lookup_default_value sp k : pres (lookup_default_value ct rec sp k).
  Proof. unfold lookup_default_value. destruct (assoc _ _); [apply pres_protect|apply pres_default_value]. Qed.
  Hint Resolve pres_run_factory pres_default_value pres_lookup_default_value : pr.


  Lemma pres_instantiate_ty t : pres (instantiate_ty rec t).
  Proof. unfold instantiate_ty. destruct t; pgo. apply Hrec. Qed.
  Hint Resolve pres_instantiate_ty : pr.

  Lemma pres_prepare_item sp inst item : pres (prepare_item ct rec sp inst item).
  Proof.
    unfold prepare_item. apply pres_bind; [destruct (a_prepare_item sp); pprim|]. intros item1.
    pgo. apply Hrec.
  Qed.

  Lemma pres_apply_xform x v : pres (apply_xform ct rec x v).
  Proof.
    unfold apply_xform. destruct x as [[f|] o]; [pprim|].
    destruct o as [[sp inst]|]; [apply pres_prepare_item|pstep].
  Qed.
  Lemma pres_str_key v : pres (str_key_to_aid v).
  Proof. unfold str_key_to_aid. destruct v; pgo. Qed.
  Hint Resolve pres_prepare_item pres_apply_xform pres_str_key : pr.

  Ltac pauto :=
    first [ solve [pprim]
          | lazymatch goal with
            | |- TypeProofs.pres _ (ret _) => apply pres_ret
            | |- TypeProofs.pres _ (fail _) => apply pres_fail
            | |- TypeProofs.pres _ (bind _ _) => apply pres_bind; [pauto | intros; pauto]
            | |- TypeProofs.pres _ (iterM _ _) => apply pres_iterM; intros; pauto
            | |- TypeProofs.pres _ (mapM _ _) => apply pres_mapM; intros; pauto
            | |- TypeProofs.pres _ (foldM _ _ _) => apply pres_foldM; intros; pauto
            | |- TypeProofs.pres _ (thawed_val _ _ _ _) => apply pres_thawed_val; pauto
            | |- TypeProofs.pres _ (thawed _ _ _ _) => apply pres_thawed; pauto
            | |- TypeProofs.pres _ (catch _ _ _) => apply pres_catch; pauto
            | |- TypeProofs.pres _ (let _ := _ in _) => cbv zeta; pauto
            | |- TypeProofs.pres _ (if ?c then _ else _) => destruct c; pauto
            | |- TypeProofs.pres _ (match ?x with _ => _ end) => destruct x; pauto
            end ].

  Lemma pres_mutate_value_body m : pres (mutate_value_body ct rec m).
  Proof. unfold mutate_value_body. pauto. Qed.

  Lemma pres_mutate_value m : pres (mutate_value ct rec m).
  Proof. unfold mutate_value. destruct (mv_new m); try apply pres_mutate_value_body. apply pres_ret. Qed.

  (* ---------------- collections ---------------- *)
  Lemma pres_loc_of_t v : pres (loc_of_t v).
  Proof. destruct v; simpl; pauto. Qed.
  Hint Resolve pres_loc_of_t : pr.

  Lemma read_list_hoare v : hoare TT (read_list v) (fun p h => has_shape 0 (fst p) h).
  Proof.
    unfold read_list. eapply hoare_bind; [apply pres_loc_of_t|]. intros l.
    eapply hoare_bind; [apply hoare_read_ok|]. intros o. destruct o; try apply hoare_fail.
    apply hoare_ret. simpl. tauto.
  Qed.
  Lemma read_dict_hoare v : hoare TT (read_dict v) (fun p h => has_shape 1 (fst p) h).
  Proof.
    unfold read_dict. eapply hoare_bind; [apply pres_loc_of_t|]. intros l.
    eapply hoare_bind; [apply hoare_read_ok|]. intros o. destruct o; try apply hoare_fail.
    apply hoare_ret. simpl. tauto.
  Qed.
  Lemma read_set_hoare v : hoare TT (read_set v) (fun p h => has_shape 2 (fst p) h).
  Proof.
    unfold read_set. eapply hoare_bind; [apply pres_loc_of_t|]. intros l.
    eapply hoare_bind; [apply hoare_read_ok|]. intros o. destruct o; try apply hoare_fail.
    apply hoare_ret. simpl. tauto.
  Qed.
  Lemma pres_read_list v : pres (read_list v). Proof. eapply pres_post. apply read_list_hoare. Qed.
  Lemma pres_read_dict v : pres (read_dict v). Proof. eapply pres_post. apply read_dict_hoare. Qed.
  Lemma pres_read_set v : pres (read_set v). Proof. eapply pres_post. apply read_set_hoare. Qed.
  Hint Resolve pres_read_list pres_read_dict pres_read_set : pr.

  Lemma pres_find_eq_index xs v : pres (find_eq_index ct xs v).
  Proof. unfold find_eq_index. pauto. Qed.
  Lemma pres_dict_lookup kvs k : pres (dict_lookup ct kvs k).
  Proof. unfold dict_lookup. pauto. Qed.
  Lemma pres_dict_assign kvs k v : pres (dict_assign ct kvs k v).
  Proof. unfold dict_assign. pauto. Qed.
  Lemma pres_set_mem xs v : pres (set_mem ct xs v).
  Proof. unfold set_mem. pauto. Qed.
  Lemma pres_set_discard xs v : pres (set_discard ct xs v).
  Proof. unfold set_discard. pauto. Qed.
  Hint Resolve pres_find_eq_index pres_dict_lookup pres_dict_assign pres_set_mem pres_set_discard : pr.

  (* a container write after the cell has been seen to be of that kind *)
  Lemma write_container n l o :
    shape o = n -> n < 3 -> hoare (has_shape n l) (write l o) (fun _ _ => True).
  Proof.
    intros S L. eapply hoare_pre; [|apply hoare_write_ok]. intros h H. rewrite S. split; auto.
    destruct o; simpl in *; auto. lia.
  Qed.

  Lemma hoare_of_pres {A} (P : heap_t -> Prop) (m : M A) : pres m -> hoare P m (fun _ _ => True).
  Proof. intro H. eapply hoare_pre; [|exact H]. intros; exact I. Qed.

  (* goals `hoare (has_shape n l) m True`: m is pure/pres steps ending in a write of kind n to l *)
  Ltac wauto :=
    first [ solve [apply write_container; [reflexivity|lia]]
          | solve [apply hoare_of_pres; pauto]
          | lazymatch goal with
            | |- TypeProofs.hoare _ _ (bind _ _) _ =>
                eapply hoare_bind_keep; [apply has_shape_stable|apply hoare_of_pres; pauto|];
                intros; (eapply hoare_pre; [intros ? [_ ?]; eassumption|]); wauto
            | |- TypeProofs.hoare _ _ (let _ := _ in _) _ => cbv zeta; wauto
            | |- TypeProofs.hoare _ _ (if ?c then _ else _) _ => destruct c; wauto
            | |- TypeProofs.hoare _ _ (match ?x with _ => _ end) _ => destruct x; wauto
            end ].

  Lemma pres_seq_extractor sp coll voi r bi : pres (seq_extractor ct sp coll voi r bi).
  Proof. unfold seq_extractor. pauto. Qed.
  Lemma pres_map_extractor coll key r : pres (map_extractor ct coll key r).
  Proof. unfold map_extractor. pauto. Qed.
  Lemma pres_set_extractor coll voi r : pres (set_extractor ct coll voi r).
  Proof. unfold set_extractor. pauto. Qed.

  Lemma pres_seq_inserter sp coll index item ins : pres (seq_inserter ct sp coll index item ins).
  Proof.
    unfold seq_inserter. apply pres_bind; [pauto|]. intros ok. destruct (negb ok); [apply pres_fail|].
    eapply hoare_bind; [apply read_list_hoare|]. intros p. wauto.
  Qed.
  Lemma pres_map_inserter sp coll key item : pres (map_inserter ct sp coll key item).
  Proof.
    unfold map_inserter. apply pres_bind; [pauto|]. intros okk. destruct (negb okk); [apply pres_fail|].
    apply pres_bind; [pauto|]. intros ok. destruct (negb ok); [apply pres_fail|].
    eapply hoare_bind; [apply read_dict_hoare|]. intros p. wauto.
  Qed.
  Lemma pres_set_inserter sp coll index item : pres (set_inserter ct sp coll index item).
  Proof.
    unfold set_inserter. apply pres_bind; [pauto|]. intros ok. destruct (negb ok); [apply pres_fail|].
    eapply hoare_bind; [apply read_set_hoare|]. intros p. wauto.
  Qed.
  Hint Resolve pres_seq_extractor pres_map_extractor pres_set_extractor
       pres_seq_inserter pres_map_inserter pres_set_inserter : pr.

  Lemma pres_create_collection sp : pres (create_collection rec sp).
  Proof. apply pres_instantiate_ty. Qed.
  Lemma pres_truthy_collection v : pres (truthy_collection v).
  Proof. unfold truthy_collection. destruct v; pauto. Qed.
  Hint Resolve pres_create_collection pres_truthy_collection : pr.

  Lemma pres_mutate_collection fam sp inst coll io : pres (mutate_collection ct rec fam sp inst coll io).
  Proof. unfold mutate_collection. pauto. Qed.
  Hint Resolve pres_mutate_collection : pr.

  Lemma pres_add_items fam sp inst coll items : pres (add_items ct rec fam sp inst coll items).
  Proof. unfold add_items. destruct items; try apply pres_fail. apply pres_bind; [pauto|]. intros o. destruct fam, o; pauto. Qed.
  Hint Resolve pres_add_items : pr.

  Lemma pres_prepare_items fam sp inst coll : pres (prepare_items ct rec fam sp inst coll).
  Proof. unfold prepare_items. destruct fam; pauto. Qed.
  Hint Resolve pres_prepare_items : pr.

  Lemma pres_copy_cell l : pres (o <- read l ;; alloc o).
  Proof.
    eapply hoare_bind; [apply hoare_read_ok|]. intros o.
    eapply pres_post. eapply hoare_pre; [|apply hoare_alloc]. tauto.
  Qed.

  Lemma pres_coll_prepare sp inst coll : pres (coll_prepare ct rec sp inst coll).
  Proof.
    unfold coll_prepare. destruct (family_of (a_ty sp)) as [fam|]; [|apply pres_ret].
    apply pres_bind; [destruct coll; pauto|]. intros coll1.
    apply pres_bind; [pauto|]. intros ok. destruct (negb ok); [pauto|].
    apply pres_bind; [pauto|]. intros t. destruct (a_prepare_item sp); [|apply pres_ret].
    destruct t; [|apply pres_ret].
    apply pres_bind; [pauto|]. intros l.
    eapply hoare_bind; [apply hoare_read_ok|]. intros o.
    eapply hoare_bind; [eapply hoare_pre; [|apply hoare_alloc]; tauto|]. intros l'.
    apply hoare_of_pres; pauto.
  Qed.
  Hint Resolve pres_coll_prepare : pr.

  Lemma pres_prepare_attr_value sp inst value attrs : pres (prepare_attr_value ct rec sp inst value attrs).
  Proof. unfold prepare_attr_value. pauto. Qed.
  Hint Resolve pres_prepare_attr_value : pr.

  Lemma pres_delattr l a force skip : pres (delattr_ ct rec l a force skip).
  Proof. unfold delattr_. pauto. Qed.

  Lemma pres_setattr l a v force skip : pres (setattr_ ct rec l a v force skip).
  Proof. unfold setattr_. pauto. Qed.

  Lemma pres_init c self kw0 : pres (init_ ct rec c self kw0).
  Proof. unfold init_. pauto. Qed.

  Lemma pres_construct c pos kw : pres (construct ct rec c pos kw).
  Proof. unfold construct. pauto. Qed.

  Theorem body_pres k : pres (body ct rec k).
  Proof.
    destruct k; simpl.
    - apply pres_setattr.
    - apply pres_delattr.
    - apply pres_construct.
    - apply pres_init.
    - apply pres_mutate_value.
  Qed.
End Core.

#[export] Hint Resolve pres_loc_of pres_read_inst pres_cls_of pres_raw_setattr_init pres_raw_delattr
  pres_getattr_default pres_invalidate_attrs pres_mutate_attr_checked pres_run_factory pres_default_value
  pres_lookup_default_value pres_delattr pres_instantiate_ty pres_prepare_item pres_apply_xform pres_str_key
  pres_mutate_value pres_loc_of_t pres_read_list pres_read_dict pres_read_set pres_find_eq_index
  pres_dict_lookup pres_dict_assign pres_set_mem pres_set_discard pres_seq_extractor pres_map_extractor
  pres_set_extractor pres_seq_inserter pres_map_inserter pres_set_inserter pres_create_collection
  pres_truthy_collection pres_mutate_collection pres_add_items pres_prepare_items pres_coll_prepare
  pres_prepare_attr_value pres_setattr pres_init pres_construct : pr.
#[export] Hint Extern 1 (TypeProofs.pres _ (alloc _)) => (apply pres_alloc; intros ? ? E; inversion E; reflexivity) : pr.

Section Exec.
  Variable ct : ctable.
  Hypothesis no_reserved : forall c k, lookup_cls ct c = Some k -> lookup_attr k A_INITIALIZING = None.

  Theorem exec_pres fuel : forall k, pres ct (exec ct fuel k).
  Proof.
    induction fuel as [|f IH]; intro k; simpl; [apply pres_fail|].
    apply body_pres; auto.
  Qed.
End Exec.

Section Helpers.
  Variable ct : ctable.
  Hypothesis no_reserved : forall c k, lookup_cls ct c = Some k -> lookup_attr k A_INITIALIZING = None.
  Notation rec := (exec ct XFUEL).
  Let Hrec : forall k, pres ct (rec k) := exec_pres ct no_reserved XFUEL.
  Local Opaque exec XFUEL.
  Local Hint Resolve Hrec : pr.
  Let p_thawed := @pres_thawed ct no_reserved.
  Let p_thawed_val := @pres_thawed_val ct no_reserved.

  Ltac pauto :=
    first [ solve [pprim]
          | lazymatch goal with
            | |- TypeProofs.pres _ (ret _) => apply pres_ret
            | |- TypeProofs.pres _ (fail _) => apply pres_fail
            | |- TypeProofs.pres _ (bind _ _) => apply pres_bind; [pauto | intros; pauto]
            | |- TypeProofs.pres _ (iterM _ _) => apply pres_iterM; intros; pauto
            | |- TypeProofs.pres _ (mapM _ _) => apply pres_mapM; intros; pauto
            | |- TypeProofs.pres _ (foldM _ _ _) => apply pres_foldM; intros; pauto
            | |- TypeProofs.pres _ (thawed_val _ _ _ _) => apply p_thawed_val; pauto
            | |- TypeProofs.pres _ (thawed _ _ _ _) => apply p_thawed; pauto
            | |- TypeProofs.pres _ (catch _ _ _) => apply pres_catch; pauto
            | |- TypeProofs.pres _ (let _ := _ in _) => cbv zeta; pauto
            | |- TypeProofs.pres _ (if ?c then _ else _) => destruct c; pauto
            | |- TypeProofs.pres _ (match ?x with _ => _ end) => destruct x; pauto
            end ].

  (* the attribute spec of a on the receiver: found in the class of l *)
  Definition attr_of (l : loc) (a : aid) (sp : attr_spec) (h : heap_t) : Prop :=
    exists c k, has_shape (3 + c) l h /\ lookup_cls ct c = Some k /\ lookup_attr k a = Some sp.

  Lemma attr_of_stable l a sp : stable (attr_of l a sp).
  Proof.
    intros h h' E [c [k [S H]]]. exists c, k. split; auto. eapply has_shape_stable; eauto.
  Qed.

  Lemma spec_for_hoare l a : hoare ct TT (spec_for ct l a) (fun r h => attr_of l a (snd r) h).
  Proof.
    unfold spec_for. eapply hoare_bind; [apply read_inst_hoare|]. intros [c d]. simpl fst.
    eapply hoare_bind; [apply cls_of_hoare|]. intros k.
    destruct (lookup_attr k a) as [sp|] eqn:Ha; [|apply hoare_fail].
    apply hoare_ret. simpl. intros h [Hk [S _]]. exists c, k. auto.
  Qed.

  Lemma pres_mk_mutator sp l inplace : pres ct (mk_mutator ct sp l inplace).
  Proof. unfold mk_mutator. pauto. Qed.

  Lemma pres_with_attr l sp new attrs inplace : pres ct (with_attr ct l sp new attrs inplace).
  Proof. unfold with_attr. pauto. Qed.
  Lemma pres_current_value l sp inplace used : pres ct (current_value ct l sp inplace used).
  Proof. unfold current_value. pauto. Qed.
  Local Hint Resolve pres_mk_mutator pres_with_attr pres_current_value : pr.

  Lemma family_not_simple t f : family_of t = Some f -> simple t = false.
  Proof. destruct t; simpl; auto; discriminate. Qed.

  (* the final store of an element helper: no type check, collection-typed attribute *)
  Lemma store_collection l a sp v inplace :
    family_of (a_ty sp) <> None ->
    hoare ct (attr_of l a sp) (mutate_attr ct rec l a v inplace false false false) (fun _ _ => True).
  Proof.
    intro Fam. eapply hoare_pre; [|apply mutate_attr_hoare; auto].
    intros h [c [k [S [Hk Ha]]]] _. exists c. split; auto.
    intros k' sp' Hk' Ha' Hs. rewrite Hk in Hk'. inversion Hk'; subst k'.
    rewrite Ha in Ha'. inversion Ha'; subst sp'.
    destruct (family_of (a_ty sp)) as [f|] eqn:E; [|congruence].
    rewrite (family_not_simple _ _ E) in Hs. discriminate.
  Qed.

  Lemma hoare_false {A} (m : M A) Q : hoare ct (fun _ => False) m Q.
  Proof. intros s []. Qed.

  Lemma hoare_of_pres' {A} (P : heap_t -> Prop) (m : M A) : pres ct m -> hoare ct P m (fun _ _ => True).
  Proof. intro H. eapply hoare_pre; [|exact H]. intros; exact I. Qed.

  Ltac wauto :=
    first [ solve [apply write_container; [reflexivity|lia]]
          | solve [apply hoare_of_pres'; pauto]
          | lazymatch goal with
            | |- TypeProofs.hoare _ _ (bind _ _) _ =>
                eapply hoare_bind_keep; [apply has_shape_stable|apply hoare_of_pres'; pauto|];
                intros; (eapply hoare_pre; [intros ? [_ ?]; eassumption|]); wauto
            | |- TypeProofs.hoare _ _ (let _ := _ in _) _ => cbv zeta; wauto
            | |- TypeProofs.hoare _ _ (if ?c then _ else _) _ => destruct c; wauto
            | |- TypeProofs.hoare _ _ (match ?x with _ => _ end) _ => destruct x; wauto
            end ].

  Lemma pres_remove_seq sp c v bi :
    pres ct (ex <- seq_extractor ct sp c v true bi ;;
             match fst ex with
             | VNone => ret tt
             | VInt _ | VBool _ =>
                 let i := match fst ex with VInt z => z | VBool true => 1%Z | _ => 0%Z end in
                 p <- read_list c ;;
                 match norm_index (zlen (snd p)) i with
                 | Some n => write (fst p) (OList (remove_at n (snd p)))
                 | None => fail IndexErr end
             | _ => fail TypeErr end).
  Proof.
    apply pres_bind; [pauto|]. intros ex.
    destruct (fst ex); try pauto; cbv zeta;
      (eapply hoare_bind; [apply read_list_hoare|]; intros p; wauto).
  Qed.

  Lemma pres_remove_map c v :
    pres ct (ex <- map_extractor ct c v true ;;
             p <- read_dict c ;;
             h' <- get_heap ;;
             write (fst p) (ODict (filter (fun q => negb (val_eqb FUEL ct h' (fst q) (fst ex))) (snd p)))).
  Proof.
    apply pres_bind; [pauto|]. intros ex.
    eapply hoare_bind; [apply read_dict_hoare|]. intros p. wauto.
  Qed.

  Lemma pres_remove_set c v :
    pres ct (ex <- set_extractor ct c v true ;;
             p <- read_set c ;;
             xs <- set_discard ct (snd p) (fst ex) ;;
             write (fst p) (OSet xs)).
  Proof.
    apply pres_bind; [pauto|]. intros ex.
    eapply hoare_bind; [apply read_set_hoare|]. intros p. wauto.
  Qed.

  Local Hint Resolve pres_remove_seq pres_remove_map pres_remove_set : pr.

  Lemma pres_spec_for l a : pres ct (spec_for ct l a).
  Proof. eapply pres_post. apply spec_for_hoare. Qed.
  Local Hint Resolve pres_spec_for : pr.

  Ltac elem_case l a :=
    eapply hoare_bind; [apply spec_for_hoare|]; intros r; cbv zeta;
    eapply hoare_bind_keep; [apply attr_of_stable|apply pres_mk_mutator|]; intros c;
    destruct (family_of (a_ty (snd r))) as [fam|] eqn:Fam;
    [ eapply hoare_pre with (P := attr_of l a (snd r)); [tauto|];
      eapply hoare_bind_keep;
        [apply attr_of_stable|apply hoare_of_pres'; try destruct fam; pauto|];
      intros c'; eapply hoare_pre; [|apply (store_collection l a (snd r)); congruence]; tauto
    | eapply hoare_bind; [apply hoare_fail with (Q := fun _ _ => False)|]; intros; apply hoare_false ].

  Ltac elem_case2 l a :=
    eapply hoare_bind; [apply spec_for_hoare|]; intros r; cbv zeta;
    eapply hoare_bind_keep; [apply attr_of_stable|apply pres_mk_mutator|]; intros c0;
    eapply hoare_pre with (P := attr_of l a (snd r)); [tauto|];
    eapply hoare_bind_keep; [apply attr_of_stable|apply hoare_of_pres'; pauto|]; intros c;
    destruct (family_of (a_ty (snd r))) as [fam|] eqn:Fam;
    [ eapply hoare_pre with (P := attr_of l a (snd r)); [tauto|];
      eapply hoare_bind_keep;
        [apply attr_of_stable|apply hoare_of_pres'; try destruct fam; pauto|];
      intros c'; eapply hoare_pre; [|apply (store_collection l a (snd r)); congruence]; tauto
    | eapply hoare_bind; [apply hoare_fail with (Q := fun _ _ => False)|]; intros; apply hoare_false ].

  Theorem run_helper_pres l hp h : pres ct (run_helper ct l hp h).
  Proof.
    unfold run_helper. destruct (negb (h_if h)); [apply pres_ret|].
    destruct hp.
    - pauto.
    - pauto.
    - pauto.
    - pauto.
    - elem_case l a.
    - elem_case l a.
    - elem_case l a.
    - elem_case2 l a.
    - pauto.
    - pauto.
    - pauto.
  Qed.

  (* the caller may build containers (and bare instances), not instances with fields *)
  Definition op_plain (o : op) : Prop :=
    match o with OpAlloc (OInst _ d) => d = [] | _ => True end.

  Theorem step_pres roots o : op_plain o -> pres ct (step ct roots o).
  Proof.
    destruct o; simpl; intro Hp; try pauto.
    - apply pres_bind; [pauto|]. intros; apply run_helper_pres.
    - apply pres_bind; [|intros; apply pres_ret].
      apply pres_alloc. intros c d ->. exact Hp.
  Qed.
End Helpers.

(* ------------------------------------------------------------------ *)
(** * Checked before stored: every write route validates first *)
Section Checked.
  Variable ct : ctable.
  Variable rec : call -> M val.

  Lemma bind_ok' {A B} (m : M A) (k : A -> M B) s a s1 : m s = (Ok a, s1) -> bind m k s = k a s1.
  Proof. unfold bind. now intros ->. Qed.
  Lemma bind_err' {A B} (m : M A) (k : A -> M B) s e s1 : m s = (Err e, s1) -> bind m k s = (Err e, s1).
  Proof. unfold bind. now intros ->. Qed.

  Lemma read_inst_eq s l c d :
    nth_error (heap s) l = Some (OInst c d) -> read_inst l s = (Ok (c, d), s).
  Proof. intro H. unfold read_inst, read, bind. rewrite H. reflexivity. Qed.

  (* mutate_attr with type_check=true on a managed attribute: a value that
     does not conform is rejected before anything is written *)
  Theorem mutate_attr_rejects s l a v inplace force skip c d k sp :
    nth_error (heap s) l = Some (OInst c d) -> lookup_cls ct c = Some k ->
    lookup_attr k a = Some sp -> is_sentinel v = false ->
    check_type FUEL ct (heap s) v (a_ty sp) = false ->
    exists e, mutate_attr ct rec l a v inplace true force skip s = (Err e, s)
              /\ (e = TypeErr \/ e = FrozenErr).
  Proof.
    intros N Hk Ha Hs C. unfold mutate_attr. rewrite Hs.
    erewrite bind_ok'; [|apply read_inst_eq; eauto]. cbn [fst snd].
    erewrite bind_ok'; [|unfold cls_of; rewrite Hk; reflexivity].
    destruct (negb (force || initializing d) && inplace && c_frozen k).
    - exists FrozenErr. split; auto.
    - exists TypeErr. split; auto.
      erewrite bind_ok'; [|reflexivity]. rewrite Ha.
      erewrite bind_err'; [reflexivity|].
      unfold check_typeM, get_heap, bind. simpl. rewrite C. reflexivity.
  Qed.

  Theorem mutate_attr_checked s l a v inplace force skip c d k sp r s' :
    nth_error (heap s) l = Some (OInst c d) -> lookup_cls ct c = Some k ->
    lookup_attr k a = Some sp -> is_sentinel v = false ->
    mutate_attr ct rec l a v inplace true force skip s = (Ok r, s') ->
    check_type FUEL ct (heap s) v (a_ty sp) = true.
  Proof.
    intros N Hk Ha Hs E. destruct (check_type FUEL ct (heap s) v (a_ty sp)) eqn:C; auto.
    destruct (mutate_attr_rejects s l a v inplace force skip c d k sp N Hk Ha Hs C) as [e [E' _]].
    rewrite E' in E. discriminate.
  Qed.

  Lemma check_typeM_eq s v t : check_typeM ct v t s = (Ok (check_type FUEL ct (heap s) v t), s).
  Proof. reflexivity. Qed.

  (* the three inserters: an item (a key) that does not conform is refused
     with ValueError and the state is untouched, for every addressing mode *)
  Theorem seq_inserter_rejects s sp coll index item ins :
    check_type FUEL ct (heap s) item (item_type (a_ty sp)) = false ->
    seq_inserter ct sp coll index item ins s = (Err ValueErr, s).
  Proof.
    intro C. unfold seq_inserter. erewrite bind_ok'; [|apply check_typeM_eq]. rewrite C. reflexivity.
  Qed.

  Theorem set_inserter_rejects s sp coll index item :
    check_type FUEL ct (heap s) item (item_type (a_ty sp)) = false ->
    set_inserter ct sp coll index item s = (Err ValueErr, s).
  Proof.
    intro C. unfold set_inserter. erewrite bind_ok'; [|apply check_typeM_eq]. rewrite C. reflexivity.
  Qed.

  Theorem map_inserter_rejects s sp coll key item :
    check_type FUEL ct (heap s) key (key_type (a_ty sp)) = false \/
    check_type FUEL ct (heap s) item (item_type (a_ty sp)) = false ->
    map_inserter ct sp coll key item s = (Err ValueErr, s).
  Proof.
    intro C. unfold map_inserter. erewrite bind_ok'; [|apply check_typeM_eq].
    destruct (check_type FUEL ct (heap s) key (key_type (a_ty sp))) eqn:Ck; [|reflexivity].
    destruct C as [C|C]; [discriminate|]. simpl.
    erewrite bind_ok'; [|apply check_typeM_eq]. rewrite C. reflexivity.
  Qed.

  Theorem seq_inserter_checked s sp coll index item ins u s' :
    seq_inserter ct sp coll index item ins s = (Ok u, s') ->
    check_type FUEL ct (heap s) item (item_type (a_ty sp)) = true.
  Proof.
    intro E. destruct (check_type FUEL ct (heap s) item (item_type (a_ty sp))) eqn:C; auto.
    rewrite seq_inserter_rejects in E by exact C. discriminate.
  Qed.

  Theorem set_inserter_checked s sp coll index item u s' :
    set_inserter ct sp coll index item s = (Ok u, s') ->
    check_type FUEL ct (heap s) item (item_type (a_ty sp)) = true.
  Proof.
    intro E. destruct (check_type FUEL ct (heap s) item (item_type (a_ty sp))) eqn:C; auto.
    rewrite set_inserter_rejects in E by exact C. discriminate.
  Qed.

  Theorem map_inserter_checked s sp coll key item u s' :
    map_inserter ct sp coll key item s = (Ok u, s') ->
    check_type FUEL ct (heap s) key (key_type (a_ty sp)) = true /\
    check_type FUEL ct (heap s) item (item_type (a_ty sp)) = true.
  Proof.
    intro E.
    destruct (check_type FUEL ct (heap s) key (key_type (a_ty sp))) eqn:Ck;
      [destruct (check_type FUEL ct (heap s) item (item_type (a_ty sp))) eqn:Ci; auto|];
      rewrite map_inserter_rejects in E by auto; discriminate.
  Qed.
End Checked.

(* ------------------------------------------------------------------ *)
(** * State-level statements *)
Definition no_reserved_names (ct : ctable) : Prop :=
  forall c k, lookup_cls ct c = Some k -> lookup_attr k A_INITIALIZING = None.

Theorem step_preserves_TS ct roots o s :
  no_reserved_names ct -> op_plain o ->
  TS ct (heap s) -> TS ct (heap (snd (step ct roots o s))) /\ ext (heap s) (heap (snd (step ct roots o s))).
Proof.
  intros Hr Hp T. destruct (step_pres ct Hr roots o Hp s I T) as [E [T' _]]. auto.
Qed.

(* tables all of whose annotations are simple: the restricted invariant is the whole invariant *)
Definition all_simple (ct : ctable) : Prop :=
  forall c k sp, lookup_cls ct c = Some k -> In sp (c_attrs k) -> simple (a_ty sp) = true.

Lemma lookup_attr_in k a sp : lookup_attr k a = Some sp -> In sp (c_attrs k).
Proof. unfold lookup_attr. intro H. apply find_some in H. tauto. Qed.

Lemma TS_all_simple ct s : all_simple ct -> (TypeInv ct s <-> TS ct (heap s)).
Proof.
  intro Ha. unfold TypeInv, TS, TInvP, dict_ok. split; intros H l c d N k a v sp Hk Hi Hl Hs.
  - eapply H; eauto.
  - eapply H; eauto. eapply Ha; eauto. eapply lookup_attr_in; eauto.
Qed.

(* ------------------------------------------------------------------ *)
(** * Collections of simple elements: the check looks at exactly one cell *)
Definition flat_coll (t : ty) : bool :=
  match t with
  | TList e | TSet e => simple e
  | TDict k e => simple k && simple e
  | _ => false
  end.
(* the annotation grammar of the property's class grammar *)
Definition flat (t : ty) : bool := simple t || flat_coll t.

Lemma forallb_app' {A} (f : A -> bool) l1 l2 : forallb f (l1 ++ l2) = forallb f l1 && forallb f l2.
Proof. induction l1; simpl; auto. now rewrite IHl1, andb_assoc. Qed.

Lemma forallb_firstn {A} (f : A -> bool) n l : forallb f l = true -> forallb f (firstn n l) = true.
Proof. revert n; induction l; intros [|n]; simpl; auto. rewrite !andb_true_iff. intros []; auto. Qed.
Lemma forallb_skipn {A} (f : A -> bool) n l : forallb f l = true -> forallb f (skipn n l) = true.
Proof. revert n; induction l; intros [|n]; simpl; auto. rewrite !andb_true_iff. intros []; auto. Qed.

Lemma forallb_insert_at {A} (f : A -> bool) n x l :
  forallb f l = true -> f x = true -> forallb f (insert_at n x l) = true.
Proof.
  intros H Hx. unfold insert_at. rewrite forallb_app'. apply andb_true_iff. split.
  - now apply forallb_firstn.
  - cbn [forallb]. rewrite Hx. now apply forallb_skipn.
Qed.
Lemma forallb_set_at {A} (f : A -> bool) n x l :
  forallb f l = true -> f x = true -> forallb f (set_at n x l) = true.
Proof.
  intros H Hx. unfold set_at. rewrite forallb_app'. apply andb_true_iff. split.
  - now apply forallb_firstn.
  - cbn [forallb]. rewrite Hx. now apply forallb_skipn.
Qed.
Lemma forallb_remove_at {A} (f : A -> bool) n l :
  forallb f l = true -> forallb f (remove_at n l) = true.
Proof.
  intros H. unfold remove_at. rewrite forallb_app'. apply andb_true_iff. split.
  - now apply forallb_firstn.
  - now apply forallb_skipn.
Qed.
Lemma forallb_filter {A} (f g : A -> bool) l : forallb f l = true -> forallb f (filter g l) = true.
Proof. induction l; simpl; auto. rewrite andb_true_iff. intros []. destruct (g a); simpl; auto. now rewrite H, IHl. Qed.
Lemma forallb_imp {A} (f g : A -> bool) l :
  (forall x, f x = true -> g x = true) -> forallb f l = true -> forallb g l = true.
Proof. intro H. induction l; simpl; auto. rewrite !andb_true_iff. intros []; auto. Qed.

(* conformance to a collection annotation is stable as long as the one cell
   it inspects is untouched (elements are simple: stable under ext) *)
Lemma check_flat_cell ct fuel h h' t c :
  flat_coll t = true -> ext h h' -> nth_error h' c = nth_error h c ->
  check_type fuel ct h (VRef c) t = true -> check_type fuel ct h' (VRef c) t = true.
Proof.
  intros Ft E N. destruct fuel as [|f]; simpl; auto.
  destruct t; simpl in Ft; try discriminate; rewrite N; destruct (nth_error h c) as [[]|]; auto.
  - apply forallb_imp. intros x. now apply (check_simple_ext ct h h').
  - apply andb_true_iff in Ft. destruct Ft. apply forallb_imp. intros p. rewrite !andb_true_iff.
    intros []; split; now apply (check_simple_ext ct h h').
  - apply forallb_imp. intros x. now apply (check_simple_ext ct h h').
Qed.

Lemma check_flat_other ct fuel h t v c0 o o0 :
  flat t = true -> nth_error h c0 = Some o0 -> shape o = shape o0 ->
  (forall c, v = VRef c -> c <> c0 \/ flat_coll t = false) ->
  check_type fuel ct h v t = true -> check_type fuel ct (set_nth c0 o h) v t = true.
Proof.
  intros Ft N S Hv C. assert (E : ext h (set_nth c0 o h)) by (eapply ext_set_nth; eauto).
  unfold flat in Ft. destruct (simple t) eqn:St; [now apply (check_simple_ext ct h)|].
  simpl in Ft. destruct v; try (destruct fuel, t; simpl in *; discriminate).
  destruct (Hv l eq_refl) as [Ne|F]; [|congruence].
  eapply check_flat_cell; eauto. apply set_nth_other. auto.
Qed.

Lemma FUEL_SS : exists f, FUEL = S (S f).
Proof. Local Transparent FUEL. exists 62. reflexivity. Qed.
#[local] Opaque FUEL.

Lemma coll_write_list ct h c o0 xs' e f :
  nth_error h c = Some o0 -> shape o0 = 0 -> simple e = true ->
  forallb (fun x => check_type f ct h x e) xs' = true ->
  check_type (S f) ct (set_nth c (OList xs') h) (VRef c) (TList e) = true.
Proof.
  intros N S Se F. simpl. rewrite nth_error_set_nth_same by (apply nth_error_Some; congruence).
  revert F. apply forallb_imp. intros x. apply check_simple_ext; auto. eapply ext_set_nth; eauto.
Qed.
Lemma coll_write_set ct h c o0 xs' e f :
  nth_error h c = Some o0 -> shape o0 = 2 -> simple e = true ->
  forallb (fun x => check_type f ct h x e) xs' = true ->
  check_type (S f) ct (set_nth c (OSet xs') h) (VRef c) (TSet e) = true.
Proof.
  intros N S Se F. simpl. rewrite nth_error_set_nth_same by (apply nth_error_Some; congruence).
  revert F. apply forallb_imp. intros x. apply check_simple_ext; auto. eapply ext_set_nth; eauto.
Qed.
Lemma coll_write_dict ct h c o0 kvs' k e f :
  nth_error h c = Some o0 -> shape o0 = 1 -> simple k = true -> simple e = true ->
  forallb (fun p => check_type f ct h (fst p) k && check_type f ct h (snd p) e) kvs' = true ->
  check_type (S f) ct (set_nth c (ODict kvs') h) (VRef c) (TDict k e) = true.
Proof.
  intros N S Sk Se F. simpl. rewrite nth_error_set_nth_same by (apply nth_error_Some; congruence).
  revert F. apply forallb_imp. intros p. rewrite !andb_true_iff.
  assert (E : ext h (set_nth c (ODict kvs') h)) by (eapply ext_set_nth; eauto).
  intros []; split; eapply check_simple_ext; eauto.
Qed.

(* annotations are shallower than the fuel of the executable check *)
Definition shallow (t : ty) : Prop := ty_depth t < FUEL.

Lemma check_item_fuel ct h v e f : FUEL = S f -> ty_depth e < f ->
  check_type FUEL ct h v e = true -> check_type f ct h v e = true.
Proof. intros Ef D C. rewrite <- C. symmetry. apply check_fuel_mono; auto. lia. Qed.

Section Keeps.
  Variable ct : ctable.

  Lemma write_eq s c o o0 : nth_error (heap s) c = Some o0 ->
    write c o s = (Ok tt, mkst (set_nth c o (heap s)) (ncalls s) (fail_at s)).
  Proof.
    intro N. unfold write. assert (L : c < length (heap s)) by (apply nth_error_Some; congruence).
    apply Nat.ltb_lt in L. now rewrite L.
  Qed.

  Lemma read_list_eq s c xs : nth_error (heap s) c = Some (OList xs) -> read_list (VRef c) s = (Ok (c, xs), s).
  Proof. intro N. unfold read_list, loc_of_t, read, bind, ret. rewrite N. reflexivity. Qed.
  Lemma read_dict_eq s c xs : nth_error (heap s) c = Some (ODict xs) -> read_dict (VRef c) s = (Ok (c, xs), s).
  Proof. intro N. unfold read_dict, loc_of_t, read, bind, ret. rewrite N. reflexivity. Qed.
  Lemma read_set_eq s c xs : nth_error (heap s) c = Some (OSet xs) -> read_set (VRef c) s = (Ok (c, xs), s).
  Proof. intro N. unfold read_set, loc_of_t, read, bind, ret. rewrite N. reflexivity. Qed.

  (* SequenceMutator._inserter keeps the list conforming to the attribute's annotation *)
  Theorem seq_inserter_keeps s sp c index item ins u s' e :
    a_ty sp = TList e -> simple e = true -> shallow (a_ty sp) ->
    check_type FUEL ct (heap s) (VRef c) (TList e) = true ->
    seq_inserter ct sp (VRef c) index item ins s = (Ok u, s') ->
    check_type FUEL ct (heap s') (VRef c) (TList e) = true.
  Proof.
    intros Ht Se Sh C H. destruct FUEL_SS as [f Ef].
    pose proof (seq_inserter_checked ct s sp (VRef c) index item ins u s' H) as Ci.
    rewrite Ht in Ci. cbn [item_type] in Ci.
    unfold shallow in Sh. rewrite Ht in Sh. simpl in Sh.
    assert (Ci' : check_type (S f) ct (heap s) item e = true) by (apply (check_item_fuel ct _ _ _ _ Ef); [lia|exact Ci]).
    unfold seq_inserter in H. erewrite bind_ok' in H; [|apply check_typeM_eq].
    rewrite Ht in H. cbn [item_type] in H. rewrite Ci in H. cbn [negb] in H.
    rewrite Ef in C.
    change (match nth_error (heap s) c with
            | Some (OList xs) => forallb (fun x => check_type (S f) ct (heap s) x e) xs
            | _ => false end = true) in C.
    destruct (nth_error (heap s) c) as [[xs| | |]|] eqn:N; try discriminate.
    erewrite bind_ok' in H; [|apply read_list_eq; eauto]. cbn [fst snd] in H.
    assert (W : forall xs', forallb (fun x => check_type (S f) ct (heap s) x e) xs' = true ->
                write c (OList xs') s = (Ok u, s') ->
                check_type FUEL ct (heap s') (VRef c) (TList e) = true).
    { intros xs' F Hw. erewrite write_eq in Hw by eauto. inversion Hw; subst. simpl heap.
      rewrite Ef. eapply coll_write_list; eauto. }
    destruct index; try discriminate.
    - eapply W; [|exact H]. rewrite forallb_app'. cbn [forallb]. now rewrite C, Ci'.
    - destruct ins.
      + eapply W; [|exact H]. apply forallb_insert_at; auto.
      + destruct (norm_index _ _); [|discriminate]. eapply W; [|exact H]. apply forallb_set_at; auto.
    - destruct ins.
      + eapply W; [|exact H]. apply forallb_insert_at; auto.
      + destruct (norm_index _ _); [|discriminate]. eapply W; [|exact H]. apply forallb_set_at; auto.
  Qed.

  Lemma forallb_map_upd {A} (f : A -> bool) (g : A -> A) l :
    forallb f l = true -> (forall x, f x = true -> f (g x) = true) -> forallb f (map g l) = true.
  Proof. intros H Hg. induction l; simpl in *; auto. apply andb_true_iff in H. destruct H. rewrite Hg, IHl; auto. Qed.

  (* MappingMutator._inserter keeps the dict conforming (keys and values) *)
  Theorem map_inserter_keeps s sp c key item u s' k e :
    a_ty sp = TDict k e -> simple k = true -> simple e = true -> shallow (a_ty sp) ->
    check_type FUEL ct (heap s) (VRef c) (TDict k e) = true ->
    map_inserter ct sp (VRef c) key item s = (Ok u, s') ->
    check_type FUEL ct (heap s') (VRef c) (TDict k e) = true.
  Proof.
    intros Ht Sk Se Sh C H. destruct FUEL_SS as [f Ef].
    destruct (map_inserter_checked ct s sp (VRef c) key item u s' H) as [Ck Ci].
    rewrite Ht in Ck, Ci. cbn [item_type key_type] in Ck, Ci.
    unfold shallow in Sh. rewrite Ht in Sh. simpl in Sh.
    assert (Ck' : check_type (S f) ct (heap s) key k = true) by (apply (check_item_fuel ct _ _ _ _ Ef); [lia|exact Ck]).
    assert (Ci' : check_type (S f) ct (heap s) item e = true) by (apply (check_item_fuel ct _ _ _ _ Ef); [lia|exact Ci]).
    unfold map_inserter in H. erewrite bind_ok' in H; [|apply check_typeM_eq].
    rewrite Ht in H. cbn [item_type key_type] in H. rewrite Ck in H. cbn [negb] in H.
    erewrite bind_ok' in H; [|apply check_typeM_eq]. rewrite Ci in H. cbn [negb] in H.
    rewrite Ef in C.
    change (match nth_error (heap s) c with
            | Some (ODict kvs) => forallb (fun p => check_type (S f) ct (heap s) (fst p) k
                                                    && check_type (S f) ct (heap s) (snd p) e) kvs
            | _ => false end = true) in C.
    destruct (nth_error (heap s) c) as [[|kvs| |]|] eqn:N; try discriminate.
    erewrite bind_ok' in H; [|apply read_dict_eq; eauto]. cbn [fst snd] in H.
    unfold dict_assign in H. destruct (negb (hashable key)); [discriminate|].
    unfold bind at 1 in H. unfold get_heap, bind, ret in H.
    erewrite write_eq in H by eauto. inversion H; subst. simpl heap. rewrite Ef.
    eapply coll_write_dict; eauto.
    match goal with |- context [if ?b then map _ _ else _] => destruct b end.
    - apply forallb_map_upd; auto. intros p Hp. match goal with |- context [if ?b then _ else _] => destruct b end; auto.
      cbn [fst snd]. apply andb_true_iff in Hp. destruct Hp as [Hp _]. now rewrite Hp, Ci'.
    - rewrite forallb_app'. cbn [forallb fst snd]. now rewrite C, Ck', Ci'.
  Qed.

  (* SetMutator._inserter keeps the set conforming *)
  Theorem set_inserter_keeps s sp c index item u s' e :
    a_ty sp = TSet e -> simple e = true -> shallow (a_ty sp) ->
    check_type FUEL ct (heap s) (VRef c) (TSet e) = true ->
    set_inserter ct sp (VRef c) index item s = (Ok u, s') ->
    check_type FUEL ct (heap s') (VRef c) (TSet e) = true.
  Proof.
    intros Ht Se Sh C H. destruct FUEL_SS as [f Ef].
    pose proof (set_inserter_checked ct s sp (VRef c) index item u s' H) as Ci.
    rewrite Ht in Ci. cbn [item_type] in Ci.
    unfold shallow in Sh. rewrite Ht in Sh. simpl in Sh.
    assert (Ci' : check_type (S f) ct (heap s) item e = true) by (apply (check_item_fuel ct _ _ _ _ Ef); [lia|exact Ci]).
    unfold set_inserter in H. erewrite bind_ok' in H; [|apply check_typeM_eq].
    rewrite Ht in H. cbn [item_type] in H. rewrite Ci in H. cbn [negb] in H.
    rewrite Ef in C.
    change (match nth_error (heap s) c with
            | Some (OSet xs) => forallb (fun x => check_type (S f) ct (heap s) x e) xs
            | _ => false end = true) in C.
    destruct (nth_error (heap s) c) as [[| |xs|]|] eqn:N; try discriminate.
    erewrite bind_ok' in H; [|apply read_set_eq; eauto]. cbn [fst snd] in H.
    assert (Hx1 : exists xs1, forallb (fun x => check_type (S f) ct (heap s) x e) xs1 = true /\
              (b <- set_mem ct xs1 item ;; write c (OSet (if b then xs1 else xs1 ++ [item]))) s = (Ok u, s')).
    { match type of H with context [if ?b then set_discard _ _ _ else _] => destruct b end.
      - unfold set_discard in H. destruct (negb (hashable index));
          [rewrite bind_err' with (e := TypeErr) (s1 := s) in H by reflexivity; discriminate|].
        unfold bind at 1 in H. unfold bind at 1 in H. unfold get_heap, ret in H.
        eexists. split; [|exact H]. now apply forallb_filter.
      - exists xs. split; auto. }
    destruct Hx1 as [xs1 [F1 H1]].
    unfold set_mem in H1. destruct (negb (hashable item));
      [rewrite bind_err' with (e := TypeErr) (s1 := s) in H1 by reflexivity; discriminate|].
    unfold bind at 1 in H1. unfold bind at 1 in H1. unfold get_heap, ret in H1.
    erewrite write_eq in H1 by eauto. inversion H1; subst. simpl heap. rewrite Ef.
    eapply coll_write_set; eauto.
    match goal with |- context [if ?b then _ else _] => destruct b end; auto.
    rewrite forallb_app'. cbn [forallb]. now rewrite F1, Ci'.
  Qed.
End Keeps.

(* ------------------------------------------------------------------ *)
(** * The full invariant (all annotations of a flat table) under single writes *)
Definition flat_table (ct : ctable) : Prop :=
  forall c k sp, lookup_cls ct c = Some k -> In sp (c_attrs k) -> flat (a_ty sp) = true.
Definition TI (ct : ctable) (h : heap_t) : Prop := TInvP (fun _ => true) ct h.
Definition dict_all_ok ct h c d := dict_ok (fun _ => true) ct h c d.

(* cell c is held by a managed attribute annotated t *)
Definition viewed (ct : ctable) (h : heap_t) (c : loc) (t : ty) : Prop :=
  exists l cl d k a sp, nth_error h l = Some (OInst cl d) /\ lookup_cls ct cl = Some k /\
    In (a, VRef c) d /\ lookup_attr k a = Some sp /\ a_ty sp = t.

Lemma check_flat_valid ct fuel h t c : flat_coll t = true ->
  check_type fuel ct h (VRef c) t = true -> exists o, nth_error h c = Some o /\ shape o < 3.
Proof.
  intros Ft C. destruct fuel; [discriminate|]. simpl in C.
  destruct t; simpl in Ft; try discriminate; destruct (nth_error h c) as [[]|]; try discriminate;
    eexists; split; eauto; simpl; lia.
Qed.

Lemma check_flat_app ct fuel h o t v :
  flat t = true -> check_type fuel ct h v t = true -> check_type fuel ct (h ++ [o]) v t = true.
Proof.
  intros Ft C. unfold flat in Ft. destruct (simple t) eqn:St.
  - eapply check_simple_ext; eauto. apply ext_app.
  - simpl in Ft. destruct v; try (destruct fuel, t; simpl in *; discriminate).
    destruct (check_flat_valid _ _ _ _ _ Ft C) as [o1 [N _]].
    apply (check_flat_cell ct fuel h (h ++ [o]) t l Ft (ext_app h o)); auto.
    apply nth_error_app1. apply nth_error_Some. congruence.
Qed.

Section FullInv.
  Variable ct : ctable.
  Hypothesis Hflat : flat_table ct.

  Lemma flat_attr c k a sp : lookup_cls ct c = Some k -> lookup_attr k a = Some sp -> flat (a_ty sp) = true.
  Proof. intros Hk Ha. eapply Hflat; eauto. eapply lookup_attr_in; eauto. Qed.

  Theorem TI_alloc h o :
    TI ct h -> match o with OInst c d => dict_all_ok ct h c d | _ => True end -> TI ct (h ++ [o]).
  Proof.
    intros T Ho l c d N k a v sp Hk Hi Ha _.
    assert (Fl := flat_attr _ _ _ _ Hk Ha).
    destruct (lt_dec l (length h)) as [L|L].
    - rewrite nth_error_app1 in N by auto. apply check_flat_app; auto. eapply T; eauto.
    - rewrite nth_error_app2 in N by lia. destruct (l - length h) as [|n]; simpl in N; [|destruct n; discriminate].
      inversion N; subst o. apply check_flat_app; auto. eapply Ho; eauto.
  Qed.

  (* writing an instance dict whose entries conform *)
  Theorem TI_write_inst h l c d0 d :
    TI ct h -> nth_error h l = Some (OInst c d0) -> dict_all_ok ct h c d ->
    TI ct (set_nth l (OInst c d) h).
  Proof.
    intros T N Hd l1 c1 d1 N1 k a v sp Hk Hi Ha _.
    assert (Fl := flat_attr _ _ _ _ Hk Ha).
    assert (Hv : check_type FUEL ct h v (a_ty sp) = true).
    { destruct (Nat.eq_dec l l1) as [<-|Ne].
      - rewrite nth_error_set_nth_same in N1 by (apply nth_error_Some; congruence).
        inversion N1; subst. eapply Hd; eauto.
      - rewrite set_nth_other in N1 by auto. eapply T; eauto. }
    eapply check_flat_other; eauto. intros c2 ->.
    destruct (flat_coll (a_ty sp)) eqn:Fc; auto. left. intros ->.
    destruct (check_flat_valid _ _ _ _ _ Fc Hv) as [o [No So]]. rewrite N in No. inversion No; subst.
    simpl in So. lia.
  Qed.

  (* writing a container cell: enough that every annotation under which the
     cell is viewed accepts the new content (elements of other cells are simple) *)
  Theorem TI_write_container h c o0 o :
    TI ct h -> nth_error h c = Some o0 -> shape o = shape o0 -> shape o0 < 3 ->
    (forall t, viewed ct h c t -> flat_coll t = true ->
               check_type FUEL ct (set_nth c o h) (VRef c) t = true) ->
    TI ct (set_nth c o h).
  Proof.
    intros T N S Sc Hview l c1 d N1 k a v sp Hk Hi Ha _.
    assert (Fl := flat_attr _ _ _ _ Hk Ha).
    assert (N0 : nth_error h l = Some (OInst c1 d)).
    { destruct (Nat.eq_dec c l) as [<-|Ne]; [|now rewrite set_nth_other in N1].
      rewrite nth_error_set_nth_same in N1 by (apply nth_error_Some; congruence).
      inversion N1; subst. rewrite N in *. destruct o0; simpl in *; try discriminate. lia. }
    assert (Hv : check_type FUEL ct h v (a_ty sp) = true) by (eapply T; eauto).
    destruct (flat_coll (a_ty sp)) eqn:Fc.
    - destruct v as [| | | | | | | |c2]; try (eapply check_flat_other; eauto; intros ? E; discriminate).
      destruct (Nat.eq_dec c2 c) as [->|Ne].
      + apply Hview; auto. exists l, c1, d, k, a, sp. auto.
      + eapply check_flat_other; eauto. intros ? E. inversion E; subst. auto.
    - eapply check_flat_other; eauto.
  Qed.

  (* only annotation t views the cell *)
  Definition only_view (h : heap_t) (c : loc) (t : ty) : Prop :=
    forall t', viewed ct h c t' -> flat_coll t' = true -> t' = t.

  Ltac run_err H := inversion H; subst; left; split; [reflexivity|intros ? E; discriminate].

  Lemma read_list_run s c : read_list (VRef c) s =
    match nth_error (heap s) c with
    | Some (OList xs) => (Ok (c, xs), s)
    | Some _ => (Err TypeErr, s)
    | None => (Err RuntimeErr, s) end.
  Proof. unfold read_list, loc_of_t, read, bind, ret, fail. destruct (nth_error (heap s) c) as [[]|]; reflexivity. Qed.

  (* a run of the sequence inserter either leaves the state alone (and fails)
     or performs exactly one write, to the list cell *)
  Lemma seq_inserter_run s sp c index item ins r s' :
    seq_inserter ct sp (VRef c) index item ins s = (r, s') ->
    (s' = s /\ forall u, r <> Ok u) \/
    (exists xs xs', r = Ok tt /\ nth_error (heap s) c = Some (OList xs) /\
                    s' = mkst (set_nth c (OList xs') (heap s)) (ncalls s) (fail_at s)).
  Proof.
    intro H. unfold seq_inserter in H. erewrite bind_ok' in H; [|apply check_typeM_eq].
    destruct (negb _); [run_err H|].
    unfold bind at 1 in H. rewrite read_list_run in H.
    destruct (nth_error (heap s) c) as [[xs| | |]|] eqn:N; try (run_err H).
    cbn [fst snd] in H.
    assert (W : forall xs', write c (OList xs') s = (r, s') ->
      exists xs0 xs'0, r = Ok tt /\ Some (OList xs) = Some (OList xs0) /\
        s' = mkst (set_nth c (OList xs'0) (heap s)) (ncalls s) (fail_at s)).
    { intros xs' Hw. erewrite write_eq in Hw by eauto. inversion Hw; subst. eauto. }
    destruct index; try (run_err H); cbv zeta in H.
    - right. eapply W; eauto.
    - destruct ins; [right; eapply W; eauto|]. destruct (norm_index _ _); [right; eapply W; eauto|run_err H].
    - destruct ins; [right; eapply W; eauto|]. destruct (norm_index _ _); [right; eapply W; eauto|run_err H].
  Qed.

  Theorem seq_inserter_preserves_TI s sp c index item ins r s' e :
    a_ty sp = TList e -> simple e = true -> shallow (a_ty sp) ->
    TI ct (heap s) -> check_type FUEL ct (heap s) (VRef c) (TList e) = true ->
    only_view (heap s) c (TList e) ->
    seq_inserter ct sp (VRef c) index item ins s = (r, s') -> TI ct (heap s').
  Proof.
    intros Ht Se Sh T C V H. destruct (seq_inserter_run _ _ _ _ _ _ _ _ H) as [[-> _]|[xs [xs' [-> [N ->]]]]]; auto.
    simpl heap. eapply TI_write_container; eauto; try (simpl; lia).
    intros t Vt Ft. rewrite (V t Vt Ft).
    apply (seq_inserter_keeps ct s sp c index item ins tt _ e Ht Se Sh C H).
  Qed.

  Lemma read_dict_run s c : read_dict (VRef c) s =
    match nth_error (heap s) c with
    | Some (ODict xs) => (Ok (c, xs), s)
    | Some _ => (Err TypeErr, s)
    | None => (Err RuntimeErr, s) end.
  Proof. unfold read_dict, loc_of_t, read, bind, ret, fail. destruct (nth_error (heap s) c) as [[]|]; reflexivity. Qed.
  Lemma read_set_run s c : read_set (VRef c) s =
    match nth_error (heap s) c with
    | Some (OSet xs) => (Ok (c, xs), s)
    | Some _ => (Err TypeErr, s)
    | None => (Err RuntimeErr, s) end.
  Proof. unfold read_set, loc_of_t, read, bind, ret, fail. destruct (nth_error (heap s) c) as [[]|]; reflexivity. Qed.

  Lemma map_inserter_run s sp c key item r s' :
    map_inserter ct sp (VRef c) key item s = (r, s') ->
    (s' = s /\ forall u, r <> Ok u) \/
    (exists xs xs', r = Ok tt /\ nth_error (heap s) c = Some (ODict xs) /\
                    s' = mkst (set_nth c (ODict xs') (heap s)) (ncalls s) (fail_at s)).
  Proof.
    intro H. unfold map_inserter in H. erewrite bind_ok' in H; [|apply check_typeM_eq].
    destruct (negb _); [run_err H|].
    erewrite bind_ok' in H; [|apply check_typeM_eq]. destruct (negb _); [run_err H|].
    unfold bind at 1 in H. rewrite read_dict_run in H.
    destruct (nth_error (heap s) c) as [[|xs| |]|] eqn:N; try (run_err H).
    cbn [fst snd] in H. unfold dict_assign in H.
    destruct (negb (hashable key)); [unfold bind, fail in H; run_err H|].
    unfold bind at 1 in H. unfold bind at 1 in H. unfold get_heap, ret in H.
    erewrite write_eq in H by eauto. inversion H; subst. right. eauto.
  Qed.

  Theorem map_inserter_preserves_TI s sp c key item r s' k e :
    a_ty sp = TDict k e -> simple k = true -> simple e = true -> shallow (a_ty sp) ->
    TI ct (heap s) -> check_type FUEL ct (heap s) (VRef c) (TDict k e) = true ->
    only_view (heap s) c (TDict k e) ->
    map_inserter ct sp (VRef c) key item s = (r, s') -> TI ct (heap s').
  Proof.
    intros Ht Sk Se Sh T C V H. destruct (map_inserter_run _ _ _ _ _ _ _ H) as [[-> _]|[xs [xs' [-> [N ->]]]]]; auto.
    simpl heap. eapply TI_write_container; eauto; try (simpl; lia).
    intros t Vt Ft. rewrite (V t Vt Ft).
    apply (map_inserter_keeps ct s sp c key item tt _ k e Ht Sk Se Sh C H).
  Qed.

  Lemma set_inserter_run s sp c index item r s' :
    set_inserter ct sp (VRef c) index item s = (r, s') ->
    (s' = s /\ forall u, r <> Ok u) \/
    (exists xs xs', r = Ok tt /\ nth_error (heap s) c = Some (OSet xs) /\
                    s' = mkst (set_nth c (OSet xs') (heap s)) (ncalls s) (fail_at s)).
  Proof.
    intro H. unfold set_inserter in H. erewrite bind_ok' in H; [|apply check_typeM_eq].
    destruct (negb _); [run_err H|].
    unfold bind at 1 in H. rewrite read_set_run in H.
    destruct (nth_error (heap s) c) as [[| |xs|]|] eqn:N; try (run_err H).
    cbn [fst snd] in H.
    assert (Hx1 : (s' = s /\ forall u, r <> Ok u) \/
              exists xs1, (b <- set_mem ct xs1 item ;; write c (OSet (if b then xs1 else xs1 ++ [item]))) s = (r, s')).
    { match type of H with context [if ?b then set_discard _ _ _ else _] => destruct b end.
      - unfold set_discard in H. destruct (negb (hashable index)); [unfold bind, fail in H; run_err H|].
        unfold bind at 1 in H. unfold bind at 1 in H. unfold get_heap, ret in H. right. eauto.
      - right. exists xs. exact H. }
    destruct Hx1 as [Hl|[xs1 H1]]; [left; exact Hl|].
    unfold set_mem in H1. destruct (negb (hashable item)); [unfold bind, fail in H1; run_err H1|].
    unfold bind at 1 in H1. unfold bind at 1 in H1. unfold get_heap, ret in H1.
    erewrite write_eq in H1 by eauto. inversion H1; subst. right. eauto.
  Qed.

  Theorem set_inserter_preserves_TI s sp c index item r s' e :
    a_ty sp = TSet e -> simple e = true -> shallow (a_ty sp) ->
    TI ct (heap s) -> check_type FUEL ct (heap s) (VRef c) (TSet e) = true ->
    only_view (heap s) c (TSet e) ->
    set_inserter ct sp (VRef c) index item s = (r, s') -> TI ct (heap s').
  Proof.
    intros Ht Se Sh T C V H. destruct (set_inserter_run _ _ _ _ _ _ _ H) as [[-> _]|[xs [xs' [-> [N ->]]]]]; auto.
    simpl heap. eapply TI_write_container; eauto; try (simpl; lia).
    intros t Vt Ft. rewrite (V t Vt Ft).
    apply (set_inserter_keeps ct s sp c index item tt _ e Ht Se Sh C H).
  Qed.

  (* the single instance write of the library: a conforming value may be stored *)
  Theorem raw_setattr_preserves_TI s l a v c d r s' :
    nth_error (heap s) l = Some (OInst c d) -> TI ct (heap s) ->
    (forall k sp, lookup_cls ct c = Some k -> lookup_attr k a = Some sp ->
                  check_type FUEL ct (heap s) v (a_ty sp) = true) ->
    raw_setattr l a v s = (r, s') -> TI ct (heap s').
  Proof.
    intros N T Hv H. unfold raw_setattr in H.
    erewrite bind_ok' in H; [|apply read_inst_eq; eauto]. cbn [fst snd] in H.
    erewrite write_eq in H by eauto. inversion H; subst. simpl heap.
    eapply TI_write_inst; eauto. intros k a0 v0 sp Hk Hi Ha _.
    apply assoc_set_in in Hi. destruct Hi as [Hi|[-> ->]]; [eapply T; eauto|eauto].
  Qed.

  Theorem raw_delattr_preserves_TI s l a r s' :
    TI ct (heap s) -> raw_delattr l a s = (r, s') -> TI ct (heap s').
  Proof.
    intros T H. unfold raw_delattr in H.
    destruct (nth_error (heap s) l) as [o|] eqn:N.
    - destruct o as [| | |c d].
      1-3: (unfold read_inst, bind, read in H; rewrite N in H; inversion H; subst; exact T).
      erewrite bind_ok' in H; [|apply read_inst_eq; eauto]. cbn [fst snd] in H.
      destruct (assoc a d); [|inversion H; subst; exact T].
      erewrite write_eq in H by eauto. inversion H; subst. simpl heap.
      eapply TI_write_inst; eauto. intros k a0 v0 sp Hk Hi Ha _.
      apply assoc_del_in in Hi. eapply T; eauto.
    - unfold read_inst, bind, read in H. rewrite N in H. inversion H; subst; exact T.
  Qed.

  Lemma viewed_check h c t : TI ct h -> viewed ct h c t -> check_type FUEL ct h (VRef c) t = true.
  Proof. intros T (l & cl & d & k & a & sp & N & Hk & Hi & Ha & <-). eapply T; eauto. Qed.

  (* removing elements (without_<item>, discard) is safe under EVERY view of the cell *)
  Theorem TI_shrink_list h c xs xs' :
    TI ct h -> nth_error h c = Some (OList xs) ->
    (forall f : val -> bool, forallb f xs = true -> forallb f xs' = true) ->
    TI ct (set_nth c (OList xs') h).
  Proof.
    intros T N Sub. eapply TI_write_container; eauto; try (simpl; lia).
    intros t V Ft. pose proof (viewed_check _ _ _ T V) as C.
    destruct FUEL_SS as [f Ef]. rewrite Ef in *.
    destruct t; simpl in Ft; try discriminate; simpl in C; rewrite N in C; try discriminate.
    eapply coll_write_list; eauto.
  Qed.
  Theorem TI_shrink_set h c xs xs' :
    TI ct h -> nth_error h c = Some (OSet xs) ->
    (forall f : val -> bool, forallb f xs = true -> forallb f xs' = true) ->
    TI ct (set_nth c (OSet xs') h).
  Proof.
    intros T N Sub. eapply TI_write_container; eauto; try (simpl; lia).
    intros t V Ft. pose proof (viewed_check _ _ _ T V) as C.
    destruct FUEL_SS as [f Ef]. rewrite Ef in *.
    destruct t; simpl in Ft; try discriminate; simpl in C; rewrite N in C; try discriminate.
    eapply coll_write_set; eauto.
  Qed.
  Theorem TI_shrink_dict h c xs xs' :
    TI ct h -> nth_error h c = Some (ODict xs) ->
    (forall f : val * val -> bool, forallb f xs = true -> forallb f xs' = true) ->
    TI ct (set_nth c (ODict xs') h).
  Proof.
    intros T N Sub. eapply TI_write_container; eauto; try (simpl; lia).
    intros t V Ft. pose proof (viewed_check _ _ _ T V) as C.
    destruct FUEL_SS as [f Ef]. rewrite Ef in *.
    destruct t; simpl in Ft; try discriminate; simpl in C; rewrite N in C; try discriminate.
    apply andb_true_iff in Ft. destruct Ft. eapply coll_write_dict; eauto.
  Qed.
End FullInv.

(* ------------------------------------------------------------------ *)
(** * Executable form of the invariant (used by the examples) *)
Definition ti_b (ct : ctable) (h : heap_t) : bool :=
  forallb (fun o => match o with
                    | OInst c d =>
                        match lookup_cls ct c with
                        | Some k => forallb (fun p => match lookup_attr k (fst p) with
                                                      | Some sp => check_type FUEL ct h (snd p) (a_ty sp)
                                                      | None => true end) d
                        | None => true end
                    | _ => true end) h.

Lemma ti_b_iff ct h : ti_b ct h = true <-> TI ct h.
Proof.
  unfold ti_b, TI, TInvP, dict_ok. rewrite forallb_forall. split.
  - intros H l c d N k a v sp Hk Hi Ha _. apply nth_error_In in N. specialize (H _ N). simpl in H.
    rewrite Hk in H. rewrite forallb_forall in H. specialize (H _ Hi). simpl in H. now rewrite Ha in H.
  - intros H o Hin. destruct o as [| | |c d]; auto. destruct (lookup_cls ct c) as [k|] eqn:Hk; auto.
    apply forallb_forall. intros [a v] Hi. simpl. destruct (lookup_attr k a) as [sp|] eqn:Ha; auto.
    apply In_nth_error in Hin. destruct Hin as [l N]. eapply H; eauto.
Qed.
