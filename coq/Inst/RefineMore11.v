(* C05 refinement, nested values: update_<a>(x=v, ..., _inplace=True) merges keywords
   into the existing nested spec value -- on a deep copy of it, which then
   replaces the old one in the receiver. *)
From Coq Require Import List ZArith Bool Arith Lia.
From SC Require Import Base.Res Base.PyList Inst.Heap Inst.ClassTable Inst.Model Inst.Canon
  Inst.Abs Inst.SpecHelpers Inst.ElemProofs Inst.Framed Inst.RefineProofs Inst.CopyProofs Inst.CopyStore
  Inst.RefineMore Inst.RefineMore2 Inst.RefineMore8.
Import ListNotations.
Open Scope nat_scope.

#[local] Opaque FUEL.

(* ------------------------------------------------------------------ *)
(** * Flat instances: acyclic at every depth, independent of other instance cells *)

Lemma aok_flat_gen h l c d n : nth_error h l = Some (OInst c d) -> flat_fields h d ->
  aok (abs (S (S n)) h (VRef l)) = true.
Proof.
  intros Hl Hflat. rewrite (abs_inst h l c d (S n) Hl). cbn [aok].
  apply forallb_forall. intros q Hq. apply in_map_iff in Hq. destruct Hq as [p [<- Hp]]. cbn [snd].
  unfold sorted_fields in Hp. apply In_sort_by in Hp. apply aok_flat_val. now apply Hflat.
Qed.

Lemma flat_indep h lv cv dv l c d o n :
  nth_error h lv = Some (OInst cv dv) -> flat_fields h dv ->
  nth_error h l = Some (OInst c d) -> lv <> l ->
  abs (S (S n)) (set_nth l o h) (VRef lv) = abs (S (S n)) h (VRef lv).
Proof.
  intros Hv Hflat Hl Hne.
  rewrite (abs_inst _ lv cv dv (S n)) by (rewrite set_nth_other; auto).
  rewrite (abs_inst h lv cv dv (S n) Hv). f_equal. apply map_ext_in. intros [b w] Hb. cbn [fst snd]. f_equal.
  unfold sorted_fields in Hb. apply In_sort_by in Hb.
  destruct (Hflat (b, w) Hb) as [Hw|[lx [ox [Ew [Hox Hsx]]]]]; cbn [snd] in *.
  - now rewrite !abs_nonref_eq.
  - subst w. assert (lx <> l) by (intro; subst lx; rewrite Hl in Hox; inversion Hox; subst ox; discriminate).
    eapply abs_scalar_obj; eauto. rewrite set_nth_other; auto.
Qed.

(* ------------------------------------------------------------------ *)
(** * Scalar keyword assignments keep a flat instance flat *)

Section AssignAllFlat.
  Variable ct : ctable.
  Variables (l : loc) (c : cid) (k : cls).
  Hypothesis Hc : lookup_cls ct c = Some k.
  Hypothesis Hfz : c_frozen k = false.
  Hypothesis Hni : no_inval k.

  Definition flat_recv (s : state) : Prop :=
    exists d, nth_error (heap s) l = Some (OInst c d) /\ NoDup (map fst d) /\ flat_fields (heap s) d.

  Lemma flat_after_store d s s2 a v' :
    nth_error (heap s) l = Some (OInst c d) -> flat_fields (heap s) d -> heap s2 = heap s -> vscalar v' = true ->
    flat_fields (heap (upd s2 l (OInst c (assoc_set a v' d)))) (assoc_set a v' d).
  Proof.
    intros Hl Hflat Hh2 Hv' p Hp. apply in_assoc_set in Hp. destruct Hp as [->|Hp].
    - left. now apply vscalar_nonref.
    - destruct (Hflat p Hp) as [Hw|[lx [ox [Ew [Hox Hsx]]]]]; [now left|]. right. exists lx, ox.
      split; [exact Ew|]. split; [|exact Hsx]. rewrite heap_upd, Hh2.
      rewrite set_nth_other; [exact Hox|]. intro; subst lx. rewrite Hl in Hox. inversion Hox; subst ox. discriminate.
  Qed.

  Lemma assign_all_flat f0 : forall kws s,
    flat_recv s -> fail_at s = None -> forallb (kw_ok k) kws = true ->
    forall u s', assign_all (exec ct (S (S f0))) l kws s = (Ok u, s') -> flat_recv s' /\ fail_at s' = None.
  Proof.
    induction kws as [|[a0 v0] kws IH]; intros s Hg Hfa Hkws u s' H.
    - unfold assign_all in H. cbn [iterM] in H. inversion H; subst. auto.
    - cbn [forallb] in Hkws. apply andb_true_iff in Hkws. destruct Hkws as [Hk0 Hkws].
      unfold kw_ok in Hk0. cbn [fst snd] in Hk0.
      destruct (lookup_attr k a0) as [sp|] eqn:Ha0; [|discriminate].
      apply andb_true_iff in Hk0. destruct Hk0 as [Hk0 Hp0].
      apply andb_true_iff in Hk0. destruct Hk0 as [Hk0 Hv0].
      apply andb_true_iff in Hk0. destruct Hk0 as [Hty Hnc].
      apply Nat.ltb_lt in Hty. apply negb_true_iff in Hnc.
      assert (Hp : match a_prepare sp with Some f => scalar_fn f = true | None => True end)
        by (destruct (a_prepare sp); auto).
      rewrite assign_all_cons in H.
      destruct (is_missing v0) eqn:Em; [exact (IH s Hg Hfa Hkws u s' H)|].
      rewrite ?Em in Hv0. rewrite orb_false_r in Hv0.
      destruct Hg as [d [Hl [Hd Hflat]]].
      rewrite exec_S_set in H. rewrite (setattr_unfold ct _ l a0 c d k sp v0 false s Hl Hc Ha0) in H.
      assert (Hpass : negb (false || initializing d) && c_frozen k = false) by (rewrite Hfz; apply andb_false_r).
      pose proof (assign_scalar_closed ct l a0 c d k sp s Hl Hc Ha0 Hd (aok_flat (heap s) l c d Hl Hflat)
                    Hni Hty Hnc Hp f0 false v0 s Hpass eq_refl Hfa Hv0) as Hs.
      destruct (assign_gen ct l a0 sp (exec ct (S f0)) false v0 s) as [[r|e] s1]; [|discriminate H].
      destruct Hs as [_ [v' [s2 [Hh2 [Hf2 [Hv' [-> _]]]]]]].
      assert (Hlen : l < length (heap s2)) by (rewrite Hh2; apply nth_error_Some; congruence).
      refine (IH _ _ (eq_trans (fail_at_upd s2 l _) Hf2) Hkws u s' H).
      exists (assoc_set a0 v' d). split; [now apply upd_at|]. split; [now apply nodup_assoc_set|].
      exact (flat_after_store d s s2 a0 v' Hl Hflat Hh2 Hv').
  Qed.
End AssignAllFlat.

(* ------------------------------------------------------------------ *)
(** * The value procedure of update_<a>(x=v, ...) on an existing nested instance *)

Section NestedBody.
  Variable ct : ctable.
  Local Opaque iterM thawed deepcopy.

  Lemma update_nested_body_ok rec ln cn dn ctor ety p0 ps s ln' s2 :
    nth_error (heap s) ln = Some (OInst cn dn) ->
    deepcopy ct (VRef ln) s = (Ok (VRef ln'), s2) ->
    mutate_value ct rec (mkmv (VRef ln) VMissing false PNone (Some (p0 :: ps)) (Some ctor) (Some ety) None [] false) s =
    bind (thawed ct ln' true (assign_all rec ln' (p0 :: ps))) (fun _ => ret (VRef ln')) s2.
  Proof.
    intros Hn Hdc. unfold mutate_value. cbn [mv_new]. unfold mutate_value_body.
    cbn [mv_new mv_old mv_replace mv_prepare mv_attrs mv_ctor mv_expected mv_transform mv_attr_transforms
         mv_inplace is_missing negb andb orb].
    cbn [bind ret get_heap thawed_val loc_of existsb]. rewrite Hn. cbn [andb is_missing].
    rewrite ?bind_ret. unfold protect. cbn [val_is_scalar].
    rewrite bind_assoc. rewrite (bind_ok _ _ _ _ _ Hdc). cbn [thawed_val].
    match goal with |- context [iterM ?f (p0 :: ps)] => set (F := f) end.
    assert (E : iterM F (p0 :: ps) = assign_all rec ln' (p0 :: ps)).
    { unfold assign_all. apply iterM_ext. intros [a0 v0]. subst F. cbv beta. cbn [fst snd loc_of existsb].
      destruct (is_missing v0); reflexivity. }
    rewrite E. unfold bind.
    destruct (thawed ct ln' true (assign_all rec ln' (p0 :: ps)) s2) as [[u|e] s3]; reflexivity.
  Qed.
End NestedBody.

Section SpecNested.
  Variable ct : ctable.
  Variable h0 : list obj.

  Lemma spec_value_nested_kws cn F c0 t p ps :
    spec_value ct h0 (sexec ct h0 SFUEL) (AInst cn F) AMissing false SPNone (Some (p :: ps)) (Some c0) (Some t) None [] =
    (v5 <~ sfold (spec_kw_step ct h0) (p :: ps) (AInst cn F) ;; SOk v5).
  Proof.
    unfold spec_value. cbn [a_not_given negb sbind a_is_dict andb a_is_missing].
    change (fun (x : aval) (p1 : aid * aval) =>
              if in_names (fst p1) [] || a_is_missing (snd p1) then SOk x
              else sexec ct h0 SFUEL (SSetAttr x (fst p1) (snd p1))) with (spec_kw_step ct h0).
    destruct (sfold (spec_kw_step ct h0) (p :: ps) (AInst cn F)); reflexivity.
  Qed.
End SpecNested.

(* with_attr(obj, a, x, inplace) for an instance x, in the form the nested update needs *)
Section WithAttrInstance.
  Variable ct : ctable.
  Variable h0 : list obj.
  Variables (l : loc) (a : aid) (c : cid) (d : list (aid * val)) (k : cls) (sp : attr_spec).
  Variable s : state.
  Variables (lv : loc) (cv : cid) (dv : list (aid * val)).
  Hypothesis Hl : nth_error (heap s) l = Some (OInst c d).
  Hypothesis Hc : lookup_cls ct c = Some k.
  Hypothesis Ha : lookup_attr k a = Some sp.
  Hypothesis Hd : NoDup (map fst d).
  Hypothesis Hok : aok (absv (heap s) (VRef l)) = true.
  Hypothesis Hfz : c_frozen k = false.
  Hypothesis Hni : no_inval k.
  Hypothesis Hfa : fail_at s = None.
  Hypothesis Hty : ty_depth (a_ty sp) < FUEL.
  Hypothesis Hnc : ty_is_collection (a_ty sp) = false.
  Hypothesis Hprep : a_prepare sp = None \/ a_prepare sp = Some FId.
  Hypothesis Hv : nth_error (heap s) lv = Some (OInst cv dv).
  Hypothesis Hvok : aok (abs 23 (heap s) (VRef lv)) = true.
  Hypothesis Hindep : forall o, abs 23 (set_nth l o (heap s)) (VRef lv) = abs 23 (heap s) (VRef lv).

  Lemma with_attr_instance_refines :
    match with_attr ct l sp (VRef lv) None true s with
    | (Ok r, s') => r = VRef l /\
                    spec_with ct h0 (absv (heap s) (VRef l)) a (absv (heap s) (VRef lv)) None = SOk (absv (heap s') (VRef l)) /\
                    (forall i, i <> l -> nth_error (heap s') i = nth_error (heap s) i)
    | (Err e, s') => spec_with ct h0 (absv (heap s) (VRef l)) a (absv (heap s) (VRef lv)) None = SErr e /\ heap s' = heap s
    end.
  Proof.
    assert (E1 : with_inplace_gen ct (exec ct (S 39)) l a (VRef lv) s = with_attr ct l sp (VRef lv) None true s).
    { unfold with_inplace_gen. rewrite (bind_ok _ _ _ _ _ (spec_for_run ct l a c d k sp s Hl Hc Ha s eq_refl)).
      cbn [snd]. rewrite <- XFUEL_S. reflexivity. }
    assert (E2 : spec_helper ct h0 (absv (heap s) (VRef l)) (SWith a)
                   (mkah [absv (heap s) (VRef lv)] true true AMissing false None None [] None) =
                 spec_with ct h0 (absv (heap s) (VRef l)) a (absv (heap s) (VRef lv)) None).
    { rewrite (spec_helper_inplace_unfrozen ct h0 l c d k s Hl Hc Hfz (SWith a)
                 (mkah [absv (heap s) (VRef lv)] true true AMissing false None None [] None) eq_refl).
      rewrite (absv_recv l c d s Hl). reflexivity. }
    rewrite <- E1, <- E2.
    exact (with_gen_instance_refines ct h0 l a c d k sp s lv cv dv Hl Hc Ha Hd Hok Hfz Hni Hfa Hty Hnc Hprep Hv Hvok Hindep 39).
  Qed.
End WithAttrInstance.

(* ------------------------------------------------------------------ *)
(** * update_<a>(x=v, ..., _inplace=True) *)

Section UpdateNested.
  Variable ct : ctable.
  Variable h0 : list obj.
  Variables (l : loc) (a : aid) (c : cid) (d : list (aid * val)) (k : cls) (sp : attr_spec).
  Variable s : state.
  Variables (ln : loc) (cn : cid) (dn : list (aid * val)) (kn : cls).
  (* the receiver *)
  Hypothesis Hl : nth_error (heap s) l = Some (OInst c d).
  Hypothesis Hc : lookup_cls ct c = Some k.
  Hypothesis Ha : lookup_attr k a = Some sp.
  Hypothesis Hd : NoDup (map fst d).
  Hypothesis Hok : aok (absv (heap s) (VRef l)) = true.
  Hypothesis Hfz : c_frozen k = false.
  Hypothesis Hni : no_inval k.
  Hypothesis Hfa : fail_at s = None.
  Hypothesis Hty : ty_depth (a_ty sp) < FUEL.
  Hypothesis Hnc : ty_is_collection (a_ty sp) = false.
  Hypothesis Hprep : a_prepare sp = None \/ a_prepare sp = Some FId.
  Hypothesis Hclosed : closed (length (heap s)) (heap s).
  (* the nested value it holds: a flat instance of an unfrozen class without invalidated_by *)
  Hypothesis Hcur : assoc a d = Some (VRef ln).
  Hypothesis Hn : nth_error (heap s) ln = Some (OInst cn dn).
  Hypothesis Hcn : lookup_cls ct cn = Some kn.
  Hypothesis Hdn : NoDup (map fst dn).
  Hypothesis Hflatn : flat_fields (heap s) dn.
  Hypothesis Hdncn : c_dnc kn = false.
  Hypothesis Hfzn : c_frozen kn = false.
  Hypothesis Hnin : no_inval kn.
  Hypothesis Hpcn : c_post_copy kn = None.

  Let flds := map (fun p => (fst p, abs 23 (heap s) (snd p))) (sorted_fields d).
  Notation X := (absv (heap s) (VRef l)).

  Lemma l_below : l < length (heap s).
  Proof. apply nth_error_Some. congruence. Qed.

  Theorem update_nested_inplace_refines p0 ps :
    forallb (kw_ok kn) (p0 :: ps) = true ->
    let h := mkh [] true true VMissing false None (Some (p0 :: ps)) [] None in
    let ah := mkah [] true true AMissing false None (Some (akw (p0 :: ps))) [] None in
    match run_helper ct l (HUpdate a) h s with
    | (Ok r, s') => r = VRef l /\
                    spec_helper ct h0 X (SUpdate a) ah = SOk (absv (heap s') (VRef l)) /\
                    (forall i, i < length (heap s) -> i <> l -> nth_error (heap s') i = nth_error (heap s) i)
    | (Err e, s') => spec_helper ct h0 X (SUpdate a) ah = SErr e /\
                     (forall i, i < length (heap s) -> nth_error (heap s') i = nth_error (heap s) i)
    end.
  Proof.
    intros Hkws h ah.
    (* the nested value, abstractly *)
    assert (Hnok : aok (abs 23 (heap s) (VRef ln)) = true) by (exact (aok_flat_gen (heap s) ln cn dn 21 Hn Hflatn)).
    assert (Hcur_abs : read_attr ct h0 (AInst c flds) a = SOk (abs 23 (heap s) (VRef ln))).
    { unfold read_attr, flds. rewrite (assoc_flds d s Hd a), Hcur. reflexivity. }
    assert (Habs_n : abs 23 (heap s) (VRef ln) = absv (heap s) (VRef ln)).
    { unfold absv. symmetry. exact (aok_mono 23 (heap s) (VRef ln) Hnok). }
    (* the specification *)
    assert (Hspec : spec_helper ct h0 X (SUpdate a) ah =
                    (nv <~ sfold (spec_kw_step ct h0) (akw (p0 :: ps)) (absv (heap s) (VRef ln)) ;;
                     spec_with ct h0 (AInst c flds) a nv None)).
    { rewrite (spec_helper_inplace_unfrozen ct h0 l c d k s Hl Hc Hfz (SUpdate a) ah eq_refl). fold flds.
      unfold spec_unfrozen, spec_update, attr_of, cls_for, apos0, ah. cbn [ah_pos nth ah_kw akw map].
      rewrite Hc. cbn [sbind]. rewrite Ha. rewrite Hcur_abs. cbn [sbind].
      rewrite (abs_inst (heap s) ln cn dn 22 Hn).
      rewrite (spec_value_nested_kws ct h0 cn _ _ _ _ _).
      rewrite <- (abs_inst (heap s) ln cn dn 22 Hn), Habs_n.
      destruct (sfold (spec_kw_step ct h0) _ (absv (heap s) (VRef ln))); reflexivity. }
    rewrite Hspec. clear Hspec.
    (* the model: the keywords are assigned on a deep copy of the nested value *)
    unfold run_helper, h. cbn [h_if negb pos0 h_pos nth h_kw h_inplace is_sentinel].
    rewrite (bind_ok _ _ _ _ _ (spec_for_run ct l a c d k sp s Hl Hc Ha s eq_refl)). cbn [snd].
    assert (Hcv : current_value ct l sp true true s = (Ok (VRef ln), s)).
    { unfold current_value, getattr_default. rewrite (a_name_sp a k sp Ha).
      rewrite bind_assoc. rewrite (bind_ok _ _ _ _ _ (read_inst_at l s c d Hl)). cbn [fst snd]. rewrite Hcur.
      reflexivity. }
    rewrite (bind_ok _ _ _ _ _ Hcv). rewrite exec_XFUEL_mv.
    destruct (copy_twin ct ln cn dn kn s Hn Hcn Hdn Hflatn Hdncn Hfa Hpcn)
      as [ln' [dn' [s2 [Hdc [Hfresh [Hcell [Hdn' [Habs [Hok' [Hfa2 Hsame]]]]]]]]]].
    unfold bind at 1. rewrite (update_nested_body_ok ct _ ln cn dn _ _ p0 ps s ln' s2 Hn Hdc).
    unfold bind at 1.
    rewrite (thawed_unfrozen ct ln' _ _ s2 cn dn' kn Hcell Hcn Hfzn).
    pose proof (assign_all_refines ct h0 ln' cn kn Hcn Hfzn Hnin 37 (p0 :: ps) dn' s2 Hcell Hdn' Hok' Hfa2 Hkws) as Hloop.
    rewrite Habs in Hloop.
    assert (Hflat2 : flat_fields (heap s2) dn').
    { destruct (deepcopy_flat_abs ct ln s cn dn kn (VRef ln') s2 0 Hn Hcn Hdncn Hflatn Hdc)
        as [l1 [d1 [E1 [_ [Hc1 [_ [Hf1 _]]]]]]]. inversion E1; subst l1. rewrite Hcell in Hc1. inversion Hc1; subst d1. exact Hf1. }
    pose proof (assign_all_flat ct ln' cn kn Hcn Hfzn Hnin 37 (p0 :: ps) s2
                  (ex_intro _ dn' (conj Hcell (conj Hdn' Hflat2))) Hfa2 Hkws) as Hflat3.
    destruct (assign_all (exec ct 39) ln' (p0 :: ps) s2) as [[u|e] s3].
    - (* the keywords went through: the twin replaces the old nested value *)
      destruct Hloop as [Hfold [Hoth3 Hlen3]]. rewrite Hfold. cbn [sbind].
      destruct (Hflat3 u s3 eq_refl) as [[dn3 [Hcell3 [Hdn3 Hflat3']]] Hfa3]. clear Hflat3.
      unfold ret. cbv beta iota.
      assert (Hne : ln' <> l) by (pose proof l_below; lia).
      assert (Hold3 : forall i, i < length (heap s) -> nth_error (heap s3) i = nth_error (heap s) i).
      { intros i Hi. rewrite Hoth3 by lia. now apply Hsame. }
      assert (Hl3 : nth_error (heap s3) l = Some (OInst c d)) by (rewrite Hold3; [exact Hl|exact l_below]).
      assert (HX3 : absv (heap s3) (VRef l) = X).
      { unfold absv. apply (abs_agree (length (heap s)) (heap s) (heap s3) Hclosed); [exact Hold3|exact l_below]. }
      assert (Hok3 : aok (absv (heap s3) (VRef l)) = true) by (now rewrite HX3).
      assert (Hindep3 : forall o, abs 23 (set_nth l o (heap s3)) (VRef ln') = abs 23 (heap s3) (VRef ln')).
      { intro o. exact (flat_indep (heap s3) ln' cn dn3 l c d o 21 Hcell3 Hflat3' Hl3 Hne). }
      pose proof (with_attr_instance_refines ct h0 l a c d k sp s3 ln' cn dn3 Hl3 Hc Ha Hd Hok3 Hfz Hni Hfa3 Hty Hnc Hprep
                    Hcell3 (aok_flat_gen (heap s3) ln' cn dn3 21 Hcell3 Hflat3') Hindep3) as H.
      rewrite HX3 in H. rewrite (absv_recv l c d s Hl) in H. fold flds in H.
      destruct (with_attr ct l sp (VRef ln') None true s3) as [[r|e] s'].
      + destruct H as [-> [Hs Hoth]]. split; [reflexivity|]. split; [exact Hs|].
        intros i Hi Hil. rewrite Hoth by exact Hil. now apply Hold3.
      + destruct H as [Hs Hh]. split; [exact Hs|]. intros i Hi. rewrite Hh. now apply Hold3.
    - destruct Hloop as [Hfold [Hoth3 Hlen3]]. rewrite Hfold. cbn [sbind]. split; [reflexivity|].
      intros i Hi. rewrite Hoth3 by lia. now apply Hsame.
  Qed.
End UpdateNested.
