(* C06: sixth layer of the refinement of the element helpers: the copy-on-write
   flag.  with_<item> / without_<item> WITHOUT _inplace on a flat receiver
   (frozen class or not) whose list / dict / set attribute holds a container of
   scalars: the result is a fresh instance, no cell of the old heap changes,
   and the abstraction of the result is what spec_helper says; the documented
   errors are raised exactly when the specification says so. *)
From Coq Require Import List ZArith Bool Arith Lia.
From SC Require Import Base.Res Base.PyList Inst.Heap Inst.ClassTable Inst.Model Inst.Canon
  Inst.Abs Inst.SpecHelpers Inst.ElemProofs Inst.Framed Inst.RefineProofs Inst.CopyProofs Inst.ElemRefineDep Inst.CopyStore
  Inst.ElemRefine Inst.ElemRefine2 Inst.ElemRefine4 Inst.ElemRefine5.
Import ListNotations.
Open Scope nat_scope.

#[local] Opaque FUEL.
Local Opaque py_eq.

(* ------------------------------------------------------------------ *)
(** * The abstraction of a container of scalars *)

Definition aobj (o : obj) : aval :=
  match o with
  | OList xs => AList (map abs0 xs)
  | ODict kvs => ADict (map absp kvs)
  | OSet xs => ASet (cset xs)
  | OInst _ _ => ABad
  end.

Lemma abs_scalar_cell h lc o n :
  nth_error h lc = Some o -> scalar_obj o = true -> abs (S n) h (VRef lc) = aobj o.
Proof.
  intros H Ho. destruct o as [xs|kvs|xs|c d]; cbn [scalar_obj] in Ho; try discriminate; cbn [aobj].
  - now apply abs_list_scalars.
  - now apply abs_dict_scalars.
  - now apply abs_set_scalars.
Qed.

Lemma val_eqb_heap_indep ct f h a b : nonref a = true -> nonref b = true ->
  val_eqb f ct h a b = val_eqb f ct [] a b.
Proof. intros Ha Hb. now rewrite !val_eqb_nonref. Qed.

(* ------------------------------------------------------------------ *)
(** * mutate_attr(obj, a, <fresh container>, inplace=False) on a flat instance *)

Section CopyRef.
  Variable ct : ctable.
  Variable rec : call -> M val.

  Lemma mutate_attr_copy_ref l a lv ov s c d k :
    nth_error (heap s) l = Some (OInst c d) -> lookup_cls ct c = Some k ->
    c_dnc k = false -> c_post_copy k = None -> no_dep k a -> flat_fields (heap s) d -> NoDup (map fst d) ->
    assoc A_INITIALIZING d = None -> a <> A_INITIALIZING ->
    nth_error (heap s) lv = Some ov -> scalar_obj ov = true -> same_object (assoc a d) (VRef lv) = false ->
    exists l' s',
      mutate_attr ct rec l a (VRef lv) false false false false s = (Ok (VRef l'), s') /\
      length (heap s) <= l' /\
      (forall i, i < length (heap s) -> nth_error (heap s') i = nth_error (heap s) i) /\
      forall n, abs (S (S n)) (heap s') (VRef l') =
                AInst c (fset a (abs (S n) (heap s) (VRef lv))
                              (map (fun p => (fst p, abs (S n) (heap s) (snd p))) (sorted_fields d))).
  Proof.
    intros Hl Hc Hdnc Hpc Hni Hflat Hnd Hinit Ha0 Hlv Hov Hso.
    destruct (deepcopy_flat_ok ct l s c d k Hl Hc Hdnc Hflat Hpc) as [r0 [s2 Hdc]].
    destruct (deepcopy_flat_abs ct l s c d k r0 s2 0 Hl Hc Hdnc Hflat Hdc)
      as [l' [d' [-> [Hfresh [Hcell' [Hkeys [Hflat' [_ [Hfail Hsame]]]]]]]]].
    assert (Hinit' : assoc A_INITIALIZING d' = None).
    { pose proof (proj1 (assoc_none_notin A_INITIALIZING d) Hinit) as Hn.
      apply assoc_none_notin. intro Hin. apply Hn.
      exact (eq_ind _ (fun l0 => In A_INITIALIZING l0) Hin _ Hkeys). }
    assert (Hlen' : l' < length (heap s2)) by (apply nth_error_Some; congruence).
    assert (Hnd' : NoDup (map fst d')) by (exact (eq_ind _ (fun l0 => NoDup l0) Hnd _ (eq_sym Hkeys))).
    assert (Hlvlt : lv < length (heap s)) by (apply nth_error_Some; congruence).
    exists l', (upd s2 l' (OInst c (stored (c_frozen k) a (VRef lv) d'))).
    split; [|split; [exact Hfresh|split]].
    - unfold mutate_attr. cbn [is_sentinel].
      rewrite (bind_ok _ _ _ _ _ (read_inst_at l s c d Hl)). cbn [fst snd].
      rewrite (bind_ok _ _ _ _ _ (cls_of_at ct c s k Hc)).
      rewrite andb_false_r. cbn [andb]. rewrite bind_ret.
      assert (Etc : (match lookup_attr k a with
                     | Some sp => if false then (ok <- check_typeM ct (VRef lv) (a_ty sp) ;; if ok then ret tt else fail TypeErr)
                                  else ret tt
                     | None => ret tt end) = ret tt) by (destruct (lookup_attr k a); reflexivity).
      rewrite Etc, bind_ret. rewrite Hdnc, Hso. cbn [orb negb andb].
      rewrite bind_assoc. rewrite (bind_ok _ _ _ _ _ Hdc). cbn [loc_of]. rewrite !bind_ret.
      rewrite (bind_ok _ _ _ _ _ (thawed_store_run_nodep ct rec l' a (VRef lv) s2 c d' k Hcell' Hc Hni Hinit')).
      reflexivity.
    - intros i Hi. rewrite heap_upd, set_nth_other by lia. now apply Hsame.
    - intro n.
      assert (Hcopy_abs : map (fun p => (fst p, abs (S n) (heap s2) (snd p))) (sorted_fields d') =
                          map (fun p => (fst p, abs (S n) (heap s) (snd p))) (sorted_fields d)).
      { destruct (deepcopy_flat_abs ct l s c d k (VRef l') s2 n Hl Hc Hdnc Hflat Hdc)
          as [l1 [d1 [E1 [_ [Hcell1 [_ [_ [Habs _]]]]]]]].
        inversion E1; subst l1. rewrite Hcell' in Hcell1. inversion Hcell1; subst d1.
        rewrite (abs_inst _ l' c d' (S n) Hcell'), (abs_inst _ l c d (S n) Hl) in Habs. now inversion Habs. }
      assert (Hlv2 : nth_error (heap s2) lv = Some ov) by (rewrite Hsame; auto).
      assert (Hlvne : lv <> l') by lia.
      assert (Hlvabs2 : abs (S n) (heap s2) (VRef lv) = abs (S n) (heap s) (VRef lv))
        by (eapply abs_scalar_obj; eauto).
      rewrite (abs_inst _ l' c _ (S n) (upd_at s2 l' _ Hlen')). f_equal.
      set (dfin := stored (c_frozen k) a (VRef lv) d').
      transitivity (map (fun p => (fst p, abs (S n) (heap s2) (snd p))) (sorted_fields dfin)).
      + apply map_ext_in. intros [b0 w] Hb. cbn [fst snd]. f_equal.
        unfold sorted_fields in Hb. apply In_sort_by in Hb. apply stored_in in Hb.
        destruct Hb as [E|Hb].
        * inversion E; subst. eapply abs_scalar_obj; eauto. rewrite heap_upd, set_nth_other; auto.
        * destruct (Hflat' (b0, w) Hb) as [Hw|[lx [o [Ew [Ho Hso']]]]]; cbn [snd] in *.
          -- now rewrite !abs_nonref_eq.
          -- subst w. assert (lx <> l') by (intro; subst lx; rewrite Hcell' in Ho; inversion Ho; subst o; discriminate).
             eapply abs_scalar_obj; eauto. rewrite heap_upd, set_nth_other; auto.
      + rewrite <- Hcopy_abs.
        pose proof (stored_nodup (c_frozen k) a (VRef lv) d' Hnd') as Hndf.
        destruct (sorted_fields_props d' Hnd') as [S1 A1]. destruct (sorted_fields_props dfin Hndf) as [S2 A2].
        apply ssorted_ext.
        * now apply ssorted_map_fields.
        * apply ssorted_fset. now apply ssorted_map_fields.
        * intro k0. rewrite assoc_fset, !assoc_map_fields, A2, A1. unfold dfin. rewrite stored_lookup by auto.
          destruct (a =? k0); [cbn [option_map]; now rewrite Hlvabs2|reflexivity].
  Qed.
End CopyRef.

(* ------------------------------------------------------------------ *)
(** * The copy-on-write frame of an element helper *)

Definition old_cells_kept (s s' : state) : Prop :=
  forall i, i < length (heap s) -> nth_error (heap s') i = nth_error (heap s) i.

Section CopyFrame.
  Variable ct : ctable.
  Variable h0 : list obj.
  Variables (l : loc) (a : aid) (c : cid) (d : list (aid * val)) (k : cls) (sp : attr_spec).
  Variable s : state.
  Variables (lc : loc) (o : obj).
  Hypothesis Hl : nth_error (heap s) l = Some (OInst c d).
  Hypothesis Hc : lookup_cls ct c = Some k.
  Hypothesis Ha : lookup_attr k a = Some sp.
  Hypothesis Hd : NoDup (map fst d).
  Hypothesis Hdnc : c_dnc k = false.
  Hypothesis Hpc : c_post_copy k = None.
  Hypothesis Hni : no_dep k a.
  Hypothesis Hcoll : ty_is_collection (a_ty sp) = true.
  Hypothesis Hfld : assoc a d = Some (VRef lc).
  Hypothesis Hlc : nth_error (heap s) lc = Some o.
  Hypothesis Ho : scalar_obj o = true.
  Hypothesis Hflat : flat_fields (heap s) d.
  Hypothesis Hinit : assoc A_INITIALIZING d = None.
  Hypothesis Ha0 : a <> A_INITIALIZING.

  Let flds := map (fun p => (fst p, abs 23 (heap s) (snd p))) (sorted_fields d).
  Let lp := length (heap s).

  (* the specification does not look at the frozen flag of a copy-on-write call *)
  Lemma fc_spec_closed hp (edit : attr_spec -> aval -> ahargs -> sres aval) ah (r : sres aval) :
    ah_if ah = true -> mutates_in_place hp ah = false ->
    spec_unfrozen ct h0 (AInst c flds) hp ah = spec_elem_helper ct h0 (AInst c flds) a ah edit ->
    edit sp (aobj o) ah = r ->
    spec_helper ct h0 (absv (heap s) (VRef l)) hp ah =
    (c' <~ r ;; SOk (AInst c (fset a c' flds))).
  Proof.
    intros Hif Hmp Hun Hr. rewrite (recv_abs l c d s Hl). fold flds. unfold spec_helper. rewrite Hif. cbn [negb].
    rewrite Hmp. cbn [andb]. rewrite Hun.
    unfold spec_elem_helper, attr_of, cls_for. rewrite Hc. cbn [sbind]. rewrite Ha.
    unfold read_attr.
    assert (Hcur : assoc a flds = Some (aobj o)).
    { unfold flds. destruct (sorted_fields_props d Hd) as [_ A]. rewrite assoc_map_fields, A, Hfld. cbn [option_map].
      f_equal. exact (abs_scalar_cell (heap s) lc o 22 Hlc Ho). }
    rewrite Hcur. cbn [sbind]. rewrite Hcoll.
    unfold coll_of.
    assert (a_is_missing (aobj o) = false) as -> by (destruct o; try reflexivity).
    cbn [sbind]. rewrite Hr.
    destruct r as [c'| | |]; cbn [sbind]; auto.
    unfold invalidate, cls_for. rewrite Hc. cbn [sbind]. rewrite invalidatees_nodep by auto. reflexivity.
  Qed.

  (* CollectionAttrMutator.__init__ without inplace: the container is protected by a copy *)
  Lemma fc_mk_mutator : mk_mutator ct sp l false s = (Ok (VRef lp), push s o).
  Proof.
    unfold mk_mutator. rewrite (bind_ok _ _ _ _ _ (read_inst_at l s c d Hl)). cbn [fst snd].
    rewrite (bind_ok _ _ _ _ _ (cls_of_at ct c s k Hc)). cbn [andb]. rewrite bind_ret.
    rewrite (name_sp a k sp Ha). rewrite (bind_ok _ _ _ _ _ (getattr_default_at ct l a s c d _ Hl Hfld)).
    cbn [is_missing orb]. unfold protect. cbn [val_is_scalar].
    rewrite deepcopy_unfold.
    rewrite (bind_ok _ _ _ _ _ (dc_scalar_obj ct (S 61) lc o (@nil (loc * loc)) s Hlc Ho eq_refl)).
    reflexivity.
  Qed.

  (* the rest of the call, after the container has been protected: `tail` is the code
     between the mutator's construction and the end, on the collection value *)
  Variable tail : val -> M val.
  Variable pe : obj + err.          (* the pure outcome of the edit: new content, or the error *)
  (* the edit may consume user-function calls (state st: same heap) *)
  Hypothesis Htail : forall s1 lc1, nth_error (heap s1) lc1 = Some o -> fail_at s1 = fail_at s ->
    exists st, heap st = heap s1 /\
    tail (VRef lc1) s1 =
    match pe with
    | inl o' => mutate_attr ct (exec ct XFUEL) l a (VRef lc1) false false false false (upd st lc1 o')
    | inr e => (Err e, st)
    end.
  Hypothesis Hsc : forall o', pe = inl o' -> scalar_obj o' = true.

  Theorem fc_whole_gen (hp : shelper) (edit : attr_spec -> aval -> ahargs -> sres aval) ah res :
    ah_if ah = true -> mutates_in_place hp ah = false ->
    spec_unfrozen ct h0 (AInst c flds) hp ah = spec_elem_helper ct h0 (AInst c flds) a ah edit ->
    edit sp (aobj o) ah = match pe with inl o' => SOk (aobj o') | inr e => SErr e end ->
    res = bind (mk_mutator ct sp l false) tail s ->
    match res with
    | (Ok r, s') => exists l', r = VRef l' /\ length (heap s) <= l' /\ old_cells_kept s s' /\
                    spec_helper ct h0 (absv (heap s) (VRef l)) hp ah = SOk (absv (heap s') (VRef l'))
    | (Err e, s') => spec_helper ct h0 (absv (heap s) (VRef l)) hp ah = SErr e /\ old_cells_kept s s'
    end.
  Proof.
    intros Hif Hmp Hun Hspec ->.
    rewrite (fc_spec_closed hp edit ah _ Hif Hmp Hun Hspec).
    rewrite (bind_ok _ _ _ _ _ fc_mk_mutator).
    assert (Hlp : nth_error (heap (push s o)) lp = Some o).
    { unfold push, lp. cbn [heap]. now rewrite nth_error_app2, Nat.sub_diag by lia. }
    destruct (Htail (push s o) lp Hlp eq_refl) as [st [Hst Et]]. rewrite Et. clear Et.
    assert (Hold_p : old_cells_kept s st).
    { intros i Hi. rewrite Hst. unfold push. cbn [heap]. now apply nth_error_app1. }
    destruct pe as [o'|e]; [|split; auto].
    set (se := upd st lp o').
    assert (Hlen_e : length (heap se) = S (length (heap s))).
    { unfold se. rewrite heap_upd, set_nth_length, Hst. unfold push. cbn [heap]. rewrite app_length. cbn [length]. lia. }
    assert (Hold_e : old_cells_kept s se).
    { intros i Hi. unfold se. rewrite heap_upd, set_nth_other by (unfold lp; lia). now apply Hold_p. }
    assert (Hl_e : nth_error (heap se) l = Some (OInst c d)).
    { rewrite Hold_e; auto. apply nth_error_Some. congruence. }
    assert (Hlp_e : nth_error (heap se) lp = Some o').
    { unfold se. apply upd_at. rewrite Hst. unfold push. cbn [heap]. rewrite app_length. cbn [length]. unfold lp. lia. }
    assert (Hflat_e : flat_fields (heap se) d).
    { intros p Hp. destruct (Hflat p Hp) as [Hn|[lx [ox [E [Hx Hs]]]]]; [left; auto|].
      right. exists lx, ox. split; auto. split; auto. rewrite Hold_e; auto. apply nth_error_Some. congruence. }
    assert (Hso : same_object (assoc a d) (VRef lp) = false).
    { rewrite Hfld. cbn [same_object]. apply Nat.eqb_neq. unfold lp.
      assert (lc < length (heap s)) by (apply nth_error_Some; congruence). lia. }
    destruct (mutate_attr_copy_ref ct (exec ct XFUEL) l a lp o' se c d k Hl_e Hc Hdnc Hpc Hni Hflat_e Hd Hinit Ha0
                Hlp_e (Hsc o' eq_refl) Hso) as [l' [s' [Hrun [Hfresh [Hsame Habs]]]]].
    fold se. rewrite Hrun. exists l'. split; [reflexivity|]. split; [lia|]. split.
    { intros i Hi. rewrite Hsame by lia. now apply Hold_e. }
    cbn [sbind]. f_equal. rewrite absv_unfold, (Habs 22).
    rewrite (abs_scalar_cell (heap se) lp o' 22 Hlp_e (Hsc o' eq_refl)).
    assert (Hf : forall n, map (fun p : aid * val => (fst p, abs (S n) (heap se) (snd p))) (sorted_fields d) =
                           map (fun p : aid * val => (fst p, abs (S n) (heap s) (snd p))) (sorted_fields d)).
    { intro n. apply map_ext_in. intros [b0 w] Hb. cbn [fst snd]. f_equal.
      unfold sorted_fields in Hb. apply In_sort_by in Hb.
      destruct (Hflat (b0, w) Hb) as [Hn|[lx [ox [E [Hx Hs]]]]]; cbn [snd] in *.
      + now rewrite !abs_nonref_eq.
      + subst w. eapply abs_scalar_obj; eauto. rewrite Hold_e; auto. apply nth_error_Some. congruence. }
    rewrite (Hf 22). reflexivity.
  Qed.
End CopyFrame.

(* the frame for an edit that leaves the state alone but for the container cell *)
Theorem fc_whole ct h0 l a c d k sp s lc o :
  nth_error (heap s) l = Some (OInst c d) -> lookup_cls ct c = Some k -> lookup_attr k a = Some sp ->
  NoDup (map fst d) -> c_dnc k = false -> c_post_copy k = None -> no_dep k a ->
  ty_is_collection (a_ty sp) = true -> assoc a d = Some (VRef lc) -> nth_error (heap s) lc = Some o ->
  scalar_obj o = true -> flat_fields (heap s) d -> assoc A_INITIALIZING d = None -> a <> A_INITIALIZING ->
  forall (tail : val -> M val) (pe : obj + err),
  (forall s1 lc1, nth_error (heap s1) lc1 = Some o ->
     tail (VRef lc1) s1 =
     match pe with
     | inl o' => mutate_attr ct (exec ct XFUEL) l a (VRef lc1) false false false false (upd s1 lc1 o')
     | inr e => (Err e, s1)
     end) ->
  (forall o', pe = inl o' -> scalar_obj o' = true) ->
  forall (hp : shelper) (edit : attr_spec -> aval -> ahargs -> sres aval) ah res,
  ah_if ah = true -> mutates_in_place hp ah = false ->
  spec_unfrozen ct h0 (AInst c (map (fun p => (fst p, abs 23 (heap s) (snd p))) (sorted_fields d))) hp ah =
    spec_elem_helper ct h0 (AInst c (map (fun p => (fst p, abs 23 (heap s) (snd p))) (sorted_fields d))) a ah edit ->
  edit sp (aobj o) ah = match pe with inl o' => SOk (aobj o') | inr e => SErr e end ->
  res = bind (mk_mutator ct sp l false) tail s ->
  match res with
  | (Ok r, s') => exists l', r = VRef l' /\ length (heap s) <= l' /\ old_cells_kept s s' /\
                  spec_helper ct h0 (absv (heap s) (VRef l)) hp ah = SOk (absv (heap s') (VRef l'))
  | (Err e, s') => spec_helper ct h0 (absv (heap s) (VRef l)) hp ah = SErr e /\ old_cells_kept s s'
  end.
Proof.
  intros Hl Hc Ha Hd Hdnc Hpc Hni Hcoll Hfld Hlc Ho Hflat Hinit Ha0 tail pe Htail Hsc hp edit ah res Hif Hmp Hun Hspec Hres.
  apply (fc_whole_gen ct h0 l a c d k sp s lc o Hl Hc Ha Hd Hdnc Hpc Hni Hcoll Hfld Hlc Ho Hflat Hinit Ha0 tail pe)
    with (edit := edit); auto.
  intros s1 lc1 H1 _. exists s1. split; auto.
Qed.

(* ------------------------------------------------------------------ *)
(** * The code of with_<item> / without_<item> after the mutator has been built *)

Definition with_tail (ct : ctable) (l : loc) (a : aid) (sp : attr_spec) (h : hargs) (c0 : val) : M val :=
  c' <- (match family_of (a_ty sp) with
         | Some FSeq =>
             mutate_collection ct (exec ct XFUEL) FSeq sp l c0
               (mkio (h_index h) (pos0 h) (h_kw h) None [] true
                     (negb (is_missing (h_index h)) && negb (h_insert h)) TriTrue (h_insert h))
         | Some FMap =>
             mutate_collection ct (exec ct XFUEL) FMap sp l c0
               (mkio (match h_pos h with [] => VNone | k :: _ => k end)
                     (match h_pos h with _ :: v :: _ => v | _ => VMissing end)
                     (h_kw h) None [] true false TriTrue false)
         | Some FSet =>
             mutate_collection ct (exec ct XFUEL) FSet sp l c0
               (mkio VMissing (pos0 h) (h_kw h) None [] true false TriTrue false)
         | None => fail AttrErr end) ;;
  mutate_attr ct (exec ct XFUEL) l a c' (h_inplace h) false false false.

Lemma run_with_tail ct l a h s : h_if h = true ->
  run_helper ct l (HWithItem a) h s =
  bind (spec_for ct l a) (fun r => bind (mk_mutator ct (snd r) l (h_inplace h)) (with_tail ct l a (snd r) h)) s.
Proof. intro H. unfold run_helper. rewrite H. reflexivity. Qed.

Definition without_tail (ct : ctable) (l : loc) (a : aid) (sp : attr_spec) (h : hargs) (c0 : val) : M val :=
  c <- (if is_missing c0 then create_collection (exec ct XFUEL) sp else ret c0) ;;
  (match family_of (a_ty sp) with
   | Some FSeq =>
       ex <- seq_extractor ct sp c (pos0 h) true (tri_of (h_by_index h)) ;;
       (match fst ex with
        | VNone => ret tt
        | VInt _ | VBool _ =>
            let i := match fst ex with VInt z => z | VBool true => 1%Z | _ => 0%Z end in
            p <- read_list c ;;
            match norm_index (zlen (snd p)) i with
            | Some n => write (fst p) (OList (remove_at n (snd p)))
            | None => fail IndexErr end
        | _ => fail TypeErr end)
   | Some FMap =>
       ex <- map_extractor ct c (pos0 h) true ;;
       p <- read_dict c ;;
       h' <- get_heap ;;
       write (fst p) (ODict (filter (fun q => negb (val_eqb FUEL ct h' (fst q) (fst ex))) (snd p)))
   | Some FSet =>
       ex <- set_extractor ct c (pos0 h) true ;;
       p <- read_set c ;;
       xs <- set_discard ct (snd p) (fst ex) ;;
       write (fst p) (OSet xs)
   | None => fail AttrErr end) ;;;
  mutate_attr ct (exec ct XFUEL) l a c (h_inplace h) false false false.

Lemma run_without_tail ct l a h s : h_if h = true ->
  run_helper ct l (HWithoutItem a) h s =
  bind (spec_for ct l a) (fun r => bind (mk_mutator ct (snd r) l (h_inplace h)) (without_tail ct l a (snd r) h)) s.
Proof. intro H. unfold run_helper. rewrite H. reflexivity. Qed.

(* the copy-on-write refinement statement: fresh result, old heap untouched, specified content *)
Definition copy_refines_spec (ct : ctable) (h0 : list obj) (s : state) (l : loc)
           (hp : helper) (h : hargs) (shp : shelper) (ah : ahargs) : Prop :=
  match run_helper ct l hp h s with
  | (Ok r, s') => exists l', r = VRef l' /\ length (heap s) <= l' /\ old_cells_kept s s' /\
                  spec_helper ct h0 (absv (heap s) (VRef l)) shp ah = SOk (absv (heap s') (VRef l'))
  | (Err e, s') => spec_helper ct h0 (absv (heap s) (VRef l)) shp ah = SErr e /\ old_cells_kept s s'
  end.

(* ------------------------------------------------------------------ *)
(** * The pure outcome of each edit *)

Definition list_with_pure (ct : ctable) (ity : ty) (xs : list val) (idx v : val) (ins : bool) : obj + err :=
  match idx with
  | VInt i =>
      if ins then
        (if conforms ct ity (abs0 v) then inl (OList (insert_at (clamp_index (zlen xs) i) v xs)) else inr ValueErr)
      else match norm_index (zlen xs) i with
           | Some n => if conforms ct ity (abs0 v) then inl (OList (set_at n v xs)) else inr ValueErr
           | None => inr IndexErr end
  | _ => if conforms ct ity (abs0 v) then inl (OList (xs ++ [v])) else inr ValueErr
  end.

Definition list_without_pure (ct : ctable) (ity : ty) (xs : list val) (voi : val) (bi : option bool) : obj + err :=
  if is_missing voi then inl (OList xs) else
  if by_index_rule ct ity (abs0 voi) bi then
    match vint_of voi with
    | Some i => match norm_index (zlen xs) i with
                | Some n => inl (OList (remove_at n xs))
                | None => inr IndexErr end
    | None => inr TypeErr
    end
  else match find_index (fun x => py_eq ct x (abs0 voi)) (map abs0 xs) with
       | Some n => inl (OList (remove_at n xs))
       | None => inr ValueErr
       end.

Definition dict_with_pure (ct : ctable) (tk tv : ty) (kvs : list (val * val)) (key v : val) : obj + err :=
  if conforms ct tk (abs0 key) && conforms ct tv (abs0 v) then inl (ODict (dassign ct [] kvs key v)) else inr ValueErr.

Definition dict_without_pure (ct : ctable) (kvs : list (val * val)) (key : val) : obj + err :=
  match find (fun p => val_eqb FUEL ct [] (fst p) key) kvs with
  | Some _ => inl (ODict (filter (fun q => negb (val_eqb FUEL ct [] (fst q) key)) kvs))
  | None => inr KeyErr
  end.

Definition set_with_pure (ct : ctable) (ity : ty) (xs : list val) (v : val) : obj + err :=
  if conforms ct ity (abs0 v)
  then inl (OSet (if existsb (fun x => val_eqb FUEL ct [] x v) xs then xs else xs ++ [v]))
  else inr ValueErr.

Definition set_without_pure (ct : ctable) (xs : list val) (voi : val) : obj + err :=
  if existsb (fun x => val_eqb FUEL ct [] x voi) xs
  then inl (OSet (filter (fun x => negb (val_eqb FUEL ct [] x voi)) xs))
  else inr ValueErr.

Lemma dassign_heap_indep ct h kvs k v : forallb pair_nonref kvs = true -> nonref k = true ->
  dassign ct h kvs k v = dassign ct [] kvs k v.
Proof.
  intros Hk Hn. unfold dassign.
  assert (E : forall p, In p kvs -> val_eqb FUEL ct h (fst p) k = val_eqb FUEL ct [] (fst p) k).
  { intros p Hp. rewrite forallb_forall in Hk. specialize (Hk p Hp). unfold pair_nonref in Hk.
    apply andb_true_iff in Hk. apply val_eqb_heap_indep; tauto. }
  rewrite (existsb_ext_in _ _ kvs E). destruct (existsb _ kvs); [|reflexivity].
  apply map_ext_in. intros p Hp. now rewrite (E p Hp).
Qed.

(* ------------------------------------------------------------------ *)
(** * Copy-on-write with_<item> / without_<item> on a list attribute of scalars *)

Section CopyList.
  Variable ct : ctable.
  Variable h0 : list obj.
  Variables (l : loc) (a : aid) (c : cid) (d : list (aid * val)) (k : cls) (sp : attr_spec).
  Variable s : state.
  Variables (lc : loc) (xs : list val) (ity : ty).
  Hypothesis Hl : nth_error (heap s) l = Some (OInst c d).
  Hypothesis Hc : lookup_cls ct c = Some k.
  Hypothesis Ha : lookup_attr k a = Some sp.
  Hypothesis Hd : NoDup (map fst d).
  Hypothesis Hdnc : c_dnc k = false.
  Hypothesis Hpc : c_post_copy k = None.
  Hypothesis Hni : no_dep k a.
  Hypothesis Hty : a_ty sp = TList ity.
  Hypothesis Hdepth : ty_depth ity < FUEL.
  Hypothesis Hfld : assoc a d = Some (VRef lc).
  Hypothesis Hlc : nth_error (heap s) lc = Some (OList xs).
  Hypothesis Hxs : forallb nonref xs = true.
  Hypothesis Hflat : flat_fields (heap s) d.
  Hypothesis Hinit : assoc A_INITIALIZING d = None.
  Hypothesis Ha0 : a <> A_INITIALIZING.

  Let axs := map abs0 xs.

  Lemma cl_coll : ty_is_collection (a_ty sp) = true.
  Proof. now rewrite Hty. Qed.

  Theorem with_item_list_copy_refines idx v ins :
    a_prepare_item sp = None -> spec_of_ty_strict ity = None ->
    vscalar v = true -> (idx = VMissing \/ exists i, idx = VInt i) ->
    copy_refines_spec ct h0 s l (HWithItem a) (mkh [v] false true idx ins None None [] None)
                      (SWithItem a) (mkah [abs0 v] false true (abs0 idx) ins None None [] None).
  Proof.
    intros Hprep Hstrict Hv Hidx. unfold copy_refines_spec.
    assert (Hnr : nonref v = true) by (now apply vscalar_nonref).
    set (h := mkh [v] false true idx ins None None [] None).
    set (ah := mkah [abs0 v] false true (abs0 idx) ins None None [] None).
    apply (fc_whole ct h0 l a c d k sp s lc (OList xs) Hl Hc Ha Hd Hdnc Hpc Hni cl_coll Hfld Hlc Hxs Hflat Hinit Ha0
             (with_tail ct l a sp h) (list_with_pure ct ity xs idx v ins)) with (edit := spec_with_item ct h0);
      try reflexivity.
    - (* the tail of the model *)
      intros s1 lc1 Hlc1. unfold with_tail, h. rewrite Hty.
      cbn [family_of h_index pos0 h_pos nth h_kw h_insert h_inplace].
      pose proof (mc_with_item ct l sp s1 lc1 xs ity Hty Hprep Hstrict Hdepth Hlc1 idx v ins Hv Hidx) as Hmc.
      unfold list_with_pure.
      destruct Hidx as [->|[i ->]].
      + destruct (conforms ct ity (abs0 v)); [now rewrite (bind_ok _ _ _ _ _ Hmc)|now rewrite (bind_err _ _ _ _ _ Hmc)].
      + destruct ins.
        * destruct (conforms ct ity (abs0 v)); [now rewrite (bind_ok _ _ _ _ _ Hmc)|now rewrite (bind_err _ _ _ _ _ Hmc)].
        * destruct (norm_index (zlen xs) i); [|now rewrite (bind_err _ _ _ _ _ Hmc)].
          destruct (conforms ct ity (abs0 v)); [now rewrite (bind_ok _ _ _ _ _ Hmc)|now rewrite (bind_err _ _ _ _ _ Hmc)].
    - (* the new content is a list of scalars *)
      intros o'. unfold list_with_pure. intro E.
      assert (H1 : forallb nonref (xs ++ [v]) = true)
        by (apply forallb_app_true; auto; cbn [forallb]; now rewrite Hnr).
      assert (H2 : forall n, forallb nonref (insert_at n v xs) = true).
      { intro n. unfold insert_at. apply forallb_app_true; [now apply forallb_firstn|]. cbn [forallb]. rewrite Hnr.
        cbn [andb]. now apply forallb_skipn. }
      assert (H3 : forall n, forallb nonref (set_at n v xs) = true).
      { intro n. unfold set_at. apply forallb_app_true; [now apply forallb_firstn|]. cbn [forallb]. rewrite Hnr.
        cbn [andb]. now apply forallb_skipn. }
      destruct Hidx as [->|[i ->]].
      + destruct (conforms ct ity (abs0 v)); inversion E; subst; exact H1.
      + destruct ins.
        * destruct (conforms ct ity (abs0 v)); inversion E; subst; apply H2.
        * destruct (norm_index (zlen xs) i); [|discriminate].
          destruct (conforms ct ity (abs0 v)); inversion E; subst; apply H3.
    - (* the specification of the edit *)
      cbn [aobj]. fold axs. unfold spec_with_item, ah, list_with_pure. rewrite Hty.
      cbn [ah_index ah_insert ah_kw apos0 ah_pos nth].
      destruct Hidx as [->|[i ->]]; cbn [abs0 a_is_missing].
      + rewrite (elem_pipeline_scalar ct h0 sp ity Hty Hprep Hstrict AMissing v Hv).
        destruct (conforms ct ity (abs0 v)); cbn [sbind apply_elem spec_elem_op aobj]; [now rewrite map_app|reflexivity].
      + destruct ins.
        * cbn [int_of]. rewrite (elem_pipeline_scalar ct h0 sp ity Hty Hprep Hstrict _ v Hv).
          destruct (conforms ct ity (abs0 v)); cbn [sbind apply_elem spec_elem_op aobj]; [|reflexivity].
          unfold axs. now rewrite map_insert_at, zlen_map.
        * unfold seq_index. cbn [int_of]. unfold axs at 1. rewrite zlen_map.
          destruct (norm_index (zlen xs) i) as [n|]; cbn [sbind]; [|reflexivity].
          rewrite (elem_pipeline_scalar ct h0 sp ity Hty Hprep Hstrict _ v Hv).
          destruct (conforms ct ity (abs0 v)); cbn [sbind apply_elem spec_elem_op aobj]; [|reflexivity].
          unfold axs. now rewrite map_set_at.
    - (* the run *)
      rewrite (run_with_tail ct l a h s eq_refl).
      rewrite (bind_ok _ _ _ _ _ (fr_spec_for ct l a c d k sp s Hl Hc Ha)). reflexivity.
  Qed.

  Theorem without_item_list_copy_refines voi bi :
    nonref voi = true ->
    copy_refines_spec ct h0 s l (HWithoutItem a) (mkh [voi] false true VMissing false bi None [] None)
                      (SWithoutItem a) (mkah [abs0 voi] false true AMissing false bi None [] None).
  Proof.
    intros Hv. unfold copy_refines_spec.
    set (h := mkh [voi] false true VMissing false bi None [] None).
    set (ah := mkah [abs0 voi] false true AMissing false bi None [] None).
    apply (fc_whole ct h0 l a c d k sp s lc (OList xs) Hl Hc Ha Hd Hdnc Hpc Hni cl_coll Hfld Hlc Hxs Hflat Hinit Ha0
             (without_tail ct l a sp h) (list_without_pure ct ity xs voi bi)) with (edit := spec_without_item ct);
      try reflexivity.
    - intros s1 lc1 Hlc1. unfold without_tail, h. cbn [is_missing]. rewrite bind_ret. rewrite Hty.
      cbn [family_of pos0 h_pos nth h_by_index h_inplace].
      assert (Hdel : forall i n, norm_index (zlen xs) i = Some n ->
                (p <- read_list (VRef lc1) ;;
                 match norm_index (zlen (snd p)) i with
                 | Some n => write (fst p) (OList (remove_at n (snd p)))
                 | None => fail IndexErr end) s1 = (Ok tt, upd s1 lc1 (OList (remove_at n xs)))).
      { intros i n E. rewrite (bind_ok _ _ _ _ _ (read_list_at lc1 xs s1 Hlc1)). cbn [fst snd]. rewrite E.
        apply write_run. apply nth_error_Some. congruence. }
      rewrite bind_assoc.
      pose proof (seq_extractor_run ct sp ity Hty Hdepth lc1 xs voi true bi s1 Hlc1 Hxs Hv) as E.
      unfold list_without_pure.
      destruct (is_missing voi) eqn:Em.
      + rewrite (bind_ok _ _ _ _ _ E). cbn [fst]. rewrite bind_ret. now rewrite (upd_same s1 lc1 _ Hlc1).
      + destruct (by_index_rule ct ity (abs0 voi) bi).
        * destruct (vint_of voi) as [i|] eqn:Ei; [|now rewrite (bind_err _ _ _ _ _ E)].
          destruct (norm_index (zlen xs) i) as [n|] eqn:En; [|now rewrite (bind_err _ _ _ _ _ E)].
          rewrite (bind_ok _ _ _ _ _ E). cbn [fst].
          assert (Evoi : match voi with VInt z => z | VBool true => 1%Z | _ => 0%Z end = i).
          { destruct voi as [| | | |[|]|z| | |]; cbn [vint_of] in Ei; try discriminate; now inversion Ei. }
          destruct voi as [| | | |b|z| | |]; cbn [vint_of] in Ei; try discriminate;
            rewrite Evoi; now rewrite (bind_ok _ _ _ _ _ (Hdel i n En)).
        * destruct (find_index (fun x => py_eq ct x (abs0 voi)) (map abs0 xs)) as [n|] eqn:Ef;
            [|now rewrite (bind_err _ _ _ _ _ E)].
          rewrite (bind_ok _ _ _ _ _ E). cbn [fst].
          assert (Hn : n < length xs) by (apply find_index_lt in Ef; now rewrite map_length in Ef).
          now rewrite (bind_ok _ _ _ _ _ (Hdel (Z.of_nat n) n (norm_index_nat xs n Hn))).
    - intros o'. unfold list_without_pure. intro E.
      assert (H1 : forall n, forallb nonref (remove_at n xs) = true).
      { intro n. unfold remove_at. apply forallb_app_true; [now apply forallb_firstn|now apply forallb_skipn]. }
      destruct (is_missing voi); [inversion E; subst; exact Hxs|].
      destruct (by_index_rule ct ity (abs0 voi) bi).
      + destruct (vint_of voi) as [i|]; [|discriminate].
        destruct (norm_index (zlen xs) i); inversion E; subst; apply H1.
      + destruct (find_index _ (map abs0 xs)); inversion E; subst; apply H1.
    - cbn [aobj]. unfold spec_without_item, ah, list_without_pure. rewrite Hty. cbn [apos0 ah_pos nth ah_by_index].
      assert (Em : a_is_missing (abs0 voi) = is_missing voi) by (destruct voi; try reflexivity; discriminate).
      rewrite Em. destruct (is_missing voi); [reflexivity|].
      rewrite (seq_locate_abs ct ity xs voi bi).
      destruct (by_index_rule ct ity (abs0 voi) bi).
      + destruct (vint_of voi) as [i|]; [|reflexivity].
        destruct (norm_index (zlen xs) i); cbn [sbind apply_elem spec_elem_op aobj]; [now rewrite map_remove_at|reflexivity].
      + destruct (find_index _ (map abs0 xs)); cbn [sbind apply_elem spec_elem_op aobj]; [now rewrite map_remove_at|reflexivity].
    - rewrite (run_without_tail ct l a h s eq_refl).
      rewrite (bind_ok _ _ _ _ _ (fr_spec_for ct l a c d k sp s Hl Hc Ha)). reflexivity.
  Qed.
End CopyList.

(* ------------------------------------------------------------------ *)
(** * Copy-on-write with_<item> / without_<item> on a dict attribute of scalars *)

Section CopyDict.
  Variable ct : ctable.
  Variable h0 : list obj.
  Variables (l : loc) (a : aid) (c : cid) (d : list (aid * val)) (k : cls) (sp : attr_spec).
  Variable s : state.
  Variables (lc : loc) (kvs : list (val * val)) (tk tv : ty).
  Hypothesis Hl : nth_error (heap s) l = Some (OInst c d).
  Hypothesis Hc : lookup_cls ct c = Some k.
  Hypothesis Ha : lookup_attr k a = Some sp.
  Hypothesis Hd : NoDup (map fst d).
  Hypothesis Hdnc : c_dnc k = false.
  Hypothesis Hpc : c_post_copy k = None.
  Hypothesis Hni : no_dep k a.
  Hypothesis Hty : a_ty sp = TDict tk tv.
  Hypothesis Hdk : ty_depth tk < FUEL.
  Hypothesis Hdv : ty_depth tv < FUEL.
  Hypothesis Hfld : assoc a d = Some (VRef lc).
  Hypothesis Hlc : nth_error (heap s) lc = Some (ODict kvs).
  Hypothesis Hkvs : forallb pair_nonref kvs = true.
  Hypothesis Hflat : flat_fields (heap s) d.
  Hypothesis Hinit : assoc A_INITIALIZING d = None.
  Hypothesis Ha0 : a <> A_INITIALIZING.

  Lemma cd_coll : ty_is_collection (a_ty sp) = true.
  Proof. now rewrite Hty. Qed.
  Lemma cd_item : item_type (a_ty sp) = tv.
  Proof. now rewrite Hty. Qed.

  Theorem with_item_dict_copy_refines key v :
    a_prepare_item sp = None -> spec_of_ty_strict tv = None ->
    nonref key = true -> vscalar v = true ->
    copy_refines_spec ct h0 s l (HWithItem a) (mkh [key; v] false true VMissing false None None [] None)
                      (SWithItem a) (mkah [abs0 key; abs0 v] false true AMissing false None None [] None).
  Proof.
    intros Hprep Hstrict Hk Hv. unfold copy_refines_spec.
    assert (Hstrict' : spec_of_ty_strict (item_type (a_ty sp)) = None) by (now rewrite cd_item).
    assert (Hnv : nonref v = true) by (now apply vscalar_nonref).
    set (h := mkh [key; v] false true VMissing false None None [] None).
    set (ah := mkah [abs0 key; abs0 v] false true AMissing false None None [] None).
    apply (fc_whole ct h0 l a c d k sp s lc (ODict kvs) Hl Hc Ha Hd Hdnc Hpc Hni cd_coll Hfld Hlc Hkvs Hflat Hinit Ha0
             (with_tail ct l a sp h) (dict_with_pure ct tk tv kvs key v)) with (edit := spec_with_item ct h0);
      try reflexivity.
    - intros s1 lc1 Hlc1. unfold with_tail, h. rewrite Hty. cbn [family_of h_pos h_kw h_inplace].
      assert (Hmc : mutate_collection ct (exec ct XFUEL) FMap sp l (VRef lc1)
                      (mkio key v None None [] true false TriTrue false) s1 =
                    if conforms ct tk (abs0 key) && conforms ct tv (abs0 v)
                    then (Ok (VRef lc1), upd s1 lc1 (ODict (dassign ct [] kvs key v)))
                    else (Err ValueErr, s1)).
      { unfold mutate_collection.
        cbn [is_missing io_voi io_require io_by_index io_new io_replace io_attrs io_transform io_attr_transforms io_insert].
        rewrite bind_ret.
        assert (Hex : exists old, map_extractor ct (VRef lc1) key false s1 = (Ok (key, old), s1)).
        { rewrite (map_extractor_run ct lc1 kvs key false s1 Hlc1 Hk).
          destruct (find (fun p => val_eqb FUEL ct (heap s1) (fst p) key) kvs) as [p|]; eexists; reflexivity. }
        destruct Hex as [old Hex]. rewrite (bind_ok _ _ _ _ _ Hex). cbn [fst snd].
        assert (Hmv : exec ct XFUEL (KMutateValue (mkmv old v true (PItem sp l) None
                         (Some (ctor_of_ty (item_type (a_ty sp)))) (Some (item_type (a_ty sp))) None [] false)) s1 = (Ok v, s1)).
        { rewrite XFUEL_S, exec_S. cbn [body]. now apply mutate_value_new_scalar. }
        rewrite (bind_ok _ _ _ _ _ Hmv). unfold bind.
        rewrite (map_inserter_run ct sp tk tv lc1 kvs key v s1 Hty Hdk Hdv Hlc1 Hk Hnv).
        rewrite (dassign_heap_indep ct (heap s1) kvs key v Hkvs Hk).
        destruct (conforms ct tk (abs0 key) && conforms ct tv (abs0 v)); reflexivity. }
      unfold dict_with_pure.
      destruct (conforms ct tk (abs0 key) && conforms ct tv (abs0 v));
        [now rewrite (bind_ok _ _ _ _ _ Hmc)|now rewrite (bind_err _ _ _ _ _ Hmc)].
    - intros o'. unfold dict_with_pure.
      destruct (conforms ct tk (abs0 key) && conforms ct tv (abs0 v)); intro E; inversion E; subst.
      cbn [scalar_obj]. now apply dassign_scalar.
    - cbn [aobj]. unfold spec_with_item, ah, dict_with_pure. rewrite Hty. cbn [ah_pos apos1 nth ah_kw].
      rewrite (a_hashable_abs0 key Hk). cbn [negb].
      rewrite (elem_pipeline_new_scalar_gen ct h0 sp Hprep Hstrict' _ v true Hv). rewrite cd_item.
      destruct (conforms ct tv (abs0 v)); cbn [sbind]; [|now rewrite andb_false_r].
      rewrite andb_true_r. destruct (conforms ct tk (abs0 key)); [|reflexivity].
      cbn [apply_elem spec_elem_op aobj]. now rewrite dassign_abs.
    - rewrite (run_with_tail ct l a h s eq_refl).
      rewrite (bind_ok _ _ _ _ _ (fr_spec_for ct l a c d k sp s Hl Hc Ha)). reflexivity.
  Qed.

  Theorem without_item_dict_copy_refines key :
    nonref key = true ->
    copy_refines_spec ct h0 s l (HWithoutItem a) (mkh [key] false true VMissing false None None [] None)
                      (SWithoutItem a) (mkah [abs0 key] false true AMissing false None None [] None).
  Proof.
    intros Hk. unfold copy_refines_spec.
    set (h := mkh [key] false true VMissing false None None [] None).
    set (ah := mkah [abs0 key] false true AMissing false None None [] None).
    assert (Efind : forall hh, find (fun p => val_eqb FUEL ct hh (fst p) key) kvs =
                               find (fun p => val_eqb FUEL ct [] (fst p) key) kvs).
    { intro hh. apply find_ext_in. intros p Hp. rewrite forallb_forall in Hkvs. specialize (Hkvs p Hp).
      unfold pair_nonref in Hkvs. apply andb_true_iff in Hkvs. apply val_eqb_heap_indep; tauto. }
    assert (Efilter : forall hh, filter (fun q => negb (val_eqb FUEL ct hh (fst q) key)) kvs =
                                 filter (fun q => negb (val_eqb FUEL ct [] (fst q) key)) kvs).
    { intro hh. apply filter_ext_in'. intros p Hp. rewrite forallb_forall in Hkvs. specialize (Hkvs p Hp).
      unfold pair_nonref in Hkvs. apply andb_true_iff in Hkvs.
      rewrite (val_eqb_heap_indep ct FUEL hh (fst p) key (proj1 Hkvs) Hk). reflexivity. }
    apply (fc_whole ct h0 l a c d k sp s lc (ODict kvs) Hl Hc Ha Hd Hdnc Hpc Hni cd_coll Hfld Hlc Hkvs Hflat Hinit Ha0
             (without_tail ct l a sp h) (dict_without_pure ct kvs key)) with (edit := spec_without_item ct);
      try reflexivity.
    - intros s1 lc1 Hlc1. unfold without_tail, h. cbn [is_missing]. rewrite bind_ret. rewrite Hty.
      cbn [family_of pos0 h_pos nth h_inplace].
      rewrite bind_assoc.
      pose proof (map_extractor_run ct lc1 kvs key true s1 Hlc1 Hk) as E. rewrite Efind in E.
      unfold dict_without_pure.
      destruct (find (fun p => val_eqb FUEL ct [] (fst p) key) kvs) as [p|]; [|now rewrite (bind_err _ _ _ _ _ E)].
      rewrite (bind_ok _ _ _ _ _ E). cbn [fst].
      rewrite bind_assoc. rewrite (bind_ok _ _ _ _ _ (read_dict_at lc1 kvs s1 Hlc1)). cbn [fst snd].
      rewrite bind_assoc. rewrite (bind_ok get_heap _ s1 (heap s1) s1 eq_refl).
      assert (Hlen : lc1 < length (heap s1)) by (apply nth_error_Some; congruence).
      rewrite (bind_ok _ _ _ _ _ (write_run lc1 _ s1 Hlen)). now rewrite Efilter.
    - intros o'. unfold dict_without_pure.
      destruct (find _ kvs); intro E; inversion E; subst. cbn [scalar_obj]. now apply forallb_filter_true.
    - cbn [aobj]. unfold spec_without_item, ah, dict_without_pure. rewrite Hty. cbn [ah_pos apos0 nth].
      rewrite (a_hashable_abs0 key Hk). cbn [negb].
      rewrite (dict_get_abs ct [] kvs key Hkvs Hk).
      destruct (find (fun p => val_eqb FUEL ct [] (fst p) key) kvs); cbn [option_map]; [|reflexivity].
      cbn [apply_elem spec_elem_op aobj]. now rewrite (dict_del_abs ct [] kvs key Hkvs Hk).
    - rewrite (run_without_tail ct l a h s eq_refl).
      rewrite (bind_ok _ _ _ _ _ (fr_spec_for ct l a c d k sp s Hl Hc Ha)). reflexivity.
  Qed.
End CopyDict.

(* ------------------------------------------------------------------ *)
(** * Copy-on-write with_<item> / without_<item> on a set attribute of scalars *)

Section CopySet.
  Variable ct : ctable.
  Variable h0 : list obj.
  Variables (l : loc) (a : aid) (c : cid) (d : list (aid * val)) (k : cls) (sp : attr_spec).
  Variable s : state.
  Variables (lc : loc) (xs : list val) (ity : ty).
  Hypothesis Hl : nth_error (heap s) l = Some (OInst c d).
  Hypothesis Hc : lookup_cls ct c = Some k.
  Hypothesis Ha : lookup_attr k a = Some sp.
  Hypothesis Hd : NoDup (map fst d).
  Hypothesis Hdnc : c_dnc k = false.
  Hypothesis Hpc : c_post_copy k = None.
  Hypothesis Hni : no_dep k a.
  Hypothesis Hty : a_ty sp = TSet ity.
  Hypothesis Hdepth : ty_depth ity < FUEL.
  Hypothesis Hfld : assoc a d = Some (VRef lc).
  Hypothesis Hlc : nth_error (heap s) lc = Some (OSet xs).
  Hypothesis Hxs : forallb nonref xs = true.
  Hypothesis Hflat : flat_fields (heap s) d.
  Hypothesis Hinit : assoc A_INITIALIZING d = None.
  Hypothesis Ha0 : a <> A_INITIALIZING.

  Lemma cs_coll : ty_is_collection (a_ty sp) = true.
  Proof. now rewrite Hty. Qed.
  Lemma cs_item : item_type (a_ty sp) = ity.
  Proof. now rewrite Hty. Qed.

  Lemma cs_mem hh v : nonref v = true ->
    existsb (fun x => val_eqb FUEL ct hh x v) xs = existsb (fun x => val_eqb FUEL ct [] x v) xs.
  Proof.
    intro Hv. apply existsb_ext_in. intros x Hx. rewrite forallb_forall in Hxs. apply val_eqb_heap_indep; auto.
  Qed.

  Theorem with_item_set_copy_refines v :
    a_prepare_item sp = None -> spec_of_ty_strict ity = None ->
    vscalar v = true -> set_key_free ct xs v = true ->
    copy_refines_spec ct h0 s l (HWithItem a) (mkh [v] false true VMissing false None None [] None)
                      (SWithItem a) (mkah [abs0 v] false true AMissing false None None [] None).
  Proof.
    intros Hprep Hstrict Hv Hkf. unfold copy_refines_spec.
    assert (Hstrict' : spec_of_ty_strict (item_type (a_ty sp)) = None) by (now rewrite cs_item).
    assert (Hnv : nonref v = true) by (now apply vscalar_nonref).
    set (h := mkh [v] false true VMissing false None None [] None).
    set (ah := mkah [abs0 v] false true AMissing false None None [] None).
    set (mem := existsb (fun x => val_eqb FUEL ct [] x v) xs).
    assert (Hmem : set_has ct (cset xs) (abs0 v) = mem) by (symmetry; apply mem_abs; auto).
    apply (fc_whole ct h0 l a c d k sp s lc (OSet xs) Hl Hc Ha Hd Hdnc Hpc Hni cs_coll Hfld Hlc Hxs Hflat Hinit Ha0
             (with_tail ct l a sp h) (set_with_pure ct ity xs v)) with (edit := spec_with_item ct h0);
      try reflexivity.
    - intros s1 lc1 Hlc1. unfold with_tail, h. rewrite Hty. cbn [family_of pos0 h_pos nth h_kw h_inplace].
      assert (Hmc : mutate_collection ct (exec ct XFUEL) FSet sp l (VRef lc1)
                      (mkio VMissing v None None [] true false TriTrue false) s1 =
                    if conforms ct ity (abs0 v)
                    then (Ok (VRef lc1), upd s1 lc1 (OSet (if mem then xs else xs ++ [v])))
                    else (Err ValueErr, s1)).
      { unfold mutate_collection.
        cbn [is_missing io_voi io_require io_by_index io_new io_replace io_attrs io_transform io_attr_transforms io_insert].
        rewrite bind_ret.
        assert (Hex : exists old, set_extractor ct (VRef lc1) VMissing false s1 = (Ok (VMissing, old), s1)).
        { rewrite (set_extractor_run ct lc1 xs VMissing false s1 Hlc1 eq_refl).
          destruct (existsb (fun x => val_eqb FUEL ct (heap s1) x VMissing) xs); eexists; reflexivity. }
        destruct Hex as [old Hex]. rewrite (bind_ok _ _ _ _ _ Hex). cbn [fst snd].
        assert (Hmv : exec ct XFUEL (KMutateValue (mkmv old v true (PItem sp l) None
                         (Some (ctor_of_ty (item_type (a_ty sp)))) (Some (item_type (a_ty sp))) None [] false)) s1 = (Ok v, s1)).
        { rewrite XFUEL_S, exec_S. cbn [body]. now apply mutate_value_new_scalar. }
        rewrite (bind_ok _ _ _ _ _ Hmv). unfold bind at 1. unfold set_inserter.
        rewrite (bind_ok (check_typeM ct v (item_type (a_ty sp))) _ s1
                         (check_type FUEL ct (heap s1) v (item_type (a_ty sp))) s1 eq_refl).
        rewrite cs_item, check_type_nonref by auto.
        destruct (conforms ct ity (abs0 v)); [|reflexivity]. cbn [negb].
        rewrite (bind_ok _ _ _ _ _ (read_set_at lc1 xs s1 Hlc1)). cbn [fst snd is_missing negb]. rewrite bind_ret.
        rewrite (bind_ok _ _ _ _ _ (set_mem_run ct xs v s1 Hnv)). rewrite (cs_mem (heap s1) v Hnv). fold mem.
        assert (Hlen : lc1 < length (heap s1)) by (apply nth_error_Some; congruence).
        rewrite (write_run lc1 _ s1 Hlen). reflexivity. }
      unfold set_with_pure. fold mem.
      destruct (conforms ct ity (abs0 v)); [now rewrite (bind_ok _ _ _ _ _ Hmc)|now rewrite (bind_err _ _ _ _ _ Hmc)].
    - intros o'. unfold set_with_pure. fold mem.
      destruct (conforms ct ity (abs0 v)); intro E; inversion E; subst. cbn [scalar_obj].
      destruct mem; auto. apply forallb_app_true; auto. cbn [forallb]. now rewrite Hnv.
    - cbn [aobj]. unfold spec_with_item, ah, set_with_pure. fold mem. rewrite Hty. cbn [ah_pos apos0 nth ah_kw].
      rewrite (elem_pipeline_new_scalar_gen ct h0 sp Hprep Hstrict' _ v true Hv). rewrite cs_item.
      destruct (conforms ct ity (abs0 v)); cbn [sbind]; [|reflexivity].
      rewrite (a_hashable_abs0 v Hnv). cbn [apply_elem spec_elem_op aobj]. unfold set_add. rewrite Hmem.
      destruct mem eqn:Em; [reflexivity|]. rewrite (cset_snoc ct xs v Hxs Hnv Hkf); [reflexivity|]. now rewrite Hmem.
    - rewrite (run_with_tail ct l a h s eq_refl).
      rewrite (bind_ok _ _ _ _ _ (fr_spec_for ct l a c d k sp s Hl Hc Ha)). reflexivity.
  Qed.

  Theorem without_item_set_copy_refines voi :
    nonref voi = true ->
    copy_refines_spec ct h0 s l (HWithoutItem a) (mkh [voi] false true VMissing false None None [] None)
                      (SWithoutItem a) (mkah [abs0 voi] false true AMissing false None None [] None).
  Proof.
    intros Hv. unfold copy_refines_spec.
    set (h := mkh [voi] false true VMissing false None None [] None).
    set (ah := mkah [abs0 voi] false true AMissing false None None [] None).
    set (mem := existsb (fun x => val_eqb FUEL ct [] x voi) xs).
    assert (Hmem : set_has ct (cset xs) (abs0 voi) = mem) by (symmetry; apply mem_abs; auto).
    assert (Efilter : forall hh, filter (fun x => negb (val_eqb FUEL ct hh x voi)) xs =
                                 filter (fun x => negb (val_eqb FUEL ct [] x voi)) xs).
    { intro hh. apply filter_ext_in'. intros x Hx. rewrite forallb_forall in Hxs.
      rewrite (val_eqb_heap_indep ct FUEL hh x voi (Hxs x Hx) Hv). reflexivity. }
    apply (fc_whole ct h0 l a c d k sp s lc (OSet xs) Hl Hc Ha Hd Hdnc Hpc Hni cs_coll Hfld Hlc Hxs Hflat Hinit Ha0
             (without_tail ct l a sp h) (set_without_pure ct xs voi)) with (edit := spec_without_item ct);
      try reflexivity.
    - intros s1 lc1 Hlc1. unfold without_tail, h. cbn [is_missing]. rewrite bind_ret. rewrite Hty.
      cbn [family_of pos0 h_pos nth h_inplace].
      rewrite bind_assoc.
      pose proof (set_extractor_run ct lc1 xs voi true s1 Hlc1 Hv) as E. rewrite (cs_mem (heap s1) voi Hv) in E.
      fold mem in E. unfold set_without_pure. fold mem.
      destruct mem; [|now rewrite (bind_err _ _ _ _ _ E)].
      rewrite (bind_ok _ _ _ _ _ E). cbn [fst].
      rewrite bind_assoc. rewrite (bind_ok _ _ _ _ _ (read_set_at lc1 xs s1 Hlc1)). cbn [fst snd].
      rewrite bind_assoc.
      assert (Ed : set_discard ct xs voi s1 = (Ok (filter (fun x => negb (val_eqb FUEL ct [] x voi)) xs), s1)).
      { unfold set_discard. rewrite hashable_nonref, Hv. rewrite <- (Efilter (heap s1)). reflexivity. }
      rewrite (bind_ok _ _ _ _ _ Ed).
      assert (Hlen : lc1 < length (heap s1)) by (apply nth_error_Some; congruence).
      now rewrite (bind_ok _ _ _ _ _ (write_run lc1 _ s1 Hlen)).
    - intros o'. unfold set_without_pure. fold mem.
      destruct mem; intro E; inversion E; subst. cbn [scalar_obj]. now apply forallb_filter_true.
    - cbn [aobj]. unfold spec_without_item, ah, set_without_pure. fold mem. rewrite Hty. cbn [ah_pos apos0 nth].
      rewrite (a_hashable_abs0 voi Hv). cbn [negb]. rewrite Hmem. destruct mem; [|reflexivity].
      cbn [apply_elem spec_elem_op aobj]. now rewrite (cset_filter ct [] xs voi Hxs Hv).
    - rewrite (run_without_tail ct l a h s eq_refl).
      rewrite (bind_ok _ _ _ _ _ (fr_spec_for ct l a c d k sp s Hl Hc Ha)). reflexivity.
  Qed.
End CopySet.
