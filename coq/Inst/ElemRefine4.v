(* C06: fourth layer of the refinement of the element helpers: with_<item> /
   without_<item> in place on a Dict attribute of scalars (assign key / delete
   key: an existing key keeps its position, a new key goes last; KeyError on an
   absent key). *)
From Coq Require Import List ZArith Bool Arith Lia.
From SC Require Import Base.Res Base.PyList Inst.Heap Inst.ClassTable Inst.Model Inst.Canon
  Inst.Abs Inst.SpecHelpers Inst.ElemProofs Inst.Framed Inst.RefineProofs Inst.CopyProofs Inst.ElemRefineDep Inst.ElemRefine
  Inst.ElemRefine2.
Import ListNotations.
Open Scope nat_scope.

#[local] Opaque FUEL.
Local Opaque py_eq.

(* ------------------------------------------------------------------ *)
(** * Generic list facts *)

Lemma existsb_map {A B} (g : A -> B) (f : B -> bool) l : existsb f (map g l) = existsb (fun x => f (g x)) l.
Proof. induction l as [|x l IH]; [reflexivity|]. cbn [map existsb]. now rewrite IH. Qed.

Lemma existsb_ext_in {A} (f g : A -> bool) l : (forall x, In x l -> f x = g x) -> existsb f l = existsb g l.
Proof.
  induction l as [|x l IH]; intro H; [reflexivity|]. cbn [existsb].
  rewrite (H x) by (simpl; auto). rewrite IH; auto. intros; apply H; simpl; auto.
Qed.

Lemma find_map {A B} (g : A -> B) (f : B -> bool) l : find f (map g l) = option_map g (find (fun x => f (g x)) l).
Proof. induction l as [|x l IH]; [reflexivity|]. cbn [map find]. destruct (f (g x)); [reflexivity|exact IH]. Qed.

Lemma find_ext_in {A} (f g : A -> bool) l : (forall x, In x l -> f x = g x) -> find f l = find g l.
Proof.
  induction l as [|x l IH]; intro H; [reflexivity|]. cbn [find].
  rewrite (H x) by (simpl; auto). rewrite IH; auto. intros; apply H; simpl; auto.
Qed.

Lemma filter_map_comm {A B} (g : A -> B) (f : B -> bool) l : filter f (map g l) = map g (filter (fun x => f (g x)) l).
Proof. induction l as [|x l IH]; [reflexivity|]. cbn [map filter]. destruct (f (g x)); cbn [map]; now rewrite IH. Qed.

Lemma filter_ext_in' {A} (f g : A -> bool) l : (forall x, In x l -> f x = g x) -> filter f l = filter g l.
Proof.
  induction l as [|x l IH]; intro H; [reflexivity|]. cbn [filter].
  rewrite (H x) by (simpl; auto). rewrite IH; auto. intros; apply H; simpl; auto.
Qed.

Lemma forallb_filter_true {A} (f p : A -> bool) l : forallb p l = true -> forallb p (filter f l) = true.
Proof. rewrite !forallb_forall. intros H x Hx. apply filter_In in Hx. apply H. tauto. Qed.

Lemma hashable_nonref v : hashable v = nonref v.
Proof. destruct v; reflexivity. Qed.

Lemma a_hashable_abs0 v : nonref v = true -> a_hashable (abs0 v) = true.
Proof. destruct v; cbn [nonref]; intro; try discriminate; reflexivity. Qed.

(* ------------------------------------------------------------------ *)
(** * Dicts of scalars *)

Definition pair_nonref (p : val * val) : bool := nonref (fst p) && nonref (snd p).
Definition absp (p : val * val) : aval * aval := (abs0 (fst p), abs0 (snd p)).

Lemma abs_dict_scalars h lc kvs n :
  nth_error h lc = Some (ODict kvs) -> forallb pair_nonref kvs = true ->
  abs (S n) h (VRef lc) = ADict (map absp kvs).
Proof.
  intros H Hx. cbn [abs]. rewrite H. f_equal. apply map_ext_in. intros p Hi.
  rewrite forallb_forall in Hx. specialize (Hx p Hi). unfold pair_nonref in Hx. apply andb_true_iff in Hx.
  destruct Hx as [H1 H2]. unfold absp. now rewrite !abs_nonref_eq by auto.
Qed.

Section DictOps.
  Variable ct : ctable.

  (* the model's dict.__setitem__ *)
  Definition dassign (h : list obj) (kvs : list (val * val)) (k v : val) : list (val * val) :=
    if existsb (fun p => val_eqb FUEL ct h (fst p) k) kvs
    then map (fun p => if val_eqb FUEL ct h (fst p) k then (fst p, v) else p) kvs
    else kvs ++ [(k, v)].

  Lemma key_eq_abs h kvs k : forallb pair_nonref kvs = true -> nonref k = true ->
    forall p, In p kvs -> val_eqb FUEL ct h (fst p) k = py_eq ct (fst (absp p)) (abs0 k).
  Proof.
    intros Hk Hn p Hp. rewrite forallb_forall in Hk. specialize (Hk p Hp).
    unfold pair_nonref in Hk. apply andb_true_iff in Hk. destruct Hk as [H1 _].
    cbn [absp fst]. now apply val_eqb_nonref.
  Qed.

  Lemma dassign_abs h kvs k v :
    forallb pair_nonref kvs = true -> nonref k = true ->
    map absp (dassign h kvs k v) = dict_set ct (map absp kvs) (abs0 k) (abs0 v).
  Proof.
    intros Hk Hn. unfold dassign, dict_set. rewrite existsb_map.
    rewrite (existsb_ext_in _ (fun p => py_eq ct (fst (absp p)) (abs0 k)) kvs (key_eq_abs h kvs k Hk Hn)).
    destruct (existsb (fun p => py_eq ct (fst (absp p)) (abs0 k)) kvs).
    - rewrite !map_map. apply map_ext_in. intros p Hp. rewrite (key_eq_abs h kvs k Hk Hn p Hp).
      destruct (py_eq ct (fst (absp p)) (abs0 k)); reflexivity.
    - now rewrite map_app.
  Qed.

  Lemma dassign_scalar h kvs k v :
    forallb pair_nonref kvs = true -> nonref k = true -> nonref v = true ->
    forallb pair_nonref (dassign h kvs k v) = true.
  Proof.
    intros Hk Hn Hv. unfold dassign. destruct (existsb _ kvs).
    - rewrite forallb_forall in *. intros q Hq. apply in_map_iff in Hq. destruct Hq as [p [<- Hp]].
      specialize (Hk p Hp). destruct (val_eqb FUEL ct h (fst p) k); auto.
      unfold pair_nonref in *. apply andb_true_iff in Hk. cbn [fst snd]. now rewrite (proj1 Hk), Hv.
    - apply forallb_app_true; auto. cbn [forallb]. unfold pair_nonref. cbn [fst snd]. now rewrite Hn, Hv.
  Qed.

  Lemma dict_get_abs h kvs k :
    forallb pair_nonref kvs = true -> nonref k = true ->
    dict_get ct (map absp kvs) (abs0 k) =
    option_map abs0 (option_map snd (find (fun p => val_eqb FUEL ct h (fst p) k) kvs)).
  Proof.
    intros Hk Hn. unfold dict_get. rewrite find_map.
    rewrite (find_ext_in (fun p => val_eqb FUEL ct h (fst p) k) _ kvs (key_eq_abs h kvs k Hk Hn)).
    destruct (find (fun p => py_eq ct (fst (absp p)) (abs0 k)) kvs); reflexivity.
  Qed.

  Lemma dict_del_abs h kvs k :
    forallb pair_nonref kvs = true -> nonref k = true ->
    map absp (filter (fun q => negb (val_eqb FUEL ct h (fst q) k)) kvs) = dict_del ct (map absp kvs) (abs0 k).
  Proof.
    intros Hk Hn. unfold dict_del. rewrite filter_map_comm. f_equal.
    apply filter_ext_in'. intros p Hp. now rewrite (key_eq_abs h kvs k Hk Hn p Hp).
  Qed.

  Lemma read_dict_at lc kvs s : nth_error (heap s) lc = Some (ODict kvs) -> read_dict (VRef lc) s = (Ok (lc, kvs), s).
  Proof. intro H. unfold read_dict. cbn [loc_of_t]. rewrite bind_ret. rewrite (bind_ok _ _ _ _ _ (read_run lc s _ H)). reflexivity. Qed.

  (* MappingMutator._extractor *)
  Lemma map_extractor_run lc kvs key req s :
    nth_error (heap s) lc = Some (ODict kvs) -> nonref key = true ->
    map_extractor ct (VRef lc) key req s =
    match find (fun p => val_eqb FUEL ct (heap s) (fst p) key) kvs with
    | Some p => (Ok (key, snd p), s)
    | None => if req then (Err KeyErr, s) else (Ok (key, VMissing), s)
    end.
  Proof.
    intros Hl Hn. unfold map_extractor. rewrite (bind_ok _ _ _ _ _ (read_dict_at lc kvs s Hl)). cbn [snd].
    assert (E : dict_lookup ct kvs key s =
                (Ok (option_map snd (find (fun p => val_eqb FUEL ct (heap s) (fst p) key) kvs)), s)).
    { unfold dict_lookup. rewrite hashable_nonref, Hn. reflexivity. }
    rewrite (bind_ok _ _ _ _ _ E).
    destruct (find (fun p => val_eqb FUEL ct (heap s) (fst p) key) kvs); [reflexivity|destruct req; reflexivity].
  Qed.

  (* MappingMutator._inserter *)
  Lemma map_inserter_run sp tk tv lc kvs key item s :
    a_ty sp = TDict tk tv -> ty_depth tk < FUEL -> ty_depth tv < FUEL ->
    nth_error (heap s) lc = Some (ODict kvs) -> nonref key = true -> nonref item = true ->
    map_inserter ct sp (VRef lc) key item s =
    if conforms ct tk (abs0 key) && conforms ct tv (abs0 item)
    then (Ok tt, upd s lc (ODict (dassign (heap s) kvs key item)))
    else (Err ValueErr, s).
  Proof.
    intros Hty Hdk Hdv Hl Hk Hi. unfold map_inserter.
    rewrite (bind_ok (check_typeM ct key (key_type (a_ty sp))) _ s
                     (check_type FUEL ct (heap s) key (key_type (a_ty sp))) s eq_refl).
    rewrite Hty. cbn [key_type item_type]. rewrite check_type_nonref by auto.
    destruct (conforms ct tk (abs0 key)); [|reflexivity]. cbn [negb andb].
    rewrite (bind_ok (check_typeM ct item tv) _ s (check_type FUEL ct (heap s) item tv) s eq_refl).
    rewrite check_type_nonref by auto.
    destruct (conforms ct tv (abs0 item)); [|reflexivity]. cbn [negb].
    rewrite (bind_ok _ _ _ _ _ (read_dict_at lc kvs s Hl)). cbn [fst snd].
    assert (E : dict_assign ct kvs key item s = (Ok (dassign (heap s) kvs key item), s)).
    { unfold dict_assign. rewrite hashable_nonref, Hk. reflexivity. }
    rewrite (bind_ok _ _ _ _ _ E). apply write_run. apply nth_error_Some. congruence.
  Qed.
End DictOps.

(* ------------------------------------------------------------------ *)
(** * The element pipeline on a new proper scalar (any collection family) *)

Section NewScalar.
  Variable ct : ctable.
  Variable h0 : list obj.
  Variable sp : attr_spec.
  Hypothesis Hprep : a_prepare_item sp = None.
  Hypothesis Hstrict : spec_of_ty_strict (item_type (a_ty sp)) = None.

  Lemma mutate_value_new_scalar rec inst old new replace s :
    vscalar new = true ->
    mutate_value ct rec (mkmv old new replace (PItem sp inst) None (Some (ctor_of_ty (item_type (a_ty sp))))
                              (Some (item_type (a_ty sp))) None [] false) s = (Ok new, s).
  Proof.
    intro Hv.
    assert (E : prepare_item ct rec sp inst new s = (Ok new, s)).
    { unfold prepare_item. rewrite Hprep, bind_ret, Hstrict. reflexivity. }
    destruct new; cbn [vscalar] in Hv; try discriminate;
      unfold mutate_value; cbn [mv_new]; unfold mutate_value_body;
      cbn [mv_new mv_old mv_replace mv_prepare is_missing negb andb orb];
      rewrite (bind_ok _ _ _ _ _ E); reflexivity.
  Qed.

  Lemma elem_pipeline_new_scalar_gen old v (replace : bool) :
    vscalar v = true ->
    elem_pipeline ct h0 sp old (abs0 v) replace None None [] =
    if conforms ct (item_type (a_ty sp)) (abs0 v) then SOk (abs0 v) else SErr ValueErr.
  Proof.
    intros Hv. unfold elem_pipeline.
    assert (E : spec_value ct h0 (sexec ct h0 SFUEL) old (abs0 v) replace (SPItem sp) None
                           (Some (ctor_for (item_type (a_ty sp)))) (Some (item_type (a_ty sp))) None [] = SOk (abs0 v)).
    { destruct v; cbn [vscalar] in Hv; try discriminate; unfold spec_value; cbn [abs0 a_not_given negb run_prep];
        unfold prepare_elem; rewrite Hprep; cbn [sbind]; rewrite Hstrict; reflexivity. }
    rewrite E. reflexivity.
  Qed.
End NewScalar.

(* ------------------------------------------------------------------ *)
(** * with_<item>(key, value) / without_<item>(key), in place, on a dict attribute of scalars *)

Section DictAttr.
  Variable ct : ctable.
  Variable h0 : list obj.
  Variables (l : loc) (a : aid) (c : cid) (d : list (aid * val)) (k : cls) (sp : attr_spec).
  Variable s : state.
  Variables (lc : loc) (kvs : list (val * val)) (tk tv : ty).
  Hypothesis Hl : nth_error (heap s) l = Some (OInst c d).
  Hypothesis Hc : lookup_cls ct c = Some k.
  Hypothesis Ha : lookup_attr k a = Some sp.
  Hypothesis Hd : NoDup (map fst d).
  Hypothesis Hfz : c_frozen k = false.
  Hypothesis Hni : no_dep k a.
  Hypothesis Hty : a_ty sp = TDict tk tv.
  Hypothesis Hdk : ty_depth tk < FUEL.
  Hypothesis Hdv : ty_depth tv < FUEL.
  Hypothesis Hfld : assoc a d = Some (VRef lc).
  Hypothesis Hlc : nth_error (heap s) lc = Some (ODict kvs).
  Hypothesis Hkvs : forallb pair_nonref kvs = true.
  Hypothesis Hflat : flat_fields (heap s) d.
  Hypothesis Hshare : forall b w, In (b, w) d -> b <> a -> w <> VRef lc.

  Let flds := map (fun p => (fst p, abs 23 (heap s) (snd p))) (sorted_fields d).
  Let akvs := map absp kvs.

  Lemma di_coll : ty_is_collection (a_ty sp) = true.
  Proof. now rewrite Hty. Qed.

  Lemma di_acur : abs 23 (heap s) (VRef lc) = ADict akvs.
  Proof. exact (abs_dict_scalars (heap s) lc kvs 22 Hlc Hkvs). Qed.

  Lemma di_item : item_type (a_ty sp) = tv.
  Proof. now rewrite Hty. Qed.

  Lemma di_after kvs' :
    forallb pair_nonref kvs' = true ->
    absv (heap (upd s lc (ODict kvs'))) (VRef l) = AInst c (fset a (ADict (map absp kvs')) flds).
  Proof.
    intro Hk'.
    rewrite (fr_after_edit l a c d s lc (ODict kvs) Hl Hd Hfld Hlc Hkvs Hflat Hshare s _ eq_refl).
    f_equal. f_equal.
    exact (abs_dict_scalars (set_nth lc (ODict kvs') (heap s)) lc kvs' 22
             (nth_error_set_nth_same lc _ (heap s) (fr_lc_len s lc _ Hlc)) Hk').
  Qed.

  Lemma di_store_back kvs' :
    mutate_attr ct (exec ct XFUEL) l a (VRef lc) true false false false (upd s lc (ODict kvs')) =
    (Ok (VRef l), upd s lc (ODict kvs')).
  Proof.
    apply (fr_store_back ct l a c d k lc Hc Hd Hfz Hni Hfld).
    apply (fr_recv_after l a c d s lc (ODict kvs) Hl Hfld Hlc Hkvs Hshare s _ eq_refl).
  Qed.

  (* ---------------- with_<item>(key, value) ---------------- *)

  Theorem with_item_dict_inplace_refines key v :
    a_prepare_item sp = None -> spec_of_ty_strict tv = None ->
    nonref key = true -> vscalar v = true ->
    let h := mkh [key; v] true true VMissing false None None [] None in
    let ah := mkah [abs0 key; abs0 v] true true AMissing false None None [] None in
    match run_helper ct l (HWithItem a) h s with
    | (Ok r, s') => r = VRef l /\
                    spec_helper ct h0 (absv (heap s) (VRef l)) (SWithItem a) ah = SOk (absv (heap s') (VRef l))
    | (Err e, s') => spec_helper ct h0 (absv (heap s) (VRef l)) (SWithItem a) ah = SErr e /\ heap s' = heap s
    end.
  Proof.
    intros Hprep Hstrict Hk Hv h ah.
    assert (Hstrict' : spec_of_ty_strict (item_type (a_ty sp)) = None) by (now rewrite di_item).
    assert (Hnv : nonref v = true) by (now apply vscalar_nonref).
    (* the specification *)
    assert (Hspec : spec_with_item ct h0 sp (abs 23 (heap s) (VRef lc)) ah =
              if conforms ct tk (abs0 key) && conforms ct tv (abs0 v)
              then SOk (ADict (dict_set ct akvs (abs0 key) (abs0 v))) else SErr ValueErr).
    { rewrite di_acur. unfold spec_with_item, ah. rewrite Hty. cbn [ah_pos apos1 nth ah_kw].
      rewrite (a_hashable_abs0 key Hk). cbn [negb].
      rewrite (elem_pipeline_new_scalar_gen ct h0 sp Hprep Hstrict' _ v true Hv). rewrite di_item.
      destruct (conforms ct tv (abs0 v)); cbn [sbind]; [|now rewrite andb_false_r].
      rewrite andb_true_r. destruct (conforms ct tk (abs0 key)); reflexivity. }
    rewrite (fr_spec_closed ct h0 l a c d k sp s lc (ODict kvs) Hl Hc Ha Hd Hfz Hni di_coll Hfld Hlc
               (SWithItem a) (spec_with_item ct h0) ah _ eq_refl eq_refl Hspec). clear Hspec.
    (* the model *)
    assert (Hmc : mutate_collection ct (exec ct XFUEL) FMap sp l (VRef lc)
                    (mkio key v None None [] true false TriTrue false) s =
                  if conforms ct tk (abs0 key) && conforms ct tv (abs0 v)
                  then (Ok (VRef lc), upd s lc (ODict (dassign ct (heap s) kvs key v)))
                  else (Err ValueErr, s)).
    { unfold mutate_collection.
      cbn [is_missing io_voi io_require io_by_index io_new io_replace io_attrs io_transform io_attr_transforms io_insert].
      rewrite bind_ret.
      assert (Hex : exists old, map_extractor ct (VRef lc) key false s = (Ok (key, old), s)).
      { rewrite (map_extractor_run ct lc kvs key false s Hlc Hk).
        destruct (find _ kvs) as [p|]; eexists; reflexivity. }
      destruct Hex as [old Hex]. rewrite (bind_ok _ _ _ _ _ Hex). cbn [fst snd].
      assert (Hmv : exec ct XFUEL (KMutateValue (mkmv old v true (PItem sp l) None
                       (Some (ctor_of_ty (item_type (a_ty sp)))) (Some (item_type (a_ty sp))) None [] false)) s = (Ok v, s)).
      { rewrite XFUEL_S, exec_S. cbn [body]. now apply mutate_value_new_scalar. }
      rewrite (bind_ok _ _ _ _ _ Hmv). unfold bind.
      rewrite (map_inserter_run ct sp tk tv lc kvs key v s Hty Hdk Hdv Hlc Hk Hnv).
      destruct (conforms ct tk (abs0 key) && conforms ct tv (abs0 v)); reflexivity. }
    unfold run_helper, h. cbn [h_if negb h_inplace].
    rewrite (bind_ok _ _ _ _ _ (fr_spec_for ct l a c d k sp s Hl Hc Ha)). cbn [snd].
    rewrite (bind_ok _ _ _ _ _ (fr_mk_mutator ct l a c d k sp s lc Hl Hc Ha Hfz Hfld)).
    rewrite Hty. cbn [family_of h_pos h_kw].
    destruct (conforms ct tk (abs0 key) && conforms ct tv (abs0 v)).
    - rewrite (bind_ok _ _ _ _ _ Hmc). rewrite di_store_back. split; auto. cbn [sbind].
      rewrite di_after by (now apply dassign_scalar). unfold akvs. now rewrite dassign_abs.
    - rewrite (bind_err _ _ _ _ _ Hmc). now split.
  Qed.

  (* ---------------- without_<item>(key) ---------------- *)

  Theorem without_item_dict_inplace_refines key :
    nonref key = true ->
    let h := mkh [key] true true VMissing false None None [] None in
    let ah := mkah [abs0 key] true true AMissing false None None [] None in
    match run_helper ct l (HWithoutItem a) h s with
    | (Ok r, s') => r = VRef l /\
                    spec_helper ct h0 (absv (heap s) (VRef l)) (SWithoutItem a) ah = SOk (absv (heap s') (VRef l))
    | (Err e, s') => spec_helper ct h0 (absv (heap s) (VRef l)) (SWithoutItem a) ah = SErr e /\ heap s' = heap s
    end.
  Proof.
    intros Hk h ah.
    set (fnd := find (fun p => val_eqb FUEL ct (heap s) (fst p) key) kvs).
    assert (Hspec : spec_without_item ct sp (abs 23 (heap s) (VRef lc)) ah =
              match fnd with
              | Some _ => SOk (ADict (dict_del ct akvs (abs0 key)))
              | None => SErr KeyErr end).
    { rewrite di_acur. unfold spec_without_item, ah. rewrite Hty. cbn [ah_pos apos0 nth].
      rewrite (a_hashable_abs0 key Hk). cbn [negb].
      unfold akvs. rewrite (dict_get_abs ct (heap s) kvs key Hkvs Hk). fold fnd.
      destruct fnd; reflexivity. }
    rewrite (fr_spec_closed ct h0 l a c d k sp s lc (ODict kvs) Hl Hc Ha Hd Hfz Hni di_coll Hfld Hlc
               (SWithoutItem a) (spec_without_item ct) ah _ eq_refl eq_refl Hspec). clear Hspec.
    unfold run_helper, h. cbn [h_if negb h_inplace pos0 h_pos nth].
    rewrite (bind_ok _ _ _ _ _ (fr_spec_for ct l a c d k sp s Hl Hc Ha)). cbn [snd].
    rewrite (bind_ok _ _ _ _ _ (fr_mk_mutator ct l a c d k sp s lc Hl Hc Ha Hfz Hfld)).
    cbn [is_missing]. rewrite bind_ret. rewrite Hty. cbn [family_of].
    rewrite bind_assoc.
    pose proof (map_extractor_run ct lc kvs key true s Hlc Hk) as E. fold fnd in E.
    destruct fnd as [p|]; [|rewrite (bind_err _ _ _ _ _ E); now split].
    rewrite (bind_ok _ _ _ _ _ E). cbn [fst].
    rewrite bind_assoc. rewrite (bind_ok _ _ _ _ _ (read_dict_at lc kvs s Hlc)). cbn [fst snd].
    rewrite bind_assoc. rewrite (bind_ok get_heap _ s (heap s) s eq_refl).
    rewrite (bind_ok _ _ _ _ _ (write_run lc _ s (fr_lc_len s lc _ Hlc))).
    rewrite di_store_back. split; auto. cbn [sbind].
    rewrite di_after by (now apply forallb_filter_true). unfold akvs.
    now rewrite (dict_del_abs ct (heap s) kvs key Hkvs Hk).
  Qed.
End DictAttr.
