(* In-place element helpers, in-place update_/transform_/reset_<attr> on an
   instance whose attribute has no dependants: an exception leaves every
   pre-existing cell as it was.

   Shape of the argument.  Everything before the first write to a pre-existing
   cell only allocates (framed).  The write to the collection (the inserter, or
   the removal of without_<item>) is the last thing that can fail in its phase
   (acw: fails with the state untouched, or succeeds having replaced one
   collection cell).  After it, mutate_attr(inplace) on the receiver cannot
   fail: its frozen guard was already passed by the mutator's constructor, it
   does not type-check, its single write is to a live instance cell, and
   nothing is invalidated. *)
From Coq Require Import List ZArith Bool Arith Lia.
From SC Require Import Base.Res Base.PyList Inst.Heap Inst.ClassTable Inst.Model Inst.Framed
  Inst.FrameProofs Inst.FrozenProofs Inst.AtomicProofs.
Import ListNotations.
Open Scope nat_scope.

Definition not_inst (o : obj) : Prop := match o with OInst _ _ => False | _ => True end.

(* s' is s, or s with one collection cell replaced by another collection *)
Definition coll_write (s s' : state) : Prop :=
  s' = s \/ exists lc o o', nth_error (heap s) lc = Some o /\ not_inst o /\ not_inst o' /\
            s' = mkst (set_nth lc o' (heap s)) (ncalls s) (fail_at s).

Lemma coll_write_keeps_inst s s' l c d :
  coll_write s s' -> nth_error (heap s) l = Some (OInst c d) -> nth_error (heap s') l = Some (OInst c d).
Proof.
  intros [->|(lc & o & o' & H1 & H2 & H3 & ->)] H; auto. simpl.
  destruct (Nat.eq_dec lc l) as [->|N].
  - rewrite H in H1. inversion H1; subst. contradiction.
  - rewrite set_nth_other; auto.
Qed.

Lemma coll_write_length s s' : coll_write s s' -> length (heap s') = length (heap s).
Proof.
  intros [->|(lc & o & o' & _ & _ & _ & ->)]; auto. simpl. apply set_nth_length.
Qed.

(* fails with the state untouched, or succeeds with at most one collection write *)
Definition acw {A} (m : M A) (s : state) : Prop :=
  match fst (m s) with Err _ => snd (m s) = s | Ok _ => coll_write s (snd (m s)) end.

Lemma acw_reader {A} (m : M A) s : reader m -> acw m s.
Proof. intro H. unfold acw. rewrite (H s). destruct (fst (m s)); [left|]; reflexivity. Qed.

Lemma acw_bind_reader {A B} (m : M A) (k : A -> M B) s :
  reader m -> (forall a, fst (m s) = Ok a -> acw (k a) s) -> acw (bind m k) s.
Proof.
  intros Hm Hk. unfold acw, bind in *. specialize (Hm s).
  destruct (m s) as [[a|e] s1]; simpl in *; subst s1.
  - apply (Hk a eq_refl).
  - reflexivity.
Qed.

Lemma write_ok l o s : l < length (heap s) ->
  write l o s = (Ok tt, mkst (set_nth l o (heap s)) (ncalls s) (fail_at s)).
Proof. intro H. unfold write. rewrite (proj2 (Nat.ltb_lt _ _) H). reflexivity. Qed.

Lemma acw_write lc o' s o :
  nth_error (heap s) lc = Some o -> not_inst o -> not_inst o' -> acw (write lc o') s.
Proof.
  intros H1 H2 H3. unfold acw. rewrite write_ok by (apply nth_error_Some; congruence).
  simpl. right. exists lc, o, o'. auto.
Qed.

Lemma acw_fail {A} e s : acw (@fail A e) s.
Proof. apply acw_reader, reader_fail. Qed.
Lemma acw_ret {A} (a : A) s : acw (ret a) s.
Proof. apply acw_reader, reader_ret. Qed.

(* ---------- readers of the collection layer ---------- *)
Lemma reader_loc_of_t v : reader (loc_of_t v).
Proof. destruct v; simpl; auto using reader_ret, reader_fail. Qed.
Lemma reader_read_list v : reader (read_list v).
Proof.
  unfold read_list. apply reader_bind; [apply reader_loc_of_t|]. intro l.
  apply reader_bind; [apply reader_read|]. intros []; auto using reader_ret, reader_fail.
Qed.
Lemma reader_read_dict v : reader (read_dict v).
Proof.
  unfold read_dict. apply reader_bind; [apply reader_loc_of_t|]. intro l.
  apply reader_bind; [apply reader_read|]. intros []; auto using reader_ret, reader_fail.
Qed.
Lemma reader_read_set v : reader (read_set v).
Proof.
  unfold read_set. apply reader_bind; [apply reader_loc_of_t|]. intro l.
  apply reader_bind; [apply reader_read|]. intros []; auto using reader_ret, reader_fail.
Qed.

Lemma read_list_ok v s p : fst (read_list v s) = Ok p -> nth_error (heap s) (fst p) = Some (OList (snd p)).
Proof.
  unfold read_list, loc_of_t, bind, read. destruct v; simpl; try discriminate.
  destruct (nth_error (heap s) l) as [[]|] eqn:E; simpl; intro H; inversion H; subst; simpl; auto.
Qed.
Lemma read_dict_ok v s p : fst (read_dict v s) = Ok p -> nth_error (heap s) (fst p) = Some (ODict (snd p)).
Proof.
  unfold read_dict, loc_of_t, bind, read. destruct v; simpl; try discriminate.
  destruct (nth_error (heap s) l) as [[]|] eqn:E; simpl; intro H; inversion H; subst; simpl; auto.
Qed.
Lemma read_set_ok v s p : fst (read_set v s) = Ok p -> nth_error (heap s) (fst p) = Some (OSet (snd p)).
Proof.
  unfold read_set, loc_of_t, bind, read. destruct v; simpl; try discriminate.
  destruct (nth_error (heap s) l) as [[]|] eqn:E; simpl; intro H; inversion H; subst; simpl; auto.
Qed.

Local Opaque check_type val_eqb FUEL.

Section Readers.
  Variable ct : ctable.

  Lemma reader_find_eq_index xs v : reader (find_eq_index ct xs v).
  Proof. unfold find_eq_index. apply reader_bind; [apply reader_get_heap|]. intros; apply reader_ret. Qed.
  Lemma reader_dict_lookup kvs k : reader (dict_lookup ct kvs k).
  Proof.
    unfold dict_lookup. destruct (negb (hashable k)); [apply reader_fail|].
    apply reader_bind; [apply reader_get_heap|]. intros; apply reader_ret.
  Qed.
  Lemma reader_dict_assign kvs k v : reader (dict_assign ct kvs k v).
  Proof.
    unfold dict_assign. destruct (negb (hashable k)); [apply reader_fail|].
    apply reader_bind; [apply reader_get_heap|]. intros; apply reader_ret.
  Qed.
  Lemma reader_set_mem xs v : reader (set_mem ct xs v).
  Proof.
    unfold set_mem. destruct (negb (hashable v)); [apply reader_fail|].
    apply reader_bind; [apply reader_get_heap|]. intros; apply reader_ret.
  Qed.
  Lemma reader_set_discard xs v : reader (set_discard ct xs v).
  Proof.
    unfold set_discard. destruct (negb (hashable v)); [apply reader_fail|].
    apply reader_bind; [apply reader_get_heap|]. intros; apply reader_ret.
  Qed.

  Lemma reader_seq_extractor sp coll voi r bi : reader (seq_extractor ct sp coll voi r bi).
  Proof.
    unfold seq_extractor. destruct (is_missing coll || is_missing voi); [apply reader_ret|].
    apply reader_bind.
    { destruct bi; try apply reader_ret. apply reader_bind; [apply reader_check_typeM|]. intros; apply reader_ret. }
    intro b. apply reader_bind; [apply reader_read_list|]. intro p. destruct b.
    - destruct voi; try apply reader_fail; cbv zeta;
        (destruct (norm_index _ _); [destruct (nth_error _ _)|]; try apply reader_ret;
         destruct r; auto using reader_ret, reader_fail).
    - apply reader_bind; [apply reader_find_eq_index|]. intros [n|]; [apply reader_ret|].
      destruct r; auto using reader_ret, reader_fail.
  Qed.
  Lemma reader_map_extractor coll key r : reader (map_extractor ct coll key r).
  Proof.
    unfold map_extractor. apply reader_bind; [apply reader_read_dict|]. intro p.
    apply reader_bind; [apply reader_dict_lookup|]. intros [v|]; [apply reader_ret|].
    destruct r; auto using reader_ret, reader_fail.
  Qed.
  Lemma reader_set_extractor coll voi r : reader (set_extractor ct coll voi r).
  Proof.
    unfold set_extractor. apply reader_bind; [apply reader_read_set|]. intro p.
    apply reader_bind; [apply reader_set_mem|]. intro b0.
    destruct (negb b0); [destruct r|]; auto using reader_ret, reader_fail.
  Qed.

  (* ---------- the inserters: at most one collection write, last ---------- *)
  Lemma acw_seq_inserter sp coll index item ins s : acw (seq_inserter ct sp coll index item ins) s.
  Proof.
    unfold seq_inserter. apply acw_bind_reader; [apply reader_check_typeM|]. intros ok _.
    destruct (negb ok); [apply acw_fail|].
    apply acw_bind_reader; [apply reader_read_list|]. intros p Hp. apply read_list_ok in Hp.
    destruct index; try apply acw_fail; cbv zeta.
    - eapply acw_write; eauto; exact I.
    - destruct ins; [eapply acw_write; eauto; exact I|].
      destruct (norm_index _ _); [eapply acw_write; eauto; exact I|apply acw_fail].
    - destruct ins; [eapply acw_write; eauto; exact I|].
      destruct (norm_index _ _); [eapply acw_write; eauto; exact I|apply acw_fail].
  Qed.

  Lemma acw_map_inserter sp coll key item s : acw (map_inserter ct sp coll key item) s.
  Proof.
    unfold map_inserter. apply acw_bind_reader; [apply reader_check_typeM|]. intros okk _.
    destruct (negb okk); [apply acw_fail|].
    apply acw_bind_reader; [apply reader_check_typeM|]. intros ok _.
    destruct (negb ok); [apply acw_fail|].
    apply acw_bind_reader; [apply reader_read_dict|]. intros p Hp. apply read_dict_ok in Hp.
    apply acw_bind_reader; [apply reader_dict_assign|]. intros kvs _.
    eapply acw_write; eauto; exact I.
  Qed.

  Lemma acw_set_inserter sp coll index item s : acw (set_inserter ct sp coll index item) s.
  Proof.
    unfold set_inserter. apply acw_bind_reader; [apply reader_check_typeM|]. intros ok _.
    destruct (negb ok); [apply acw_fail|].
    apply acw_bind_reader; [apply reader_read_set|]. intros p Hp. apply read_set_ok in Hp.
    apply acw_bind_reader.
    { destruct (negb (is_missing index)); [apply reader_set_discard|apply reader_ret]. }
    intros xs1 _. apply acw_bind_reader; [apply reader_set_mem|]. intros b0 _.
    eapply acw_write; eauto; exact I.
  Qed.
End Readers.

(* ------------------------------------------------------------------ *)
(* Outcome of "framed prefix, then at most one collection write" *)
Definition cw_result {A} (b : nat) (s : state) (r : res A * state) : Prop :=
  match fst r with
  | Err _ => frame b s (snd r)
  | Ok _ => exists s1, frame b s s1 /\ coll_write s1 (snd r)
  end.

Lemma cw_result_bind_framed {A B} b (m : M A) (k : A -> M B) Q s :
  framed b m Q -> b <= length (heap s) ->
  (forall a s1, Q a -> b <= length (heap s1) -> cw_result b s1 (k a s1)) ->
  cw_result b s (bind m k s).
Proof.
  intros Hm Hb Hk. unfold bind. destruct (Hm s Hb) as [F Qa].
  destruct (m s) as [[a|e] s1]; simpl in *; [|exact F].
  assert (Hb1 : b <= length (heap s1)) by (destruct F; lia).
  specialize (Hk a s1 Qa Hb1). unfold cw_result in *.
  destruct (fst (k a s1)).
  - destruct Hk as (s2 & F2 & CW). exists s2. split; [eapply frame_trans; eauto|exact CW].
  - eapply frame_trans; eauto.
Qed.

Lemma cw_result_acw {A} b (m : M A) s : acw m s -> cw_result b s (m s).
Proof.
  unfold acw, cw_result. destruct (fst (m s)).
  - intro H. exists s. split; [apply frame_refl|exact H].
  - intros ->. apply frame_refl.
Qed.

Lemma acw_then_ret {A B} (m : M A) (x : B) s : acw m s -> acw (m ;;; ret x) s.
Proof. unfold acw, bind. destruct (m s) as [[a|e] s1]; simpl; auto. Qed.

Lemma cw_result_fail {A} b e s : cw_result b s (@fail A e s).
Proof. simpl. apply frame_refl. Qed.

(* after such a phase, a continuation that cannot fail while cell l holds the
   instance: the whole thing leaves every pre-existing cell unchanged on error *)
Lemma cw_then_ok {A B} b l c d (m : M A) (k : A -> M B) s :
  l < b -> nth_error (heap s) l = Some (OInst c d) ->
  cw_result b s (m s) ->
  (forall a s2, nth_error (heap s2) l = Some (OInst c d) -> exists r s3, k a s2 = (Ok r, s3)) ->
  err_frame b (bind m k) s.
Proof.
  intros Hl Hn Hm Hk e. unfold bind. unfold cw_result in Hm.
  destruct (m s) as [[a|e1] s2]; simpl in *; [|intros _; exact Hm].
  destruct Hm as (s1 & F & CW).
  assert (Hn2 : nth_error (heap s2) l = Some (OInst c d)).
  { eapply coll_write_keeps_inst; eauto. destruct F as [_ F]. rewrite (F l Hl). exact Hn. }
  destruct (Hk a s2 Hn2) as (r & s3 & E). rewrite E. simpl. discriminate.
Qed.

Section ElemAtomic.
  Variable ct : ctable.
  Hypothesis no_dnc : forall c k, lookup_cls ct c = Some k -> c_dnc k = false.

  Lemma write_tail_ok rec l a v (skip : bool) c k s d :
    lookup_cls ct c = Some k -> no_dependants k a ->
    nth_error (heap s) l = Some (OInst c d) ->
    exists s1, (raw_setattr l a v ;;; (if skip then ret tt else invalidate_attrs ct rec l a)) s = (Ok tt, s1).
  Proof.
    intros Hk Hd Hn. assert (Hlt : l < length (heap s)) by (apply nth_error_Some; congruence).
    unfold raw_setattr, bind. rewrite (read_inst_at l s c d Hn). cbn [fst snd].
    rewrite write_ok by exact Hlt.
    destruct skip; [eexists; reflexivity|].
    erewrite invalidate_noop; [eexists; reflexivity| |exact Hk|exact Hd].
    simpl. now apply nth_error_set_nth_same.
  Qed.

  (* mutate_attr(inplace, no type check) cannot fail once the frozen guard passes *)
  Lemma mutate_attr_inplace_ok rec l a v skip s c d k :
    nth_error (heap s) l = Some (OInst c d) -> lookup_cls ct c = Some k ->
    no_dependants k a -> c_frozen k && negb (initializing d) = false ->
    exists r s1, mutate_attr ct rec l a v true false false skip s = (Ok r, s1).
  Proof.
    intros Hn Hk Hd Hg. unfold mutate_attr.
    destruct (is_sentinel v); [eexists; eexists; reflexivity|].
    erewrite bind_ok; [|apply read_inst_at; eauto]. cbn [fst snd].
    erewrite bind_ok; [|apply cls_of_at; eauto].
    replace (negb (false || initializing d) && true && c_frozen k) with false
      by (destruct (initializing d), (c_frozen k); simpl in *; congruence).
    erewrite bind_ok; [|reflexivity].
    erewrite bind_ok; [|destruct (lookup_attr k a); reflexivity].
    cbv zeta. rewrite (no_dnc c k Hk). cbn [orb negb andb].
    erewrite bind_ok; [|reflexivity].
    erewrite bind_ok; [|reflexivity].
    destruct (write_tail_ok rec l a v skip c k s d Hk Hd Hn) as [s1 E].
    eexists. eexists. erewrite bind_ok; [reflexivity|].
    rewrite (thawed_nothaw_eq ct l _ s c d k Hn Hk). exact E.
  Qed.

  Variable b : nat.
  Variable rec : call -> M val.
  Hypothesis Hrec : forall q, call_ok b q -> framed b (rec q) (post b q).

  (* _mutate_collection on any collection value: framed up to the inserter *)
  Lemma mutate_collection_cw fam sp inst coll io s :
    b <= length (heap s) -> cw_result b s (mutate_collection ct rec fam sp inst coll io s).
  Proof.
    intro Hb. unfold mutate_collection.
    eapply cw_result_bind_framed with (Q := fun _ => True); [|exact Hb|].
    { destruct (is_missing coll).
      - eapply framed_weaken; [apply create_collection_framed; exact Hrec|auto].
      - now apply framed_ret. }
    intros coll1 s1 _ Hb1.
    eapply cw_result_bind_framed with (Q := fun _ => True); [|exact Hb1|].
    { destruct fam; [apply seq_extractor_framed|apply map_extractor_framed|apply set_extractor_framed]. }
    intros ex s2 _ Hb2. cbv zeta.
    eapply cw_result_bind_framed with (Q := fun _ => True); [|exact Hb2|].
    { apply (rec_framed b rec Hrec). reflexivity. }
    intros new_item s3 _ Hb3.
    apply cw_result_acw, acw_then_ret.
    destruct fam; [apply acw_seq_inserter|apply acw_map_inserter|apply acw_set_inserter].
  Qed.
End ElemAtomic.

(* ------------------------------------------------------------------ *)
Lemma lookup_attr_name k a sp : lookup_attr k a = Some sp -> a_name sp = a.
Proof. unfold lookup_attr. intro H. apply find_some in H. destruct H as [_ H]. now apply Nat.eqb_eq. Qed.

Lemma err_frame_then_ret {A B} b (m : M A) (x : B) s : err_frame b m s -> err_frame b (m ;;; ret x) s.
Proof.
  unfold err_frame, bind. intros H e. destruct (m s) as [[a|e1] s1]; simpl in *; [discriminate|].
  intros _. apply (H e1 eq_refl).
Qed.

Lemma err_frame_bind_framed {A B} b l c d (m : M A) (k : A -> M B) Q s :
  l < b -> b <= length (heap s) -> nth_error (heap s) l = Some (OInst c d) ->
  framed b m Q ->
  (forall a s1, b <= length (heap s1) -> nth_error (heap s1) l = Some (OInst c d) -> err_frame b (k a) s1) ->
  err_frame b (bind m k) s.
Proof.
  intros Hl Hb Hn Hm Hk e. unfold bind. destruct (Hm s Hb) as [F _].
  destruct (m s) as [[a|e1] s1]; simpl in *; [|intros _; exact F].
  intro E. eapply frame_trans; [exact F|]. apply (Hk a s1) with (e := e); auto.
  - destruct F; lia.
  - destruct F as [_ F]. rewrite (F l Hl). exact Hn.
Qed.

Section ElemOps.
  Variable ct : ctable.
  Hypothesis no_dnc : forall c k, lookup_cls ct c = Some k -> c_dnc k = false.

  Lemma spec_for_at l a s c d k :
    nth_error (heap s) l = Some (OInst c d) -> lookup_cls ct c = Some k ->
    spec_for ct l a s = match lookup_attr k a with
                        | Some sp => (Ok (k, sp), s) | None => (Err AttrErr, s) end.
  Proof.
    intros Hn Hk. unfold spec_for. erewrite bind_ok; [|apply read_inst_at; eauto]. cbn [fst].
    erewrite bind_ok; [|apply cls_of_at; eauto]. destruct (lookup_attr k a); reflexivity.
  Qed.

  Lemma getattr_default_at l a s c d k :
    nth_error (heap s) l = Some (OInst c d) -> lookup_cls ct c = Some k ->
    exists v, getattr_default ct l a s = (Ok v, s).
  Proof.
    intros Hn Hk. unfold getattr_default. erewrite bind_ok; [|apply read_inst_at; eauto]. cbn [fst snd].
    destruct (assoc a d); [eexists; reflexivity|].
    erewrite bind_ok; [|apply cls_of_at; eauto]. eexists; reflexivity.
  Qed.

  (* CollectionAttrMutator(inplace=True): the frozen guard, then the live collection *)
  Lemma mk_mutator_inplace_at sp l s c d k :
    nth_error (heap s) l = Some (OInst c d) -> lookup_cls ct c = Some k ->
    mk_mutator ct sp l true s = (Err FrozenErr, s) \/
    (c_frozen k && negb (initializing d) = false /\ exists v, mk_mutator ct sp l true s = (Ok v, s)).
  Proof.
    intros Hn Hk. unfold mk_mutator. erewrite bind_ok; [|apply read_inst_at; eauto]. cbn [fst snd].
    erewrite bind_ok; [|apply cls_of_at; eauto]. cbn [andb].
    destruct (c_frozen k && negb (initializing d)) eqn:G.
    - left. erewrite bind_err; reflexivity.
    - right. split; auto. erewrite bind_ok; [|reflexivity].
      destruct (getattr_default_at l (a_name sp) s c d k Hn Hk) as [v E].
      erewrite bind_ok; [|exact E]. rewrite orb_true_r. eexists; reflexivity.
  Qed.

  Variable b : nat.
  Variable rec : call -> M val.
  Hypothesis Hrec : forall q, call_ok b q -> framed b (rec q) (post b q).

  (* with_/update_/transform_<item>(_inplace=True) *)
  Lemma elem_tail_err_frame l a sp s c d k (mc : val -> M val) :
    l < b -> b <= length (heap s) ->
    nth_error (heap s) l = Some (OInst c d) -> lookup_cls ct c = Some k -> no_dependants k a ->
    (forall cv s1, b <= length (heap s1) -> cw_result b s1 (mc cv s1)) ->
    err_frame b (c0 <- mk_mutator ct sp l true ;; c' <- mc c0 ;;
                 mutate_attr ct rec l a c' true false false false) s.
  Proof.
    intros Hl Hb Hn Hk Hd Hmc.
    destruct (mk_mutator_inplace_at sp l s c d k Hn Hk) as [E|[G [v E]]]; intro e.
    - erewrite bind_err; [|exact E]. simpl. intros _. apply frame_refl.
    - erewrite bind_ok; [|exact E]. revert e. eapply cw_then_ok; eauto.
      intros c' s2 Hn2. eapply mutate_attr_inplace_ok; eauto.
  Qed.

  (* the removal performed by without_<item>: readers, then one collection write *)
  Lemma acw_remove_seq sp cv voi bi s :
    acw (ex <- seq_extractor ct sp cv voi true bi ;;
         match fst ex with
         | VNone => ret tt
         | VInt _ | VBool _ =>
             let i := match fst ex with VInt z => z | VBool true => 1%Z | _ => 0%Z end in
             p <- read_list cv ;;
             match norm_index (zlen (snd p)) i with
             | Some n => write (fst p) (OList (remove_at n (snd p)))
             | None => fail IndexErr end
         | _ => fail TypeErr end) s.
  Proof.
    apply acw_bind_reader; [apply reader_seq_extractor|]. intros ex _.
    destruct (fst ex); try apply acw_fail; try apply acw_ret; cbv zeta;
      (apply acw_bind_reader; [apply reader_read_list|]; intros p Hp; apply read_list_ok in Hp;
       destruct (norm_index _ _); [eapply acw_write; eauto; exact I|apply acw_fail]).
  Qed.

  Lemma acw_remove_map cv key s :
    acw (ex <- map_extractor ct cv key true ;;
         p <- read_dict cv ;;
         h' <- get_heap ;;
         write (fst p) (ODict (filter (fun q => negb (val_eqb FUEL ct h' (fst q) (fst ex))) (snd p)))) s.
  Proof.
    apply acw_bind_reader; [apply reader_map_extractor|]. intros ex _.
    apply acw_bind_reader; [apply reader_read_dict|]. intros p Hp. apply read_dict_ok in Hp.
    apply acw_bind_reader; [apply reader_get_heap|]. intros h' _.
    eapply acw_write; eauto; exact I.
  Qed.

  Lemma acw_remove_set cv voi s :
    acw (ex <- set_extractor ct cv voi true ;;
         p <- read_set cv ;;
         xs <- set_discard ct (snd p) (fst ex) ;;
         write (fst p) (OSet xs)) s.
  Proof.
    apply acw_bind_reader; [apply reader_set_extractor|]. intros ex _.
    apply acw_bind_reader; [apply reader_read_set|]. intros p Hp. apply read_set_ok in Hp.
    apply acw_bind_reader; [apply reader_set_discard|]. intros xs _.
    eapply acw_write; eauto; exact I.
  Qed.

  (* __delattr__ on an instance whose attribute has no dependants *)
  Lemma del_tail_atomic l a (skip : bool) c k s d :
    lookup_cls ct c = Some k -> no_dependants k a ->
    nth_error (heap s) l = Some (OInst c d) ->
    forall e,
      fst ((raw_delattr l a ;;; (if skip then ret tt else invalidate_attrs ct rec l a) ;;; ret VNone) s) = Err e ->
      snd ((raw_delattr l a ;;; (if skip then ret tt else invalidate_attrs ct rec l a) ;;; ret VNone) s) = s.
  Proof.
    intros Hk Hd Hn e. assert (Hlt : l < length (heap s)) by (apply nth_error_Some; congruence).
    unfold raw_delattr, bind. rewrite (read_inst_at l s c d Hn). cbn [fst snd].
    destruct (assoc a d); [|reflexivity].
    rewrite write_ok by exact Hlt. destruct skip; [simpl; discriminate|].
    erewrite invalidate_noop; [simpl; discriminate| |exact Hk|exact Hd].
    simpl. now apply nth_error_set_nth_same.
  Qed.

  Lemma delattr_err_frame l a skip s c d k :
    l < b -> b <= length (heap s) ->
    nth_error (heap s) l = Some (OInst c d) -> lookup_cls ct c = Some k ->
    no_dependants k a ->
    err_frame b (delattr_ ct rec l a false skip) s.
  Proof.
    intros Hl Hb Hn Hk Hd e. unfold delattr_.
    erewrite bind_ok; [|apply read_inst_at; eauto]. cbn [fst snd].
    erewrite bind_ok; [|apply cls_of_at; eauto].
    destruct (negb (false || initializing d) && c_frozen k).
    { erewrite bind_err; [|reflexivity]. simpl. intros _. apply frame_refl. }
    erewrite bind_ok; [|reflexivity]. cbv iota.
    destruct (lookup_attr k a) as [sp|].
    - revert e. eapply err_frame_bind_framed with (Q := fun _ => True); eauto.
      + eapply framed_weaken; [apply lookup_default_value_framed; auto|auto].
      + intros d0 s1 Hb1 Hn1. destruct (is_missing d0).
        * intros e E. rewrite (del_tail_atomic l a skip c k s1 d Hk Hd Hn1 e E). apply frame_refl.
        * eapply prefix_then_atomic with (Q := fun _ => True); eauto.
          -- apply prepare_attr_value_framed; auto.
          -- intros v s2 Hn2 e. eapply mutate_attr_inplace_atomic; eauto.
    - intro E. rewrite (del_tail_atomic l a skip c k s d Hk Hd Hn e E). apply frame_refl.
  Qed.
End ElemOps.

(* ------------------------------------------------------------------ *)
(* The public operations *)
Section ElemStep.
  Variable ct : ctable.
  Hypothesis no_dnc : forall c k, lookup_cls ct c = Some k -> c_dnc k = false.

  Notation rec := (exec ct XFUEL).

  Lemma spec_for_bind_err_frame {B} b l a (kf : cls * attr_spec -> M B) s c d k :
    nth_error (heap s) l = Some (OInst c d) -> lookup_cls ct c = Some k ->
    (forall sp, lookup_attr k a = Some sp -> err_frame b (kf (k, sp)) s) ->
    err_frame b (r <- spec_for ct l a ;; kf r) s.
  Proof.
    intros Hn Hk H e. pose proof (spec_for_at ct l a s c d k Hn Hk) as SF.
    destruct (lookup_attr k a) as [sp|].
    - erewrite bind_ok; [|exact SF]. apply H. reflexivity.
    - erewrite bind_err; [|exact SF]. simpl. intros _. apply frame_refl.
  Qed.

  Definition inplace_attr_helper (hp : helper) : option aid :=
    match hp with
    | HWith a | HUpdate a | HTransform a | HReset a
    | HWithItem a | HUpdateItem a | HTransformItem a | HWithoutItem a => Some a
    | _ => None
    end.

  Lemma run_helper_inplace_err_frame b l hp a h s c d k :
    inplace_attr_helper hp = Some a ->
    l < b -> b <= length (heap s) ->
    nth_error (heap s) l = Some (OInst c d) -> lookup_cls ct c = Some k ->
    no_dependants k a -> h_inplace h = true ->
    err_frame b (run_helper ct l hp h) s.
  Proof.
    intros Hhp Hl Hb Hn Hk Hd Hin.
    pose proof (exec_framed ct no_dnc b XFUEL) as Hrec.
    unfold run_helper. destruct (h_if h); cbn [negb]; [|intros e E; discriminate].
    destruct hp; simpl in Hhp; try discriminate; inversion Hhp; subst a0; clear Hhp; rewrite Hin.
    - (* with_<attr> *)
      eapply spec_for_bind_err_frame; eauto. intros sp Hsp. cbn [snd]. cbv zeta.
      apply (with_attr_inplace_err_frame ct no_dnc b l sp (pos0 h) (h_kw h) s c d k); auto.
      rewrite (lookup_attr_name _ _ _ Hsp). exact Hd.
    - (* update_<attr> *)
      assert (G : err_frame b
                (r <- spec_for ct l a ;; let sp := snd r in
                 old <- current_value ct l sp true (is_sentinel (pos0 h)) ;;
                 v <- rec (KMutateValue (mkmv old (pos0 h) false PNone (h_kw h)
                                              (Some (ctor_of_ty (a_ty sp))) (Some (a_ty sp)) None [] false)) ;;
                 with_attr ct l sp v None true) s).
      { eapply spec_for_bind_err_frame; eauto. intros sp Hsp. cbn [snd]. cbv zeta.
        eapply err_frame_bind_framed with (Q := fun _ => True); eauto.
        { apply current_value_framed; auto. }
        intros old s1 Hb1 Hn1.
        eapply err_frame_bind_framed with (Q := fun _ => True); eauto.
        { eapply framed_weaken; [apply Hrec; reflexivity|auto]. }
        intros v s2 Hb2 Hn2.
        apply (with_attr_inplace_err_frame ct no_dnc b l sp v None s2 c d k); auto.
        rewrite (lookup_attr_name _ _ _ Hsp). exact Hd. }
      destruct (pos0 h); try exact G. intros e E; discriminate.
    - (* transform_<attr> *)
      eapply spec_for_bind_err_frame; eauto. intros sp Hsp. cbn [snd]. cbv zeta.
      eapply err_frame_bind_framed with (Q := fun _ => True); eauto.
      { apply current_value_framed; auto. }
      intros old s1 Hb1 Hn1.
      eapply err_frame_bind_framed with (Q := fun _ => True); eauto.
      { eapply framed_weaken; [apply Hrec; reflexivity|auto]. }
      intros v s2 Hb2 Hn2.
      apply (with_attr_inplace_err_frame ct no_dnc b l sp v None s2 c d k); auto.
      rewrite (lookup_attr_name _ _ _ Hsp). exact Hd.
    - (* reset_<attr> *)
      intro e. erewrite bind_ok; [|reflexivity]. revert e.
      apply err_frame_then_ret. intro e.
      rewrite (thawed_nothaw_eq ct l _ s c d k Hn Hk).
      change (exec ct XFUEL (KDelAttr l a false false)) with (delattr_ ct (exec ct 39) l a false false).
      revert e. apply (delattr_err_frame ct no_dnc b (exec ct 39) (exec_framed ct no_dnc b 39) l a false s c d k); auto.
    - (* with_<item> *)
      eapply spec_for_bind_err_frame; eauto. intros sp Hsp. cbn [snd]. cbv zeta.
      eapply elem_tail_err_frame; eauto.
      intros cv s1 Hb1. destruct (family_of (a_ty sp)) as [[]|];
        try (apply mutate_collection_cw; auto); apply cw_result_fail.
    - (* update_<item> *)
      eapply spec_for_bind_err_frame; eauto. intros sp Hsp. cbn [snd]. cbv zeta.
      eapply elem_tail_err_frame; eauto.
      intros cv s1 Hb1. destruct (family_of (a_ty sp)) as [[]|];
        try (apply mutate_collection_cw; auto); apply cw_result_fail.
    - (* transform_<item> *)
      eapply spec_for_bind_err_frame; eauto. intros sp Hsp. cbn [snd]. cbv zeta.
      eapply elem_tail_err_frame; eauto.
      intros cv s1 Hb1. destruct (family_of (a_ty sp)) as [fam|];
        try (apply mutate_collection_cw; auto); apply cw_result_fail.
    - (* without_<item> *)
      eapply spec_for_bind_err_frame; eauto. intros sp Hsp. cbn [snd]. cbv zeta. intro e.
      destruct (mk_mutator_inplace_at ct sp l s c d k Hn Hk) as [E|[G [v E]]].
      { erewrite bind_err; [|exact E]. simpl. intros _. apply frame_refl. }
      erewrite bind_ok; [|exact E]. revert e.
      eapply err_frame_bind_framed with (Q := fun _ => True); eauto.
      { destruct (is_missing v).
        - eapply framed_weaken; [apply create_collection_framed; exact Hrec|auto].
        - now apply framed_ret. }
      intros cv s1 Hb1 Hn1.
      eapply cw_then_ok; eauto.
      + apply cw_result_acw.
        destruct (family_of (a_ty sp)) as [[]|];
          [apply acw_remove_seq|apply acw_remove_map|apply acw_remove_set|apply acw_fail].
      + intros u s2 Hn2. eapply mutate_attr_inplace_ok; eauto.
  Qed.

  (* obj.<helper>(..., _inplace=True) for every attribute-level and element-level
     helper, on any instance (frozen or not) whose attribute has no dependants:
     an exception leaves every pre-existing cell unchanged *)
  Theorem inplace_attr_helper_op_err_frame roots x hp a h s l c d k e :
    inplace_attr_helper hp = Some a ->
    nth x roots VNone = VRef l -> l < length (heap s) ->
    nth_error (heap s) l = Some (OInst c d) -> lookup_cls ct c = Some k ->
    no_dependants k a -> h_inplace h = true ->
    fst (step ct roots (OpHelper x hp h) s) = Err e ->
    frame (length (heap s)) s (snd (step ct roots (OpHelper x hp h) s)).
  Proof.
    intros Hhp Hx Hl Hn Hk Hd Hin. unfold step. rewrite Hx. cbn [loc_of].
    rewrite bind_ok with (a := l) (s1 := s) by reflexivity.
    apply (run_helper_inplace_err_frame (length (heap s)) l hp a h s c d k); auto.
  Qed.

  (* del obj.a *)
  Theorem delattr_op_err_frame roots x a s l c d k e :
    nth x roots VNone = VRef l -> l < length (heap s) ->
    nth_error (heap s) l = Some (OInst c d) -> lookup_cls ct c = Some k ->
    no_dependants k a ->
    fst (step ct roots (OpDelAttr x a) s) = Err e ->
    frame (length (heap s)) s (snd (step ct roots (OpDelAttr x a) s)).
  Proof.
    intros Hx Hl Hn Hk Hd. unfold step. rewrite Hx. cbn [loc_of].
    rewrite bind_ok with (a := l) (s1 := s) by reflexivity.
    change (exec ct XFUEL (KDelAttr l a false false)) with (delattr_ ct (exec ct 39) l a false false).
    revert e. apply err_frame_then_ret.
    apply (delattr_err_frame ct no_dnc (length (heap s)) (exec ct 39)
             (exec_framed ct no_dnc (length (heap s)) 39) l a false s c d k); auto.
  Qed.
End ElemStep.
