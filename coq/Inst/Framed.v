(* A Hoare-style judgement for the state-and-exception monad: `framed b m Q`
   says that, started in any state with at least b heap cells, m writes no
   cell below b (whether it ends in Ok or Err) and an Ok result satisfies Q. *)
From Coq Require Import List ZArith Bool Arith Lia.
From SC Require Import Base.Res Inst.Heap.
Import ListNotations.
Open Scope nat_scope.

Definition frame (b : nat) (s s' : state) : Prop :=
  length (heap s) <= length (heap s') /\
  forall l, l < b -> nth_error (heap s') l = nth_error (heap s) l.

Lemma frame_refl b s : frame b s s.
Proof. split; auto. Qed.

Lemma frame_trans b s1 s2 s3 : frame b s1 s2 -> frame b s2 s3 -> frame b s1 s3.
Proof.
  intros [L1 H1] [L2 H2]. split; [lia|]. intros l Hl. rewrite H2, H1; auto.
Qed.

Definition framed {A} (b : nat) (m : M A) (Q : A -> Prop) : Prop :=
  forall s, b <= length (heap s) ->
    frame b s (snd (m s)) /\ match fst (m s) with Ok a => Q a | Err _ => True end.

Lemma framed_ret {A} b (a : A) (Q : A -> Prop) : Q a -> framed b (ret a) Q.
Proof. intros H s _. simpl. split; [apply frame_refl|exact H]. Qed.

Lemma framed_fail {A} b e (Q : A -> Prop) : framed b (fail e) Q.
Proof. intros s _. simpl. split; [apply frame_refl|exact I]. Qed.

Lemma framed_weaken {A} b (m : M A) (Q Q' : A -> Prop) :
  framed b m Q -> (forall a, Q a -> Q' a) -> framed b m Q'.
Proof.
  intros H W s Hs. destruct (H s Hs) as [F P]. split; auto.
  destruct (fst (m s)); auto.
Qed.

Lemma framed_bind {A B} b (m : M A) (k : A -> M B) (Q : A -> Prop) (R : B -> Prop) :
  framed b m Q -> (forall a, Q a -> framed b (k a) R) -> framed b (bind m k) R.
Proof.
  intros Hm Hk s Hs. unfold bind. specialize (Hm s Hs).
  destruct (m s) as [[a|e] s1]; simpl in *.
  - destruct Hm as [F Qa]. assert (Hs1 : b <= length (heap s1)) by (destruct F; lia).
    destruct (Hk a Qa s1 Hs1) as [F2 P]. split; auto. eapply frame_trans; eauto.
  - tauto.
Qed.

Lemma framed_alloc b o : framed b (alloc o) (fun l => b <= l).
Proof.
  intros s Hs. unfold alloc, frame. simpl. split; [|exact Hs]. split.
  - rewrite app_length. lia.
  - intros l Hl. apply nth_error_app1. lia.
Qed.

Lemma framed_read b l : framed b (read l) (fun _ => True).
Proof.
  intros s _. unfold read. destruct (nth_error (heap s) l); simpl; split; auto using frame_refl.
Qed.

Lemma set_nth_length {A} n (x : A) l : length (set_nth n x l) = length l.
Proof. revert n; induction l; intros [|n]; simpl; auto. Qed.

Lemma set_nth_other {A} n m (x : A) l : n <> m -> nth_error (set_nth n x l) m = nth_error l m.
Proof.
  revert n m; induction l; intros [|n] [|m] H; simpl; auto; try congruence.
Qed.

Lemma framed_write b l o : b <= l -> framed b (write l o) (fun _ => True).
Proof.
  intros Hl s _. unfold write. destruct (l <? length (heap s)); simpl; split; auto using frame_refl.
  unfold frame; simpl. split; [rewrite set_nth_length; lia|]. intros l' Hl'. apply set_nth_other. lia.
Qed.

Lemma framed_tick b : framed b tick (fun _ => True).
Proof.
  intros s _. unfold tick. destruct (fail_at s) as [k|]; [destruct (k =? S (ncalls s))|];
    simpl; split; auto; unfold frame; simpl; split; auto.
Qed.

Lemma framed_catch {A} b (m k : M A) h (Q : A -> Prop) :
  framed b m Q -> framed b k Q -> framed b (catch m h k) Q.
Proof.
  intros Hm Hk s Hs. unfold catch. specialize (Hm s Hs).
  destruct (m s) as [[a|e] s1]; simpl in *; auto.
  destruct (h e); simpl; auto.
  destruct Hm as [F _]. assert (Hs1 : b <= length (heap s1)) by (destruct F; lia).
  destruct (Hk s1 Hs1) as [F2 P]. split; auto. eapply frame_trans; eauto.
Qed.

Lemma framed_finally {A} b (m : M A) (c : M unit) (Q : A -> Prop) :
  framed b m Q -> framed b c (fun _ => True) -> framed b (finally_ m c) Q.
Proof.
  intros Hm Hc s Hs. unfold finally_. specialize (Hm s Hs).
  destruct (m s) as [[a|e] s1]; simpl in *; destruct Hm as [F P];
    assert (Hs1 : b <= length (heap s1)) by (destruct F; lia);
    destruct (Hc s1 Hs1) as [F2 _].
  - destruct (c s1) as [[u|e] s2]; simpl in *; split; auto; eapply frame_trans; eauto.
  - split; auto. eapply frame_trans; eauto.
Qed.

Lemma framed_iterM {A} b (f : A -> M unit) (l : list A) :
  (forall x, In x l -> framed b (f x) (fun _ => True)) -> framed b (iterM f l) (fun _ => True).
Proof.
  induction l as [|x l IH]; intro H; simpl.
  - now apply framed_ret.
  - eapply framed_bind; [apply H; simpl; auto|]. intros _ _. apply IH. intros; apply H; simpl; auto.
Qed.

Lemma framed_foldM {A B} b (f : B -> A -> M B) (l : list A) (P : B -> Prop) :
  (forall acc x, In x l -> P acc -> framed b (f acc x) P) ->
  forall acc, P acc -> framed b (foldM f l acc) P.
Proof.
  induction l as [|x l IH]; intros H acc Hacc; simpl.
  - now apply framed_ret.
  - eapply framed_bind; [apply H; simpl; auto|]. intros acc' Hacc'.
    apply IH; auto. intros; apply H; simpl; auto.
Qed.

Lemma framed_mapM {A B} b (f : A -> M B) (l : list A) :
  (forall x, In x l -> framed b (f x) (fun _ => True)) -> framed b (mapM f l) (fun _ => True).
Proof.
  induction l as [|x l IH]; intro H; simpl.
  - now apply framed_ret.
  - eapply framed_bind; [apply H; simpl; auto|]. intros y _.
    eapply framed_bind; [apply IH; intros; apply H; simpl; auto|]. intros ys _. now apply framed_ret.
Qed.

(* running a framed computation *)
Lemma framed_run {A} b (m : M A) (Q : A -> Prop) s :
  framed b m Q -> b <= length (heap s) -> frame b s (snd (m s)).
Proof. intros H Hs. apply (H s Hs). Qed.

Definition freshv (b : nat) (v : val) : Prop :=
  match v with VRef l => b <= l | _ => True end.
