(* C06: eleventh layer: update_<item>(target, new) when the class declares an
   item preparer (pool function on scalars): the new element is run through
   the preparer; lists, dicts and sets of proper scalars, in place and
   copy-on-write.  (Without a new value nothing is prepared: the element stays.) *)
From Coq Require Import List ZArith Bool Arith Lia.
From SC Require Import Base.Res Base.PyList Inst.Heap Inst.ClassTable Inst.Model Inst.Canon
  Inst.Abs Inst.SpecHelpers Inst.ElemProofs Inst.Framed Inst.RefineProofs Inst.CopyProofs Inst.ElemRefineDep Inst.CopyStore
  Inst.ElemRefine Inst.ElemRefine2 Inst.ElemRefine3 Inst.ElemRefine4 Inst.ElemRefine5 Inst.ElemRefine6
  Inst.ElemRefine7 Inst.ElemRefine8 Inst.ElemRefine9 Inst.ElemRefine10.
Import ListNotations.
Open Scope nat_scope.

#[local] Opaque FUEL.
Local Opaque py_eq.

(* what the value procedure of update_<item> returns for the element it is handed *)
Definition up_pr_p (sp : attr_spec) (v old : val) : res val :=
  if vscalar v then prep_val sp v else if vscalar old then Ok old else Err RuntimeErr.
Definition up_st_p (sp : attr_spec) (v : val) (s1 : state) : state :=
  if vscalar v then prep_st sp s1 else s1.

Section UpdatePieces.
  Variable ct : ctable.
  Variable h0 : list obj.
  Variables (l : loc) (sp : attr_spec).
  Variable s : state.
  Hypothesis Hpok : prep_ok sp.
  Hypothesis Hstrict : spec_of_ty_strict (item_type (a_ty sp)) = None.
  Hypothesis Hfa : fail_at s = None.

  Lemma up_st_p_heap v s1 : heap (up_st_p sp v s1) = heap s1.
  Proof. unfold up_st_p. destruct (vscalar v); [apply prep_st_heap|reflexivity]. Qed.

  Lemma up_mv_p v : nonref v = true ->
    forall s1, fail_at s1 = fail_at s -> forall old, vscalar v = true \/ vscalar old = true ->
    mutate_value ct (exec ct 39) (mkmv old v false (PItem sp l) None (Some (ctor_of_ty (item_type (a_ty sp))))
                                       (Some (item_type (a_ty sp))) None [] false) s1
    = (up_pr_p sp v old, up_st_p sp v s1).
  Proof.
    intros Hnv s1 Hf1 old Ho. unfold up_pr_p, up_st_p. destruct (vscalar v) eqn:Esv.
    - apply mutate_value_new_prep; auto. congruence.
    - destruct Ho as [Ho|Ho]; [discriminate|]. rewrite Ho. now apply mutate_value_update_sentinel.
  Qed.

  Lemma up_prn_p v : nonref v = true -> forall old v', up_pr_p sp v old = Ok v' -> nonref v' = true.
  Proof.
    intros Hnv old v'. unfold up_pr_p. destruct (vscalar v) eqn:Esv.
    - intro E. apply vscalar_nonref. exact (prep_val_scalar sp v v' Hpok Esv E).
    - destruct (vscalar old) eqn:Eso; [|discriminate]. intro E; inversion E; subst. now apply vscalar_nonref.
  Qed.

  Lemma up_pipe_p v : nonref v = true -> forall old, vscalar old = true ->
    elem_pipeline ct h0 sp (abs0 old) (abs0 v) false None None [] =
    match up_pr_p sp v old with
    | Ok v' => if conforms ct (item_type (a_ty sp)) (abs0 v') then SOk (abs0 v') else SErr ValueErr
    | Err e => SErr e end.
  Proof.
    intros Hnv old Hso. unfold up_pr_p. destruct (vscalar v) eqn:Esv.
    - now apply elem_pipeline_new_prep.
    - rewrite Hso. unfold elem_pipeline.
      destruct v; cbn [vscalar nonref] in Esv, Hnv; try discriminate; cbn [abs0].
      + now rewrite (spec_value_keep ct h0 sp _ old AMissing None _ Hso eq_refl).
      + now rewrite (spec_value_keep ct h0 sp _ old AEmpty None _ Hso eq_refl).
      + reflexivity.
  Qed.
End UpdatePieces.

Section UpdatePrepThms.
  Variable ct : ctable.
  Variable h0 : list obj.
  Variables (l : loc) (a : aid) (c : cid) (d : list (aid * val)) (k : cls) (sp : attr_spec).
  Variable s : state.
  Variable lc : loc.
  Hypothesis Hl : nth_error (heap s) l = Some (OInst c d).
  Hypothesis Hc : lookup_cls ct c = Some k.
  Hypothesis Ha : lookup_attr k a = Some sp.
  Hypothesis Hd : NoDup (map fst d).
  Hypothesis Hni : no_dep k a.
  Hypothesis Hfld : assoc a d = Some (VRef lc).
  Hypothesis Hflat : flat_fields (heap s) d.
  Hypothesis Hpok : prep_ok sp.
  Hypothesis Hfa : fail_at s = None.

  (* ======================= lists ======================= *)
  Section ListU.
    Variables (xs : list val) (ity : ty).
    Hypothesis Hty : a_ty sp = TList ity.
    Hypothesis Hstrict : spec_of_ty_strict ity = None.
    Hypothesis Hdepth : ty_depth ity < FUEL.
    Hypothesis Hlc : nth_error (heap s) lc = Some (OList xs).
    Hypothesis Hxs : forallb vscalar xs = true.

    Lemma lu_item : item_type (a_ty sp) = ity.
    Proof. now rewrite Hty. Qed.
    Lemma lu_strict : spec_of_ty_strict (item_type (a_ty sp)) = None.
    Proof. now rewrite lu_item. Qed.
    Lemma lu_xn : forallb nonref xs = true.
    Proof. now apply vscalar_forall_nonref. Qed.

    Section Common.
      Variables (voi v : val) (bi : option bool).
      Hypothesis Hv : nonref voi = true.
      Hypothesis Hnv : nonref v = true.
      Hypothesis Hid : vscalar v = false -> by_index_rule ct ity (abs0 voi) bi = false -> ident_on_eq ct xs voi = true.
      Let okold := fun old : val => vscalar v = true \/ vscalar old = true.

      Lemma lu_mv : forall s1, fail_at s1 = fail_at s -> forall old, okold old ->
        mutate_value ct (exec ct 39) (mkmv old v false (PItem sp l) None (Some (ctor_of_ty ity)) (Some ity) None [] false) s1
        = (up_pr_p sp v old, up_st_p sp v s1).
      Proof.
        intros s1 Hf1 old Ho. pose proof (up_mv_p ct l sp s Hpok lu_strict Hfa v Hnv s1 Hf1 old Ho) as E.
        now rewrite lu_item in E.
      Qed.

      Lemma lu_in : forall old, In old xs -> okold old.
      Proof. intros old Ho. right. rewrite forallb_forall in Hxs. auto. Qed.

      Lemma lu_val : by_index_rule ct ity (abs0 voi) bi = false ->
        forall n, find_index (fun y => py_eq ct y (abs0 voi)) (map abs0 xs) = Some n ->
          okold voi /\ up_pr_p sp v voi = up_pr_p sp v (nth n xs VMissing).
      Proof.
        intros Hb n Ef. unfold okold, up_pr_p. destruct (vscalar v) eqn:Esv; [split; auto|].
        assert (Hn : n < length xs) by (apply find_index_lt in Ef; now rewrite map_length in Ef).
        rewrite (ident_on_eq_found ct xs voi n lu_xn Hv (Hid eq_refl Hb) Ef). split; auto. right.
        rewrite <- (ident_on_eq_found ct xs voi n lu_xn Hv (Hid eq_refl Hb) Ef).
        rewrite forallb_forall in Hxs. apply Hxs. now apply nth_In.
      Qed.

      Lemma lu_pipe : forall old, In old xs ->
        elem_pipeline ct h0 sp (abs0 old) (abs0 v) false None None [] =
        match up_pr_p sp v old with
        | Ok v' => if conforms ct ity (abs0 v') then SOk (abs0 v') else SErr ValueErr
        | Err e => SErr e end.
      Proof.
        intros old Ho. assert (Hso : vscalar old = true) by (rewrite forallb_forall in Hxs; auto).
        rewrite (up_pipe_p ct h0 sp Hpok lu_strict v Hnv old Hso). now rewrite lu_item.
      Qed.
    End Common.

    Theorem update_item_list_prep_inplace_refines voi v bi :
      c_frozen k = false -> (forall b w, In (b, w) d -> b <> a -> w <> VRef lc) ->
      nonref voi = true -> is_missing voi = false -> nonref v = true ->
      (vscalar v = false -> by_index_rule ct ity (abs0 voi) bi = false -> ident_on_eq ct xs voi = true) ->
      inplace_refines_spec ct h0 s l (HUpdateItem a) (mkh [voi; v] true true VMissing false bi None [] None)
                           (SUpdateItem a) (mkah [abs0 voi; abs0 v] true true AMissing false bi None [] None).
    Proof.
      intros Hfz Hshare Hv Hm Hnv Hid. unfold inplace_refines_spec.
      apply (ch_whole ct h0 l a c d k sp s lc xs ity Hl Hc Ha Hd Hfz Hni Hty Hdepth Hfld Hlc Hxs Hflat Hshare
               v None (fun old => vscalar v = true \/ vscalar old = true) (up_pr_p sp v) (up_st_p sp v s)
               (up_st_p_heap sp v s) (lu_mv v Hnv s eq_refl) (up_prn_p sp Hpok v Hnv) (lu_in v)
               voi bi (SUpdateItem a) (mkah [abs0 voi; abs0 v] true true AMissing false bi None [] None) false
               _ Hv Hm (lu_val voi v bi Hv Hid) eq_refl eq_refl (lu_pipe v Hnv) eq_refl eq_refl).
      unfold run_helper. cbn [h_if negb h_inplace].
      rewrite (bind_ok _ _ _ _ _ (fr_spec_for ct l a c d k sp s Hl Hc Ha)). cbn [snd].
      rewrite (bind_ok _ _ _ _ _ (fr_mk_mutator ct l a c d k sp s lc Hl Hc Ha Hfz Hfld)).
      rewrite Hty. cbn [family_of pos0 pos1 h_pos nth h_kw h_by_index]. rewrite Hm. reflexivity.
    Qed.

    Theorem update_item_list_prep_copy_refines voi v bi :
      c_dnc k = false -> c_post_copy k = None -> assoc A_INITIALIZING d = None -> a <> A_INITIALIZING ->
      nonref voi = true -> is_missing voi = false -> nonref v = true ->
      (vscalar v = false -> by_index_rule ct ity (abs0 voi) bi = false -> ident_on_eq ct xs voi = true) ->
      copy_refines_spec ct h0 s l (HUpdateItem a) (mkh [voi; v] false true VMissing false bi None [] None)
                        (SUpdateItem a) (mkah [abs0 voi; abs0 v] false true AMissing false bi None [] None).
    Proof.
      intros Hdnc Hpc Hinit Ha0 Hv Hm Hnv Hid. unfold copy_refines_spec.
      apply (cc_whole ct h0 l a c d k sp s lc xs ity Hl Hc Ha Hd Hdnc Hpc Hni Hty Hdepth Hfld Hlc Hxs Hflat Hinit Ha0
               v None (fun old => vscalar v = true \/ vscalar old = true) (up_pr_p sp v) (up_st_p sp v)
               (up_st_p_heap sp v) (lu_mv v Hnv) (up_prn_p sp Hpok v Hnv) (lu_in v)
               voi bi (SUpdateItem a) (mkah [abs0 voi; abs0 v] false true AMissing false bi None [] None) false
               _ Hv Hm (lu_val voi v bi Hv Hid) eq_refl eq_refl (lu_pipe v Hnv) eq_refl eq_refl eq_refl).
      rewrite (run_update_tail ct l a (mkh [voi; v] false true VMissing false bi None [] None) s eq_refl).
      rewrite (bind_ok _ _ _ _ _ (fr_spec_for ct l a c d k sp s Hl Hc Ha)). cbn [snd].
      unfold update_tail. rewrite Hty. cbn [family_of pos0 pos1 h_pos nth h_kw h_by_index h_inplace]. rewrite Hm.
      reflexivity.
    Qed.
  End ListU.

  (* ======================= dicts ======================= *)
  Section DictU.
    Variables (kvs : list (val * val)) (tk tv : ty).
    Hypothesis Hty : a_ty sp = TDict tk tv.
    Hypothesis Hstrict : spec_of_ty_strict tv = None.
    Hypothesis Hdk : ty_depth tk < FUEL.
    Hypothesis Hdv : ty_depth tv < FUEL.
    Hypothesis Hlc : nth_error (heap s) lc = Some (ODict kvs).
    Hypothesis Hkvs : forallb pair_nonref kvs = true.
    Hypothesis Hvp : vals_proper kvs = true.

    Lemma du_coll : ty_is_collection (a_ty sp) = true.
    Proof. now rewrite Hty. Qed.
    Lemma du_item : item_type (a_ty sp) = tv.
    Proof. now rewrite Hty. Qed.
    Lemma du_strict : spec_of_ty_strict (item_type (a_ty sp)) = None.
    Proof. now rewrite du_item. Qed.

    Lemma update_tail_dict_p ip key v :
      nonref key = true -> nonref v = true ->
      forall s1 lc1, nth_error (heap s1) lc1 = Some (ODict kvs) -> fail_at s1 = fail_at s ->
      exists st, heap st = heap s1 /\
        update_tail ct l a sp (mkh [key; v] ip true VMissing false None None [] None) (VRef lc1) s1 =
        match dict_change_pure ct tk tv kvs key (up_pr_p sp v) with
        | inl o' => mutate_attr ct (exec ct XFUEL) l a (VRef lc1) ip false false false (upd st lc1 o')
        | inr e => (Err e, st) end.
    Proof.
      intros Hk Hnv s1 lc1 H1 Hf1. unfold update_tail. rewrite Hty.
      cbn [family_of pos0 pos1 h_pos nth h_kw h_inplace].
      refine (change_tail_dict ct l a sp tk tv kvs Hty Hdk Hdv Hkvs Hvp s v None (up_pr_p sp v) (up_st_p sp v)
               (up_st_p_heap sp v) _ (up_prn_p sp Hpok v Hnv) TriTrue ip key s1 lc1 Hk H1 Hf1).
      intros s2 Hf2 old Ho. apply (up_mv_p ct l sp s Hpok du_strict Hfa v Hnv s2 Hf2 old). now right.
    Qed.

    Lemma update_spec_dict_p ip key v :
      nonref key = true -> is_missing key = false -> nonref v = true ->
      spec_change_item ct h0 sp (aobj (ODict kvs)) (mkah [abs0 key; abs0 v] ip true AMissing false None None [] None) false =
      match dict_change_pure ct tk tv kvs key (up_pr_p sp v) with inl o' => SOk (aobj o') | inr e => SErr e end.
    Proof.
      intros Hk Hm Hnv.
      apply (dict_change_pure_spec ct h0 sp tk tv kvs Hty Hkvs Hvp (up_pr_p sp v)
               (mkah [abs0 key; abs0 v] ip true AMissing false None None [] None) false key Hk Hm eq_refl).
      intros old Ho. cbn [apos1 ah_pos nth ah_kw].
      rewrite (up_pipe_p ct h0 sp Hpok du_strict v Hnv old Ho). now rewrite du_item.
    Qed.

    Theorem update_item_dict_prep_inplace_refines key v :
      c_frozen k = false -> (forall b w, In (b, w) d -> b <> a -> w <> VRef lc) ->
      nonref key = true -> is_missing key = false -> nonref v = true ->
      inplace_refines_spec ct h0 s l (HUpdateItem a) (mkh [key; v] true true VMissing false None None [] None)
                           (SUpdateItem a) (mkah [abs0 key; abs0 v] true true AMissing false None None [] None).
    Proof.
      intros Hfz Hshare Hk Hm Hnv. unfold inplace_refines_spec.
      apply (ip_whole ct h0 l a c d k sp s lc (ODict kvs) Hl Hc Ha Hd Hfz Hni du_coll Hfld Hlc Hkvs Hflat Hshare
               (update_tail ct l a sp (mkh [key; v] true true VMissing false None None [] None))
               (dict_change_pure ct tk tv kvs key (up_pr_p sp v)))
        with (edit := fun sp c h => spec_change_item ct h0 sp c h false); try reflexivity.
      - now apply update_tail_dict_p.
      - intros o'. apply (dict_change_pure_scalar ct tk tv kvs Hkvs (up_pr_p sp v) (up_prn_p sp Hpok v Hnv) key o' Hk).
      - now apply update_spec_dict_p.
      - now apply (run_update_ip ct l a c d k sp s Hl Hc Ha).
    Qed.

    Theorem update_item_dict_prep_copy_refines key v :
      c_dnc k = false -> c_post_copy k = None -> assoc A_INITIALIZING d = None -> a <> A_INITIALIZING ->
      nonref key = true -> is_missing key = false -> nonref v = true ->
      copy_refines_spec ct h0 s l (HUpdateItem a) (mkh [key; v] false true VMissing false None None [] None)
                        (SUpdateItem a) (mkah [abs0 key; abs0 v] false true AMissing false None None [] None).
    Proof.
      intros Hdnc Hpc Hinit Ha0 Hk Hm Hnv. unfold copy_refines_spec.
      apply (fc_whole_gen ct h0 l a c d k sp s lc (ODict kvs) Hl Hc Ha Hd Hdnc Hpc Hni du_coll Hfld Hlc Hkvs Hflat Hinit Ha0
               (update_tail ct l a sp (mkh [key; v] false true VMissing false None None [] None))
               (dict_change_pure ct tk tv kvs key (up_pr_p sp v)))
        with (edit := fun sp c h => spec_change_item ct h0 sp c h false); try reflexivity.
      - now apply update_tail_dict_p.
      - intros o'. apply (dict_change_pure_scalar ct tk tv kvs Hkvs (up_pr_p sp v) (up_prn_p sp Hpok v Hnv) key o' Hk).
      - now apply update_spec_dict_p.
      - now apply (run_update_cp ct l a c d k sp s Hl Hc Ha).
    Qed.
  End DictU.

  (* ======================= sets ======================= *)
  Section SetU.
    Variables (xs : list val) (ity : ty).
    Hypothesis Hty : a_ty sp = TSet ity.
    Hypothesis Hstrict : spec_of_ty_strict ity = None.
    Hypothesis Hdepth : ty_depth ity < FUEL.
    Hypothesis Hlc : nth_error (heap s) lc = Some (OSet xs).
    Hypothesis Hxs : forallb nonref xs = true.

    Lemma su_coll : ty_is_collection (a_ty sp) = true.
    Proof. now rewrite Hty. Qed.
    Lemma su_item : item_type (a_ty sp) = ity.
    Proof. now rewrite Hty. Qed.
    Lemma su_strict : spec_of_ty_strict (item_type (a_ty sp)) = None.
    Proof. now rewrite su_item. Qed.

    Lemma update_tail_set_p ip voi v :
      vscalar voi = true -> nonref v = true ->
      forall s1 lc1, nth_error (heap s1) lc1 = Some (OSet xs) -> fail_at s1 = fail_at s ->
      exists st, heap st = heap s1 /\
        update_tail ct l a sp (mkh [voi; v] ip true VMissing false None None [] None) (VRef lc1) s1 =
        match set_change_pure ct ity xs voi (up_pr_p sp v) with
        | inl o' => mutate_attr ct (exec ct XFUEL) l a (VRef lc1) ip false false false (upd st lc1 o')
        | inr e => (Err e, st) end.
    Proof.
      intros Hv Hnv s1 lc1 H1 Hf1. unfold update_tail. rewrite Hty.
      cbn [family_of pos0 pos1 h_pos nth h_kw h_inplace].
      assert (Hm : is_missing voi = false) by (destruct voi; cbn [vscalar] in Hv; try discriminate; reflexivity).
      rewrite Hm. cbn [negb].
      refine (change_tail_set ct l a sp ity xs Hty Hdepth Hxs s v None (up_pr_p sp v) (up_st_p sp v)
               (up_st_p_heap sp v) _ (up_prn_p sp Hpok v Hnv) TriTrue ip voi s1 lc1 Hv H1 Hf1).
      intros s2 Hf2 old Ho. apply (up_mv_p ct l sp s Hpok su_strict Hfa v Hnv s2 Hf2 old). now right.
    Qed.

    Lemma update_spec_set_p ip voi v :
      vscalar voi = true -> nonref v = true -> ident_on_eq ct xs voi = true ->
      (forall v', up_pr_p sp v voi = Ok v' -> set_key_free ct xs v' = true) ->
      spec_change_item ct h0 sp (aobj (OSet xs)) (mkah [abs0 voi; abs0 v] ip true AMissing false None None [] None) false =
      match set_change_pure ct ity xs voi (up_pr_p sp v) with inl o' => SOk (aobj o') | inr e => SErr e end.
    Proof.
      intros Hv Hnv Hid Hkf.
      apply (set_change_pure_spec ct h0 sp ity xs Hty Hxs (up_pr_p sp v) (up_prn_p sp Hpok v Hnv)
               (mkah [abs0 voi; abs0 v] ip true AMissing false None None [] None) false voi Hv eq_refl Hid Hkf).
      cbn [apos1 ah_pos nth ah_kw].
      rewrite (up_pipe_p ct h0 sp Hpok su_strict v Hnv voi Hv). now rewrite su_item.
    Qed.

    Theorem update_item_set_prep_inplace_refines voi v :
      c_frozen k = false -> (forall b w, In (b, w) d -> b <> a -> w <> VRef lc) ->
      vscalar voi = true -> nonref v = true -> ident_on_eq ct xs voi = true ->
      (forall v', up_pr_p sp v voi = Ok v' -> set_key_free ct xs v' = true) ->
      inplace_refines_spec ct h0 s l (HUpdateItem a) (mkh [voi; v] true true VMissing false None None [] None)
                           (SUpdateItem a) (mkah [abs0 voi; abs0 v] true true AMissing false None None [] None).
    Proof.
      intros Hfz Hshare Hv Hnv Hid Hkf. unfold inplace_refines_spec.
      apply (ip_whole ct h0 l a c d k sp s lc (OSet xs) Hl Hc Ha Hd Hfz Hni su_coll Hfld Hlc Hxs Hflat Hshare
               (update_tail ct l a sp (mkh [voi; v] true true VMissing false None None [] None))
               (set_change_pure ct ity xs voi (up_pr_p sp v)))
        with (edit := fun sp c h => spec_change_item ct h0 sp c h false); try reflexivity.
      - now apply update_tail_set_p.
      - intros o'. apply (set_change_pure_scalar ct ity xs Hxs (up_pr_p sp v) (up_prn_p sp Hpok v Hnv) voi o').
      - now apply update_spec_set_p.
      - now apply (run_update_ip ct l a c d k sp s Hl Hc Ha).
    Qed.

    Theorem update_item_set_prep_copy_refines voi v :
      c_dnc k = false -> c_post_copy k = None -> assoc A_INITIALIZING d = None -> a <> A_INITIALIZING ->
      vscalar voi = true -> nonref v = true -> ident_on_eq ct xs voi = true ->
      (forall v', up_pr_p sp v voi = Ok v' -> set_key_free ct xs v' = true) ->
      copy_refines_spec ct h0 s l (HUpdateItem a) (mkh [voi; v] false true VMissing false None None [] None)
                        (SUpdateItem a) (mkah [abs0 voi; abs0 v] false true AMissing false None None [] None).
    Proof.
      intros Hdnc Hpc Hinit Ha0 Hv Hnv Hid Hkf. unfold copy_refines_spec.
      apply (fc_whole_gen ct h0 l a c d k sp s lc (OSet xs) Hl Hc Ha Hd Hdnc Hpc Hni su_coll Hfld Hlc Hxs Hflat Hinit Ha0
               (update_tail ct l a sp (mkh [voi; v] false true VMissing false None None [] None))
               (set_change_pure ct ity xs voi (up_pr_p sp v)))
        with (edit := fun sp c h => spec_change_item ct h0 sp c h false); try reflexivity.
      - now apply update_tail_set_p.
      - intros o'. apply (set_change_pure_scalar ct ity xs Hxs (up_pr_p sp v) (up_prn_p sp Hpok v Hnv) voi o').
      - now apply update_spec_set_p.
      - now apply (run_update_cp ct l a c d k sp s Hl Hc Ha).
    Qed.
  End SetU.
End UpdatePrepThms.
